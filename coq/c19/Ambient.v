(* C19 — the REVIEWED allow-list of ambient references of package gojq, checked against the list that
   tools/go2coq/ambient regenerates from the current tree (coq/gen/GenAmbient.v).

   A reference (file, function, selector) is allowed iff
     - it is time.Now inside funcNow (jq `now`), or
     - it is time.Local inside funcLocaltime / funcStrflocaltime (jq `localtime`, `strflocaltime`), or
     - it is one of the os / path/filepath / io.ReadAll selectors below inside one of the functions of the
       EXPLICIT file-system module loader of module_loader.go (only reachable through the exported
       constructor NewModuleLoader, which nothing else in the package mentions: loader_inrefs), or
     - it is the goyacc debug trace fmt.Printf in parser.go (guarded by the constant yyDebug = 0).
   This is a finite check over the regenerated list, proved by computation; it is stated as such. *)
From Coq Require Import List String Bool.
From Verif Require Import gen.GenAmbient.
Import ListNotations.
Open Scope string_scope.

Definition mem (s : string) (l : list string) : bool := existsb (String.eqb s) l.

Definition loader_functions : list string :=
  ["moduleLoader.LoadInitModules"; "moduleLoader.LoadModuleWithMeta"; "moduleLoader.LoadJSONWithMeta";
   "moduleLoader.lookupModule"; "resolvePath"; "NewModuleLoader"; "parseModule"].

Definition loader_selectors : list string :=
  ["os.IsNotExist"; "os.ReadFile"; "os.Stat"; "os.Open"; "os.Executable"; "os.UserHomeDir";
   "path/filepath.Base"; "path/filepath.Dir"; "path/filepath.Join"; "path/filepath.IsAbs";
   "path/filepath.EvalSymlinks"; "io.ReadAll"].

Definition allowed (r : string * string * string) : bool :=
  let '(file, fn, sel) := r in
  if file =? "func.go" then
    ((fn =? "funcNow") && (sel =? "time.Now"))
    || (mem fn ["funcLocaltime"; "funcStrflocaltime"] && (sel =? "time.Local"))
  else if file =? "module_loader.go" then mem fn loader_functions && mem sel loader_selectors
  else if file =? "parser.go" then mem fn ["yyParserImpl.Parse"; "yylex1"] && (sel =? "fmt.Printf")
  else false.

(* imports of packages not known to be pure: only module_loader.go, only os and path/filepath *)
Definition allowed_import (i : string * string) : bool :=
  let '(file, pkg) := i in (file =? "module_loader.go") && mem pkg ["os"; "path/filepath"].

(* how the rest of the package may mention what module_loader.go declares: only the interface type
   ModuleLoader (= any); never NewModuleLoader, moduleLoader, resolvePath, parseModule *)
Definition allowed_inref (r : string * string * string) : bool :=
  let '(_, _, ident) := r in ident =? "ModuleLoader".

(* the names excluded from the "output is a function of query and input" comparison must be exactly
   the reviewed ones (the harness receives the regenerated list) *)
Definition reviewed_time_dependent : list string := ["localtime"; "now"; "strflocaltime"].

Definition ambient_okb : bool :=
  forallb allowed ambient_refs && forallb allowed_import ambient_imports
  && forallb allowed_inref loader_inrefs
  && forallb (fun n => mem n reviewed_time_dependent) time_dependent_builtins
  && mem "module_loader.go" ambient_files && mem "func.go" ambient_files && mem "compiler.go" ambient_files
  && mem "option.go" ambient_files && mem "execute.go" ambient_files.

(* the default path: files other than module_loader.go hold no os / filepath / file-read reference *)
Definition default_path_clean : Prop :=
  forall file fn sel, In (file, fn, sel) ambient_refs -> file <> "module_loader.go" ->
    (file = "func.go" /\ (sel = "time.Now" \/ sel = "time.Local")) \/ (file = "parser.go" /\ sel = "fmt.Printf").
