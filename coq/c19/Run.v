(* C19 correspondence: one harness line -> verdict.  Line forms (harness/c19/main.go):
     (arity (regs (name min max iter cb)…) name cnt IMPL)       IMPL = panic | rejected | (called cb iter)
     (builtins (regs …) (names n…) (impl (name arity)…))        custom entries of `builtins`, in its order
     (vars (names n…) (values x…) v IMPL)                       IMPL = toomany | (expected n) | (bound v' (n x)…)
     (env (loader hex…) (impl (hexk hexv)…))  |  (env none (impl …))
     (input (vals x…) ncalls (impl r…))                         r = x | break
   names / callbacks / values are decimal naturals.  (spec <line>) judges the same line by the property's
   own reading (no masks, no slots): covered-by-some-registration, last position of a name, last k=v entry. *)
From Coq Require Import List NArith Bool String.
From Verif Require Import common.Sexp c19.OptModel.
Import ListNotations.
Open Scope N_scope.

Definition dec_N (e : sexp) : option N := match e with Atom a => parse_N a | _ => None end.
Fixpoint dec_list {A} (f : sexp -> option A) (l : list sexp) : option (list A) :=
  match l with
  | [] => Some []
  | x :: r => match f x, dec_list f r with Some a, Some t => Some (a :: t) | _, _ => None end
  end.
Definition tagged (t : string) (e : sexp) : option (list sexp) :=
  match e with SList (k :: r) => if atom_is t k then Some r else None | _ => None end.

Definition dec_reg (e : sexp) : option reg :=
  match e with
  | SList [n; mn; mx; it; cb] =>
      match dec_N n, dec_N mn, dec_N mx, dec_N it, dec_N cb with
      | Some n, Some mn, Some mx, Some it, Some cb =>
          Some {| rname := n; rmin := mn; rmax := mx; riter := negb (it =? 0); rcb := cb |}
      | _, _, _, _, _ => None
      end
  | _ => None
  end.
Definition dec_regs (e : sexp) : option (list reg) :=
  match tagged "regs" e with Some l => dec_list dec_reg l | None => None end.
Definition dec_Ns (t : string) (e : sexp) : option (list N) :=
  match tagged t e with Some l => dec_list dec_N l | None => None end.

Definition b2n (b : bool) : N := if b then 1 else 0.
Definition enc_N (n : N) : sexp := Atom (print_N n).
Definition bad (e : sexp) : sexp := SList [A "bad"; e].
Definition enc_call (r : option (N * bool)) : sexp :=
  match r with
  | Some (cb, it) => SList [A "called"; enc_N cb; enc_N (b2n it)]
  | None => A "rejected"
  end.
Definition call_eqb (r : option (N * bool)) (impl : sexp) : bool :=
  match r, impl with
  | None, _ => atom_is "rejected" impl
  | Some (cb, it), SList [k; c; i] =>
      atom_is "called" k && match dec_N c, dec_N i with
                            | Some c, Some i => (c =? cb) && (i =? b2n it) | _, _ => false end
  | _, _ => false
  end.

Definition pairs_eqb (a b : list (N * N)) : bool :=
  Nat.eqb (List.length a) (List.length b) && forallb (fun p => (fst (fst p) =? fst (snd p)) && (snd (fst p) =? snd (snd p))) (combine a b).
Definition dec_pair (e : sexp) : option (N * N) :=
  match e with SList [a; b] => match dec_N a, dec_N b with Some a, Some b => Some (a, b) | _, _ => None end | _ => None end.
Definition enc_pairs (l : list (N * N)) : sexp := SList (map (fun p => SList [enc_N (fst p); enc_N (snd p)]) l).

Definition dec_hex (e : sexp) : option (list N) := match e with Atom a => parse_hexs a | _ => None end.
Definition dec_hpair (e : sexp) : option (list N * list N) :=
  match e with SList [a; b] => match dec_hex a, dec_hex b with Some a, Some b => Some (a, b) | _, _ => None end | _ => None end.

(* impl object = model association list (last wins), as sets of pairs *)
Definition env_agrees (look : list N -> option (list N)) (keys : list (list N)) (impl : list (list N * list N)) : bool :=
  forallb (fun p => match look (fst p) with Some v => bytes_eqb v (snd p) | None => false end) impl
  && forallb (fun k => existsb (fun p => bytes_eqb (fst p) k) impl) keys.

Definition enc_input (r : input_result N) : sexp :=
  match r with
  | InputValue _ x => enc_N x
  | InputError _ x => SList [A "e"; enc_N x]
  | InputBreak _ => A "break"
  end.
Definition input_eqb (r : input_result N) (e : sexp) : bool :=
  match r with
  | InputValue _ x => match dec_N e with Some y => x =? y | None => false end
  | InputError _ x => match e with SList [t; y] => atom_is "e" t && match dec_N y with Some y => x =? y | None => false end | _ => false end
  | InputBreak _ => atom_is "break" e
  end.
Definition dec_item (e : sexp) : option (input_item N) :=
  match e with
  | SList [t; y] => if atom_is "e" t then option_map (ItErr N) (dec_N y) else None
  | _ => option_map (ItVal N) (dec_N e)
  end.
Definition dec_items (e : sexp) : option (list (input_item N)) :=
  match tagged "vals" e with Some l => dec_list dec_item l | None => None end.
Fixpoint all2 {A B} (f : A -> B -> bool) (a : list A) (b : list B) : bool :=
  match a, b with
  | [], [] => true
  | x :: a', y :: b' => f x y && all2 f a' b'
  | _, _ => false
  end.

Definition bound_ok (look : N -> option N) (v : N) (impl : list sexp) : bool :=
  match impl with
  | v' :: ps =>
      match dec_N v', dec_list dec_pair ps with
      | Some v', Some ps => (v' =? v) && forallb (fun p => match look (fst p) with Some x => x =? snd p | None => false end) ps
      | _, _ => false
      end
  | [] => false
  end.

(* ------------------------------------------------------------------ model verdicts *)
Definition run_model (e : sexp) : sexp :=
  match e with
  | SList [k; rs; n; cnt; impl] =>
      if atom_is "arity" k then
        match dec_regs rs, dec_N n, dec_N cnt with
        | Some rs, Some n, Some cnt =>
            match apply_opts rs empty_table with
            | None => if atom_is "panic" impl then A "ok" else bad (A "panic")
            | Some c => let r := lookup_custom c n cnt in if call_eqb r impl then A "ok" else bad (enc_call r)
            end
        | _, _, _ => A "undecodable"
        end
      else if atom_is "vars" k then
        match dec_Ns "names" rs, dec_Ns "values" n, dec_N cnt with
        | Some names, Some values, Some v =>
            match run_vars N names v values with
            | TooManyValues _ => if atom_is "toomany" impl then A "ok" else bad (A "toomany")
            | ExpectedVariable _ nm =>
                match tagged "expected" impl with
                | Some [x] => if match dec_N x with Some x => x =? nm | None => false end then A "ok"
                              else bad (SList [A "expected"; enc_N nm])
                | _ => bad (SList [A "expected"; enc_N nm])
                end
            | Running _ st vs env as r =>
                match tagged "bound" impl, st with
                | Some l, [v'] => if (v' =? v) && bound_ok (lookup_var N r) v l then A "ok" else bad (A "bound-differs")
                | _, _ => bad (A "bound")
                end
            | Stuck _ => A "modelstuck"
            end
        | _, _, _ => A "undecodable"
        end
      else A "undecodable"
  | SList [k; rs; ns; impl] =>
      if atom_is "builtins" k then
        match dec_regs rs, dec_Ns "names" ns, tagged "impl" impl with
        | Some rs, Some names, Some l =>
            match apply_opts rs empty_table, dec_list dec_pair l with
            | Some c, Some l => let m := builtins_of c names in
                                if pairs_eqb m l then A "ok" else bad (enc_pairs m)
            | _, _ => A "undecodable"
            end
        | _, _, _ => A "undecodable"
        end
      else if atom_is "input" k then
        match dec_items rs, dec_N ns, tagged "impl" impl with
        | Some vals, Some n, Some l =>
            let m := input_calls N (N.to_nat n) vals in
            if all2 input_eqb m l then A "ok" else bad (SList (map enc_input m))
        | _, _, _ => A "undecodable"
        end
      else A "undecodable"
  | SList [k; ld; impl] =>
      if atom_is "env" k then
        match tagged "impl" impl with
        | Some l =>
            match dec_list dec_hpair l with
            | Some l =>
                let kvs := if atom_is "none" ld then Some []
                           else match tagged "loader" ld with Some x => dec_list dec_hex x | None => None end in
                match kvs with
                | Some kvs =>
                    (* compile_special … SpEnv = BConstObject (env_pairs kvs) *)
                    match compile_special {| w_environ := []; w_files := fun _ => None; w_cwd := []; w_home := []; w_stdin := [] |}
                            {| o_module_loader := None;
                               o_environ_loader := if atom_is "none" ld then None else Some (fun _ => kvs);
                               o_input_iter := false |} SpEnv with
                    | BConstObject ps =>
                        if env_agrees (fun k => option_map snd (find (fun p => bytes_eqb (fst p) k) (rev ps))) (map fst ps) l
                        then A "ok"
                        else bad (SList (map (fun p => SList [Atom (print_hexs (fst p)); Atom (print_hexs (snd p))]) ps))
                    | _ => A "modelbad"
                    end
                | None => A "undecodable"
                end
            | None => A "undecodable"
            end
        | None => A "undecodable"
        end
      else A "undecodable"
  | _ => A "undecodable"
  end.

(* ------------------------------------------------------------------ the property's own reading *)
Definition spec_panics (rs : list reg) : bool :=
  existsb (fun r => negb ((rmin r <=? rmax r) && (rmax r <=? 30))) rs
  || existsb (fun r => existsb (fun r' => (rname r =? rname r') && negb (Bool.eqb (riter r) (riter r'))) rs) rs.
(* the property's reading: every arity a name was registered with is callable and runs ONE OF the functions
   registered for it (which one, when registrations overlap, is the code's business: model / arity_mask) *)
Definition spec_call_ok (rs : list reg) (n cnt : N) (impl : sexp) : bool :=
  match filter (covers n cnt) rs with
  | [] => atom_is "rejected" impl
  | l => existsb (fun r => call_eqb (Some (rcb r, riter r)) impl) l
  end.

(* split "k=v" at the first '=' by searching, independent of cut_eq *)
Fixpoint index_of (c : N) (l : list N) (i : nat) : option nat :=
  match l with [] => None | x :: r => if x =? c then Some i else index_of c r (S i) end.
Definition spec_env_lookup (kvs : list (list N)) (k : list N) : option (list N) :=
  let cands := filter (fun kv => match index_of 61 kv 0 with
                                 | Some i => negb (Nat.eqb i 0) && bytes_eqb (firstn i kv) k
                                 | None => false end) kvs in
  match rev cands with
  | kv :: _ => Some (skipn (S (List.length k)) kv)
  | [] => None
  end.
Definition spec_env_keys (kvs : list (list N)) : list (list N) :=
  flat_map (fun kv => match index_of 61 kv 0 with
                      | Some i => if Nat.eqb i 0 then [] else [firstn i kv]
                      | None => [] end) kvs.

Definition run_spec (e : sexp) : sexp :=
  match e with
  | SList [k; rs; n; cnt; impl] =>
      if atom_is "arity" k then
        match dec_regs rs, dec_N n, dec_N cnt with
        | Some rs, Some n, Some cnt =>
            if spec_panics rs then (if atom_is "panic" impl then A "ok" else bad (A "panic"))
            else if spec_call_ok rs n cnt impl then A "ok"
                 else bad (SList (A "one-of" :: map (fun r => enc_call (Some (rcb r, riter r))) (filter (covers n cnt) rs)))
        | _, _, _ => A "undecodable"
        end
      else if atom_is "vars" k then
        match dec_Ns "names" rs, dec_Ns "values" n, dec_N cnt with
        | Some names, Some values, Some v =>
            if Nat.ltb (List.length names) (List.length values) then (if atom_is "toomany" impl then A "ok" else bad (A "toomany"))
            else if Nat.ltb (List.length values) (List.length names) then
              match tagged "expected" impl with
              | Some [x] => if match dec_N x with Some x => x =? nth (List.length values) names 0 | None => false end
                            then A "ok" else bad (A "expected")
              | _ => bad (A "expected")
              end
            else match tagged "bound" impl with
                 | Some l => if bound_ok (bind_spec N names values) v l then A "ok" else bad (A "bound-differs")
                 | None => bad (A "bound")
                 end
        | _, _, _ => A "undecodable"
        end
      else A "undecodable"
  | SList [k; rs; ns; impl] =>
      if atom_is "builtins" k then
        match dec_regs rs, dec_Ns "names" ns, tagged "impl" impl with
        | Some rs, Some names, Some l =>
            match dec_list dec_pair l with
            | Some l =>
                let m := flat_map (fun nm => flat_map (fun a => if existsb (covers nm a) rs then [(nm, a)] else [])
                                                      (map N.of_nat (seq 0 64))) names in
                if pairs_eqb m l then A "ok" else bad (enc_pairs m)
            | None => A "undecodable"
            end
        | _, _, _ => A "undecodable"
        end
      else if atom_is "input" k then
        match dec_items rs, dec_N ns, tagged "impl" impl with
        | Some vals, Some n, Some l =>
            (* the property's reading: one item per call, in order — an error item is an error of that call only *)
            let m := map (fun i => match i with ItVal _ x => InputValue N x | ItErr _ x => InputError N x end)
                         (firstn (N.to_nat n) vals) ++ repeat (InputBreak N) (N.to_nat n - List.length vals) in
            if all2 input_eqb m l then A "ok" else bad (SList (map enc_input m))
        | _, _, _ => A "undecodable"
        end
      else A "undecodable"
  | SList [k; ld; impl] =>
      if atom_is "env" k then
        match tagged "impl" impl with
        | Some l =>
            match dec_list dec_hpair l with
            | Some l =>
                let kvs := if atom_is "none" ld then Some []
                           else match tagged "loader" ld with Some x => dec_list dec_hex x | None => None end in
                match kvs with
                | Some kvs => if env_agrees (spec_env_lookup kvs) (spec_env_keys kvs) l then A "ok" else bad (A "env-differs")
                | None => A "undecodable"
                end
            | None => A "undecodable"
            end
        | None => A "undecodable"
        end
      else A "undecodable"
  | _ => A "undecodable"
  end.

Definition run_line (l : list N) : list N :=
  match parse l with
  | Some (SList [k; e]) => if atom_is "spec" k then print (run_spec e) else print (run_model (SList [k; e]))
  | Some e => print (run_model e)
  | None => codes "unparsable"
  end.
