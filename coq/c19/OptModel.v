(* C19 model (definitions only): what the compile options of option.go put into the compiler and how
   compiler.go / execute.go consume it.

   option.go  withFunction      -> with_function (arity mask 1<<(max+1) - 1<<min, merge by OR, dispatch closure)
   func.go    function.accept   -> accept        (argcount & (1<<cnt) != 0)
   compiler.go compileFunc, customFuncs branch -> lookup_custom
   compiler.go Compile (opstore c.pushVariable(name) per WithVariables name), pushVariable, lookupVariable,
   compiler.go RunWithContext (count check), execute.go execute (push v, push values in reverse), opstore
                                -> compile_vars, run_vars, lookup_var
   compiler.go compileFunc `$ENV`/`env`, `input`, `modulemeta`; compileImport (nil loader) -> compile_special
   compiler.go funcInput        -> input_call *)
From Coq Require Import List NArith Bool.
Import ListNotations.
Open Scope N_scope.

(* ---------------------------------------------------------------- custom functions: arity masks *)

Record reg := { rname : N; rmin : N; rmax : N; riter : bool; rcb : N }.

(* !(0 <= minarity && minarity <= maxarity && maxarity <= 30) panics; 0 <= min holds in N *)
Definition valid_reg (r : reg) : bool := (rmin r <=? rmax r) && (rmax r <=? 30).

(* argcount := 1<<(maxarity+1) - 1<<minarity      (Go: << binds tighter than -) *)
Definition argcount_of (mn mx : N) : N := N.shiftl 1 (mx + 1) - N.shiftl 1 mn.

(* callback: which registered Go function (its id) is finally called for len(xs) arguments *)
Record fn := { argcount : N; iter : bool; callback : N -> N }.

(* argcount&(1<<cnt) != 0 *)
Definition bit_set (ac cnt : N) : bool := negb (N.land ac (N.shiftl 1 cnt) =? 0).
Definition accept (f : fn) (cnt : N) : bool := bit_set (argcount f) cnt.

Definition table := N -> option fn.
Definition empty_table : table := fun _ => None.
Definition upd (c : table) (k : N) (f : fn) : table := fun k' => if k' =? k then Some f else c k'.

(* None = panic (invalid arity at option creation, or iterator/non-iterator clash when applied) *)
Definition with_function (r : reg) (c : table) : option table :=
  if negb (valid_reg r) then None else
  let ac := argcount_of (rmin r) (rmax r) in
  match c (rname r) with
  | Some old =>
      if negb (Bool.eqb (iter old) (riter r)) then None
      else Some (upd c (rname r)
                   {| argcount := N.lor ac (argcount old); iter := riter r;
                      callback := fun len => if bit_set ac len then rcb r else callback old len |})
  | None => Some (upd c (rname r) {| argcount := ac; iter := riter r; callback := fun _ => rcb r |})
  end.

Fixpoint apply_opts (regs : list reg) (c : table) : option table :=
  match regs with
  | [] => Some c
  | r :: rs => match with_function r c with Some c' => apply_opts rs c' | None => None end
  end.

(* compileFunc: if fn, ok := c.customFuncs[name]; ok && fn.accept(len(args)) -> opcall fn.callback
   (+ opiter if fn.iter); otherwise funcNotFoundError.  Result: (id of the Go function run, iter flag) *)
Definition lookup_custom (c : table) (name cnt : N) : option (N * bool) :=
  match c name with
  | Some f => if accept f cnt then Some (callback f cnt, iter f) else None
  | None => None
  end.

(* specification side: does a registration cover (name, cnt)? *)
Definition covers (name cnt : N) (r : reg) : bool :=
  (rname r =? name) && (rmin r <=? cnt) && (cnt <=? rmax r).

(* funcBuiltins: for each custom name, arities i with bit i set, ascending (names ascending by caller) *)
Fixpoint arities_from (ac : N) (i : N) (fuel : nat) : list N :=
  match fuel with
  | O => []
  | S k => (if N.testbit ac i then [i] else []) ++ arities_from ac (i + 1) k
  end.
Definition builtins_of (c : table) (names : list N) : list (N * N) :=
  flat_map (fun nm => match c nm with
                      | Some f => map (fun a => (nm, a)) (arities_from (argcount f) 0 64)
                      | None => [] end) names.

(* ---------------------------------------------------------------- WithVariables / Run values *)

Section Vars.
  Variable V : Type.

  (* scope.variables: (name, slot) in creation order; all at depth 0 of the main scope;
     variablecnt = number created so far *)
  Definition scope_vars := list (N * N).

  Definition find_var (vs : scope_vars) (name : N) : option N :=
    option_map snd (find (fun v => fst v =? name) vs).

  (* pushVariable: reuse the slot of a variable of the same name (same depth), else createVariable *)
  Definition push_variable (vs : scope_vars) (name : N) : N * scope_vars :=
    match find_var vs name with
    | Some slot => (slot, vs)
    | None => (N.of_nat (length vs), vs ++ [(name, N.of_nat (length vs))])
    end.

  (* Compile: for _, name := range c.variables { opstore c.pushVariable(name) } *)
  Fixpoint compile_vars (names : list N) (vs : scope_vars) : list N * scope_vars :=
    match names with
    | [] => ([], vs)
    | n :: r => let '(slot, vs1) := push_variable vs n in
                let '(slots, vs2) := compile_vars r vs1 in (slot :: slots, vs2)
    end.

  (* lookupVariable: last varinfo of that name *)
  Definition lookup_slot (vs : scope_vars) (name : N) : option N :=
    option_map snd (find (fun v => fst v =? name) (rev vs)).

  Definition store := N -> option V.
  Definition set (e : store) (k : N) (v : V) : store := fun k' => if k' =? k then Some v else e k'.

  (* opstore: pop the top of the stack into the slot *)
  Fixpoint exec_stores (slots : list N) (stack : list V) (e : store) : option (list V * store) :=
    match slots with
    | [] => Some (stack, e)
    | s :: r => match stack with
                | x :: st => exec_stores r st (set e s x)
                | [] => None
                end
    end.

  Inductive run_result :=
  | TooManyValues
  | ExpectedVariable (name : N)
  | Running (stack : list V) (vs : scope_vars) (e : store)
  | Stuck.

  (* RunWithContext + execute: env.push(v); for i := len(vars)-1 … 0 { env.push(vars[i]) }
     so vars[0] is on top when the first opstore runs *)
  Definition run_vars (names : list N) (v : V) (values : list V) : run_result :=
    if Nat.ltb (length names) (length values) then TooManyValues
    else if Nat.ltb (length values) (length names) then ExpectedVariable (nth (length values) names 0)
    else let '(slots, vs) := compile_vars names [] in
         match exec_stores slots (values ++ [v]) (fun _ => None) with
         | Some (st, e) => Running st vs e
         | None => Stuck
         end.

  Definition lookup_var (r : run_result) (name : N) : option V :=
    match r with
    | Running _ vs e => match lookup_slot vs name with Some s => e s | None => None end
    | _ => None
    end.

  (* specification: the value bound to a name is the one at the LAST position where the name occurs *)
  Definition bind_spec (names : list N) (values : list V) (name : N) : option V :=
    option_map snd (find (fun p => fst p =? name) (rev (combine names values))).

  (* funcInput: v, ok := c.inputIter.Next(); !ok -> the error "break"; otherwise v is returned as it is, and
     an iterator item that is an error value is thereby an error of `input` (catchable).  Either way the
     iterator has advanced by exactly one item; nothing else is remembered between calls. *)
  Inductive input_item := ItVal (x : V) | ItErr (x : V).
  Inductive input_result := InputValue (x : V) | InputError (x : V) | InputBreak.
  Definition result_of_item (i : input_item) : input_result :=
    match i with ItVal x => InputValue x | ItErr x => InputError x end.
  Definition input_call (it : list input_item) : input_result * list input_item :=
    match it with i :: r => (result_of_item i, r) | [] => (InputBreak, []) end.
  Fixpoint input_calls (n : nat) (it : list input_item) : list input_result :=
    match n with
    | O => []
    | S k => let '(r, it') := input_call it in r :: input_calls k it'
    end.

  (* opcall of a native ([3]any): compileCallInternal compiles the argument closures for i := len(args)-1 … 0
     (each pushes its value: the LAST argument is evaluated first, i.e. in the outermost loop), then loads the
     input; opcall pops the input and then args[i] = pop() for i = 0 … argcnt-1 *)
  Definition push_in_code_order (args : list V) (stack : list V) : list V :=
    fold_left (fun st a => a :: st) (rev args) stack.
  Definition opcall_pop (argcnt : nat) (stack : list V) : option (V * list V * list V) :=
    match stack with
    | x :: st => if Nat.leb argcnt (length st) then Some (x, firstn argcnt st, skipn argcnt st) else None
    | [] => None
    end.
  (* the argument vectors a native sees when its argument expressions are generators: the last
     argument's generator is the outermost loop, the first one the innermost *)
  Fixpoint enum_args (gens : list (list V)) : list (list V) :=
    match gens with
    | [] => [[]]
    | g :: r => flat_map (fun tl => map (fun a => a :: tl) g) (enum_args r)
    end.
End Vars.

(* ---------------------------------------------------------------- environment and special names *)

Definition bytes := list N.

(* strings.Cut(kv, "="): split at the first '=' *)
Fixpoint cut_eq (kv : bytes) : option (bytes * bytes) :=
  match kv with
  | [] => None
  | c :: r => if c =? 61 then Some ([], r)
              else match cut_eq r with Some (k, v) => Some (c :: k, v) | None => None end
  end.

(* for _, kv := range loader() { if k, v, ok := Cut(kv,"="); ok && k != "" { env[k] = v } } :
   association list in loader order; a map assignment makes the last one win *)
Fixpoint env_pairs (kvs : list bytes) : list (bytes * bytes) :=
  match kvs with
  | [] => []
  | kv :: r => match cut_eq kv with
               | Some (c :: k, v) => (c :: k, v) :: env_pairs r
               | _ => env_pairs r
               end
  end.

Fixpoint bytes_eqb (a b : bytes) : bool :=
  match a, b with
  | [], [] => true
  | x :: a', y :: b' => (x =? y) && bytes_eqb a' b'
  | _, _ => false
  end.

Definition env_lookup (kvs : list bytes) (k : bytes) : option bytes :=
  option_map snd (find (fun p => bytes_eqb (fst p) k) (rev (env_pairs kvs))).

(* The world a process runs in.  The model reads it NOWHERE except through the loaders the caller
   hands over as options (the code side of this statement is Ambient.ambient_ok). *)
Record world := { w_environ : list bytes; w_files : bytes -> option bytes; w_cwd : bytes; w_home : bytes;
                  w_stdin : bytes }.

Record options := {
  o_module_loader : option (world -> bytes -> option bytes);   (* name -> module text *)
  o_environ_loader : option (world -> list bytes);
  o_input_iter : bool                                          (* WithInputIter given? *)
}.
Definition no_options : options :=
  {| o_module_loader := None; o_environ_loader := None; o_input_iter := false |}.

Inductive special := SpEnv | SpDollarENV | SpInput | SpModulemeta | SpImport | SpInclude | SpImportData.

Inductive behaviour :=
| BConstObject (kvs : list (bytes * bytes))   (* opconst env : a constant folded at compile time *)
| BCompileErrorInputNotAllowed
| BCompileErrorCannotLoadModule
| BCallsInputIter                             (* every evaluation draws the next iterator value *)
| BModulemeta (loader : bool)                 (* compiles; at run time a string input gives
                                                 "cannot load module" iff there is no loader *)
| BLoadsModule.

(* compileFunc (names not shadowed by a user definition / variable) and compileImport *)
Definition compile_special (w : world) (o : options) (s : special) : behaviour :=
  match s with
  | SpEnv | SpDollarENV =>
      BConstObject (match o_environ_loader o with Some l => env_pairs (l w) | None => [] end)
  | SpInput => if o_input_iter o then BCallsInputIter else BCompileErrorInputNotAllowed
  | SpModulemeta => BModulemeta (match o_module_loader o with Some _ => true | None => false end)
  | SpImport | SpInclude | SpImportData =>
      match o_module_loader o with Some _ => BLoadsModule | None => BCompileErrorCannotLoadModule end
  end.
