(* C19: the regenerated list of ambient references is within the reviewed allow-list.
   A finite check (vm_compute over coq/gen/GenAmbient.v); a new ambient reference in /repo makes it fail. *)
From Coq Require Import List String Bool.
From Verif Require Import gen.GenAmbient c19.Ambient.
Import ListNotations.
Open Scope string_scope.

Lemma ambient_ok : ambient_okb = true.
Proof. vm_compute. reflexivity. Qed.

Lemma ambient_refs_allowed : forall r, In r ambient_refs -> allowed r = true.
Proof.
  assert (H : forallb allowed ambient_refs = true) by (vm_compute; reflexivity).
  intros r Hin. rewrite forallb_forall in H. now apply H.
Qed.

Lemma mem_in : forall s l, mem s l = true -> In s l.
Proof.
  unfold mem. intros s l H. apply existsb_exists in H. destruct H as [x [Hin E]].
  apply String.eqb_eq in E. now subst.
Qed.

Lemma default_path_clean_holds : default_path_clean.
Proof.
  intros file fn sel Hin Hf. apply ambient_refs_allowed in Hin. unfold allowed in Hin.
  destruct (String.eqb_spec file "func.go") as [-> | N1].
  - left. split; [reflexivity |].
    apply orb_true_iff in Hin. destruct Hin as [H | H]; apply andb_true_iff in H; destruct H as [_ H];
      apply String.eqb_eq in H; auto.
  - destruct (String.eqb_spec file "module_loader.go") as [-> | N2]; [congruence |].
    destruct (String.eqb_spec file "parser.go") as [-> | N3]; [| discriminate].
    right. split; [reflexivity |]. apply andb_true_iff in Hin. destruct Hin as [_ H]. now apply String.eqb_eq in H.
Qed.

Lemma loader_unreachable : forall file fn ident, In (file, fn, ident) loader_inrefs -> ident = "ModuleLoader".
Proof.
  assert (H : forallb allowed_inref loader_inrefs = true) by (vm_compute; reflexivity).
  intros file fn ident Hin. rewrite forallb_forall in H. apply H in Hin. now apply String.eqb_eq in Hin.
Qed.
