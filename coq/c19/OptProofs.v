(* C19 proofs about OptModel. *)
From Coq Require Import List NArith Bool Lia ZifyN ZifyNat ZifyBool Arith.
From Verif Require Import c19.OptModel.
Import ListNotations.
Open Scope N_scope.

(* ---------------------------------------------------------------- bit arithmetic *)

Lemma bit_set_testbit : forall ac n, bit_set ac n = N.testbit ac n.
Proof.
  intros ac n. unfold bit_set. rewrite N.shiftl_1_l.
  destruct (N.testbit ac n) eqn:E.
  - assert (H : N.land ac (2 ^ n) <> 0).
    { intro H. assert (T : N.testbit (N.land ac (2 ^ n)) n = false) by (rewrite H; apply N.bits_0).
      rewrite N.land_spec, E, N.pow2_bits_true in T. discriminate. }
    apply N.eqb_neq in H. now rewrite H.
  - assert (H : N.land ac (2 ^ n) = 0).
    { apply N.bits_inj_0. intro m. rewrite N.land_spec, N.pow2_bits_eqb.
      destruct (N.eqb_spec n m); subst; [now rewrite E | apply andb_false_r]. }
    now rewrite H.
Qed.

Lemma argcount_of_shape : forall mn mx, mn <= mx ->
  argcount_of mn mx = N.shiftl (N.ones (mx + 1 - mn)) mn.
Proof.
  intros mn mx H. unfold argcount_of. rewrite !N.shiftl_1_l, N.shiftl_mul_pow2, N.ones_equiv.
  replace (mx + 1) with ((mx + 1 - mn) + mn) at 1 by lia.
  rewrite N.pow_add_r.
  assert (0 < 2 ^ (mx + 1 - mn)) by (apply N.neq_0_lt_0, N.pow_nonzero; lia).
  assert (0 < 2 ^ mn) by (apply N.neq_0_lt_0, N.pow_nonzero; lia).
  nia.
Qed.

Lemma argcount_of_bits : forall mn mx n, mn <= mx ->
  N.testbit (argcount_of mn mx) n = (mn <=? n) && (n <=? mx).
Proof.
  intros mn mx n H. rewrite argcount_of_shape by assumption.
  destruct (N.leb_spec mn n) as [L | L].
  - rewrite N.shiftl_spec_high' by assumption.
    destruct (N.leb_spec n mx) as [L2 | L2].
    + rewrite N.ones_spec_low by lia. reflexivity.
    + rewrite N.ones_spec_high by lia. reflexivity.
  - rewrite N.shiftl_spec_low by assumption. reflexivity.
Qed.

Lemma argcount_of_lt : forall mn mx, mn <= mx -> mx <= 30 -> argcount_of mn mx < 2 ^ 31.
Proof.
  intros mn mx H1 H2. unfold argcount_of. rewrite !N.shiftl_1_l.
  assert (2 ^ (mx + 1) <= 2 ^ 31) by (apply N.pow_le_mono_r; lia).
  assert (0 < 2 ^ mn) by (apply N.neq_0_lt_0, N.pow_nonzero; lia).
  lia.
Qed.

Lemma lor_lt_pow2 : forall a b k, a < 2 ^ k -> b < 2 ^ k -> N.lor a b < 2 ^ k.
Proof.
  intros a b k Ha Hb.
  destruct (N.eq_dec (N.lor a b) 0) as [E | E]; [rewrite E; apply N.neq_0_lt_0, N.pow_nonzero; lia |].
  apply N.log2_lt_pow2; [lia |]. rewrite N.log2_lor.
  destruct (N.eq_dec a 0) as [-> | Na]; destruct (N.eq_dec b 0) as [-> | Nb].
  - now rewrite N.lor_0_l in E.
  - rewrite N.log2_nonpos, N.max_0_l by lia. apply N.log2_lt_pow2; lia.
  - rewrite (N.log2_nonpos 0), N.max_0_r by lia. apply N.log2_lt_pow2; lia.
  - apply N.max_lub_lt; apply N.log2_lt_pow2; lia.
Qed.

Lemma small_no_high_bit : forall a n k, a < 2 ^ k -> k <= n -> N.testbit a n = false.
Proof.
  intros a n k H L. destruct (N.eq_dec a 0) as [-> | Na]; [apply N.bits_0 |].
  apply N.bits_above_log2.
  assert (N.log2 a < k) by (apply N.log2_lt_pow2; lia). lia.
Qed.

(* ---------------------------------------------------------------- arity_mask *)

Definition result_of (r : reg) : N * bool := (rcb r, riter r).

(* invariant of the table after the registrations [done] *)
Record inv (c : table) (done : list reg) : Prop := {
  inv_lookup : forall name cnt,
      lookup_custom c name cnt = option_map result_of (find (covers name cnt) (rev done));
  inv_iter : forall name f r, c name = Some f -> In r done -> rname r = name -> iter f = riter r;
  inv_none : forall name, c name = None -> forall r, In r done -> rname r <> name;
  inv_small : forall name f, c name = Some f -> argcount f < 2 ^ 31
}.

Lemma inv_empty : inv empty_table [].
Proof. split; cbn; intros; try reflexivity; try discriminate; try contradiction. Qed.

Lemma valid_reg_spec : forall r, valid_reg r = true -> rmin r <= rmax r /\ rmax r <= 30.
Proof. unfold valid_reg. intros r H. lia. Qed.

Lemma inv_step : forall c done r c', inv c done -> with_function r c = Some c' -> inv c' (done ++ [r]).
Proof.
  intros c done r c' I W. unfold with_function in W.
  destruct (valid_reg r) eqn:Vr; cbn [negb] in W; [| discriminate].
  apply valid_reg_spec in Vr. destruct Vr as [V1 V2].
  destruct (c (rname r)) as [old |] eqn:Ec.
  - destruct (Bool.eqb (iter old) (riter r)) eqn:Ei; cbn [negb] in W; [| discriminate].
    apply eqb_prop in Ei. inversion W; subst c'; clear W.
    split.
    + intros name cnt. rewrite rev_app_distr. cbn [rev app find].
      unfold lookup_custom, upd.
      destruct (N.eqb_spec name (rname r)) as [-> | Nn].
      * unfold accept; cbn [argcount callback iter].
        rewrite !bit_set_testbit, N.lor_spec, argcount_of_bits by assumption.
        unfold covers at 1. rewrite N.eqb_refl. cbn [andb].
        destruct ((rmin r <=? cnt) && (cnt <=? rmax r)) eqn:Cv; cbn [orb].
        -- reflexivity.
        -- generalize (inv_lookup _ _ I (rname r) cnt). unfold lookup_custom. rewrite Ec.
           unfold accept. rewrite bit_set_testbit. intro L.
           destruct (N.testbit (argcount old) cnt).
           ++ rewrite <- L. now rewrite Ei.
           ++ exact L.
      * unfold covers at 1. destruct (N.eqb_spec (rname r) name); [congruence |]. cbn [andb].
        apply (inv_lookup _ _ I).
    + intros name f r0 Hc Hin Hn. unfold upd in Hc. apply in_app_or in Hin.
      destruct (N.eqb_spec name (rname r)) as [-> | Nn].
      * inversion Hc; subst f; cbn. destruct Hin as [Hin | [<- | []]]; [| reflexivity].
        rewrite <- Ei. eapply (inv_iter _ _ I); eauto.
      * destruct Hin as [Hin | [<- | []]]; [eapply (inv_iter _ _ I); eauto | congruence].
    + intros name Hc r0 Hin. unfold upd in Hc. destruct (N.eqb_spec name (rname r)); [discriminate |].
      apply in_app_or in Hin. destruct Hin as [Hin | [<- | []]]; [eapply (inv_none _ _ I); eauto | congruence].
    + intros name f Hc. unfold upd in Hc. destruct (N.eqb_spec name (rname r)).
      * inversion Hc; cbn [argcount]. apply lor_lt_pow2; [apply argcount_of_lt; assumption | eapply (inv_small _ _ I); eauto].
      * eapply (inv_small _ _ I); eauto.
  - inversion W; subst c'; clear W. split.
    + intros name cnt. rewrite rev_app_distr. cbn [rev app find].
      unfold lookup_custom, upd.
      destruct (N.eqb_spec name (rname r)) as [-> | Nn].
      * unfold accept; cbn [argcount callback iter].
        rewrite bit_set_testbit, argcount_of_bits by assumption.
        unfold covers at 1. rewrite N.eqb_refl. cbn [andb].
        destruct ((rmin r <=? cnt) && (cnt <=? rmax r)) eqn:Cv; [reflexivity |].
        (* no earlier registration of this name *)
        assert (F : find (covers (rname r) cnt) (rev done) = None).
        { destruct (find (covers (rname r) cnt) (rev done)) eqn:Ef; [| reflexivity].
          apply find_some in Ef. destruct Ef as [Hin Hc]. apply in_rev in Hin.
          unfold covers in Hc. exfalso. apply (inv_none _ _ I _ Ec _ Hin). lia. }
        now rewrite F.
      * unfold covers at 1. destruct (N.eqb_spec (rname r) name); [congruence |]. cbn [andb].
        apply (inv_lookup _ _ I).
    + intros name f r0 Hc Hin Hn. unfold upd in Hc. apply in_app_or in Hin.
      destruct (N.eqb_spec name (rname r)) as [-> | Nn].
      * inversion Hc; subst f; cbn. destruct Hin as [Hin | [<- | []]]; [| reflexivity].
        exfalso. eapply (inv_none _ _ I); eauto.
      * destruct Hin as [Hin | [<- | []]]; [eapply (inv_iter _ _ I); eauto | congruence].
    + intros name Hc r0 Hin. unfold upd in Hc. destruct (N.eqb_spec name (rname r)); [discriminate |].
      apply in_app_or in Hin. destruct Hin as [Hin | [<- | []]]; [eapply (inv_none _ _ I); eauto | congruence].
    + intros name f Hc. unfold upd in Hc. destruct (N.eqb_spec name (rname r)).
      * inversion Hc; cbn [argcount]. apply argcount_of_lt; assumption.
      * eapply (inv_small _ _ I); eauto.
Qed.

Lemma inv_apply : forall regs c done c', inv c done -> apply_opts regs c = Some c' -> inv c' (done ++ regs).
Proof.
  induction regs as [| r rs IH]; intros c done c' I A; cbn in A.
  - inversion A; subst. now rewrite app_nil_r.
  - destruct (with_function r c) as [c1 |] eqn:W; [| discriminate].
    replace (done ++ r :: rs) with ((done ++ [r]) ++ rs) by (rewrite <- app_assoc; reflexivity).
    eapply IH; [eapply inv_step; eauto | exact A].
Qed.

(* For EVERY sequence of registrations that does not panic: a call name/cnt is accepted iff some
   registration of that name covers cnt, and the Go function run is that of the LAST covering registration
   (a later registration's mask is tested first by the merged closure); the iterator flag is its flag. *)
Lemma arity_mask : forall regs c, apply_opts regs empty_table = Some c ->
  forall name cnt, lookup_custom c name cnt = option_map result_of (find (covers name cnt) (rev regs)).
Proof.
  intros regs c A name cnt. apply (inv_lookup c ([] ++ regs)). eapply inv_apply; [apply inv_empty | exact A].
Qed.

Lemma arity_accept_iff : forall regs c, apply_opts regs empty_table = Some c ->
  forall name cnt, (exists res, lookup_custom c name cnt = Some res) <->
                   (exists r, In r regs /\ rname r = name /\ rmin r <= cnt <= rmax r).
Proof.
  intros regs c A name cnt. rewrite (arity_mask _ _ A). split.
  - intros [res H]. destruct (find (covers name cnt) (rev regs)) as [r |] eqn:F; [| discriminate].
    apply find_some in F. destruct F as [Hin Hc]. exists r. split; [now apply in_rev |].
    unfold covers in Hc. lia.
  - intros [r (Hin & Hn & Hr)].
    destruct (find (covers name cnt) (rev regs)) as [r' |] eqn:F; [eexists; reflexivity |].
    exfalso. apply in_rev in Hin. generalize (find_none _ _ F r Hin). unfold covers. lia.
Qed.


(* the masks stay below 2^31: Go's 64-bit int arithmetic never wraps here, and for cnt >= 31 (in
   particular cnt >= 63, where Go's 1<<cnt is MinInt64 or 0) the AND is 0 in Go exactly as in N *)
Lemma argcount_small : forall regs c, apply_opts regs empty_table = Some c ->
  forall name f, c name = Some f -> argcount f < 2 ^ 31 /\ forall cnt, 31 <= cnt -> accept f cnt = false.
Proof.
  intros regs c A name f Hc.
  assert (I : inv c ([] ++ regs)) by (eapply inv_apply; [apply inv_empty | exact A]).
  assert (S := inv_small _ _ I _ _ Hc). split; [exact S |].
  intros cnt L. unfold accept. rewrite bit_set_testbit. eapply small_no_high_bit; eauto.
Qed.

(* ---------------------------------------------------------------- variables *)

Section VarsProofs.
  Variable V : Type.

  Lemma find_app' : forall {A} (p : A -> bool) l1 l2,
    find p (l1 ++ l2) = match find p l1 with Some x => Some x | None => find p l2 end.
  Proof. induction l1; cbn; [reflexivity |]. intros. destruct (p a); auto. Qed.

  Lemma NoDup_app_snoc : forall {A} (l : list A) a, NoDup l -> ~ In a l -> NoDup (l ++ [a]).
  Proof.
    induction l as [| x l IH]; intros a ND Hn; cbn; [constructor; [intros [] | constructor] |].
    inversion ND; subst. constructor.
    - intro Hin. apply in_app_or in Hin. destruct Hin as [Hin | [<- | []]]; [contradiction | apply Hn; now left].
    - apply IH; [assumption | intro; apply Hn; now right].
  Qed.

  Record wf (vs : scope_vars) : Prop := {
    wf_lt : forall p, In p vs -> snd p < N.of_nat (length vs);
    wf_slots : NoDup (map snd vs);
    wf_names : NoDup (map fst vs) }.

  Definition val (vs : scope_vars) (e : store V) (name : N) : option V :=
    match find_var vs name with Some s => e s | None => None end.

  Lemma find_var_in : forall vs m s, find_var vs m = Some s -> In (m, s) vs.
  Proof.
    unfold find_var. intros vs m s H. destruct (find (fun v => fst v =? m) vs) as [[a b] |] eqn:F; [| discriminate].
    apply find_some in F. cbn in *. destruct F as [Hin E]. apply N.eqb_eq in E. inversion H; subst. exact Hin.
  Qed.

  Lemma find_var_none : forall vs m, find_var vs m = None -> ~ In m (map fst vs).
  Proof.
    unfold find_var. intros vs m H Hin. destruct (find (fun v => fst v =? m) vs) eqn:F; [discriminate |].
    apply in_map_iff in Hin. destruct Hin as [p [E Hp]]. generalize (find_none _ _ F p Hp). cbn. lia.
  Qed.

  Lemma nodup_snd_inj : forall (vs : scope_vars) a b s, NoDup (map snd vs) -> In (a, s) vs -> In (b, s) vs -> a = b.
  Proof.
    induction vs as [| p vs IH]; intros a b s ND Ha Hb; [contradiction |].
    cbn in ND. inversion ND as [| x l Hnot ND']; subst.
    destruct Ha as [-> | Ha]; destruct Hb as [Eb | Hb].
    - now inversion Eb.
    - exfalso. apply Hnot. cbn. change s with (snd (b, s)). now apply in_map.
    - subst p. exfalso. apply Hnot. cbn. change s with (snd (a, s)). now apply in_map.
    - eapply IH; eauto.
  Qed.

  Lemma push_variable_spec : forall vs n s vs', wf vs -> push_variable vs n = (s, vs') ->
    wf vs' /\ find_var vs' n = Some s /\
    (forall m, m <> n -> find_var vs' m = find_var vs m) /\
    (forall m s', m <> n -> find_var vs' m = Some s' -> s' <> s).
  Proof.
    intros vs n s vs' W P. unfold push_variable in P.
    destruct (find_var vs n) as [s0 |] eqn:F.
    - inversion P; subst. repeat split; try apply W; auto.
      intros m s' Nm Fm ->. apply find_var_in in F. apply find_var_in in Fm.
      apply Nm. eapply nodup_snd_inj; eauto. apply W.
    - inversion P; subst; clear P.
      assert (Hfresh : ~ In (N.of_nat (length vs)) (map snd vs)).
      { intro Hin. apply in_map_iff in Hin. destruct Hin as [p [E Hp]]. generalize (wf_lt _ W p Hp). lia. }
      split; [split |].
      + intros p Hin. rewrite app_length. cbn. apply in_app_or in Hin.
        destruct Hin as [Hin | [<- | []]]; [generalize (wf_lt _ W p Hin) |]; cbn; lia.
      + rewrite map_app. cbn. apply NoDup_app_snoc; [apply W | exact Hfresh].
      + rewrite map_app. cbn. apply NoDup_app_snoc; [apply W | now apply find_var_none].
      + split; [| split].
        * unfold find_var in *. rewrite find_app'.
          destruct (find (fun v => fst v =? n) vs); [discriminate |]. cbn. now rewrite N.eqb_refl.
        * intros m Nm. unfold find_var. rewrite find_app'.
          destruct (find (fun v => fst v =? m) vs); [reflexivity |]. cbn.
          destruct (N.eqb_spec n m); [congruence | reflexivity].
        * intros m s' Nm Fm ->. unfold find_var in Fm. rewrite find_app' in Fm.
          destruct (find (fun v => fst v =? m) vs) as [[a b] |] eqn:Fv.
          -- cbn in Fm. inversion Fm; subst. apply find_some in Fv. destruct Fv as [Hin _].
             apply Hfresh. change (N.of_nat (length vs)) with (snd (a, N.of_nat (length vs))). now apply in_map.
          -- cbn in Fm. destruct (N.eqb_spec n m); [congruence | discriminate].
  Qed.

  Lemma bind_spec_cons : forall n ns (x : V) xs m,
    bind_spec V (n :: ns) (x :: xs) m =
    match bind_spec V ns xs m with Some y => Some y | None => if n =? m then Some x else None end.
  Proof.
    intros. unfold bind_spec. cbn [combine rev]. rewrite find_app'.
    destruct (find (fun p => fst p =? m) (rev (combine ns xs))); cbn; [reflexivity |].
    destruct (n =? m); reflexivity.
  Qed.

  Lemma compile_exec : forall names values vs e rest slots vs',
    wf vs -> length values = length names -> compile_vars names vs = (slots, vs') ->
    exists e', exec_stores V slots (values ++ rest) e = Some (rest, e') /\ wf vs' /\
      forall m, val vs' e' m = match bind_spec V names values m with Some x => Some x | None => val vs e m end.
  Proof.
    induction names as [| n ns IH]; intros values vs e rest slots vs' W L C.
    - destruct values; [| discriminate]. cbn in C. inversion C; subst. exists e. cbn. auto.
    - destruct values as [| x xs]; [discriminate |]. cbn in L. cbn [compile_vars] in C.
      destruct (push_variable vs n) as [s vs1] eqn:P.
      destruct (compile_vars ns vs1) as [slots2 vs2] eqn:C2. inversion C; subst; clear C.
      destruct (push_variable_spec _ _ _ _ W P) as (W1 & Fn & Fo & Fd).
      destruct (IH xs vs1 (set V e s x) rest slots2 vs' W1 ltac:(lia) C2) as (e' & E & W' & Hval).
      exists e'. cbn [app exec_stores]. split; [exact E | split; [exact W' |]].
      intro m. rewrite Hval, bind_spec_cons.
      destruct (bind_spec V ns xs m); [reflexivity |].
      unfold val at 1. destruct (N.eqb_spec n m) as [<- | Nm].
      + rewrite Fn. unfold set. now rewrite N.eqb_refl.
      + rewrite Fo by congruence. unfold val.
        destruct (find_var vs m) as [s' |] eqn:Fm; [| reflexivity].
        unfold set. destruct (N.eqb_spec s' s) as [-> | _]; [| reflexivity].
        exfalso. apply (Fd m s); [congruence | now rewrite Fo by congruence | reflexivity].
  Qed.

  Lemma lookup_slot_wf : forall vs m, wf vs -> lookup_slot vs m = find_var vs m.
  Proof.
    intros vs m W. unfold lookup_slot, find_var. f_equal.
    assert (ND := wf_names _ W). clear W.
    induction vs as [| p vs IH]; [reflexivity |].
    cbn [rev]. rewrite find_app'. cbn [map] in ND. inversion ND as [| a l Hnot ND']; subst.
    rewrite IH by assumption. cbn [find].
    destruct (N.eqb_spec (fst p) m) as [E | E].
    - destruct (find (fun v => fst v =? m) vs) as [q |] eqn:F; [| reflexivity].
      exfalso. apply find_some in F. destruct F as [Hin Eq]. apply Hnot.
      apply N.eqb_eq in Eq. rewrite E, <- Eq. now apply in_map.
    - destruct (find (fun v => fst v =? m) vs); reflexivity.
  Qed.

  Lemma wf_nil : wf [].
  Proof. split; cbn; [contradiction | constructor | constructor]. Qed.

  (* With as many values as names: execution reaches the query with exactly the input on the stack, and
     `$name` is the value at the LAST position where the name was given to WithVariables. *)
  Lemma vars_bind : forall names v values, length values = length names ->
    (exists vs e, run_vars V names v values = Running V [v] vs e) /\
    forall name, lookup_var V (run_vars V names v values) name = bind_spec V names values name.
  Proof.
    intros names v values L. unfold run_vars.
    rewrite L, Nat.ltb_irrefl.
    destruct (compile_vars names []) as [slots vs] eqn:C.
    destruct (compile_exec names values [] (fun _ => None) [v] slots vs wf_nil L C) as (e' & E & W & Hval).
    rewrite E. split; [eauto |].
    intro name. cbn [lookup_var]. rewrite lookup_slot_wf by assumption.
    generalize (Hval name). unfold val at 1 2. cbn. intro H.
    destruct (bind_spec V names values name); exact H.
  Qed.

  Lemma bind_spec_nodup : forall names values i n, NoDup names -> length values = length names ->
    nth_error names i = Some n -> bind_spec V names values n = nth_error values i.
  Proof.
    induction names as [| a ns IH]; intros values i n ND L H; [destruct i; discriminate |].
    destruct values as [| x xs]; [discriminate |]. rewrite bind_spec_cons.
    inversion ND as [| ? ? Hnot ND']; subst. destruct i as [| i]; cbn in H |- *.
    - inversion H; subst. rewrite N.eqb_refl.
      destruct (bind_spec V ns xs n) eqn:B; [| reflexivity].
      exfalso. unfold bind_spec in B.
      destruct (find (fun p => fst p =? n) (rev (combine ns xs))) as [[a b] |] eqn:F; [| discriminate].
      apply find_some in F. destruct F as [Hin E]. apply in_rev in Hin. apply in_combine_l in Hin.
      cbn in E. apply N.eqb_eq in E. subst. contradiction.
    - rewrite (IH xs i n ND' ltac:(cbn in L; lia) H).
      destruct (nth_error xs i) eqn:E; [reflexivity |].
      exfalso. apply nth_error_None in E. assert (i < length ns)%nat by (apply nth_error_Some; congruence).
      cbn in L. lia.
  Qed.

  Lemma vars_too_many : forall names v values, (length names < length values)%nat ->
    run_vars V names v values = TooManyValues V.
  Proof. intros. unfold run_vars. apply Nat.ltb_lt in H. now rewrite H. Qed.

  Lemma vars_too_few : forall names v values, (length values < length names)%nat ->
    run_vars V names v values = ExpectedVariable V (nth (length values) names 0).
  Proof.
    intros. unfold run_vars. assert (Nat.ltb (length names) (length values) = false) by (apply Nat.ltb_ge; lia).
    apply Nat.ltb_lt in H. now rewrite H0, H.
  Qed.

  (* input: the k-th call yields the k-th item of the iterator — a value, or an error value as an error —
     whatever the earlier items were (an error item does not stop later calls), then "break" for ever *)
  Lemma input_in_order : forall n (it : list (input_item V)),
    input_calls V n it = map (result_of_item V) (firstn n it) ++ repeat (InputBreak V) (n - length it).
  Proof.
    induction n as [| n IH]; intro it; [reflexivity |].
    destruct it as [| x r]; cbn [input_calls input_call].
    - rewrite IH. cbn. now rewrite firstn_nil, Nat.sub_0_r.
    - rewrite IH. reflexivity.
  Qed.

  Lemma input_after_error : forall (e : V) before after n,
    input_calls V (length before + 1 + n) (before ++ ItErr V e :: after)
    = map (result_of_item V) before ++ InputError V e :: input_calls V n after.
  Proof.
    induction before as [| b r IH]; intros after n; cbn [length Nat.add app input_calls input_call map].
    - reflexivity.
    - f_equal. apply IH.
  Qed.

  (* opcall: argument i of the call is args[i] of the callback *)
  Lemma push_in_code_order_eq : forall (args stack : list V), push_in_code_order V args stack = args ++ stack.
  Proof.
    intros args stack. unfold push_in_code_order. rewrite <- fold_left_rev_right, rev_involutive.
    induction args; cbn; [reflexivity | now f_equal].
  Qed.

  Lemma opcall_args_in_order : forall (x : V) args rest,
    opcall_pop V (length args) (x :: push_in_code_order V args rest) = Some (x, args, rest).
  Proof.
    intros x args rest. rewrite push_in_code_order_eq. cbn [opcall_pop].
    assert (L : Nat.leb (length args) (length (args ++ rest)) = true) by (apply Nat.leb_le; rewrite app_length; lia).
    rewrite L, firstn_app, Nat.sub_diag, firstn_all, firstn_O, app_nil_r.
    rewrite skipn_app, Nat.sub_diag, skipn_all, skipn_O. reflexivity.
  Qed.

  (* every enumerated vector takes its i-th component from the i-th generator; there are prod |g_i| of them *)
  Lemma enum_args_components : forall gens v, In v (enum_args V gens) -> Forall2 (fun a g => In a g) v gens.
  Proof.
    induction gens as [| g r IH]; intros v H; cbn in H.
    - destruct H as [<- | []]. constructor.
    - apply in_flat_map in H. destruct H as [tl [Ht Hv]]. apply in_map_iff in Hv. destruct Hv as [a [<- Ha]].
      constructor; [exact Ha | now apply IH].
  Qed.
End VarsProofs.

(* ---------------------------------------------------------------- environment, special names *)

Lemma cut_eq_spec : forall kv k v, cut_eq kv = Some (k, v) <-> kv = k ++ 61 :: v /\ ~ In 61 k.
Proof.
  induction kv as [| c r IH]; intros k v; cbn.
  - split; [discriminate |]. intros [H _]. destruct k; discriminate.
  - destruct (N.eqb_spec c 61) as [-> | Nc].
    + split.
      * intro H. inversion H; subst. cbn. auto.
      * intros [H Hn]. destruct k as [| a k]; cbn in H; inversion H; subst; [reflexivity |].
        exfalso. apply Hn. now left.
    + destruct (cut_eq r) as [[k0 v0] |] eqn:E.
      * split.
        -- intro H. inversion H; subst. destruct (proj1 (IH k0 v) eq_refl) as [-> Hn].
           split; [reflexivity |]. intros [? | ?]; [congruence | contradiction].
        -- intros [H Hn]. destruct k as [| a k]; cbn in H; inversion H; subst; [congruence |].
           assert (Some (k0, v0) = Some (k, v)) by (apply IH; split; [reflexivity | intro; apply Hn; now right]).
           now inversion H0.
      * split; [discriminate |]. intros [H Hn]. destruct k as [| a k]; cbn in H; inversion H; subst; [congruence |].
        assert (None = Some (k, v)) by (apply IH; split; [reflexivity | intro; apply Hn; now right]). discriminate.
Qed.

Lemma bytes_eqb_eq : forall a b, bytes_eqb a b = true <-> a = b.
Proof.
  induction a as [| x a IH]; destruct b as [| y b]; cbn; split; try discriminate; try reflexivity.
  - intro H. apply andb_true_iff in H. destruct H as [H1 H2]. apply N.eqb_eq in H1. apply IH in H2. congruence.
  - intro H. inversion H; subst. rewrite N.eqb_refl. cbn. now apply IH.
Qed.

(* every pair shown by `env` comes from a loader entry "k=v" (split at the first '='), k non-empty *)
Lemma env_pairs_sound : forall kvs k v, In (k, v) (env_pairs kvs) ->
  k <> [] /\ ~ In 61 k /\ In (k ++ 61 :: v) kvs.
Proof.
  induction kvs as [| kv r IH]; intros k v H; cbn in H; [contradiction |].
  destruct (cut_eq kv) as [[[| c k0] v0] |] eqn:E.
  - destruct (IH _ _ H) as (A & B & C). repeat split; auto. now right.
  - destruct H as [H | H].
    + inversion H; subst. apply cut_eq_spec in E. destruct E as [-> Hn]. repeat split; [discriminate | exact Hn | now left].
    + destruct (IH _ _ H) as (A & B & C). repeat split; auto. now right.
  - destruct (IH _ _ H) as (A & B & C). repeat split; auto. now right.
Qed.

Lemma env_pairs_complete : forall kvs k v, k <> [] -> ~ In 61 k -> In (k ++ 61 :: v) kvs -> In (k, v) (env_pairs kvs).
Proof.
  induction kvs as [| kv r IH]; intros k v Nk Hn H; [contradiction |]. cbn.
  destruct H as [-> | H].
  - assert (E : cut_eq (k ++ 61 :: v) = Some (k, v)) by (apply cut_eq_spec; auto).
    rewrite E. destruct k; [congruence | now left].
  - destruct (cut_eq kv) as [[[| c k0] v0] |]; [| right |]; now apply IH.
Qed.

Lemma env_lookup_sound : forall kvs k v, env_lookup kvs k = Some v -> In (k, v) (env_pairs kvs).
Proof.
  unfold env_lookup. intros kvs k v H.
  destruct (find (fun p => bytes_eqb (fst p) k) (rev (env_pairs kvs))) as [[a b] |] eqn:F; [| discriminate].
  apply find_some in F. destruct F as [Hin E]. cbn in *. apply bytes_eqb_eq in E. inversion H; subst.
  now apply in_rev.
Qed.

(* the LAST entry for a key wins *)
Lemma env_lookup_last : forall kvs k v, k <> [] -> ~ In 61 k -> env_lookup (kvs ++ [k ++ 61 :: v]) k = Some v.
Proof.
  intros kvs k v Nk Hn. unfold env_lookup.
  assert (P : forall l, env_pairs (l ++ [k ++ 61 :: v]) = env_pairs l ++ [(k, v)]).
  { induction l as [| a l IH]; cbn.
    - assert (E : cut_eq (k ++ 61 :: v) = Some (k, v)) by (apply cut_eq_spec; auto).
      rewrite E. destruct k; [congruence | reflexivity].
    - rewrite IH. destruct (cut_eq a) as [[[| c k0] v0] |]; reflexivity. }
  rewrite P, rev_app_distr. cbn.
  assert (E : bytes_eqb k k = true) by now apply bytes_eqb_eq. now rewrite E.
Qed.

(* Decision table without options: nothing of the world is reachable. *)
Lemma no_ambient_table : forall w,
  compile_special w no_options SpEnv = BConstObject [] /\
  compile_special w no_options SpDollarENV = BConstObject [] /\
  compile_special w no_options SpInput = BCompileErrorInputNotAllowed /\
  compile_special w no_options SpModulemeta = BModulemeta false /\
  compile_special w no_options SpImport = BCompileErrorCannotLoadModule /\
  compile_special w no_options SpInclude = BCompileErrorCannotLoadModule /\
  compile_special w no_options SpImportData = BCompileErrorCannotLoadModule.
Proof. intro w. repeat split. Qed.

Lemma no_ambient_world : forall w w' s, compile_special w no_options s = compile_special w' no_options s.
Proof. intros w w' []; reflexivity. Qed.

(* each option grants its own capability only *)
Lemma env_is_loader : forall w o l, o_environ_loader o = Some l ->
  compile_special w o SpEnv = BConstObject (env_pairs (l w)) /\
  compile_special w o SpDollarENV = BConstObject (env_pairs (l w)).
Proof. intros w o l H. unfold compile_special. now rewrite H. Qed.

Lemma options_independent : forall w o,
  (o_environ_loader o = None -> compile_special w o SpEnv = BConstObject []) /\
  (o_input_iter o = false -> compile_special w o SpInput = BCompileErrorInputNotAllowed) /\
  (o_module_loader o = None -> compile_special w o SpImport = BCompileErrorCannotLoadModule
                               /\ compile_special w o SpModulemeta = BModulemeta false).
Proof.
  intros w o. unfold compile_special.
  split; [intro H; now rewrite H | split; [intro H; now rewrite H | intro H; rewrite H; split; reflexivity]].
Qed.
