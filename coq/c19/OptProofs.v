(* C19 proofs about OptModel. *)
From Coq Require Import List NArith Bool Lia ZifyN ZifyNat ZifyBool Arith.
From Verif Require Import c19.OptModel.
Import ListNotations.
Open Scope N_scope.

(* ---------------------------------------------------------------- bit arithmetic *)

Lemma bit_set_testbit : forall ac n, bit_set ac n = N.testbit ac n.
Proof.
  intros ac n. unfold bit_set. rewrite N.shiftl_1_l.
  destruct (N.testbit ac n) eqn:E.
  - assert (H : N.land ac (2 ^ n) <> 0).
    { intro H. assert (T : N.testbit (N.land ac (2 ^ n)) n = false) by (rewrite H; apply N.bits_0).
      rewrite N.land_spec, E, N.pow2_bits_true in T. discriminate. }
    apply N.eqb_neq in H. now rewrite H.
  - assert (H : N.land ac (2 ^ n) = 0).
    { apply N.bits_inj_0. intro m. rewrite N.land_spec, N.pow2_bits_eqb.
      destruct (N.eqb_spec n m); subst; [now rewrite E | apply andb_false_r]. }
    now rewrite H.
Qed.

Lemma argcount_of_shape : forall mn mx, mn <= mx ->
  argcount_of mn mx = N.shiftl (N.ones (mx + 1 - mn)) mn.
Proof.
  intros mn mx H. unfold argcount_of. rewrite !N.shiftl_1_l, N.shiftl_mul_pow2, N.ones_equiv.
  replace (mx + 1) with ((mx + 1 - mn) + mn) at 1 by lia.
  rewrite N.pow_add_r.
  assert (0 < 2 ^ (mx + 1 - mn)) by (apply N.neq_0_lt_0, N.pow_nonzero; lia).
  assert (0 < 2 ^ mn) by (apply N.neq_0_lt_0, N.pow_nonzero; lia).
  nia.
Qed.

Lemma argcount_of_bits : forall mn mx n, mn <= mx ->
  N.testbit (argcount_of mn mx) n = (mn <=? n) && (n <=? mx).
Proof.
  intros mn mx n H. rewrite argcount_of_shape by assumption.
  destruct (N.leb_spec mn n) as [L | L].
  - rewrite N.shiftl_spec_high' by assumption.
    destruct (N.leb_spec n mx) as [L2 | L2].
    + rewrite N.ones_spec_low by lia. reflexivity.
    + rewrite N.ones_spec_high by lia. reflexivity.
  - rewrite N.shiftl_spec_low by assumption. reflexivity.
Qed.

Lemma argcount_of_lt : forall mn mx, mn <= mx -> mx <= 30 -> argcount_of mn mx < 2 ^ 31.
Proof.
  intros mn mx H1 H2. unfold argcount_of. rewrite !N.shiftl_1_l.
  assert (2 ^ (mx + 1) <= 2 ^ 31) by (apply N.pow_le_mono_r; lia).
  assert (0 < 2 ^ mn) by (apply N.neq_0_lt_0, N.pow_nonzero; lia).
  lia.
Qed.

Lemma lor_lt_pow2 : forall a b k, a < 2 ^ k -> b < 2 ^ k -> N.lor a b < 2 ^ k.
Proof.
  intros a b k Ha Hb.
  destruct (N.eq_dec (N.lor a b) 0) as [E | E]; [rewrite E; apply N.neq_0_lt_0, N.pow_nonzero; lia |].
  apply N.log2_lt_pow2; [lia |]. rewrite N.log2_lor.
  destruct (N.eq_dec a 0) as [-> | Na]; destruct (N.eq_dec b 0) as [-> | Nb].
  - now rewrite N.lor_0_l in E.
  - rewrite N.log2_nonpos, N.max_0_l by lia. apply N.log2_lt_pow2; lia.
  - rewrite (N.log2_nonpos 0), N.max_0_r by lia. apply N.log2_lt_pow2; lia.
  - apply N.max_lub_lt; apply N.log2_lt_pow2; lia.
Qed.

Lemma small_no_high_bit : forall a n k, a < 2 ^ k -> k <= n -> N.testbit a n = false.
Proof.
  intros a n k H L. destruct (N.eq_dec a 0) as [-> | Na]; [apply N.bits_0 |].
  apply N.bits_above_log2.
  assert (N.log2 a < k) by (apply N.log2_lt_pow2; lia). lia.
Qed.

(* ---------------------------------------------------------------- arity_mask *)

Definition result_of (r : reg) : N * bool := (rcb r, riter r).

(* invariant of the table after the registrations [done] *)
Record inv (c : table) (done : list reg) : Prop := {
  inv_lookup : forall name cnt,
      lookup_custom c name cnt = option_map result_of (find (covers name cnt) (rev done));
  inv_iter : forall name f r, c name = Some f -> In r done -> rname r = name -> iter f = riter r;
  inv_none : forall name, c name = None -> forall r, In r done -> rname r <> name;
  inv_small : forall name f, c name = Some f -> argcount f < 2 ^ 31
}.

Lemma inv_empty : inv empty_table [].
Proof. split; cbn; intros; try reflexivity; try discriminate; try contradiction. Qed.

Lemma valid_reg_spec : forall r, valid_reg r = true -> rmin r <= rmax r /\ rmax r <= 30.
Proof. unfold valid_reg. intros r H. lia. Qed.

Lemma inv_step : forall c done r c', inv c done -> with_function r c = Some c' -> inv c' (done ++ [r]).
Proof.
  intros c done r c' I W. unfold with_function in W.
  destruct (valid_reg r) eqn:Vr; cbn in W; [| discriminate].
  apply valid_reg_spec in Vr. destruct Vr as [V1 V2].
  destruct (c (rname r)) as [old |] eqn:Ec.
  - destruct (Bool.eqb (iter old) (riter r)) eqn:Ei; cbn in W; [| discriminate].
    apply eqb_prop in Ei. inversion W; subst c'; clear W.
    split.
    + intros name cnt. rewrite rev_app_distr. cbn [rev app find].
      unfold lookup_custom, upd.
      destruct (N.eqb_spec name (rname r)) as [-> | Nn].
      * unfold accept; cbn [argcount callback iter].
        rewrite !bit_set_testbit, N.lor_spec, argcount_of_bits by assumption.
        unfold covers at 1. rewrite N.eqb_refl. cbn [andb].
        destruct ((rmin r <=? cnt) && (cnt <=? rmax r)) eqn:Cv; cbn [orb].
        -- reflexivity.
        -- generalize (inv_lookup _ _ I (rname r) cnt). unfold lookup_custom. rewrite Ec.
           unfold accept. rewrite bit_set_testbit. intro L.
           destruct (N.testbit (argcount old) cnt).
           ++ rewrite <- L. now rewrite Ei.
           ++ exact L.
      * unfold covers at 1. destruct (N.eqb_spec (rname r) name); [congruence |]. cbn [andb].
        apply (inv_lookup _ _ I).
    + intros name f r0 Hc Hin Hn. unfold upd in Hc. apply in_app_or in Hin.
      destruct (N.eqb_spec name (rname r)) as [-> | Nn].
      * inversion Hc; subst f; cbn. destruct Hin as [Hin | [<- | []]]; [| reflexivity].
        rewrite <- Ei. symmetry. eapply (inv_iter _ _ I); eauto.
      * destruct Hin as [Hin | [<- | []]]; [eapply (inv_iter _ _ I); eauto | congruence].
    + intros name Hc r0 Hin. unfold upd in Hc. destruct (N.eqb_spec name (rname r)); [discriminate |].
      apply in_app_or in Hin. destruct Hin as [Hin | [<- | []]]; [eapply (inv_none _ _ I); eauto | congruence].
    + intros name f Hc. unfold upd in Hc. destruct (N.eqb_spec name (rname r)).
      * inversion Hc; cbn. apply lor_lt_pow2; [apply argcount_of_lt; assumption | eapply (inv_small _ _ I); eauto].
      * eapply (inv_small _ _ I); eauto.
  - inversion W; subst c'; clear W. split.
    + intros name cnt. rewrite rev_app_distr. cbn [rev app find].
      unfold lookup_custom, upd.
      destruct (N.eqb_spec name (rname r)) as [-> | Nn].
      * unfold accept; cbn [argcount callback iter].
        rewrite bit_set_testbit, argcount_of_bits by assumption.
        unfold covers at 1. rewrite N.eqb_refl. cbn [andb].
        destruct ((rmin r <=? cnt) && (cnt <=? rmax r)) eqn:Cv; [reflexivity |].
        (* no earlier registration of this name *)
        assert (F : find (covers (rname r) cnt) (rev done) = None).
        { destruct (find (covers (rname r) cnt) (rev done)) eqn:Ef; [| reflexivity].
          apply find_some in Ef. destruct Ef as [Hin Hc]. apply in_rev in Hin.
          unfold covers in Hc. exfalso. apply (inv_none _ _ I _ Ec _ Hin). lia. }
        now rewrite F.
      * unfold covers at 1. destruct (N.eqb_spec (rname r) name); [congruence |]. cbn [andb].
        apply (inv_lookup _ _ I).
    + intros name f r0 Hc Hin Hn. unfold upd in Hc. apply in_app_or in Hin.
      destruct (N.eqb_spec name (rname r)) as [-> | Nn].
      * inversion Hc; subst f; cbn. destruct Hin as [Hin | [<- | []]]; [| reflexivity].
        exfalso. eapply (inv_none _ _ I); eauto.
      * destruct Hin as [Hin | [<- | []]]; [eapply (inv_iter _ _ I); eauto | congruence].
    + intros name Hc r0 Hin. unfold upd in Hc. destruct (N.eqb_spec name (rname r)); [discriminate |].
      apply in_app_or in Hin. destruct Hin as [Hin | [<- | []]]; [eapply (inv_none _ _ I); eauto | congruence].
    + intros name f Hc. unfold upd in Hc. destruct (N.eqb_spec name (rname r)).
      * inversion Hc; cbn. apply argcount_of_lt; assumption.
      * eapply (inv_small _ _ I); eauto.
Qed.

Lemma inv_apply : forall regs c done c', inv c done -> apply_opts regs c = Some c' -> inv c' (done ++ regs).
Proof.
  induction regs as [| r rs IH]; intros c done c' I A; cbn in A.
  - inversion A; subst. now rewrite app_nil_r.
  - destruct (with_function r c) as [c1 |] eqn:W; [| discriminate].
    replace (done ++ r :: rs) with ((done ++ [r]) ++ rs) by (rewrite <- app_assoc; reflexivity).
    eapply IH; [eapply inv_step; eauto | exact A].
Qed.

(* For EVERY sequence of registrations that does not panic: a call name/cnt is accepted iff some
   registration of that name covers cnt, and the Go function run is that of the LAST covering registration
   (a later registration's mask is tested first by the merged closure); the iterator flag is its flag. *)
Lemma arity_mask : forall regs c, apply_opts regs empty_table = Some c ->
  forall name cnt, lookup_custom c name cnt = option_map result_of (find (covers name cnt) (rev regs)).
Proof.
  intros regs c A name cnt. apply (inv_lookup c ([] ++ regs)). eapply inv_apply; [apply inv_empty | exact A].
Qed.

Lemma arity_accept_iff : forall regs c, apply_opts regs empty_table = Some c ->
  forall name cnt, (exists res, lookup_custom c name cnt = Some res) <->
                   (exists r, In r regs /\ rname r = name /\ rmin r <= cnt <= rmax r).
Proof.
  intros regs c A name cnt. rewrite (arity_mask _ _ A). split.
  - intros [res H]. destruct (find (covers name cnt) (rev regs)) as [r |] eqn:F; [| discriminate].
    apply find_some in F. destruct F as [Hin Hc]. exists r. split; [now apply in_rev |].
    unfold covers in Hc. lia.
  - intros [r (Hin & Hn & Hr)].
    destruct (find (covers name cnt) (rev regs)) as [r' |] eqn:F; [eexists; reflexivity |].
    exfalso. apply (find_none _ _ F r); [now apply in_rev in Hin |]. unfold covers. lia.
Qed.

