(* C01vm / C04 — soundness of the final pass optimizeCodeOps (peephole_sound).
   [peepR] is the pass written as a right fold (the Go loop runs i from len-1 down to 0);
   Compile.peephole is the same pass written with array updates (Run.v checks on every sampled program
   that both give the same code). *)
From Coq Require Import List NArith ZArith Bool Arith Lia.
From Verif Require Import c01vm.Syntax c01vm.Code c01vm.VM c01vm.Compile.
Import ListNotations.

Definition is_pdl (x : instr) : bool := match x with Ipush _ | Idup | Iload _ => true | _ => false end.
Definition is_popconst (x : instr) : bool := match x with Ipop | Iconst _ => true | _ => false end.

Definition peephole_fold := peephole.

Lemma peepR_length : forall tg call l i, length (peepR tg call i l) = length l.
Proof.
  induction l; intros i; simpl; auto.
  specialize (IHl (S i)).
  destruct a; simpl; try (rewrite IHl; reflexivity);
    try (destruct (is_target tg (S i)); simpl; [rewrite IHl; reflexivity|];
         destruct (peepR tg call (S i) l) as [|[] ?]; simpl in *; lia);
    try (destruct (Nat.eqb t (S i)); simpl; [rewrite IHl; reflexivity|];
         match goal with |- context [match ?e with _ => _ end] => destruct e as [[]|] end; simpl; rewrite IHl; reflexivity).
Qed.

Section Spec.
Variable tg : list nat.
Variable call : list instr.

Definition fused_at (i : nat) : bool :=
  match nth_error call i, nth_error call (S i) with
  | Some x, Some y => is_pdl x && is_popconst y && negb (is_target tg (S i))
  | _, _ => false
  end.

Inductive Reach : nat -> nat -> Prop :=
| R0 : forall p, Reach p p
| R1 : forall p j q, nth_error call p = Some (Ijump j) -> Reach j q -> Reach p q.

(* the final instruction at position p when p is not the second half of a fused pair *)
Definition Fin (p : nat) (y : instr) : Prop :=
  match nth_error call p with
  | None => False
  | Some x =>
      if fused_at p then y = Inop
      else match x with
           | Ijump j => (y = Inop /\ j = S p) \/ (exists j', y = Ijump j' /\ Reach j j' /\ j <> S p)
           | Ijumpifnot j => (y = Inop /\ j = S p) \/ (exists j', y = Ijumpifnot j' /\ Reach j j' /\ j <> S p)
           | _ => y = x
           end
  end.
(* ... and when it is *)
Definition FinS (p : nat) (y : instr) : Prop :=
  match nth_error call p with
  | Some Ipop => y = Inop
  | Some (Iconst k) => y = Ipush k
  | _ => False
  end.

Definition SpecAt (i k : nat) (y : instr) : Prop :=
  match k with
  | O => Fin i y
  | S k' => if fused_at (i + k') then FinS (i + k) y else Fin (i + k) y
  end.

Lemma Fin_popconst : forall p y, Fin p y -> is_popconst y = true ->
  exists x, nth_error call p = Some x /\ y = x /\ is_popconst x = true.
Proof.
  intros p y H Hy. unfold Fin in H. destruct (nth_error call p) as [x|] eqn:E; [|contradiction].
  destruct (fused_at p); [subst; discriminate|].
  destruct x; try (subst y; eauto; fail).
  - destruct H as [[-> _]|(j' & -> & _)]; discriminate.
  - destruct H as [[-> _]|(j' & -> & _)]; discriminate.
Qed.

Lemma Fin_jump : forall p y j', Fin p y -> y = Ijump j' -> Reach p j'.
Proof.
  intros p y j' H ->. unfold Fin in H. destruct (nth_error call p) as [x|] eqn:E; [|contradiction].
  destruct (fused_at p); [discriminate|].
  destruct x; try discriminate.
  - destruct H as [[H _]|(j'' & H & R & _)]; [discriminate|]. inversion H; subst. eapply R1; eauto.
  - destruct H as [[H _]|(j'' & H & R & _)]; discriminate.
Qed.

Lemma fused_at_spec : forall i, fused_at i = true ->
  exists x y, nth_error call i = Some x /\ nth_error call (S i) = Some y /\ is_pdl x = true /\
              is_popconst y = true /\ is_target tg (S i) = false.
Proof.
  intros i H. unfold fused_at in H.
  destruct (nth_error call i) as [x|]; [|discriminate]. destruct (nth_error call (S i)) as [y|]; [|discriminate].
  apply andb_true_iff in H. destruct H as [H H3]. apply andb_true_iff in H. destruct H as [H1 H2].
  exists x, y. repeat split; auto. destruct (is_target tg (S i)); auto; discriminate.
Qed.

Lemma peepR_spec : forall l pre, call = pre ++ l ->
  forall k y, nth_error (peepR tg call (length pre) l) k = Some y -> SpecAt (length pre) k y.
Proof.
  induction l as [|x r IH]; intros pre Hc k y Hk.
  - destruct k; discriminate.
  - set (i := length pre) in *.
    assert (Hc' : call = (pre ++ [x]) ++ r) by (rewrite <- app_assoc; exact Hc).
    assert (Hl : length (pre ++ [x]) = S i) by (rewrite app_length; simpl; unfold i; lia).
    specialize (IH (pre ++ [x]) Hc'). rewrite Hl in IH.
    assert (Hx : nth_error call i = Some x).
    { rewrite Hc. rewrite nth_error_app2 by (unfold i; lia). unfold i. rewrite Nat.sub_diag. reflexivity. }
    assert (Hr : forall m, nth_error call (S i + m) = nth_error r m).
    { intros m. rewrite Hc'. rewrite nth_error_app2 by lia. f_equal. lia. }
    set (r' := peepR tg call (S i) r) in *.
    (* facts about the processed suffix *)
    assert (IH0 : forall y0, nth_error r' 0 = Some y0 -> Fin (S i) y0) by (intros y0 H0; exact (IH 0 y0 H0)).
    assert (IHk : forall k' y0, nth_error r' (S k') = Some y0 ->
              if fused_at (S i + k') then FinS (S i + S k') y0 else Fin (S i + S k') y0)
      by (intros k' y0 H0; exact (IH (S k') y0 H0)).
    (* the generic "not fused at i" case: result x' :: r' with Fin i x' *)
    assert (Gen : forall x', fused_at i = false -> Fin i x' ->
              forall k y, nth_error (x' :: r') k = Some y -> SpecAt i k y).
    { intros x' Hf HF k0 y0 H0. destruct k0 as [|k0]; simpl in H0.
      - inversion H0; subst. exact HF.
      - simpl. destruct k0 as [|k0].
        + rewrite Nat.add_0_r, Hf. replace (i + 1) with (S i) by lia. apply IH0; auto.
        + replace (i + S k0) with (S i + k0) by lia. replace (i + S (S k0)) with (S i + S k0) by lia.
          apply IHk; auto. }
    assert (Fx : is_pdl x = false -> fused_at i = false).
    { intros Hp. unfold fused_at. rewrite Hx. destruct (nth_error call (S i)); auto. rewrite Hp. reflexivity. }
    assert (FinSame : fused_at i = false ->
              (match x with Ijump _ | Ijumpifnot _ => False | _ => True end) -> Fin i x).
    { intros Hf Hnj. unfold Fin. rewrite Hx, Hf. destruct x; auto; contradiction. }
    assert (Lr : length r' = length r) by (unfold r'; apply peepR_length).
    (* push | dup | load *)
    assert (PDL : is_pdl x = true -> forall k y,
              nth_error (if is_target tg (S i) then x :: r'
                         else match r' with
                              | Ipop :: r'' => Inop :: Inop :: r''
                              | Iconst c :: r'' => Inop :: Ipush c :: r''
                              | _ => x :: r'
                              end) k = Some y -> SpecAt i k y).
    { intros Hp k0 y0 H0.
      assert (Hnj : match x with Ijump _ | Ijumpifnot _ => False | _ => True end) by (destruct x; auto; discriminate).
      destruct (is_target tg (S i)) eqn:Et.
      - assert (Hf : fused_at i = false).
        { unfold fused_at. rewrite Hx. destruct (nth_error call (S i)); auto. rewrite Et. rewrite andb_false_r. auto. }
        apply (Gen _ Hf (FinSame Hf Hnj)); exact H0.
      - destruct r' as [|z r''] eqn:Er'.
        + assert (Hf : fused_at i = false).
          { unfold fused_at. rewrite Hx. replace (S i) with (S i + 0) by lia. rewrite Hr.
            destruct r; [reflexivity|simpl in Lr; discriminate]. }
          apply (Gen _ Hf (FinSame Hf Hnj)); exact H0.
        + assert (Hz : Fin (S i) z) by (apply IH0; reflexivity).
          assert (Other : is_popconst z = false -> forall k y, nth_error (x :: z :: r'') k = Some y -> SpecAt i k y).
          { intros Hpz. assert (Hf : fused_at i = false).
            { unfold fused_at. rewrite Hx. destruct (nth_error call (S i)) as [w|] eqn:Ew; auto.
              destruct (is_popconst w) eqn:Hw; [|rewrite andb_false_r; auto].
              exfalso. unfold Fin in Hz. rewrite Ew in Hz.
              assert (Hf1 : fused_at (S i) = false).
              { unfold fused_at. rewrite Ew. destruct (nth_error call (S (S i))); auto.
                destruct w; try discriminate; reflexivity. }
              rewrite Hf1 in Hz. destruct w; try discriminate; subst z; discriminate. }
            apply (Gen _ Hf (FinSame Hf Hnj)). }
          assert (Fused : is_popconst z = true -> fused_at i = true /\ nth_error call (S i) = Some z).
          { intros Hpz. destruct (Fin_popconst _ _ Hz Hpz) as (w & Ew & -> & Hw). split; auto.
            unfold fused_at. rewrite Hx, Ew, Hp, Hw, Et. reflexivity. }
          assert (Tail : forall k0 y0, nth_error r'' k0 = Some y0 -> SpecAt i (S (S k0)) y0).
          { intros k1 y1 H1. simpl. replace (i + S k1) with (S i + k1) by lia.
            replace (i + S (S k1)) with (S i + S k1) by lia. apply IHk. exact H1. }
          destruct z; try (apply (Other eq_refl); exact H0).
          * destruct (Fused eq_refl) as [Hf Ew].
            destruct k0 as [|[|k0]]; simpl in H0.
            -- inversion H0; subst. simpl. unfold Fin. rewrite Hx, Hf. reflexivity.
            -- inversion H0; subst. simpl. rewrite Nat.add_0_r, Hf. unfold FinS. replace (i + 1) with (S i) by lia.
               rewrite Ew. reflexivity.
            -- apply Tail; auto.
          * destruct (Fused eq_refl) as [Hf Ew].
            destruct k0 as [|[|k0]]; simpl in H0.
            -- inversion H0; subst. simpl. unfold Fin. rewrite Hx, Hf. reflexivity.
            -- inversion H0; subst. simpl. rewrite Nat.add_0_r, Hf. unfold FinS. replace (i + 1) with (S i) by lia.
               rewrite Ew. reflexivity.
            -- apply Tail; auto. }
    (* the processed instruction at a jump target *)
    assert (Look : forall j j', j <> S i ->
              (if S i <=? j then nth_error r' (j - S i) else if j =? i then Some x else nth_error call j) = Some (Ijump j') ->
              Reach j j').
    { intros j j' Hj Hlk. destruct (Nat.leb_spec (S i) j) as [Hle|Hlt].
      - destruct (j - S i) as [|k'] eqn:Ek; [lia|].
        pose proof (IHk k' _ Hlk) as HH. replace (S i + S k') with j in HH by lia.
        destruct (fused_at (S i + k')).
        + unfold FinS in HH. destruct (nth_error call j) as [[]|]; try contradiction; discriminate.
        + eapply Fin_jump; eauto.
      - destruct (Nat.eqb_spec j i) as [->|Hne].
        + inversion Hlk; subst. eapply R1; [exact Hx|apply R0].
        + eapply R1; [exact Hlk|apply R0]. }
    simpl in Hk. fold r' in Hk.
    destruct x; try (apply (Gen _ (Fx eq_refl) (FinSame (Fx eq_refl) I)); exact Hk).
    + apply (PDL eq_refl); exact Hk.
    + apply (PDL eq_refl); exact Hk.
    + apply (PDL eq_refl); exact Hk.
    + (* jump *)
      assert (Hf : fused_at i = false) by (apply Fx; reflexivity).
      destruct (Nat.eqb_spec t (S i)) as [->|Hne].
      * apply (Gen Inop Hf); [|exact Hk]. unfold Fin. rewrite Hx, Hf. left. auto.
      * match type of Hk with nth_error (match ?e with _ => _ end) _ = _ => destruct e as [z|] eqn:El end.
        -- destruct z; try (apply (Gen (Ijump t) Hf); [|exact Hk]; unfold Fin; rewrite Hx, Hf; right; exists t;
                            split; [reflexivity|split; [apply R0|exact Hne]]).
           apply (Gen (Ijump t0) Hf); [|exact Hk]. unfold Fin. rewrite Hx, Hf. right. exists t0.
           split; [reflexivity|split; [apply Look; auto|exact Hne]].
        -- apply (Gen (Ijump t) Hf); [|exact Hk]. unfold Fin. rewrite Hx, Hf. right. exists t.
           split; [reflexivity|split; [apply R0|exact Hne]].
    + (* jumpifnot *)
      assert (Hf : fused_at i = false) by (apply Fx; reflexivity).
      destruct (Nat.eqb_spec t (S i)) as [->|Hne].
      * apply (Gen Inop Hf); [|exact Hk]. unfold Fin. rewrite Hx, Hf. left. auto.
      * match type of Hk with nth_error (match ?e with _ => _ end) _ = _ => destruct e as [z|] eqn:El end.
        -- destruct z; try (apply (Gen (Ijumpifnot t) Hf); [|exact Hk]; unfold Fin; rewrite Hx, Hf; right; exists t;
                            split; [reflexivity|split; [apply R0|exact Hne]]).
           apply (Gen (Ijumpifnot t0) Hf); [|exact Hk]. unfold Fin. rewrite Hx, Hf. right. exists t0.
           split; [reflexivity|split; [apply Look; auto|exact Hne]].
        -- apply (Gen (Ijumpifnot t) Hf); [|exact Hk]. unfold Fin. rewrite Hx, Hf. right. exists t.
           split; [reflexivity|split; [apply R0|exact Hne]].
Qed.
End Spec.

(* ---- simulation: the machine on c and the machine on peephole_fold c ---- *)
Section Sim.
Variable nt : natives.
Variable c : list instr.
Let tg := jump_targets c.
Let c' := peephole_fold c.
Notation fused := (fused_at tg c).
Notation ReachC := (Reach c).

Hypothesis Hjin : forall p j, nth_error c p = Some (Ijumpifnot j) -> j <> S p.
Hypothesis Hlast : nth_error c (length c - 1) = Some Iret.

Definition fs (p : nat) : bool := match p with O => false | S q => fused q end.

Lemma len_eq : length c' = length c.
Proof. unfold c', peephole_fold. apply peepR_length. Qed.

Lemma spec_global : forall p y, nth_error c' p = Some y ->
  if fs p then FinS c p y else Fin tg c p y.
Proof.
  intros p y H. pose proof (peepR_spec tg c c [] eq_refl p y H) as HS. simpl in HS.
  destruct p; simpl in *; auto.
Qed.

Lemma in_targets : forall l p x t, nth_error l p = Some x ->
  match x with Ifork u | Iforktrybegin u | Ijump u | Ijumpifnot u => u = t | _ => False end ->
  is_target (jump_targets l) t = true.
Proof.
  induction l; intros p x t Hp Hx; [destruct p; discriminate|].
  unfold jump_targets, is_target in *. simpl. rewrite existsb_app. apply orb_true_iff.
  destruct p; simpl in Hp.
  - inversion Hp; subst. left. destruct x; try contradiction; subst; simpl; rewrite Nat.eqb_refl; reflexivity.
  - right. eapply IHl; eauto.
Qed.

Lemma target_not_fs : forall t, is_target tg t = true -> fs t = false.
Proof.
  intros [|q] H; simpl; auto. destruct (fused q) eqn:E; auto.
  destruct (fused_at_spec _ _ _ E) as (x & y & _ & _ & _ & _ & Ht). rewrite H in Ht. discriminate.
Qed.

Lemma reach_target : forall p q, ReachC p q -> is_target tg p = true -> is_target tg q = true.
Proof.
  induction 1; intros Hp; auto. apply IHReach. eapply in_targets; eauto. reflexivity.
Qed.

Definition frames_ok (sc : list frame) : Prop := Forall (fun fr => fs (snd fr) = false) sc.
Definition forks_ok (fk : list fork) : Prop := Forall (fun f => fs (f_pc f) = false /\ frames_ok (f_scopes f)) fk.
Definition mem_ok (m : mem) : Prop := forks_ok (forks m) /\ frames_ok (scopes m).

Lemma last_not_fs : fs (length c - 1) = false.
Proof.
  remember (length c - 1) as n eqn:E. destruct n as [|q]; simpl; auto. destruct (fused q) eqn:Ef; auto.
  destruct (fused_at_spec _ _ _ Ef) as (x & y & _ & Hy & _ & Hpc & _). pose proof Hlast as HL. try rewrite <- E in HL.
  rewrite HL in Hy. inversion Hy; subst. discriminate.
Qed.

Definition out_ok (pc : nat) (o : outcome) : Prop :=
  match o with
  | Next (Run pc2 _ _ m2) => (pc2 = S pc \/ is_target tg pc2 = true) /\ mem_ok m2
  | Next (Brk _ fk _ _) => forks_ok fk
  | Emit _ (Run pc2 _ _ m2) => fs pc2 = false /\ mem_ok m2
  | Emit _ (Brk _ _ _ _) => False
  | _ => True
  end.

Lemma step_shape : forall pc bt e m, fs pc = false -> mem_ok m -> out_ok pc (step nt c (Run pc bt e m)).
Proof.
  intros pc bt e m Hpc [Hf Hs].
  assert (Hpush : forks_ok (forks (pushfork pc m))).
  { simpl. constructor; auto. }
  assert (Tg : forall x t, nth_error c pc = Some x ->
            match x with Ifork u | Iforktrybegin u | Ijump u | Ijumpifnot u => u = t | _ => False end ->
            is_target tg t = true) by (intros; eapply in_targets; eauto).
  unfold step. destruct (nth_error c pc) as [x|] eqn:Ex; [|simpl; auto].
  destruct x; simpl;
    repeat match goal with
    | |- out_ok _ (match ?e with _ => _ end) => destruct e eqn:?
    | |- out_ok _ (if ?e then _ else _) => destruct e eqn:?
    | |- out_ok _ (let _ := _ in _) => cbv zeta
    end; simpl; auto;
    try (split; [auto|split; auto]; fail);
    try (split; [right; eapply Tg; eauto; reflexivity|split; auto]; fail).
  - split; [auto|]. split; simpl; [constructor; auto|auto].
  - split; [auto|]. split; simpl; [auto|]. constructor; [apply last_not_fs|constructor].
  - inversion Hs; subst. simpl in *.
    split; [auto|]. split; simpl; [auto|constructor].
  - split; [auto|]. split; simpl; [constructor; auto|auto].
  - split; [auto|]. split; simpl; [constructor; auto|auto].
Qed.

Lemma step_same : forall pc bt e m, nth_error c' pc = nth_error c pc ->
  step nt c' (Run pc bt e m) = step nt c (Run pc bt e m).
Proof.
  intros pc bt e m H. unfold step. rewrite H. destruct (nth_error c pc) as [[]|]; try reflexivity.
  rewrite len_eq. reflexivity.
Qed.

Inductive Rel : state -> state -> Prop :=
| Rel_brk : forall e fk vs l, forks_ok fk -> Rel (Brk e fk vs l) (Brk e fk vs l)
| Rel_run : forall pc pc' bt e m, ReachC pc pc' -> fs pc' = false -> (pc = pc' \/ is_target tg pc' = true) ->
    mem_ok m -> Rel (Run pc bt e m) (Run pc' bt e m)
| Rel_mid : forall i bt e x st sc fk vs l, fused i = true -> forks_ok fk -> frames_ok sc ->
    Rel (Run (S i) bt e {| stk := x :: st; scopes := sc; forks := fk; vars := vs; lbl := l |})
        (Run (S i) bt e {| stk := st; scopes := sc; forks := fk; vars := vs; lbl := l |}).

Definition sim_ok (s' : state) (o : outcome) : Prop :=
  match o with
  | Next t => (exists t', step nt c' s' = Next t' /\ Rel t t') \/ Rel t s'
  | Emit v t => exists t', step nt c' s' = Emit v t' /\ Rel t t'
  | Halt e => step nt c' s' = Halt e
  | Stuck => True
  end.

Lemma rel_same : forall pc o, fs pc = false -> out_ok pc o ->
  (forall pc2 b e m2, o = Next (Run pc2 b e m2) -> pc2 = S pc -> fused pc = false) ->
  match o with
  | Next t => Rel t t
  | Emit _ t => Rel t t
  | _ => True
  end.
Proof.
  intros pc o Hpc Ho Hn. destruct o as [[pc2 b e m2|e fk vs l]|v [pc2 b e m2|]| |]; simpl in Ho; auto.
  - destruct Ho as [Hp Hm]. apply Rel_run; auto; [apply R0| ].
    destruct Hp as [->|Ht]; [simpl; eapply Hn; eauto|apply target_not_fs; auto].
  - apply Rel_brk; auto.
  - destruct Ho as [Hp Hm]. apply Rel_run; auto. apply R0.
  - contradiction.
Qed.

Lemma sim_step : forall s s', Rel s s' -> sim_ok s' (step nt c s).
Proof.
  intros s s' HR. destruct HR as [e fk vs l Hf | pc pc' bt e m HRe Hfs Htg Hm | i bt e x st sc fk vs l Hfu Hf Hs].
  - (* after break loop: popfork is the same on both sides *)
    destruct fk as [|f r]; simpl; auto.
    left. eexists. split; [reflexivity|]. inversion Hf as [|f0 r0 [Hf1 Hf2] Hf3]; subst.
    apply Rel_run; [apply R0|auto|auto|split; auto].
  - destruct (Nat.eq_dec pc pc') as [<-|Hne].
    + (* same pc *)
      destruct (nth_error c pc) as [x|] eqn:Ex.
      2:{ (* past the end of the code *)
          assert (Ex' : nth_error c' pc = None).
          { apply nth_error_None. rewrite len_eq. apply nth_error_None. auto. }
          unfold step. rewrite Ex. simpl. left. eexists. split; [unfold step; rewrite Ex'; reflexivity|].
          apply Rel_brk. apply Hm. }
      assert (Ey : exists y, nth_error c' pc = Some y).
      { destruct (nth_error c' pc) eqn:E; eauto. apply nth_error_None in E. rewrite len_eq in E.
        apply nth_error_None in E. congruence. }
      destruct Ey as (y & Ey). pose proof (spec_global _ _ Ey) as HS. rewrite Hfs in HS.
      unfold Fin in HS. rewrite Ex in HS.
      destruct (fused pc) eqn:Efu.
      * (* first half of a fused pair: c runs push|dup|load, c' runs nop *)
        subst y. destruct (fused_at_spec _ _ _ Efu) as (x0 & y0 & Hx0 & _ & Hp & _ & _). rewrite Ex in Hx0. inversion Hx0; subst x0.
        destruct m as [st sc fk vs l]. destruct Hm as [Hmf Hms]. simpl in Hmf, Hms.
        assert (E' : step nt c' (Run pc bt e {| stk := st; scopes := sc; forks := fk; vars := vs; lbl := l |}) =
                     Next (Run (S pc) bt e {| stk := st; scopes := sc; forks := fk; vars := vs; lbl := l |})).
        { unfold step. rewrite Ey. reflexivity. }
        unfold step. rewrite Ex. destruct x; try discriminate; simpl.
        -- left. eexists. split; [exact E'|]. apply Rel_mid; auto.
        -- destruct st as [|v0 st0]; simpl; auto. left. eexists. split; [exact E'|]. apply (Rel_mid pc bt e v0 (v0 :: st0)); auto.
        -- destruct (index_of sc x); simpl; auto. destruct (nth_error vs n); simpl; auto.
           left. eexists. split; [exact E'|]. apply Rel_mid; auto.
      * destruct x.
        all: try (subst y; rewrite <- (step_same pc bt e m) by congruence;
                  pose proof (step_shape pc bt e m Hfs Hm) as Hsh; rewrite <- (step_same pc bt e m) in Hsh by congruence;
                  pose proof (rel_same pc _ Hfs Hsh) as Hrs;
                  remember (step nt c' (Run pc bt e m)) as o eqn:Eo;
                  destruct o as [st1|v1 st1|eh|]; cbn [sim_ok]; auto;
                  [left; eexists; split; [symmetry; exact Eo|]; apply Hrs; intros; exact Efu
                  |eexists; split; [symmetry; exact Eo|]; apply Hrs; intros; exact Efu]).
        -- (* jump *)
           assert (Ht : is_target tg t = true) by (eapply in_targets; [exact Ex|reflexivity]).
           unfold step at 1. rewrite Ex. cbn [sim_ok]. left.
           destruct HS as [[-> ->]|(j' & -> & HR & Hne)].
           ++ eexists. split; [unfold step; rewrite Ey; reflexivity|].
              apply Rel_run; [apply R0|exact Efu|auto|exact Hm].
           ++ eexists. split; [unfold step; rewrite Ey; reflexivity|].
              pose proof (reach_target _ _ HR Ht) as Ht'.
              apply Rel_run; [exact HR|apply target_not_fs; exact Ht'|auto|exact Hm].
        -- (* jumpifnot *)
           assert (Ht : is_target tg t = true) by (eapply in_targets; [exact Ex|reflexivity]).
           destruct HS as [[-> ->]|(j' & -> & HR & Hne)]; [exfalso; eapply Hjin; eauto|].
           pose proof (reach_target _ _ HR Ht) as Ht'.
           destruct m as [st sc fk vs l]. destruct Hm as [Hmf Hms]. simpl in Hmf, Hms.
           unfold step at 1. rewrite Ex. destruct st as [|v0 r0]; cbn [sim_ok stk]; auto.
           assert (Hm' : mem_ok (set_stk {| stk := v0 :: r0; scopes := sc; forks := fk; vars := vs; lbl := l |} r0))
             by (split; auto).
           destruct v0 as [[| [] | | | |]| |]; cbn [sim_ok]; left; eexists;
             (split; [unfold step; rewrite Ey; reflexivity|]);
             first [apply Rel_run; [exact HR|apply target_not_fs; exact Ht'|auto|exact Hm']
                   |apply Rel_run; [apply R0|exact Efu|auto|exact Hm']].
    + (* c follows a chain of jumps that c' has threaded *)
      inversion HRe; subst; [congruence|].
      unfold step. rewrite H. simpl. right. apply Rel_run; auto. destruct Htg; [congruence|auto].
  - (* second half of a fused pair *)
    destruct (fused_at_spec _ _ _ Hfu) as (x0 & y0 & Hx0 & Hy0 & Hp & Hq & _).
    assert (Ey : exists y, nth_error c' (S i) = Some y).
    { destruct (nth_error c' (S i)) eqn:E; eauto. apply nth_error_None in E. rewrite len_eq in E.
      apply nth_error_None in E. congruence. }
    destruct Ey as (y & Ey). pose proof (spec_global _ _ Ey) as HS. simpl fs in HS. rewrite Hfu in HS.
    unfold FinS in HS. rewrite Hy0 in HS.
    assert (Hnf : fused (S i) = false).
    { unfold fused_at. rewrite Hy0. destruct (nth_error c (S (S i))); auto. destruct y0; try discriminate; reflexivity. }
    unfold step at 1. rewrite Hy0. destruct y0; try discriminate; subst y; cbn [sim_ok stk]; left; eexists;
      (split; [unfold step; rewrite Ey; reflexivity|]);
      (apply Rel_run; [apply R0|exact Hnf|auto|split; auto]).
Qed.

Lemma run_S : forall code f s, run nt code (S f) s =
  match step nt code s with
  | Next s' => run nt code f s'
  | Emit v s' => let '(o, e) := run nt code f s' in (v :: o, e)
  | Halt None => ([], End)
  | Halt (Some e) => ([], Error e)
  | Stuck => ([], IsStuck)
  end.
Proof. reflexivity. Qed.

Lemma sim_run : forall f s s' o, Rel s s' -> run nt c f s = o -> snd o <> OutOfFuel -> snd o <> IsStuck ->
  exists f', run nt c' f' s' = o.
Proof.
  induction f; intros s s' o HR Ho H1 H2.
  - simpl in Ho. subst o. simpl in H1. congruence.
  - rewrite run_S in Ho. pose proof (sim_step s s' HR) as HS.
    destruct (step nt c s) as [t|v t|e|]; cbn [sim_ok] in HS.
    + destruct HS as [(t' & Es & HR')|HR'].
      * destruct (IHf t t' o HR' Ho H1 H2) as (f' & Hf'). exists (S f'). rewrite run_S, Es. exact Hf'.
      * exact (IHf t s' o HR' Ho H1 H2).
    + destruct HS as (t' & Es & HR'). destruct (run nt c f t) as [o1 e1] eqn:Er. subst o. simpl in H1, H2.
      destruct (IHf t t' (o1, e1) HR' Er H1 H2) as (f' & Hf'). exists (S f'). rewrite run_S, Es, Hf'. reflexivity.
    + exists 1. rewrite run_S, HS. exact Ho.
    + subst o. simpl in H2. congruence.
Qed.

Theorem peephole_fold_sound : forall v f o, run nt c f (init v) = o -> snd o <> OutOfFuel -> snd o <> IsStuck ->
  exists f', run nt (peephole_fold c) f' (init v) = o.
Proof.
  intros v f o Ho H1 H2. eapply sim_run; eauto.
  unfold init. apply Rel_run; [apply R0|reflexivity|auto|split; constructor].
Qed.

End Sim.

(* ---- the side conditions hold for the code emitted by comp ---- *)
Definition jin_ok (pc : nat) (l : list instr) : Prop :=
  forall k j, nth_error l k = Some (Ijumpifnot j) -> pc + k + 2 <= j.

Lemma jin_nil : forall pc, jin_ok pc [].
Proof. intros pc [|k] j H; discriminate. Qed.
Lemma jin_cons : forall pc x r,
  match x with Ijumpifnot j => pc + 2 <= j | _ => True end -> jin_ok (S pc) r -> jin_ok pc (x :: r).
Proof.
  intros pc x r Hx Hr [|k] j H; simpl in H.
  - inversion H; subst. lia.
  - specialize (Hr k j H). lia.
Qed.
Lemma jin_app : forall pc a b, jin_ok pc a -> jin_ok (pc + length a) b -> jin_ok pc (a ++ b).
Proof.
  intros pc a b Ha Hb k j H. destruct (Nat.lt_ge_cases k (length a)).
  - rewrite nth_error_app1 in H by auto. apply Ha; auto.
  - rewrite nth_error_app2 in H by auto. specialize (Hb _ _ H). lia.
Qed.
Lemma jin_eq : forall pc pc' l, pc = pc' -> jin_ok pc l -> jin_ok pc' l.
Proof. intros; subst; auto. Qed.

From Verif Require Import c01vm.Lemmas.

Ltac jin_sub := eapply jin_eq; [|solve [eauto]]; simpl; repeat (rewrite app_length; simpl); lia.
Ltac jin :=
  repeat first
    [ apply jin_nil
    | apply jin_cons; [simpl; repeat (rewrite app_length; simpl); first [exact I|lia]|]
    | jin_sub
    | apply jin_app ].

Lemma comp_sarg_jin : forall v a l pc, comp_sarg v a = Some l -> jin_ok pc l.
Proof.
  intros v a l pc H. destruct a; simpl in H; try (destruct (simple_const c); [|discriminate]); inversion H; subst; jin.
Qed.

Lemma comp_jin : forall q ce pc nv cq nv', comp q ce pc nv = Some (cq, nv') -> jin_ok pc cq.
Proof.
  induction q as [ | c | a b IHa IHb | a b IHa IHb | | t IHt | t k IHt | c a b IHc IHa IHb | a b IHa IHb
                 | a h IHa IHh | q IHq | s x i u IHs IHi IHu | s x i u e IHs IHi IHu IHe | l b IHb | l
                 | s x b IHs IHb | x | f | o a b ] using query_ind';
    intros ce pc nv cq nv' Hc; simpl in Hc; dcomp; try (inversion Hc; subst; clear Hc; jin; fail).
  - (* if *) destruct (is_const1 l0), (is_const1 l1); inversion Hc; subst; clear Hc;
      (destruct l as [|i0 l']; [simpl|cbv iota; remember (i0 :: l') as cc; cbn [tl]]); jin.
  - (* try *) destruct h as [h|]; simpl in *; dcomp; inversion Hc; subst; clear Hc; jin.
  - (* array *) destruct (array_fold q); inversion Hc; subst; clear Hc; jin.
  - (* foreach *) destruct e as [e|]; simpl in *; dcomp; inversion Hc; subst; clear Hc; jin.
  - (* bind *) (destruct l as [|i0 l']; [simpl in Hc|cbv iota in Hc; remember (i0 :: l') as cc]); dcomp; inversion Hc; subst; clear Hc; jin.
  - (* binop *) destruct (comp_sarg (V nv) b) eqn:Eb; [|discriminate]. destruct (comp_sarg (V nv) a) eqn:Ea; [|discriminate].
    inversion Hc; subst; clear Hc. jin; eapply comp_sarg_jin; eauto.
Qed.

From Verif Require Import c01vm.Den c01vm.Correct.

(* compile_correct for the code the compiler finally emits (after optimizeCodeOps) *)
Theorem compile_correct : forall (nt : natives) (q : query) (code : list instr), compile q = Some code ->
  forall v, exists fuel, run_is (den nt q [] v) (run nt code fuel (init v)).
Proof.
  intros nt q code Hc v. unfold compile in Hc.
  destruct (compile_raw q) as [c|] eqn:Er; [|discriminate]. inversion Hc; subst code. clear Hc.
  destruct (compile_raw_correct nt q c Er v) as (f & Hf).
  pose proof Er as Er'. unfold compile_raw in Er'. destruct (comp q ce_empty 1 0) as [[cq nv]|] eqn:Ec; [|discriminate].
  inversion Er'; subst c. clear Er'.
  set (c := Iscope mainscope nv 0 :: cq ++ [Iret]) in *.
  assert (Hjin : forall p j, nth_error c p = Some (Ijumpifnot j) -> j <> S p).
  { intros p j Hp. destruct p as [|p]; [discriminate|]. unfold c in Hp. simpl in Hp.
    destruct (Nat.lt_ge_cases p (length cq)).
    - rewrite nth_error_app1 in Hp by auto. pose proof (comp_jin _ _ _ _ _ _ Ec p j Hp). lia.
    - rewrite nth_error_app2 in Hp by auto. destruct (p - length cq) as [|[|]]; discriminate. }
  assert (Hlast : nth_error c (length c - 1) = Some Iret).
  { unfold c. simpl. rewrite app_length. simpl. replace (length cq + 1 - 0) with (S (length cq)) by lia.
    simpl. rewrite nth_error_app2 by lia. rewrite Nat.sub_diag. reflexivity. }
  unfold run_is in *. destruct (den nt q [] v) as [ws [[e0|l]|]]; cbn [fst snd] in *; try contradiction.
  - destruct (peephole_fold_sound nt c Hjin Hlast v f _ Hf) as (f' & Hf'); try (simpl; discriminate). exists f'. exact Hf'.
  - destruct (peephole_fold_sound nt c Hjin Hlast v f _ Hf) as (f' & Hf'); try (simpl; discriminate). exists f'. exact Hf'.
Qed.
