(* C01vm — the bytecode compiler of /repo/compiler.go for fragment F.  Definitions only.

   [comp q ce pc nv] is the code emitted by compileQuery for q when len(c.codes) = pc and the main
   scope's variablecnt = nv; it returns the instructions and the new variablecnt.  Absolute jump and
   fork targets are those the Go code back-patches through c.lazy (a lazy slot evaluated at
   len(c.codes) = the pc after the sub-segment).  All variables live in the main scope (id 1; the
   builtin scope has id 0).  The emission-time rewrites are transcribed: compileIf (expbegin removal,
   constant results), compileBind (expbegin -> nop), compileArray constant folding, argument
   inlining of compileCallInternal; the final pass optimizeCodeOps is [peephole]. *)
From Coq Require Import List NArith ZArith Bool Arith.
From Verif Require Import c01vm.Syntax c01vm.Code.
Import ListNotations.

Record cenv := { ce_vars : list (vname * nat); ce_lbls : list (lname * nat) }.
Definition ce_empty : cenv := {| ce_vars := []; ce_lbls := [] |}.
Definition add_var (ce : cenv) (x : vname) (k : nat) : cenv :=
  {| ce_vars := (x, k) :: ce_vars ce; ce_lbls := ce_lbls ce |}.
Definition add_lbl (ce : cenv) (l : lname) (k : nat) : cenv :=
  {| ce_vars := ce_vars ce; ce_lbls := (l, k) :: ce_lbls ce |}.

Definition mainscope : nat := 1.
Definition V (k : nat) : var := (mainscope, k).

(* queries that emit no code *)
Fixpoint emptycode (q : query) : bool :=
  match q with QId => true | QPipe a b => emptycode a && emptycode b | _ => false end.

(* compileArray folds [q] to a constant exactly when the code of q is the code of a left-nested
   comma of single opconst instructions (fork/jump targets included, see compiler.go) *)
Fixpoint acl (q : query) : option (list jv) :=
  match q with
  | QConst c => Some [c]
  | QArray q' =>
      match q' with
      | QPipe _ _ => None
      | _ => match acl q' with Some cs => Some [VArr cs] | None => None end
      end
  | QPipe a b => if emptycode a then acl b else if emptycode b then acl a else None
  | QComma a b =>
      match acl a, acl b with
      | Some cs, Some [c] => Some (cs ++ [c])
      | _, _ => None
      end
  | _ => None
  end.
Definition array_fold (q : query) : option (list jv) :=
  match q with QPipe _ _ => None | _ => acl q end.

(* variables allocated while compiling (independent of the folding decision) *)
Definition simple_const (c : jv) : bool := Nat.eqb (lit_vars c) 0.

Definition comp_sarg (v : var) (a : sarg) : option (list instr) :=
  match a with
  | AId => Some [Iload v]                                  (* n == 2: identity argument *)
  | AConst c => if simple_const c then Some [Ipush c] else None     (* n == 3, opconst *)
  | AIndex k => Some [Iload v; Iindex k]                   (* n == 3, other single instruction *)
  | AIter => Some [Iload v; Iiter]
  | AEmpty => Some [Iload v; Ibacktrack]
  | ACall0 f => Some [Iload v; Icall (NF0 f)]
  end.

Definition is_const1 (l : list instr) : option jv := match l with [Iconst x] => Some x | _ => None end.

Fixpoint comp (q : query) (ce : cenv) (pc nv : nat) : option (list instr * nat) :=
  match q with
  | QId => Some ([], nv)
  | QConst c => Some ([Iconst c], nv + lit_vars c)
  | QPipe a b =>
      match comp a ce pc nv with
      | Some (ca, n1) =>
          match comp b ce (pc + length ca) n1 with
          | Some (cb, n2) => Some (ca ++ cb, n2)
          | None => None end
      | None => None end
  | QComma a b =>
      match comp a ce (S pc) nv with
      | Some (ca, n1) =>
          let l := pc + 1 + length ca + 1 in
          match comp b ce l n1 with
          | Some (cb, n2) => Some (Ifork l :: ca ++ Ijump (l + length cb) :: cb, n2)
          | None => None end
      | None => None end
  | QEmpty => Some ([Ibacktrack], nv)
  | QIter t =>
      match comp t ce pc nv with
      | Some (ct, n1) => Some (ct ++ [Iiter], n1)
      | None => None end
  | QIndex t k =>
      match comp t ce pc nv with
      | Some (ct, n1) => Some (ct ++ [Iindex k], n1)
      | None => None end
  | QIf c a b =>
      match comp c ce (pc + 2) nv with
      | Some (cc, n1) =>
          let pre := match cc with [] => [Idup] | _ => Idup :: Iexpbegin :: cc ++ [Iexpend] end in
          let pcc := pc + length pre in
          match comp a ce (S pcc) n1 with
          | Some (ca, n2) =>
              let e := pcc + 1 + length ca + 1 in
              match comp b ce e n2 with
              | Some (cb, n3) =>
                  match is_const1 ca, is_const1 cb with
                  | Some x, Some y =>     (* optimize constant results *)
                      Some (Inop :: tl pre ++ [Ijumpifnot e; Ipush x; Ijump (e + 1); Ipush y], n3)
                  | _, _ =>
                      Some (pre ++ Ijumpifnot e :: ca ++ Ijump (e + length cb) :: cb, n3)
                  end
              | None => None end
          | None => None end
      | None => None end
  | QAlt a b =>
      let f := V nv in
      match comp a ce (pc + 3) (S nv) with
      | Some (ca, n1) =>
          let p1 := pc + 3 + length ca in
          match comp b ce (p1 + 11) n1 with
          | Some (cb, n2) =>
              Some (Ipush (VBool false) :: Istore f :: Ifork (p1 + 7) :: ca ++
                    [Idup; Ijumpifnot (p1 + 5); Ipush (VBool true); Istore f; Ijump (p1 + 11 + length cb);
                     Ipop; Ibacktrack; Iload f; Ijumpifnot (p1 + 11); Ibacktrack; Ipop] ++ cb, n2)
          | None => None end
      | None => None end
  | QTry a h =>
      match comp a ce (S pc) nv with
      | Some (ca, n1) =>
          let hp := pc + 1 + length ca + 2 in
          match h with
          | Some h =>
              match comp h ce hp n1 with
              | Some (ch, n2) => Some (Iforktrybegin hp :: ca ++ Iforktryend :: Ijump (hp + length ch) :: ch, n2)
              | None => None end
          | None => Some (Iforktrybegin hp :: ca ++ [Iforktryend; Ijump (hp + 1); Ibacktrack], n1)
          end
      | None => None end
  | QArray q =>
      let arr := V nv in
      match comp q ce (pc + 3) (S nv) with
      | Some (cq, n1) =>
          match array_fold q with
          | Some cs => Some ([Iconst (VArr cs)], n1)
          | None =>
              Some (Ipush (VArr []) :: Istore arr :: Ifork (pc + 3 + length cq + 2) :: cq ++
                    [Iappend arr; Ibacktrack; Ipop; Iload arr], n1)
          end
      | None => None end
  | QReduce src x init upd =>
      let acc := V nv in
      match comp init ce (S pc) (S nv) with
      | Some (ci, n1) =>
          let p1 := pc + 1 + length ci in        (* store acc; fork *)
          match comp src ce (p1 + 2) n1 with
          | Some (cs, n2) =>
              let p2 := p1 + 2 + length cs in    (* store x; load acc *)
              match comp upd (add_var ce x n2) (p2 + 2) (S n2) with
              | Some (cu, n3) =>
                  let p3 := p2 + 2 + length cu in
                  Some (Idup :: ci ++ Istore acc :: Ifork (p3 + 2) :: cs ++
                        Istore (V n2) :: Iload acc :: cu ++ [Istore acc; Ibacktrack; Ipop; Iload acc], n3)
              | None => None end
          | None => None end
      | None => None end
  | QForeach src x init upd ext =>
      let acc := V nv in
      match comp init ce (S pc) (S nv) with
      | Some (ci, n1) =>
          let p1 := pc + 1 + length ci in        (* store acc *)
          match comp src ce (p1 + 1) n1 with
          | Some (cs, n2) =>
              let p2 := p1 + 1 + length cs in    (* store x; load acc *)
              match comp upd (add_var ce x n2) (p2 + 2) (S n2) with
              | Some (cu, n3) =>
                  let p3 := p2 + 2 + length cu in   (* dup; store acc *)
                  match ext with
                  | Some e =>
                      match comp e (add_var ce x n2) (p3 + 2) n3 with
                      | Some (cx, n4) =>
                          Some (Idup :: ci ++ Istore acc :: cs ++ Istore (V n2) :: Iload acc :: cu ++
                                Idup :: Istore acc :: cx, n4)
                      | None => None end
                  | None =>
                      Some (Idup :: ci ++ Istore acc :: cs ++ Istore (V n2) :: Iload acc :: cu ++
                            [Idup; Istore acc], n3)
                  end
              | None => None end
          | None => None end
      | None => None end
  | QLabel l body =>
      match comp body (add_lbl ce l nv) (S pc) (S nv) with
      | Some (cb, n1) => Some (Iforklabel (V nv) :: cb, n1)
      | None => None end
  | QBreak l =>
      match lookup l (ce_lbls ce) with
      | Some k => Some ([Ipop; Iload (V k); Icall NBreak], nv)
      | None => None end
  | QBind src x body =>
      match comp src ce (pc + 2) nv with
      | Some (cs, n1) =>
          let pre := match cs with
                     | [] => [Idup; Inop; Istore (V n1)]
                     | _ => Idup :: Iexpbegin :: cs ++ [Istore (V n1); Iexpend]
                     end in
          match comp body (add_var ce x n1) (pc + length pre) (S n1) with
          | Some (cb, n2) => Some (pre ++ cb, n2)
          | None => None end
      | None => None end
  | QVar x =>
      match lookup x (ce_vars ce) with
      | Some k => Some ([Ipop; Iload (V k)], nv)
      | None => None end
  | QCall0 f => Some ([Icall (NF0 f)], nv)
  | QBinop o a b =>
      match comp_sarg (V nv) b, comp_sarg (V nv) a with
      | Some cb, Some ca => Some (Istore (V nv) :: cb ++ ca ++ [Iload (V nv); Icall (NF2 o)], S nv)
      | _, _ => None end
  end.

(* Compile(): opscope (lazy: final variablecnt), the query, opret *)
Definition compile_raw (q : query) : option (list instr) :=
  match comp q ce_empty 1 0 with
  | Some (c, nv) => Some (Iscope mainscope nv 0 :: c ++ [Iret])
  | None => None
  end.

(* ---- optimizeCodeOps ---- *)
Definition set_nth (l : list instr) (i : nat) (x : instr) : list instr :=
  firstn i l ++ match skipn i l with [] => [] | _ :: r => x :: r end.

Definition jump_targets (l : list instr) : list nat :=
  flat_map (fun i => match i with
                     | Ifork t | Iforktrybegin t | Ijump t | Ijumpifnot t => [t]
                     | _ => [] end) l.
Definition is_target (tg : list nat) (i : nat) : bool := existsb (Nat.eqb i) tg.

Definition peep_at (tg : list nat) (codes : list instr) (i : nat) : list instr :=
  match nth_error codes i with
  | Some (Ipush _) | Some Idup | Some (Iload _) =>
      if is_target tg (S i) then codes
      else match nth_error codes (S i) with
           | Some Ipop => set_nth (set_nth codes (S i) Inop) i Inop
           | Some (Iconst k) => set_nth (set_nth codes (S i) (Ipush k)) i Inop
           | _ => codes
           end
  | Some (Ijump j) =>
      if Nat.eqb j (S i) then set_nth codes i Inop
      else match nth_error codes j with
           | Some (Ijump j') => set_nth codes i (Ijump j')
           | _ => codes end
  | Some (Ijumpifnot j) =>
      if Nat.eqb j (S i) then set_nth codes i Inop
      else match nth_error codes j with
           | Some (Ijump j') => set_nth codes i (Ijumpifnot j')
           | _ => codes end
  | _ => codes
  end.

(* for i := len-1; i >= 0; i-- *)
Fixpoint peep_loop (tg : list nat) (codes : list instr) (n : nat) : list instr :=
  match n with
  | O => codes
  | S i => peep_loop tg (peep_at tg codes i) i
  end.

Definition peephole_arr (codes : list instr) : list instr :=
  peep_loop (jump_targets codes) codes (length codes).

(* the same pass as a right fold over the instruction list (the Go loop runs i from len-1 down to 0: when
   instruction i is processed, the instructions after it are final, those before it untouched).  This is the
   version the theorems are about; Run.v checks on every sampled program that both versions coincide. *)
Fixpoint peepR (tg : list nat) (call : list instr) (i : nat) (l : list instr) : list instr :=
  match l with
  | [] => []
  | x :: r =>
      let r' := peepR tg call (S i) r in
      let look j := if S i <=? j then nth_error r' (j - S i)
                    else if j =? i then Some x else nth_error call j in
      match x with
      | Ipush _ | Idup | Iload _ =>
          if is_target tg (S i) then x :: r'
          else match r' with
               | Ipop :: r'' => Inop :: Inop :: r''
               | Iconst k :: r'' => Inop :: Ipush k :: r''
               | _ => x :: r'
               end
      | Ijump j =>
          if j =? S i then Inop :: r'
          else match look j with Some (Ijump j') => Ijump j' :: r' | _ => x :: r' end
      | Ijumpifnot j =>
          if j =? S i then Inop :: r'
          else match look j with Some (Ijump j') => Ijumpifnot j' :: r' | _ => x :: r' end
      | _ => x :: r'
      end
  end.

Definition peephole (c : list instr) : list instr := peepR (jump_targets c) c 0 c.

Definition compile (q : query) : option (list instr) := option_map peephole (compile_raw q).
