(* C01vm — proof infrastructure: "state s generates the outputs ws towards (pc', stack, base forks)".
   G c ws T s: from s the machine reaches the exit pc of context c once per element of ws, in order,
   each time with new forks pushed on top of the base forks; backtracking into those forks (after the
   continuation ran and possibly changed variables it owns) resumes the enumeration; an error coming
   from downstream passes through them unchanged; after the last output the tail T describes the
   state.  Stores: a generator writes only the variables it owns, the continuation must preserve those
   and the variables visible to the generator (kept). *)
From Coq Require Import List NArith ZArith Bool Arith Lia.
From Verif Require Import c01vm.Syntax c01vm.Code c01vm.VM c01vm.Den c01vm.Compile c01vm.Mach.
Import ListNotations.

Definition chg (P : nat -> Prop) (s s' : list sv) : Prop :=
  length s = length s' /\ forall i, ~ P i -> nth_error s i = nth_error s' i.
Lemma chg_refl : forall P s, chg P s s.
Proof. split; auto. Qed.
Lemma chg_trans : forall P a b c, chg P a b -> chg P b c -> chg P a c.
Proof. intros P a b c [L1 H1] [L2 H2]. split; [congruence|]. intros i Hi. rewrite H1, H2; auto. Qed.
Lemma chg_mono : forall (P P' : nat -> Prop) a b, (forall i, P i -> P' i) -> chg P a b -> chg P' a b.
Proof. intros P P' a b HP [L H]. split; auto. Qed.
Lemma chg_update : forall (P : nat -> Prop) s k v s', update s k v = Some s' -> P k -> chg P s s'.
Proof.
  intros P s k v s' U Hk. destruct (update_spec _ _ _ _ U) as (L & _ & O).
  split; [auto|]. intros i Hi. symmetry. apply O. intro; subst; auto.
Qed.

Record gctx := { g_pc : nat; g_st : list sv; g_base : list fork; g_own : nat -> Prop; g_keep : nat -> Prop;
                 g_ce : cenv; g_n0 : nat }.

Definition kept (ce : cenv) (k : nat) : Prop :=
  (exists x, lookup x (ce_vars ce) = Some k) \/ (exists l, lookup l (ce_lbls ce) = Some k).
Definition keepS (c : gctx) (s s' : list sv) : Prop :=
  length s = length s' /\ forall i, g_keep c i -> nth_error s i = nth_error s' i.
Definition okerr (n0 : nat) (x : verr) : Prop := match x with VE (EB n) => n < n0 | _ => True end.

Lemma keepS_refl : forall c s, keepS c s s.
Proof. split; auto. Qed.
Lemma keepS_trans : forall c a b d, keepS c a b -> keepS c b d -> keepS c a d.
Proof. intros c a b d [L1 H1] [L2 H2]. split; [congruence|]. intros. rewrite H1, H2; auto. Qed.

Definition encR (ce : cenv) (vs : list sv) (fin : option exn) (e : option verr) : Prop :=
  match fin with
  | None => e = None
  | Some (XErr e0) => e = Some (VE (err_of e0))
  | Some (XBrk l) => exists k id, lookup l (ce_lbls ce) = Some k /\ nth_error vs k = Some (SLbl id) /\ e = Some (VE (EB id))
  end.

Definition lblOK (ce : cenv) (vs : list sv) (n0 : nat) : Prop :=
  forall l k, lookup l (ce_lbls ce) = Some k -> exists id, nth_error vs k = Some (SLbl id) /\ id < n0.

Lemma encR_okerr : forall ce vs n0 fin x, lblOK ce vs n0 -> encR ce vs fin (Some x) -> okerr n0 x.
Proof.
  intros ce vs n0 fin x HL HE. destruct fin as [[e0|l]|]; simpl in HE.
  - inversion HE; subst. destruct e0; simpl; auto.
  - destruct HE as (k & id & Hk & Hn & E). inversion E; subst. simpl.
    destruct (HL _ _ Hk) as (id' & Hn' & Hlt). congruence.
  - discriminate.
Qed.

Lemma encR_stable : forall ce vs vs' fin e,
  (forall k, kept ce k -> nth_error vs k = nth_error vs' k) -> encR ce vs fin e -> encR ce vs' fin e.
Proof.
  intros ce vs vs' fin e H HE. destruct fin as [[e0|l]|]; simpl in *; auto.
  destruct HE as (k & id & Hk & Hn & E). exists k, id. repeat split; auto.
  rewrite <- H; auto. right. eauto.
Qed.

Section Gen.
Variable nt : natives.
Variable code : list instr.
Variable rpc : nat.

Notation steps := (steps nt code).
Notation N := (N rpc).

Fixpoint G (c : gctx) (ws : list jv) (T : state -> Prop) (s : state) : Prop :=
  match ws with
  | [] => exists s', steps s s' /\ chg (g_own c) (vars_of s) (vars_of s') /\ lbl_of s <= lbl_of s' /\ T s'
  | w :: ws' => exists fk' vs3 n3,
       steps s (N (g_pc c) (SV w :: g_st c) (fk' ++ g_base c) vs3 n3) /\
       chg (g_own c) (vars_of s) vs3 /\ lbl_of s <= n3 /\
       forall vs2 n2, keepS c vs3 vs2 -> n3 <= n2 ->
         G c ws' T (B None (fk' ++ g_base c) vs2 n2) /\
         (forall x, okerr (g_n0 c) x -> exists vs4 n4,
             steps (B (Some x) (fk' ++ g_base c) vs2 n2) (B (Some x) (g_base c) vs4 n4) /\
             chg (g_own c) vs2 vs4 /\ n2 <= n4)
  end.

(* the end of an enumeration: the machine backtracks into the base forks with the error state of fin *)
Definition Tend (c : gctx) (fin : option exn) (P : list sv -> nat -> Prop) (s : state) : Prop :=
  exists e vs n, steps s (B e (g_base c) vs n) /\ chg (g_own c) (vars_of s) vs /\ lbl_of s <= n /\
                 encR (g_ce c) vs fin e /\ P vs n.

Lemma G_pre : forall c ws T s s1,
  steps s s1 -> chg (g_own c) (vars_of s) (vars_of s1) -> lbl_of s <= lbl_of s1 -> G c ws T s1 -> G c ws T s.
Proof.
  intros c ws T s s1 St Ch Le HG. destruct ws; simpl in *.
  - destruct HG as (s' & St' & Ch' & Le' & HT). exists s'.
    split; [eapply steps_trans; eauto|]. split; [eapply chg_trans; eauto|]. split; [lia|auto].
  - destruct HG as (fk' & vs3 & n3 & St' & Ch' & Le' & R). exists fk', vs3, n3.
    split; [eapply steps_trans; eauto|]. split; [eapply chg_trans; eauto|]. split; [lia|auto].
Qed.

Lemma G_impl : forall c (T T' : state -> Prop) ws s, (forall s, T s -> T' s) -> G c ws T s -> G c ws T' s.
Proof.
  intros c T T' ws. induction ws; simpl; intros s HT HG.
  - destruct HG as (s' & ? & ? & ? & ?). exists s'. auto.
  - destruct HG as (fk' & vs3 & n3 & St & Ch & Le & R). exists fk', vs3, n3.
    split; [auto|]. split; [auto|]. split; [auto|]. intros vs2 n2 K L2.
    destruct (R vs2 n2 K L2) as [R1 R2]. split; auto.
Qed.

Lemma G_app : forall c ws1 ws2 T s, G c ws1 (G c ws2 T) s -> G c (ws1 ++ ws2) T s.
Proof.
  intros c ws1. induction ws1; simpl; intros ws2 T s HG.
  - destruct HG as (s' & St & Ch & Le & H). eapply G_pre; eauto.
  - destruct HG as (fk' & vs3 & n3 & St & Ch & Le & R). exists fk', vs3, n3.
    split; [auto|]. split; [auto|]. split; [auto|]. intros vs2 n2 K L2.
    destruct (R vs2 n2 K L2) as [R1 R2]. split; auto.
Qed.

(* change of context: the forks fx that lie between the two bases are transparent to errors *)
Lemma G_ctx : forall cb c fx (Q : list sv -> nat -> Prop) (T T' : state -> Prop),
  g_pc cb = g_pc c -> g_st cb = g_st c -> g_base cb = fx ++ g_base c ->
  (forall i, g_own cb i -> g_own c i) ->
  (forall a b, keepS c a b -> keepS cb a b) ->
  g_n0 c <= g_n0 cb ->
  (forall a b n n', Q a n -> chg (g_own cb) a b -> n <= n' -> Q b n') ->
  (forall a b n n', Q a n -> keepS c a b -> n <= n' -> Q b n') ->
  (forall x vs n, Q vs n -> okerr (g_n0 c) x -> exists vs4 n4,
      steps (B (Some x) (fx ++ g_base c) vs n) (B (Some x) (g_base c) vs4 n4) /\ chg (g_own c) vs vs4 /\ n <= n4) ->
  (forall s, Q (vars_of s) (lbl_of s) -> T s -> T' s) ->
  forall ws s, Q (vars_of s) (lbl_of s) -> G cb ws T s -> G c ws T' s.
Proof.
  intros cb c fx Q T T' Hpc Hst Hbase Hown Hkeep Hn0 Q1 Q2 Htr Hmap.
  induction ws; simpl; intros s HQ HG.
  - destruct HG as (s' & St & Ch & Le & HT). exists s'.
    split; [auto|]. split; [eapply chg_mono; eauto|]. split; [auto|].
    apply Hmap; auto. eapply Q1; eauto.
  - destruct HG as (fk' & vs3 & n3 & St & Ch & Le & R).
    exists (fk' ++ fx), vs3, n3. rewrite <- app_assoc, <- Hbase, <- Hpc, <- Hst.
    split; [auto|]. split; [eapply chg_mono; eauto|]. split; [auto|]. intros vs2 n2 K L2.
    assert (HQ2 : Q vs2 n2). { eapply Q2; [eapply Q1; [exact HQ|exact Ch|exact Le]|eauto|auto]. }
    destruct (R vs2 n2 (Hkeep _ _ K) L2) as [R1 R2]. split.
    + apply (IHws (B None (fk' ++ g_base cb) vs2 n2)); auto.
    + intros x Hx.
      assert (Hx' : okerr (g_n0 cb) x). { destruct x as [[]|]; simpl in *; auto. lia. }
      destruct (R2 x Hx') as (vs4 & n4 & St4 & Ch4 & Le4).
      assert (HQ4 : Q vs4 n4) by (eapply Q1; eauto).
      rewrite Hbase in St4.
      destruct (Htr x vs4 n4 HQ4 Hx) as (vs5 & n5 & St5 & Ch5 & Le5).
      exists vs5, n5. rewrite Hbase. split; [exact (steps_trans _ _ _ _ _ St4 St5)|]. split; [|lia].
      eapply chg_trans; [eapply chg_mono; eauto|auto].
Qed.


Lemma encR_some : forall ce vs ex e, encR ce vs (Some ex) e -> exists y, e = Some y.
Proof. intros ce vs [e0|l] e H; simpl in H; [eauto|]. destruct H as (? & ? & ? & ? & ?). eauto. Qed.
Lemma encR_lbls : forall ce ce' vs fin e, ce_lbls ce = ce_lbls ce' -> encR ce vs fin e -> encR ce' vs fin e.
Proof. intros ce ce' vs [[e0|l]|] e H HE; simpl in *; auto. rewrite <- H. auto. Qed.

(* the generic composition: an inner generator (context c1) whose every output starts a body that is
   itself a generator towards the outer exit (context c), with a ghost state g evolving along the way
   and an invariant J g on the store *)
Section Fold.
Variables (c1 c : gctx) (X : Type) (J : X -> list sv -> nat -> Prop)
          (fb : X -> jv -> list jv * option exn * X)
          (ownb : nat -> Prop) (ceb : cenv).
Definition cbody (fk' : list fork) : gctx :=
  {| g_pc := g_pc c; g_st := g_st c; g_base := fk' ++ g_base c; g_own := ownb; g_keep := g_keep c;
     g_ce := ceb; g_n0 := g_n0 c |}.

Fixpoint foldgen (ws : list jv) (g : X) : list jv * option exn * X :=
  match ws with
  | [] => ([], None, g)
  | w :: r => let '(os, x, g') := fb g w in
      match x with
      | Some e => (os, Some e, g')
      | None => let '(os', x', g'') := foldgen r g' in (os ++ os', x', g'')
      end
  end.

Hypothesis Hbase : g_base c1 = g_base c.
Hypothesis Hce : g_ce c1 = g_ce c.
Hypothesis Hn0 : g_n0 c1 = g_n0 c.
Hypothesis Hown1 : forall i, g_own c1 i -> g_own c i.
Hypothesis Hownb : forall i, ownb i -> g_own c i.
Hypothesis Hk1 : forall i, g_keep c1 i -> g_keep c i /\ ~ ownb i.
Hypothesis Hkept : forall i, kept (g_ce c) i -> ~ g_own c i.
Hypothesis Hlbls : ce_lbls ceb = ce_lbls (g_ce c).
Hypothesis J1 : forall g a b n n', J g a n -> chg (g_own c1) a b -> n <= n' -> J g b n'.
Hypothesis J2 : forall g a b n n', J g a n -> keepS c a b -> n <= n' -> J g b n'.
Hypothesis Jlbl : forall g a n, J g a n -> lblOK (g_ce c) a (g_n0 c).
Hypothesis Hbody : forall w g fk' vs n os x g', J g vs n -> fb g w = (os, x, g') ->
   G (cbody fk') os (Tend (cbody fk') x (J g')) (N (g_pc c1) (SV w :: g_st c1) (fk' ++ g_base c) vs n).

Lemma G_fold : forall ws1 g s fin1 os x g',
  G c1 ws1 (Tend c1 fin1 (fun _ _ => True)) s -> J g (vars_of s) (lbl_of s) ->
  foldgen ws1 g = (os, x, g') ->
  G c os (Tend c (match x with Some e => Some e | None => fin1 end) (J g')) s.
Proof.
  induction ws1; intros g s fin1 os x g' HG HJ HF; simpl in HF.
  - inversion HF; subst. simpl in HG. destruct HG as (s' & St & Ch & Le & (e & vs & n & St2 & Ch2 & Le2 & HE & _)).
    simpl. exists s. split; [constructor|]. split; [apply chg_refl|]. split; [lia|].
    exists e, vs, n. rewrite <- Hbase, <- Hce.
    assert (C : chg (g_own c1) (vars_of s) vs) by (eapply chg_trans; eauto).
    split; [eapply steps_trans; eauto|]. split; [exact (chg_mono _ _ _ _ Hown1 C)|]. split; [lia|]. split; [auto|].
    eapply J1; eauto. lia.
  - simpl in HG. destruct HG as (fk' & vs3 & n3 & St & Ch & Le & R).
    assert (HJ3 : J g vs3 n3) by (eapply J1; eauto).
    rewrite Hbase in St.
    destruct (fb g a) as [[os1 x1] g1] eqn:Efb.
    pose proof (Hbody a g fk' vs3 n3 os1 x1 g1 HJ3 Efb) as Hb.
    set (Q := fun (a : list sv) (n : nat) => keepS c1 vs3 a /\ n3 <= n).
    assert (Q1 : forall a b n n', Q a n -> chg ownb a b -> n <= n' -> Q b n').
    { intros p q n n' [[L K] Hn] [L' C] Hn'. split; [|lia]. split; [congruence|].
      intros i Hi. rewrite K by auto. apply C. apply Hk1; auto. }
    assert (Q2 : forall a b n n', Q a n -> keepS c a b -> n <= n' -> Q b n').
    { intros p q n n' [[L K] Hn] [L' C] Hn'. split; [|lia]. split; [congruence|].
      intros i Hi. rewrite K by auto. apply C. apply Hk1; auto. }
    assert (Qtr : forall y vs n, Q vs n -> okerr (g_n0 c) y -> exists vs4 n4,
               steps (B (Some y) (fk' ++ g_base c) vs n) (B (Some y) (g_base c) vs4 n4) /\
               chg (g_own c) vs vs4 /\ n <= n4).
    { intros y vs n [K Hn] Hy. destruct (R vs n K Hn) as [_ R2]. rewrite Hn0 in R2.
      destruct (R2 y Hy) as (vs4 & n4 & St4 & Ch4 & Le4). rewrite Hbase in St4.
      exists vs4, n4. split; [auto|]. split; [exact (chg_mono _ _ _ _ Hown1 Ch4)|auto]. }
    assert (Hks : forall p q, keepS c p q -> keepS (cbody fk') p q).
    { intros p q H. exact H. }
    assert (HQ0 : Q vs3 n3) by (split; [apply keepS_refl|lia]).
    destruct x1 as [ex|].
    + inversion HF; subst.
      eapply G_pre; [exact St|exact (chg_mono _ _ _ _ Hown1 Ch)|exact Le|].
      match type of Hb with G _ ?o _ ?st0 => refine (G_ctx (cbody fk') c fk' Q _ _ eq_refl eq_refl eq_refl Hownb Hks (le_n _) Q1 Q2 Qtr _ o st0 HQ0 Hb) end.
      intros s1 HQ1 (e & vs4 & n4 & St4 & Ch4 & Le4 & HE & HJ4). simpl in St4, Ch4.
      destruct (encR_some _ _ _ _ HE) as (y & ->).
      apply encR_lbls with (ce' := g_ce c) in HE; auto.
      assert (Hy : okerr (g_n0 c) y) by (eapply encR_okerr; eauto).
      assert (HQ4 : Q vs4 n4) by (eapply Q1; eauto).
      destruct HQ4 as [K4 Hn4]. destruct (R vs4 n4 K4 Hn4) as [_ R2]. rewrite Hn0 in R2.
      destruct (R2 y Hy) as (vs5 & n5 & St5 & Ch5 & Le5). rewrite Hbase in St5.
      exists (Some y), vs5, n5.
      split; [eapply steps_trans; eauto|].
      split; [exact (chg_trans _ _ _ _ (chg_mono _ _ _ _ Hownb Ch4) (chg_mono _ _ _ _ Hown1 Ch5))|]. split; [lia|].
      split; [|eapply J1; eauto].
      eapply encR_stable; [|exact HE]. intros k Hk. apply Ch5. intro Ho. apply (Hkept k Hk). auto.
    + destruct (foldgen ws1 g1) as [[os2 x2] g2] eqn:Efg. inversion HF; subst.
      eapply G_pre; [exact St|exact (chg_mono _ _ _ _ Hown1 Ch)|exact Le|].
      apply G_app.
      match type of Hb with G _ ?o _ ?st0 => refine (G_ctx (cbody fk') c fk' Q _ _ eq_refl eq_refl eq_refl Hownb Hks (le_n _) Q1 Q2 Qtr _ o st0 HQ0 Hb) end.
      intros s1 HQ1 (e & vs4 & n4 & St4 & Ch4 & Le4 & HE & HJ4). simpl in St4, Ch4, HE. subst e.
      assert (HQ4 : Q vs4 n4) by (eapply Q1; eauto).
      destruct HQ4 as [K4 Hn4]. destruct (R vs4 n4 K4 Hn4) as [R1 _]. rewrite Hbase in R1.
      eapply G_pre; [exact St4|exact (chg_mono _ _ _ _ Hownb Ch4)|exact Le4|].
      eapply IHws1; eauto.
Qed.
End Fold.

End Gen.
