(* C01vm — the backtracking stack VM of /repo/execute.go (env.Next, pushfork, popfork, index)
   for the opcodes of fragment F.  Definitions only.

   Data stack, scope stack and fork stack are persistent lists (stack.go's array stacks refine
   lists: the other builder's theorem).  Go panics (pop of the empty stack, failed type assertion,
   index out of range, env.index) are the explicit outcome [Stuck]; nothing is defaulted.

   Not modelled (unobservable in F, where the paths stack is always empty): env.expdepth
   (opexpbegin/opexpend only count), env.paths, env.offset (one frame: 0 before opscope),
   ctx polling. *)
From Coq Require Import List NArith ZArith Bool Arith.
From Verif Require Import c01vm.Syntax c01vm.Code.
Import ListNotations.

(* what can sit on the data stack / in env.values *)
Inductive sv :=
| SV (v : jv)              (* a JSON value *)
| SIt (xs : list jv)       (* []pathValue: the rest of an opiter enumeration *)
| SLbl (n : nat).          (* env.label, pushed/stored by opforklabel *)

Inductive err := EV (v : jv) | EM (m : list N) | EB (n : nat).   (* EB: *breakError{v: label} *)
Inductive verr := VE (e : err) | VT (x : verr).                  (* VT: *tryEndError{err} *)

Definition err_of (e : err0) : err := match e with EVal v => EV v | EMsg m => EM m end.

Definition frame := (nat * nat)%type.                 (* scope{id, pc}; offset 0 *)
Record fork := { f_pc : nat; f_stk : list sv; f_scopes : list frame }.

Record mem := { stk : list sv; scopes : list frame; forks : list fork; vars : list sv; lbl : nat }.

Inductive state :=
| Run (pc : nat) (bt : bool) (e : option verr) (m : mem)     (* top of the loop body, about to execute codes[pc] *)
| Brk (e : option verr) (fk : list fork) (vs : list sv) (l : nat).
    (* after `break loop`: stack and scopes are dead (popfork overwrites them; with no fork Next returns) *)

Inductive outcome :=
| Next (s : state)
| Emit (v : jv) (s : state)          (* Next() returned (v, true) from opret *)
| Halt (e : option verr)             (* Next() returned (err, true) or (nil, false) *)
| Stuck.                             (* a Go panic *)

Definition set_stk (m : mem) (s : list sv) : mem :=
  {| stk := s; scopes := scopes m; forks := forks m; vars := vars m; lbl := lbl m |}.
Definition set_vars (m : mem) (s : list sv) (v : list sv) : mem :=
  {| stk := s; scopes := scopes m; forks := forks m; vars := v; lbl := lbl m |}.
Definition pushfork (pc : nat) (m : mem) : mem :=
  {| stk := stk m; scopes := scopes m;
     forks := {| f_pc := pc; f_stk := stk m; f_scopes := scopes m |} :: forks m;
     vars := vars m; lbl := lbl m |}.

Definition brk (e : option verr) (m : mem) : outcome := Next (Brk e (forks m) (vars m) (lbl m)).

(* env.index: walk the scope chain (outerindex = the frame below, for the frames of F) *)
Fixpoint index_of (sc : list frame) (x : var) : option nat :=
  match sc with
  | [] => None                                    (* panic("env.index") *)
  | (id, _) :: r => if Nat.eqb id (fst x) then Some (snd x) else index_of r x
  end.

Fixpoint update {A} (l : list A) (i : nat) (a : A) : option (list A) :=
  match l, i with
  | [], _ => None
  | _ :: r, O => Some (a :: r)
  | b :: r, S j => match update r j a with Some r' => Some (b :: r') | None => None end
  end.

Section VM.
Variable nt : natives.
Variable code : list instr.

Definition step (s : state) : outcome :=
  match s with
  | Brk e fk vs l =>
      match fk with
      | [] => Halt e
      | f :: r => Next (Run (f_pc f) true e
                    {| stk := f_stk f; scopes := f_scopes f; forks := r; vars := vs; lbl := l |})
      end
  | Run pc bt e m =>
      let goto pc' := Next (Run pc' bt e m) in
      let cont m' := Next (Run (S pc) bt e m') in
      match nth_error code pc with
      | None => brk e m                               (* pc >= len(codes): the for loop ends *)
      | Some i =>
        match i with
        | Inop | Iexpbegin | Iexpend => cont m
        | Ipush c => cont (set_stk m (SV c :: stk m))
        | Ipop => match stk m with _ :: r => cont (set_stk m r) | [] => Stuck end
        | Idup => match stk m with v :: r => cont (set_stk m (v :: v :: r)) | [] => Stuck end
        | Iconst c => match stk m with _ :: r => cont (set_stk m (SV c :: r)) | [] => Stuck end
        | Iload x =>
            match index_of (scopes m) x with
            | Some k => match nth_error (vars m) k with
                        | Some v => cont (set_stk m (v :: stk m))
                        | None => Stuck end
            | None => Stuck
            end
        | Istore x =>
            match index_of (scopes m) x, stk m with
            | Some k, v :: r => match update (vars m) k v with
                                | Some vs => cont (set_vars m r vs)
                                | None => Stuck end
            | _, _ => Stuck
            end
        | Iappend x =>
            match index_of (scopes m) x, stk m with
            | Some k, SV v :: r =>
                match nth_error (vars m) k with
                | Some (SV (VArr l)) =>
                    match update (vars m) k (SV (VArr (l ++ [v]))) with
                    | Some vs => cont (set_vars m r vs)
                    | None => Stuck end
                | _ => Stuck
                end
            | _, _ => Stuck
            end
        | Ifork t =>
            if bt then match e with
                       | Some _ => brk e m
                       | None => Next (Run t false None m)
                       end
            else cont (pushfork pc m)
        | Iforktrybegin t =>
            if bt then
              match e with
              | None => brk e m
              | Some (VT x) => brk (Some x) m
              | Some (VE (EB _)) => brk e m
              | Some (VE (EV v)) =>
                  match stk m with _ :: r => Next (Run t false None (set_stk m (SV v :: r))) | [] => Stuck end
              | Some (VE (EM s)) =>
                  match stk m with _ :: r => Next (Run t false None (set_stk m (SV (VStr s) :: r))) | [] => Stuck end
              end
            else cont (pushfork pc m)
        | Iforktryend =>
            if bt then brk (option_map VT e) m
            else cont (pushfork pc m)
        | Iforklabel x =>
            if bt then
              match stk m with
              | l :: _ =>
                  match e, l with
                  | Some (VE (EB n)), SLbl n' => if Nat.eqb n n' then brk None m else brk e m
                  | _, _ => brk e m
                  end
              | [] => Stuck
              end
            else
              match index_of (scopes m) x with
              | Some k =>
                  let m1 := pushfork pc (set_stk m (SLbl (lbl m) :: stk m)) in
                  match update (vars m) k (SLbl (lbl m)) with
                  | Some vs => cont {| stk := stk m; scopes := scopes m; forks := forks m1;
                                       vars := vs; lbl := S (lbl m) |}
                  | None => Stuck
                  end
              | None => Stuck
              end
        | Ibacktrack => brk e m
        | Ijump t => goto t
        | Ijumpifnot t =>
            match stk m with
            | v :: r =>
                match v with
                | SV VNull | SV (VBool false) => Next (Run t bt e (set_stk m r))
                | _ => cont (set_stk m r)
                end
            | [] => Stuck
            end
        | Iindex k =>
            if bt then brk e m else
            match stk m with
            | SV v :: r =>
                match n_index nt v k with
                | inl w => cont (set_stk m (SV w :: r))
                | inr x => brk (Some (VE (err_of x))) m
                end
            | _ => Stuck
            end
        | Icall f =>
            if bt then brk e m else
            match f with
            | NF0 g =>
                match stk m with
                | SV x :: r =>
                    match n_fn0 nt g x with
                    | inl w => cont (set_stk m (SV w :: r))
                    | inr x => brk (Some (VE (err_of x))) m
                    end
                | _ => Stuck
                end
            | NF2 o =>
                match stk m with
                | SV x :: SV a0 :: SV a1 :: r =>
                    match n_fn2 nt o x a0 a1 with
                    | inl w => cont (set_stk m (SV w :: r))
                    | inr x => brk (Some (VE (err_of x))) m
                    end
                | _ => Stuck
                end
            | NBreak =>
                match stk m with
                | SLbl n :: _ => brk (Some (VE (EB n))) m
                | _ => Stuck
                end
            end
        | Iscope id nv na =>
            (* only the entry frame of the main query is modelled: index = scopes.index = -1,
               callpc = len(codes)-1; env.values grows to 2*nv nil (= null) slots *)
            match scopes m, na with
            | [], O => cont {| stk := stk m; scopes := [(id, length code - 1)]; forks := forks m;
                               vars := vars m ++ repeat (SV VNull) (2 * nv - length (vars m)); lbl := lbl m |}
            | _, _ => Stuck
            end
        | Iret =>
            if bt then brk e m else
            match scopes m with
            | (_, rpc) :: sc =>
                match sc with
                | [] => match stk m with
                        | SV v :: r => Emit v (Run rpc true None
                                         {| stk := r; scopes := []; forks := forks m; vars := vars m; lbl := lbl m |})
                        | _ => Stuck
                        end
                | _ => Stuck        (* return into a caller frame: outside F *)
                end
            | [] => Stuck
            end
        | Iiter =>
            match e with
            | Some _ => brk e m
            | None =>
                match stk m with
                | top :: r =>
                    let go (xs : list jv) :=
                      match xs with
                      | [] => Stuck                     (* xs[0] of an empty []pathValue *)
                      | x :: rest =>
                          match rest with
                          | [] => Next (Run (S pc) false None (set_stk m (SV x :: r)))
                          | _ => Next (Run (S pc) false None
                                        (set_stk (pushfork pc (set_stk m (SIt rest :: r))) (SV x :: r)))
                          end
                      end in
                    match top with
                    | SIt xs => go xs
                    | SV v =>
                        match n_iter nt v with
                        | inl [] => brk None m
                        | inl xs => go xs
                        | inr x => brk (Some (VE (err_of x))) m
                        end
                    | SLbl _ => Stuck
                    end
                | [] => Stuck
                end
            end
        end
      end
  end.

(* observation of a whole run: outputs in order, then how it ended (the first error is terminal) *)
Inductive ending := End | Error (e : verr) | IsStuck | OutOfFuel.

Fixpoint run (fuel : nat) (s : state) : list jv * ending :=
  match fuel with
  | O => ([], OutOfFuel)
  | S f =>
      match step s with
      | Next s' => run f s'
      | Emit v s' => let '(o, e) := run f s' in (v :: o, e)
      | Halt None => ([], End)
      | Halt (Some e) => ([], Error e)
      | Stuck => ([], IsStuck)
      end
  end.

(* env.execute: push the input; pc = 0 *)
Definition init (v : jv) : state :=
  Run 0 false None {| stk := [SV v]; scopes := []; forks := []; vars := []; lbl := 0 |}.

End VM.
