(* C01vm — proof infrastructure: code layout, environments, the statement proved per construct. *)
From Coq Require Import List NArith ZArith Bool Arith Lia.
From Verif Require Import c01vm.Syntax c01vm.Code c01vm.VM c01vm.Den c01vm.Compile c01vm.Mach c01vm.Gen.
Import ListNotations.

Definition envOK (ce : cenv) (rho : venv) (vs : list sv) (n0 nv : nat) : Prop :=
  (forall x k, lookup x (ce_vars ce) = Some k ->
     k < nv /\ exists w, lookup x rho = Some w /\ nth_error vs k = Some (SV w)) /\
  (forall l k, lookup l (ce_lbls ce) = Some k ->
     k < nv /\ exists id, nth_error vs k = Some (SLbl id) /\ id < n0).

Lemma kept_lt : forall ce rho vs n0 nv k, envOK ce rho vs n0 nv -> kept ce k -> k < nv.
Proof. intros ce rho vs n0 nv k [Hv Hl] [[x Hx]|[l Hx]]; [apply (Hv _ _ Hx)|apply (Hl _ _ Hx)]. Qed.

Lemma envOK_same : forall ce rho vs vs' n0 nv,
  envOK ce rho vs n0 nv -> (forall k, kept ce k -> nth_error vs k = nth_error vs' k) -> envOK ce rho vs' n0 nv.
Proof.
  intros ce rho vs vs' n0 nv [Hv Hl] H. split.
  - intros x k Hx. destruct (Hv _ _ Hx) as (Hk & w & Hw & Hn). split; auto. exists w. split; auto.
    rewrite <- H; auto. left; eauto.
  - intros l k Hx. destruct (Hl _ _ Hx) as (Hk & id & Hn & Hid). split; auto. exists id. split; auto.
    rewrite <- H; auto. right; eauto.
Qed.

Lemma envOK_chg : forall ce rho vs vs' n0 nv (P : nat -> Prop),
  envOK ce rho vs n0 nv -> chg P vs vs' -> (forall i, P i -> nv <= i) -> envOK ce rho vs' n0 nv.
Proof.
  intros ce rho vs vs' n0 nv P H [_ C] HP. eapply envOK_same; eauto.
  intros k Hk. apply C. intro Hp. apply HP in Hp. pose proof (kept_lt _ _ _ _ _ _ H Hk). lia.
Qed.

Lemma envOK_keep : forall c ce rho vs vs' n0 nv,
  envOK ce rho vs n0 nv -> keepS c vs vs' -> (forall i, kept ce i -> g_keep c i) -> envOK ce rho vs' n0 nv.
Proof. intros c ce rho vs vs' n0 nv H [_ K] HK. eapply envOK_same; eauto. Qed.

Lemma envOK_nv : forall ce rho vs n0 nv nv', envOK ce rho vs n0 nv -> nv <= nv' -> envOK ce rho vs n0 nv'.
Proof.
  intros ce rho vs n0 nv nv' [Hv Hl] H. split; intros a k Hx.
  - destruct (Hv _ _ Hx). split; auto. lia.
  - destruct (Hl _ _ Hx). split; auto. lia.
Qed.

Lemma envOK_n0 : forall ce rho vs n0 n0' nv, envOK ce rho vs n0 nv -> n0 <= n0' -> envOK ce rho vs n0' nv.
Proof.
  intros ce rho vs n0 n0' nv [Hv Hl] H. split; auto. intros a k Hx.
  destruct (Hl _ _ Hx) as (? & id & ? & ?). split; auto. exists id. split; auto. lia.
Qed.

Lemma envOK_lblOK : forall ce rho vs n0 nv, envOK ce rho vs n0 nv -> lblOK ce vs n0.
Proof. intros ce rho vs n0 nv [_ Hl] l k Hx. destruct (Hl _ _ Hx) as (_ & id & ? & ?). eauto. Qed.

Lemma envOK_add_var : forall ce rho vs n0 nv x k w,
  envOK ce rho vs n0 nv -> k < nv -> nth_error vs k = Some (SV w) ->
  envOK (add_var ce x k) ((x, w) :: rho) vs n0 nv.
Proof.
  intros ce rho vs n0 nv x k w [Hv Hl] Hk Hn. split; simpl; auto.
  intros y j. destruct (N.eqb y x); [|apply Hv]. intros E. inversion E; subst. split; eauto.
Qed.

Lemma envOK_add_lbl : forall ce rho vs n0 nv l k id,
  envOK ce rho vs n0 nv -> k < nv -> nth_error vs k = Some (SLbl id) -> id < n0 ->
  envOK (add_lbl ce l k) rho vs n0 nv.
Proof.
  intros ce rho vs n0 nv l k id [Hv Hl] Hk Hn Hid. split; simpl; auto.
  intros y j. destruct (N.eqb y l); [|apply Hl]. intros E. inversion E; subst. split; eauto.
Qed.

Lemma kept_add_var : forall ce x k i, kept (add_var ce x k) i -> i = k \/ kept ce i.
Proof.
  intros ce x k i [[y Hy]|[l Hl]]; simpl in *.
  - destruct (N.eqb y x); [inversion Hy; auto|right; left; eauto].
  - right; right; eauto.
Qed.
Lemma kept_add_lbl : forall ce x k i, kept (add_lbl ce x k) i -> i = k \/ kept ce i.
Proof.
  intros ce x k i [[y Hy]|[l Hl]]; simpl in *.
  - right; left; eauto.
  - destruct (N.eqb l x); [inversion Hl; auto|right; right; eauto].
Qed.

Section L.
Variable nt : natives.
Variable code : list instr.
Variable rpc : nat.

Notation steps := (steps nt code).
Notation N := (N rpc).
Notation G := (G nt code rpc).
Notation Tend := (Tend nt code).
Notation at_ := (at_ code).

Definition code_at (pc : nat) (cq : list instr) : Prop :=
  forall i x, nth_error cq i = Some x -> nth_error code (pc + i) = Some x.

Lemma code_at_app : forall pc a b, code_at pc (a ++ b) -> code_at pc a /\ code_at (pc + length a) b.
Proof.
  intros pc a b H. split; intros i x Hi.
  - apply H. rewrite nth_error_app1; auto. apply nth_error_Some. congruence.
  - replace (pc + length a + i) with (pc + (length a + i)) by lia. apply H.
    rewrite nth_error_app2 by lia. replace (length a + i - length a) with i by lia. auto.
Qed.
Lemma code_at_cons : forall pc i r, code_at pc (i :: r) -> at_ pc i /\ code_at (S pc) r.
Proof.
  intros pc i r H. split.
  - unfold Mach.at_. replace pc with (pc + 0) by lia. apply H. reflexivity.
  - intros j x Hj. replace (S pc + j) with (pc + S j) by lia. apply H. auto.
Qed.

Definition ctx_of (pc' : nat) (st : list sv) (fk : list fork) (lo hi : nat) (K : nat -> Prop) (ce : cenv) (n0 : nat) : gctx :=
  {| g_pc := pc'; g_st := st; g_base := fk; g_own := fun i => lo <= i < hi; g_keep := K; g_ce := ce; g_n0 := n0 |}.

(* P is stable under the generator's own writes and under a continuation that preserves the kept slots *)
Definition stable (c : gctx) (P : list sv -> nat -> Prop) : Prop :=
  (forall a b m m', P a m -> chg (g_own c) a b -> m <= m' -> P b m') /\
  (forall a b m m', P a m -> keepS c a b -> m <= m' -> P b m').

Definition Impl (q : query) : Prop :=
  forall ce pc nv cq nv', comp q ce pc nv = Some (cq, nv') -> code_at pc cq ->
  forall rho v st fk vs n n0 (K : nat -> Prop) (P : list sv -> nat -> Prop),
    envOK ce rho vs n0 nv -> n0 <= n -> nv' <= length vs ->
    (forall i, nv <= i < nv' -> K i) -> (forall i, kept ce i -> K i) ->
    let c := ctx_of (pc + length cq) st fk nv nv' K ce n0 in
    stable c P -> P vs n ->
    G c (fst (den nt q rho v)) (Tend c (snd (den nt q rho v)) P) (N pc (SV v :: st) fk vs n).

(* one output, no new fork *)
Lemma G_single : forall c w s vs3 n3 (P : list sv -> nat -> Prop),
  steps s (N (g_pc c) (SV w :: g_st c) (g_base c) vs3 n3) -> chg (g_own c) (vars_of s) vs3 -> lbl_of s <= n3 ->
  (forall vs2 n2, keepS c vs3 vs2 -> n3 <= n2 -> P vs2 n2) ->
  G c [w] (Tend c None P) s.
Proof.
  intros c w s vs3 n3 P St Ch Le HP. simpl. exists [], vs3, n3. simpl.
  split; [auto|]. split; [auto|]. split; [auto|]. intros vs2 n2 K L. split.
  - exists (B None (g_base c) vs2 n2). split; [constructor|]. split; [apply chg_refl|]. split; [simpl; lia|].
    exists None, vs2, n2. split; [constructor|]. split; [apply chg_refl|]. split; [simpl; lia|]. split; [reflexivity|auto].
  - intros x _. exists vs2, n2. split; [constructor|]. split; [apply chg_refl|simpl; lia].
Qed.

(* no output: the enumeration ends *)
Lemma G_end : forall c s e vs3 n3 fin (P : list sv -> nat -> Prop),
  steps s (B e (g_base c) vs3 n3) -> chg (g_own c) (vars_of s) vs3 -> lbl_of s <= n3 ->
  encR (g_ce c) vs3 fin e -> P vs3 n3 ->
  G c [] (Tend c fin P) s.
Proof.
  intros c s e vs3 n3 fin P St Ch Le HE HP. simpl. exists s.
  split; [constructor|]. split; [apply chg_refl|]. split; [simpl; lia|].
  exists e, vs3, n3. auto.
Qed.


(* change of the exit pc by silent steps that keep the state *)
Lemma G_exit : forall pc1 pc2 st fk (O K : nat -> Prop) ce n0 (T : state -> Prop),
  (forall w f vs n, steps (N pc1 (SV w :: st) f vs n) (N pc2 (SV w :: st) f vs n)) ->
  forall ws s,
  G {| g_pc := pc1; g_st := st; g_base := fk; g_own := O; g_keep := K; g_ce := ce; g_n0 := n0 |} ws T s ->
  G {| g_pc := pc2; g_st := st; g_base := fk; g_own := O; g_keep := K; g_ce := ce; g_n0 := n0 |} ws T s.
Proof.
  intros pc1 pc2 st fk O K ce n0 T Hs. induction ws; simpl; intros s HG; auto.
  destruct HG as (fk' & vs3 & n3 & St & Ch & Le & R). exists fk', vs3, n3.
  split; [eapply steps_trans; [exact St|apply Hs]|]. split; [auto|]. split; [auto|].
  intros vs2 n2 Kp L2. destruct (R vs2 n2 Kp L2) as [R1 R2]. split; auto.
Qed.

(* weakening: larger own set, same keep set, smaller n0 *)
Lemma G_sub : forall cb c (T T' : state -> Prop),
  g_pc cb = g_pc c -> g_st cb = g_st c -> g_base cb = g_base c ->
  (forall i, g_own cb i -> g_own c i) -> (forall a b, keepS c a b -> keepS cb a b) -> g_n0 c <= g_n0 cb ->
  (forall s, T s -> T' s) ->
  forall ws s, G cb ws T s -> G c ws T' s.
Proof.
  intros cb c T T' H1 H2 H3 H4 H5 H6 H7 ws s HG.
  refine (G_ctx nt code rpc cb c [] (fun _ _ => True) T T' H1 H2 H3 H4 H5 H6 _ _ _ _ ws s I HG); auto.
  intros x vs n _ _. exists vs, n. split; [constructor|]. split; [apply chg_refl|lia].
Qed.


Lemma G_cons : forall c w ws (T : state -> Prop) s fk' vs3 n3,
  steps s (N (g_pc c) (SV w :: g_st c) (fk' ++ g_base c) vs3 n3) ->
  chg (g_own c) (vars_of s) vs3 -> lbl_of s <= n3 ->
  (forall vs2 n2, keepS c vs3 vs2 -> n3 <= n2 ->
     G c ws T (B None (fk' ++ g_base c) vs2 n2) /\
     (forall x, okerr (g_n0 c) x -> exists vs4 n4,
         steps (B (Some x) (fk' ++ g_base c) vs2 n2) (B (Some x) (g_base c) vs4 n4) /\
         chg (g_own c) vs2 vs4 /\ n2 <= n4)) ->
  G c (w :: ws) T s.
Proof. intros. simpl. exists fk', vs3, n3. auto. Qed.

Lemma seq_nil_r : forall r, seq r ([], None) = r.
Proof. intros [ws [x|]]; simpl; auto. rewrite app_nil_r. auto. Qed.

End L.

(* ---- induction over queries (option query arguments included) ---- *)
Section QInd.
Variable P : query -> Prop.
Definition Popt (h : option query) : Prop := match h with Some h' => P h' | None => True end.
Hypothesis Hid : P QId.
Hypothesis Hconst : forall c, P (QConst c).
Hypothesis Hpipe : forall a b, P a -> P b -> P (QPipe a b).
Hypothesis Hcomma : forall a b, P a -> P b -> P (QComma a b).
Hypothesis Hempty : P QEmpty.
Hypothesis Hiter : forall t, P t -> P (QIter t).
Hypothesis Hindex : forall t k, P t -> P (QIndex t k).
Hypothesis Hif : forall c a b, P c -> P a -> P b -> P (QIf c a b).
Hypothesis Halt : forall a b, P a -> P b -> P (QAlt a b).
Hypothesis Htry : forall a h, P a -> Popt h -> P (QTry a h).
Hypothesis Harr : forall q, P q -> P (QArray q).
Hypothesis Hreduce : forall s x i u, P s -> P i -> P u -> P (QReduce s x i u).
Hypothesis Hforeach : forall s x i u e, P s -> P i -> P u -> Popt e -> P (QForeach s x i u e).
Hypothesis Hlabel : forall l b, P b -> P (QLabel l b).
Hypothesis Hbreak : forall l, P (QBreak l).
Hypothesis Hbind : forall s x b, P s -> P b -> P (QBind s x b).
Hypothesis Hvar : forall x, P (QVar x).
Hypothesis Hcall0 : forall f, P (QCall0 f).
Hypothesis Hbinop : forall o a b, P (QBinop o a b).

Fixpoint query_ind' (q : query) : P q :=
  match q with
  | QId => Hid
  | QConst c => Hconst c
  | QPipe a b => Hpipe a b (query_ind' a) (query_ind' b)
  | QComma a b => Hcomma a b (query_ind' a) (query_ind' b)
  | QEmpty => Hempty
  | QIter t => Hiter t (query_ind' t)
  | QIndex t k => Hindex t k (query_ind' t)
  | QIf c a b => Hif c a b (query_ind' c) (query_ind' a) (query_ind' b)
  | QAlt a b => Halt a b (query_ind' a) (query_ind' b)
  | QTry a h => Htry a h (query_ind' a)
      (match h as o return Popt o with Some h' => query_ind' h' | None => I end)
  | QArray q => Harr q (query_ind' q)
  | QReduce s x i u => Hreduce s x i u (query_ind' s) (query_ind' i) (query_ind' u)
  | QForeach s x i u e => Hforeach s x i u e (query_ind' s) (query_ind' i) (query_ind' u)
      (match e as o return Popt o with Some e' => query_ind' e' | None => I end)
  | QLabel l b => Hlabel l b (query_ind' b)
  | QBreak l => Hbreak l
  | QBind s x b => Hbind s x b (query_ind' s) (query_ind' b)
  | QVar x => Hvar x
  | QCall0 f => Hcall0 f
  | QBinop o a b => Hbinop o a b
  end.
End QInd.

Ltac dcomp :=
  repeat match goal with
  | H : match comp ?q ?ce ?pc ?nv with _ => _ end = Some _ |- _ =>
      let E := fresh "Ec" in destruct (comp q ce pc nv) as [[? ?]|] eqn:E; [|discriminate H]
  | H : match lookup ?x ?l with _ => _ end = Some _ |- _ =>
      let E := fresh "El" in destruct (lookup x l) eqn:E; [|discriminate H]
  end.

Lemma comp_mono : forall q ce pc nv cq nv', comp q ce pc nv = Some (cq, nv') -> nv <= nv'.
Proof.
  induction q using query_ind'; intros ce pc nv cq nv' Hc; simpl in Hc; dcomp;
    repeat match goal with
    | IH : forall ce pc nv cq nv', comp ?q ce pc nv = Some (cq, nv') -> nv <= nv',
      E : comp ?q _ _ _ = Some _ |- _ => apply IH in E
    end;
    try (inversion Hc; subst; lia).
  - (* if *) destruct (is_const1 l0), (is_const1 l1); inversion Hc; subst; lia.
  - (* try *) destruct h as [h|]; simpl in *; dcomp; inversion Hc; subst; clear Hc.
    + apply H in Ec0. lia. + lia.
  - (* array *) destruct (array_fold q); inversion Hc; subst; lia.
  - (* foreach *) destruct e as [e|]; simpl in *; dcomp; inversion Hc; subst; clear Hc.
    + apply H in Ec2. lia. + lia.
  - (* binop *) destruct (comp_sarg (V nv) b), (comp_sarg (V nv) a); inversion Hc; subst; lia.
Qed.

(* ---- den-level facts ---- *)
Lemma foldgen_bind : forall (f : jv -> result) ws,
  foldgen unit (fun _ w => (fst (f w), snd (f w), tt)) ws tt =
  (fst (bind_list ws f), snd (bind_list ws f), tt).
Proof.
  intros f. induction ws; simpl; auto.
  destruct (f a) as [os [x|]]; simpl; auto.
  rewrite IHws. destruct (bind_list ws f) as [os' x']. reflexivity.
Qed.
