(* C01vm — compile_correct: one lemma per compile function, composed by structural induction. *)
From Coq Require Import List NArith ZArith Bool Arith Lia.
From Verif Require Import c01vm.Syntax c01vm.Code c01vm.VM c01vm.Den c01vm.Compile c01vm.Mach c01vm.Gen c01vm.Lemmas.
Import ListNotations.

Section C.
Variable nt : natives.
Variable code : list instr.
Variable rpc : nat.

Notation steps := (steps nt code).
Notation N := (N rpc).
Notation G := (G nt code rpc).
Notation Tend := (Tend nt code).
Notation at_ := (at_ code).
Notation code_at := (code_at code).
Notation Impl := (Impl nt code rpc).
Notation den := (den nt).

Ltac one lem := eapply steps_step; [eapply lem; eauto|].
Ltac uncons H A := let H' := fresh "Hat" in destruct (code_at_cons _ _ _ _ H) as [A H']; clear H; rename H' into H.
Ltac impl_intro :=
  intros ce pc nv cq nv' Hc Hat rho v st fk vs n n0 K P HE Hn Hlen HK1 HK2 c [S1 S2] HP.

Lemma impl_id : Impl QId.
Proof.
  impl_intro. simpl in Hc. inversion Hc; subst cq nv'. cbn [Den.den fst snd].
  apply G_single with (vs3 := vs) (n3 := n).
  - subst c; simpl. rewrite Nat.add_0_r. constructor.
  - apply chg_refl.
  - simpl; lia.
  - intros vs2 n2 Kp L. eapply S2; eauto.
Qed.

Lemma impl_const : forall k, Impl (QConst k).
Proof.
  intros k. impl_intro. simpl in Hc. inversion Hc; subst cq nv'. cbn [Den.den fst snd]. uncons Hat A1.
  apply G_single with (vs3 := vs) (n3 := n).
  - subst c; simpl. replace (pc + 1) with (S pc) by lia. one st_const. constructor.
  - apply chg_refl.
  - simpl; lia.
  - intros vs2 n2 Kp L. eapply S2; eauto.
Qed.

Lemma impl_empty : Impl QEmpty.
Proof.
  impl_intro. simpl in Hc. inversion Hc; subst cq nv'. cbn [Den.den fst snd]. uncons Hat A1.
  eapply G_end with (vs3 := vs) (n3 := n) (e := None).
  - subst c; simpl. one st_backtrack. constructor.
  - apply chg_refl.
  - simpl; lia.
  - reflexivity.
  - auto.
Qed.

Lemma impl_call0 : forall f, Impl (QCall0 f).
Proof.
  intros f. impl_intro. simpl in Hc. inversion Hc; subst cq nv'. cbn [Den.den]. uncons Hat A1.
  destruct (n_fn0 nt f v) as [w|e] eqn:E; cbn [of_sum fst snd].
  - apply G_single with (vs3 := vs) (n3 := n).
    + subst c; simpl. replace (pc + 1) with (S pc) by lia. one st_call0_ok. constructor.
    + apply chg_refl.
    + simpl; lia.
    + intros vs2 n2 Kp L. eapply S2; eauto.
  - eapply G_end with (vs3 := vs) (n3 := n).
    + subst c; simpl. one st_call0_err. constructor.
    + apply chg_refl.
    + simpl; lia.
    + reflexivity.
    + auto.
Qed.

Lemma impl_var : forall x, Impl (QVar x).
Proof.
  intros x. impl_intro. simpl in Hc. destruct (lookup x (ce_vars ce)) as [k|] eqn:Ex; [|discriminate].
  inversion Hc; subst cq nv'. uncons Hat A1. uncons Hat A2.
  destruct HE as [Hv Hl]. destruct (Hv _ _ Ex) as (Hk & w & Hw & Hnth).
  cbn [Den.den]. rewrite Hw. cbn [fst snd].
  apply G_single with (vs3 := vs) (n3 := n).
  - subst c; simpl. replace (pc + 2) with (S (S pc)) by lia. one st_pop. one st_load. constructor.
  - apply chg_refl.
  - simpl; lia.
  - intros vs2 n2 Kp L. eapply S2; eauto.
Qed.

Lemma impl_break : forall l, Impl (QBreak l).
Proof.
  intros l. impl_intro. simpl in Hc. destruct (lookup l (ce_lbls ce)) as [k|] eqn:Ex; [|discriminate].
  inversion Hc; subst cq nv'. uncons Hat A1. uncons Hat A2. uncons Hat A3.
  destruct HE as [Hv Hl]. destruct (Hl _ _ Ex) as (Hk & id & Hnth & Hid).
  cbn [Den.den fst snd].
  eapply G_end with (vs3 := vs) (n3 := n).
  - subst c; simpl. one st_pop. one st_load. one st_break. constructor.
  - apply chg_refl.
  - simpl; lia.
  - simpl. exists k, id. auto.
  - auto.
Qed.

(* the standard invariant threaded through a composition: environment, sizes, the caller's P *)
Definition Jstd (ce : cenv) (rho : venv) (n0 nv hi : nat) (P : list sv -> nat -> Prop)
  (vs : list sv) (n : nat) : Prop :=
  envOK ce rho vs n0 nv /\ n0 <= n /\ hi <= length vs /\ P vs n.

Lemma Jstd_chg : forall ce rho n0 nv hi (P : list sv -> nat -> Prop) (O : nat -> Prop) a b m m',
  (forall x y k k', P x k -> chg O x y -> k <= k' -> P y k') ->
  (forall i, O i -> nv <= i) ->
  Jstd ce rho n0 nv hi P a m -> chg O a b -> m <= m' -> Jstd ce rho n0 nv hi P b m'.
Proof.
  intros ce rho n0 nv hi P O a b m m' HP HO (E & Hn & Hl & Hp) C Hm.
  split; [eapply envOK_chg; eauto|]. split; [lia|]. split; [destruct C; lia|]. eapply HP; eauto.
Qed.
Lemma Jstd_keep : forall c ce rho n0 nv hi (P : list sv -> nat -> Prop) a b m m',
  (forall x y k k', P x k -> keepS c x y -> k <= k' -> P y k') ->
  (forall i, kept ce i -> g_keep c i) ->
  Jstd ce rho n0 nv hi P a m -> keepS c a b -> m <= m' -> Jstd ce rho n0 nv hi P b m'.
Proof.
  intros c ce rho n0 nv hi P a b m m' HP HK (E & Hn & Hl & Hp) C Hm.
  split; [eapply envOK_keep; eauto|]. split; [lia|]. split; [destruct C; lia|]. eapply HP; eauto.
Qed.

Lemma Tend_weaken : forall c fin (P P' : list sv -> nat -> Prop) s,
  (forall a m, P a m -> P' a m) -> Tend c fin P s -> Tend c fin P' s.
Proof.
  intros c fin P P' s H (e & vs & n & St & Ch & Le & HE & HP). exists e, vs, n. auto 6.
Qed.

(* the caller's P is stable under any write inside the segment's own range *)
Lemma stable_sub : forall pc' st fk nv nv' K ce n0 (P : list sv -> nat -> Prop),
  stable (ctx_of pc' st fk nv nv' K ce n0) P ->
  (forall (O : nat -> Prop) x y k k', (forall i, O i -> nv <= i < nv') -> P x k -> chg O x y -> k <= k' -> P y k') /\
  (forall pc'' st' fk' lo hi ce' n0' x y k k', P x k -> keepS (ctx_of pc'' st' fk' lo hi K ce' n0') x y -> k <= k' -> P y k').
Proof.
  intros pc' st fk nv nv' K ce n0 P [S1 S2]. split.
  - intros O x y k k' HO Hp C Hk. eapply S1; [exact Hp| |exact Hk]. eapply chg_mono; [|exact C]. exact HO.
  - intros pc'' st' fk' lo hi ce' n0' x y k k' Hp C Hk. eapply S2; [exact Hp| |exact Hk]. exact C.
Qed.

Lemma impl_pipe : forall a b, Impl a -> Impl b -> Impl (QPipe a b).
Proof.
  intros a b IHa IHb. impl_intro. simpl in Hc. dcomp. inversion Hc; subst cq nv'. clear Hc.
  rename l into ca, l0 into cb.
  destruct (code_at_app _ _ _ _ Hat) as [Hata Hatb].
  pose proof (comp_mono _ _ _ _ _ _ Ec) as M1. pose proof (comp_mono _ _ _ _ _ _ Ec0) as M2.
  assert (Hkl : forall i, kept ce i -> i < nv) by (intros; eapply kept_lt; eauto).
  destruct (stable_sub _ _ _ _ _ _ _ _ _ (conj S1 S2)) as [S1' S2']. clear S1 S2.
  subst c. rewrite app_length, Nat.add_assoc.
  set (c := ctx_of (pc + length ca + length cb) st fk nv n2 K ce n0).
  set (c1 := ctx_of (pc + length ca) st fk nv n1 (fun i => nv <= i < n1 \/ kept ce i) ce n0).
  set (J := fun (_ : unit) => Jstd ce rho n0 nv n2 P).
  set (fb := fun (_ : unit) w => (fst (den b rho w), snd (den b rho w), tt)).
  assert (HA : G c1 (fst (den a rho v)) (Tend c1 (snd (den a rho v)) (fun _ _ => True)) (N pc (SV v :: st) fk vs n)).
  { apply (IHa ce pc nv ca n1 Ec Hata rho v st fk vs n n0 _ (fun _ _ => True)); auto; try lia.
    split; auto. }
  cbn [Den.den]. unfold bind.
  pose proof (foldgen_bind (den b rho) (fst (den a rho v))) as Ef. fold fb in Ef.
  destruct (bind_list (fst (den a rho v)) (den b rho)) as [os x] eqn:Eb. cbn [fst snd] in Ef.
  assert (HG : G c os (Tend c (match x with Some e => Some e | None => snd (den a rho v) end) (J tt))
                 (N pc (SV v :: st) fk vs n)).
  { refine (G_fold nt code rpc c1 c unit J fb (fun i => n1 <= i < n2) ce eq_refl eq_refl eq_refl
              _ _ _ _ eq_refl _ _ _ _ tt _ _ _ _ _ HA _ Ef).
    - simpl; intros; lia.
    - simpl; intros; lia.
    - simpl. intros i [Hi|Hi]; split; try lia; [apply HK1; lia|apply HK2; auto|apply Hkl in Hi; lia].
    - simpl. intros i Hi. apply Hkl in Hi. lia.
    - intros g p q m m' Hj C Hm.
      refine (Jstd_chg _ _ _ _ _ _ _ _ _ _ _ (fun x y k k' => S1' _ x y k k' _) _ Hj C Hm); simpl; intros; lia.
    - intros g p m (E & _). eapply envOK_lblOK; eauto.
    - intros w g fk' vs' n' os' x' g' (E & Hn' & Hl' & Hp') Efb. unfold fb in Efb. inversion Efb; subst os' x' g'.
      apply (IHb ce (pc + length ca) n1 cb n2 Ec0 Hatb rho w st (fk' ++ fk) vs' n' n0 K (J tt)); auto.
      + eapply envOK_nv; eauto.
      + intros; apply HK1; lia.
      + split.
        * intros p q m m' Hj C Hm.
          refine (Jstd_chg _ _ _ _ _ _ _ _ _ _ _ (fun x y k k' => S1' _ x y k k' _) _ Hj C Hm); simpl; intros; lia.
        * intros p q m m' Hj C Hm.
          refine (Jstd_keep _ _ _ _ _ _ _ _ _ _ _ (fun x y k k' => S2' _ _ _ _ _ _ _ x y k k') _ Hj C Hm). exact HK2.
      + split; auto.
    - simpl. split; auto. }
  destruct x as [e|]; (eapply G_impl; [|exact HG]); intros s0; apply Tend_weaken; intros p m (_ & _ & _ & Hp); exact Hp.
Qed.

End C.
