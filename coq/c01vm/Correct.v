(* C01vm — compile_correct: one lemma per compile function, composed by structural induction. *)
From Coq Require Import List NArith ZArith Bool Arith Lia.
From Verif Require Import c01vm.Syntax c01vm.Code c01vm.VM c01vm.Den c01vm.Compile c01vm.Mach c01vm.Gen c01vm.Lemmas.
Import ListNotations.

Section C.
Variable nt : natives.
Variable code : list instr.
Variable rpc : nat.

Notation steps := (steps nt code).
Notation N := (N rpc).
Notation G := (G nt code rpc).
Notation Tend := (Tend nt code).
Notation at_ := (at_ code).
Notation code_at := (code_at code).
Notation Impl := (Impl nt code rpc).
Notation den := (den nt).

Ltac one lem := eapply steps_step; [eapply lem; eauto|].
Ltac uncons H A := let H' := fresh "Hat" in destruct (code_at_cons _ _ _ _ H) as [A H']; clear H; rename H' into H.
Ltac impl_intro :=
  intros ce pc nv cq nv' Hc Hat rho v st fk vs n n0 K P HE Hn Hlen HK1 HK2 c [S1 S2] HP.

Lemma impl_id : Impl QId.
Proof.
  impl_intro. simpl in Hc. inversion Hc; subst cq nv'. cbn [Den.den fst snd].
  apply G_single with (vs3 := vs) (n3 := n).
  - subst c; simpl. rewrite Nat.add_0_r. constructor.
  - apply chg_refl.
  - simpl; lia.
  - intros vs2 n2 Kp L. eapply S2; eauto.
Qed.

Lemma impl_const : forall k, Impl (QConst k).
Proof.
  intros k. impl_intro. simpl in Hc. inversion Hc; subst cq nv'. cbn [Den.den fst snd]. uncons Hat A1.
  apply G_single with (vs3 := vs) (n3 := n).
  - subst c; simpl. replace (pc + 1) with (S pc) by lia. one st_const. constructor.
  - apply chg_refl.
  - simpl; lia.
  - intros vs2 n2 Kp L. eapply S2; eauto.
Qed.

Lemma impl_empty : Impl QEmpty.
Proof.
  impl_intro. simpl in Hc. inversion Hc; subst cq nv'. cbn [Den.den fst snd]. uncons Hat A1.
  eapply G_end with (vs3 := vs) (n3 := n) (e := None).
  - subst c; simpl. one st_backtrack. constructor.
  - apply chg_refl.
  - simpl; lia.
  - reflexivity.
  - auto.
Qed.

Lemma impl_call0 : forall f, Impl (QCall0 f).
Proof.
  intros f. impl_intro. simpl in Hc. inversion Hc; subst cq nv'. cbn [Den.den]. uncons Hat A1.
  destruct (n_fn0 nt f v) as [w|e] eqn:E; cbn [of_sum fst snd].
  - apply G_single with (vs3 := vs) (n3 := n).
    + subst c; simpl. replace (pc + 1) with (S pc) by lia. one st_call0_ok. constructor.
    + apply chg_refl.
    + simpl; lia.
    + intros vs2 n2 Kp L. eapply S2; eauto.
  - eapply G_end with (vs3 := vs) (n3 := n).
    + subst c; simpl. one st_call0_err. constructor.
    + apply chg_refl.
    + simpl; lia.
    + reflexivity.
    + auto.
Qed.

Lemma impl_var : forall x, Impl (QVar x).
Proof.
  intros x. impl_intro. simpl in Hc. destruct (lookup x (ce_vars ce)) as [k|] eqn:Ex; [|discriminate].
  inversion Hc; subst cq nv'. uncons Hat A1. uncons Hat A2.
  destruct HE as [Hv Hl]. destruct (Hv _ _ Ex) as (Hk & w & Hw & Hnth).
  cbn [Den.den]. rewrite Hw. cbn [fst snd].
  apply G_single with (vs3 := vs) (n3 := n).
  - subst c; simpl. replace (pc + 2) with (S (S pc)) by lia. one st_pop. one st_load. constructor.
  - apply chg_refl.
  - simpl; lia.
  - intros vs2 n2 Kp L. eapply S2; eauto.
Qed.

Lemma impl_break : forall l, Impl (QBreak l).
Proof.
  intros l. impl_intro. simpl in Hc. destruct (lookup l (ce_lbls ce)) as [k|] eqn:Ex; [|discriminate].
  inversion Hc; subst cq nv'. uncons Hat A1. uncons Hat A2. uncons Hat A3.
  destruct HE as [Hv Hl]. destruct (Hl _ _ Ex) as (Hk & id & Hnth & Hid).
  cbn [Den.den fst snd].
  eapply G_end with (vs3 := vs) (n3 := n).
  - subst c; simpl. one st_pop. one st_load. one st_break. constructor.
  - apply chg_refl.
  - simpl; lia.
  - simpl. exists k, id. auto.
  - auto.
Qed.

End C.
