(* C01vm — compile_correct: one lemma per compile function, composed by structural induction. *)
From Coq Require Import List NArith ZArith Bool Arith Lia.
From Verif Require Import c01vm.Syntax c01vm.Code c01vm.VM c01vm.Den c01vm.Compile c01vm.Mach c01vm.Gen c01vm.Lemmas c01vm.Static.
Import ListNotations.

Section C.
Variable nt : natives.
Variable code : list instr.
Variable rpc : nat.

Notation steps := (steps nt code).
Notation N := (N rpc).
Notation G := (G nt code rpc).
Notation Tend := (Tend nt code).
Notation at_ := (at_ code).
Notation code_at := (code_at code).
Notation Impl := (Impl nt code rpc).
Notation den := (den nt).

Ltac one lem := eapply steps_step; [eapply lem; eauto|].
Ltac uncons H A := let H' := fresh "Hat" in destruct (code_at_cons _ _ _ _ H) as [A H']; clear H; rename H' into H.
Ltac impl_intro :=
  intros ce pc nv cq nv' Hc Hat rho v st fk vs n n0 K P HE Hn Hlen HK1 HK2 c [S1 S2] HP.

Lemma impl_id : Impl QId.
Proof.
  impl_intro. simpl in Hc. inversion Hc; subst cq nv'. cbn [Den.den fst snd].
  apply G_single with (vs3 := vs) (n3 := n).
  - subst c; simpl. rewrite Nat.add_0_r. constructor.
  - apply chg_refl.
  - simpl; lia.
  - intros vs2 n2 Kp L. eapply S2; eauto.
Qed.

Lemma impl_const : forall k, Impl (QConst k).
Proof.
  intros k. impl_intro. simpl in Hc. inversion Hc; subst cq nv'. cbn [Den.den fst snd]. uncons Hat A1.
  apply G_single with (vs3 := vs) (n3 := n).
  - subst c; simpl. replace (pc + 1) with (S pc) by lia. one st_const. constructor.
  - apply chg_refl.
  - simpl; lia.
  - intros vs2 n2 Kp L. eapply S2; eauto.
Qed.

Lemma impl_empty : Impl QEmpty.
Proof.
  impl_intro. simpl in Hc. inversion Hc; subst cq nv'. cbn [Den.den fst snd]. uncons Hat A1.
  eapply G_end with (vs3 := vs) (n3 := n) (e := None).
  - subst c; simpl. one st_backtrack. constructor.
  - apply chg_refl.
  - simpl; lia.
  - reflexivity.
  - auto.
Qed.

Lemma impl_call0 : forall f, Impl (QCall0 f).
Proof.
  intros f. impl_intro. simpl in Hc. inversion Hc; subst cq nv'. cbn [Den.den]. uncons Hat A1.
  destruct (n_fn0 nt f v) as [w|e] eqn:E; cbn [of_sum fst snd].
  - apply G_single with (vs3 := vs) (n3 := n).
    + subst c; simpl. replace (pc + 1) with (S pc) by lia. one st_call0_ok. constructor.
    + apply chg_refl.
    + simpl; lia.
    + intros vs2 n2 Kp L. eapply S2; eauto.
  - eapply G_end with (vs3 := vs) (n3 := n).
    + subst c; simpl. one st_call0_err. constructor.
    + apply chg_refl.
    + simpl; lia.
    + reflexivity.
    + auto.
Qed.

Lemma impl_var : forall x, Impl (QVar x).
Proof.
  intros x. impl_intro. simpl in Hc. destruct (lookup x (ce_vars ce)) as [k|] eqn:Ex; [|discriminate].
  inversion Hc; subst cq nv'. uncons Hat A1. uncons Hat A2.
  destruct HE as [Hv Hl]. destruct (Hv _ _ Ex) as (Hk & w & Hw & Hnth).
  cbn [Den.den]. rewrite Hw. cbn [fst snd].
  apply G_single with (vs3 := vs) (n3 := n).
  - subst c; simpl. replace (pc + 2) with (S (S pc)) by lia. one st_pop. one st_load. constructor.
  - apply chg_refl.
  - simpl; lia.
  - intros vs2 n2 Kp L. eapply S2; eauto.
Qed.

Lemma impl_break : forall l, Impl (QBreak l).
Proof.
  intros l. impl_intro. simpl in Hc. destruct (lookup l (ce_lbls ce)) as [k|] eqn:Ex; [|discriminate].
  inversion Hc; subst cq nv'. uncons Hat A1. uncons Hat A2. uncons Hat A3.
  destruct HE as [Hv Hl]. destruct (Hl _ _ Ex) as (Hk & id & Hnth & Hid).
  cbn [Den.den fst snd].
  eapply G_end with (vs3 := vs) (n3 := n).
  - subst c; simpl. one st_pop. one st_load. one st_break. constructor.
  - apply chg_refl.
  - simpl; lia.
  - simpl. exists k, id. auto.
  - auto.
Qed.

(* the standard invariant threaded through a composition: environment, sizes, the caller's P *)
Definition Jstd (ce : cenv) (rho : venv) (n0 nv hi : nat) (P : list sv -> nat -> Prop)
  (vs : list sv) (n : nat) : Prop :=
  envOK ce rho vs n0 nv /\ n0 <= n /\ hi <= length vs /\ P vs n.

Lemma Jstd_chg : forall ce rho n0 nv hi (P : list sv -> nat -> Prop) (O : nat -> Prop) a b m m',
  (forall x y k k', P x k -> chg O x y -> k <= k' -> P y k') ->
  (forall i, O i -> nv <= i) ->
  Jstd ce rho n0 nv hi P a m -> chg O a b -> m <= m' -> Jstd ce rho n0 nv hi P b m'.
Proof.
  intros ce rho n0 nv hi P O a b m m' HP HO (E & Hn & Hl & Hp) C Hm.
  split; [eapply envOK_chg; eauto|]. split; [lia|]. split; [destruct C; lia|]. eapply HP; eauto.
Qed.
Lemma Jstd_keep : forall c ce rho n0 nv hi (P : list sv -> nat -> Prop) a b m m',
  (forall x y k k', P x k -> keepS c x y -> k <= k' -> P y k') ->
  (forall i, kept ce i -> g_keep c i) ->
  Jstd ce rho n0 nv hi P a m -> keepS c a b -> m <= m' -> Jstd ce rho n0 nv hi P b m'.
Proof.
  intros c ce rho n0 nv hi P a b m m' HP HK (E & Hn & Hl & Hp) C Hm.
  split; [eapply envOK_keep; eauto|]. split; [lia|]. split; [destruct C; lia|]. eapply HP; eauto.
Qed.

Lemma Tend_weaken : forall c fin (P P' : list sv -> nat -> Prop) s,
  (forall a m, P a m -> P' a m) -> Tend c fin P s -> Tend c fin P' s.
Proof.
  intros c fin P P' s H (e & vs & n & St & Ch & Le & HE & HP). exists e, vs, n. auto 6.
Qed.

(* the caller's P is stable under any write inside the segment's own range *)
Lemma stable_sub : forall pc' st fk nv nv' K ce n0 (P : list sv -> nat -> Prop),
  stable (ctx_of pc' st fk nv nv' K ce n0) P ->
  (forall (O : nat -> Prop) x y k k', (forall i, O i -> nv <= i < nv') -> P x k -> chg O x y -> k <= k' -> P y k') /\
  (forall pc'' st' fk' lo hi ce' n0' x y k k', P x k -> keepS (ctx_of pc'' st' fk' lo hi K ce' n0') x y -> k <= k' -> P y k').
Proof.
  intros pc' st fk nv nv' K ce n0 P [S1 S2]. split.
  - intros O x y k k' HO Hp C Hk. eapply S1; [exact Hp| |exact Hk]. eapply chg_mono; [|exact C]. exact HO.
  - intros pc'' st' fk' lo hi ce' n0' x y k k' Hp C Hk. eapply S2; [exact Hp| |exact Hk]. exact C.
Qed.

Lemma Tend_sub : forall cb c fin (P : list sv -> nat -> Prop) s,
  g_base cb = g_base c -> g_ce cb = g_ce c -> (forall i, g_own cb i -> g_own c i) ->
  Tend cb fin P s -> Tend c fin P s.
Proof.
  intros cb c fin P s H1 H2 H3 (e & vs & n & St & Ch & Le & HE & HP). exists e, vs, n.
  rewrite <- H1, <- H2. split; [auto|]. split; [eapply chg_mono; eauto|]. auto.
Qed.

Lemma impl_pipe : forall a b, Impl a -> Impl b -> Impl (QPipe a b).
Proof.
  intros a b IHa IHb. impl_intro. simpl in Hc. dcomp. inversion Hc; subst cq nv'. clear Hc.
  rename l into ca, l0 into cb.
  destruct (code_at_app _ _ _ _ Hat) as [Hata Hatb].
  pose proof (comp_mono _ _ _ _ _ _ Ec) as M1. pose proof (comp_mono _ _ _ _ _ _ Ec0) as M2.
  assert (Hkl : forall i, kept ce i -> i < nv) by (intros; eapply kept_lt; eauto).
  destruct (stable_sub _ _ _ _ _ _ _ _ _ (conj S1 S2)) as [S1' S2']. clear S1 S2.
  subst c. rewrite app_length, Nat.add_assoc.
  set (c := ctx_of (pc + length ca + length cb) st fk nv n2 K ce n0).
  set (c1 := ctx_of (pc + length ca) st fk nv n1 (fun i => nv <= i < n1 \/ kept ce i) ce n0).
  set (J := fun (_ : unit) => Jstd ce rho n0 nv n2 P).
  set (fb := fun (_ : unit) w => (fst (den b rho w), snd (den b rho w), tt)).
  assert (HA : G c1 (fst (den a rho v)) (Tend c1 (snd (den a rho v)) (fun _ _ => True)) (N pc (SV v :: st) fk vs n)).
  { apply (IHa ce pc nv ca n1 Ec Hata rho v st fk vs n n0 _ (fun _ _ => True)); auto; try lia.
    split; auto. }
  cbn [Den.den]. unfold bind.
  pose proof (foldgen_bind (den b rho) (fst (den a rho v))) as Ef. fold fb in Ef.
  destruct (bind_list (fst (den a rho v)) (den b rho)) as [os x] eqn:Eb. cbn [fst snd] in Ef.
  assert (HG : G c os (Tend c (match x with Some e => Some e | None => snd (den a rho v) end) (J tt))
                 (N pc (SV v :: st) fk vs n)).
  { refine (G_fold nt code rpc c1 c unit J fb (fun i => n1 <= i < n2) ce eq_refl eq_refl eq_refl
              _ _ _ _ eq_refl _ _ _ _ tt _ _ _ _ _ HA _ Ef).
    - simpl; intros; lia.
    - simpl; intros; lia.
    - simpl. intros i [Hi|Hi]; split; try lia; [apply HK1; lia|apply HK2; auto|apply Hkl in Hi; lia].
    - simpl. intros i Hi. apply Hkl in Hi. lia.
    - intros g p q m m' Hj C Hm.
      refine (Jstd_chg _ _ _ _ _ _ _ _ _ _ _ (fun x y k k' => S1' _ x y k k' _) _ Hj C Hm); simpl; intros; lia.
    - intros g p m (E & _). eapply envOK_lblOK; eauto.
    - intros w g fk' vs' n' os' x' g' (E & Hn' & Hl' & Hp') Efb. unfold fb in Efb. inversion Efb; subst os' x' g'.
      apply (IHb ce (pc + length ca) n1 cb n2 Ec0 Hatb rho w st (fk' ++ fk) vs' n' n0 K (J tt)); auto.
      + eapply envOK_nv; eauto.
      + intros; apply HK1; lia.
      + split.
        * intros p q m m' Hj C Hm.
          refine (Jstd_chg _ _ _ _ _ _ _ _ _ _ _ (fun x y k k' => S1' _ x y k k' _) _ Hj C Hm); simpl; intros; lia.
        * intros p q m m' Hj C Hm.
          refine (Jstd_keep _ _ _ _ _ _ _ _ _ _ _ (fun x y k k' => S2' _ _ _ _ _ _ _ x y k k') _ Hj C Hm). exact HK2.
      + split; auto.
    - simpl. split; auto. }
  destruct x as [e|]; (eapply G_impl; [|exact HG]); intros s0; apply Tend_weaken; intros p m (_ & _ & _ & Hp); exact Hp.
Qed.

(* P := Jstd is itself stable in a context whose own range lies inside [nv, hi) *)
Lemma Jstd_stable : forall pc' st fk lo hi' K ce' n0' ce rho n0 nv hi (P : list sv -> nat -> Prop),
  (forall (O : nat -> Prop) x y k k', (forall i, O i -> nv <= i < hi) -> P x k -> chg O x y -> k <= k' -> P y k') ->
  (forall pc'' st' fk' lo hi ce' n0' x y k k', P x k -> keepS (ctx_of pc'' st' fk' lo hi K ce' n0') x y -> k <= k' -> P y k') ->
  (forall i, kept ce i -> K i) -> nv <= lo -> hi' <= hi ->
  stable (ctx_of pc' st fk lo hi' K ce' n0') (Jstd ce rho n0 nv hi P).
Proof.
  intros pc' st fk lo hi' K ce' n0' ce rho n0 nv hi P S1' S2' HK2 H1 H2. split.
  - intros p q m m' Hj C Hm.
    refine (Jstd_chg _ _ _ _ _ _ _ _ _ _ _ (fun x y k k' => S1' _ x y k k' _) _ Hj C Hm); simpl; intros; lia.
  - intros p q m m' Hj C Hm.
    refine (Jstd_keep _ _ _ _ _ _ _ _ _ _ _ (fun x y k k' => S2' _ _ _ _ _ _ _ x y k k') _ Hj C Hm). exact HK2.
Qed.

Lemma fork_transparent : forall pc t st fk x vs n, at_ pc (Ifork t) ->
  steps (B (Some x) (F rpc pc st :: fk) vs n) (B (Some x) fk vs n).
Proof. intros. one st_popfork. one bt_fork_err. constructor. Qed.

Lemma impl_comma : forall a b, Impl a -> Impl b -> Impl (QComma a b).
Proof.
  intros a b IHa IHb. impl_intro. simpl in Hc. dcomp. inversion Hc; subst cq nv'. clear Hc.
  rename l into ca, l0 into cb.
  uncons Hat A1. destruct (code_at_app _ _ _ _ Hat) as [Hata Hat2]. uncons Hat2 A2. rename Hat2 into Hatb.
  pose proof (comp_mono _ _ _ _ _ _ Ec) as M1. pose proof (comp_mono _ _ _ _ _ _ Ec0) as M2.
  assert (Hkl : forall i, kept ce i -> i < nv) by (intros; eapply kept_lt; eauto).
  destruct (stable_sub _ _ _ _ _ _ _ _ _ (conj S1 S2)) as [S1' S2']. clear S1 S2.
  set (L := pc + 1 + length ca + 1) in *.
  replace (S (S pc + length ca)) with L in Hatb by (unfold L; lia).
  assert (Epc : pc + length (Ifork L :: ca ++ Ijump (L + length cb) :: cb) = L + length cb).
  { simpl. rewrite app_length. simpl. unfold L. lia. }
  subst c. rewrite Epc.
  set (c := ctx_of (L + length cb) st fk nv n2 K ce n0).
  set (fx := F rpc pc (SV v :: st)).
  set (Pa := Jstd ce rho n0 nv n2 P).
  (* a, with the fork of the comma below its forks *)
  assert (HA : G (ctx_of (S pc + length ca) st (fx :: fk) nv n1 K ce n0) (fst (den a rho v))
                 (Tend (ctx_of (S pc + length ca) st (fx :: fk) nv n1 K ce n0) (snd (den a rho v)) Pa)
                 (N (S pc) (SV v :: st) (fx :: fk) vs n)).
  { apply (IHa ce (S pc) nv ca n1 Ec Hata rho v st (fx :: fk) vs n n0 K Pa); auto; try lia.
    - intros; apply HK1; lia.
    - apply Jstd_stable; auto.
    - split; auto. }
  apply G_exit with (pc2 := L + length cb) in HA.
  2:{ intros w f vs' n'. one st_jump. constructor. }
  eapply G_pre; [one st_fork; constructor|apply chg_refl|simpl; lia|].
  set (ca' := {| g_pc := L + length cb; g_st := st; g_base := fx :: fk; g_own := fun i => nv <= i < n1;
                 g_keep := K; g_ce := ce; g_n0 := n0 |}) in HA.
  cbn [Den.den]. destruct (den a rho v) as [wsa [xa|]] eqn:Ea; cbn [seq fst snd] in *.
  - (* a raised: the fork propagates the error *)
    refine (G_ctx nt code rpc ca' c [fx] (fun _ _ => True) _ _ eq_refl eq_refl eq_refl _ _ (le_n _) _ _ _ _ _ _ I HA); auto.
    + simpl; intros; lia.
    + intros x vs' n' _ _. exists vs', n'. split; [eapply fork_transparent; eauto|]. split; [apply chg_refl|lia].
    + intros s1 _ (e & vs4 & n4 & St4 & Ch4 & Le4 & HE4 & HP4).
      destruct (encR_some _ _ _ _ HE4) as (y & ->). simpl in St4, Ch4, HE4.
      exists (Some y), vs4, n4. split; [eapply steps_trans; [exact St4|eapply fork_transparent; eauto]|].
      split; [eapply chg_mono; [|exact Ch4]; simpl; intros; lia|]. split; [auto|]. split; [exact HE4|apply HP4].
  - (* a ended: the fork resumes at b *)
    apply G_app.
    refine (G_ctx nt code rpc ca' c [fx] (fun _ _ => True) _ _ eq_refl eq_refl eq_refl _ _ (le_n _) _ _ _ _ _ _ I HA); auto.
    + simpl; intros; lia.
    + intros x vs' n' _ _. exists vs', n'. split; [eapply fork_transparent; eauto|]. split; [apply chg_refl|lia].
    + intros s1 _ (e & vs4 & n4 & St4 & Ch4 & Le4 & HE4 & (E4 & Hn4 & Hl4 & HP4)). simpl in St4, Ch4, HE4. subst e.
      eapply G_pre; [eapply steps_trans; [exact St4|one st_popfork; one bt_fork_none; constructor]
                    |eapply chg_mono; [|exact Ch4]; simpl; intros; lia|exact Le4|].
      pose proof (IHb ce L n1 cb n2 Ec0 Hatb rho v st fk vs4 n4 n0 K P) as HB.
      refine (G_sub nt code rpc (ctx_of (L + length cb) st fk n1 n2 K ce n0) c _ _ eq_refl eq_refl eq_refl _ _ (le_n _) _ _ _ (HB _ _ _ _ _ _ _)); auto.
      * simpl; intros; lia.
      * intros s2. apply Tend_sub; auto. simpl; intros; lia.
      * eapply envOK_nv; eauto.
      * intros; apply HK1; lia.
      * split; [intros p q m m' Hp C Hm; eapply S1'; eauto; simpl; intros; lia|intros p q m m' Hp C Hm; eapply S2'; eauto].
Qed.

(* G_fold with the standard side conditions discharged *)
Lemma fold_std : forall pc1 st1 lo1 hi1 pc' st fk nv nv' K ce n0 rho (P : list sv -> nat -> Prop)
   (X : Type) (Jg : X -> list sv -> Prop) (fb : X -> jv -> list jv * option exn * X)
   (ownb : nat -> Prop) (ceb : cenv),
   let c := ctx_of pc' st fk nv nv' K ce n0 in
   let c1 := ctx_of pc1 st1 fk lo1 hi1 (fun i => lo1 <= i < hi1 \/ kept ce i) ce n0 in
   let J := fun g a m => Jstd ce rho n0 nv nv' P a m /\ Jg g a in
   stable c P -> nv <= lo1 -> hi1 <= nv' ->
   (forall i, kept ce i -> i < nv) -> (forall i, nv <= i < nv' -> K i) -> (forall i, kept ce i -> K i) ->
   (forall i, ownb i -> nv <= i < nv' /\ ~ (lo1 <= i < hi1)) ->
   ce_lbls ceb = ce_lbls ce ->
   (forall g a b, Jg g a -> chg (fun i => lo1 <= i < hi1) a b -> Jg g b) ->
   (forall w g fk' vs n os x g', J g vs n -> fb g w = (os, x, g') ->
        G (cbody c ownb ceb fk') os (Tend (cbody c ownb ceb fk') x (J g')) (N pc1 (SV w :: st1) (fk' ++ fk) vs n)) ->
   forall ws1 g s fin1 os x g',
     G c1 ws1 (Tend c1 fin1 (fun _ _ => True)) s -> J g (vars_of s) (lbl_of s) -> foldgen X fb ws1 g = (os, x, g') ->
     G c os (Tend c (match x with Some e => Some e | None => fin1 end) (J g')) s.
Proof.
  intros pc1 st1 lo1 hi1 pc' st fk nv nv' K ce n0 rho P X Jg fb ownb ceb c c1 J HS H1 H2 Hkl HK1 HK2 Hob Hlb HJg Hbody
         ws1 g s fin1 os x g' HA HJ Ef.
  destruct (stable_sub _ _ _ _ _ _ _ _ _ HS) as [S1' S2'].
  refine (G_fold nt code rpc c1 c X J fb ownb ceb eq_refl eq_refl eq_refl _ _ _ _ Hlb _ _ Hbody ws1 g s fin1 os x g' HA HJ Ef).
  - simpl; intros; lia.
  - intros i Hi. apply Hob in Hi. simpl. tauto.
  - simpl. intros i [Hi|Hi]; split.
    + apply HK1; lia. + intro Ho. apply Hob in Ho. tauto.
    + apply HK2; auto. + intro Ho. apply Hob in Ho. apply Hkl in Hi. lia.
  - simpl. intros i Hi. apply Hkl in Hi. lia.
  - intros g0 p q m m' [Hj Hg] C Hm. split; [|eapply HJg; eauto].
    refine (Jstd_chg _ _ _ _ _ _ _ _ _ _ _ (fun x y k k' => S1' _ x y k k' _) _ Hj C Hm); simpl; intros; lia.
  - intros g0 p m [(E & _) _]. eapply envOK_lblOK; eauto.
Qed.

(* an Impl used as inner generator *)
Lemma impl_inner : forall q, Impl q -> forall ce pc nv cq nv', comp q ce pc nv = Some (cq, nv') -> code_at pc cq ->
  forall rho v st fk vs n n0, envOK ce rho vs n0 nv -> n0 <= n -> nv' <= length vs ->
  let c1 := ctx_of (pc + length cq) st fk nv nv' (fun i => nv <= i < nv' \/ kept ce i) ce n0 in
  G c1 (fst (den q rho v)) (Tend c1 (snd (den q rho v)) (fun _ _ => True)) (N pc (SV v :: st) fk vs n).
Proof.
  intros q IH ce pc nv cq nv' Ec Hat rho v st fk vs n n0 HE Hn Hl c1.
  apply (IH ce pc nv cq nv' Ec Hat rho v st fk vs n n0 _ (fun _ _ => True)); auto. split; auto.
Qed.

(* opiter enumerating the rest of a list *)
Lemma G_iter_list : forall cx pcI (P : list sv -> nat -> Prop), at_ pcI Iiter -> g_pc cx = S pcI ->
  (forall a b m m', P a m -> keepS cx a b -> m <= m' -> P b m') ->
  forall xs vs n, P vs n ->
  G cx xs (Tend cx None P) (iter_state rpc pcI xs (g_st cx) (g_base cx) vs n).
Proof.
  intros cx pcI P Hat Hpc HP. induction xs as [|x r IH]; intros vs n Hp.
  - simpl. eapply G_end; [apply steps_refl|apply chg_refl|simpl; lia|reflexivity|auto].
  - destruct r as [|y r].
    + simpl. eapply G_single; [rewrite Hpc; apply steps_refl|apply chg_refl|simpl; lia|].
      intros; eapply HP; eauto.
    + change (G cx (x :: y :: r) (Tend cx None P)
                (N (S pcI) (SV x :: g_st cx) (F rpc pcI (SIt (y :: r) :: g_st cx) :: g_base cx) vs n)).
      eapply (G_cons nt code rpc cx x (y :: r) _ _ [F rpc pcI (SIt (y :: r) :: g_st cx)] vs n);
        [rewrite Hpc; apply steps_refl|apply chg_refl|simpl; lia|].
      intros vs2 n2 Kp L2. split.
      * simpl app. eapply G_pre; [one st_popfork; one bt_iter_none; apply steps_refl|rewrite iter_state_vars; apply chg_refl|rewrite iter_state_lbl; simpl; lia|].
        apply IH. eapply HP; eauto.
      * intros e _. exists vs2, n2. simpl app. split; [one st_popfork; one bt_iter_err; apply steps_refl|].
        split; [apply chg_refl|lia].
Unshelve. all: try exact None. all: try exact 0. all: try exact []. Qed.

Lemma G_iter : forall cx pcI (P : list sv -> nat -> Prop) w vs n, at_ pcI Iiter -> g_pc cx = S pcI ->
  (forall a b m m', P a m -> keepS cx a b -> m <= m' -> P b m') -> P vs n ->
  G cx (fst (iter_res nt w)) (Tend cx (snd (iter_res nt w)) P) (N pcI (SV w :: g_st cx) (g_base cx) vs n).
Proof.
  intros cx pcI P w vs n Hat Hpc HP Hp. unfold iter_res. destruct (n_iter nt w) as [xs|e] eqn:E; cbn [fst snd].
  - eapply G_pre; [one st_iter_ok; apply steps_refl|rewrite iter_state_vars; apply chg_refl
                  |rewrite iter_state_lbl; simpl; lia|eapply G_iter_list; eauto].
  - eapply G_end; [one st_iter_err; constructor|apply chg_refl|simpl; lia|reflexivity|auto].
Qed.

Lemma G_index : forall cx pcI k (P : list sv -> nat -> Prop) w vs n, at_ pcI (Iindex k) -> g_pc cx = S pcI ->
  (forall a b m m', P a m -> keepS cx a b -> m <= m' -> P b m') -> P vs n ->
  G cx (fst (of_sum (n_index nt w k))) (Tend cx (snd (of_sum (n_index nt w k))) P)
    (N pcI (SV w :: g_st cx) (g_base cx) vs n).
Proof.
  intros cx pcI k P w vs n Hat Hpc HP Hp. destruct (n_index nt w k) as [r|e] eqn:E; cbn [of_sum fst snd].
  - eapply G_single; [rewrite Hpc; one st_index_ok; constructor|apply chg_refl|simpl; lia|].
    intros; eapply HP; eauto.
  - eapply G_end; [one st_index_err; constructor|apply chg_refl|simpl; lia|reflexivity|auto].
Qed.

(* t followed by one instruction that is a generator on the top of the stack *)
Lemma postfix_std : forall t (f : jv -> result) (i : instr), Impl t ->
  (forall cx pcI (P : list sv -> nat -> Prop) w vs n, at_ pcI i -> g_pc cx = S pcI ->
     (forall a b m m', P a m -> keepS cx a b -> m <= m' -> P b m') -> P vs n ->
     G cx (fst (f w)) (Tend cx (snd (f w)) P) (N pcI (SV w :: g_st cx) (g_base cx) vs n)) ->
  forall ce pc nv ct nv', comp t ce pc nv = Some (ct, nv') -> code_at pc (ct ++ [i]) ->
  forall rho v st fk vs n n0 (K : nat -> Prop) (P : list sv -> nat -> Prop),
    envOK ce rho vs n0 nv -> n0 <= n -> nv' <= length vs ->
    (forall i, nv <= i < nv' -> K i) -> (forall i, kept ce i -> K i) ->
    let c := ctx_of (pc + length (ct ++ [i])) st fk nv nv' K ce n0 in
    stable c P -> P vs n ->
    G c (fst (bind (den t rho v) f)) (Tend c (snd (bind (den t rho v) f)) P) (N pc (SV v :: st) fk vs n).
Proof.
  intros t f i IHt Hbody ce pc nv ct nv' Ec Hat rho v st fk vs n n0 K P HE Hn Hlen HK1 HK2 c HS HP.
  destruct (code_at_app _ _ _ _ Hat) as [Hatt Hati]. uncons Hati Ai.
  pose proof (comp_mono _ _ _ _ _ _ Ec) as M1.
  assert (Hkl : forall j, kept ce j -> j < nv) by (intros; eapply kept_lt; eauto).
  destruct (stable_sub _ _ _ _ _ _ _ _ _ HS) as [S1' S2'].
  pose proof (impl_inner t IHt ce pc nv ct nv' Ec Hatt rho v st fk vs n n0 HE Hn Hlen) as HA. cbv zeta in HA.
  set (fb := fun (_ : unit) w => (fst (f w), snd (f w), tt)).
  unfold bind.
  pose proof (foldgen_bind f (fst (den t rho v))) as Ef. fold fb in Ef.
  destruct (bind_list (fst (den t rho v)) f) as [os x] eqn:Eb. cbn [fst snd] in Ef.
  assert (Epc : pc + length (ct ++ [i]) = S (pc + length ct)) by (rewrite app_length; simpl; lia).
  pose proof (fold_std (pc + length ct) st nv nv' (pc + length (ct ++ [i])) st fk nv nv' K ce n0 rho P
                unit (fun _ _ => True) fb (fun _ => False) ce HS (le_n _) (le_n _) Hkl HK1 HK2) as HF.
  cbv zeta in HF.
  assert (HG := fun H1 H2 H3 H4 => HF H1 eq_refl H2 H3 (fst (den t rho v)) tt _ (snd (den t rho v)) os x tt HA H4 Ef).
  clear HF.
  assert (HG' : G c os (Tend c (match x with Some e => Some e | None => snd (den t rho v) end)
                          (fun a m => Jstd ce rho n0 nv nv' P a m /\ True)) (N pc (SV v :: st) fk vs n)).
  { apply HG.
    - intros j [].
    - auto.
    - intros w g fk' vs' n' os' x' g' [Hj _] Efb. unfold fb in Efb. inversion Efb; subst os' x' g'.
      apply (Hbody (cbody c (fun _ => False) ce fk') (pc + length ct)); auto.
      + intros a b m m' [Hja _] Kp Hm. split; auto.
        refine (Jstd_keep _ _ _ _ _ _ _ _ _ _ _ (fun x y k k' => S2' _ _ _ _ _ _ _ x y k k') _ Hja Kp Hm). exact HK2.
    - simpl. split; auto. split; auto. }
  destruct x as [e|]; (eapply G_impl; [|exact HG']); intros s0; apply Tend_weaken;
    intros p m ((_ & _ & _ & Hp) & _); exact Hp.
Unshelve. all: try exact 0. all: try exact (@nil sv). all: try exact (@nil fork). all: try exact ce_empty. Qed.

Lemma impl_iter : forall t, Impl t -> Impl (QIter t).
Proof.
  intros t IHt. impl_intro. simpl in Hc. dcomp. inversion Hc; subst cq nv'. clear Hc.
  cbn [Den.den]. eapply postfix_std; eauto. intros; apply G_iter; auto. split; auto.
Qed.

Lemma impl_index : forall t k, Impl t -> Impl (QIndex t k).
Proof.
  intros t k IHt. impl_intro. simpl in Hc. dcomp. inversion Hc; subst cq nv'. clear Hc.
  cbn [Den.den]. eapply (postfix_std t (fun w => of_sum (n_index nt w k))); eauto.
  intros; apply G_index; auto. split; auto.
Qed.

(* generic bind: every output of an inner generator starts a body generator *)
Lemma bind_std : forall (f : jv -> result) pc1 st1 lo1 hi1 pc' st fk nv nv' K ce n0 rho (P : list sv -> nat -> Prop)
   (ownb : nat -> Prop) (ceb : cenv),
   let c := ctx_of pc' st fk nv nv' K ce n0 in
   let c1 := ctx_of pc1 st1 fk lo1 hi1 (fun i => lo1 <= i < hi1 \/ kept ce i) ce n0 in
   stable c P -> nv <= lo1 -> hi1 <= nv' ->
   (forall i, kept ce i -> i < nv) -> (forall i, nv <= i < nv' -> K i) -> (forall i, kept ce i -> K i) ->
   (forall i, ownb i -> nv <= i < nv' /\ ~ (lo1 <= i < hi1)) ->
   ce_lbls ceb = ce_lbls ce ->
   (forall w fk' vs n, Jstd ce rho n0 nv nv' P vs n ->
        G (cbody c ownb ceb fk') (fst (f w)) (Tend (cbody c ownb ceb fk') (snd (f w)) (Jstd ce rho n0 nv nv' P))
          (N pc1 (SV w :: st1) (fk' ++ fk) vs n)) ->
   forall r s, G c1 (fst r) (Tend c1 (snd r) (fun _ _ => True)) s -> Jstd ce rho n0 nv nv' P (vars_of s) (lbl_of s) ->
     G c (fst (bind r f)) (Tend c (snd (bind r f)) P) s.
Proof.
  intros f pc1 st1 lo1 hi1 pc' st fk nv nv' K ce n0 rho P ownb ceb c c1 HS H1 H2 Hkl HK1 HK2 Hob Hlb Hbody r s HA HJ.
  set (fb := fun (_ : unit) w => (fst (f w), snd (f w), tt)).
  unfold bind.
  pose proof (foldgen_bind f (fst r)) as Ef. fold fb in Ef.
  destruct (bind_list (fst r) f) as [os x] eqn:Eb. cbn [fst snd] in Ef.
  pose proof (fold_std pc1 st1 lo1 hi1 pc' st fk nv nv' K ce n0 rho P
                unit (fun _ _ => True) fb ownb ceb HS H1 H2 Hkl HK1 HK2 Hob Hlb) as HF.
  cbv zeta in HF.
  assert (HG' : G c os (Tend c (match x with Some e => Some e | None => snd r end)
                          (fun a m => Jstd ce rho n0 nv nv' P a m /\ True)) s).
  { refine (HF _ _ (fst r) tt s (snd r) os x tt HA _ Ef); auto.
    intros w g fk' vs' n' os' x' g' [Hj _] Efb. unfold fb in Efb. inversion Efb; subst os' x' g'.
    eapply G_impl; [|apply Hbody; auto]. intros s0. apply Tend_weaken. auto. }
  destruct x as [e|]; (eapply G_impl; [|exact HG']); intros s0; apply Tend_weaken;
    intros p m ((_ & _ & _ & Hp) & _); exact Hp.
Qed.

(* an Impl used as (part of) a body, in an arbitrary context whose own set contains its range *)
Lemma impl_body : forall q, Impl q -> forall ceq pcq nvq cq nvq', comp q ceq pcq nvq = Some (cq, nvq') -> code_at pcq cq ->
  forall cx rhoq v vs n (P : list sv -> nat -> Prop),
    g_pc cx = pcq + length cq ->
    ce_lbls (g_ce cx) = ce_lbls ceq ->
    (forall i, nvq <= i < nvq' -> g_own cx i) ->
    (forall i, nvq <= i < nvq' -> g_keep cx i) -> (forall i, kept ceq i -> g_keep cx i) ->
    envOK ceq rhoq vs (g_n0 cx) nvq -> g_n0 cx <= n -> nvq' <= length vs ->
    (forall a b m m', P a m -> chg (fun i => nvq <= i < nvq') a b -> m <= m' -> P b m') ->
    (forall a b m m', P a m -> keepS cx a b -> m <= m' -> P b m') ->
    P vs n ->
    G cx (fst (den q rhoq v)) (Tend cx (snd (den q rhoq v)) P) (N pcq (SV v :: g_st cx) (g_base cx) vs n).
Proof.
  intros q IH ceq pcq nvq cq nvq' Ec Hat cx rhoq v vs n P Hpc Hlb Hown Hk1 Hk2 HE Hn Hl HP1 HP2 HP.
  pose proof (IH ceq pcq nvq cq nvq' Ec Hat rhoq v (g_st cx) (g_base cx) vs n (g_n0 cx) (g_keep cx) P HE Hn Hl Hk1 Hk2) as H.
  cbv zeta in H.
  refine (G_sub nt code rpc (ctx_of (pcq + length cq) (g_st cx) (g_base cx) nvq nvq' (g_keep cx) ceq (g_n0 cx))
            cx _ _ (eq_sym Hpc) eq_refl eq_refl Hown _ (le_n _) _ _ _ (H _ HP)).
  - intros a b Kp. exact Kp.
  - intros s0 (e & vs4 & n4 & St & Ch & Le & HE4 & HP4). exists e, vs4, n4. simpl in *.
    split; [exact St|]. split; [exact (chg_mono _ _ _ _ Hown Ch)|]. split; [exact Le|]. split; [|exact HP4].
    eapply encR_lbls; [|exact HE4]. auto.
  - split; [exact HP1|]. intros a b m m' Hp Kp Hm. eapply HP2; eauto.
Qed.

Lemma is_const1_some : forall l x, is_const1 l = Some x -> l = [Iconst x].
Proof. intros l y H. destruct l as [|[] [|]]; simpl in H; try discriminate. inversion H; auto. Qed.

Definition if_pre (cc : list instr) : list instr :=
  match cc with [] => [Idup] | _ => Idup :: Iexpbegin :: cc ++ [Iexpend] end.

(* the condition of an if: dup (or nop, when the results are constants), expbegin, c, expend *)
Lemma if_cond : forall c, Impl c -> forall ce pc nv cc n1, comp c ce (pc + 2) nv = Some (cc, n1) ->
  forall (i0 : instr), code_at pc (i0 :: tl (if_pre cc)) ->
  forall rho v st0 st1 fk vs n n0,
  (forall f vs n, step nt code (N pc (SV v :: st0) f vs n) = Next (N (S pc) (SV v :: st1) f vs n)) ->
  envOK ce rho vs n0 nv -> n0 <= n -> n1 <= length vs ->
  let c1 := ctx_of (pc + length (if_pre cc)) st1 fk nv n1 (fun i => nv <= i < n1 \/ kept ce i) ce n0 in
  G c1 (fst (den c rho v)) (Tend c1 (snd (den c rho v)) (fun _ _ => True)) (N pc (SV v :: st0) fk vs n).
Proof.
  intros c IHc ce pc nv cc n1 Ec i0 Hat rho v st0 st1 fk vs n n0 Hstep HE Hn Hl c1.
  destruct cc as [|i cc'].
  - destruct (comp_nil _ _ _ _ _ Ec) as [E1 ->]. rewrite (emptycode_den nt _ E1). cbn [fst snd].
    subst c1. simpl length. replace (pc + 1) with (S pc) by lia.
    eapply G_single; [eapply steps_step; [apply Hstep|apply steps_refl]|apply chg_refl|simpl; lia|auto].
  - unfold if_pre in Hat, c1. simpl tl in Hat.
    uncons Hat A0. uncons Hat A1. change (i :: cc' ++ [Iexpend]) with ((i :: cc') ++ [Iexpend]) in Hat.
    remember (i :: cc') as cc eqn:Ecc.
    destruct (code_at_app _ _ _ _ Hat) as [Hatc Hat2]. uncons Hat2 A2.
    replace (S (S pc)) with (pc + 2) in * by lia.
    eapply G_pre; [eapply steps_step; [apply Hstep|one st_expbegin; apply steps_refl]|apply chg_refl|simpl; lia|].
    replace (S (S pc)) with (pc + 2) by lia.
    pose proof (impl_inner c IHc ce (pc + 2) nv cc n1 Ec Hatc rho v st1 fk vs n n0 HE Hn Hl) as HA. cbv zeta in HA.
    subst c1. replace (pc + length (Idup :: Iexpbegin :: cc ++ [Iexpend])) with (S (pc + 2 + length cc)).
    2:{ simpl. rewrite app_length. simpl. lia. }
    eapply G_exit; [|exact HA]. intros w f vs' n'. one st_expend. apply steps_refl.
Qed.

Lemma comp_if_inv : forall c a b ce pc nv cq nv', comp (QIf c a b) ce pc nv = Some (cq, nv') ->
  exists cc n1 ca n2 cb,
    let pcc := pc + length (if_pre cc) in
    let e := pcc + 1 + length ca + 1 in
    comp c ce (pc + 2) nv = Some (cc, n1) /\ comp a ce (S pcc) n1 = Some (ca, n2) /\ comp b ce e n2 = Some (cb, nv') /\
    ((exists x y, ca = [Iconst x] /\ cb = [Iconst y] /\
        cq = Inop :: tl (if_pre cc) ++ [Ijumpifnot e; Ipush x; Ijump (e + 1); Ipush y]) \/
     cq = if_pre cc ++ Ijumpifnot e :: ca ++ Ijump (e + length cb) :: cb).
Proof.
  intros c a b ce pc nv cq nv' Hc. simpl in Hc.
  destruct (comp c ce (pc + 2) nv) as [[cc n1]|] eqn:Ec; [|discriminate].
  change (match cc with [] => [Idup] | _ :: _ => Idup :: Iexpbegin :: cc ++ [Iexpend] end) with (if_pre cc) in Hc.
  destruct (comp a ce (S (pc + length (if_pre cc))) n1) as [[ca n2]|] eqn:Ea; [|discriminate].
  destruct (comp b ce (pc + length (if_pre cc) + 1 + length ca + 1) n2) as [[cb n3]|] eqn:Eb; [|discriminate].
  exists cc, n1, ca, n2, cb. cbv zeta.
  destruct (is_const1 ca) as [x|] eqn:E1; [destruct (is_const1 cb) as [y|] eqn:E2|]; inversion Hc; subst; clear Hc;
    (split; [reflexivity|]); (split; [exact Ea|]); (split; [exact Eb|]); auto.
  left. exists x, y. rewrite (is_const1_some _ _ E1), (is_const1_some _ _ E2) in *. auto.
Qed.

Lemma if_pre_cons : forall cc, if_pre cc = Idup :: tl (if_pre cc).
Proof. destruct cc; reflexivity. Qed.

Lemma Jstd_stable_cx : forall cx ce rho n0 nv hi (P : list sv -> nat -> Prop) K,
  (forall (O : nat -> Prop) x y k k', (forall i, O i -> nv <= i < hi) -> P x k -> chg O x y -> k <= k' -> P y k') ->
  (forall pc'' st' fk' lo hi ce' n0' x y k k', P x k -> keepS (ctx_of pc'' st' fk' lo hi K ce' n0') x y -> k <= k' -> P y k') ->
  (forall i, kept ce i -> K i) -> g_keep cx = K ->
  forall a b m m', Jstd ce rho n0 nv hi P a m -> keepS cx a b -> m <= m' -> Jstd ce rho n0 nv hi P b m'.
Proof.
  intros cx ce rho n0 nv hi P K S1' S2' HK2 HKe a b m m' Hj Kp Hm.
  refine (Jstd_keep cx _ _ _ _ _ _ _ _ _ _ _ _ Hj Kp Hm).
  - intros x y k k' Hp Kq Hk. refine (S2' 0 [] [] 0 0 ce_empty 0 x y k k' Hp _ Hk).
    unfold keepS in *. simpl. rewrite <- HKe. exact Kq.
  - rewrite HKe. exact HK2.
Qed.

Lemma impl_if : forall qc qa qb, Impl qc -> Impl qa -> Impl qb -> Impl (QIf qc qa qb).
Proof.
  intros qc qa qb IHc IHa IHb. impl_intro.
  destruct (comp_if_inv _ _ _ _ _ _ _ _ Hc) as (cc & n1 & ca & n2 & cb & Ec & Ea & Eb & Hcq). cbv zeta in *. clear Hc.
  set (pcc := pc + length (if_pre cc)) in *. set (e := pcc + 1 + length ca + 1) in *.
  pose proof (comp_mono _ _ _ _ _ _ Ec) as M1. pose proof (comp_mono _ _ _ _ _ _ Ea) as M2.
  pose proof (comp_mono _ _ _ _ _ _ Eb) as M3.
  assert (Hkl : forall i, kept ce i -> i < nv) by (intros; eapply kept_lt; eauto).
  pose proof (conj S1 S2) as HS. destruct (stable_sub _ _ _ _ _ _ _ _ _ HS) as [S1' S2'].
  assert (HJ0 : Jstd ce rho n0 nv nv' P vs n) by (split; auto).
  cbn [Den.den].
  destruct Hcq as [(x & y & -> & -> & ->)| ->].
  - (* constant results: nop ... jumpifnot; push x; jump; push y *)
    change (Inop :: tl (if_pre cc) ++ [Ijumpifnot e; Ipush x; Ijump (e + 1); Ipush y])
      with ((Inop :: tl (if_pre cc)) ++ [Ijumpifnot e; Ipush x; Ijump (e + 1); Ipush y]) in *.
    destruct (code_at_app _ _ _ _ Hat) as [Hpre Hat2].
    assert (Elen : pc + length (Inop :: tl (if_pre cc)) = pcc).
    { unfold pcc. rewrite (if_pre_cons cc) at 2. reflexivity. }
    rewrite Elen in Hat2. uncons Hat2 Aj. uncons Hat2 Ax. uncons Hat2 Ajmp. uncons Hat2 Ay.
    assert (Epc : pc + length ((Inop :: tl (if_pre cc)) ++ [Ijumpifnot e; Ipush x; Ijump (e + 1); Ipush y]) = e + 1).
    { rewrite app_length, Nat.add_assoc, Elen. unfold e. simpl. lia. }
    assert (Ee : e = S (S (S pcc))) by (unfold e; simpl; lia).
    subst c. rewrite Epc in *.
    pose proof (if_cond qc IHc ce pc nv cc n1 Ec Inop Hpre rho v st st fk vs n n0) as HA. cbv zeta in HA.
    assert (A0 : at_ pc Inop) by (destruct (code_at_cons _ _ _ _ Hpre); auto).
    specialize (HA (fun f vs n => st_nop nt code rpc pc _ f vs n A0) HE Hn ltac:(lia)). fold pcc in HA.
    rewrite (comp_const1 nt _ _ _ _ _ _ Ea), (comp_const1 nt _ _ _ _ _ _ Eb).
    refine (bind_std (fun w => if truthy w then ([x], None) else ([y], None))
              pcc st nv n1 (e + 1) st fk nv nv' K ce n0 rho P (fun _ => False) ce HS (le_n _) ltac:(lia)
              Hkl HK1 HK2 _ eq_refl _ _ _ HA HJ0).
    + intros i [].
    + intros w fk' vs' n' Hj.
      eapply G_pre; [one st_jumpifnot; apply steps_refl|apply chg_refl|simpl; lia|].
      destruct (truthy w); cbn [fst snd].
      * eapply G_single; [simpl g_pc; simpl g_st; simpl g_base; one st_push; one st_jump; apply steps_refl
                         |apply chg_refl|simpl; lia|].
        intros vs2 n2' Kp L2. refine (Jstd_stable_cx _ _ _ _ _ _ _ K S1' S2' HK2 _ _ _ _ _ Hj Kp L2); reflexivity.
      * eapply G_single; [simpl g_pc; simpl g_st; simpl g_base; rewrite Ee in *; one st_push;
                          replace (S (S (S (S pcc)))) with (S (S (S pcc)) + 1) by lia; apply steps_refl
                         |apply chg_refl|simpl; lia|].
        intros vs2 n2' Kp L2. refine (Jstd_stable_cx _ _ _ _ _ _ _ K S1' S2' HK2 _ _ _ _ _ Hj Kp L2); reflexivity.
  - (* general *)
    destruct (code_at_app _ _ _ _ Hat) as [Hpre Hat2]. fold pcc in Hat2.
    uncons Hat2 Aj. destruct (code_at_app _ _ _ _ Hat2) as [Hata Hat3]. uncons Hat3 Ajmp.
    replace (S (S pcc + length ca)) with e in Hat3 by (unfold e; lia). rename Hat3 into Hatb.
    assert (Epc : pc + length (if_pre cc ++ Ijumpifnot e :: ca ++ Ijump (e + length cb) :: cb) = e + length cb).
    { rewrite app_length. simpl. rewrite app_length. simpl. unfold e, pcc. lia. }
    subst c. rewrite Epc in *.
    rewrite (if_pre_cons cc) in Hpre.
    pose proof (if_cond qc IHc ce pc nv cc n1 Ec Idup Hpre rho v st (SV v :: st) fk vs n n0) as HA. cbv zeta in HA.
    assert (A0 : at_ pc Idup) by (destruct (code_at_cons _ _ _ _ Hpre); auto).
    specialize (HA (fun f vs n => st_dup nt code rpc pc _ _ f vs n A0) HE Hn ltac:(lia)). fold pcc in HA.
    refine (bind_std (fun w => if truthy w then den qa rho v else den qb rho v)
              pcc (SV v :: st) nv n1 (e + length cb) st fk nv nv' K ce n0 rho P (fun i => n1 <= i < nv') ce
              HS (le_n _) ltac:(lia) Hkl HK1 HK2 _ eq_refl _ _ _ HA HJ0).
    + intros i Hi. lia.
    + intros w fk' vs' n' Hj. pose proof Hj as (E' & Hn' & Hl' & Hp').
      eapply G_pre; [one st_jumpifnot; apply steps_refl|apply chg_refl|simpl; lia|].
      destruct (truthy w).
      * (* then-branch, followed by the jump over the else-branch *)
        set (cx := {| g_pc := S pcc + length ca; g_st := st; g_base := fk' ++ fk; g_own := fun i => n1 <= i < nv';
                      g_keep := K; g_ce := ce; g_n0 := n0 |}).
        assert (HB : G cx (fst (den qa rho v)) (Tend cx (snd (den qa rho v)) (Jstd ce rho n0 nv nv' P))
                       (N (S pcc) (SV v :: st) (fk' ++ fk) vs' n')).
        { apply (impl_body qa IHa ce (S pcc) n1 ca n2 Ea Hata cx rho v vs' n' (Jstd ce rho n0 nv nv' P)); simpl; auto; try lia.
          - intros; apply HK1; lia.
          - eapply envOK_nv; eauto.
          - intros p q m m' Hq C Hm.
            refine (Jstd_chg _ _ _ _ _ _ _ _ _ _ _ (fun x y k k' => S1' _ x y k k' _) _ Hq C Hm); simpl; intros; lia.
          - intros p q m m' Hq C Hm. refine (Jstd_stable_cx cx _ _ _ _ _ _ K S1' S2' HK2 _ _ _ _ _ Hq C Hm); reflexivity. }
        eapply G_impl; [|eapply (G_exit nt code rpc (S pcc + length ca) (e + length cb)); [|exact HB]].
        -- intros s0. apply Tend_sub; auto.
        -- intros w' f vs2 n2'. one st_jump. apply steps_refl.
      * apply (impl_body qb IHb ce e n2 cb nv' Eb Hatb (cbody (ctx_of (e + length cb) st fk nv nv' K ce n0) (fun i => n1 <= i < nv') ce fk') rho v vs' n'
                 (Jstd ce rho n0 nv nv' P)); simpl; auto; try lia.
        -- intros; apply HK1; lia.
        -- eapply envOK_nv; eauto. lia.
        -- intros p q m m' Hq C Hm.
           refine (Jstd_chg _ _ _ _ _ _ _ _ _ _ _ (fun x y k k' => S1' _ x y k k' _) _ Hq C Hm); simpl; intros; lia.
        -- intros p q m m' Hq C Hm. refine (Jstd_stable_cx _ _ _ _ _ _ _ K S1' S2' HK2 _ _ _ _ _ Hq C Hm); reflexivity.
Qed.

Lemma Jstd_update : forall ce rho n0 nv hi (P : list sv -> nat -> Prop) vs n k x vs',
  (forall (O : nat -> Prop) x y k k', (forall i, O i -> nv <= i < hi) -> P x k -> chg O x y -> k <= k' -> P y k') ->
  Jstd ce rho n0 nv hi P vs n -> update vs k x = Some vs' -> nv <= k < hi -> Jstd ce rho n0 nv hi P vs' n.
Proof.
  intros ce rho n0 nv hi P vs n k x vs' S1' Hj U Hk.
  assert (C : chg (fun i => i = k) vs vs') by (eapply chg_update; eauto).
  refine (Jstd_chg _ _ _ _ _ _ _ _ _ _ _ (fun x y k k' => S1' _ x y k k' _) _ Hj C (le_n _)); simpl; intros; lia.
Qed.

(* the body of a binding construct: store the value in a fresh slot, then run q with the variable visible *)
Lemma bound_body : forall q, Impl q -> forall ce x k pcq cq nvq', comp q (add_var ce x k) pcq (S k) = Some (cq, nvq') -> code_at pcq cq ->
  forall rho n0 nv hi (P : list sv -> nat -> Prop) K cx w u vs n,
    g_pc cx = pcq + length cq -> g_ce cx = ce -> g_keep cx = K -> g_n0 cx = n0 ->
    (forall i, k <= i < nvq' -> g_own cx i) ->
    nv <= k -> nvq' <= hi ->
    (forall i, nv <= i < hi -> K i) -> (forall i, kept ce i -> K i) ->
    (forall (O : nat -> Prop) x y k k', (forall i, O i -> nv <= i < hi) -> P x k -> chg O x y -> k <= k' -> P y k') ->
    (forall pc'' st' fk' lo hi ce' n0' x y k k', P x k -> keepS (ctx_of pc'' st' fk' lo hi K ce' n0') x y -> k <= k' -> P y k') ->
    Jstd ce rho n0 nv hi P vs n -> nth_error vs k = Some (SV w) ->
    G cx (fst (den q ((x, w) :: rho) u)) (Tend cx (snd (den q ((x, w) :: rho) u)) (Jstd ce rho n0 nv hi P))
      (N pcq (SV u :: g_st cx) (g_base cx) vs n).
Proof.
  intros q IH ce x k pcq cq nvq' Ec Hat rho n0 nv hi P K cx w u vs n Hpc Hce HKe Hn0 Hown Hk Hhi HK1 HK2 S1' S2' Hj Hnth.
  pose proof (comp_mono _ _ _ _ _ _ Ec) as M. destruct Hj as (E & Hn & Hl & Hp).
  apply (impl_body q IH (add_var ce x k) pcq (S k) cq nvq' Ec Hat cx ((x, w) :: rho) u vs n (Jstd ce rho n0 nv hi P)); auto.
  - rewrite Hce. reflexivity.
  - intros; apply Hown; lia.
  - rewrite HKe. intros; apply HK1; lia.
  - rewrite HKe. intros i Hi. destruct (kept_add_var _ _ _ _ Hi) as [->|Hi']; [apply HK1; lia|auto].
  - rewrite Hn0. apply envOK_add_var; [eapply envOK_nv; eauto; lia|lia|auto].
  - rewrite Hn0; auto.
  - lia.
  - intros p q' m m' Hq C Hm.
    refine (Jstd_chg _ _ _ _ _ _ _ _ _ _ _ (fun x y k k' => S1' _ x y k k' _) _ Hq C Hm); simpl; intros; lia.
  - intros p q' m m' Hq C Hm. refine (Jstd_stable_cx cx _ _ _ _ _ _ K S1' S2' HK2 HKe _ _ _ _ Hq C Hm).
  - split; auto.
Qed.


Definition bind_pre (cs : list instr) (n1 : nat) : list instr :=
  match cs with
  | [] => [Idup; Inop; Istore (V n1)]
  | _ => Idup :: Iexpbegin :: cs ++ [Istore (V n1); Iexpend]
  end.

Lemma comp_bind_inv : forall qs x qb ce pc nv cq nv', comp (QBind qs x qb) ce pc nv = Some (cq, nv') ->
  exists cs n1 cb, comp qs ce (pc + 2) nv = Some (cs, n1) /\
    comp qb (add_var ce x n1) (pc + length (bind_pre cs n1)) (S n1) = Some (cb, nv') /\ cq = bind_pre cs n1 ++ cb.
Proof.
  intros qs x qb ce pc nv cq nv' Hc. simpl in Hc.
  destruct (comp qs ce (pc + 2) nv) as [[cs n1]|] eqn:Es; [|discriminate].
  change (match cs with [] => [Idup; Inop; Istore (V n1)] | _ :: _ => Idup :: Iexpbegin :: cs ++ [Istore (V n1); Iexpend] end)
    with (bind_pre cs n1) in Hc.
  destruct (comp qb (add_var ce x n1) (pc + length (bind_pre cs n1)) (S n1)) as [[cb n2]|] eqn:Eb; [|discriminate].
  inversion Hc; subst. eauto 6.
Qed.

Lemma impl_bind : forall qs x qb, Impl qs -> Impl qb -> Impl (QBind qs x qb).
Proof.
  intros qs x qb IHs IHb. impl_intro.
  destruct (comp_bind_inv _ _ _ _ _ _ _ _ Hc) as (cs & n1 & cb & Es & Eb & ->). clear Hc.
  pose proof (comp_mono _ _ _ _ _ _ Es) as M1. pose proof (comp_mono _ _ _ _ _ _ Eb) as M2.
  assert (Hkl : forall i, kept ce i -> i < nv) by (intros; eapply kept_lt; eauto).
  pose proof (conj S1 S2) as HS. destruct (stable_sub _ _ _ _ _ _ _ _ _ HS) as [S1' S2'].
  assert (HJ0 : Jstd ce rho n0 nv nv' P vs n) by (split; auto).
  cbn [Den.den].
  destruct (code_at_app _ _ _ _ Hat) as [Hpre Hatb].
  subst c. rewrite app_length, Nat.add_assoc in *.
  set (pcb := pc + length (bind_pre cs n1)) in *.
  destruct cs as [|i0 cs'].
  - (* the source emits no code: dup; nop; store x *)
    destruct (comp_nil _ _ _ _ _ Es) as [E1 ->]. unfold bind_pre in Hpre. simpl in pcb.
    uncons Hpre A0. uncons Hpre A1. uncons Hpre A2.
    rewrite (emptycode_den nt _ E1).
    refine (bind_std (fun w => den qb ((x, w) :: rho) v) (S (S pc)) (SV v :: st) nv nv (pcb + length cb) st fk nv nv' K ce n0 rho P
              (fun i => nv <= i < nv') ce HS (le_n _) ltac:(lia) Hkl HK1 HK2 _ eq_refl _ ([v], None)
              (N pc (SV v :: st) fk vs n) _ HJ0).
    + intros i Hi. lia.
    + intros w fk' vs' n' Hj. pose proof Hj as (E' & Hn' & Hl' & Hp').
      destruct (update_some vs' nv (SV w)) as [vs'' U]; [lia|].
      destruct (update_spec _ _ _ _ U) as (UL & UN & UO).
      eapply G_pre; [one st_store; apply steps_refl|eapply chg_update; [exact U|simpl; lia]|simpl; lia|].
      replace (S (S (S pc))) with pcb by (unfold pcb; lia).
      apply (bound_body qb IHb ce x nv pcb cb nv' Eb Hatb rho n0 nv nv' P K
               (cbody (ctx_of (pcb + length cb) st fk nv nv' K ce n0) (fun i => nv <= i < nv') ce fk') w v vs'' n');
        auto; try reflexivity.
      eapply Jstd_update; eauto.
    + cbn [fst snd]. eapply G_single; [one st_dup; one st_nop; apply steps_refl|apply chg_refl|simpl; lia|auto].
  - (* dup; expbegin; source; store x; expend *)
    remember (i0 :: cs') as cs eqn:Ecs.
    assert (Epre : bind_pre cs n1 = Idup :: Iexpbegin :: cs ++ [Istore (V n1); Iexpend]) by (subst cs; reflexivity).
    rewrite Epre in Hpre. uncons Hpre A0. uncons Hpre A1.
    destruct (code_at_app _ _ _ _ Hpre) as [Hats Hpre2]. uncons Hpre2 A2. uncons Hpre2 A3.
    replace (S (S pc)) with (pc + 2) in * by lia.
    assert (Epcb : pcb = S (S (pc + 2 + length cs))).
    { unfold pcb. rewrite Epre. simpl. rewrite app_length. simpl. lia. }
    pose proof (impl_inner qs IHs ce (pc + 2) nv cs n1 Es Hats rho v (SV v :: st) fk vs n n0 HE Hn ltac:(lia)) as HA.
    cbv zeta in HA.
    refine (bind_std (fun w => den qb ((x, w) :: rho) v) (pc + 2 + length cs) (SV v :: st) nv n1 (pcb + length cb) st fk nv nv' K ce n0 rho P
              (fun i => n1 <= i < nv') ce HS (le_n _) ltac:(lia) Hkl HK1 HK2 _ eq_refl _ (den qs rho v)
              (N pc (SV v :: st) fk vs n) _ HJ0).
    + intros i Hi. lia.
    + intros w fk' vs' n' Hj. pose proof Hj as (E' & Hn' & Hl' & Hp').
      destruct (update_some vs' n1 (SV w)) as [vs'' U]; [lia|].
      destruct (update_spec _ _ _ _ U) as (UL & UN & UO).
      eapply G_pre; [one st_store; one st_expend; apply steps_refl|eapply chg_update; [exact U|simpl; lia]|simpl; lia|].
      rewrite <- Epcb.
      apply (bound_body qb IHb ce x n1 pcb cb nv' Eb Hatb rho n0 nv nv' P K
               (cbody (ctx_of (pcb + length cb) st fk nv nv' K ce n0) (fun i => n1 <= i < nv') ce fk') w v vs'' n');
        auto; try reflexivity.
      eapply Jstd_update; eauto.
    + eapply G_pre; [one st_dup; one st_expbegin; apply steps_refl|apply chg_refl|simpl; lia|].
      replace (S (S pc)) with (pc + 2) by lia. exact HA.
Qed.

Lemma impl_label : forall l qb, Impl qb -> Impl (QLabel l qb).
Proof.
  intros l qb IHb. impl_intro. simpl in Hc. dcomp. inversion Hc; subst cq nv'. clear Hc. rename l0 into cb, n1 into nv'.
  pose proof (comp_mono _ _ _ _ _ _ Ec) as M1. uncons Hat A0.
  assert (Hkl : forall i, kept ce i -> i < nv) by (intros; eapply kept_lt; eauto).
  pose proof (conj S1 S2) as HS. destruct (stable_sub _ _ _ _ _ _ _ _ _ HS) as [S1' S2'].
  assert (HJ0 : Jstd ce rho n0 nv nv' P vs n) by (split; auto).
  assert (Epc : pc + length (Iforklabel (V nv) :: cb) = S pc + length cb) by (simpl; lia).
  subst c. rewrite Epc in *.
  set (c := ctx_of (S pc + length cb) st fk nv nv' K ce n0).
  destruct (update_some vs nv (SLbl n)) as [vs1 U]; [lia|].
  destruct (update_spec _ _ _ _ U) as (UL & UN & UO).
  set (fx := F rpc pc (SLbl n :: SV v :: st)).
  set (ceb := add_lbl ce l nv).
  set (cx := {| g_pc := S pc + length cb; g_st := st; g_base := fx :: fk; g_own := fun i => S nv <= i < nv';
                g_keep := K; g_ce := ceb; g_n0 := S n |}).
  set (Pb := fun a m => Jstd ce rho n0 nv nv' P a m /\ nth_error a nv = Some (SLbl n)).
  assert (HJ1 : Jstd ce rho n0 nv nv' P vs1 n) by (eapply Jstd_update; eauto; lia).
  assert (HB : G cx (fst (den qb rho v)) (Tend cx (snd (den qb rho v)) Pb) (N (S pc) (SV v :: st) (fx :: fk) vs1 (S n))).
  { apply (impl_body qb IHb ceb (S pc) (S nv) cb nv' Ec Hat cx rho v vs1 (S n) Pb); simpl; auto; try lia.
    - intros; apply HK1; lia.
    - intros i Hi. destruct (kept_add_lbl _ _ _ _ Hi) as [->|Hi']; [apply HK1; lia|auto].
    - destruct HJ1 as (E1 & _). apply envOK_add_lbl with (id := n); auto; try lia.
      apply envOK_n0 with (n0 := n0); [|lia]. eapply envOK_nv; eauto.
    - intros p q m m' [Hq Hq2] C Hm. split.
      + refine (Jstd_chg _ _ _ _ _ _ _ _ _ _ _ (fun x y k k' => S1' _ x y k k' _) _ Hq C Hm); simpl; intros; lia.
      + rewrite <- Hq2. symmetry. apply C. lia.
    - intros p q m m' [Hq Hq2] C Hm. split.
      + refine (Jstd_stable_cx cx _ _ _ _ _ _ K S1' S2' HK2 eq_refl _ _ _ _ Hq C Hm).
      + rewrite <- Hq2. symmetry. apply C. simpl. apply HK1. lia.
    - split; [|exact UN].
      refine (Jstd_chg _ _ _ _ _ _ (fun _ => False) _ _ _ _ (fun x y k k' => S1' _ x y k k' _) _ HJ1 (chg_refl _ _) _);
        simpl; intros; try lia; tauto. }
  eapply G_pre; [one st_forklabel; apply steps_refl|eapply chg_update; [exact U|simpl; lia]|simpl; lia|].
  assert (Htr : forall y vs' n', okerr n0 y -> steps (B (Some y) (fx :: fk) vs' n') (B (Some y) fk vs' n')).
  { intros y vs' n' Hy. one st_popfork. one bt_label.
    destruct y as [[| |m]|]; simpl; try apply steps_refl.
    simpl in Hy. destruct (Nat.eqb_spec m n); [lia|apply steps_refl]. }
  cbn [Den.den]. destruct (den qb rho v) as [ws fin]. cbn [fst snd] in HB.
  match goal with |- G _ (fst ?r) _ _ => assert (Hf : fst r = ws)
    by (destruct fin as [[e0|l']|]; [|destruct (N.eqb l l')|]; reflexivity); rewrite Hf end.
  refine (G_ctx nt code rpc cx c [fx] (fun _ _ => True) _ _ eq_refl eq_refl eq_refl _ _ _ _ _ _ _ _ _ I HB); auto.
  - simpl; intros; lia.
  - simpl; lia.
  - intros y vs' n' _ Hy. exists vs', n'. split; [apply Htr; auto|]. split; [apply chg_refl|lia].
  - intros s1 _ (e & vs4 & n4 & St4 & Ch4 & Le4 & HE4 & ((E4 & Hn4 & Hl4 & HP4) & Hlab)). simpl in St4, Ch4, HE4.
    assert (Ch4' : chg (g_own c) (vars_of s1) vs4) by (eapply chg_mono; [|exact Ch4]; simpl; intros; lia).
    destruct fin as [[e0|l']|]; cbn [fst snd] in *; simpl in HE4.
    + (* error *) subst e. exists (Some (VE (err_of e0))), vs4, n4.
      split; [eapply steps_trans; [exact St4|apply Htr; destruct e0; simpl; auto]|]. split; [exact Ch4'|]. split; [exact Le4|]. split; [reflexivity|exact HP4].
    + (* break *) destruct HE4 as (k & id & Hk & Hid & ->). simpl in Hk. rewrite N.eqb_sym in Hk.
      destruct (N.eqb l l') eqn:El; cbn [snd].
      * inversion Hk; subst k. rewrite Hlab in Hid. inversion Hid; subst id.
        exists None, vs4, n4. split; [|split; [exact Ch4'|split; [exact Le4|split; [reflexivity|exact HP4]]]].
        eapply steps_trans; [exact St4|]. one st_popfork. eapply steps_step; [eapply bt_label; eauto|]. cbv beta iota. rewrite Nat.eqb_refl. apply steps_refl.
      * destruct E4 as [_ El4]. destruct (El4 _ _ Hk) as (_ & id' & Hid' & Hlt). rewrite Hid in Hid'. inversion Hid'; subst id'.
        exists (Some (VE (EB id))), vs4, n4. split; [eapply steps_trans; [exact St4|apply Htr; simpl; lia]|].
        split; [exact Ch4'|]. split; [exact Le4|]. split; [|exact HP4]. simpl. exists k, id. auto.
    + (* normal end *) subst e. exists None, vs4, n4.
      split; [|split; [exact Ch4'|split; [exact Le4|split; [reflexivity|exact HP4]]]].
      eapply steps_trans; [exact St4|]. one st_popfork. one bt_label. apply steps_refl.
Qed.

(* the exit of a try body: forktryend pushes a fork per output, then jumps to the end *)
Lemma G_tryend : forall pe pend st fb fk (O K : nat -> Prop) ce n0 (T T' : state -> Prop),
  at_ pe Iforktryend -> at_ (S pe) (Ijump pend) ->
  (forall x vs n, steps (B (Some (VT x)) (fb :: fk) vs n) (B (Some x) fk vs n)) ->
  (forall s, T s -> T' s) ->
  forall ws s,
  G {| g_pc := pe; g_st := st; g_base := fb :: fk; g_own := O; g_keep := K; g_ce := ce; g_n0 := n0 |} ws T s ->
  G {| g_pc := pend; g_st := st; g_base := fk; g_own := O; g_keep := K; g_ce := ce; g_n0 := n0 |} ws T' s.
Proof.
  intros pe pend st fb fk O K ce n0 T T' A1 A2 Hun HT. induction ws; intros s HG.
  - simpl in *. destruct HG as (s' & St & Ch & Le & H). exists s'. auto.
  - simpl in HG. destruct HG as (fk' & vs3 & n3 & St & Ch & Le & R).
    eapply (G_cons nt code rpc _ a ws _ _ (F rpc pe (SV a :: st) :: fk' ++ [fb]) vs3 n3); simpl.
    + eapply steps_trans; [exact St|]. one st_forktryend. one st_jump. rewrite <- app_assoc. apply steps_refl.
    + exact Ch.
    + exact Le.
    + intros vs2 n2 Kp L2. destruct (R vs2 n2 Kp L2) as [R1 R2]. rewrite <- app_assoc. simpl. split.
      * eapply G_pre; [one st_popfork; one bt_tryend; apply steps_refl|apply chg_refl|simpl; lia|].
        apply IHws. exact R1.
      * intros x Hx. destruct (R2 (VT x) I) as (vs4 & n4 & St4 & Ch4 & Le4). exists vs4, n4.
        split; [|auto]. one st_popfork. one bt_tryend. eapply steps_trans; [exact St4|apply Hun].
Qed.

Lemma impl_try : forall qa h, Impl qa -> Popt Impl h -> Impl (QTry qa h).
Proof.
  intros qa h IHa IHh. impl_intro. simpl in Hc.
  destruct (comp qa ce (S pc) nv) as [[ca n1]|] eqn:Ea; [|discriminate].
  pose proof (comp_mono _ _ _ _ _ _ Ea) as M1.
  assert (Hkl : forall i, kept ce i -> i < nv) by (intros; eapply kept_lt; eauto).
  pose proof (conj S1 S2) as HS. destruct (stable_sub _ _ _ _ _ _ _ _ _ HS) as [S1' S2'].
  set (hp := pc + 1 + length ca + 2) in *.
  set (fb := F rpc pc (SV v :: st)).
  (* shape of the code and of the handler *)
  assert (Hsh : exists ch, cq = Iforktrybegin hp :: ca ++ Iforktryend :: Ijump (hp + length ch) :: ch /\ n1 <= nv' /\
            match h with
            | Some h' => comp h' ce hp n1 = Some (ch, nv')
            | None => ch = [Ibacktrack] /\ nv' = n1
            end).
  { destruct h as [h'|].
    - destruct (comp h' ce hp n1) as [[ch n2]|] eqn:Eh; [|discriminate]. inversion Hc; subst.
      exists ch. split; [auto|]. split; [eapply comp_mono; eauto|auto].
    - inversion Hc; subst. exists [Ibacktrack]. auto. }
  destruct Hsh as (ch & -> & M2 & Hh). clear Hc.
  uncons Hat A0. destruct (code_at_app _ _ _ _ Hat) as [Hata Hat2]. uncons Hat2 A1. uncons Hat2 A2.
  replace (S (S (S pc + length ca))) with hp in Hat2 by (unfold hp; lia). rename Hat2 into Hath.
  assert (Epc : pc + length (Iforktrybegin hp :: ca ++ Iforktryend :: Ijump (hp + length ch) :: ch) = hp + length ch).
  { simpl. rewrite app_length. simpl. unfold hp. lia. }
  subst c. rewrite Epc in *.
  set (c := ctx_of (hp + length ch) st fk nv nv' K ce n0).
  set (Pa := Jstd ce rho n0 nv nv' P).
  assert (HA : G (ctx_of (S pc + length ca) st (fb :: fk) nv n1 K ce n0) (fst (den qa rho v))
                 (Tend (ctx_of (S pc + length ca) st (fb :: fk) nv n1 K ce n0) (snd (den qa rho v)) Pa)
                 (N (S pc) (SV v :: st) (fb :: fk) vs n)).
  { apply (IHa ce (S pc) nv ca n1 Ea Hata rho v st (fb :: fk) vs n n0 K Pa); auto; try lia.
    - intros; apply HK1; lia.
    - apply Jstd_stable; auto.
    - split; auto. }
  assert (Hun : forall x vs' n', steps (B (Some (VT x)) (fb :: fk) vs' n') (B (Some x) fk vs' n')).
  { intros. one st_popfork. one bt_trybegin_vt. apply steps_refl. }
  eapply G_pre; [one st_forktrybegin; apply steps_refl|apply chg_refl|simpl; lia|].
  (* what the try construct does when the body has been exhausted *)
  set (Tfin := fun s1 : state =>
     match snd (den qa rho v) with
     | Some (XErr e0) =>
         match h with
         | Some h' => G c (fst (den h' rho (errval e0))) (Tend c (snd (den h' rho (errval e0))) P) s1
         | None => Tend c None P s1
         end
     | fin => Tend c fin P s1
     end).
  assert (HT : forall s1, Tend (ctx_of (S pc + length ca) st (fb :: fk) nv n1 K ce n0) (snd (den qa rho v)) Pa s1 -> Tfin s1).
  { intros s1 (e & vs4 & n4 & St4 & Ch4 & Le4 & HE4 & (E4 & Hn4 & Hl4 & HP4)). simpl in St4, Ch4, HE4. unfold Tfin.
    assert (Ch4' : chg (g_own c) (vars_of s1) vs4) by (eapply chg_mono; [|exact Ch4]; simpl; intros; lia).
    destruct (snd (den qa rho v)) as [[e0|l']|]; simpl in HE4.
    - subst e. destruct h as [h'|].
      + eapply G_pre; [eapply steps_trans; [exact St4|one st_popfork; one bt_trybegin_catch; apply steps_refl]|exact Ch4'|exact Le4|].
        pose proof (IHh ce hp n1 ch nv' Hh Hath rho (errval e0) st fk vs4 n4 n0 K P) as HB. cbv zeta in HB.
        refine (G_sub nt code rpc (ctx_of (hp + length ch) st fk n1 nv' K ce n0) c _ _ eq_refl eq_refl eq_refl _ _ (le_n _) _ _ _ (HB _ _ _ _ _ _ _)); auto.
        * simpl; intros; lia.
        * intros s2. apply Tend_sub; auto. simpl; intros; lia.
        * eapply envOK_nv; eauto.
        * intros; apply HK1; lia.
        * split; [intros p q m m' Hp C Hm; eapply S1'; eauto; simpl; intros; lia|intros p q m m' Hp C Hm; eapply S2'; eauto].
      + destruct Hh as [-> ->]. uncons Hath A3.
        exists None, vs4, n4. split; [|split; [exact Ch4'|split; [exact Le4|split; [reflexivity|exact HP4]]]].
        eapply steps_trans; [exact St4|]. one st_popfork. one bt_trybegin_catch. one st_backtrack. apply steps_refl.
    - destruct HE4 as (k & id & Hk & Hid & ->).
      exists (Some (VE (EB id))), vs4, n4. split; [|split; [exact Ch4'|split; [exact Le4|split; [|exact HP4]]]].
      + eapply steps_trans; [exact St4|]. one st_popfork. one bt_trybegin_brk. apply steps_refl.
      + simpl. exists k, id. auto.
    - subst e. exists None, vs4, n4. split; [|split; [exact Ch4'|split; [exact Le4|split; [reflexivity|exact HP4]]]].
      eapply steps_trans; [exact St4|]. one st_popfork. one bt_trybegin_none. apply steps_refl. }
  pose proof (G_tryend (S pc + length ca) (hp + length ch) st fb fk _ K ce n0 _ Tfin A1 A2 Hun HT _ _ HA) as HG.
  assert (HG' : G c (fst (den qa rho v)) Tfin (N (S pc) (SV v :: st) (fb :: fk) vs n)).
  { refine (G_sub nt code rpc (ctx_of (hp + length ch) st fk nv n1 K ce n0) c _ _ eq_refl eq_refl eq_refl _ _ (le_n _) (fun s H => H) _ _ HG); auto.
    simpl; intros; lia. }
  clear HG HA. unfold Tfin in HG'. cbn [Den.den].
  destruct (den qa rho v) as [ws [[e0|l']|]]; cbn [fst snd] in *; try exact HG'.
  destruct h as [h'|]; [|exact HG'].
  destruct (den h' rho (errval e0)) as [wh fh] eqn:Edh. cbn [seq fst snd] in *. apply G_app. exact HG'.
Qed.

Lemma foldgen_collect : forall ws l0,
  foldgen (list jv) (fun l w => ([], None, l ++ [w])) ws l0 = ([], None, l0 ++ ws).
Proof.
  induction ws; intros l0; simpl. - rewrite app_nil_r. auto.
  - rewrite IHws. rewrite <- app_assoc. reflexivity.
Qed.

Lemma impl_array : forall q, Impl q -> Impl (QArray q).
Proof.
  intros q IHq. impl_intro. simpl in Hc.
  destruct (comp q ce (pc + 3) (S nv)) as [[cq' n1]|] eqn:Eq; [|discriminate].
  pose proof (comp_mono _ _ _ _ _ _ Eq) as M1.
  assert (Hkl : forall i, kept ce i -> i < nv) by (intros; eapply kept_lt; eauto).
  pose proof (conj S1 S2) as HS. destruct (stable_sub _ _ _ _ _ _ _ _ _ HS) as [S1' S2'].
  cbn [Den.den].
  destruct (array_fold q) as [cs|] eqn:Ef.
  - (* folded to a constant *)
    inversion Hc; subst cq nv'. clear Hc. uncons Hat A0.
    assert (Ha : acl q = Some cs) by (destruct q; simpl in Ef; auto; discriminate).
    rewrite (acl_sound nt _ _ Ha). cbn [fst snd].
    eapply G_single; [subst c; simpl; replace (pc + 1) with (S pc) by lia; one st_const; apply steps_refl
                     |apply chg_refl|simpl; lia|].
    intros; eapply S2; eauto.
  - inversion Hc; subst cq nv'. clear Hc.
    uncons Hat A0. uncons Hat A1. uncons Hat A2. replace (S (S (S pc))) with (pc + 3) in Hat by lia.
    destruct (code_at_app _ _ _ _ Hat) as [Hatq Hat2]. uncons Hat2 A3. uncons Hat2 A4. uncons Hat2 A5. uncons Hat2 A6.
    set (pa := pc + 3 + length cq') in *.
    assert (Epc : pc + length (Ipush (VArr []) :: Istore (V nv) :: Ifork (pa + 2) :: cq' ++
                    [Iappend (V nv); Ibacktrack; Ipop; Iload (V nv)]) = pa + 4).
    { simpl. rewrite app_length. simpl. unfold pa. lia. }
    subst c. rewrite Epc in *.
    set (c := ctx_of (pa + 4) st fk nv n1 K ce n0).
    destruct (update_some vs nv (SV (VArr []))) as [vs1 U]; [lia|].
    destruct (update_spec _ _ _ _ U) as (UL & UN & UO).
    set (fx := F rpc (S (S pc)) (SV v :: st)).
    assert (HJ0 : Jstd ce rho n0 nv n1 P vs n) by (split; auto).
    assert (HJ1 : Jstd ce rho n0 nv n1 P vs1 n) by (eapply Jstd_update; [exact S1'|exact HJ0|exact U|lia]).
    eapply G_pre; [one st_push; one st_store; one st_fork; apply steps_refl
                  |eapply chg_update; [exact U|simpl; lia]|simpl; lia|].
    replace (S (S (S pc))) with (pc + 3) by lia.
    pose proof (impl_inner q IHq ce (pc + 3) (S nv) cq' n1 Eq Hatq rho v st (fx :: fk) vs1 n n0) as HA. cbv zeta in HA.
    destruct HJ1 as (E1 & Hn1 & Hl1 & HP1).
    specialize (HA ltac:(eapply envOK_nv; eauto) Hn ltac:(lia)). fold pa in HA.
    set (fb := fun (l : list jv) (w : jv) => (@nil jv, @None exn, l ++ [w])).
    set (Jg := fun (l : list jv) (a : list sv) => nth_error a nv = Some (SV (VArr l))).
    pose proof (fold_std pa st (S nv) n1 0 st (fx :: fk) nv n1 K ce n0 rho P (list jv) Jg fb (fun i => i = nv) ce
                  HS ltac:(lia) (le_n _) Hkl HK1 HK2) as HF. cbv zeta in HF.
    destruct (den q rho v) as [ws fin] eqn:Ed. cbn [fst snd] in HA.
    assert (HG : G (ctx_of 0 st (fx :: fk) nv n1 K ce n0) []
                   (Tend (ctx_of 0 st (fx :: fk) nv n1 K ce n0) fin (fun a m => Jstd ce rho n0 nv n1 P a m /\ Jg ws a))
                   (N (pc + 3) (SV v :: st) (fx :: fk) vs1 n)).
    { refine (HF _ eq_refl _ _ ws [] _ fin [] None ws HA _ (foldgen_collect ws [])).
      - intros i ->. lia.
      - intros g a b Hg C. unfold Jg in *. rewrite <- Hg. symmetry. apply C. lia.
      - intros w g fk' vs' n' os' x' g' [Hj Hg] Efb. unfold fb in Efb. inversion Efb; subst os' x' g'.
        pose proof Hj as (E' & Hn' & Hl' & Hp').
        destruct (update_some vs' nv (SV (VArr (g ++ [w])))) as [vs'' U']; [lia|].
        destruct (update_spec _ _ _ _ U') as (UL' & UN' & UO').
        eapply G_end; [one st_append; one st_backtrack; apply steps_refl
                      |eapply chg_update; [exact U'|reflexivity]|simpl; lia|reflexivity|].
        split; [eapply Jstd_update; eauto; lia|exact UN'].
      - split; [split; auto|exact UN]. }
    simpl in HG. destruct HG as (s' & St & Ch & Le & (e & vs4 & n4 & St4 & Ch4 & Le4 & HE4 & ((E4 & Hn4 & Hl4 & HP4) & Hg4))).
    simpl in St4, Ch4, HE4.
    assert (Ch' : chg (g_own c) vs1 vs4) by (eapply chg_trans; eauto).
    destruct fin as [x|]; simpl in HE4; cbn [fst snd].
    + destruct (encR_some _ _ _ _ HE4) as (y & ->).
      eapply G_end; [eapply steps_trans; [exact St|eapply steps_trans; [exact St4|eapply fork_transparent; eauto]]
                    |exact Ch'|simpl; simpl in Le; lia|exact HE4|exact HP4].
    + subst e.
      eapply G_single with (vs3 := vs4) (n3 := n4); [eapply steps_trans; [exact St|eapply steps_trans; [exact St4|]]|exact Ch'|simpl; simpl in Le; lia|].
      * one st_popfork. one bt_fork_none. replace (pa + 2) with (S (S pa)) by lia. one st_pop. one st_load.
        replace (S (S (S (S pa)))) with (pa + 4) by lia. apply steps_refl.
      * intros; eapply S2'; eauto.
Qed.

Lemma foldgen_alt : forall ws g,
  foldgen bool (fun g w => if truthy w then ([w], None, true) else ([], None, g)) ws g =
  (filter truthy ws, None, match filter truthy ws with [] => g | _ => true end).
Proof.
  induction ws; intros g; simpl; auto.
  destruct (truthy a); rewrite IHws; simpl; auto.
  destruct (filter truthy ws); auto.
Qed.

Lemma impl_alt : forall qa qb, Impl qa -> Impl qb -> Impl (QAlt qa qb).
Proof.
  intros qa qb IHa IHb. impl_intro. simpl in Hc. dcomp. inversion Hc; subst cq nv'. clear Hc.
  rename l into ca, l0 into cb.
  pose proof (comp_mono _ _ _ _ _ _ Ec) as M1. pose proof (comp_mono _ _ _ _ _ _ Ec0) as M2.
  assert (Hkl : forall i, kept ce i -> i < nv) by (intros; eapply kept_lt; eauto).
  pose proof (conj S1 S2) as HS. destruct (stable_sub _ _ _ _ _ _ _ _ _ HS) as [S1' S2'].
  assert (HJ0 : Jstd ce rho n0 nv n2 P vs n) by (split; auto).
  set (p1 := pc + 3 + length ca) in *.
  uncons Hat A0. uncons Hat A1. uncons Hat A2. replace (S (S (S pc))) with (pc + 3) in Hat by lia.
  destruct (code_at_app _ _ _ _ Hat) as [Hata Hat2]. fold p1 in Hat2.
  change (Idup :: Ijumpifnot (p1 + 5) :: Ipush (VBool true) :: Istore (V nv) :: Ijump (p1 + 11 + length cb) ::
          Ipop :: Ibacktrack :: Iload (V nv) :: Ijumpifnot (p1 + 11) :: Ibacktrack :: Ipop :: cb)
    with ([Idup; Ijumpifnot (p1 + 5); Ipush (VBool true); Istore (V nv); Ijump (p1 + 11 + length cb);
           Ipop; Ibacktrack; Iload (V nv); Ijumpifnot (p1 + 11); Ibacktrack; Ipop] ++ cb) in Hat2.
  destruct (code_at_app _ _ _ _ Hat2) as [Hmid Hatb]. simpl length in Hatb.
  uncons Hmid B0. uncons Hmid B1. uncons Hmid B2. uncons Hmid B3. uncons Hmid B4. uncons Hmid B5.
  uncons Hmid B6. uncons Hmid B7. uncons Hmid B8. uncons Hmid B9.
  subst c.
  match goal with |- context [ctx_of (pc + length ?l)] =>
    assert (Epc : pc + length l = p1 + 11 + length cb)
      by (simpl; repeat (rewrite app_length; simpl); unfold p1; lia); rewrite Epc in * end.
  set (pend := p1 + 11 + length cb) in *.
  set (c := ctx_of pend st fk nv n2 K ce n0).
  destruct (update_some vs nv (SV (VBool false))) as [vs1 U]; [lia|].
  destruct (update_spec _ _ _ _ U) as (UL & UN & UO).
  set (fx := F rpc (S (S pc)) (SV v :: st)).
  assert (HJ1 : Jstd ce rho n0 nv n2 P vs1 n) by (eapply Jstd_update; [exact S1'|exact HJ0|exact U|lia]).
  eapply G_pre; [one st_push; one st_store; one st_fork; apply steps_refl
                |eapply chg_update; [exact U|simpl; lia]|simpl; lia|].
  replace (S (S (S pc))) with (pc + 3) by lia.
  pose proof (impl_inner qa IHa ce (pc + 3) (S nv) ca n1 Ec Hata rho v st (fx :: fk) vs1 n n0) as HA. cbv zeta in HA.
  pose proof HJ1 as (E1 & Hn1 & Hl1 & HP1).
  specialize (HA ltac:(eapply envOK_nv; eauto) Hn ltac:(lia)). fold p1 in HA.
  set (fb := fun (g : bool) (w : jv) => if truthy w then ([w], @None exn, true) else ([], None, g)).
  set (Jg := fun (g : bool) (a : list sv) => nth_error a nv = Some (SV (VBool g))).
  pose proof (fold_std p1 st (S nv) n1 pend st (fx :: fk) nv n2 K ce n0 rho P bool Jg fb (fun i => i = nv) ce
                HS ltac:(lia) ltac:(lia) Hkl HK1 HK2) as HF. cbv zeta in HF.
  destruct (den qa rho v) as [ws fin] eqn:Ed. cbn [fst snd] in HA.
  set (ts := filter truthy ws).
  set (gf := match ts with [] => false | _ => true end).
  assert (HG : G (ctx_of pend st (fx :: fk) nv n2 K ce n0) ts
                 (Tend (ctx_of pend st (fx :: fk) nv n2 K ce n0) fin (fun a m => Jstd ce rho n0 nv n2 P a m /\ Jg gf a))
                 (N (pc + 3) (SV v :: st) (fx :: fk) vs1 n)).
  { refine (HF _ eq_refl _ _ ws false _ fin ts None gf HA _ (foldgen_alt ws false)).
    - intros i ->. lia.
    - intros g a b Hg C. unfold Jg in *. rewrite <- Hg. symmetry. apply C. lia.
    - intros w g fk' vs' n' os' x' g' [Hj Hg] Efb. unfold fb in Efb. pose proof Hj as (E' & Hn' & Hl' & Hp').
      eapply G_pre; [one st_dup; one st_jumpifnot; apply steps_refl|apply chg_refl|simpl; lia|].
      destruct (truthy w); inversion Efb; subst os' x' g'.
      + destruct (update_some vs' nv (SV (VBool true))) as [vs'' U']; [lia|].
        destruct (update_spec _ _ _ _ U') as (UL' & UN' & UO').
        eapply G_single with (vs3 := vs'') (n3 := n');
          [one st_push; one st_store; one st_jump; apply steps_refl|eapply chg_update; [exact U'|reflexivity]|simpl; lia|].
        intros vs2 n2' Kp L2. split.
        * assert (Hj'' : Jstd ce rho n0 nv n2 P vs'' n') by (eapply Jstd_update; [exact S1'|exact Hj|exact U'|lia]).
          refine (Jstd_stable_cx _ _ _ _ _ _ _ K S1' S2' HK2 _ _ _ _ _ Hj'' Kp L2). reflexivity.
        * unfold Jg. rewrite <- UN'. symmetry. apply Kp. simpl. apply HK1. lia.
      + eapply G_end; [replace (p1 + 5) with (S (S (S (S (S p1))))) by lia; one st_pop; one st_backtrack; apply steps_refl
                      |apply chg_refl|simpl; lia|reflexivity|split; auto].
    - split; [exact HJ1|exact UN]. }
  (* from the base with the fork of // to the base below it *)
  cbn [Den.den]. rewrite Ed. fold ts.
  set (Tfin := fun s1 : state =>
     match fin with
     | Some x => Tend c (Some x) P s1
     | None => match ts with
               | [] => G c (fst (den qb rho v)) (Tend c (snd (den qb rho v)) P) s1
               | _ => Tend c None P s1
               end
     end).
  assert (HG2 : G c ts Tfin (N (pc + 3) (SV v :: st) (fx :: fk) vs1 n)).
  { refine (G_ctx nt code rpc (ctx_of pend st (fx :: fk) nv n2 K ce n0) c [fx] (fun _ _ => True) _ _
              eq_refl eq_refl eq_refl _ _ (le_n _) _ _ _ _ _ _ I HG); auto.
    - intros x vs' n' _ _. exists vs', n'. split; [eapply fork_transparent; eauto|]. split; [apply chg_refl|lia].
    - intros s1 _ (e & vs4 & n4 & St4 & Ch4 & Le4 & HE4 & ((E4 & Hn4 & Hl4 & HP4) & Hg4)). simpl in St4, Ch4, HE4.
      unfold Tfin. destruct fin as [x|]; simpl in HE4.
      + destruct (encR_some _ _ _ _ HE4) as (y & ->).
        exists (Some y), vs4, n4. split; [eapply steps_trans; [exact St4|eapply fork_transparent; eauto]|].
        split; [exact Ch4|]. split; [exact Le4|]. split; [exact HE4|exact HP4].
      + subst e. unfold Jg, gf in Hg4.
        assert (StL : forall g, nth_error vs4 nv = Some (SV (VBool g)) ->
                  steps s1 (N (if g then S (S (S (S (S (S (S (S (S p1)))))))) else p1 + 11) (SV v :: st) fk vs4 n4)).
        { intros g Hg. eapply steps_trans; [exact St4|]. one st_popfork. one bt_fork_none.
          replace (p1 + 7) with (S (S (S (S (S (S (S p1))))))) by lia. one st_load.
          eapply steps_step; [eapply (st_jumpifnot nt code rpc _ _ (VBool g)); eauto|]. destruct g; apply steps_refl. }
        destruct ts as [|t0 ts'].
        * eapply G_pre; [exact (StL false Hg4)|exact Ch4|exact Le4|].
          replace (S (S (S (S (S (S (S (S (S (S (S p1))))))))))) with (p1 + 11) in Hatb by lia.
          pose proof (IHb ce (p1 + 11) n1 cb n2 Ec0 Hatb rho v st fk vs4 n4 n0 K P) as HB. cbv zeta in HB.
          refine (G_sub nt code rpc (ctx_of pend st fk n1 n2 K ce n0) c _ _ eq_refl eq_refl eq_refl _ _ (le_n _) _ _ _ (HB _ _ _ _ _ _ _)); auto.
          -- simpl; intros; lia.
          -- intros s2. apply Tend_sub; auto. simpl; intros; lia.
          -- eapply envOK_nv; eauto. lia.
          -- intros; apply HK1; lia.
          -- split; [intros p q m m' Hp C Hm; eapply S1'; eauto; simpl; intros; lia|intros p q m m' Hp C Hm; eapply S2'; eauto].
        * exists None, vs4, n4. split; [|split; [exact Ch4|split; [exact Le4|split; [reflexivity|exact HP4]]]].
          eapply steps_trans; [exact (StL true Hg4)|]. one st_backtrack. apply steps_refl. }
  unfold Tfin in HG2. destruct fin as [x|]; cbn [fst snd]; [exact HG2|].
  destruct ts as [|t0 ts'] eqn:Ets; cbn [fst snd]; [|exact HG2].
  change (G c ([] ++ fst (den qb rho v)) (Tend c (snd (den qb rho v)) P) (N (pc + 3) (SV v :: st) (fx :: fk) vs1 n)).
  apply G_app. exact HG2.
Qed.

(* bind_std with an additional store invariant that the bodies may rely on *)
Lemma bind_inv : forall (f : jv -> result) (Jg : list sv -> Prop) pc1 st1 lo1 hi1 pc' st fk nv nv' K ce n0 rho (P : list sv -> nat -> Prop)
   (ownb : nat -> Prop) (ceb : cenv),
   let c := ctx_of pc' st fk nv nv' K ce n0 in
   let c1 := ctx_of pc1 st1 fk lo1 hi1 (fun i => lo1 <= i < hi1 \/ kept ce i) ce n0 in
   stable c P -> nv <= lo1 -> hi1 <= nv' ->
   (forall i, kept ce i -> i < nv) -> (forall i, nv <= i < nv' -> K i) -> (forall i, kept ce i -> K i) ->
   (forall i, ownb i -> nv <= i < nv' /\ ~ (lo1 <= i < hi1)) ->
   ce_lbls ceb = ce_lbls ce ->
   (forall a b, Jg a -> chg (fun i => lo1 <= i < hi1) a b -> Jg b) ->
   (forall w fk' vs n, Jstd ce rho n0 nv nv' P vs n -> Jg vs ->
        G (cbody c ownb ceb fk') (fst (f w))
          (Tend (cbody c ownb ceb fk') (snd (f w)) (fun a m => Jstd ce rho n0 nv nv' P a m /\ Jg a))
          (N pc1 (SV w :: st1) (fk' ++ fk) vs n)) ->
   forall r s, G c1 (fst r) (Tend c1 (snd r) (fun _ _ => True)) s -> Jstd ce rho n0 nv nv' P (vars_of s) (lbl_of s) ->
     Jg (vars_of s) ->
     G c (fst (bind r f)) (Tend c (snd (bind r f)) (fun a m => P a m /\ Jg a)) s.
Proof.
  intros f Jg pc1 st1 lo1 hi1 pc' st fk nv nv' K ce n0 rho P ownb ceb c c1 HS H1 H2 Hkl HK1 HK2 Hob Hlb HJg Hbody r s HA HJ HJg0.
  set (fb := fun (_ : unit) w => (fst (f w), snd (f w), tt)).
  unfold bind.
  pose proof (foldgen_bind f (fst r)) as Ef. fold fb in Ef.
  destruct (bind_list (fst r) f) as [os x] eqn:Eb. cbn [fst snd] in Ef.
  pose proof (fold_std pc1 st1 lo1 hi1 pc' st fk nv nv' K ce n0 rho P
                unit (fun _ => Jg) fb ownb ceb HS H1 H2 Hkl HK1 HK2 Hob Hlb) as HF.
  cbv zeta in HF.
  assert (HG' : G c os (Tend c (match x with Some e => Some e | None => snd r end)
                          (fun a m => Jstd ce rho n0 nv nv' P a m /\ Jg a)) s).
  { refine (HF (fun g a b => HJg a b) _ (fst r) tt s (snd r) os x tt HA _ Ef); auto.
    intros w g fk' vs' n' os' x' g' [Hj Hg] Efb. unfold fb in Efb. inversion Efb; subst os' x' g'.
      apply Hbody; auto. }
  destruct x as [e|]; (eapply G_impl; [|exact HG']); intros s0; apply Tend_weaken;
    intros p m ((_ & _ & _ & Hp) & Hg); auto.
Qed.

(* an inlined operator argument: pushes its outputs on the stack *)
Lemma G_sarg : forall arg k carg, comp_sarg (V k) arg = Some carg ->
  forall cx pcA v (P : list sv -> nat -> Prop) vs n, code_at pcA carg -> g_pc cx = pcA + length carg ->
  nth_error vs k = Some (SV v) ->
  (forall a b m m', P a m -> keepS cx a b -> m <= m' -> P b m') -> P vs n ->
  G cx (fst (den_sarg nt arg v)) (Tend cx (snd (den_sarg nt arg v)) P) (N pcA (g_st cx) (g_base cx) vs n).
Proof.
  intros arg k carg Hc cx pcA v P vs n Hat Hpc Hk HP Hp.
  destruct arg; simpl in Hc; try (destruct (simple_const c); [|discriminate]); inversion Hc; subst carg; clear Hc;
    simpl length in Hpc; cbn [den_sarg].
  - uncons Hat A0. cbn [fst snd].
    eapply G_single; [rewrite Hpc; replace (pcA + 1) with (S pcA) by lia; one st_load; apply steps_refl
                     |apply chg_refl|simpl; lia|intros; eapply HP; eauto].
  - uncons Hat A0. cbn [fst snd].
    eapply G_single; [rewrite Hpc; replace (pcA + 1) with (S pcA) by lia; one st_push; apply steps_refl
                     |apply chg_refl|simpl; lia|intros; eapply HP; eauto].
  - uncons Hat A0. uncons Hat A1.
    eapply G_pre; [one st_load; apply steps_refl|apply chg_refl|simpl; lia|].
    apply G_index; auto. rewrite Hpc. lia.
  - uncons Hat A0. uncons Hat A1.
    eapply G_pre; [one st_load; apply steps_refl|apply chg_refl|simpl; lia|].
    apply G_iter; auto. rewrite Hpc. lia.
  - uncons Hat A0. uncons Hat A1. cbn [fst snd].
    eapply G_end; [one st_load; one st_backtrack; apply steps_refl|apply chg_refl|simpl; lia|reflexivity|auto].
  - uncons Hat A0. uncons Hat A1.
    destruct (n_fn0 nt f v) as [w|e] eqn:E; cbn [of_sum fst snd].
    + eapply G_single; [rewrite Hpc; replace (pcA + 2) with (S (S pcA)) by lia; one st_load; one st_call0_ok; apply steps_refl
                       |apply chg_refl|simpl; lia|intros; eapply HP; eauto].
    + eapply G_end; [one st_load; one st_call0_err; apply steps_refl|apply chg_refl|simpl; lia|reflexivity|auto].
Qed.

Lemma impl_binop : forall o a b, Impl (QBinop o a b).
Proof.
  intros o a b. impl_intro. simpl in Hc.
  destruct (comp_sarg (V nv) b) as [cb|] eqn:Eb; [|discriminate].
  destruct (comp_sarg (V nv) a) as [ca|] eqn:Ea; [|discriminate].
  inversion Hc; subst cq nv'. clear Hc.
  assert (Hkl : forall i, kept ce i -> i < nv) by (intros; eapply kept_lt; eauto).
  pose proof (conj S1 S2) as HS. destruct (stable_sub _ _ _ _ _ _ _ _ _ HS) as [S1' S2'].
  assert (HJ0 : Jstd ce rho n0 nv (S nv) P vs n) by (split; auto).
  uncons Hat A0. destruct (code_at_app _ _ _ _ Hat) as [Hatb Hat2].
  destruct (code_at_app _ _ _ _ Hat2) as [Hata Hat3]. uncons Hat3 A1. uncons Hat3 A2.
  set (pA := S pc + length cb) in *. set (pL := pA + length ca) in *.
  assert (Epc : pc + length (Istore (V nv) :: cb ++ ca ++ [Iload (V nv); Icall (NF2 o)]) = S (S pL)).
  { simpl. rewrite !app_length. simpl. unfold pL, pA. lia. }
  subst c. rewrite Epc in *.
  set (c := ctx_of (S (S pL)) st fk nv (S nv) K ce n0).
  destruct (update_some vs nv (SV v)) as [vs1 U]; [lia|].
  destruct (update_spec _ _ _ _ U) as (UL & UN & UO).
  assert (HJ1 : Jstd ce rho n0 nv (S nv) P vs1 n) by (eapply Jstd_update; [exact S1'|exact HJ0|exact U|lia]).
  eapply G_pre; [one st_store; apply steps_refl|eapply chg_update; [exact U|simpl; lia]|simpl; lia|].
  set (Jg := fun a : list sv => nth_error a nv = Some (SV v)).
  set (P' := fun a m => Jstd ce rho n0 nv (S nv) P a m /\ Jg a).
  assert (HP'st : stable (ctx_of (S (S pL)) st fk (S nv) (S nv) K ce n0) P').
  { split.
    - intros p q m m' [Hq Hg] C Hm. split.
      + refine (Jstd_chg _ _ _ _ _ _ _ _ _ _ _ (fun x y k k' => S1' _ x y k k' _) _ Hq C Hm); simpl; intros; lia.
      + unfold Jg in *. rewrite <- Hg. symmetry. apply C. simpl. lia.
    - intros p q m m' [Hq Hg] C Hm. split.
      + refine (Jstd_stable_cx _ _ _ _ _ _ _ K S1' S2' HK2 _ _ _ _ _ Hq C Hm). reflexivity.
      + unfold Jg in *. rewrite <- Hg. symmetry. apply C. simpl. apply HK1. lia. }
  cbn [Den.den].
  set (f := fun r => bind (den_sarg nt a v) (fun l => of_sum (n_fn2 nt o v l r))).
  assert (HG : G c (fst (bind (den_sarg nt b v) f)) (Tend c (snd (bind (den_sarg nt b v) f)) (fun a m => P a m /\ Jg a))
                 (N (S pc) st fk vs1 n)).
  { refine (bind_inv f Jg pA st (S nv) (S nv) (S (S pL)) st fk nv (S nv) K ce n0 rho P (fun i => S nv <= i < S nv) ce
              HS ltac:(lia) (le_n _) Hkl HK1 HK2 _ eq_refl _ _ (den_sarg nt b v) (N (S pc) st fk vs1 n) _ HJ1 UN).
    - intros i Hi. lia.
    - intros p q Hg C. unfold Jg in *. rewrite <- Hg. symmetry. apply C. lia.
    - (* for every output r of the right operand: the left operand, then the call *)
      intros r fk' vs' n' Hj Hg. pose proof Hj as (E' & Hn' & Hl' & Hp').
      assert (HJ' : Jstd ce rho n0 (S nv) (S nv) P' vs' n').
      { split; [eapply envOK_nv; eauto|]. split; [auto|]. split; [lia|]. split; auto. }
      pose proof (bind_inv (fun l => of_sum (n_fn2 nt o v l r)) Jg pL (SV r :: st) (S nv) (S nv) (S (S pL)) st (fk' ++ fk)
                    (S nv) (S nv) K ce n0 rho P' (fun i => S nv <= i < S nv) ce
                    HP'st (le_n _) (le_n _)) as HI. cbv zeta in HI.
      eapply G_impl; [|refine (HI _ _ HK2 _ eq_refl _ _ (den_sarg nt a v) (N pA (SV r :: st) (fk' ++ fk) vs' n') _ HJ' Hg)].
      + intros s0. apply Tend_weaken. intros p m [[Hq1 Hq2] _]. split; auto.
      + intros i Hi. apply Hkl in Hi. lia.
      + intros i Hi. lia.
      + intros i Hi. lia.
      + intros p q Hg' C. unfold Jg in *. rewrite <- Hg'. symmetry. apply C. lia.
      + intros l fk'' vs'' n'' Hj'' Hg''.
        destruct (n_fn2 nt o v l r) as [w|e] eqn:E; cbn [of_sum fst snd].
        * eapply G_single; [simpl g_pc; simpl g_st; simpl g_base; one st_load; one st_call2_ok; apply steps_refl
                           |apply chg_refl|simpl; lia|].
          intros vs2 n2 Kp L2. split.
          -- destruct Hj'' as (E2 & Hn2 & Hl2 & Hp2). split; [eapply envOK_keep; eauto|]. split; [lia|].
             split; [destruct Kp; lia|]. destruct HP'st as [_ St2]. eapply St2; eauto.
          -- unfold Jg in *. rewrite <- Hg''. symmetry. apply Kp. simpl. apply HK1. lia.
        * eapply G_end; [one st_load; one st_call2_err; apply steps_refl|apply chg_refl|simpl; lia|reflexivity|auto].
      + apply (G_sarg a nv ca Ea (ctx_of pL (SV r :: st) (fk' ++ fk) (S nv) (S nv) (fun i => S nv <= i < S nv \/ kept ce i) ce n0)
                 pA v (fun _ _ => True) vs' n'); auto.
    - apply (G_sarg b nv cb Eb (ctx_of pA st fk (S nv) (S nv) (fun i => S nv <= i < S nv \/ kept ce i) ce n0)
               (S pc) v (fun _ _ => True) vs1 n); auto. }
  eapply G_impl; [|exact HG]. intros s0. apply Tend_weaken. intros p m [Hp _]. exact Hp.
Qed.

(* G_fold with the invariant J = Jstd /\ Jg, for contexts given by arbitrary own sets *)
Lemma fold_gen : forall (c1 c : gctx) rho nvE hi (P : list sv -> nat -> Prop) (X : Type) (Jg : X -> list sv -> Prop)
   (fb : X -> jv -> list jv * option exn * X) (ownb : nat -> Prop) (ceb : cenv),
   let J := fun g a m => Jstd (g_ce c) rho (g_n0 c) nvE hi P a m /\ Jg g a in
   g_base c1 = g_base c -> g_ce c1 = g_ce c -> g_n0 c1 = g_n0 c ->
   (forall i, g_own c1 i -> g_own c i) -> (forall i, ownb i -> g_own c i) ->
   (forall i, g_keep c1 i -> g_keep c i /\ ~ ownb i) ->
   (forall i, kept (g_ce c) i -> ~ g_own c i) ->
   ce_lbls ceb = ce_lbls (g_ce c) ->
   (forall a b m m', P a m -> chg (g_own c1) a b -> m <= m' -> P b m') ->
   (forall g a b, Jg g a -> chg (g_own c1) a b -> Jg g b) ->
   (forall w g fk' vs n os x g', J g vs n -> fb g w = (os, x, g') ->
        G (cbody c ownb ceb fk') os (Tend (cbody c ownb ceb fk') x (J g')) (N (g_pc c1) (SV w :: g_st c1) (fk' ++ g_base c) vs n)) ->
   forall ws1 g s fin1 os x g',
     G c1 ws1 (Tend c1 fin1 (fun _ _ => True)) s -> J g (vars_of s) (lbl_of s) -> foldgen X fb ws1 g = (os, x, g') ->
     G c os (Tend c (match x with Some e => Some e | None => fin1 end) (J g')) s.
Proof.
  intros c1 c rho nvE hi P X Jg fb ownb ceb J Hb Hce Hn0 Ho1 Hob Hk1 Hkept Hlb HP HJg Hbody ws1 g s fin1 os x g' HA HJ Ef.
  refine (G_fold nt code rpc c1 c X J fb ownb ceb Hb Hce Hn0 Ho1 Hob Hk1 Hkept Hlb _ _ Hbody ws1 g s fin1 os x g' HA HJ Ef).
  - intros g0 p q m m' [(E & Hn & Hl & Hp) Hg] C Hm. split; [|eapply HJg; eauto].
    split; [|split; [lia|split; [destruct C; lia|eapply HP; eauto]]].
    eapply envOK_same; [exact E|]. intros k Hk. apply C. intro Hc1. apply (Hkept k Hk). auto.
  - intros g0 p m [(E & _) _]. eapply envOK_lblOK; eauto.
Qed.

Lemma Jstd_update_gen : forall ce rho n0 nvE hi (P : list sv -> nat -> Prop) vs n k x vs',
  Jstd ce rho n0 nvE hi P vs n -> update vs k x = Some vs' -> ~ kept ce k -> P vs' n -> Jstd ce rho n0 nvE hi P vs' n.
Proof.
  intros ce rho n0 nvE hi P vs n k x vs' (E & Hn & Hl & Hp) U Hk Hp'.
  destruct (update_spec _ _ _ _ U) as (UL & UN & UO).
  split; [|split; [auto|split; [lia|auto]]].
  eapply envOK_same; [exact E|]. intros j Hj. symmetry. apply UO. intro; subst; auto.
Qed.

Lemma last_cons_default : forall (us : list jv) a d, last (a :: us) d = last us a.
Proof.
  induction us; intros a0 d; [reflexivity|].
  change (last (a0 :: a :: us) d) with (last (a :: us) d). rewrite (IHus a d).
  change (last (a :: us) a0) with (match us with [] => a | _ => last us a0 end).
  destruct us; [reflexivity|]. rewrite <- (IHus a a0). reflexivity.
Qed.

Lemma foldgen_last : forall us a, foldgen jv (fun (_ : jv) u => ([], None, u)) us a = ([], None, last us a).
Proof.
  induction us; intros a0; [reflexivity|].
  change (foldgen jv (fun (_ : jv) u => ([], None, u)) (a :: us) a0) with
    (let '(os', x', g'') := foldgen jv (fun (_ : jv) u => (@nil jv, @None exn, u)) us a in (@nil jv ++ os', x', g'')).
  rewrite IHus. simpl app. rewrite last_cons_default. reflexivity.
Qed.

Lemma reduce_foldgen : forall (updf : jv -> jv -> result) ws a,
  exists g, foldgen jv (fun a w => ([], snd (updf w a), last_or (fst (updf w a)) a)) ws a =
              ([], match reduce_fold updf ws a with inr e => Some e | inl _ => None end, g) /\
            (forall acc, reduce_fold updf ws a = inl acc -> g = acc).
Proof.
  intros updf. induction ws; intros a0; simpl.
  - exists a0. split; auto. intros acc H. inversion H; auto.
  - destruct (updf a a0) as [us [e|]] eqn:Eu; cbn [fst snd].
    + exists (last_or us a0). split; auto. intros acc H. discriminate.
    + destruct (IHws (last_or us a0)) as (g & Hf & Hg). rewrite Hf. exists g. split; auto.
Qed.

(* the update of reduce/foreach: store $x, load the accumulator, run the update as a generator *)
Lemma upd_inner : forall qu, Impl qu -> forall ce x n2 p2 cu n3,
  comp qu (add_var ce x n2) (S (S p2)) (S n2) = Some (cu, n3) -> code_at (S (S p2)) cu ->
  forall accs, at_ p2 (Istore (V n2)) -> at_ (S p2) (Iload (V accs)) ->
  forall rho w a st fk vs n n0 nv, accs < n2 -> nv <= n2 ->
  envOK ce rho vs n0 nv -> n0 <= n -> n3 <= length vs -> nth_error vs accs = Some (SV a) ->
  exists vs1, update vs n2 (SV w) = Some vs1 /\
  steps (N p2 (SV w :: st) fk vs n) (N (S (S p2)) (SV a :: st) fk vs1 n) /\
  envOK (add_var ce x n2) ((x, w) :: rho) vs1 n0 (S n2) /\ nth_error vs1 accs = Some (SV a) /\
  let c1 := ctx_of (S (S p2) + length cu) st fk (S n2) n3 (fun i => S n2 <= i < n3 \/ kept (add_var ce x n2) i) (add_var ce x n2) n0 in
  G c1 (fst (den qu ((x, w) :: rho) a)) (Tend c1 (snd (den qu ((x, w) :: rho) a)) (fun _ _ => True))
               (N (S (S p2)) (SV a :: st) fk vs1 n).
Proof.
  intros qu IHu ce x n2 p2 cu n3 Eu Hatu accs A0 A1 rho w a st fk vs n n0 nv Hacc Hnv HE Hn Hl Ha.
  pose proof (comp_mono _ _ _ _ _ _ Eu) as M.
  destruct (update_some vs n2 (SV w)) as [vs1 U]; [lia|]. exists vs1. split; [exact U|].
  destruct (update_spec _ _ _ _ U) as (UL & UN & UO).
  assert (Ha1 : nth_error vs1 accs = Some (SV a)) by (rewrite UO; [auto|lia]).
  assert (HE1 : envOK (add_var ce x n2) ((x, w) :: rho) vs1 n0 (S n2)).
  { apply envOK_add_var; auto.
    eapply envOK_nv; [|instantiate (1 := nv); lia].
    eapply envOK_same; [exact HE|]. intros k Hk. symmetry. apply UO.
    pose proof (kept_lt _ _ _ _ _ _ HE Hk). lia. }
  split; [one st_store; one st_load; apply steps_refl|]. split; [exact HE1|]. split; [exact Ha1|].
  intros c1.
  apply (impl_inner qu IHu (add_var ce x n2) (S (S p2)) (S n2) cu n3 Eu Hatu ((x, w) :: rho) a st fk vs1 n n0); auto; try lia.
Qed.

(* the update phase of reduce/foreach for one source output w: store $x; load acc; update; then, for every
   output u of the update, a body that maintains the accumulator (ghost) in slot nv *)
Lemma upd_level : forall qu, Impl qu -> forall ce x n2 p2 cu n3,
  comp qu (add_var ce x n2) (S (S p2)) (S n2) = Some (cu, n3) -> code_at (S (S p2)) cu ->
  forall nv, at_ p2 (Istore (V n2)) -> at_ (S p2) (Iload (V nv)) ->
  forall rho w st fk K n0 hi (P : list sv -> nat -> Prop) pcx (fbC : jv -> jv -> list jv * option exn * jv) (ownbC : nat -> Prop),
  let ce3 := add_var ce x n2 in
  let rho3 := (x, w) :: rho in
  let P3 := Jstd ce rho n0 nv hi P in
  let cC := {| g_pc := pcx; g_st := st; g_base := fk; g_own := fun i => i = nv \/ S n2 <= i < hi; g_keep := K; g_ce := ce3; g_n0 := n0 |} in
  let cOut := {| g_pc := pcx; g_st := st; g_base := fk; g_own := fun i => i = nv \/ n2 <= i < hi; g_keep := K; g_ce := ce; g_n0 := n0 |} in
  let JC := fun g a m => Jstd ce3 rho3 n0 (S n2) hi P3 a m /\ nth_error a nv = Some (SV g) in
  nv < n2 -> n3 <= hi ->
  (forall i, nv <= i < hi -> K i) -> (forall i, kept ce i -> K i) -> (forall i, kept ce i -> i < nv) ->
  (forall (O : nat -> Prop) x y k k', (forall i, O i -> nv <= i < hi) -> P x k -> chg O x y -> k <= k' -> P y k') ->
  (forall pc'' st' fk' lo hi ce' n0' x y k k', P x k -> keepS (ctx_of pc'' st' fk' lo hi K ce' n0') x y -> k <= k' -> P y k') ->
  (forall i, ownbC i -> i = nv \/ n3 <= i < hi) ->
  (forall u g fk3 vs n os xx g', JC g vs n -> fbC g u = (os, xx, g') ->
     G (cbody cC ownbC ce3 fk3) os (Tend (cbody cC ownbC ce3 fk3) xx (JC g'))
       (N (S (S p2) + length cu) (SV u :: st) (fk3 ++ fk) vs n)) ->
  forall a vs n, Jstd ce rho n0 nv hi P vs n -> nth_error vs nv = Some (SV a) ->
  forall os xx g', foldgen jv fbC (fst (den qu rho3 a)) a = (os, xx, g') ->
  G cOut os (Tend cOut (match xx with Some e => Some e | None => snd (den qu rho3 a) end)
                (fun a' m => Jstd ce rho n0 nv hi P a' m /\ nth_error a' nv = Some (SV g')))
    (N p2 (SV w :: st) fk vs n).
Proof.
  intros qu IHu ce x n2 p2 cu n3 Eu Hatu nv A0 A1 rho w st fk K n0 hi P pcx fbC ownbC ce3 rho3 P3 cC cOut JC
         Hnv Hhi HK1 HK2 Hkl S1' S2' HobC HbodyC a vs n Hj Ha os xx g' Ef.
  pose proof (comp_mono _ _ _ _ _ _ Eu) as M. pose proof Hj as (E & Hn & Hl & Hp).
  destruct (upd_inner qu IHu ce x n2 p2 cu n3 Eu Hatu nv A0 A1 rho w a st fk vs n n0 nv Hnv ltac:(lia) E Hn ltac:(lia) Ha)
    as (vs1 & U & St1 & HE1 & Ha1 & HU). cbv zeta in HU.
  destruct (update_spec _ _ _ _ U) as (UL & UN & UO).
  assert (HP3 : P3 vs1 n) by (unfold P3; eapply Jstd_update; [exact S1'|exact Hj|exact U|lia]).
  assert (Hk3 : forall i, kept ce3 i -> i = n2 \/ kept ce i) by (intros i Hi; apply kept_add_var in Hi; auto).
  assert (HG : G cC os (Tend cC (match xx with Some e => Some e | None => snd (den qu rho3 a) end) (JC g'))
                 (N (S (S p2)) (SV a :: st) fk vs1 n)).
  { refine (fold_gen (ctx_of (S (S p2) + length cu) st fk (S n2) n3 (fun i => S n2 <= i < n3 \/ kept ce3 i) ce3 n0)
              cC rho3 (S n2) hi P3 jv (fun g a' => nth_error a' nv = Some (SV g)) fbC ownbC ce3
              eq_refl eq_refl eq_refl _ _ _ _ eq_refl _ _ HbodyC _ a _ _ os xx g' HU _ Ef).
    - simpl; intros; lia.
    - simpl. intros i Hi. apply HobC in Hi. lia.
    - simpl. intros i [Hi|Hi].
      + split; [apply HK1; lia|]. intro Ho. apply HobC in Ho. lia.
      + destruct (Hk3 i Hi) as [->|Hi']; (split; [|intro Ho; apply HobC in Ho]).
        * apply HK1; lia. * lia. * apply HK2; auto. * apply Hkl in Hi'. lia.
    - simpl. intros i Hi. destruct (Hk3 i Hi) as [->|Hi']; [lia|apply Hkl in Hi'; lia].
    - intros p q m m' Hq C Hm. unfold P3 in *.
      refine (Jstd_chg _ _ _ _ _ _ _ _ _ _ _ (fun x y k k' => S1' _ x y k k' _) _ Hq C Hm); simpl; intros; lia.
    - intros g p q Hg C. rewrite <- Hg. symmetry. apply C. simpl. lia.
    - simpl. split; [|exact Ha1]. split; [exact HE1|]. split; [exact Hn|]. split; [lia|exact HP3]. }
  eapply G_pre; [exact St1|eapply chg_update; [exact U|simpl; lia]|simpl; lia|].
  refine (G_sub nt code rpc cC cOut _ _ eq_refl eq_refl eq_refl _ _ (le_n _) _ _ _ HG).
  - simpl; intros; lia.
  - intros p q Kp. exact Kp.
  - intros s0 (e & vs4 & n4 & St4 & Ch4 & Le4 & HE4 & ((E4 & Hn4 & Hl4 & HP4) & Hg4)).
    exists e, vs4, n4. split; [exact St4|]. split; [eapply chg_mono; [|exact Ch4]; simpl; intros; lia|].
    split; [exact Le4|]. split; [eapply encR_lbls; [|exact HE4]; reflexivity|]. split; [exact HP4|exact Hg4].
Qed.

Lemma impl_reduce : forall qs x qi qu, Impl qs -> Impl qi -> Impl qu -> Impl (QReduce qs x qi qu).
Proof.
  intros qs x qi qu IHs IHi IHu. impl_intro. simpl in Hc. dcomp. inversion Hc; subst cq nv'. clear Hc.
  rename l into ci, l0 into cs, l1 into cu.
  pose proof (comp_mono _ _ _ _ _ _ Ec) as M1. pose proof (comp_mono _ _ _ _ _ _ Ec0) as M2.
  pose proof (comp_mono _ _ _ _ _ _ Ec1) as M3.
  assert (Hkl : forall i, kept ce i -> i < nv) by (intros; eapply kept_lt; eauto).
  pose proof (conj S1 S2) as HS. destruct (stable_sub _ _ _ _ _ _ _ _ _ HS) as [S1' S2'].
  assert (HJ0 : Jstd ce rho n0 nv n3 P vs n) by (split; auto).
  set (q1 := S pc + length ci) in *.
  replace (pc + 1 + length ci) with q1 in * by (unfold q1; lia).
  replace (q1 + 2) with (S (S q1)) in * by lia.
  set (q2 := S (S q1) + length cs) in *.
  replace (q2 + 2) with (S (S q2)) in * by lia.
  set (q3 := S (S q2) + length cu) in *.
  replace (q3 + 2) with (S (S q3)) in * by lia.
  uncons Hat A0. destruct (code_at_app _ _ _ _ Hat) as [Hati Hat2]. fold q1 in Hat2.
  uncons Hat2 A1. uncons Hat2 A2. destruct (code_at_app _ _ _ _ Hat2) as [Hats Hat3]. fold q2 in Hat3.
  uncons Hat3 A3. uncons Hat3 A4. destruct (code_at_app _ _ _ _ Hat3) as [Hatu Hat4]. fold q3 in Hat4.
  uncons Hat4 A5. uncons Hat4 A6. uncons Hat4 A7. uncons Hat4 A8.
  subst c.
  match goal with |- context [ctx_of (pc + length ?l)] =>
    assert (Epc : pc + length l = S (S (S (S q3))))
      by (simpl; repeat (rewrite app_length; simpl); unfold q3, q2, q1; lia); rewrite Epc in * end.
  set (pend := S (S (S (S q3)))) in *.
  set (c := ctx_of pend st fk nv n3 K ce n0).
  cbn [Den.den].
  set (updf := fun w acc => den qu ((x, w) :: rho) acc).
  match goal with |- G _ (fst (bind _ ?f)) _ _ => set (f0 := f) end.
  set (ownb := fun i => i = nv \/ n1 <= i < n3).
  pose proof (impl_inner qi IHi ce (S pc) (S nv) ci n1 Ec Hati rho v (SV v :: st) fk vs n n0
                ltac:(eapply envOK_nv; eauto) Hn ltac:(lia)) as HA. cbv zeta in HA. fold q1 in HA.
  eapply G_pre; [one st_dup; apply steps_refl|apply chg_refl|simpl; lia|].
  refine (bind_std f0 q1 (SV v :: st) (S nv) n1 pend st fk nv n3 K ce n0 rho P ownb ce HS ltac:(lia) ltac:(lia)
            Hkl HK1 HK2 _ eq_refl _ (den qi rho v) _ HA HJ0).
  { intros i [->|Hi]; lia. }
  (* one accumulator start value s0 *)
  intros s0 fk' vs' n' Hj. pose proof Hj as (E' & Hn' & Hl' & Hp').
  destruct (update_some vs' nv (SV s0)) as [vs1 U]; [lia|].
  destruct (update_spec _ _ _ _ U) as (UL & UN & UO).
  assert (HJ1 : Jstd ce rho n0 nv n3 P vs1 n') by (eapply Jstd_update; [exact S1'|exact Hj|exact U|lia]).
  set (F0 := fk' ++ fk) in *.
  set (fx := F rpc (S q1) (SV v :: st)).
  eapply G_pre; [one st_store; one st_fork; apply steps_refl|eapply chg_update; [exact U|simpl; unfold ownb; lia]|simpl; lia|].
  pose proof HJ1 as (E1 & Hn1 & Hl1 & Hp1).
  pose proof (impl_inner qs IHs ce (S (S q1)) n1 cs n2 Ec0 Hats rho v st (fx :: F0) vs1 n' n0
                ltac:(eapply envOK_nv; eauto; lia) Hn1 ltac:(lia)) as HB. cbv zeta in HB. fold q2 in HB.
  set (fbB := fun a w => (@nil jv, snd (updf w a), last_or (fst (updf w a)) a)).
  set (cB := {| g_pc := 0; g_st := st; g_base := fx :: F0; g_own := ownb; g_keep := K; g_ce := ce; g_n0 := n0 |}).
  set (JgB := fun (g : jv) (a' : list sv) => nth_error a' nv = Some (SV g)).
  destruct (den qs rho v) as [ws sx] eqn:Eds. cbn [fst snd] in HB.
  destruct (reduce_foldgen updf ws s0) as (gB & EfB & HgB).
  assert (HGB : G cB [] (Tend cB (match (match reduce_fold updf ws s0 with inr e => Some e | inl _ => None end)
                                      with Some e => Some e | None => sx end)
                            (fun a' m => Jstd ce rho n0 nv n3 P a' m /\ JgB gB a'))
                  (N (S (S q1)) (SV v :: st) (fx :: F0) vs1 n')).
  { refine (fold_gen (ctx_of q2 st (fx :: F0) n1 n2 (fun i => n1 <= i < n2 \/ kept ce i) ce n0) cB rho nv n3 P jv JgB fbB
              (fun i => i = nv \/ n2 <= i < n3) ce eq_refl eq_refl eq_refl _ _ _ _ eq_refl _ _ _ ws s0 _ sx [] _ gB HB _ EfB).
    - simpl. unfold ownb. intros; lia.
    - simpl. unfold ownb. intros; lia.
    - simpl. intros i [Hi|Hi]; split; try lia; [apply HK1; lia|apply HK2; auto|apply Hkl in Hi; lia].
    - simpl. unfold ownb. intros i Hi. apply Hkl in Hi. lia.
    - intros p q m m' Hq C Hm. eapply S1'; [|exact Hq|exact C|exact Hm]. simpl; intros; lia.
    - intros g p q Hg C. unfold JgB in *. rewrite <- Hg. symmetry. apply C. simpl. lia.
    - (* one source output w, accumulator g *)
      intros w g fk2 vs2 m2 os2 x2 g2 [Hj2 Hg2] Efb. unfold fbB in Efb. inversion Efb; subst os2 x2 g2. clear Efb.
      pose proof (foldgen_last (fst (updf w g)) g) as EfC.
      refine (upd_level qu IHu ce x n2 q2 cu n3 Ec1 Hatu nv A3 A4 rho w st (fk2 ++ fx :: F0) K n0 n3 P 0
                (fun (_ : jv) u => ([], None, u)) (fun i => i = nv) ltac:(lia) (le_n _) HK1 HK2 Hkl S1' S2' _ _
                g vs2 m2 Hj2 Hg2 [] None _ EfC).
      + intros i ->. auto.
      + intros u g3 fk3 vs3 m3 os3 x3 g3' [Hj3 Hg3] Efc. inversion Efc; subst os3 x3 g3'. clear Efc.
        pose proof Hj3 as (E3 & Hn3 & Hl3 & Hp3).
        destruct (update_some vs3 nv (SV u)) as [vs4 U4]; [lia|].
        destruct (update_spec _ _ _ _ U4) as (UL4 & UN4 & UO4).
        eapply G_end; [one st_store; one st_backtrack; apply steps_refl
                      |eapply chg_update; [exact U4|reflexivity]|simpl; lia|reflexivity|].
        split; [|exact UN4].
        eapply Jstd_update_gen; [exact Hj3|exact U4| |].
        * intros Hk. apply kept_add_var in Hk. destruct Hk as [Hk|Hk]; [lia|apply Hkl in Hk; lia].
        * eapply Jstd_update; [exact S1'|exact Hp3|exact U4|lia].
    - split; [exact HJ1|exact UN]. }
  (* the reduction is over: back to the fork of reduce *)
  simpl in HGB. destruct HGB as (s' & St & Ch & Le & (e & vs4 & n4 & St4 & Ch4 & Le4 & HE4 & ((E4 & Hn4 & Hl4 & HP4) & Hg4))).
  simpl in St4, Ch4, HE4.
  assert (Ch' : chg ownb vs1 vs4) by (eapply chg_trans; eauto).
  assert (HJ4 : Jstd ce rho n0 nv n3 P vs4 n4) by (split; auto).
  unfold f0. try rewrite Eds. fold updf. cbv beta iota.
  destruct (reduce_fold updf ws s0) as [acc|ex] eqn:Erf.
  - destruct sx as [ex|]; simpl in HE4; cbn [fst snd].
    + destruct (encR_some _ _ _ _ HE4) as (y & ->).
      eapply G_end; [eapply steps_trans; [exact St|eapply steps_trans; [exact St4|eapply fork_transparent; eauto]]
                    |exact Ch'|simpl; simpl in Le; lia|exact HE4|exact HJ4].
    + subst e. rewrite (HgB acc eq_refl) in Hg4.
      eapply G_single with (vs3 := vs4) (n3 := n4);
        [eapply steps_trans; [exact St|eapply steps_trans; [exact St4|]]|exact Ch'|simpl; simpl in Le; lia|].
      * one st_popfork. one bt_fork_none. one st_pop. one st_load. apply steps_refl.
      * intros vs5 n5 Kp L5. refine (Jstd_stable_cx _ _ _ _ _ _ _ K S1' S2' HK2 _ _ _ _ _ HJ4 Kp L5). reflexivity.
  - simpl in HE4. cbn [fst snd]. destruct (encR_some _ _ _ _ HE4) as (y & ->).
    eapply G_end; [eapply steps_trans; [exact St|eapply steps_trans; [exact St4|eapply fork_transparent; eauto]]
                  |exact Ch'|simpl; simpl in Le; lia|exact HE4|exact HJ4].
Qed.

Lemma foreach_upd_foldgen : forall (ext : jv -> result) us a,
  foldgen jv (fun (_ : jv) u => (fst (ext u), snd (ext u), u)) us a =
  (fst (fst (foreach_upd ext us a)), snd (fst (foreach_upd ext us a)), snd (foreach_upd ext us a)).
Proof.
  intros ext. induction us; intros a0; simpl; auto.
  destruct (ext a) as [os [e|]]; cbn [fst snd]; auto.
  rewrite IHus. destruct (foreach_upd ext us a) as [[os' x'] acc']. reflexivity.
Qed.

Definition foreach_step (updf : jv -> jv -> result) (extf : jv -> jv -> result) (a w : jv) : list jv * option exn * jv :=
  let r := foreach_upd (extf w) (fst (updf w a)) a in
  (fst (fst r), match snd (fst r) with Some e => Some e | None => snd (updf w a) end, snd r).

Lemma foreach_foldgen : forall updf extf ws a,
  exists g, foldgen jv (foreach_step updf extf) ws a =
            (fst (foreach_fold updf extf ws a), snd (foreach_fold updf extf ws a), g).
Proof.
  intros updf extf. induction ws; intros a0.
  - simpl. eauto.
  - change (foldgen jv (foreach_step updf extf) (a :: ws) a0) with
      (let '(os, x, g') := foreach_step updf extf a0 a in
       match x with
       | Some e => (os, Some e, g')
       | None => let '(os', x', g'') := foldgen jv (foreach_step updf extf) ws g' in (os ++ os', x', g'')
       end).
    unfold foreach_step. simpl foreach_fold.
    destruct (updf a a0) as [us ux]. cbn [fst snd].
    destruct (foreach_upd (extf a) us a0) as [[os [e|]] acc']; cbn [fst snd].
    + eauto.
    + destruct ux as [e|]; cbn [fst snd]; [eauto|].
      destruct (IHws acc') as (g & Hg). unfold foreach_step in Hg. rewrite Hg. exists g.
      destruct (foreach_fold updf extf ws acc') as [os' x']. reflexivity.
Qed.

Lemma impl_foreach : forall qs x qi qu ext, Impl qs -> Impl qi -> Impl qu -> Popt Impl ext -> Impl (QForeach qs x qi qu ext).
Proof.
  intros qs x qi qu ext IHs IHi IHu IHx. impl_intro. simpl in Hc.
  destruct (comp qi ce (S pc) (S nv)) as [[ci n1]|] eqn:Ec; [|discriminate].
  destruct (comp qs ce (pc + 1 + length ci + 1) n1) as [[cs n2]|] eqn:Ec0; [|discriminate].
  destruct (comp qu (add_var ce x n2) (pc + 1 + length ci + 1 + length cs + 2) (S n2)) as [[cu n3]|] eqn:Ec1; [|discriminate].
  pose proof (comp_mono _ _ _ _ _ _ Ec) as M1. pose proof (comp_mono _ _ _ _ _ _ Ec0) as M2.
  pose proof (comp_mono _ _ _ _ _ _ Ec1) as M3.
  set (q1 := S pc + length ci) in *.
  replace (pc + 1 + length ci) with q1 in * by (unfold q1; lia).
  replace (q1 + 1) with (S q1) in * by lia.
  set (q2 := S q1 + length cs) in *.
  replace (q2 + 2) with (S (S q2)) in * by lia.
  set (q3 := S (S q2) + length cu) in *.
  replace (q3 + 2) with (S (S q3)) in * by lia.
  set (ce3 := add_var ce x n2) in *.
  assert (Hsh : exists cx, cq = Idup :: ci ++ Istore (V nv) :: cs ++ Istore (V n2) :: Iload (V nv) :: cu ++ Idup :: Istore (V nv) :: cx /\
              n3 <= nv' /\
              match ext with
              | Some e => comp e ce3 (S (S q3)) n3 = Some (cx, nv')
              | None => cx = [] /\ nv' = n3
              end).
  { destruct ext as [e|].
    - destruct (comp e ce3 (S (S q3)) n3) as [[cx n4]|] eqn:Ex; [|discriminate]. inversion Hc; subst.
      exists cx. split; [auto|]. split; [eapply comp_mono; eauto|auto].
    - inversion Hc; subst. exists []. auto. }
  destruct Hsh as (cx & -> & M4 & Hx). clear Hc.
  assert (Hkl : forall i, kept ce i -> i < nv) by (intros; eapply kept_lt; eauto).
  pose proof (conj S1 S2) as HS. destruct (stable_sub _ _ _ _ _ _ _ _ _ HS) as [S1' S2'].
  assert (HJ0 : Jstd ce rho n0 nv nv' P vs n) by (split; auto).
  uncons Hat A0. destruct (code_at_app _ _ _ _ Hat) as [Hati Hat2]. fold q1 in Hat2.
  uncons Hat2 A1. destruct (code_at_app _ _ _ _ Hat2) as [Hats Hat3]. fold q2 in Hat3.
  uncons Hat3 A3. uncons Hat3 A4. destruct (code_at_app _ _ _ _ Hat3) as [Hatu Hat4]. fold q3 in Hat4.
  uncons Hat4 A5. uncons Hat4 A6. rename Hat4 into Hatx.
  subst c.
  match goal with |- context [ctx_of (pc + length ?l)] =>
    assert (Epc : pc + length l = S (S q3) + length cx)
      by (simpl; repeat (rewrite app_length; simpl); unfold q3, q2, q1; lia); rewrite Epc in * end.
  set (pend := S (S q3) + length cx) in *.
  set (c := ctx_of pend st fk nv nv' K ce n0).
  cbn [Den.den].
  set (updf := fun w acc => den qu ((x, w) :: rho) acc).
  set (extf := fun w u => match ext with Some e => den e ((x, w) :: rho) u | None => ([u], None) end).
  match goal with |- G _ (fst (bind _ ?f)) _ _ => set (f0 := f) end.
  set (ownb := fun i => i = nv \/ n1 <= i < nv').
  pose proof (impl_inner qi IHi ce (S pc) (S nv) ci n1 Ec Hati rho v (SV v :: st) fk vs n n0
                ltac:(eapply envOK_nv; eauto) Hn ltac:(lia)) as HA. cbv zeta in HA. fold q1 in HA.
  eapply G_pre; [one st_dup; apply steps_refl|apply chg_refl|simpl; lia|].
  refine (bind_std f0 q1 (SV v :: st) (S nv) n1 pend st fk nv nv' K ce n0 rho P ownb ce HS ltac:(lia) ltac:(lia)
            Hkl HK1 HK2 _ eq_refl _ (den qi rho v) _ HA HJ0).
  { intros i [->|Hi]; lia. }
  intros s0 fk' vs' n' Hj. pose proof Hj as (E' & Hn' & Hl' & Hp').
  destruct (update_some vs' nv (SV s0)) as [vs1 U]; [lia|].
  destruct (update_spec _ _ _ _ U) as (UL & UN & UO).
  assert (HJ1 : Jstd ce rho n0 nv nv' P vs1 n') by (eapply Jstd_update; [exact S1'|exact Hj|exact U|lia]).
  set (F0 := fk' ++ fk) in *.
  eapply G_pre; [one st_store; apply steps_refl|eapply chg_update; [exact U|simpl; unfold ownb; lia]|simpl; lia|].
  pose proof HJ1 as (E1 & Hn1 & Hl1 & Hp1).
  pose proof (impl_inner qs IHs ce (S q1) n1 cs n2 Ec0 Hats rho v st F0 vs1 n' n0
                ltac:(eapply envOK_nv; eauto; lia) Hn1 ltac:(lia)) as HB. cbv zeta in HB. fold q2 in HB.
  set (cB := cbody c ownb ce fk').
  set (JgB := fun (g : jv) (a' : list sv) => nth_error a' nv = Some (SV g)).
  destruct (den qs rho v) as [ws sx] eqn:Eds. cbn [fst snd] in HB.
  destruct (foreach_foldgen updf extf ws s0) as (gB & EfB).
  assert (HGB : G cB (fst (foreach_fold updf extf ws s0))
                  (Tend cB (match snd (foreach_fold updf extf ws s0) with Some e => Some e | None => sx end)
                     (fun a' m => Jstd ce rho n0 nv nv' P a' m /\ JgB gB a'))
                  (N (S q1) (SV v :: st) F0 vs1 n')).
  { refine (fold_gen (ctx_of q2 st F0 n1 n2 (fun i => n1 <= i < n2 \/ kept ce i) ce n0) cB rho nv nv' P jv JgB
              (foreach_step updf extf) (fun i => i = nv \/ n2 <= i < nv') ce eq_refl eq_refl eq_refl _ _ _ _ eq_refl _ _ _
              ws s0 _ sx _ _ gB HB _ EfB).
    - simpl. unfold ownb. intros; lia.
    - simpl. unfold ownb. intros; lia.
    - simpl. intros i [Hi|Hi]; split; try lia; [apply HK1; lia|apply HK2; auto|apply Hkl in Hi; lia].
    - simpl. unfold ownb. intros i Hi. apply Hkl in Hi. lia.
    - intros p q m m' Hq C Hm. eapply S1'; [|exact Hq|exact C|exact Hm]. simpl; intros; lia.
    - intros g p q Hg C. unfold JgB in *. rewrite <- Hg. symmetry. apply C. simpl. lia.
    - (* one source output w, accumulator g *)
      intros w g fk2 vs2 m2 os2 x2 g2 [Hj2 Hg2] Efb. unfold foreach_step in Efb.
      pose proof (foreach_upd_foldgen (extf w) (fst (updf w g)) g) as EfC.
      inversion Efb; subst os2 x2 g2. clear Efb.
      refine (upd_level qu IHu ce x n2 q2 cu n3 Ec1 Hatu nv A3 A4 rho w st (fk2 ++ F0) K n0 nv' P pend
                (fun (_ : jv) u => (fst (extf w u), snd (extf w u), u)) (fun i => i = nv \/ n3 <= i < nv')
                ltac:(lia) M4 HK1 HK2 Hkl S1' S2' _ _ g vs2 m2 Hj2 Hg2 _ _ _ EfC).
      + intros i Hi. exact Hi.
      + (* one update output u: dup; store acc; extract *)
        intros u g3 fk3 vs3 m3 os3 x3 g3' [Hj3 Hg3] Efc. inversion Efc; subst os3 x3 g3'. clear Efc.
        pose proof Hj3 as (E3 & Hn3 & Hl3 & Hp3).
        destruct (update_some vs3 nv (SV u)) as [vs4 U4]; [lia|].
        destruct (update_spec _ _ _ _ U4) as (UL4 & UN4 & UO4).
        assert (Hnk : ~ kept ce3 nv).
        { intros Hk. apply kept_add_var in Hk. destruct Hk as [Hk|Hk]; [lia|apply Hkl in Hk; lia]. }
        assert (HJ4 : Jstd ce3 ((x, w) :: rho) n0 (S n2) nv' (Jstd ce rho n0 nv nv' P) vs4 m3).
        { eapply Jstd_update_gen; [exact Hj3|exact U4|exact Hnk|].
          eapply Jstd_update; [exact S1'|exact Hp3|exact U4|lia]. }
        eapply G_pre; [one st_dup; one st_store; apply steps_refl|eapply chg_update; [exact U4|simpl; lia]|simpl; lia|].
        set (JC := fun a' m => Jstd ce3 ((x, w) :: rho) n0 (S n2) nv' (Jstd ce rho n0 nv nv' P) a' m /\
                               nth_error a' nv = Some (SV u)).
        assert (JCk : forall cx' p q m m', g_keep cx' = K -> JC p m -> keepS cx' p q -> m <= m' -> JC q m').
        { intros cx' p q m m' HKe [(Eq & Hnq & Hlq & Hpq) Hgq] Kp Hm. split.
          - split; [eapply envOK_keep; [exact Eq|exact Kp|]|].
            + rewrite HKe. intros i Hi. apply kept_add_var in Hi. destruct Hi as [->|Hi]; [apply HK1; lia|auto].
            + split; [lia|]. split; [destruct Kp; lia|].
              refine (Jstd_stable_cx cx' _ _ _ _ _ _ K S1' S2' HK2 HKe _ _ _ _ Hpq Kp Hm).
          - rewrite <- Hgq. symmetry. apply Kp. rewrite HKe. apply HK1. lia. }
        unfold extf. destruct ext as [e|].
        * apply (impl_body e IHx ce3 (S (S q3)) n3 cx nv' Hx Hatx
                   (cbody {| g_pc := pend; g_st := st; g_base := fk2 ++ F0; g_own := fun i => i = nv \/ S n2 <= i < nv';
                             g_keep := K; g_ce := ce3; g_n0 := n0 |} (fun i => i = nv \/ n3 <= i < nv') ce3 fk3)
                   ((x, w) :: rho) u vs4 m3 JC); simpl; auto; try lia.
          -- intros; apply HK1; lia.
          -- intros i Hi. apply kept_add_var in Hi. destruct Hi as [->|Hi]; [apply HK1; lia|auto].
          -- destruct HJ4 as (E4 & _). eapply envOK_nv; eauto.
          -- intros p q m m' [(Eq & Hnq & Hlq & Hpq) Hgq] C Hm. split.
             ++ split; [eapply envOK_chg; [exact Eq|exact C|simpl; intros; lia]|]. split; [lia|]. split; [destruct C; lia|].
                refine (Jstd_chg _ _ _ _ _ _ _ _ _ _ _ (fun x y k k' => S1' _ x y k k' _) _ Hpq C Hm); simpl; intros; lia.
             ++ rewrite <- Hgq. symmetry. apply C. lia.
          -- intros p q m m' Hq Kp Hm. refine (JCk _ p q m m' _ Hq Kp Hm). reflexivity.
          -- split; [exact HJ4|exact UN4].
        * destruct Hx as [-> ->]. cbn [fst snd].
          eapply G_single; [simpl g_pc; simpl g_st; simpl g_base; unfold pend; simpl; rewrite Nat.add_0_r; apply steps_refl
                           |apply chg_refl|simpl; lia|].
          intros vs5 n5 Kp L5. refine (JCk _ vs4 vs5 m3 n5 _ _ Kp L5); [reflexivity|].
          split; [exact HJ4|exact UN4].
    - split; [exact HJ1|exact UN]. }
  unfold f0. try rewrite Eds. fold updf. fold extf. cbv beta iota.
  destruct (foreach_fold updf extf ws s0) as [os [ex|]] eqn:Eff; cbn [seq fst snd] in *.
  - eapply G_impl; [|exact HGB]. intros s1. apply Tend_weaken. intros p m [Hq _]. exact Hq.
  - rewrite app_nil_r. eapply G_impl; [|exact HGB]. intros s1. apply Tend_weaken. intros p m [Hq _]. exact Hq.
Qed.

Theorem impl_all : forall q, Impl q.
Proof.
  induction q as [ | c | a b IHa IHb | a b IHa IHb | | t IHt | t k IHt | c a b IHc IHa IHb | a b IHa IHb
                 | a h IHa IHh | q IHq | s x i u IHs IHi IHu | s x i u e IHs IHi IHu IHe | l b IHb | l
                 | s x b IHs IHb | x | f | o a b ] using query_ind'.
  - apply impl_id. - apply impl_const. - apply impl_pipe; auto. - apply impl_comma; auto. - apply impl_empty.
  - apply impl_iter; auto. - apply impl_index; auto. - apply impl_if; auto. - apply impl_alt; auto.
  - apply impl_try; auto. - apply impl_array; auto. - apply impl_reduce; auto. - apply impl_foreach; auto.
  - apply impl_label; auto. - apply impl_break. - apply impl_bind; auto. - apply impl_var. - apply impl_call0.
  - apply impl_binop.
Qed.

End C.

(* ---- whole programs ---- *)
Section Top.
Variable nt : natives.

Lemma run_steps : forall code s s', steps nt code s s' -> forall f R, run nt code f s' = R -> exists f', run nt code f' s = R.
Proof.
  induction 1; intros f R HR; eauto.
  destruct (IHsteps f R HR) as (f' & Hf'). exists (S f'). simpl. rewrite H. exact Hf'.
Qed.

(* how a whole run ends, given the ending of the denotation *)
Definition run_is (r : result) (o : list jv * ending) : Prop :=
  match snd r with
  | None => o = (fst r, End)
  | Some (XErr e) => o = (fst r, Error (VE (err_of e)))
  | Some (XBrk _) => False              (* a closed program cannot end with a break *)
  end.

Lemma run_G : forall code rpc K (P : list sv -> nat -> Prop) fin,
  rpc = length code - 1 -> nth_error code rpc = Some Iret ->
  let c0 := ctx_of rpc [] [] 0 0 K ce_empty 0 in
  forall ws hi s, G nt code rpc (ctx_of rpc [] [] 0 hi K ce_empty 0) ws (Tend nt code (ctx_of rpc [] [] 0 hi K ce_empty 0) fin P) s ->
  exists f, run_is (ws, fin) (run nt code f s).
Proof.
  intros code rpc K P fin Hrpc Hret c0. induction ws; intros hi s HG.
  - simpl in HG. destruct HG as (s' & St & _ & _ & (e & vs & n & St2 & _ & _ & HE & _)). simpl in St2, HE.
    assert (HR : exists f, run_is ([], fin) (run nt code f (B e [] vs n))).
    { exists 1. unfold run_is. simpl. destruct fin as [[e0|l]|]; simpl in HE.
      - subst e. reflexivity.
      - destruct HE as (k & id & Hk & _). simpl in Hk. discriminate.
      - subst e. reflexivity. }
    destruct HR as (f & Hf).
    destruct (run_steps _ _ _ (steps_trans _ _ _ _ _ St St2) f _ eq_refl) as (f' & Hf'). exists f'. rewrite Hf'. exact Hf.
  - simpl in HG. destruct HG as (fk' & vs3 & n3 & St & _ & _ & R).
    destruct (R vs3 n3 (keepS_refl _ _) (le_n _)) as [R1 _]. simpl in R1.
    destruct (IHws hi _ R1) as (f & Hf).
    (* ret emits a; the next call of Next re-executes ret in backtrack mode *)
    assert (E1 : step nt code (N rpc rpc (SV a :: []) (fk' ++ []) vs3 n3) =
                 Emit a (Run rpc true None {| stk := []; scopes := []; forks := fk' ++ []; vars := vs3; lbl := n3 |})).
    { unfold N, mk, sc. cbn [step]. rewrite Hret. reflexivity. }
    assert (E2 : step nt code (Run rpc true None {| stk := []; scopes := []; forks := fk' ++ []; vars := vs3; lbl := n3 |}) =
                 Next (B None (fk' ++ []) vs3 n3)).
    { cbn [step]. rewrite Hret. reflexivity. }
    assert (HR : exists f', run_is (a :: ws, fin) (run nt code f' (N rpc rpc (SV a :: []) (fk' ++ []) vs3 n3))).
    { exists (S (S f)).
      change (run nt code (S (S f)) (N rpc rpc [SV a] (fk' ++ []) vs3 n3)) with
        (match step nt code (N rpc rpc [SV a] (fk' ++ []) vs3 n3) with
         | Next s' => run nt code (S f) s'
         | Emit v s' => let '(o, e) := run nt code (S f) s' in (v :: o, e)
         | Halt None => ([], End) | Halt (Some e) => ([], Error e) | Stuck => ([], IsStuck) end).
      rewrite E1.
      change (run nt code (S f) (Run rpc true None {| stk := []; scopes := []; forks := fk' ++ []; vars := vs3; lbl := n3 |})) with
        (match step nt code (Run rpc true None {| stk := []; scopes := []; forks := fk' ++ []; vars := vs3; lbl := n3 |}) with
         | Next s' => run nt code f s'
         | Emit v s' => let '(o, e) := run nt code f s' in (v :: o, e)
         | Halt None => ([], End) | Halt (Some e) => ([], Error e) | Stuck => ([], IsStuck) end).
      rewrite E2.
      unfold run_is in *. cbn [fst snd] in *. destruct (run nt code f (B None (fk' ++ []) vs3 n3)) as [o e'].
      destruct fin as [[e0|l]|]; auto; inversion Hf; subst; reflexivity. }
    destruct HR as (f' & Hf'). simpl in St.
    destruct (run_steps _ _ _ St f' _ eq_refl) as (f'' & Hf''). exists f''. rewrite Hf''. exact Hf'.
Qed.

Theorem compile_raw_correct : forall q code, compile_raw q = Some code ->
  forall v, exists fuel, run_is (den nt q [] v) (run nt code fuel (init v)).
Proof.
  intros q code Hc v. unfold compile_raw in Hc.
  destruct (comp q ce_empty 1 0) as [[c nv]|] eqn:Ec; [|discriminate]. inversion Hc; subst code. clear Hc.
  set (code := Iscope mainscope nv 0 :: c ++ [Iret]).
  set (rpc := length code - 1).
  assert (Hlen : length code = S (S (length c))) by (unfold code; simpl; rewrite app_length; simpl; lia).
  assert (Hrpc : rpc = 1 + length c) by (unfold rpc; lia).
  assert (Hret : nth_error code rpc = Some Iret).
  { rewrite Hrpc. unfold code. simpl. rewrite nth_error_app2 by lia. replace (length c - length c) with 0 by lia. reflexivity. }
  assert (Hat : code_at code 1 c).
  { intros i x Hi. unfold code. simpl. rewrite nth_error_app1; auto. apply nth_error_Some. congruence. }
  set (vs0 := repeat (SV VNull) (2 * nv - 0)).
  assert (E0 : step nt code (init v) = Next (N rpc 1 [SV v] [] vs0 0)).
  { unfold init, N, mk, sc. cbn [step]. unfold code at 1. cbn [nth_error]. reflexivity. }
  pose proof (impl_all nt code rpc q ce_empty 1 0 c nv Ec Hat [] v [] [] vs0 0 0 (fun _ => True) (fun _ _ => True)) as HI.
  cbv zeta in HI.
  assert (HG : G nt code rpc (ctx_of (1 + length c) [] [] 0 nv (fun _ => True) ce_empty 0) (fst (den nt q [] v))
                 (Tend nt code (ctx_of (1 + length c) [] [] 0 nv (fun _ => True) ce_empty 0) (snd (den nt q [] v)) (fun _ _ => True))
                 (N rpc 1 [SV v] [] vs0 0)).
  { apply HI; auto.
    - split; intros a k Hk; simpl in Hk; discriminate.
    - unfold vs0. rewrite repeat_length. lia.
    - split; auto. }
  rewrite <- Hrpc in HG.
  destruct (run_G code rpc (fun _ => True) (fun _ _ => True) (snd (den nt q [] v)) eq_refl Hret _ nv _ HG) as (f & Hf).
  exists (S f).
  change (run nt code (S f) (init v)) with
    (match step nt code (init v) with
     | Next s' => run nt code f s'
     | Emit v s' => let '(o, e) := run nt code f s' in (v :: o, e)
     | Halt None => ([], End) | Halt (Some e) => ([], Error e) | Stuck => ([], IsStuck) end).
  rewrite E0. destruct (den nt q [] v) as [ws fin]. exact Hf.
Qed.
End Top.

