(* C01vm — compile_correct: one lemma per compile function, composed by structural induction. *)
From Coq Require Import List NArith ZArith Bool Arith Lia.
From Verif Require Import c01vm.Syntax c01vm.Code c01vm.VM c01vm.Den c01vm.Compile c01vm.Mach c01vm.Gen c01vm.Lemmas c01vm.Static.
Import ListNotations.

Section C.
Variable nt : natives.
Variable code : list instr.
Variable rpc : nat.

Notation steps := (steps nt code).
Notation N := (N rpc).
Notation G := (G nt code rpc).
Notation Tend := (Tend nt code).
Notation at_ := (at_ code).
Notation code_at := (code_at code).
Notation Impl := (Impl nt code rpc).
Notation den := (den nt).

Ltac one lem := eapply steps_step; [eapply lem; eauto|].
Ltac uncons H A := let H' := fresh "Hat" in destruct (code_at_cons _ _ _ _ H) as [A H']; clear H; rename H' into H.
Ltac impl_intro :=
  intros ce pc nv cq nv' Hc Hat rho v st fk vs n n0 K P HE Hn Hlen HK1 HK2 c [S1 S2] HP.

Lemma impl_id : Impl QId.
Proof.
  impl_intro. simpl in Hc. inversion Hc; subst cq nv'. cbn [Den.den fst snd].
  apply G_single with (vs3 := vs) (n3 := n).
  - subst c; simpl. rewrite Nat.add_0_r. constructor.
  - apply chg_refl.
  - simpl; lia.
  - intros vs2 n2 Kp L. eapply S2; eauto.
Qed.

Lemma impl_const : forall k, Impl (QConst k).
Proof.
  intros k. impl_intro. simpl in Hc. inversion Hc; subst cq nv'. cbn [Den.den fst snd]. uncons Hat A1.
  apply G_single with (vs3 := vs) (n3 := n).
  - subst c; simpl. replace (pc + 1) with (S pc) by lia. one st_const. constructor.
  - apply chg_refl.
  - simpl; lia.
  - intros vs2 n2 Kp L. eapply S2; eauto.
Qed.

Lemma impl_empty : Impl QEmpty.
Proof.
  impl_intro. simpl in Hc. inversion Hc; subst cq nv'. cbn [Den.den fst snd]. uncons Hat A1.
  eapply G_end with (vs3 := vs) (n3 := n) (e := None).
  - subst c; simpl. one st_backtrack. constructor.
  - apply chg_refl.
  - simpl; lia.
  - reflexivity.
  - auto.
Qed.

Lemma impl_call0 : forall f, Impl (QCall0 f).
Proof.
  intros f. impl_intro. simpl in Hc. inversion Hc; subst cq nv'. cbn [Den.den]. uncons Hat A1.
  destruct (n_fn0 nt f v) as [w|e] eqn:E; cbn [of_sum fst snd].
  - apply G_single with (vs3 := vs) (n3 := n).
    + subst c; simpl. replace (pc + 1) with (S pc) by lia. one st_call0_ok. constructor.
    + apply chg_refl.
    + simpl; lia.
    + intros vs2 n2 Kp L. eapply S2; eauto.
  - eapply G_end with (vs3 := vs) (n3 := n).
    + subst c; simpl. one st_call0_err. constructor.
    + apply chg_refl.
    + simpl; lia.
    + reflexivity.
    + auto.
Qed.

Lemma impl_var : forall x, Impl (QVar x).
Proof.
  intros x. impl_intro. simpl in Hc. destruct (lookup x (ce_vars ce)) as [k|] eqn:Ex; [|discriminate].
  inversion Hc; subst cq nv'. uncons Hat A1. uncons Hat A2.
  destruct HE as [Hv Hl]. destruct (Hv _ _ Ex) as (Hk & w & Hw & Hnth).
  cbn [Den.den]. rewrite Hw. cbn [fst snd].
  apply G_single with (vs3 := vs) (n3 := n).
  - subst c; simpl. replace (pc + 2) with (S (S pc)) by lia. one st_pop. one st_load. constructor.
  - apply chg_refl.
  - simpl; lia.
  - intros vs2 n2 Kp L. eapply S2; eauto.
Qed.

Lemma impl_break : forall l, Impl (QBreak l).
Proof.
  intros l. impl_intro. simpl in Hc. destruct (lookup l (ce_lbls ce)) as [k|] eqn:Ex; [|discriminate].
  inversion Hc; subst cq nv'. uncons Hat A1. uncons Hat A2. uncons Hat A3.
  destruct HE as [Hv Hl]. destruct (Hl _ _ Ex) as (Hk & id & Hnth & Hid).
  cbn [Den.den fst snd].
  eapply G_end with (vs3 := vs) (n3 := n).
  - subst c; simpl. one st_pop. one st_load. one st_break. constructor.
  - apply chg_refl.
  - simpl; lia.
  - simpl. exists k, id. auto.
  - auto.
Qed.

(* the standard invariant threaded through a composition: environment, sizes, the caller's P *)
Definition Jstd (ce : cenv) (rho : venv) (n0 nv hi : nat) (P : list sv -> nat -> Prop)
  (vs : list sv) (n : nat) : Prop :=
  envOK ce rho vs n0 nv /\ n0 <= n /\ hi <= length vs /\ P vs n.

Lemma Jstd_chg : forall ce rho n0 nv hi (P : list sv -> nat -> Prop) (O : nat -> Prop) a b m m',
  (forall x y k k', P x k -> chg O x y -> k <= k' -> P y k') ->
  (forall i, O i -> nv <= i) ->
  Jstd ce rho n0 nv hi P a m -> chg O a b -> m <= m' -> Jstd ce rho n0 nv hi P b m'.
Proof.
  intros ce rho n0 nv hi P O a b m m' HP HO (E & Hn & Hl & Hp) C Hm.
  split; [eapply envOK_chg; eauto|]. split; [lia|]. split; [destruct C; lia|]. eapply HP; eauto.
Qed.
Lemma Jstd_keep : forall c ce rho n0 nv hi (P : list sv -> nat -> Prop) a b m m',
  (forall x y k k', P x k -> keepS c x y -> k <= k' -> P y k') ->
  (forall i, kept ce i -> g_keep c i) ->
  Jstd ce rho n0 nv hi P a m -> keepS c a b -> m <= m' -> Jstd ce rho n0 nv hi P b m'.
Proof.
  intros c ce rho n0 nv hi P a b m m' HP HK (E & Hn & Hl & Hp) C Hm.
  split; [eapply envOK_keep; eauto|]. split; [lia|]. split; [destruct C; lia|]. eapply HP; eauto.
Qed.

Lemma Tend_weaken : forall c fin (P P' : list sv -> nat -> Prop) s,
  (forall a m, P a m -> P' a m) -> Tend c fin P s -> Tend c fin P' s.
Proof.
  intros c fin P P' s H (e & vs & n & St & Ch & Le & HE & HP). exists e, vs, n. auto 6.
Qed.

(* the caller's P is stable under any write inside the segment's own range *)
Lemma stable_sub : forall pc' st fk nv nv' K ce n0 (P : list sv -> nat -> Prop),
  stable (ctx_of pc' st fk nv nv' K ce n0) P ->
  (forall (O : nat -> Prop) x y k k', (forall i, O i -> nv <= i < nv') -> P x k -> chg O x y -> k <= k' -> P y k') /\
  (forall pc'' st' fk' lo hi ce' n0' x y k k', P x k -> keepS (ctx_of pc'' st' fk' lo hi K ce' n0') x y -> k <= k' -> P y k').
Proof.
  intros pc' st fk nv nv' K ce n0 P [S1 S2]. split.
  - intros O x y k k' HO Hp C Hk. eapply S1; [exact Hp| |exact Hk]. eapply chg_mono; [|exact C]. exact HO.
  - intros pc'' st' fk' lo hi ce' n0' x y k k' Hp C Hk. eapply S2; [exact Hp| |exact Hk]. exact C.
Qed.

Lemma Tend_sub : forall cb c fin (P : list sv -> nat -> Prop) s,
  g_base cb = g_base c -> g_ce cb = g_ce c -> (forall i, g_own cb i -> g_own c i) ->
  Tend cb fin P s -> Tend c fin P s.
Proof.
  intros cb c fin P s H1 H2 H3 (e & vs & n & St & Ch & Le & HE & HP). exists e, vs, n.
  rewrite <- H1, <- H2. split; [auto|]. split; [eapply chg_mono; eauto|]. auto.
Qed.

Lemma impl_pipe : forall a b, Impl a -> Impl b -> Impl (QPipe a b).
Proof.
  intros a b IHa IHb. impl_intro. simpl in Hc. dcomp. inversion Hc; subst cq nv'. clear Hc.
  rename l into ca, l0 into cb.
  destruct (code_at_app _ _ _ _ Hat) as [Hata Hatb].
  pose proof (comp_mono _ _ _ _ _ _ Ec) as M1. pose proof (comp_mono _ _ _ _ _ _ Ec0) as M2.
  assert (Hkl : forall i, kept ce i -> i < nv) by (intros; eapply kept_lt; eauto).
  destruct (stable_sub _ _ _ _ _ _ _ _ _ (conj S1 S2)) as [S1' S2']. clear S1 S2.
  subst c. rewrite app_length, Nat.add_assoc.
  set (c := ctx_of (pc + length ca + length cb) st fk nv n2 K ce n0).
  set (c1 := ctx_of (pc + length ca) st fk nv n1 (fun i => nv <= i < n1 \/ kept ce i) ce n0).
  set (J := fun (_ : unit) => Jstd ce rho n0 nv n2 P).
  set (fb := fun (_ : unit) w => (fst (den b rho w), snd (den b rho w), tt)).
  assert (HA : G c1 (fst (den a rho v)) (Tend c1 (snd (den a rho v)) (fun _ _ => True)) (N pc (SV v :: st) fk vs n)).
  { apply (IHa ce pc nv ca n1 Ec Hata rho v st fk vs n n0 _ (fun _ _ => True)); auto; try lia.
    split; auto. }
  cbn [Den.den]. unfold bind.
  pose proof (foldgen_bind (den b rho) (fst (den a rho v))) as Ef. fold fb in Ef.
  destruct (bind_list (fst (den a rho v)) (den b rho)) as [os x] eqn:Eb. cbn [fst snd] in Ef.
  assert (HG : G c os (Tend c (match x with Some e => Some e | None => snd (den a rho v) end) (J tt))
                 (N pc (SV v :: st) fk vs n)).
  { refine (G_fold nt code rpc c1 c unit J fb (fun i => n1 <= i < n2) ce eq_refl eq_refl eq_refl
              _ _ _ _ eq_refl _ _ _ _ tt _ _ _ _ _ HA _ Ef).
    - simpl; intros; lia.
    - simpl; intros; lia.
    - simpl. intros i [Hi|Hi]; split; try lia; [apply HK1; lia|apply HK2; auto|apply Hkl in Hi; lia].
    - simpl. intros i Hi. apply Hkl in Hi. lia.
    - intros g p q m m' Hj C Hm.
      refine (Jstd_chg _ _ _ _ _ _ _ _ _ _ _ (fun x y k k' => S1' _ x y k k' _) _ Hj C Hm); simpl; intros; lia.
    - intros g p m (E & _). eapply envOK_lblOK; eauto.
    - intros w g fk' vs' n' os' x' g' (E & Hn' & Hl' & Hp') Efb. unfold fb in Efb. inversion Efb; subst os' x' g'.
      apply (IHb ce (pc + length ca) n1 cb n2 Ec0 Hatb rho w st (fk' ++ fk) vs' n' n0 K (J tt)); auto.
      + eapply envOK_nv; eauto.
      + intros; apply HK1; lia.
      + split.
        * intros p q m m' Hj C Hm.
          refine (Jstd_chg _ _ _ _ _ _ _ _ _ _ _ (fun x y k k' => S1' _ x y k k' _) _ Hj C Hm); simpl; intros; lia.
        * intros p q m m' Hj C Hm.
          refine (Jstd_keep _ _ _ _ _ _ _ _ _ _ _ (fun x y k k' => S2' _ _ _ _ _ _ _ x y k k') _ Hj C Hm). exact HK2.
      + split; auto.
    - simpl. split; auto. }
  destruct x as [e|]; (eapply G_impl; [|exact HG]); intros s0; apply Tend_weaken; intros p m (_ & _ & _ & Hp); exact Hp.
Qed.

(* P := Jstd is itself stable in a context whose own range lies inside [nv, hi) *)
Lemma Jstd_stable : forall pc' st fk lo hi' K ce' n0' ce rho n0 nv hi (P : list sv -> nat -> Prop),
  (forall (O : nat -> Prop) x y k k', (forall i, O i -> nv <= i < hi) -> P x k -> chg O x y -> k <= k' -> P y k') ->
  (forall pc'' st' fk' lo hi ce' n0' x y k k', P x k -> keepS (ctx_of pc'' st' fk' lo hi K ce' n0') x y -> k <= k' -> P y k') ->
  (forall i, kept ce i -> K i) -> nv <= lo -> hi' <= hi ->
  stable (ctx_of pc' st fk lo hi' K ce' n0') (Jstd ce rho n0 nv hi P).
Proof.
  intros pc' st fk lo hi' K ce' n0' ce rho n0 nv hi P S1' S2' HK2 H1 H2. split.
  - intros p q m m' Hj C Hm.
    refine (Jstd_chg _ _ _ _ _ _ _ _ _ _ _ (fun x y k k' => S1' _ x y k k' _) _ Hj C Hm); simpl; intros; lia.
  - intros p q m m' Hj C Hm.
    refine (Jstd_keep _ _ _ _ _ _ _ _ _ _ _ (fun x y k k' => S2' _ _ _ _ _ _ _ x y k k') _ Hj C Hm). exact HK2.
Qed.

Lemma fork_transparent : forall pc t st fk x vs n, at_ pc (Ifork t) ->
  steps (B (Some x) (F rpc pc st :: fk) vs n) (B (Some x) fk vs n).
Proof. intros. one st_popfork. one bt_fork_err. constructor. Qed.

Lemma impl_comma : forall a b, Impl a -> Impl b -> Impl (QComma a b).
Proof.
  intros a b IHa IHb. impl_intro. simpl in Hc. dcomp. inversion Hc; subst cq nv'. clear Hc.
  rename l into ca, l0 into cb.
  uncons Hat A1. destruct (code_at_app _ _ _ _ Hat) as [Hata Hat2]. uncons Hat2 A2. rename Hat2 into Hatb.
  pose proof (comp_mono _ _ _ _ _ _ Ec) as M1. pose proof (comp_mono _ _ _ _ _ _ Ec0) as M2.
  assert (Hkl : forall i, kept ce i -> i < nv) by (intros; eapply kept_lt; eauto).
  destruct (stable_sub _ _ _ _ _ _ _ _ _ (conj S1 S2)) as [S1' S2']. clear S1 S2.
  set (L := pc + 1 + length ca + 1) in *.
  replace (S (S pc + length ca)) with L in Hatb by (unfold L; lia).
  assert (Epc : pc + length (Ifork L :: ca ++ Ijump (L + length cb) :: cb) = L + length cb).
  { simpl. rewrite app_length. simpl. unfold L. lia. }
  subst c. rewrite Epc.
  set (c := ctx_of (L + length cb) st fk nv n2 K ce n0).
  set (fx := F rpc pc (SV v :: st)).
  set (Pa := Jstd ce rho n0 nv n2 P).
  (* a, with the fork of the comma below its forks *)
  assert (HA : G (ctx_of (S pc + length ca) st (fx :: fk) nv n1 K ce n0) (fst (den a rho v))
                 (Tend (ctx_of (S pc + length ca) st (fx :: fk) nv n1 K ce n0) (snd (den a rho v)) Pa)
                 (N (S pc) (SV v :: st) (fx :: fk) vs n)).
  { apply (IHa ce (S pc) nv ca n1 Ec Hata rho v st (fx :: fk) vs n n0 K Pa); auto; try lia.
    - intros; apply HK1; lia.
    - apply Jstd_stable; auto.
    - split; auto. }
  apply G_exit with (pc2 := L + length cb) in HA.
  2:{ intros w f vs' n'. one st_jump. constructor. }
  eapply G_pre; [one st_fork; constructor|apply chg_refl|simpl; lia|].
  set (ca' := {| g_pc := L + length cb; g_st := st; g_base := fx :: fk; g_own := fun i => nv <= i < n1;
                 g_keep := K; g_ce := ce; g_n0 := n0 |}) in HA.
  cbn [Den.den]. destruct (den a rho v) as [wsa [xa|]] eqn:Ea; cbn [seq fst snd] in *.
  - (* a raised: the fork propagates the error *)
    refine (G_ctx nt code rpc ca' c [fx] (fun _ _ => True) _ _ eq_refl eq_refl eq_refl _ _ (le_n _) _ _ _ _ _ _ I HA); auto.
    + simpl; intros; lia.
    + intros x vs' n' _ _. exists vs', n'. split; [eapply fork_transparent; eauto|]. split; [apply chg_refl|lia].
    + intros s1 _ (e & vs4 & n4 & St4 & Ch4 & Le4 & HE4 & HP4).
      destruct (encR_some _ _ _ _ HE4) as (y & ->). simpl in St4, Ch4, HE4.
      exists (Some y), vs4, n4. split; [eapply steps_trans; [exact St4|eapply fork_transparent; eauto]|].
      split; [eapply chg_mono; [|exact Ch4]; simpl; intros; lia|]. split; [auto|]. split; [exact HE4|apply HP4].
  - (* a ended: the fork resumes at b *)
    apply G_app.
    refine (G_ctx nt code rpc ca' c [fx] (fun _ _ => True) _ _ eq_refl eq_refl eq_refl _ _ (le_n _) _ _ _ _ _ _ I HA); auto.
    + simpl; intros; lia.
    + intros x vs' n' _ _. exists vs', n'. split; [eapply fork_transparent; eauto|]. split; [apply chg_refl|lia].
    + intros s1 _ (e & vs4 & n4 & St4 & Ch4 & Le4 & HE4 & (E4 & Hn4 & Hl4 & HP4)). simpl in St4, Ch4, HE4. subst e.
      eapply G_pre; [eapply steps_trans; [exact St4|one st_popfork; one bt_fork_none; constructor]
                    |eapply chg_mono; [|exact Ch4]; simpl; intros; lia|exact Le4|].
      pose proof (IHb ce L n1 cb n2 Ec0 Hatb rho v st fk vs4 n4 n0 K P) as HB.
      refine (G_sub nt code rpc (ctx_of (L + length cb) st fk n1 n2 K ce n0) c _ _ eq_refl eq_refl eq_refl _ _ (le_n _) _ _ _ (HB _ _ _ _ _ _ _)); auto.
      * simpl; intros; lia.
      * intros s2. apply Tend_sub; auto. simpl; intros; lia.
      * eapply envOK_nv; eauto.
      * intros; apply HK1; lia.
      * split; [intros p q m m' Hp C Hm; eapply S1'; eauto; simpl; intros; lia|intros p q m m' Hp C Hm; eapply S2'; eauto].
Qed.

(* G_fold with the standard side conditions discharged *)
Lemma fold_std : forall pc1 st1 lo1 hi1 pc' st fk nv nv' K ce n0 rho (P : list sv -> nat -> Prop)
   (X : Type) (Jg : X -> list sv -> Prop) (fb : X -> jv -> list jv * option exn * X)
   (ownb : nat -> Prop) (ceb : cenv),
   let c := ctx_of pc' st fk nv nv' K ce n0 in
   let c1 := ctx_of pc1 st1 fk lo1 hi1 (fun i => lo1 <= i < hi1 \/ kept ce i) ce n0 in
   let J := fun g a m => Jstd ce rho n0 nv nv' P a m /\ Jg g a in
   stable c P -> nv <= lo1 -> hi1 <= nv' ->
   (forall i, kept ce i -> i < nv) -> (forall i, nv <= i < nv' -> K i) -> (forall i, kept ce i -> K i) ->
   (forall i, ownb i -> nv <= i < nv' /\ ~ (lo1 <= i < hi1)) ->
   ce_lbls ceb = ce_lbls ce ->
   (forall g a b, Jg g a -> chg (fun i => lo1 <= i < hi1) a b -> Jg g b) ->
   (forall w g fk' vs n os x g', J g vs n -> fb g w = (os, x, g') ->
        G (cbody c ownb ceb fk') os (Tend (cbody c ownb ceb fk') x (J g')) (N pc1 (SV w :: st1) (fk' ++ fk) vs n)) ->
   forall ws1 g s fin1 os x g',
     G c1 ws1 (Tend c1 fin1 (fun _ _ => True)) s -> J g (vars_of s) (lbl_of s) -> foldgen X fb ws1 g = (os, x, g') ->
     G c os (Tend c (match x with Some e => Some e | None => fin1 end) (J g')) s.
Proof.
  intros pc1 st1 lo1 hi1 pc' st fk nv nv' K ce n0 rho P X Jg fb ownb ceb c c1 J HS H1 H2 Hkl HK1 HK2 Hob Hlb HJg Hbody
         ws1 g s fin1 os x g' HA HJ Ef.
  destruct (stable_sub _ _ _ _ _ _ _ _ _ HS) as [S1' S2'].
  refine (G_fold nt code rpc c1 c X J fb ownb ceb eq_refl eq_refl eq_refl _ _ _ _ Hlb _ _ Hbody ws1 g s fin1 os x g' HA HJ Ef).
  - simpl; intros; lia.
  - intros i Hi. apply Hob in Hi. simpl. tauto.
  - simpl. intros i [Hi|Hi]; split.
    + apply HK1; lia. + intro Ho. apply Hob in Ho. tauto.
    + apply HK2; auto. + intro Ho. apply Hob in Ho. apply Hkl in Hi. lia.
  - simpl. intros i Hi. apply Hkl in Hi. lia.
  - intros g0 p q m m' [Hj Hg] C Hm. split; [|eapply HJg; eauto].
    refine (Jstd_chg _ _ _ _ _ _ _ _ _ _ _ (fun x y k k' => S1' _ x y k k' _) _ Hj C Hm); simpl; intros; lia.
  - intros g0 p m [(E & _) _]. eapply envOK_lblOK; eauto.
Qed.

(* an Impl used as inner generator *)
Lemma impl_inner : forall q, Impl q -> forall ce pc nv cq nv', comp q ce pc nv = Some (cq, nv') -> code_at pc cq ->
  forall rho v st fk vs n n0, envOK ce rho vs n0 nv -> n0 <= n -> nv' <= length vs ->
  let c1 := ctx_of (pc + length cq) st fk nv nv' (fun i => nv <= i < nv' \/ kept ce i) ce n0 in
  G c1 (fst (den q rho v)) (Tend c1 (snd (den q rho v)) (fun _ _ => True)) (N pc (SV v :: st) fk vs n).
Proof.
  intros q IH ce pc nv cq nv' Ec Hat rho v st fk vs n n0 HE Hn Hl c1.
  apply (IH ce pc nv cq nv' Ec Hat rho v st fk vs n n0 _ (fun _ _ => True)); auto. split; auto.
Qed.

(* opiter enumerating the rest of a list *)
Lemma G_iter_list : forall cx pcI (P : list sv -> nat -> Prop), at_ pcI Iiter -> g_pc cx = S pcI ->
  (forall a b m m', P a m -> keepS cx a b -> m <= m' -> P b m') ->
  forall xs vs n, P vs n ->
  G cx xs (Tend cx None P) (iter_state rpc pcI xs (g_st cx) (g_base cx) vs n).
Proof.
  intros cx pcI P Hat Hpc HP. induction xs as [|x r IH]; intros vs n Hp.
  - simpl. eapply G_end; [apply steps_refl|apply chg_refl|simpl; lia|reflexivity|auto].
  - destruct r as [|y r].
    + simpl. eapply G_single; [rewrite Hpc; apply steps_refl|apply chg_refl|simpl; lia|].
      intros; eapply HP; eauto.
    + change (G cx (x :: y :: r) (Tend cx None P)
                (N (S pcI) (SV x :: g_st cx) (F rpc pcI (SIt (y :: r) :: g_st cx) :: g_base cx) vs n)).
      eapply (G_cons nt code rpc cx x (y :: r) _ _ [F rpc pcI (SIt (y :: r) :: g_st cx)] vs n);
        [rewrite Hpc; apply steps_refl|apply chg_refl|simpl; lia|].
      intros vs2 n2 Kp L2. split.
      * simpl app. eapply G_pre; [one st_popfork; one bt_iter_none; apply steps_refl|rewrite iter_state_vars; apply chg_refl|rewrite iter_state_lbl; simpl; lia|].
        apply IH. eapply HP; eauto.
      * intros e _. exists vs2, n2. simpl app. split; [one st_popfork; one bt_iter_err; apply steps_refl|].
        split; [apply chg_refl|lia].
Unshelve. all: try exact None. all: try exact 0. all: try exact []. Qed.

Lemma G_iter : forall cx pcI (P : list sv -> nat -> Prop) w vs n, at_ pcI Iiter -> g_pc cx = S pcI ->
  (forall a b m m', P a m -> keepS cx a b -> m <= m' -> P b m') -> P vs n ->
  G cx (fst (iter_res nt w)) (Tend cx (snd (iter_res nt w)) P) (N pcI (SV w :: g_st cx) (g_base cx) vs n).
Proof.
  intros cx pcI P w vs n Hat Hpc HP Hp. unfold iter_res. destruct (n_iter nt w) as [xs|e] eqn:E; cbn [fst snd].
  - eapply G_pre; [one st_iter_ok; apply steps_refl|rewrite iter_state_vars; apply chg_refl
                  |rewrite iter_state_lbl; simpl; lia|eapply G_iter_list; eauto].
  - eapply G_end; [one st_iter_err; constructor|apply chg_refl|simpl; lia|reflexivity|auto].
Qed.

Lemma G_index : forall cx pcI k (P : list sv -> nat -> Prop) w vs n, at_ pcI (Iindex k) -> g_pc cx = S pcI ->
  (forall a b m m', P a m -> keepS cx a b -> m <= m' -> P b m') -> P vs n ->
  G cx (fst (of_sum (n_index nt w k))) (Tend cx (snd (of_sum (n_index nt w k))) P)
    (N pcI (SV w :: g_st cx) (g_base cx) vs n).
Proof.
  intros cx pcI k P w vs n Hat Hpc HP Hp. destruct (n_index nt w k) as [r|e] eqn:E; cbn [of_sum fst snd].
  - eapply G_single; [rewrite Hpc; one st_index_ok; constructor|apply chg_refl|simpl; lia|].
    intros; eapply HP; eauto.
  - eapply G_end; [one st_index_err; constructor|apply chg_refl|simpl; lia|reflexivity|auto].
Qed.

(* t followed by one instruction that is a generator on the top of the stack *)
Lemma postfix_std : forall t (f : jv -> result) (i : instr), Impl t ->
  (forall cx pcI (P : list sv -> nat -> Prop) w vs n, at_ pcI i -> g_pc cx = S pcI ->
     (forall a b m m', P a m -> keepS cx a b -> m <= m' -> P b m') -> P vs n ->
     G cx (fst (f w)) (Tend cx (snd (f w)) P) (N pcI (SV w :: g_st cx) (g_base cx) vs n)) ->
  forall ce pc nv ct nv', comp t ce pc nv = Some (ct, nv') -> code_at pc (ct ++ [i]) ->
  forall rho v st fk vs n n0 (K : nat -> Prop) (P : list sv -> nat -> Prop),
    envOK ce rho vs n0 nv -> n0 <= n -> nv' <= length vs ->
    (forall i, nv <= i < nv' -> K i) -> (forall i, kept ce i -> K i) ->
    let c := ctx_of (pc + length (ct ++ [i])) st fk nv nv' K ce n0 in
    stable c P -> P vs n ->
    G c (fst (bind (den t rho v) f)) (Tend c (snd (bind (den t rho v) f)) P) (N pc (SV v :: st) fk vs n).
Proof.
  intros t f i IHt Hbody ce pc nv ct nv' Ec Hat rho v st fk vs n n0 K P HE Hn Hlen HK1 HK2 c HS HP.
  destruct (code_at_app _ _ _ _ Hat) as [Hatt Hati]. uncons Hati Ai.
  pose proof (comp_mono _ _ _ _ _ _ Ec) as M1.
  assert (Hkl : forall j, kept ce j -> j < nv) by (intros; eapply kept_lt; eauto).
  destruct (stable_sub _ _ _ _ _ _ _ _ _ HS) as [S1' S2'].
  pose proof (impl_inner t IHt ce pc nv ct nv' Ec Hatt rho v st fk vs n n0 HE Hn Hlen) as HA. cbv zeta in HA.
  set (fb := fun (_ : unit) w => (fst (f w), snd (f w), tt)).
  unfold bind.
  pose proof (foldgen_bind f (fst (den t rho v))) as Ef. fold fb in Ef.
  destruct (bind_list (fst (den t rho v)) f) as [os x] eqn:Eb. cbn [fst snd] in Ef.
  assert (Epc : pc + length (ct ++ [i]) = S (pc + length ct)) by (rewrite app_length; simpl; lia).
  pose proof (fold_std (pc + length ct) st nv nv' (pc + length (ct ++ [i])) st fk nv nv' K ce n0 rho P
                unit (fun _ _ => True) fb (fun _ => False) ce HS (le_n _) (le_n _) Hkl HK1 HK2) as HF.
  cbv zeta in HF.
  assert (HG := fun H1 H2 H3 H4 => HF H1 eq_refl H2 H3 (fst (den t rho v)) tt _ (snd (den t rho v)) os x tt HA H4 Ef).
  clear HF.
  assert (HG' : G c os (Tend c (match x with Some e => Some e | None => snd (den t rho v) end)
                          (fun a m => Jstd ce rho n0 nv nv' P a m /\ True)) (N pc (SV v :: st) fk vs n)).
  { apply HG.
    - intros j [].
    - auto.
    - intros w g fk' vs' n' os' x' g' [Hj _] Efb. unfold fb in Efb. inversion Efb; subst os' x' g'.
      apply (Hbody (cbody c (fun _ => False) ce fk') (pc + length ct)); auto.
      + intros a b m m' [Hja _] Kp Hm. split; auto.
        refine (Jstd_keep _ _ _ _ _ _ _ _ _ _ _ (fun x y k k' => S2' _ _ _ _ _ _ _ x y k k') _ Hja Kp Hm). exact HK2.
    - simpl. split; auto. split; auto. }
  destruct x as [e|]; (eapply G_impl; [|exact HG']); intros s0; apply Tend_weaken;
    intros p m ((_ & _ & _ & Hp) & _); exact Hp.
Unshelve. all: try exact 0. all: try exact (@nil sv). all: try exact (@nil fork). all: try exact ce_empty. Qed.

Lemma impl_iter : forall t, Impl t -> Impl (QIter t).
Proof.
  intros t IHt. impl_intro. simpl in Hc. dcomp. inversion Hc; subst cq nv'. clear Hc.
  cbn [Den.den]. eapply postfix_std; eauto. intros; apply G_iter; auto. split; auto.
Qed.

Lemma impl_index : forall t k, Impl t -> Impl (QIndex t k).
Proof.
  intros t k IHt. impl_intro. simpl in Hc. dcomp. inversion Hc; subst cq nv'. clear Hc.
  cbn [Den.den]. eapply (postfix_std t (fun w => of_sum (n_index nt w k))); eauto.
  intros; apply G_index; auto. split; auto.
Qed.

(* generic bind: every output of an inner generator starts a body generator *)
Lemma bind_std : forall (f : jv -> result) pc1 st1 lo1 hi1 pc' st fk nv nv' K ce n0 rho (P : list sv -> nat -> Prop)
   (ownb : nat -> Prop) (ceb : cenv),
   let c := ctx_of pc' st fk nv nv' K ce n0 in
   let c1 := ctx_of pc1 st1 fk lo1 hi1 (fun i => lo1 <= i < hi1 \/ kept ce i) ce n0 in
   stable c P -> nv <= lo1 -> hi1 <= nv' ->
   (forall i, kept ce i -> i < nv) -> (forall i, nv <= i < nv' -> K i) -> (forall i, kept ce i -> K i) ->
   (forall i, ownb i -> nv <= i < nv' /\ ~ (lo1 <= i < hi1)) ->
   ce_lbls ceb = ce_lbls ce ->
   (forall w fk' vs n, Jstd ce rho n0 nv nv' P vs n ->
        G (cbody c ownb ceb fk') (fst (f w)) (Tend (cbody c ownb ceb fk') (snd (f w)) (Jstd ce rho n0 nv nv' P))
          (N pc1 (SV w :: st1) (fk' ++ fk) vs n)) ->
   forall r s, G c1 (fst r) (Tend c1 (snd r) (fun _ _ => True)) s -> Jstd ce rho n0 nv nv' P (vars_of s) (lbl_of s) ->
     G c (fst (bind r f)) (Tend c (snd (bind r f)) P) s.
Proof.
  intros f pc1 st1 lo1 hi1 pc' st fk nv nv' K ce n0 rho P ownb ceb c c1 HS H1 H2 Hkl HK1 HK2 Hob Hlb Hbody r s HA HJ.
  set (fb := fun (_ : unit) w => (fst (f w), snd (f w), tt)).
  unfold bind.
  pose proof (foldgen_bind f (fst r)) as Ef. fold fb in Ef.
  destruct (bind_list (fst r) f) as [os x] eqn:Eb. cbn [fst snd] in Ef.
  pose proof (fold_std pc1 st1 lo1 hi1 pc' st fk nv nv' K ce n0 rho P
                unit (fun _ _ => True) fb ownb ceb HS H1 H2 Hkl HK1 HK2 Hob Hlb) as HF.
  cbv zeta in HF.
  assert (HG' : G c os (Tend c (match x with Some e => Some e | None => snd r end)
                          (fun a m => Jstd ce rho n0 nv nv' P a m /\ True)) s).
  { refine (HF _ _ (fst r) tt s (snd r) os x tt HA _ Ef); auto.
    intros w g fk' vs' n' os' x' g' [Hj _] Efb. unfold fb in Efb. inversion Efb; subst os' x' g'.
    eapply G_impl; [|apply Hbody; auto]. intros s0. apply Tend_weaken. auto. }
  destruct x as [e|]; (eapply G_impl; [|exact HG']); intros s0; apply Tend_weaken;
    intros p m ((_ & _ & _ & Hp) & _); exact Hp.
Qed.

(* an Impl used as (part of) a body, in an arbitrary context whose own set contains its range *)
Lemma impl_body : forall q, Impl q -> forall ceq pcq nvq cq nvq', comp q ceq pcq nvq = Some (cq, nvq') -> code_at pcq cq ->
  forall cx rhoq v vs n (P : list sv -> nat -> Prop),
    g_pc cx = pcq + length cq ->
    ce_lbls (g_ce cx) = ce_lbls ceq ->
    (forall i, nvq <= i < nvq' -> g_own cx i) ->
    (forall i, nvq <= i < nvq' -> g_keep cx i) -> (forall i, kept ceq i -> g_keep cx i) ->
    envOK ceq rhoq vs (g_n0 cx) nvq -> g_n0 cx <= n -> nvq' <= length vs ->
    (forall a b m m', P a m -> chg (fun i => nvq <= i < nvq') a b -> m <= m' -> P b m') ->
    (forall a b m m', P a m -> keepS cx a b -> m <= m' -> P b m') ->
    P vs n ->
    G cx (fst (den q rhoq v)) (Tend cx (snd (den q rhoq v)) P) (N pcq (SV v :: g_st cx) (g_base cx) vs n).
Proof.
  intros q IH ceq pcq nvq cq nvq' Ec Hat cx rhoq v vs n P Hpc Hlb Hown Hk1 Hk2 HE Hn Hl HP1 HP2 HP.
  pose proof (IH ceq pcq nvq cq nvq' Ec Hat rhoq v (g_st cx) (g_base cx) vs n (g_n0 cx) (g_keep cx) P HE Hn Hl Hk1 Hk2) as H.
  cbv zeta in H.
  refine (G_sub nt code rpc (ctx_of (pcq + length cq) (g_st cx) (g_base cx) nvq nvq' (g_keep cx) ceq (g_n0 cx))
            cx _ _ (eq_sym Hpc) eq_refl eq_refl Hown _ (le_n _) _ _ _ (H _ HP)).
  - intros a b Kp. exact Kp.
  - intros s0 (e & vs4 & n4 & St & Ch & Le & HE4 & HP4). exists e, vs4, n4. simpl in *.
    split; [exact St|]. split; [exact (chg_mono _ _ _ _ Hown Ch)|]. split; [exact Le|]. split; [|exact HP4].
    eapply encR_lbls; [|exact HE4]. auto.
  - split; [exact HP1|]. intros a b m m' Hp Kp Hm. eapply HP2; eauto.
Qed.

End C.
