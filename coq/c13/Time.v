(* gmtime / mktime on whole seconds (definitions only; proofs in TimeProofs.v).

   func.go: funcGmtime -> epochToArray(v, time.UTC) = time.Unix(int64(v), frac).In(UTC) broken into
              [Year, Month-1, Day, Hour, Minute, float64(Second)+frac, Weekday, YearDay-1]
            funcMktime -> arrayToTime(a, time.UTC) = time.Date(a0, Month(a1+1), a2, a3, a4, int(a5), frac, UTC);
              timeToEpoch = float64(t.Unix()) + frac
   package time (Go 1.24, time.go "Computations on Times"): absolute days since March 1 of the year
   -absoluteYears, split by the Euclidean affine functions quoted in that comment.  The multiply-shift
   forms the library uses for two of the divisions are written out and proved equal in TimeProofs.v. *)
From Coq Require Import List NArith ZArith Bool.
From Verif Require Import c13.Jv.
Import ListNotations.
Open Scope Z_scope.

Definition absolute_years : Z := 292277022400.
Definition unix_to_absolute : Z := 9223372028741760000.   (* unixToInternal + internalToAbsolute *)
Definition march_thru_december : Z := 306.

Record civil := { c_year : Z; c_month : Z (* 1..12 *); c_day : Z; c_hour : Z; c_min : Z; c_sec : Z;
                  c_wday : Z; c_yday : Z (* 1-based *) }.

(* absDays.split, with the library's multiply-high form:
     hi, lo := bits.Mul32(2939745, cd); cyear = hi; ayday = lo / 2939745 / 4 *)
Definition split_days (days : Z) : Z * Z * Z :=
  let d := 4 * days + 3 in
  let century := d / 146097 in
  let cd := 4 * ((d mod 146097) / 4) + 3 in          (* uint32(d % 146097) | 3 *)
  let prod := 2939745 * cd in
  let cyear := prod / 4294967296 in
  let ayday := (prod mod 4294967296) / 2939745 / 4 in
  (century, cyear, ayday).

(* absYday.split:  d := 2141*ayday + 197913; month = d >> 16; mday = 1 + (d & 0xFFFF)/2141 *)
Definition split_yday (ayday : Z) : Z * Z :=
  let d := 2141 * ayday + 197913 in (d / 65536, 1 + (d mod 65536) / 2141).

Definition b2z (b : bool) : Z := if b then 1 else 0.

(* Time.Year/Month/Day/Hour/Minute/Second/Weekday/YearDay of time.Unix(t, 0).UTC() *)
Definition civil_of_unix (t : Z) : civil :=
  let abs := t + unix_to_absolute in
  let days := abs / 86400 in
  let secs := abs mod 86400 in
  let '(century, cyear, ayday) := split_days days in
  let '(amonth, mday) := split_yday ayday in
  let jf := b2z (march_thru_december <=? ayday) in
  let leap := b2z ((cyear mod 4 =? 0) && (negb (cyear =? 0) || (century mod 4 =? 0))) in
  {| c_year := century * 100 - absolute_years + cyear + jf;
     c_month := amonth - 12 * jf;
     c_day := mday;
     c_hour := secs / 3600; c_min := (secs mod 3600) / 60; c_sec := secs mod 60;
     c_wday := (days + 3) mod 7;
     c_yday := ayday + 60 + (if (leap =? 1) && (jf =? 0) then 1 else 0) - 365 * jf |}.

(* dateToAbsDays(year, month, day) with month already normalised into 1..12 *)
Definition date_to_abs_days (year month day : Z) : Z :=
  let jf := b2z (month <? 3) in
  let amonth := month + 12 * jf in
  let y := year - jf + absolute_years in
  let ayday := (979 * amonth - 2919) / 32 in
  let century := y / 100 in
  let cyear := y mod 100 in
  1461 * cyear / 4 + 146097 * century / 4 + ayday + day - 1.

(* time.Date(year, Month(m0+1), day, hour, min, sec, 0, UTC).Unix(); norm(hi, lo, base) keeps
   hi*base + lo, so the sec/min/hour/day normalisations cancel in the linear combination *)
Definition unix_of_fields (year m0 day hour min sec : Z) : Z :=
  let year := year + m0 / 12 in
  let month := m0 mod 12 + 1 in
  date_to_abs_days year month day * 86400 + hour * 3600 + min * 60 + sec - unix_to_absolute.

(* ------------------------------------------------------------------ float64 bits of integers *)

Definition f64_of_Z (z : Z) : N :=
  if z =? 0 then 0%N
  else let a := Z.abs z in let e := Z.log2 a in
       Z.to_N ((if z <? 0 then 2 ^ 63 else 0) + (1023 + e) * 2 ^ 52 + (a * 2 ^ (52 - e) - 2 ^ 52)).

Definition Z_of_f64 (bits : N) : option Z :=
  let b := Z.of_N bits in
  let neg := 2 ^ 63 <=? b in
  let ex := (b / 2 ^ 52) mod 2048 in
  let m := b mod 2 ^ 52 in
  let sgn (x : Z) := if neg then - x else x in
  if ex =? 0 then (if m =? 0 then Some 0 else None)
  else if ex =? 2047 then None
  else let sig := 2 ^ 52 + m in
       let sh := ex - 1075 in
       if 0 <=? sh then Some (sgn (sig * 2 ^ sh))
       else if sh <? -52 then None
       else let d := 2 ^ (- sh) in if sig mod d =? 0 then Some (sgn (sig / d)) else None.

Definition exact_range (z : Z) : bool := (Z.abs z <? 2 ^ 53).

(* ------------------------------------------------------------------ jv wrappers *)

Definition gmtime (t : Z) : res jv :=
  if exact_range t && (0 <=? t + unix_to_absolute) then
    let c := civil_of_unix t in
    ROk (JArr [JInt (c_year c); JInt (c_month c - 1); JInt (c_day c); JInt (c_hour c); JInt (c_min c);
               JFlt (f64_of_Z (c_sec c)); JInt (c_wday c); JInt (c_yday c - 1)])
  else RUnsup.

Definition int_field (v : jv) : option Z :=
  match v with JInt z => Some z | JFlt b => Z_of_f64 b | _ => None end.

(* arrayToTime reads at most the first six entries that matter (weekday, yearday are parsed and dropped) *)
Definition mktime (v : jv) : res jv :=
  match v with
  | JArr (y :: mo :: d :: h :: mi :: s :: _) =>
      match int_field y, int_field mo, int_field d, int_field h, int_field mi, int_field s with
      | Some y, Some mo, Some d, Some h, Some mi, Some s =>
          let u := unix_of_fields y mo d h mi s in
          if exact_range u then ROk (JFlt (f64_of_Z u)) else RUnsup
      | _, _, _, _, _, _ => RUnsup
      end
  | _ => RUnsup
  end.

Definition year_1 : Z := -62135596800.       (* 0001-01-01T00:00:00Z *)
Definition year_9999_end : Z := 253402300799. (* 9999-12-31T23:59:59Z *)
