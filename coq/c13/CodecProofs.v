(* Round-trip proofs for the native codecs (c13/Codec.v). *)
From Coq Require Import List NArith ZArith Bool Lia Arith.
From Verif Require Import c13.Tac c13.Utf8 c13.Utf8Proofs c13.Codec.
Import ListNotations.
Open Scope N_scope.

(* ------------------------------------------------------------------ base64 *)

Lemma b64char_props : forall v, v < 64 ->
  b64val (b64char v) = Some v /\ (b64char v =? pad) = false /\ is_crlf (b64char v) = false.
Proof.
  intros v H. unfold b64val, b64char, pad, is_crlf.
  split_ifs; prop_bools; repeat split; try (exfalso; lia); try (f_equal; lia); try lia.
Qed.

(* the encoder without the padding characters *)
Fixpoint b64enc_raw (s : list N) : list N :=
  match s with
  | a :: b :: c :: r =>
      b64char (a / 4) :: b64char ((a mod 4) * 16 + b / 16) :: b64char ((b mod 16) * 4 + c / 64)
        :: b64char (c mod 64) :: b64enc_raw r
  | [a; b] => [b64char (a / 4); b64char ((a mod 4) * 16 + b / 16); b64char ((b mod 16) * 4)]
  | [a] => [b64char (a / 4); b64char ((a mod 4) * 16)]
  | [] => []
  end.

Ltac byte_hyps :=
  repeat match goal with
  | H : bytes (_ :: _) |- _ => apply Forall_cons_iff in H; destruct H
  | H : Forall _ (_ :: _) |- _ => apply Forall_cons_iff in H; destruct H
  end.

Ltac sextets a b c :=
  assert (a / 4 < 64) by lia; assert ((a mod 4) * 16 + b / 16 < 64) by lia;
  assert ((b mod 16) * 4 + c / 64 < 64) by lia; assert (c mod 64 < 64) by lia;
  assert ((a mod 4) * 16 < 64) by lia; assert ((b mod 16) * 4 < 64) by lia.

Ltac use_char v :=
  let H := fresh in
  assert (H : v < 64) by assumption;
  destruct (b64char_props v H) as [? [? ?]].

Lemma cut_pad_enc : forall s, bytes s -> cut_pad (b64enc s) = b64enc_raw s.
Proof.
  unfold bytes. induction s as [|a|a b|a b c r IH] using list_ind3; intros B; byte_hyps.
  - reflexivity.
  - sextets a a a. use_char (a / 4). use_char ((a mod 4) * 16).
    cbn [b64enc b64enc_raw cut_pad].
    repeat match goal with H : (_ =? pad) = false |- _ => rewrite H end.
    rewrite N.eqb_refl. reflexivity.
  - sextets a b b. use_char (a / 4). use_char ((a mod 4) * 16 + b / 16). use_char ((b mod 16) * 4).
    cbn [b64enc b64enc_raw cut_pad].
    repeat match goal with H : (_ =? pad) = false |- _ => rewrite H end.
    rewrite N.eqb_refl. reflexivity.
  - sextets a b c. use_char (a / 4). use_char ((a mod 4) * 16 + b / 16).
    use_char ((b mod 16) * 4 + c / 64). use_char (c mod 64).
    cbn [b64enc b64enc_raw cut_pad].
    repeat match goal with H : (_ =? pad) = false |- _ => rewrite H end.
    rewrite IH by assumption. reflexivity.
Qed.

Lemma filter_enc_raw : forall s, bytes s ->
  filter (fun c => negb (is_crlf c)) (b64enc_raw s) = b64enc_raw s.
Proof.
  unfold bytes. induction s as [|a|a b|a b c r IH] using list_ind3; intros B; byte_hyps.
  - reflexivity.
  - sextets a a a. use_char (a / 4). use_char ((a mod 4) * 16).
    cbn [b64enc_raw filter].
    repeat match goal with H : is_crlf _ = false |- _ => rewrite H end. reflexivity.
  - sextets a b b. use_char (a / 4). use_char ((a mod 4) * 16 + b / 16). use_char ((b mod 16) * 4).
    cbn [b64enc_raw filter].
    repeat match goal with H : is_crlf _ = false |- _ => rewrite H end. reflexivity.
  - sextets a b c. use_char (a / 4). use_char ((a mod 4) * 16 + b / 16).
    use_char ((b mod 16) * 4 + c / 64). use_char (c mod 64).
    cbn [b64enc_raw filter].
    repeat match goal with H : is_crlf _ = false |- _ => rewrite H end. cbn [negb].
    rewrite IH by assumption. reflexivity.
Qed.

Lemma dec_enc_raw : forall s, bytes s -> b64dec_raw (b64enc_raw s) = Some s.
Proof.
  unfold bytes. induction s as [|a|a b|a b c r IH] using list_ind3; intros B; byte_hyps.
  - reflexivity.
  - sextets a a a. use_char (a / 4). use_char ((a mod 4) * 16).
    cbn [b64enc_raw b64dec_raw].
    repeat match goal with H : b64val _ = Some _ |- _ => rewrite H end.
    f_equal. f_equal. lia.
  - sextets a b b. use_char (a / 4). use_char ((a mod 4) * 16 + b / 16). use_char ((b mod 16) * 4).
    cbn [b64enc_raw b64dec_raw].
    repeat match goal with H : b64val _ = Some _ |- _ => rewrite H end.
    f_equal. f_equal; [lia|]. f_equal. lia.
  - sextets a b c. use_char (a / 4). use_char ((a mod 4) * 16 + b / 16).
    use_char ((b mod 16) * 4 + c / 64). use_char (c mod 64).
    cbn [b64enc_raw]. cbn [b64dec_raw].
    repeat match goal with H : b64val _ = Some _ |- _ => rewrite H end.
    rewrite IH by assumption.
    f_equal. f_equal; [lia|]. f_equal; [lia|]. f_equal. lia.
Qed.

(* @base64 | @base64d returns its input, for every byte string *)
Lemma base64_roundtrip : forall s, bytes s -> b64d (b64enc s) = Some s.
Proof.
  intros s B. unfold b64d. rewrite cut_pad_enc, filter_enc_raw by exact B. apply dec_enc_raw. exact B.
Qed.

(* ------------------------------------------------------------------ @uri / @urid *)

Lemma upperhex_props : forall v, v < 16 ->
  (upperhex v =? 43) = false /\ ishex (upperhex v) = true /\ unhex (upperhex v) = v.
Proof.
  intros v H. unfold upperhex, ishex, unhex.
  split_ifs; prop_bools; repeat split; try (exfalso; lia); try lia;
    try (apply orb_true_iff; lia).
Qed.

Lemma replace_plus_app : forall t a b, replace_plus t (a ++ b) = replace_plus t a ++ replace_plus t b.
Proof. intros. unfold replace_plus. apply flat_map_app. Qed.

Definition img (c : N) : list N := replace_plus [37; 50; 66] (replace_plus [37; 50; 48] (qesc1 c)).

Lemma unescape_img : forall c t, c < 256 ->
  query_unescape (img c ++ t) = option_map (cons c) (query_unescape t).
Proof.
  intros c t H. unfold img, qesc1.
  destruct (c =? 32) eqn:C1.
  { apply N.eqb_eq in C1. subst c. reflexivity. }
  destruct (should_escape c) eqn:C2.
  - assert (H1 : c / 16 < 16) by lia. assert (H2 : c mod 16 < 16) by lia.
    destruct (upperhex_props _ H1) as [A1 [A2 A3]]. destruct (upperhex_props _ H2) as [B1 [B2 B3]].
    unfold replace_plus. cbn [flat_map N.eqb Pos.eqb app].
    rewrite A1, B1. cbn [flat_map N.eqb Pos.eqb app]. rewrite A1, B1. cbn [app query_unescape N.eqb Pos.eqb].
    rewrite A2, B2, A3, B3. cbn [andb]. f_equal. f_equal. lia.
  - unfold should_escape, is_alnum in C2.
    assert (P : (c =? 43) = false /\ (c =? 37) = false).
    { revert C2. split_ifs; intros; prop_bools; try discriminate; split; lia. }
    destruct P as [P1 P2].
    unfold replace_plus. cbn [flat_map app]. rewrite P1. cbn [flat_map app]. rewrite P1.
    cbn [app query_unescape]. rewrite P2, P1. reflexivity.
Qed.

Lemma urid_uri_aux : forall s, bytes s ->
  query_unescape (replace_plus [37; 50; 66] (replace_plus [37; 50; 48] (query_escape s))) = Some s.
Proof.
  unfold bytes. induction 1 as [|c s Hc Hs IH]; [reflexivity|].
  unfold query_escape in *. cbn [flat_map]. rewrite !replace_plus_app.
  fold (img c). rewrite unescape_img by exact Hc. rewrite IH. reflexivity.
Qed.

(* @uri | @urid returns its input, for every byte string *)
Lemma uri_roundtrip : forall s, bytes s -> urid (uri s) = Some s.
Proof. intros s B. unfold urid, uri. apply urid_uri_aux. exact B. Qed.

(* ------------------------------------------------------------------ split / join *)

Lemma prefixb_spec : forall p s, prefixb p s = true -> s = p ++ skipn (length p) s.
Proof.
  induction p as [|x p IH]; intros s H; [reflexivity|].
  destruct s as [|y s]; [discriminate|]. cbn [prefixb] in H. apply andb_true_iff in H.
  destruct H as [E H]. apply N.eqb_eq in E. subst y. cbn [length skipn app]. f_equal. apply IH. exact H.
Qed.

Lemma prefixb_app : forall p t, prefixb p (p ++ t) = true.
Proof.
  induction p as [|x p IH]; intros t; [reflexivity|]. cbn [app prefixb]. rewrite N.eqb_refl. apply IH.
Qed.

Lemma index_of_spec : forall p s m, index_of p s = Some m ->
  s = firstn m s ++ p ++ skipn (m + length p) s.
Proof.
  intros p. induction s as [|y s IH]; intros m H.
  - cbn [index_of] in H. destruct (prefixb p []) eqn:E; [|discriminate].
    injection H as <-. cbn [firstn app Nat.add]. apply prefixb_spec. exact E.
  - cbn [index_of] in H. destruct (prefixb p (y :: s)) eqn:E.
    + injection H as <-. cbn [firstn app Nat.add]. apply prefixb_spec. exact E.
    + destruct (index_of p s) as [m'|] eqn:E2; [|discriminate]. injection H as <-.
      cbn [firstn Nat.add skipn app]. f_equal. apply IH. reflexivity.
Qed.

Lemma split_f_nonempty : forall n sep s, split_f n sep s <> [].
Proof. intros n sep s. destruct n; cbn [split_f]; [discriminate|]. destruct (index_of sep s); discriminate. Qed.

Lemma join_cons : forall sep x l, l <> [] -> join sep (x :: l) = x ++ sep ++ join sep l.
Proof. intros sep x l H. destruct l; [congruence | reflexivity]. Qed.

Lemma join_split_f : forall n sep s, join sep (split_f n sep s) = s.
Proof.
  induction n as [|n IH]; intros sep s; [reflexivity|].
  cbn [split_f]. destruct (index_of sep s) as [m|] eqn:E; [|reflexivity].
  rewrite join_cons by apply split_f_nonempty. rewrite IH. symmetry. apply index_of_spec. exact E.
Qed.

Lemma chunks_concat : forall ws s, (list_sum ws <= length s)%nat ->
  concat (chunks ws s) = firstn (list_sum ws) s.
Proof.
  induction ws as [|w ws IH]; intros s L; [reflexivity|].
  cbn [chunks concat]. rewrite list_sum_cons in *. rewrite IH by (rewrite skipn_length; lia).
  rewrite <- (firstn_skipn w s) at 3. rewrite firstn_app, firstn_length.
  rewrite firstn_firstn. replace (Nat.min (w + list_sum ws) w) with w by lia.
  f_equal. f_equal. lia.
Qed.

Lemma join_nil_concat : forall l, join [] l = concat l.
Proof.
  induction l as [|x l IH]; [reflexivity|]. destruct l as [|y l]; [cbn; rewrite app_nil_r; reflexivity|].
  change (join [] (x :: y :: l)) with (x ++ [] ++ join [] (y :: l)). rewrite IH. reflexivity.
Qed.

(* split(sep) | join(sep) returns its input (for the empty separator as well) *)
Lemma split_join : forall sep s, join sep (split sep s) = s.
Proof.
  intros sep s. unfold split. destruct sep as [|x sep].
  - rewrite join_nil_concat, chunks_concat.
    + pose proof (offs_total s) as T. unfold offs in T.
      assert (Lw : length (widths s) = length (runes s)) by (unfold widths; apply map_length).
      rewrite <- Lw, firstn_all in T. rewrite T. apply firstn_all.
    + pose proof (offs_total s) as T. unfold offs in T.
      assert (Lw : length (widths s) = length (runes s)) by (unfold widths; apply map_length).
      rewrite <- Lw, firstn_all in T. lia.
  - apply join_split_f.
Qed.

(* ------------------------------------------------------------------ trimming *)

Lemma ltrimstr_spec : forall p t, ltrimstr p (p ++ t) = t.
Proof.
  intros p t. unfold ltrimstr. rewrite prefixb_app.
  rewrite skipn_app, skipn_all, Nat.sub_diag. reflexivity.
Qed.
