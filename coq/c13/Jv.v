(* JSON values and the path primitives of func.go (definitions only; proofs in JvProofs.v).

   Objects are association lists; a Go map has unique keys and gojq always enumerates them in
   sorted (bytewise) order, so the canonical form [wf] = keys strictly increasing.
   Numbers: [JInt z] integers of any size (Go int and *big.Int), [JFlt bits] a float64 carried
   opaquely, [JLit text] a json.Number literal carried opaquely.

   getpath  = funcGetpath + funcIndex2 (string key / integer index elements; slice objects and
              fractional indices are outside this model: [RUnsup])
   update   = func.go update/updateObject/updateArrayIndex for n <> the delete marker, i.e. setpath
   The jq-defined converters further down are HAND TRANSCRIPTIONS of their builtin.jq text
   (quoted next to each); they are tied to the implementation by the correspondence streams
   to_entries / from_entries / tostream / fromstream / paths of harness/c13. *)
From Coq Require Import List NArith ZArith Bool.
From Verif Require Import c13.Codec.
Import ListNotations.
Open Scope Z_scope.

Definition str := list N.

Inductive jv :=
| JNull | JBool (b : bool) | JInt (z : Z) | JFlt (bits : N) | JLit (t : str) | JStr (s : str)
| JArr (l : list jv) | JObj (m : list (str * jv)).

Inductive res (A : Type) := ROk (a : A) | RErr | RUnsup.
Arguments ROk {A} a.
Arguments RErr {A}.
Arguments RUnsup {A}.
Definition bind {A B} (r : res A) (f : A -> res B) : res B :=
  match r with ROk a => f a | RErr => RErr | RUnsup => RUnsup end.

(* ------------------------------------------------------------------ keys *)

Fixpoint bytes_ltb (a b : str) : bool :=
  match a, b with
  | [], [] => false
  | [], _ :: _ => true
  | _ :: _, [] => false
  | x :: a', y :: b' => (x <? y)%N || ((x =? y)%N && bytes_ltb a' b')
  end.

Fixpoint lookup (k : str) (m : list (str * jv)) : option jv :=
  match m with
  | [] => None
  | (k', v) :: r => if bytes_eqb k k' then Some v else lookup k r
  end.

(* w := copy of m; w[k] = u   (canonical: replace in place, or insert at the sorted position) *)
Fixpoint oset (k : str) (u : jv) (m : list (str * jv)) : list (str * jv) :=
  match m with
  | [] => [(k, u)]
  | (k', v) :: r =>
      if bytes_eqb k k' then (k, u) :: r
      else if bytes_ltb k k' then (k, u) :: (k', v) :: r
      else (k', v) :: oset k u r
  end.

Fixpoint sorted_keys (m : list (str * jv)) : bool :=
  match m with
  | [] => true
  | (k, _) :: r => match r with
                   | [] => true
                   | (k', _) :: _ => bytes_ltb k k' && sorted_keys r
                   end
  end.

Fixpoint wfb (v : jv) : bool :=
  match v with
  | JArr l => forallb wfb l
  | JObj m => sorted_keys m && forallb (fun kv => wfb (snd kv)) m
  | _ => true
  end.
Definition wf (v : jv) : Prop := wfb v = true.

(* ------------------------------------------------------------------ equality (structural) *)

Fixpoint jv_eqb (a b : jv) : bool :=
  match a, b with
  | JNull, JNull => true
  | JBool x, JBool y => Bool.eqb x y
  | JInt x, JInt y => x =? y
  | JFlt x, JFlt y => (x =? y)%N
  | JLit x, JLit y => bytes_eqb x y
  | JStr x, JStr y => bytes_eqb x y
  | JArr x, JArr y =>
      (fix go (x y : list jv) : bool :=
         match x, y with
         | [], [] => true
         | a :: x', b :: y' => jv_eqb a b && go x' y'
         | _, _ => false
         end) x y
  | JObj x, JObj y =>
      (fix go (x : list (str * jv)) (y : list (str * jv)) : bool :=
         match x, y with
         | [], [] => true
         | (k, a) :: x', (k', b) :: y' => bytes_eqb k k' && jv_eqb a b && go x' y'
         | _, _ => false
         end) x y
  | _, _ => false
  end.

(* ------------------------------------------------------------------ indexing *)

(* func.go clampIndex *)
Definition clamp_index (i mn mx : Z) : Z :=
  let i := if i <? 0 then i + mx else i in
  if i <? mn then mn else if i <? mx then i else mx.

Definition len {A} (l : list A) : Z := Z.of_nat (length l).

(* func.go index *)
Definition index_arr (l : list jv) (i : Z) : jv :=
  let j := clamp_index i (-1) (len l) in
  if (0 <=? j) && (j <? len l) then nth (Z.to_nat j) l JNull else JNull.

(* funcIndex2 for a string or integer path element *)
Definition index2 (v x : jv) : res jv :=
  match x with
  | JStr k => match v with
              | JNull => ROk JNull
              | JObj m => ROk (match lookup k m with Some c => c | None => JNull end)
              | _ => RErr
              end
  | JInt i => match v with
              | JNull => ROk JNull
              | JArr l => ROk (index_arr l i)
              | _ => RErr
              end
  | _ => RUnsup
  end.

Fixpoint getpath (p : list jv) (v : jv) : res jv :=
  match p with
  | [] => ROk v
  | x :: p' => match v with
               | JNull | JArr _ | JObj _ => bind (index2 v x) (getpath p')
               | _ => RErr
               end
  end.

(* w := make([]any, max(len, i+1)); copy(w, l); w[i] = u *)
Fixpoint set_nth (i : nat) (u : jv) (l : list jv) : list jv :=
  match i, l with
  | O, [] => [u]
  | O, _ :: r => u :: r
  | S i', [] => JNull :: set_nth i' u []
  | S i', x :: r => x :: set_nth i' u r
  end.

Definition max_index : Z := 536870912.   (* 0x20000000 *)

Fixpoint update (p : list jv) (v : jv) (n : jv) : res jv :=
  match p with
  | [] => ROk n
  | JStr k :: p' =>
      let upd (m : list (str * jv)) :=
        bind (update p' (match lookup k m with Some c => c | None => JNull end) n)
             (fun u => ROk (JObj (oset k u m))) in
      match v with
      | JNull => upd []
      | JObj m => upd m
      | _ => RErr
      end
  | JInt i :: p' =>
      let upd (l : list jv) :=
        let j := clamp_index i (-1) (len l) in
        if j <? 0 then RErr                               (* arrayIndexNegativeError *)
        else if j <? len l then
          bind (update p' (nth (Z.to_nat j) l JNull) n) (fun u => ROk (JArr (set_nth (Z.to_nat j) u l)))
        else if max_index <=? i then RErr                 (* arrayIndexTooLargeError *)
        else bind (update p' JNull n) (fun u => ROk (JArr (set_nth (Z.to_nat i) u l))) in
      match v with
      | JNull => upd []
      | JArr l => upd l
      | _ => RErr
      end
  | _ => RUnsup
  end.

Definition setpath (p : list jv) (x : jv) (v : jv) : res jv := update p v x.

(* every array is shorter than the largest index setpath accepts (0x20000000) *)
Fixpoint smallb (v : jv) : bool :=
  match v with
  | JArr l => (len l <=? max_index) && forallb smallb l
  | JObj m => forallb (fun kv => smallb (snd kv)) m
  | _ => true
  end.
Definition small (v : jv) : Prop := smallb v = true.

(* ------------------------------------------------------------------ paths *)

Fixpoint seqZ (start : Z) (n : nat) : list Z :=
  match n with O => [] | S n' => start :: seqZ (start + 1) n' end.

(* builtin.jq: def paths: path(..) | select(. != []);   with  def recurse: recurse(.[]?)
   i.e. pre-order, children in index / sorted-key order, root dropped *)
Definition paths_arr_go (f : jv -> list (list jv)) :=
  fix go (i : Z) (l : list jv) : list (list jv) :=
    match l with
    | [] => []
    | c :: r => ([JInt i] :: map (cons (JInt i)) (f c)) ++ go (i + 1) r
    end.
Definition paths_obj_go (f : jv -> list (list jv)) :=
  fix go (m : list (str * jv)) : list (list jv) :=
    match m with
    | [] => []
    | (k, c) :: r => ([JStr k] :: map (cons (JStr k)) (f c)) ++ go r
    end.
Fixpoint paths (v : jv) : list (list jv) :=
  match v with
  | JArr l => paths_arr_go paths 0 l
  | JObj m => paths_obj_go paths m
  | _ => []
  end.

(* builtin.jq:  def recurse: recurse(.[]?);   def recurse(f): def r: ., (f | r); r;   and `..` is recurse.
   path(..) therefore emits the current path, then, for every child (array elements by index, object
   values in the sorted key order in which gojq iterates .[]), the paths of that child's recursion *)
Definition pdd_arr_go (f : jv -> list (list jv)) :=
  fix go (i : Z) (l : list jv) : list (list jv) :=
    match l with
    | [] => []
    | c :: r => map (cons (JInt i)) (f c) ++ go (i + 1) r
    end.
Definition pdd_obj_go (f : jv -> list (list jv)) :=
  fix go (m : list (str * jv)) : list (list jv) :=
    match m with
    | [] => []
    | (k, c) :: r => map (cons (JStr k)) (f c) ++ go r
    end.
Fixpoint path_dotdot (v : jv) : list (list jv) :=
  [] :: match v with
        | JArr l => pdd_arr_go path_dotdot 0 l
        | JObj m => pdd_obj_go path_dotdot m
        | _ => []
        end.
Definition is_root (p : list jv) : bool := match p with [] => true | _ => false end.
(* def paths: path(..) | select(. != []);   literally *)
Definition paths_jq (v : jv) : list (list jv) := filter (fun p => negb (is_root p)) (path_dotdot v).

(* ------------------------------------------------------------------ to_entries / from_entries *)

Definition k_key : str := [107; 101; 121]%N.
Definition k_value : str := [118; 97; 108; 117; 101]%N.
Definition k_Key : str := [75; 101; 121]%N.
Definition k_Value : str := [86; 97; 108; 117; 101]%N.
Definition k_name : str := [110; 97; 109; 101]%N.
Definition k_Name : str := [78; 97; 109; 101]%N.

(* def to_entries: [keys[] as $k | {key: $k, value: .[$k]}]; *)
Definition to_entries (v : jv) : res jv :=
  match v with
  | JObj m => ROk (JArr (map (fun kv => JObj [(k_key, JStr (fst kv)); (k_value, snd kv)]) m))
  | _ => RUnsup
  end.

Definition truthy (v : jv) : bool := match v with JNull | JBool false => false | _ => true end.
Definition field (k : str) (e : jv) : res jv := index2 e (JStr k).
(* a // b on single-output operands *)
Definition alt (a : res jv) (b : res jv) : res jv :=
  match a with
  | ROk x => if truthy x then ROk x else b
  | _ => b          (* errors of the left operand are suppressed by // *)
  end.
Definition has_key (k : str) (e : jv) : res bool :=
  match e with
  | JObj m => ROk (match lookup k m with Some _ => true | None => false end)
  | _ => RErr
  end.

(* def from_entries: map({ (.key // .Key // .name // .Name):
     if has("value") then .value else .Value end }) | add // {};
   [add] of objects copies left to right into one map (func.go add) *)
Definition entry_obj (e : jv) : res (str * jv) :=
  bind (alt (field k_key e) (alt (field k_Key e) (alt (field k_name e) (field k_Name e)))) (fun k =>
  bind (has_key k_value e) (fun h =>
  bind (if h then field k_value e else field k_Value e) (fun x =>
  match k with JStr s => ROk (s, x) | _ => RErr end))).

Fixpoint add_entries (acc : list (str * jv)) (es : list jv) : res (list (str * jv)) :=
  match es with
  | [] => ROk acc
  | e :: r => bind (entry_obj e) (fun kx => add_entries (oset (fst kx) (snd kx) acc) r)
  end.

Definition from_entries (v : jv) : res jv :=
  match v with
  | JArr es => bind (add_entries [] es) (fun m => ROk (JObj m))
  | _ => RUnsup
  end.

(* def with_entries(f): to_entries | map(f) | from_entries;   at f = . *)
Definition with_entries_id (v : jv) : res jv :=
  bind (to_entries v) (fun a => match a with JArr es => from_entries (JArr (map (fun e => e) es)) | _ => RErr end).

(* ------------------------------------------------------------------ tostream / fromstream *)

Inductive event := ELeaf (p : list jv) (x : jv) | EClose (p : list jv).

Definition ev_prepend (k : jv) (e : event) : event :=
  match e with ELeaf p x => ELeaf (k :: p) x | EClose p => EClose (k :: p) end.

(* def tostream: path(def r: (.[]? | r), .; r) as $p | getpath($p) |
                 reduce path(.[]?) as $q ([$p, .]; [$p + $q]);
   r visits children before the node; a node without children yields [$p, node], a node with
   children yields [$p + [last child key]] *)
Definition ts_arr_go (f : jv -> list event) :=
  fix go (i : Z) (l : list jv) : list event :=
    match l with
    | [] => []
    | c :: r => map (ev_prepend (JInt i)) (f c) ++ go (i + 1) r
    end.
Definition ts_obj_go (f : jv -> list event) :=
  fix go (m : list (str * jv)) : list event :=
    match m with
    | [] => []
    | (k, c) :: r => map (ev_prepend (JStr k)) (f c) ++ go r
    end.
Fixpoint tostream (v : jv) : list event :=
  match v with
  | JArr (c0 :: r0) => ts_arr_go tostream 0 (c0 :: r0) ++ [EClose [JInt (len (c0 :: r0) - 1)]]
  | JObj ((k0, c0) :: r0) => ts_obj_go tostream ((k0, c0) :: r0) ++ [EClose [JStr (fst (last r0 (k0, c0)))]]
  | _ => [ELeaf [] v]
  end.

Definition leaves (evs : list event) : list (list jv * jv) :=
  flat_map (fun e => match e with ELeaf p x => [(p, x)] | EClose _ => [] end) evs.

(* replaying the two-element events with setpath on null *)
Fixpoint replay (st : jv) (l : list (list jv * jv)) : res jv :=
  match l with
  | [] => ROk st
  | (p, x) :: r => bind (update p st x) (fun st' => replay st' r)
  end.

Definition k_v : str := [118]%N.
Definition k_e : str := [101]%N.

(* def fromstream(f): foreach f as $pv (null;
     if .e then null end | $pv as [$p, $v] |
     if $pv | length == 2 then setpath(["v"] + $p; $v) | setpath(["e"]; $p | length == 0)
     else setpath(["e"]; $p | length == 1) end;
     if .e then .v else empty end); *)
Definition fs_flag (st : jv) : res bool := bind (field k_e st) (fun e => ROk (truthy e)).

Definition fs_step (st : jv) (ev : event) : res jv :=
  bind (fs_flag st) (fun e =>
  let st1 := if e then JNull else st in
  match ev with
  | ELeaf p x =>
      bind (update (JStr k_v :: p) st1 x) (fun st2 =>
      update [JStr k_e] st2 (JBool (Nat.eqb (length p) 0)))
  | EClose p => update [JStr k_e] st1 (JBool (Nat.eqb (length p) 1))
  end).

Fixpoint fromstream_run (st : jv) (evs : list event) : res (list jv) :=
  match evs with
  | [] => ROk []
  | ev :: r =>
      bind (fs_step st ev) (fun st' =>
      bind (fs_flag st') (fun e =>
      bind (if e then bind (field k_v st') (fun x => ROk [x]) else ROk []) (fun out =>
      bind (fromstream_run st' r) (fun rest => ROk (out ++ rest)))))
  end.
Definition fromstream (evs : list event) : res (list jv) := fromstream_run JNull evs.
