(* UTF-8 as Go implements it (C13/C14 copy; definitions only, proofs in Utf8Proofs.v).
   Byte strings are [list N] (every element < 256); runes are N.

   [dec]     = utf8.DecodeRuneInString / the runtime's decoderune used by `for _, r := range s`
               and by the conversion []rune(s): (rune, width); an ill-formed or truncated sequence
               yields (U+FFFD, 1).  Reading past the end is written [nth i s 0]; byte 0 is neither a
               continuation byte nor inside any accept range, so "too short" and "wrong byte" take the
               same branch, exactly as in Go (n < sz => RuneError,1).
   [encode]  = utf8.AppendRune / strings.Builder.WriteRune (surrogates and values > U+10FFFF are
               written as U+FFFD).
   [explode] = func.go explode (range over the string); [implode] = func.go funcImplode. *)
From Coq Require Import List NArith ZArith Bool.
Import ListNotations.
Open Scope N_scope.

Definition rune_error : N := 65533.   (* U+FFFD *)
Definition max_rune : N := 1114111.   (* U+10FFFF *)

Definition cont (b : N) : bool := (128 <=? b) && (b <=? 191).
(* utf8.acceptRanges, indexed by the leading byte *)
Definition lo3 (b0 : N) : N := if b0 =? 224 then 160 else 128.
Definition hi3 (b0 : N) : N := if b0 =? 237 then 159 else 191.
Definition lo4 (b0 : N) : N := if b0 =? 240 then 144 else 128.
Definition hi4 (b0 : N) : N := if b0 =? 244 then 143 else 191.

Definition inv : N * nat := (rune_error, 1%nat).

Definition dec (s : list N) : N * nat :=
  let b0 := nth 0 s 0 in let b1 := nth 1 s 0 in let b2 := nth 2 s 0 in let b3 := nth 3 s 0 in
  if b0 <? 128 then (b0, 1%nat)
  else if b0 <? 194 then inv
  else if b0 <? 224 then
    if cont b1 then ((b0 - 192) * 64 + (b1 - 128), 2%nat) else inv
  else if b0 <? 240 then
    if (lo3 b0 <=? b1) && (b1 <=? hi3 b0) && cont b2
    then ((b0 - 224) * 4096 + (b1 - 128) * 64 + (b2 - 128), 3%nat) else inv
  else if b0 <? 245 then
    if (lo4 b0 <=? b1) && (b1 <=? hi4 b0) && cont b2 && cont b3
    then ((b0 - 240) * 262144 + (b1 - 128) * 4096 + (b2 - 128) * 64 + (b3 - 128), 4%nat) else inv
  else inv.

(* the (rune, width) sequence of a byte string; fuel = length (each step consumes >= 1 byte) *)
Fixpoint runes_f (n : nat) (s : list N) : list (N * nat) :=
  match n with
  | O => []
  | S n' => match s with
            | [] => []
            | _ => let cw := dec s in cw :: runes_f n' (skipn (snd cw) s)
            end
  end.
Definition runes (s : list N) : list (N * nat) := runes_f (length s) s.
Definition explode (s : list N) : list N := map fst (runes s).
Definition widths (s : list N) : list nat := map snd (runes s).

(* len([]rune(s)): the runtime counts with the same decoder (countrunes) *)
Fixpoint count_runes_f (n : nat) (s : list N) : nat :=
  match n with
  | O => O
  | S n' => match s with [] => O | _ => S (count_runes_f n' (skipn (snd (dec s)) s)) end
  end.
Definition count_runes (s : list N) : nat := count_runes_f (length s) s.

Definition is_surrogate (c : N) : bool := (55296 <=? c) && (c <=? 57343).
Definition scalarb (c : N) : bool := (c <=? max_rune) && negb (is_surrogate c).

Definition encode (c : N) : list N :=
  if c <=? 127 then [c]
  else if c <=? 2047 then [192 + c / 64; 128 + c mod 64]
  else if (max_rune <? c) || is_surrogate c then [239; 191; 189]
  else if c <=? 65535 then [224 + c / 4096; 128 + (c / 64) mod 64; 128 + c mod 64]
  else [240 + c / 262144; 128 + (c / 4096) mod 64; 128 + (c / 64) mod 64; 128 + c mod 64].

Definition encode_all (cs : list N) : list N := flat_map encode cs.

(* funcImplode on a list of Go ints: 0 <= r <= utf8.MaxRune -> WriteRune(r), else WriteRune(RuneError) *)
Definition implode1 (z : Z) : list N :=
  if ((0 <=? z)%Z && (z <=? Z.of_N max_rune)%Z)%bool then encode (Z.to_N z) else encode rune_error.
Definition implode (zs : list Z) : list N := flat_map implode1 zs.

(* well-formed UTF-8 (Unicode D92): the encoding of a sequence of scalar values *)
Definition scalar (c : N) : Prop := scalarb c = true.
Definition valid_utf8 (s : list N) : Prop := exists cs, Forall scalar cs /\ s = encode_all cs.

(* executable validity test = utf8.ValidString: no step of the decoder takes the error branch on a
   sequence that is not literally EF BF BD *)
Fixpoint validb_f (n : nat) (s : list N) : bool :=
  match n with
  | O => match s with [] => true | _ => false end
  | S n' => match s with
            | [] => true
            | _ => let cw := dec s in
                   (negb (Nat.eqb (snd cw) 1) || (nth 0 s 0 <? 128)) && validb_f n' (skipn (snd cw) s)
            end
  end.
Definition validb (s : list N) : bool := validb_f (length s) s.

Definition byteb (b : N) : bool := b <? 256.
Definition bytes (s : list N) : Prop := Forall (fun b => b < 256) s.
