(* Proofs about the UTF-8 model (c13/Utf8.v). *)
From Coq Require Import List NArith ZArith Bool Lia Arith.
From Verif Require Import c13.Tac c13.Utf8.
Import ListNotations.
Open Scope N_scope.

(* ---------------------------------------------------------------------------------------- *)
(* encode then decode *)

Lemma scalar_range : forall c, scalar c -> c <= 1114111 /\ (c < 55296 \/ 57343 < c).
Proof.
  unfold scalar, scalarb, is_surrogate, max_rune. intros c H.
  apply andb_true_iff in H. destruct H as [H1 H2]. apply negb_true_iff in H2.
  apply andb_false_iff in H2. lia.
Qed.

Lemma encode_length : forall c, (1 <= length (encode c) <= 4)%nat.
Proof. intros c. unfold encode. split_ifs; cbn [length]; lia. Qed.

Lemma dec_encode : forall c r, scalar c -> dec (encode c ++ r) = (c, length (encode c)).
Proof.
  intros c r H. apply scalar_range in H. unfold encode, is_surrogate, max_rune.
  destruct (c <=? 127) eqn:C1.
  { cbn [app length]. unfold dec. cbn [nth]. destruct (c <? 128) eqn:C2; [reflexivity | lia]. }
  destruct (c <=? 2047) eqn:C2.
  { cbn [app length]. unfold dec, cont, inv. cbn [nth].
    split_ifs; try (exfalso; lia); f_equal; lia. }
  destruct ((1114111 <? c) || ((55296 <=? c) && (c <=? 57343))) eqn:C3.
  { exfalso. apply orb_true_iff in C3. destruct C3 as [C3 | C3]; [lia|].
    apply andb_true_iff in C3. lia. }
  destruct (c <=? 65535) eqn:C4.
  { cbn [app length]. unfold dec, cont, inv, lo3, hi3. cbn [nth].
    split_ifs; try (exfalso; lia); f_equal; lia. }
  cbn [app length]. unfold dec, cont, inv, lo4, hi4. cbn [nth].
  split_ifs; try (exfalso; lia); f_equal; lia.
Qed.

(* ---------------------------------------------------------------------------------------- *)
(* widths *)

Lemma cont_nth_lt : forall i s, cont (nth i s 0) = true -> (i < length s)%nat.
Proof.
  intros i s H. destruct (Nat.lt_ge_cases i (length s)) as [L | L]; [exact L|].
  rewrite (nth_overflow s 0 L) in H. discriminate.
Qed.

Lemma dec_width : forall s, (1 <= snd (dec s) <= 4)%nat.
Proof. intros s. unfold dec, inv. split_ifs; cbn [snd]; lia. Qed.

Lemma dec_width_le : forall s, s <> [] -> (snd (dec s) <= length s)%nat.
Proof.
  intros s Hs. unfold dec, inv.
  assert (L1 : (1 <= length s)%nat) by (destruct s; [congruence | cbn; lia]).
  split_ifs; cbn [snd]; try exact L1; prop_bools;
    repeat match goal with H : cont (nth ?i s 0) = true |- _ => apply cont_nth_lt in H end; lia.
Qed.

(* ---------------------------------------------------------------------------------------- *)
(* unfolding equations for runes *)

Lemma runes_f_eq : forall n m s, (length s <= n)%nat -> (length s <= m)%nat -> runes_f n s = runes_f m s.
Proof.
  induction n as [|n IH]; intros m s Ln Lm.
  - destruct s; [destruct m; reflexivity | cbn in Ln; lia].
  - destruct s as [|b r]; [destruct m; reflexivity|].
    destruct m as [|m]; [cbn in Lm; lia|].
    cbn [runes_f]. f_equal.
    pose proof (dec_width (b :: r)) as W.
    assert (L2 : (length (skipn (snd (dec (b :: r))) (b :: r)) <= length r)%nat).
    { rewrite skipn_length. cbn [length]. lia. }
    cbn [length] in Ln, Lm. apply IH; lia.
Qed.

Lemma runes_f_enough : forall n s, (length s <= n)%nat -> runes_f n s = runes_f (length s) s.
Proof. intros n s L. apply runes_f_eq; lia. Qed.

Lemma runes_nil : runes [] = [].
Proof. reflexivity. Qed.

Lemma runes_cons : forall s, s <> [] -> runes s = dec s :: runes (skipn (snd (dec s)) s).
Proof.
  intros s Hs. unfold runes. destruct s as [|b r]; [congruence|].
  cbn [length runes_f]. f_equal. apply runes_f_enough.
  rewrite skipn_length. pose proof (dec_width (b :: r)). cbn [length]. lia.
Qed.

Lemma runes_nonempty : forall s, s <> [] -> runes s <> [].
Proof. intros s H. rewrite (runes_cons s H). discriminate. Qed.

Lemma runes_empty_inv : forall s, runes s = [] -> s = [].
Proof.
  intros s H. destruct s as [|b r]; [reflexivity|]. exfalso.
  apply (runes_nonempty (b :: r)); [discriminate | exact H].
Qed.

Lemma count_runes_f_length : forall n s, count_runes_f n s = length (runes_f n s).
Proof.
  induction n as [|n IH]; intros s; [reflexivity|].
  destruct s as [|b r]; [reflexivity|]. cbn [count_runes_f runes_f length]. f_equal. apply IH.
Qed.

Lemma count_runes_explode : forall s, count_runes s = length (explode s).
Proof. intros s. unfold count_runes, explode, runes. rewrite map_length. apply count_runes_f_length. Qed.

(* ---------------------------------------------------------------------------------------- *)
(* explode / implode *)

Lemma encode_nonempty : forall c, encode c <> [].
Proof. intros c H. pose proof (encode_length c) as L. rewrite H in L. cbn in L. lia. Qed.

Lemma runes_encode_app : forall c r, scalar c ->
  runes (encode c ++ r) = (c, length (encode c)) :: runes r.
Proof.
  intros c r H. rewrite runes_cons.
  - rewrite (dec_encode c r H). cbn [snd]. rewrite skipn_app, skipn_all, Nat.sub_diag. reflexivity.
  - intro E. apply app_eq_nil in E. destruct E as [E _]. exact (encode_nonempty c E).
Qed.

Lemma explode_encode_all : forall cs, Forall scalar cs -> explode (encode_all cs) = cs.
Proof.
  unfold explode. induction 1 as [|c cs Hc Hcs IH]; [reflexivity|].
  unfold encode_all in *. cbn [flat_map]. rewrite runes_encode_app by exact Hc.
  cbn [map fst]. f_equal. exact IH.
Qed.

Lemma implode1_scalar : forall c, scalar c -> implode1 (Z.of_N c) = encode c.
Proof.
  intros c H. apply scalar_range in H. unfold implode1, max_rune.
  destruct ((0 <=? Z.of_N c)%Z && (Z.of_N c <=? Z.of_N 1114111)%Z)%bool eqn:C.
  - rewrite N2Z.id. reflexivity.
  - apply andb_false_iff in C. exfalso. lia.
Qed.

Lemma implode_scalars : forall cs, Forall scalar cs -> implode (map Z.of_N cs) = encode_all cs.
Proof.
  induction 1 as [|c cs Hc Hcs IH]; [reflexivity|].
  unfold implode, encode_all in *. cbn [map flat_map]. rewrite implode1_scalar by exact Hc.
  f_equal. exact IH.
Qed.

(* explode|implode is the identity on every well-formed UTF-8 string *)
Lemma explode_implode : forall s, valid_utf8 s -> implode (map Z.of_N (explode s)) = s.
Proof.
  intros s [cs [H E]]. subst s. rewrite explode_encode_all by exact H. apply implode_scalars. exact H.
Qed.

(* implode|explode is the identity on every list of scalar values *)
Lemma implode_explode : forall cs, Forall scalar cs -> explode (implode (map Z.of_N cs)) = cs.
Proof. intros cs H. rewrite implode_scalars by exact H. apply explode_encode_all. exact H. Qed.

Lemma explode_inj_valid : forall s t, valid_utf8 s -> valid_utf8 t -> explode s = explode t -> s = t.
Proof.
  intros s t Hs Ht E. rewrite <- (explode_implode s Hs), <- (explode_implode t Ht), E. reflexivity.
Qed.

(* every decoded rune is a scalar value (ill-formed input decodes to U+FFFD) *)
Lemma dec_scalar : forall s, scalar (fst (dec s)).
Proof.
  intros s. unfold scalar, scalarb, is_surrogate, max_rune, dec, inv, rune_error, cont, lo3, hi3, lo4, hi4.
  split_ifs; cbn [fst]; prop_bools; apply andb_true_iff; split;
    try apply negb_true_iff; try apply andb_false_iff; lia.
Qed.

Lemma runes_f_scalar : forall n s, Forall (fun cw => scalar (fst cw)) (runes_f n s).
Proof.
  induction n as [|n IH]; intros s; [constructor|].
  destruct s as [|b r]; [constructor|]. cbn [runes_f]. constructor; [apply dec_scalar | apply IH].
Qed.

Lemma explode_scalar : forall s, Forall scalar (explode s).
Proof.
  intros s. unfold explode, runes. apply Forall_map. apply runes_f_scalar.
Qed.

(* on ANY byte string explode|implode|explode = explode: implode re-encodes what explode saw *)
Lemma explode_implode_explode : forall s, explode (implode (map Z.of_N (explode s))) = explode s.
Proof. intros s. apply implode_explode. apply explode_scalar. Qed.

(* ---------------------------------------------------------------------------------------- *)
(* rune boundaries: byte offset of the k-th rune *)

Definition offs (s : list N) (k : nat) : nat := list_sum (firstn k (widths s)).

Lemma offs_0 : forall s, offs s 0 = 0%nat.
Proof. reflexivity. Qed.

Lemma widths_cons : forall s, s <> [] -> widths s = snd (dec s) :: widths (skipn (snd (dec s)) s).
Proof. intros s H. unfold widths. rewrite (runes_cons s H). reflexivity. Qed.

Lemma offs_S : forall s k, s <> [] ->
  offs s (S k) = (snd (dec s) + offs (skipn (snd (dec s)) s) k)%nat.
Proof. intros s k H. unfold offs. rewrite (widths_cons s H). reflexivity. Qed.

Lemma offs_le_length : forall k s, (offs s k <= length s)%nat.
Proof.
  induction k as [|k IH]; intros s; [unfold offs; cbn; lia|].
  destruct s as [|b r]; [unfold offs; cbn; lia|].
  rewrite offs_S by discriminate.
  pose proof (dec_width_le (b :: r) ltac:(discriminate)) as W.
  pose proof (IH (skipn (snd (dec (b :: r))) (b :: r))) as I. rewrite skipn_length in I. lia.
Qed.

Lemma offs_total : forall s, offs s (length (runes s)) = length s.
Proof.
  intros s. remember (length s) as n eqn:E. revert s E.
  induction n as [n IH] using lt_wf_ind. intros s E.
  destruct s as [|b r]; [subst; reflexivity|].
  rewrite (runes_cons (b :: r)) by discriminate. cbn [length].
  rewrite offs_S by discriminate.
  pose proof (dec_width_le (b :: r) ltac:(discriminate)) as W.
  pose proof (dec_width (b :: r)) as W1.
  rewrite (IH (length (skipn (snd (dec (b :: r))) (b :: r)))); [| rewrite skipn_length; cbn [length] in *; lia | reflexivity].
  rewrite skipn_length. lia.
Qed.

Lemma offs_mono : forall k s, (offs s k <= offs s (S k))%nat.
Proof.
  intros k s. unfold offs. revert k. generalize (widths s). induction l as [|w l IH]; intros k.
  - destruct k; cbn; lia.
  - destruct k; [cbn; lia|]. specialize (IH k). change (w + list_sum (firstn k l) <= w + list_sum (firstn (S k) l))%nat. lia.
Qed.

Lemma offs_mono_le : forall s j k, (j <= k)%nat -> (offs s j <= offs s k)%nat.
Proof. induction 1; [lia|]. pose proof (offs_mono m s). lia. Qed.

Lemma offs_overflow : forall s k, (length (runes s) <= k)%nat -> offs s k = length s.
Proof.
  intros s k L. rewrite <- (offs_total s). unfold offs.
  assert (Lw : length (widths s) = length (runes s)) by (unfold widths; apply map_length).
  rewrite !firstn_all2 by lia. reflexivity.
Qed.

Lemma skipn_add : forall (A : Type) (a b : nat) (l : list A), skipn (a + b) l = skipn b (skipn a l).
Proof.
  induction a as [|a IH]; intros b l; [reflexivity|].
  destruct l as [|x l]; [cbn; rewrite skipn_nil; reflexivity|]. cbn [Nat.add skipn]. apply IH.
Qed.

(* runes of a suffix that starts on a rune boundary *)
Lemma runes_skipn_offs : forall k s, runes (skipn (offs s k) s) = skipn k (runes s).
Proof.
  induction k as [|k IH]; intros s; [reflexivity|].
  destruct s as [|b r]; [reflexivity|].
  rewrite offs_S by discriminate. rewrite (runes_cons (b :: r)) by discriminate.
  cbn [skipn]. rewrite <- IH. f_equal. apply skipn_add.
Qed.

(* truncating after the decoded sequence does not change what is decoded *)
Lemma nth_firstn_0 : forall i m (s : list N), nth i (firstn m s) 0 = if (i <? m)%nat then nth i s 0 else 0.
Proof.
  intros i m s. destruct (i <? m)%nat eqn:C.
  - apply Nat.ltb_lt in C. revert i s C. induction m as [|m IH]; intros i s C; [lia|].
    destruct s as [|b r]; [destruct i; reflexivity|]. destruct i; [reflexivity|]. cbn. apply IH. lia.
  - apply Nat.ltb_ge in C. apply nth_overflow. rewrite firstn_length. lia.
Qed.

Lemma dec_firstn : forall m s, (snd (dec s) <= m)%nat -> dec (firstn m s) = dec s.
Proof.
  intros m s. unfold dec, inv, cont, lo3, hi3, lo4, hi4. rewrite !nth_firstn_0.
  destruct (0 <? m)%nat eqn:M0; destruct (1 <? m)%nat eqn:M1; destruct (2 <? m)%nat eqn:M2;
    destruct (3 <? m)%nat eqn:M3;
    try (apply Nat.ltb_lt in M0); try (apply Nat.ltb_ge in M0);
    try (apply Nat.ltb_lt in M1); try (apply Nat.ltb_ge in M1);
    try (apply Nat.ltb_lt in M2); try (apply Nat.ltb_ge in M2);
    try (apply Nat.ltb_lt in M3); try (apply Nat.ltb_ge in M3);
    try (exfalso; lia); try reflexivity;
    split_ifs; cbn [snd]; intros L; try reflexivity; try (exfalso; lia).
Qed.

(* runes of a prefix that ends on a rune boundary *)
Lemma runes_firstn_offs : forall k s, runes (firstn (offs s k) s) = firstn k (runes s).
Proof.
  induction k as [|k IH]; intros s; [reflexivity|].
  destruct s as [|b r]; [reflexivity|].
  rewrite offs_S by discriminate. rewrite (runes_cons (b :: r)) by discriminate.
  cbn [firstn].
  set (w := snd (dec (b :: r))). set (t := skipn w (b :: r)).
  pose proof (dec_width (b :: r)) as W. fold w in W.
  assert (D : dec (firstn (w + offs t k) (b :: r)) = dec (b :: r)).
  { apply dec_firstn. fold w. lia. }
  rewrite runes_cons.
  2:{ destruct (w + offs t k)%nat eqn:E; [lia | discriminate]. }
  rewrite D. fold w. f_equal.
  rewrite <- IH. f_equal. unfold t. rewrite skipn_firstn_comm. f_equal. lia.
Qed.

Lemma explode_firstn_offs : forall k s, explode (firstn (offs s k) s) = firstn k (explode s).
Proof. intros. unfold explode. rewrite runes_firstn_offs. symmetry. apply firstn_map. Qed.

Lemma explode_skipn_offs : forall k s, explode (skipn (offs s k) s) = skipn k (explode s).
Proof. intros. unfold explode. rewrite runes_skipn_offs. symmetry. apply skipn_map. Qed.

Lemma count_firstn_offs : forall k s, (k <= length (runes s))%nat -> count_runes (firstn (offs s k) s) = k.
Proof.
  intros k s L. rewrite count_runes_explode, explode_firstn_offs, firstn_length.
  unfold explode. rewrite map_length. lia.
Qed.

(* offsets inside a suffix *)
Lemma list_sum_cons : forall w l, list_sum (w :: l) = (w + list_sum l)%nat.
Proof. reflexivity. Qed.

Lemma list_sum_skipn_firstn : forall (l : list nat) j k,
  (list_sum (firstn k (skipn j l)) + list_sum (firstn j l) = list_sum (firstn (j + k) l))%nat.
Proof.
  intros l j. revert l. induction j as [|j IH]; intros l k.
  { cbn [skipn firstn Nat.add]. change (list_sum []) with 0%nat. lia. }
  destruct l as [|w l]; [cbn [skipn]; rewrite !firstn_nil; change (list_sum []) with 0%nat; lia|].
  cbn [skipn firstn Nat.add]. rewrite !list_sum_cons. specialize (IH l k). lia.
Qed.

Lemma offs_skipn : forall j k s, (offs (skipn (offs s j) s) k + offs s j = offs s (j + k))%nat.
Proof.
  intros j k s.
  assert (E : widths (skipn (offs s j) s) = skipn j (widths s)).
  { unfold widths. rewrite runes_skipn_offs. symmetry. apply skipn_map. }
  unfold offs at 1. rewrite E. unfold offs. apply list_sum_skipn_firstn.
Qed.

(* the byte range between two boundaries holds exactly the runes in between *)
Definition sub_bytes (s : list N) (a b : nat) : list N := firstn (b - a) (skipn a s).

Lemma runes_sub_offs : forall s j k, (j <= k)%nat ->
  runes (sub_bytes s (offs s j) (offs s k)) = firstn (k - j) (skipn j (runes s)).
Proof.
  intros s j k L. unfold sub_bytes.
  replace (offs s k - offs s j)%nat with (offs (skipn (offs s j) s) (k - j)).
  - rewrite runes_firstn_offs, runes_skipn_offs. reflexivity.
  - pose proof (offs_skipn j (k - j) s) as H. replace (j + (k - j))%nat with k in H by lia. lia.
Qed.

Lemma explode_sub_offs : forall s j k, (j <= k)%nat ->
  explode (sub_bytes s (offs s j) (offs s k)) = firstn (k - j) (skipn j (explode s)).
Proof.
  intros. unfold explode. rewrite runes_sub_offs by assumption. rewrite skipn_map, firstn_map. reflexivity.
Qed.
