(* todate | fromdate on whole seconds of years 1..9999, the zero time excluded (c13/Date.v). *)
From Coq Require Import List NArith ZArith Bool Lia Arith.
From Verif Require Import c13.Tac c13.Jv c13.Time c13.TimeProofs c13.Date.
Import ListNotations.
Open Scope Z_scope.

(* ------------------------------------------------------------------ field ranges of civil_of_unix *)

Lemma civil_ranges : forall t, year_1 <= t <= year_9999_end ->
  let c := civil_of_unix t in
  1 <= c_year c <= 9999 /\ 1 <= c_month c <= 12 /\ 1 <= c_day c <= 31 /\
  0 <= c_hour c <= 23 /\ 0 <= c_min c <= 59 /\ 0 <= c_sec c <= 59.
Proof.
  intros t H. unfold year_1, year_9999_end in H. unfold civil_of_unix.
  set (abs := t + unix_to_absolute). set (days := abs / 86400). set (secs := abs mod 86400).
  assert (Ha : 9223371966606163200 <= abs <= 9223372282144060799) by (unfold abs, unix_to_absolute; lia).
  assert (Hd : 106751990354238 <= days <= 106751994006296) by (unfold days; lia).
  assert (Hs : 0 <= secs < 86400) by (unfold secs; lia).
  pose proof (split_days_spec days ltac:(lia)) as SD. destruct (split_days days) as [[century cyear] ayday].
  destruct SD as [Hc [Hy [Hay ED]]].
  pose proof (split_yday_spec ayday Hay) as SY. unfold split_yday in *.
  destruct SY as [Hm [Hjf EY]].
  cbv zeta. cbn [c_year c_month c_day c_hour c_min c_sec]. unfold march_thru_december, b2z, absolute_years.
  destruct (306 <=? ayday) eqn:J; repeat split; try lia.
Qed.

(* ------------------------------------------------------------------ reading back what was written *)

Lemma read4 : forall n r, 0 <= n <= 9999 -> read_digits 4 (fmt4 n ++ r) 0 O = (n, 4%nat, r).
Proof.
  intros n r H. unfold fmt4, digit. cbn [app read_digits].
  repeat match goal with
  | |- context [((48 <=? ?c) && (?c <=? 57))%N] =>
      replace ((48 <=? c) && (c <=? 57))%N with true by (symmetry; apply andb_true_iff; lia)
  end.
  f_equal. f_equal. lia.
Qed.

Lemma read2 : forall n r, 0 <= n <= 99 -> read_digits 2 (fmt2 n ++ r) 0 O = (n, 2%nat, r).
Proof.
  intros n r H. unfold fmt2, digit. cbn [app read_digits].
  repeat match goal with
  | |- context [((48 <=? ?c) && (?c <=? 57))%N] =>
      replace ((48 <=? c) && (c <=? 57))%N with true by (symmetry; apply andb_true_iff; lia)
  end.
  f_equal. f_equal. lia.
Qed.

Lemma parse_int4 : forall n r, 0 <= n <= 9999 -> parse_int 4 0 9999 (fmt4 n ++ r) = Some (n, r).
Proof.
  intros n r H. unfold parse_int. rewrite read4 by exact H.
  replace ((n <? 0) || (9999 <? n)) with false by (symmetry; apply orb_false_iff; lia). reflexivity.
Qed.

Lemma parse_int2 : forall mn mx n r, 0 <= n <= 99 -> mn <= n <= mx -> parse_int 2 mn mx (fmt2 n ++ r) = Some (n, r).
Proof.
  intros mn mx n r H R. unfold parse_int. rewrite read2 by exact H.
  replace ((n <? mn) || (mx <? n)) with false by (symmetry; apply orb_false_iff; lia). reflexivity.
Qed.

Lemma fmt4_not_minus : forall n r, 0 <= n <= 9999 ->
  match fmt4 n ++ r with c :: r' => if (c =? 45)%N then (-1, r') else (1, fmt4 n ++ r) | [] => (1, fmt4 n ++ r) end
  = (1, fmt4 n ++ r).
Proof.
  intros n r H. unfold fmt4, digit. cbn [app].
  replace (Z.to_N (48 + n / 1000) =? 45)%N with false by (symmetry; lia). reflexivity.
Qed.

Lemma parse_fields_text : forall y mo d h mi se,
  0 <= y <= 9999 -> 1 <= mo <= 12 -> 1 <= d <= 31 -> 0 <= h <= 23 -> 0 <= mi <= 59 -> 0 <= se <= 59 ->
  parse_fields (fmt4 y ++ [45%N] ++ fmt2 mo ++ [45%N] ++ fmt2 d ++ [84%N] ++
                fmt2 h ++ [58%N] ++ fmt2 mi ++ [58%N] ++ fmt2 se ++ [90%N]) =
  Some ({| f_year := y; f_month := mo; f_day := d; f_hour := h; f_min := mi; f_sec := se |}, [90%N]).
Proof.
  intros y mo d h mi se Hy Hmo Hd Hh Hmi Hse.
  unfold parse_fields. rewrite fmt4_not_minus by lia.
  rewrite parse_int4 by lia. cbn [obind expect app N.eqb Pos.eqb].
  rewrite parse_int2 by lia. cbn [obind expect app N.eqb Pos.eqb].
  rewrite parse_int2 by lia. cbn [obind expect app N.eqb Pos.eqb].
  rewrite parse_int2 by lia. cbn [obind expect app N.eqb Pos.eqb].
  rewrite parse_int2 by lia. cbn [obind expect app N.eqb Pos.eqb].
  rewrite parse_int2 by lia. cbn [obind]. rewrite Z.mul_1_l. reflexivity.
Qed.

Lemma parse_fields_fmt : forall c s, fmt_date c = Some s ->
  parse_fields s = Some ({| f_year := c_year c; f_month := c_month c; f_day := c_day c;
                            f_hour := c_hour c; f_min := c_min c; f_sec := c_sec c |}, [90%N]).
Proof.
  intros c s H. unfold fmt_date, in_range in H.
  destruct (_ && _) eqn:R in H; [|discriminate].
  repeat (apply andb_true_iff in R; destruct R as [R ?]).
  assert (E : s = fmt4 (c_year c) ++ [45%N] ++ fmt2 (c_month c) ++ [45%N] ++ fmt2 (c_day c) ++ [84%N] ++
             fmt2 (c_hour c) ++ [58%N] ++ fmt2 (c_min c) ++ [58%N] ++ fmt2 (c_sec c) ++ [90%N]) by congruence.
  rewrite E. apply parse_fields_text; lia.
Qed.

(* ------------------------------------------------------------------ the round trip *)

Lemma strftime_time_id : forall t, 0 <= t + unix_to_absolute -> strftime_time t = civil_of_unix t.
Proof. intros t H. unfold strftime_time. pose proof (unix_of_civil t H) as U. cbv zeta in U. rewrite U. reflexivity. Qed.

Lemma todate_text : forall t, year_1 <= t <= year_9999_end ->
  exists s, todate t = ROk (JStr s) /\ fmt_date (civil_of_unix t) = Some s.
Proof.
  intros t H. pose proof (civil_ranges t H) as R. cbv zeta in R.
  unfold year_1, year_9999_end in H. unfold todate.
  replace (exact_range t && (0 <=? t + unix_to_absolute)) with true
    by (symmetry; unfold exact_range, unix_to_absolute; apply andb_true_iff; lia).
  rewrite strftime_time_id by (unfold unix_to_absolute; lia).
  unfold fmt_date, in_range.
  replace (_ && _ && _ && _ && _ && _) with true
    by (symmetry; repeat (apply andb_true_iff; split); lia).
  eexists. split; reflexivity.
Qed.

(* todate | fromdate returns its input on whole seconds within years 1..9999, EXCEPT the zero time
   0001-01-01T00:00:00Z, which funcStrptime reports as a parse failure (known finding) *)
Lemma todate_fromdate_roundtrip : forall t, year_1 <= t <= year_9999_end -> t <> year_1 ->
  todate_fromdate t = ROk (JFlt (f64_of_Z t)).
Proof.
  intros t H Hz. destruct (todate_text t H) as [s [T F]].
  unfold todate_fromdate. rewrite T. cbn [bind]. unfold fromdate, strptime.
  rewrite (parse_fields_fmt _ _ F). cbn [f_year f_month f_day f_hour f_min f_sec].
  pose proof (unix_of_civil t) as U. cbv zeta in U. rewrite U by (unfold year_1, unix_to_absolute in *; lia).
  replace (t =? year_1) with false by (symmetry; lia).
  exact (gmtime_mktime t H).
Qed.

(* at the zero time the implementation's behaviour (an error) is what the model says *)
Example todate_fromdate_zero_time : todate_fromdate year_1 = RErr.
Proof. vm_compute. reflexivity. Qed.
