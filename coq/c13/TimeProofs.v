(* gmtime | mktime on whole seconds (c13/Time.v). *)
From Coq Require Import List NArith ZArith Bool Lia Arith.
From Verif Require Import c13.Tac c13.Jv c13.Time.
Import ListNotations.
Open Scope Z_scope.

(* the library's multiply-high forms are the Euclidean affine divisions of its own comment *)
Lemma mul32_cyear : forall cd, 3 <= cd < 146100 -> 2939745 * cd / 4294967296 = cd / 1461.
Proof. intros. lia. Qed.
Lemma mul32_ayday : forall cd, 3 <= cd < 146100 -> (2939745 * cd mod 4294967296) / 2939745 = cd mod 1461.
Proof. intros. lia. Qed.
Lemma shift_month : forall a, 0 <= a <= 365 -> (2141 * a + 197913) / 65536 = (5 * a + 461) / 153.
Proof. intros. lia. Qed.
Lemma shift_mday : forall a, 0 <= a <= 365 -> ((2141 * a + 197913) mod 65536) / 2141 = ((5 * a + 461) mod 153) / 5.
Proof. intros. lia. Qed.

Lemma split_days_spec : forall days, 0 <= days ->
  let '(century, cyear, ayday) := split_days days in
  0 <= century /\ 0 <= cyear <= 99 /\ 0 <= ayday <= 365 /\
  146097 * century / 4 + 1461 * cyear / 4 + ayday = days.
Proof.
  intros days H. unfold split_days.
  set (d := 4 * days + 3). set (cd := 4 * (d mod 146097 / 4) + 3).
  assert (Hcd : 3 <= cd < 146100) by (unfold cd; lia).
  rewrite (mul32_cyear cd Hcd), (mul32_ayday cd Hcd).
  assert (E : 146097 * (d / 146097) / 4 + (cd - 3) / 4 = days) by (unfold cd, d; lia).
  assert (E2 : 1461 * (cd / 1461) / 4 + cd mod 1461 / 4 = (cd - 3) / 4) by lia.
  repeat split; try lia; unfold d; lia.
Qed.

Lemma split_yday_spec : forall a, 0 <= a <= 365 ->
  let '(amonth, mday) := split_yday a in
  3 <= amonth <= 14 /\ (13 <= amonth <-> 306 <= a) /\ (979 * amonth - 2919) / 32 + mday - 1 = a.
Proof. intros a H. unfold split_yday. repeat split; lia. Qed.

Lemma clock_spec : forall secs, 0 <= secs < 86400 ->
  secs / 3600 * 3600 + secs mod 3600 / 60 * 60 + secs mod 60 = secs.
Proof. intros. lia. Qed.

(* mktime inverts gmtime on every whole second at or after the absolute epoch (in particular on
   years 1..9999) *)
Lemma unix_of_civil : forall t, 0 <= t + unix_to_absolute ->
  let c := civil_of_unix t in
  unix_of_fields (c_year c) (c_month c - 1) (c_day c) (c_hour c) (c_min c) (c_sec c) = t.
Proof.
  intros t H. unfold civil_of_unix.
  set (abs := t + unix_to_absolute) in *. set (days := abs / 86400). set (secs := abs mod 86400).
  assert (Hd : 0 <= days) by (unfold days; lia).
  assert (Hs : 0 <= secs < 86400) by (unfold secs; lia).
  pose proof (split_days_spec days Hd) as SD. destruct (split_days days) as [[century cyear] ayday].
  destruct SD as [Hc [Hy [Ha ED]]].
  pose proof (split_yday_spec ayday Ha) as SY. destruct (split_yday ayday) as [amonth mday].
  destruct SY as [Hm [Hjf EY]].
  cbv zeta. cbn [c_year c_month c_day c_hour c_min c_sec].
  unfold unix_of_fields, date_to_abs_days, march_thru_december, b2z.
  pose proof (clock_spec secs Hs) as CS.
  assert (EA : abs = days * 86400 + secs) by (unfold days, secs; lia).
  destruct (306 <=? ayday) eqn:J.
  - assert (13 <= amonth) by lia.
    replace ((amonth - 12 * 1 - 1) / 12) with 0 by lia.
    replace ((amonth - 12 * 1 - 1) mod 12 + 1) with (amonth - 12) by lia.
    replace (amonth - 12 <? 3) with true by (symmetry; lia).
    replace (amonth - 12 + 12 * 1) with amonth by lia.
    replace (century * 100 - absolute_years + cyear + 1 + 0 - 1 + absolute_years) with (century * 100 + cyear) by lia.
    replace ((century * 100 + cyear) / 100) with century by lia.
    replace ((century * 100 + cyear) mod 100) with cyear by lia.
    unfold abs in EA. lia.
  - assert (amonth <= 12) by lia.
    replace ((amonth - 12 * 0 - 1) / 12) with 0 by lia.
    replace ((amonth - 12 * 0 - 1) mod 12 + 1) with amonth by lia.
    replace (amonth <? 3) with false by (symmetry; lia).
    replace (amonth + 12 * 0) with amonth by lia.
    replace (century * 100 - absolute_years + cyear + 0 + 0 - 0 + absolute_years) with (century * 100 + cyear) by lia.
    replace ((century * 100 + cyear) / 100) with century by lia.
    replace ((century * 100 + cyear) mod 100) with cyear by lia.
    unfold abs in EA. lia.
Qed.

Lemma sec_float_roundtrip : forall s, 0 <= s < 60 -> Z_of_f64 (f64_of_Z s) = Some s.
Proof.
  intros s H.
  assert (G : forallb (fun s => match Z_of_f64 (f64_of_Z s) with Some s' => s' =? s | None => false end)
                (map Z.of_nat (seq 0 60)) = true) by (vm_compute; reflexivity).
  rewrite forallb_forall in G. specialize (G s).
  assert (I : In s (map Z.of_nat (seq 0 60))).
  { apply in_map_iff. exists (Z.to_nat s). split; [lia|]. apply in_seq. lia. }
  specialize (G I). destruct (Z_of_f64 (f64_of_Z s)) as [s'|]; [|discriminate]. f_equal. lia.
Qed.

(* gmtime | mktime returns its input on whole seconds within years 1..9999 *)
Lemma gmtime_mktime : forall t, year_1 <= t <= year_9999_end ->
  bind (gmtime t) mktime = ROk (JFlt (f64_of_Z t)).
Proof.
  intros t H. unfold year_1, year_9999_end in H. unfold gmtime.
  assert (R : exact_range t && (0 <=? t + unix_to_absolute) = true).
  { unfold exact_range, unix_to_absolute. apply andb_true_iff. split; lia. }
  rewrite R. cbn [bind mktime int_field].
  assert (Hs : 0 <= c_sec (civil_of_unix t) < 60).
  { unfold civil_of_unix. destruct (split_days _) as [[a b] c]. destruct (split_yday _). cbn [c_sec]. lia. }
  rewrite (sec_float_roundtrip _ Hs).
  pose proof (unix_of_civil t) as U. cbv zeta in U.
  replace (c_month (civil_of_unix t) - 1) with (c_month (civil_of_unix t) - 1) by reflexivity.
  rewrite U by (unfold unix_to_absolute; lia).
  replace (exact_range t) with true by (symmetry; unfold exact_range; lia). reflexivity.
Qed.

(* the year reported by gmtime stays within 1..9999 exactly on that interval's end points *)
Example gmtime_year_bounds :
  c_year (civil_of_unix year_1) = 1 /\ c_year (civil_of_unix (year_1 - 1)) = 0 /\
  c_year (civil_of_unix year_9999_end) = 9999 /\ c_year (civil_of_unix (year_9999_end + 1)) = 10000.
Proof. vm_compute. repeat split. Qed.
