(* Native codecs of func.go over byte lists (definitions only; proofs in CodecProofs.v).

   @base64   funcToBase64   base64.StdEncoding.EncodeToString
   @base64d  funcToBase64d  cut at the first '=' (strings.IndexRune), then base64.RawStdEncoding.DecodeString
                            (CR and LF are skipped anywhere; a lone trailing character is an error;
                             2 / 3 trailing characters give 1 / 2 bytes, spare bits ignored: not Strict)
   @uri      funcToURI      strings.ReplaceAll(url.QueryEscape(x), "+", "%20")
   @urid     funcToURId     url.QueryUnescape(strings.ReplaceAll(x, "+", "%2B"))
   split/1   funcSplit      strings.Split (non-empty separator: leftmost non-overlapping occurrences;
                            empty separator: one piece per UTF-8 sequence)
   join/1    funcJoin       on an array of strings: concatenation with the separator in between
   ltrimstr/rtrimstr        strings.TrimPrefix / TrimSuffix *)
From Coq Require Import List NArith ZArith Bool.
From Verif Require Import c13.Utf8.
Import ListNotations.
Open Scope N_scope.

Fixpoint bytes_eqb (a b : list N) : bool :=
  match a, b with
  | [], [] => true
  | x :: a', y :: b' => (x =? y) && bytes_eqb a' b'
  | _, _ => false
  end.

(* ------------------------------------------------------------------ base64 *)

(* encodeStd alphabet: value -> character, character -> value *)
Definition b64char (v : N) : N :=
  if v <? 26 then 65 + v else if v <? 52 then 71 + v else if v <? 62 then v - 4
  else if v =? 62 then 43 else 47.
Definition b64val (c : N) : option N :=
  if (65 <=? c) && (c <=? 90) then Some (c - 65)
  else if (97 <=? c) && (c <=? 122) then Some (c - 71)
  else if (48 <=? c) && (c <=? 57) then Some (c + 4)
  else if c =? 43 then Some 62 else if c =? 47 then Some 63 else None.

Definition pad : N := 61.

Fixpoint b64enc (s : list N) : list N :=
  match s with
  | a :: b :: c :: r =>
      b64char (a / 4) :: b64char ((a mod 4) * 16 + b / 16) :: b64char ((b mod 16) * 4 + c / 64)
        :: b64char (c mod 64) :: b64enc r
  | [a; b] => [b64char (a / 4); b64char ((a mod 4) * 16 + b / 16); b64char ((b mod 16) * 4); pad]
  | [a] => [b64char (a / 4); b64char ((a mod 4) * 16); pad; pad]
  | [] => []
  end.

(* x[:strings.IndexRune(x, '=')] when '=' occurs *)
Fixpoint cut_pad (s : list N) : list N :=
  match s with
  | [] => []
  | c :: r => if c =? pad then [] else c :: cut_pad r
  end.

Definition is_crlf (c : N) : bool := (c =? 10) || (c =? 13).

(* RawStdEncoding.Decode on input without CR/LF *)
Fixpoint b64dec_raw (s : list N) : option (list N) :=
  match s with
  | [] => Some []
  | [_] => None
  | [c0; c1] =>
      match b64val c0, b64val c1 with
      | Some v0, Some v1 => Some [v0 * 4 + v1 / 16]
      | _, _ => None
      end
  | [c0; c1; c2] =>
      match b64val c0, b64val c1, b64val c2 with
      | Some v0, Some v1, Some v2 => Some [v0 * 4 + v1 / 16; (v1 mod 16) * 16 + v2 / 4]
      | _, _, _ => None
      end
  | c0 :: c1 :: c2 :: c3 :: r =>
      match b64val c0, b64val c1, b64val c2, b64val c3, b64dec_raw r with
      | Some v0, Some v1, Some v2, Some v3, Some t =>
          Some (v0 * 4 + v1 / 16 :: (v1 mod 16) * 16 + v2 / 4 :: (v2 mod 4) * 64 + v3 :: t)
      | _, _, _, _, _ => None
      end
  end.

Definition b64d (s : list N) : option (list N) :=
  b64dec_raw (filter (fun c => negb (is_crlf c)) (cut_pad s)).

(* ------------------------------------------------------------------ @uri / @urid *)

Definition is_alnum (c : N) : bool :=
  ((97 <=? c) && (c <=? 122)) || ((65 <=? c) && (c <=? 90)) || ((48 <=? c) && (c <=? 57)).
(* url.shouldEscape(c, encodeQueryComponent) *)
Definition should_escape (c : N) : bool :=
  if is_alnum c then false
  else if (c =? 45) || (c =? 95) || (c =? 46) || (c =? 126) then false   (* - _ . ~ *)
  else true.
Definition upperhex (v : N) : N := if v <? 10 then 48 + v else 55 + v.
(* url.QueryEscape *)
Definition qesc1 (c : N) : list N :=
  if c =? 32 then [43]
  else if should_escape c then [37; upperhex (c / 16); upperhex (c mod 16)]
  else [c].
Definition query_escape (s : list N) : list N := flat_map qesc1 s.
(* strings.ReplaceAll(s, "+", t) *)
Definition replace_plus (t : list N) (s : list N) : list N :=
  flat_map (fun c => if c =? 43 then t else [c]) s.
Definition uri (s : list N) : list N := replace_plus [37; 50; 48] (query_escape s).   (* "%20" *)

Definition ishex (c : N) : bool :=
  ((48 <=? c) && (c <=? 57)) || ((97 <=? c) && (c <=? 102)) || ((65 <=? c) && (c <=? 70)).
Definition unhex (c : N) : N :=
  if (48 <=? c) && (c <=? 57) then c - 48
  else if (97 <=? c) && (c <=? 102) then c - 87
  else if (65 <=? c) && (c <=? 70) then c - 55 else 0.
(* url.unescape(s, encodeQueryComponent): None = EscapeError *)
Fixpoint query_unescape (s : list N) : option (list N) :=
  match s with
  | [] => Some []
  | c :: r =>
      if c =? 37 then
        match r with
        | h1 :: h2 :: r2 =>
            if ishex h1 && ishex h2 then option_map (cons (unhex h1 * 16 + unhex h2)) (query_unescape r2)
            else None
        | _ => None
        end
      else if c =? 43 then option_map (cons 32) (query_unescape r)
      else option_map (cons c) (query_unescape r)
  end.
Definition urid (s : list N) : option (list N) := query_unescape (replace_plus [37; 50; 66] s).  (* "%2B" *)

(* ------------------------------------------------------------------ split / join *)

Fixpoint prefixb (p s : list N) : bool :=
  match p, s with
  | [], _ => true
  | x :: p', y :: s' => (x =? y) && prefixb p' s'
  | _ :: _, [] => false
  end.

(* strings.Index for a non-empty pattern: leftmost occurrence *)
Fixpoint index_of (p s : list N) : option nat :=
  if prefixb p s then Some O
  else match s with
       | [] => None
       | _ :: r => option_map S (index_of p r)
       end.

(* strings.Split(s, sep), sep non-empty: the genSplit loop
     for i < n { m := Index(s, sep); if m < 0 {break}; a[i] = s[:m]; s = s[m+len(sep):] }; a[i] = s
   fuel bounds the number of iterations (length s + 1 always suffices) *)
Fixpoint split_f (fuel : nat) (sep s : list N) : list (list N) :=
  match fuel with
  | O => [s]
  | S f => match index_of sep s with
           | None => [s]
           | Some m => firstn m s :: split_f f sep (skipn (m + length sep) s)
           end
  end.

(* strings.Split(s, ""): explode into UTF-8 sequences (an ill-formed byte is a piece of its own) *)
Fixpoint chunks (ws : list nat) (s : list N) : list (list N) :=
  match ws with
  | [] => []
  | w :: r => firstn w s :: chunks r (skipn w s)
  end.

Definition split (sep s : list N) : list (list N) :=
  match sep with
  | [] => chunks (widths s) s
  | _ => split_f (S (length s)) sep s
  end.

Fixpoint join (sep : list N) (l : list (list N)) : list N :=
  match l with
  | [] => []
  | [x] => x
  | x :: r => x ++ sep ++ join sep r
  end.

(* ------------------------------------------------------------------ trimming *)

Definition ltrimstr (p s : list N) : list N := if prefixb p s then skipn (length p) s else s.
Definition suffixb (p s : list N) : bool := prefixb (rev p) (rev s).
Definition rtrimstr (p s : list N) : list N := if suffixb p s then firstn (length s - length p) s else s.
Definition startswith (s p : list N) : bool := prefixb p s.
Definition endswith (s p : list N) : bool := suffixb p s.
