(* Proofs about the path primitives and the jq-defined converters (c13/Jv.v). *)
From Coq Require Import List NArith ZArith Bool Lia Arith.
From Verif Require Import c13.Tac c13.Codec c13.Jv.
Import ListNotations.
Open Scope Z_scope.

(* ------------------------------------------------------------------ induction on jv *)

Section JvInd.
  Variable P : jv -> Prop.
  Hypothesis Hnull : P JNull.
  Hypothesis Hbool : forall b, P (JBool b).
  Hypothesis Hint : forall z, P (JInt z).
  Hypothesis Hflt : forall b, P (JFlt b).
  Hypothesis Hlit : forall t, P (JLit t).
  Hypothesis Hstr : forall s, P (JStr s).
  Hypothesis Harr : forall l, Forall P l -> P (JArr l).
  Hypothesis Hobj : forall m, Forall (fun kv => P (snd kv)) m -> P (JObj m).

  Fixpoint jv_ind' (v : jv) : P v :=
    match v with
    | JNull => Hnull | JBool b => Hbool b | JInt z => Hint z | JFlt b => Hflt b
    | JLit t => Hlit t | JStr s => Hstr s
    | JArr l => Harr l ((fix go (l : list jv) : Forall P l :=
                           match l with
                           | [] => Forall_nil P
                           | x :: r => Forall_cons x (jv_ind' x) (go r)
                           end) l)
    | JObj m => Hobj m ((fix go (m : list (str * jv)) : Forall (fun kv => P (snd kv)) m :=
                           match m with
                           | [] => Forall_nil _
                           | kv :: r => Forall_cons kv (jv_ind' (snd kv)) (go r)
                           end) m)
    end.
End JvInd.

(* ------------------------------------------------------------------ keys: equality and order *)

Lemma bytes_eqb_refl : forall a, bytes_eqb a a = true.
Proof. induction a as [|x a IH]; [reflexivity|]. cbn. rewrite N.eqb_refl. exact IH. Qed.

Lemma bytes_eqb_eq : forall a b, bytes_eqb a b = true -> a = b.
Proof.
  induction a as [|x a IH]; intros [|y b] H; try discriminate; [reflexivity|].
  cbn in H. apply andb_true_iff in H. destruct H as [E H]. apply N.eqb_eq in E. subst y.
  f_equal. apply IH. exact H.
Qed.

Lemma bytes_eqb_neq : forall a b, bytes_eqb a b = false -> a <> b.
Proof. intros a b H E. subst b. rewrite bytes_eqb_refl in H. discriminate. Qed.

Lemma bytes_ltb_irrefl : forall a, bytes_ltb a a = false.
Proof.
  induction a as [|x a IH]; [reflexivity|]. cbn. rewrite N.ltb_irrefl, N.eqb_refl. exact IH.
Qed.

Lemma bytes_ltb_asym : forall a b, bytes_ltb a b = true -> bytes_ltb b a = false.
Proof.
  induction a as [|x a IH]; intros [|y b] H; try discriminate; try reflexivity.
  cbn in H |- *. apply orb_true_iff in H. apply orb_false_iff. destruct H as [H | H].
  - split; [lia|]. apply andb_false_iff. left. lia.
  - apply andb_true_iff in H. destruct H as [E H]. split; [lia|].
    apply andb_false_iff. right. apply IH. exact H.
Qed.

Lemma bytes_ltb_trans : forall a b c, bytes_ltb a b = true -> bytes_ltb b c = true -> bytes_ltb a c = true.
Proof.
  induction a as [|x a IH]; intros [|y b] [|z c] H1 H2; try discriminate; try reflexivity.
  cbn in H1, H2 |- *. apply orb_true_iff in H1. apply orb_true_iff in H2. apply orb_true_iff.
  destruct H1 as [H1 | H1]; destruct H2 as [H2 | H2].
  - left. lia.
  - apply andb_true_iff in H2. destruct H2 as [E _]. left. lia.
  - apply andb_true_iff in H1. destruct H1 as [E _]. left. lia.
  - apply andb_true_iff in H1. apply andb_true_iff in H2. destruct H1 as [E1 H1]. destruct H2 as [E2 H2].
    right. apply andb_true_iff. split; [lia|]. exact (IH _ _ H1 H2).
Qed.

Lemma bytes_ltb_neq : forall a b, bytes_ltb a b = true -> bytes_eqb a b = false.
Proof.
  intros a b H. destruct (bytes_eqb a b) eqn:E; [|reflexivity].
  apply bytes_eqb_eq in E. subst b. rewrite bytes_ltb_irrefl in H. discriminate.
Qed.

Definition keys_lt (m : list (str * jv)) (k : str) : Prop :=
  Forall (fun kv => bytes_ltb (fst kv) k = true) m.
Definition lt_keys (k : str) (m : list (str * jv)) : Prop :=
  Forall (fun kv => bytes_ltb k (fst kv) = true) m.

Lemma sorted_cons_inv : forall k v r, sorted_keys ((k, v) :: r) = true -> lt_keys k r /\ sorted_keys r = true.
Proof.
  intros k v r. revert k v. induction r as [|[k' v'] r IH]; intros k v H.
  - split; [constructor | reflexivity].
  - cbn [sorted_keys] in H. apply andb_true_iff in H. destruct H as [L S].
    split; [|exact S]. constructor; [exact L|].
    destruct (IH k' v' S) as [L' _]. unfold lt_keys in *.
    eapply Forall_impl; [|exact L']. intros [k2 v2] H2. cbn [fst] in *. exact (bytes_ltb_trans _ _ _ L H2).
Qed.

Lemma sorted_cons_intro : forall k v r, lt_keys k r -> sorted_keys r = true -> sorted_keys ((k, v) :: r) = true.
Proof.
  intros k v [|[k' v'] r] L S; [reflexivity|]. cbn [sorted_keys]. apply andb_true_iff. split; [|exact S].
  apply Forall_inv in L. exact L.
Qed.

Lemma sorted_app_inv : forall a k v r, sorted_keys (a ++ (k, v) :: r) = true ->
  keys_lt a k /\ sorted_keys ((k, v) :: r) = true.
Proof.
  induction a as [|[k0 v0] a IH]; intros k v r H.
  - split; [constructor | exact H].
  - cbn [app] in H. destruct (sorted_cons_inv _ _ _ H) as [L S]. destruct (IH _ _ _ S) as [L' S'].
    split; [|exact S']. constructor; [|exact L'].
    unfold lt_keys in L. apply Forall_app in L. destruct L as [_ L]. apply Forall_inv in L. exact L.
Qed.

(* ------------------------------------------------------------------ lookup / oset *)

Lemma lookup_oset_same : forall k u m, lookup k (oset k u m) = Some u.
Proof.
  intros k u. induction m as [|[k' v] r IH]; cbn [oset lookup].
  - rewrite bytes_eqb_refl. reflexivity.
  - destruct (bytes_eqb k k') eqn:E; [cbn [lookup]; rewrite bytes_eqb_refl; reflexivity|].
    destruct (bytes_ltb k k') eqn:L; cbn [lookup]; [rewrite bytes_eqb_refl; reflexivity|].
    rewrite E. exact IH.
Qed.

Lemma lookup_in_lt : forall k k0 m c, lt_keys k0 m -> lookup k m = Some c -> bytes_ltb k0 k = true.
Proof.
  intros k k0. induction m as [|[k' v] r IH]; intros c L H; [discriminate|].
  cbn [lookup] in H. apply Forall_cons_iff in L. destruct L as [L1 L2]. cbn [fst] in L1.
  destruct (bytes_eqb k k') eqn:E.
  - apply bytes_eqb_eq in E. subst k'. exact L1.
  - exact (IH c L2 H).
Qed.

(* storing back what is already there changes nothing *)
Lemma oset_lookup_id : forall k c m, sorted_keys m = true -> lookup k m = Some c -> oset k c m = m.
Proof.
  intros k c. induction m as [|[k' v] r IH]; intros S H; [discriminate|].
  cbn [lookup] in H. cbn [oset]. destruct (bytes_eqb k k') eqn:E.
  - injection H as <-. apply bytes_eqb_eq in E. subst k'. reflexivity.
  - destruct (sorted_cons_inv _ _ _ S) as [L S'].
    pose proof (lookup_in_lt _ _ _ _ L H) as Lt. rewrite (bytes_ltb_asym _ _ Lt).
    f_equal. exact (IH S' H).
Qed.

(* storing a key larger than all present appends *)
Lemma oset_append : forall k u m, keys_lt m k -> oset k u m = m ++ [(k, u)].
Proof.
  intros k u. induction m as [|[k' v] r IH]; intros L; [reflexivity|].
  apply Forall_cons_iff in L. destruct L as [L1 L2]. cbn [fst] in L1. cbn [oset app].
  assert (E : bytes_eqb k k' = false).
  { destruct (bytes_eqb k k') eqn:E; [|reflexivity]. apply bytes_eqb_eq in E. subst k'.
    rewrite bytes_ltb_irrefl in L1. discriminate. }
  rewrite E, (bytes_ltb_asym _ _ L1). f_equal. exact (IH L2).
Qed.

(* storing at the last key replaces the last binding *)
Lemma oset_last : forall k u c m, keys_lt m k -> oset k u (m ++ [(k, c)]) = m ++ [(k, u)].
Proof.
  intros k u c. induction m as [|[k' v] r IH]; intros L.
  - cbn [app oset]. rewrite bytes_eqb_refl. reflexivity.
  - apply Forall_cons_iff in L. destruct L as [L1 L2]. cbn [fst] in L1. cbn [oset app].
    assert (E : bytes_eqb k k' = false).
    { destruct (bytes_eqb k k') eqn:E; [|reflexivity]. apply bytes_eqb_eq in E. subst k'.
      rewrite bytes_ltb_irrefl in L1. discriminate. }
    rewrite E, (bytes_ltb_asym _ _ L1). f_equal. exact (IH L2).
Qed.

Lemma lookup_app_last : forall k c m, keys_lt m k -> lookup k (m ++ [(k, c)]) = Some c.
Proof.
  intros k c. induction m as [|[k' v] r IH]; intros L.
  - cbn. rewrite bytes_eqb_refl. reflexivity.
  - apply Forall_cons_iff in L. destruct L as [L1 L2]. cbn [fst] in L1. cbn [app lookup].
    assert (E : bytes_eqb k k' = false).
    { destruct (bytes_eqb k k') eqn:E; [|reflexivity]. apply bytes_eqb_eq in E. subst k'.
      rewrite bytes_ltb_irrefl in L1. discriminate. }
    rewrite E. exact (IH L2).
Qed.

Lemma lookup_none_lt : forall k m, keys_lt m k -> lookup k m = None.
Proof.
  intros k. induction m as [|[k' v] r IH]; intros L; [reflexivity|].
  apply Forall_cons_iff in L. destruct L as [L1 L2]. cbn [fst] in L1. cbn [lookup].
  assert (E : bytes_eqb k k' = false).
  { destruct (bytes_eqb k k') eqn:E; [|reflexivity]. apply bytes_eqb_eq in E. subst k'.
    rewrite bytes_ltb_irrefl in L1. discriminate. }
  rewrite E. exact (IH L2).
Qed.

Lemma lookup_sorted_in : forall m k c, sorted_keys m = true -> In (k, c) m -> lookup k m = Some c.
Proof.
  induction m as [|[k' v] r IH]; intros k c S H; [contradiction|].
  destruct (sorted_cons_inv _ _ _ S) as [L S']. cbn [lookup]. destruct H as [H | H].
  - injection H as -> ->. rewrite bytes_eqb_refl. reflexivity.
  - assert (Lt : bytes_ltb k' k = true).
    { unfold lt_keys in L. rewrite Forall_forall in L. exact (L _ H). }
    assert (E : bytes_eqb k k' = false).
    { destruct (bytes_eqb k k') eqn:E; [|reflexivity]. apply bytes_eqb_eq in E. subst k'.
      rewrite bytes_ltb_irrefl in Lt. discriminate. }
    rewrite E. exact (IH _ _ S' H).
Qed.

(* ------------------------------------------------------------------ arrays *)

Lemma set_nth_length : forall i u l, length (set_nth i u l) = Nat.max (S i) (length l).
Proof.
  induction i as [|i IH]; intros u [|x r]; cbn [set_nth length]; try rewrite IH; cbn [length]; lia.
Qed.

Lemma nth_set_nth : forall i u l d, nth i (set_nth i u l) d = u.
Proof. induction i as [|i IH]; intros u [|x r] d; cbn [set_nth nth]; try apply IH; reflexivity. Qed.

Lemma set_nth_same : forall i l, (i < length l)%nat -> set_nth i (nth i l JNull) l = l.
Proof.
  induction i as [|i IH]; intros [|x r] L; cbn [length] in L; try lia; cbn [set_nth nth]; [reflexivity|].
  f_equal. apply IH. lia.
Qed.

Lemma set_nth_append : forall u l, set_nth (length l) u l = l ++ [u].
Proof. intros u. induction l as [|x r IH]; [reflexivity|]. cbn [length set_nth app]. f_equal. exact IH. Qed.

Lemma set_nth_last : forall u c l, set_nth (length l) u (l ++ [c]) = l ++ [u].
Proof. intros u c. induction l as [|x r IH]; [reflexivity|]. cbn [length set_nth app]. f_equal. exact IH. Qed.

Lemma len_nonneg : forall A (l : list A), 0 <= len l.
Proof. intros. unfold len. lia. Qed.

Lemma index_arr_in : forall l n, (n < length l)%nat -> index_arr l (Z.of_nat n) = nth n l JNull.
Proof.
  intros l n L. unfold index_arr, clamp_index, len.
  split_ifs; try lia; rewrite ?Nat2Z.id; try reflexivity; try (exfalso; lia).
Qed.

Lemma index_arr_nonneg : forall l z, 0 <= z -> z < len l -> index_arr l z = nth (Z.to_nat z) l JNull.
Proof.
  intros l z H0 H1. unfold index_arr, clamp_index.
  split_ifs; try lia; try reflexivity; try (exfalso; lia).
Qed.

(* ------------------------------------------------------------------ setpath then getpath *)

Lemma bind_ok : forall A B (r : res A) (f : A -> res B) b, bind r f = ROk b -> exists a, r = ROk a /\ f a = ROk b.
Proof. intros A B [a| |] f b H; try discriminate. exists a. split; [reflexivity | exact H]. Qed.

Lemma getpath_update : forall p v x w, update p v x = ROk w -> getpath p w = ROk x.
Proof.
  induction p as [|e p IH]; intros v x w H.
  - cbn in H. injection H as <-. reflexivity.
  - destruct e; try discriminate.
    + (* integer index *)
      assert (G : forall l, (let j := clamp_index z (-1) (len l) in
                  if j <? 0 then RErr
                  else if j <? len l then
                    bind (update p (nth (Z.to_nat j) l JNull) x) (fun u => ROk (JArr (set_nth (Z.to_nat j) u l)))
                  else if max_index <=? z then RErr
                  else bind (update p JNull x) (fun u => ROk (JArr (set_nth (Z.to_nat z) u l)))) = ROk w ->
                getpath (JInt z :: p) w = ROk x).
      { intros l G. cbv zeta in G. pose proof (len_nonneg _ l) as Ln.
        destruct (clamp_index z (-1) (len l) <? 0) eqn:C1; [discriminate|].
        destruct (clamp_index z (-1) (len l) <? len l) eqn:C2.
        - apply bind_ok in G. destruct G as [u [U G]]. injection G as <-.
          cbn [getpath index2 bind]. unfold index_arr.
          assert (Ll : len (set_nth (Z.to_nat (clamp_index z (-1) (len l))) u l) = len l).
          { unfold len. rewrite set_nth_length. unfold len in *. lia. }
          rewrite Ll.
          replace ((0 <=? clamp_index z (-1) (len l)) && (clamp_index z (-1) (len l) <? len l)) with true
            by (symmetry; apply andb_true_iff; lia).
          rewrite nth_set_nth. exact (IH _ _ _ U).
        - destruct (max_index <=? z) eqn:C3; [discriminate|].
          apply bind_ok in G. destruct G as [u [U G]]. injection G as <-.
          assert (Z0 : 0 <= z /\ len l <= z).
          { unfold clamp_index in C1, C2. revert C1 C2. split_ifs; intros; lia. }
          cbn [getpath index2 bind].
          assert (Ll : len (set_nth (Z.to_nat z) u l) = z + 1).
          { unfold len. rewrite set_nth_length. unfold len in *. lia. }
          rewrite index_arr_nonneg by lia.
          rewrite nth_set_nth. exact (IH _ _ _ U). }
      cbn [update] in H. destruct v; try discriminate; [exact (G [] H) | exact (G l H)].
    + (* string key *)
      assert (G : forall m, bind (update p (match lookup s m with Some c => c | None => JNull end) x)
                                 (fun u => ROk (JObj (oset s u m))) = ROk w ->
                getpath (JStr s :: p) w = ROk x).
      { intros m G. apply bind_ok in G. destruct G as [u [U G]]. injection G as <-.
        cbn [getpath index2 bind]. rewrite lookup_oset_same. exact (IH _ _ _ U). }
      cbn [update] in H. destruct v; try discriminate; [exact (G [] H) | exact (G m H)].
Qed.

(* ------------------------------------------------------------------ setpath(p; getpath(p)) on paths *)

Lemma clamp_in : forall z mx, 0 <= z -> z < mx -> clamp_index z (-1) mx = z.
Proof. intros. unfold clamp_index. split_ifs; lia. Qed.

Lemma in_paths_arr : forall f l i p, In p (paths_arr_go f i l) ->
  exists n c, nth_error l n = Some c /\ (p = [JInt (i + Z.of_nat n)] \/ exists q, In q (f c) /\ p = JInt (i + Z.of_nat n) :: q).
Proof.
  intros f. induction l as [|c r IH]; intros i p H; [contradiction|].
  cbn [paths_arr_go] in H. apply in_app_or in H. destruct H as [H | H].
  - exists O, c. split; [reflexivity|]. rewrite Z.add_0_r. destruct H as [H | H].
    + left. symmetry. exact H.
    + right. apply in_map_iff in H. destruct H as [q [E Hq]]. exists q. split; [exact Hq | symmetry; exact E].
  - destruct (IH _ _ H) as [n [c' [N D]]]. exists (S n), c'. split; [exact N|].
    replace (i + Z.of_nat (S n)) with (i + 1 + Z.of_nat n) by lia. exact D.
Qed.

Lemma in_paths_obj : forall f m p, In p (paths_obj_go f m) ->
  exists k c, In (k, c) m /\ (p = [JStr k] \/ exists q, In q (f c) /\ p = JStr k :: q).
Proof.
  intros f. induction m as [|[k c] r IH]; intros p H; [contradiction|].
  cbn [paths_obj_go] in H. apply in_app_or in H. destruct H as [H | H].
  - exists k, c. split; [left; reflexivity|]. destruct H as [H | H].
    + left. symmetry. exact H.
    + right. apply in_map_iff in H. destruct H as [q [E Hq]]. exists q. split; [exact Hq | symmetry; exact E].
  - destruct (IH _ H) as [k' [c' [I D]]]. exists k', c'. split; [right; exact I | exact D].
Qed.

Lemma wf_arr_inv : forall l, wf (JArr l) -> Forall wf l.
Proof. intros l H. unfold wf in H. cbn [wfb] in H. rewrite forallb_forall in H. apply Forall_forall. exact H. Qed.

Lemma wf_obj_inv : forall m, wf (JObj m) -> sorted_keys m = true /\ Forall (fun kv => wf (snd kv)) m.
Proof.
  intros m H. unfold wf in H. cbn [wfb] in H. apply andb_true_iff in H. destruct H as [S F].
  split; [exact S|]. rewrite forallb_forall in F. apply Forall_forall. exact F.
Qed.

Lemma nth_error_nth_jv : forall (l : list jv) n c, nth_error l n = Some c -> nth n l JNull = c /\ (n < length l)%nat.
Proof.
  intros l n c H. split; [exact (nth_error_nth l n JNull H)|]. apply nth_error_Some. rewrite H. discriminate.
Qed.

Lemma update_getpath_id_gen : forall v, wf v -> forall p, p = [] \/ In p (paths v) ->
  exists x, getpath p v = ROk x /\ update p v x = ROk v.
Proof.
  induction v as [| | | | | |l IH|m IH] using jv_ind'; intros W p [-> | H];
    try (exists JNull; split; reflexivity); try contradiction;
    try (eexists; split; reflexivity).
  - (* array *)
    cbn [paths] in H. apply in_paths_arr in H. destruct H as [n [c [N D]]].
    destruct (nth_error_nth_jv _ _ _ N) as [Nc Nl]. rewrite Z.add_0_l in D.
    assert (Wc : wf c).
    { pose proof (wf_arr_inv _ W) as F. rewrite Forall_forall in F. apply F. eapply nth_error_In. exact N. }
    assert (IHc : forall q, q = [] \/ In q (paths c) -> exists x, getpath q c = ROk x /\ update q c x = ROk c).
    { rewrite Forall_forall in IH. apply IH; [eapply nth_error_In; exact N | exact Wc]. }
    assert (G : forall q, q = [] \/ In q (paths c) ->
              exists x, getpath (JInt (Z.of_nat n) :: q) (JArr l) = ROk x /\
                        update (JInt (Z.of_nat n) :: q) (JArr l) x = ROk (JArr l)).
    { intros q Hq. destruct (IHc q Hq) as [x [G U]]. exists x. split.
      - cbn [getpath index2 bind]. rewrite index_arr_in by exact Nl. rewrite Nc. exact G.
      - cbn [update]. rewrite clamp_in by (unfold len; lia).
        replace (Z.of_nat n <? 0) with false by (symmetry; lia).
        replace (Z.of_nat n <? len l) with true by (symmetry; unfold len; lia).
        rewrite Nat2Z.id, Nc, U. cbn [bind]. rewrite <- Nc at 1. rewrite set_nth_same by exact Nl. reflexivity. }
    destruct D as [-> | [q [Hq ->]]]; [apply G; left; reflexivity | apply G; right; exact Hq].
  - (* object *)
    cbn [paths] in H. apply in_paths_obj in H. destruct H as [k [c [I D]]].
    destruct (wf_obj_inv _ W) as [S F].
    assert (Wc : wf c). { rewrite Forall_forall in F. exact (F _ I). }
    assert (L : lookup k m = Some c) by (apply lookup_sorted_in; assumption).
    assert (IHc : forall q, q = [] \/ In q (paths c) -> exists x, getpath q c = ROk x /\ update q c x = ROk c).
    { rewrite Forall_forall in IH. exact (IH _ I Wc). }
    assert (G : forall q, q = [] \/ In q (paths c) ->
              exists x, getpath (JStr k :: q) (JObj m) = ROk x /\ update (JStr k :: q) (JObj m) x = ROk (JObj m)).
    { intros q Hq. destruct (IHc q Hq) as [x [G U]]. exists x. split.
      - cbn [getpath index2 bind]. rewrite L. exact G.
      - cbn [update]. rewrite L, U. cbn [bind]. rewrite oset_lookup_id by assumption. reflexivity. }
    destruct D as [-> | [q [Hq ->]]]; [apply G; left; reflexivity | apply G; right; exact Hq].
Qed.

Lemma update_getpath_id : forall v p, wf v -> In p (paths v) ->
  exists x, getpath p v = ROk x /\ setpath p x v = ROk v.
Proof. intros v p W H. apply update_getpath_id_gen; [exact W | right; exact H]. Qed.

(* ------------------------------------------------------------------ to_entries | from_entries *)

Definition entry (kv : str * jv) : jv := JObj [(k_key, JStr (fst kv)); (k_value, snd kv)].

Lemma entry_obj_entry : forall k v, entry_obj (entry (k, v)) = ROk (k, v).
Proof. intros. reflexivity. Qed.

Lemma add_entries_sorted : forall r acc, sorted_keys (acc ++ r) = true ->
  add_entries acc (map entry r) = ROk (acc ++ r).
Proof.
  induction r as [|[k v] r IH]; intros acc S.
  - rewrite app_nil_r. reflexivity.
  - cbn [map add_entries]. rewrite entry_obj_entry. cbn [bind fst snd].
    destruct (sorted_app_inv _ _ _ _ S) as [L _]. rewrite oset_append by exact L.
    rewrite IH; rewrite <- app_assoc; [reflexivity | exact S].
Qed.

Lemma to_from_entries : forall m, wf (JObj m) -> bind (to_entries (JObj m)) from_entries = ROk (JObj m).
Proof.
  intros m W. destruct (wf_obj_inv _ W) as [S _]. cbn [to_entries bind from_entries].
  change (map (fun kv => JObj [(k_key, JStr (fst kv)); (k_value, snd kv)]) m) with (map entry m).
  rewrite (add_entries_sorted m []) by exact S. reflexivity.
Qed.

Lemma with_entries_identity : forall m, wf (JObj m) -> with_entries_id (JObj m) = ROk (JObj m).
Proof.
  intros m W. unfold with_entries_id. cbn [to_entries bind]. rewrite map_id. exact (to_from_entries m W).
Qed.

(* ------------------------------------------------------------------ tostream: leaves *)

Definition pre (e : jv) (pv : list jv * jv) : list jv * jv := (e :: fst pv, snd pv).

Lemma leaves_app : forall a b, leaves (a ++ b) = leaves a ++ leaves b.
Proof. intros. unfold leaves. apply flat_map_app. Qed.

Lemma leaves_prepend : forall e evs, leaves (map (ev_prepend e) evs) = map (pre e) (leaves evs).
Proof.
  intros e. induction evs as [|ev evs IH]; [reflexivity|].
  cbn [map]. unfold leaves in *. cbn [flat_map]. rewrite IH.
  destruct ev; cbn [ev_prepend app map]; reflexivity.
Qed.

Lemma leaves_ts_arr : forall l i,
  leaves (ts_arr_go tostream i l) =
  (fix go (i : Z) (l : list jv) := match l with [] => [] | c :: r => map (pre (JInt i)) (leaves (tostream c)) ++ go (i + 1) r end) i l.
Proof.
  induction l as [|c r IH]; intros i; [reflexivity|].
  cbn [ts_arr_go]. rewrite leaves_app, leaves_prepend, IH. reflexivity.
Qed.

Lemma leaves_ts_obj : forall m,
  leaves (ts_obj_go tostream m) =
  (fix go (m : list (str * jv)) := match m with [] => [] | (k, c) :: r => map (pre (JStr k)) (leaves (tostream c)) ++ go r end) m.
Proof.
  induction m as [|[k c] r IH]; [reflexivity|].
  cbn [ts_obj_go]. rewrite leaves_app, leaves_prepend, IH. reflexivity.
Qed.

Lemma leaves_tostream_arr : forall c0 r0, leaves (tostream (JArr (c0 :: r0))) = leaves (ts_arr_go tostream 0 (c0 :: r0)).
Proof. intros. cbn [tostream]. rewrite leaves_app. cbn [leaves flat_map]. apply app_nil_r. Qed.

Lemma leaves_tostream_obj : forall kc r0, leaves (tostream (JObj (kc :: r0))) = leaves (ts_obj_go tostream (kc :: r0)).
Proof. intros [k0 c0] r0. cbn [tostream]. rewrite leaves_app. cbn [leaves flat_map]. apply app_nil_r. Qed.

(* every value has at least one leaf event *)
Lemma leaves_nonempty : forall v, leaves (tostream v) <> [].
Proof.
  induction v as [| | | | | |l IH|m IH] using jv_ind'; try discriminate.
  - destruct l as [|c0 r0]; [discriminate|]. rewrite leaves_tostream_arr, leaves_ts_arr.
    apply Forall_inv in IH. intro E. apply app_eq_nil in E. destruct E as [E _].
    apply map_eq_nil in E. exact (IH E).
  - destruct m as [|[k0 c0] r0]; [discriminate|]. rewrite leaves_tostream_obj, leaves_ts_obj.
    apply Forall_inv in IH. cbn [snd] in IH. intro E. apply app_eq_nil in E. destruct E as [E _].
    apply map_eq_nil in E. exact (IH E).
Qed.

(* every tostream event [p, leaf] satisfies getpath(p) = leaf *)
Lemma tostream_leaves_getpath : forall v, wf v ->
  Forall (fun pv => getpath (fst pv) v = ROk (snd pv)) (leaves (tostream v)).
Proof.
  induction v as [| | | | | |l IH|m IH] using jv_ind'; intros W;
    try (constructor; [reflexivity | constructor]).
  - destruct l as [|c0 r0]; [constructor; [reflexivity | constructor]|].
    rewrite leaves_tostream_arr, leaves_ts_arr.
    pose proof (wf_arr_inv _ W) as Wl. remember (c0 :: r0) as l eqn:El.
    assert (G : forall done l', l = done ++ l' ->
      Forall (fun pv => getpath (fst pv) (JArr l) = ROk (snd pv))
        ((fix go (i : Z) (l : list jv) := match l with [] => [] | c :: r => map (pre (JInt i)) (leaves (tostream c)) ++ go (i + 1) r end)
           (len done) l')).
    { intros done l'. revert done. induction l' as [|c r IHr]; intros done E; [constructor|].
      apply Forall_app. split.
      - assert (Ic : In c l) by (rewrite E; apply in_or_app; right; left; reflexivity).
        rewrite Forall_forall in IH, Wl. pose proof (IH c Ic (Wl c Ic)) as Hc.
        apply Forall_map. eapply Forall_impl; [|exact Hc]. intros [p x] Hp. cbn [pre fst snd] in *.
        cbn [getpath index2 bind]. unfold len. rewrite index_arr_in by (rewrite E, app_length; cbn; lia).
        rewrite E, nth_middle. exact Hp.
      - replace (len done + 1) with (len (done ++ [c])) by (unfold len; rewrite app_length; cbn; lia).
        apply IHr. rewrite <- app_assoc. exact E. }
    pose proof (G [] l eq_refl) as G0. subst l. exact G0.
  - destruct m as [|[k0 c0] r0]; [constructor; [reflexivity | constructor]|].
    rewrite leaves_tostream_obj, leaves_ts_obj.
    destruct (wf_obj_inv _ W) as [S Wm]. remember ((k0, c0) :: r0) as m eqn:Em.
    assert (G : forall m', incl m' m ->
      Forall (fun pv => getpath (fst pv) (JObj m) = ROk (snd pv))
        ((fix go (m : list (str * jv)) := match m with [] => [] | (k, c) :: r => map (pre (JStr k)) (leaves (tostream c)) ++ go r end) m')).
    { induction m' as [|[k c] r IHr]; intros I; [constructor|].
      apply Forall_app. split.
      - assert (Ic : In (k, c) m) by (apply I; left; reflexivity).
        rewrite Forall_forall in IH, Wm. pose proof (IH _ Ic (Wm _ Ic)) as Hc. cbn [snd] in Hc.
        apply Forall_map. eapply Forall_impl; [|exact Hc]. intros [p x] Hp. cbn [pre fst snd] in *.
        cbn [getpath index2 bind]. rewrite (lookup_sorted_in _ _ _ S Ic). exact Hp.
      - apply IHr. intros y Hy. apply I. right. exact Hy. }
    pose proof (G m (incl_refl m)) as G0. subst m. exact G0.
Qed.

(* ------------------------------------------------------------------ replaying leaf events *)

Lemma replay_app : forall a b st, replay st (a ++ b) = bind (replay st a) (fun st' => replay st' b).
Proof.
  induction a as [|[p x] a IH]; intros b st; [reflexivity|].
  cbn [app replay]. destruct (update p st x); cbn [bind]; [apply IH | reflexivity | reflexivity].
Qed.

Definition arr_state (done : list jv) : jv := match done with [] => JNull | _ => JArr done end.
Definition obj_state (done : list (str * jv)) : jv := match done with [] => JNull | _ => JObj done end.

(* updates below index n of an array whose slot n already exists act on that slot *)
Lemma replay_arr_slot : forall evs done cur,
  replay (JArr (done ++ [cur])) (map (pre (JInt (len done))) evs) =
  bind (replay cur evs) (fun c' => ROk (JArr (done ++ [c']))).
Proof.
  induction evs as [|[p x] evs IH]; intros done cur; [reflexivity|].
  cbn [map pre fst snd replay update].
  assert (Ll : len (done ++ [cur]) = len done + 1) by (unfold len; rewrite app_length; cbn; lia).
  pose proof (len_nonneg _ done) as Ln.
  rewrite Ll, clamp_in by lia.
  replace (len done <? 0) with false by (symmetry; lia).
  replace (len done <? len done + 1) with true by (symmetry; lia).
  unfold len at 1 2. rewrite Nat2Z.id, nth_middle.
  destruct (update p cur x) as [u| |]; cbn [bind]; [|reflexivity|reflexivity].
  rewrite set_nth_last. apply IH.
Qed.

(* the first update at index n = length creates the slot (n below the setpath index limit) *)
Lemma replay_arr_new : forall evs done, evs <> [] -> len done < max_index ->
  replay (arr_state done) (map (pre (JInt (len done))) evs) =
  bind (replay JNull evs) (fun c' => ROk (JArr (done ++ [c']))).
Proof.
  intros [|[p x] evs] done Hne Hs; [congruence|].
  cbn [map pre fst snd replay].
  assert (E : update (JInt (len done) :: p) (arr_state done) x =
              bind (update p JNull x) (fun u => ROk (JArr (done ++ [u])))).
  { pose proof (len_nonneg _ done) as Ln.
    assert (G : update (JInt (len done) :: p) (JArr done) x =
                bind (update p JNull x) (fun u => ROk (JArr (done ++ [u])))).
    { cbn [update].
      assert (Cl : clamp_index (len done) (-1) (len done) = len done).
      { unfold clamp_index. split_ifs; lia. }
      rewrite Cl, Z.ltb_irrefl.
      replace (len done <? 0) with false by (symmetry; lia).
      replace (max_index <=? len done) with false by (symmetry; lia).
      unfold len. rewrite Nat2Z.id.
      destruct (update p JNull x); cbn [bind]; try reflexivity. rewrite set_nth_append. reflexivity. }
    destruct done; [exact G | exact G]. }
  rewrite E. destruct (update p JNull x) as [u| |]; cbn [bind]; [|reflexivity|reflexivity].
  apply replay_arr_slot.
Qed.

Lemma replay_obj_slot : forall evs k done cur, keys_lt done k ->
  replay (JObj (done ++ [(k, cur)])) (map (pre (JStr k)) evs) =
  bind (replay cur evs) (fun c' => ROk (JObj (done ++ [(k, c')]))).
Proof.
  induction evs as [|[p x] evs IH]; intros k done cur L; [reflexivity|].
  cbn [map pre fst snd replay update]. rewrite lookup_app_last by exact L.
  destruct (update p cur x) as [u| |]; cbn [bind]; [|reflexivity|reflexivity].
  rewrite oset_last by exact L. apply IH. exact L.
Qed.

Lemma replay_obj_new : forall evs k done, evs <> [] -> keys_lt done k ->
  replay (obj_state done) (map (pre (JStr k)) evs) =
  bind (replay JNull evs) (fun c' => ROk (JObj (done ++ [(k, c')]))).
Proof.
  intros [|[p x] evs] k done Hne L; [congruence|].
  cbn [map pre fst snd replay].
  assert (E : update (JStr k :: p) (obj_state done) x =
              bind (update p JNull x) (fun u => ROk (JObj (done ++ [(k, u)])))).
  { assert (G : update (JStr k :: p) (JObj done) x =
                bind (update p JNull x) (fun u => ROk (JObj (done ++ [(k, u)])))).
    { cbn [update]. rewrite lookup_none_lt by exact L.
      destruct (update p JNull x); cbn [bind]; try reflexivity. rewrite oset_append by exact L. reflexivity. }
    destruct done; [exact G | exact G]. }
  rewrite E. destruct (update p JNull x) as [u| |]; cbn [bind]; [|reflexivity|reflexivity].
  apply replay_obj_slot. exact L.
Qed.

Lemma small_arr_inv : forall l, small (JArr l) -> len l <= max_index /\ Forall small l.
Proof.
  intros l H. unfold small in H. cbn [smallb] in H. apply andb_true_iff in H. destruct H as [L F].
  split; [lia|]. rewrite forallb_forall in F. apply Forall_forall. exact F.
Qed.

Lemma small_obj_inv : forall m, small (JObj m) -> Forall (fun kv => small (snd kv)) m.
Proof.
  intros m H. unfold small in H. cbn [smallb] in H. rewrite forallb_forall in H. apply Forall_forall. exact H.
Qed.

Lemma arr_state_nonempty : forall a c, arr_state (a ++ [c]) = JArr (a ++ [c]).
Proof. intros [|x a] c; reflexivity. Qed.
Lemma obj_state_nonempty : forall a c, obj_state (a ++ [c]) = JObj (a ++ [c]).
Proof. intros [|x a] c; reflexivity. Qed.

(* replaying the two-element events of tostream with setpath on null rebuilds the value *)
Lemma replay_tostream : forall v, wf v -> small v -> replay JNull (leaves (tostream v)) = ROk v.
Proof.
  induction v as [| | | | | |l IH|m IH] using jv_ind'; intros W Sm; try reflexivity.
  - destruct l as [|c0 r0]; [reflexivity|].
    rewrite leaves_tostream_arr, leaves_ts_arr.
    pose proof (wf_arr_inv _ W) as Wl. destruct (small_arr_inv _ Sm) as [Ll Sl].
    remember (c0 :: r0) as l eqn:El.
    assert (G : forall l' done, l = done ++ l' ->
      replay (arr_state done)
        ((fix go (i : Z) (l : list jv) := match l with [] => [] | c :: r => map (pre (JInt i)) (leaves (tostream c)) ++ go (i + 1) r end)
           (len done) l') = ROk (arr_state (done ++ l'))).
    { induction l' as [|c r IHr]; intros done E; [rewrite app_nil_r; reflexivity|].
      assert (Ic : In c l) by (rewrite E; apply in_or_app; right; left; reflexivity).
      rewrite Forall_forall in IH, Wl, Sl.
      rewrite replay_app, replay_arr_new.
      - rewrite (IH c Ic (Wl c Ic) (Sl c Ic)). cbn [bind]. rewrite <- arr_state_nonempty.
        replace (len done + 1) with (len (done ++ [c])) by (unfold len; rewrite app_length; cbn; lia).
        rewrite IHr by (rewrite <- app_assoc; exact E). rewrite <- app_assoc. reflexivity.
      - apply leaves_nonempty.
      - unfold len in *. rewrite E, app_length in Ll. cbn [length] in Ll. lia. }
    pose proof (G l [] eq_refl) as G0. subst l. exact G0.
  - destruct m as [|[k0 c0] r0]; [reflexivity|].
    rewrite leaves_tostream_obj, leaves_ts_obj.
    destruct (wf_obj_inv _ W) as [S Wm]. pose proof (small_obj_inv _ Sm) as Sl.
    remember ((k0, c0) :: r0) as m eqn:Em.
    assert (G : forall m' done, m = done ++ m' ->
      replay (obj_state done)
        ((fix go (m : list (str * jv)) := match m with [] => [] | (k, c) :: r => map (pre (JStr k)) (leaves (tostream c)) ++ go r end) m')
      = ROk (obj_state (done ++ m'))).
    { induction m' as [|[k c] r IHr]; intros done E; [rewrite app_nil_r; reflexivity|].
      assert (Ic : In (k, c) m) by (rewrite E; apply in_or_app; right; left; reflexivity).
      rewrite Forall_forall in IH, Wm, Sl.
      assert (L : keys_lt done k). { rewrite E in S. exact (proj1 (sorted_app_inv _ _ _ _ S)). }
      rewrite replay_app, replay_obj_new.
      - pose proof (IH _ Ic (Wm _ Ic) (Sl _ Ic)) as Hc. cbn [snd] in Hc. rewrite Hc. cbn [bind].
        rewrite <- obj_state_nonempty.
        rewrite IHr by (rewrite <- app_assoc; exact E). rewrite <- app_assoc. reflexivity.
      - apply leaves_nonempty.
      - exact L. }
    pose proof (G m [] eq_refl) as G0. subst m. exact G0.
Qed.

(* ------------------------------------------------------------------ fromstream(tostream) *)

Definition conc (a : option jv) : jv :=
  match a with None => JNull | Some c => JObj [(k_e, JBool false); (k_v, c)] end.
Definition val (a : option jv) : jv := match a with None => JNull | Some c => c end.

Definition inner (ev : event) : Prop :=
  match ev with ELeaf p _ => p <> [] | EClose p => length p <> 1%nat end.
Definition starts_leaf (evs : list event) : Prop :=
  match evs with ELeaf _ _ :: _ => True | _ => False end.

Lemma step_leaf : forall a p x, p <> [] ->
  fs_step (conc a) (ELeaf p x) = bind (update p (val a) x) (fun u => ROk (conc (Some u))).
Proof.
  intros a p x Hp. destruct p as [|j p']; [congruence|].
  remember (j :: p') as q eqn:Eq.
  assert (Lq : Nat.eqb (length q) 0 = false) by (subst q; reflexivity).
  destruct a as [c|]; unfold fs_step, fs_flag, field, conc, val; cbn [index2 lookup bytes_eqb k_e k_v N.eqb Pos.eqb andb bind truthy];
    cbn [update lookup bytes_eqb k_e k_v N.eqb Pos.eqb andb];
    destruct (update q _ x) as [u| |]; cbn [bind]; try reflexivity; rewrite Lq; reflexivity.
Qed.

Lemma step_close : forall c p, length p <> 1%nat ->
  fs_step (conc (Some c)) (EClose p) = ROk (conc (Some c)).
Proof.
  intros c p Hp. assert (Lq : Nat.eqb (length p) 1 = false) by (apply Nat.eqb_neq; exact Hp).
  unfold fs_step, fs_flag, field, conc. cbn. rewrite Lq. reflexivity.
Qed.

Lemma run_final : forall c k, fromstream_run (conc (Some c)) [EClose [k]] = ROk [c].
Proof. intros. reflexivity. Qed.

Lemma flag_conc : forall a, fs_flag (conc a) = ROk false.
Proof. intros [c|]; reflexivity. Qed.

Lemma run_inner : forall evs a k, Forall inner evs -> (a = None -> starts_leaf evs) ->
  fromstream_run (conc a) (evs ++ [EClose [k]]) = bind (replay (val a) (leaves evs)) (fun c' => ROk [c']).
Proof.
  induction evs as [|ev evs IH]; intros a k F St.
  - destruct a as [c|]; [apply run_final | exfalso; exact (St eq_refl)].
  - apply Forall_cons_iff in F. destruct F as [I F]. cbn [app fromstream_run]. destruct ev as [p x | p].
    + rewrite step_leaf by exact I. change (leaves (ELeaf p x :: evs)) with ((p, x) :: leaves evs).
      cbn [replay]. destruct (update p (val a) x) as [u| |]; cbn [bind]; [|reflexivity|reflexivity].
      rewrite flag_conc. cbn [bind]. rewrite (IH (Some u) k F) by discriminate.
      cbn [val]. destruct (replay u (leaves evs)); reflexivity.
    + destruct a as [c|]; [|exfalso; exact (St eq_refl)].
      rewrite step_close by exact I. cbn [bind]. rewrite flag_conc. cbn [bind].
      rewrite (IH (Some c) k F) by discriminate.
      change (leaves (EClose p :: evs)) with (leaves evs).
      destruct (replay (val (Some c)) (leaves evs)); reflexivity.
Qed.

Definition close_nonempty (ev : event) : Prop := match ev with EClose p => p <> [] | ELeaf _ _ => True end.

Lemma inner_prepend : forall e evs, Forall close_nonempty evs -> Forall inner (map (ev_prepend e) evs).
Proof.
  intros e evs F. apply Forall_map. eapply Forall_impl; [|exact F].
  intros [p x | p] H; cbn [ev_prepend inner close_nonempty] in *; [discriminate|].
  destruct p; [congruence | cbn; lia].
Qed.

Lemma close_nonempty_prepend : forall e evs, Forall close_nonempty (map (ev_prepend e) evs).
Proof.
  intros e evs. apply Forall_map. apply Forall_forall. intros [p x | p] _; cbn; [exact I | discriminate].
Qed.

Lemma ts_arr_close_nonempty : forall l i, Forall close_nonempty (ts_arr_go tostream i l).
Proof.
  induction l as [|c r IH]; intros i; [constructor|]. cbn [ts_arr_go]. apply Forall_app.
  split; [apply close_nonempty_prepend | apply IH].
Qed.
Lemma ts_obj_close_nonempty : forall m, Forall close_nonempty (ts_obj_go tostream m).
Proof.
  induction m as [|[k c] r IH]; [constructor|]. cbn [ts_obj_go]. apply Forall_app.
  split; [apply close_nonempty_prepend | apply IH].
Qed.

Lemma tostream_close_nonempty : forall v, Forall close_nonempty (tostream v).
Proof.
  intros v. destruct v as [| | | | | |[|c0 r0]|[|[k0 c0] r0]]; try (constructor; [exact I | constructor]).
  - cbn [tostream]. apply Forall_app. split; [apply ts_arr_close_nonempty | constructor; [discriminate | constructor]].
  - cbn [tostream]. apply Forall_app. split; [apply ts_obj_close_nonempty | constructor; [discriminate | constructor]].
Qed.

Lemma ts_arr_inner : forall l i, Forall inner (ts_arr_go tostream i l).
Proof.
  induction l as [|c r IH]; intros i; [constructor|]. cbn [ts_arr_go]. apply Forall_app.
  split; [apply inner_prepend; apply tostream_close_nonempty | apply IH].
Qed.
Lemma ts_obj_inner : forall m, Forall inner (ts_obj_go tostream m).
Proof.
  induction m as [|[k c] r IH]; [constructor|]. cbn [ts_obj_go]. apply Forall_app.
  split; [apply inner_prepend; apply tostream_close_nonempty | apply IH].
Qed.

Lemma tostream_starts_leaf : forall v, starts_leaf (tostream v).
Proof.
  induction v as [| | | | | |l IH|m IH] using jv_ind'; try exact I.
  - destruct l as [|c0 r0]; [exact I|]. apply Forall_inv in IH. cbn [tostream ts_arr_go].
    destruct (tostream c0) as [|[p x | p] r]; try contradiction. exact I.
  - destruct m as [|[k0 c0] r0]; [exact I|]. apply Forall_inv in IH. cbn [snd] in IH. cbn [tostream ts_obj_go].
    destruct (tostream c0) as [|[p x | p] r]; try contradiction. exact I.
Qed.

Lemma starts_leaf_app : forall a b, starts_leaf a -> starts_leaf (a ++ b).
Proof. intros [|[p x | p] a] b H; try contradiction. exact I. Qed.

(* fromstream(tostream) returns exactly its input *)
Lemma fromstream_tostream : forall v, wf v -> small v -> fromstream (tostream v) = ROk [v].
Proof.
  intros v W Sm. pose proof (replay_tostream v W Sm) as R.
  destruct v as [| | | | | |[|c0 r0]|[|[k0 c0] r0]]; try reflexivity.
  - rewrite leaves_tostream_arr in R. unfold fromstream. cbn [tostream].
    change JNull with (conc None) at 1. rewrite run_inner.
    + cbn [val]. rewrite R. reflexivity.
    + apply ts_arr_inner.
    + intros _. pose proof (tostream_starts_leaf c0) as St.
      cbn [ts_arr_go]. destruct (tostream c0) as [|[p x | p] r]; try contradiction; exact I.
  - rewrite leaves_tostream_obj in R. unfold fromstream. cbn [tostream].
    change JNull with (conc None) at 1. rewrite run_inner.
    + cbn [val]. rewrite R. reflexivity.
    + apply ts_obj_inner.
    + intros _. pose proof (tostream_starts_leaf c0) as St.
      cbn [ts_obj_go]. destruct (tostream c0) as [|[p x | p] r]; try contradiction; exact I.
Qed.

(* ------------------------------------------------------------------ [paths] = [path(..)] without the root *)

Lemma pdd_arr_paths : forall l i, Forall (fun c => path_dotdot c = [] :: paths c) l ->
  pdd_arr_go path_dotdot i l = paths_arr_go paths i l.
Proof.
  induction l as [|c r IH]; intros i F; [reflexivity|].
  apply Forall_cons_iff in F. destruct F as [Hc F]. cbn [pdd_arr_go paths_arr_go].
  rewrite Hc, (IH _ F). reflexivity.
Qed.

Lemma pdd_obj_paths : forall m, Forall (fun kv => path_dotdot (snd kv) = [] :: paths (snd kv)) m ->
  pdd_obj_go path_dotdot m = paths_obj_go paths m.
Proof.
  induction m as [|[k c] r IH]; intros F; [reflexivity|].
  apply Forall_cons_iff in F. destruct F as [Hc F]. cbn [snd] in Hc. cbn [pdd_obj_go paths_obj_go].
  rewrite Hc, (IH F). reflexivity.
Qed.

(* path(..) is the root followed by paths, in the same order, for EVERY value *)
Lemma path_dotdot_paths : forall v, path_dotdot v = [] :: paths v.
Proof.
  induction v as [| | | | | |l IH|m IH] using jv_ind'; try reflexivity.
  - cbn [path_dotdot paths]. f_equal. apply pdd_arr_paths. exact IH.
  - cbn [path_dotdot paths]. f_equal. apply pdd_obj_paths. exact IH.
Qed.

Lemma paths_nonroot : forall v p, In p (paths v) -> is_root p = false.
Proof.
  intros v p H. destruct v; try contradiction.
  - cbn [paths] in H. apply in_paths_arr in H. destruct H as [n [c [_ [-> | [q [_ ->]]]]]]; reflexivity.
  - cbn [paths] in H. apply in_paths_obj in H. destruct H as [k [c [_ [-> | [q [_ ->]]]]]]; reflexivity.
Qed.

(* def paths: path(..) | select(. != [])  enumerates exactly [paths] *)
Lemma paths_jq_paths : forall v, paths_jq v = paths v.
Proof.
  intros v. unfold paths_jq. rewrite path_dotdot_paths. cbn [filter is_root negb].
  assert (G : forall l, (forall p, In p l -> is_root p = false) -> filter (fun p => negb (is_root p)) l = l).
  { induction l as [|p l IH]; intros H; [reflexivity|]. cbn [filter].
    rewrite (H p (or_introl eq_refl)). cbn [negb]. f_equal. apply IH. intros q Hq. apply H. right. exact Hq. }
  apply G. apply paths_nonroot.
Qed.

Lemma paths_jq_tl : forall v, paths_jq v = tl (path_dotdot v).
Proof. intros v. rewrite paths_jq_paths, path_dotdot_paths. reflexivity. Qed.
