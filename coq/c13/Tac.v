(* Small tactics shared by the C13/C14 proof files. *)
From Coq Require Import List NArith ZArith Bool Lia Arith.
From Coq Require Export ZifyN ZifyNat ZifyBool.

Ltac Zify.zify_post_hook ::= Z.to_euclidean_division_equations.

Ltac prop_bools :=
  repeat match goal with
  | H : _ && _ = true |- _ => apply andb_true_iff in H; destruct H
  | H : _ || _ = false |- _ => apply orb_false_iff in H; destruct H
  | H : negb _ = true |- _ => apply negb_true_iff in H
  | H : negb _ = false |- _ => apply negb_false_iff in H
  end.

(* case-split every [if] of the goal, innermost conditions first *)
Ltac split_ifs :=
  repeat match goal with
  | |- context [if ?b then _ else _] =>
      lazymatch b with
      | context [if _ then _ else _] => fail
      | _ => let H := fresh "C" in destruct b eqn:H
      end
  end.

Lemma list_ind3 : forall (A : Type) (P : list A -> Prop),
  P nil -> (forall a, P (a :: nil)) -> (forall a b, P (a :: b :: nil)) ->
  (forall a b c r, P r -> P (a :: b :: c :: r)) -> forall l, P l.
Proof.
  intros A P H0 H1 H2 H3.
  fix IH 1. intros l. destruct l as [|a [|b [|c r]]]; [exact H0 | apply H1 | apply H2 |].
  apply H3. apply IH.
Qed.
