(* todate / fromdate on whole seconds (definitions only; proofs in DateProofs.v).

   builtin.jq:  def todate: strftime("%Y-%m-%dT%H:%M:%SZ");
                def fromdate: strptime("%Y-%m-%dT%H:%M:%S%z") | mktime;
   func.go:     funcStrftime: number -> epochToArray -> arrayToTime (time.Date) -> timefmt.Format
                funcStrptime: timefmt.Parse -> error when the result Equal(time.Time{}) (the zero time,
                0001-01-01T00:00:00Z) -> epochToArray(timeToEpoch(t), UTC)
   timefmt-go v0.1.8 (a dependency, outside /repo) is MODELLED, NOT VERIFIED, for this one format:
     Format: %Y = appendInt(year, 4, '0') (four digits for 0..9999), %m %d %H %M %S = two digits;
     Parse:  parseInt(source, j, size, min, max): reads at most [size] decimal digits, at least one, range
             checked; %Y takes an optional '-' sign and up to 4 digits (0..9999); %m 1..12, %d 1..31,
             %H 0..23, %M 0..59, %S 0..60; literal characters must match; %z accepts "Z" (numeric offsets
             are outside this model: RUnsup); trailing input is an error;
             result time.Date(year, month, day, hour, minute, second, 0, UTC). *)
From Coq Require Import List NArith ZArith Bool.
From Verif Require Import c13.Jv c13.Time.
Import ListNotations.
Open Scope Z_scope.

Definition digit (n : Z) : N := Z.to_N (48 + n).
Definition fmt2 (n : Z) : list N := [digit (n / 10); digit (n mod 10)].
Definition fmt4 (n : Z) : list N :=
  [digit (n / 1000); digit (n / 100 mod 10); digit (n / 10 mod 10); digit (n mod 10)].

Definition in_range (lo hi x : Z) : bool := (lo <=? x) && (x <=? hi).

(* timefmt.Format(t, "%Y-%m-%dT%H:%M:%SZ") for a time whose fields are in the ranges below *)
Definition fmt_date (c : civil) : option (list N) :=
  if in_range 0 9999 (c_year c) && in_range 1 12 (c_month c) && in_range 1 31 (c_day c) &&
     in_range 0 23 (c_hour c) && in_range 0 59 (c_min c) && in_range 0 59 (c_sec c)
  then Some (fmt4 (c_year c) ++ [45%N] ++ fmt2 (c_month c) ++ [45%N] ++ fmt2 (c_day c) ++ [84%N] ++
             fmt2 (c_hour c) ++ [58%N] ++ fmt2 (c_min c) ++ [58%N] ++ fmt2 (c_sec c) ++ [90%N])
  else None.

(* the time funcStrftime formats: gmtime array -> time.Date -> field accessors *)
Definition strftime_time (t : Z) : civil :=
  let c := civil_of_unix t in
  civil_of_unix (unix_of_fields (c_year c) (c_month c - 1) (c_day c) (c_hour c) (c_min c) (c_sec c)).

Definition todate (t : Z) : res jv :=
  if exact_range t && (0 <=? t + unix_to_absolute) then
    match fmt_date (strftime_time t) with Some s => ROk (JStr s) | None => RUnsup end
  else RUnsup.

(* parseInt *)
Fixpoint read_digits (size : nat) (s : list N) (acc : Z) (cnt : nat) : Z * nat * list N :=
  match size, s with
  | S k, c :: r =>
      if ((48 <=? c) && (c <=? 57))%N then read_digits k r (acc * 10 + (Z.of_N c - 48)) (S cnt)
      else (acc, cnt, s)
  | _, _ => (acc, cnt, s)
  end.
Definition parse_int (size : nat) (mn mx : Z) (s : list N) : option (Z * list N) :=
  let '(v, cnt, rest) := read_digits size s 0 O in
  match cnt with
  | O => None
  | _ => if (v <? mn) || (mx <? v) then None else Some (v, rest)
  end.
Definition expect (c : N) (s : list N) : option (list N) :=
  match s with x :: r => if (x =? c)%N then Some r else None | [] => None end.

Definition obind {A B} (o : option A) (f : A -> option B) : option B :=
  match o with Some a => f a | None => None end.

Record fields := { f_year : Z; f_month : Z; f_day : Z; f_hour : Z; f_min : Z; f_sec : Z }.

(* timefmt.Parse(s, "%Y-%m-%dT%H:%M:%S%z") up to the zone; returns the fields and the unread rest *)
Definition parse_fields (s : list N) : option (fields * list N) :=
  let '(sign, s) := match s with c :: r => if (c =? 45)%N then (-1, r) else (1, s) | [] => (1, s) end in
  obind (parse_int 4 0 9999 s) (fun '(y, s) =>
  obind (expect 45 s) (fun s =>
  obind (parse_int 2 1 12 s) (fun '(mo, s) =>
  obind (expect 45 s) (fun s =>
  obind (parse_int 2 1 31 s) (fun '(d, s) =>
  obind (expect 84 s) (fun s =>
  obind (parse_int 2 0 23 s) (fun '(h, s) =>
  obind (expect 58 s) (fun s =>
  obind (parse_int 2 0 59 s) (fun '(mi, s) =>
  obind (expect 58 s) (fun s =>
  obind (parse_int 2 0 60 s) (fun '(se, s) =>
  Some ({| f_year := sign * y; f_month := mo; f_day := d; f_hour := h; f_min := mi; f_sec := se |}, s)))))))))))).

(* funcStrptime for that format: the broken-down array of the parsed instant; the zero time is an error *)
Definition strptime (s : list N) : res jv :=
  match parse_fields s with
  | None => RErr
  | Some (f, rest) =>
      match rest with
      | [] => RErr
      | c :: more =>
          if (c =? 90)%N then                        (* "Z" *)
            match more with
            | [] =>
                let u := unix_of_fields (f_year f) (f_month f - 1) (f_day f) (f_hour f) (f_min f) (f_sec f) in
                if u =? year_1 then RErr else gmtime u
            | _ => RErr                              (* unparsed string *)
            end
          else if ((c =? 43) || (c =? 45))%N then RUnsup   (* numeric offsets: not modelled *)
          else RErr
      end
  end.

Definition fromdate (s : list N) : res jv := bind (strptime s) mktime.

Definition todate_fromdate (t : Z) : res jv :=
  bind (todate t) (fun v => match v with JStr s => fromdate s | _ => RErr end).
