(* The executable well-formedness test [validb] (= utf8.ValidString: no decoding step takes the error
   branch) coincides with [valid_utf8] (the encoding of a sequence of scalar values). *)
From Coq Require Import List NArith ZArith Bool Lia Arith.
From Verif Require Import c13.Tac c13.Utf8 c13.Utf8Proofs.
Import ListNotations.
Open Scope N_scope.

(* a decoding step that is not the error branch consumed exactly the encoding of what it returned *)
Lemma encode_dec : forall s, s <> [] -> (snd (dec s) <> 1%nat \/ nth 0 s 0 < 128) ->
  encode (fst (dec s)) = firstn (snd (dec s)) s.
Proof.
  intros s Hs H.
  destruct s as [|b0 [|b1 [|b2 [|b3 r]]]]; [congruence| | | |];
  revert H; unfold dec, inv, cont, lo3, hi3, lo4, hi4, rune_error; cbn [nth];
  split_ifs; cbn [fst snd firstn]; intros H; try (exfalso; lia);
  unfold encode, is_surrogate, max_rune; split_ifs; prop_bools; try (exfalso; lia);
  repeat (f_equal; try lia).
Qed.

Lemma validb_f_sound : forall n s, (length s <= n)%nat -> validb_f n s = true -> encode_all (explode s) = s.
Proof.
  induction n as [|n IH]; intros s L H.
  - destruct s; [reflexivity | cbn in L; lia].
  - destruct s as [|b r]; [reflexivity|]. set (s := b :: r) in *.
    cbn [validb_f] in H. fold s in H. apply andb_true_iff in H. destruct H as [C H].
    assert (Hs : s <> []) by discriminate.
    unfold explode. rewrite (runes_cons s Hs). cbn [map]. unfold encode_all. cbn [flat_map].
    rewrite encode_dec; [|exact Hs|].
    + fold (encode_all (map fst (runes (skipn (snd (dec s)) s)))). fold (explode (skipn (snd (dec s)) s)).
      rewrite IH; [apply firstn_skipn | | exact H].
      pose proof (dec_width s). rewrite skipn_length. subst s. cbn [length] in *. lia.
    + apply orb_true_iff in C. destruct C as [C | C].
      * left. apply negb_true_iff in C. apply Nat.eqb_neq in C. exact C.
      * right. lia.
Qed.

Lemma validb_f_complete : forall cs n, Forall scalar cs -> (length (encode_all cs) <= n)%nat ->
  validb_f n (encode_all cs) = true.
Proof.
  induction cs as [|c cs IH]; intros n H L; [destruct n; reflexivity|].
  apply Forall_cons_iff in H. destruct H as [Hc H].
  unfold encode_all in *. cbn [flat_map] in *. rewrite app_length in L.
  pose proof (encode_length c) as El.
  destruct n as [|n]; [lia|].
  destruct (encode c ++ flat_map encode cs) as [|b r] eqn:E.
  { apply app_eq_nil in E. destruct E as [E _]. exfalso. exact (encode_nonempty c E). }
  cbn [validb_f]. rewrite <- E. rewrite (dec_encode c _ Hc). cbn [snd].
  rewrite skipn_app, skipn_all, Nat.sub_diag. cbn [skipn app].
  apply andb_true_iff. split; [|apply IH; [exact H | lia]].
  (* width 1 only for ASCII *)
  unfold encode in *. destruct (c <=? 127) eqn:C1.
  - cbn [app nth length]. apply orb_true_iff. right. lia.
  - apply orb_true_iff. left. revert El. split_ifs; cbn [length]; intros; reflexivity.
Qed.

Lemma validb_spec : forall s, validb s = true <-> valid_utf8 s.
Proof.
  intros s. split.
  - intros H. exists (explode s). split; [apply explode_scalar|].
    symmetry. apply (validb_f_sound (length s) s (le_n _) H).
  - intros [cs [H E]]. subst s. apply validb_f_complete; [exact H | apply le_n].
Qed.
