(* C13 correspondence: one harness line -> verdict ("ok" or (bad <what the model expected>)).
   Line forms (harness/c13/main.go); values use the transport encoding of common/Sexp.v:
     (explode S I) (implode A I) (b64 S I) (b64d S I) (uri S I) (urid S I)
     (split SEP S I) (join SEP A I) (ltrimstr P S I) (rtrimstr P S I)
     (getpath V P I) (setpath V P X I) (paths V I) (pathdd V I)
     (to_entries V I) (from_entries V I) (with_entries V I) (tostream V I) (fromstream EVS I)
     (replay EVS I) (gmtime T I) (mktime A I) (todate T I) (fromdate S I) (strptime S I)
   I = what the implementation returned: a value or (err <hex message>). *)
From Coq Require Import List ZArith NArith Bool String.
From Verif Require Import common.Sexp c13.Utf8 c13.Codec c13.Jv c13.Time c13.Date.
Import ListNotations.
Open Scope Z_scope.

Fixpoint dec_jv (e : sexp) : option jv :=
  match e with
  | Atom _ =>
      if atom_is "null" e then Some JNull else if atom_is "true" e then Some (JBool true)
      else if atom_is "false" e then Some (JBool false) else None
  | SList (t :: args) =>
      if atom_is "i" t || atom_is "b" t then
        match args with [Atom v] => option_map JInt (parse_Z v) | _ => None end
      else if atom_is "f" t then
        match args with [Atom v] => option_map JFlt (parse_N v) | _ => None end
      else if atom_is "l" t then
        match args with [Atom v] => option_map JLit (parse_hexs v) | _ => None end
      else if atom_is "s" t then
        match args with [Atom v] => option_map JStr (parse_hexs v) | _ => None end
      else if atom_is "a" t then
        option_map JArr
          ((fix go (l : list sexp) : option (list jv) :=
              match l with
              | [] => Some []
              | x :: r => match dec_jv x, go r with Some a, Some b => Some (a :: b) | _, _ => None end
              end) args)
      else if atom_is "o" t then
        option_map JObj
          ((fix go (l : list sexp) : option (list (str * jv)) :=
              match l with
              | [] => Some []
              | SList [Atom k; x] :: r =>
                  match parse_hexs k, dec_jv x, go r with
                  | Some k, Some a, Some b => Some ((k, a) :: b)
                  | _, _, _ => None
                  end
              | _ => None
              end) args)
      else None
  | _ => None
  end.

Fixpoint enc_jv (v : jv) : sexp :=
  match v with
  | JNull => A "null" | JBool true => A "true" | JBool false => A "false"
  | JInt z => SList [A "i"; Atom (print_Z z)]
  | JFlt b => SList [A "f"; Atom (print_N b)]
  | JLit t => SList [A "l"; Atom (print_hexs t)]
  | JStr s => SList [A "s"; Atom (print_hexs s)]
  | JArr l => SList (A "a" :: map enc_jv l)
  | JObj m => SList (A "o" :: map (fun kv => SList [Atom (print_hexs (fst kv)); enc_jv (snd kv)]) m)
  end.

Definition is_err (e : sexp) : bool :=
  match e with SList (t :: _) => atom_is "err" t | _ => false end.

Definition enc_res (r : res jv) : sexp :=
  match r with ROk v => enc_jv v | RErr => A "error" | RUnsup => A "unsupported" end.

Definition agree (r : res jv) (impl : sexp) : sexp :=
  match r with
  | ROk v => match dec_jv impl with
             | Some w => if jv_eqb v w then A "ok" else SList [A "bad"; enc_jv v]
             | None => SList [A "bad"; enc_jv v]
             end
  | RErr => if is_err impl then A "ok" else SList [A "bad"; A "error"]
  | RUnsup => A "unsupported"
  end.

Definition of_opt (o : option str) : res jv := match o with Some s => ROk (JStr s) | None => RErr end.

Definition ints_of (l : list jv) : option (list Z) :=
  fold_right (fun v acc => match v, acc with JInt z, Some r => Some (z :: r) | _, _ => None end) (Some []) l.
Definition strs_of (l : list jv) : option (list str) :=
  fold_right (fun v acc => match v, acc with JStr s, Some r => Some (s :: r) | _, _ => None end) (Some []) l.

(* events as the arrays tostream emits / fromstream consumes *)
Definition enc_event (e : event) : jv :=
  match e with ELeaf p x => JArr [JArr p; x] | EClose p => JArr [JArr p] end.
Definition dec_event (v : jv) : option event :=
  match v with
  | JArr [JArr p; x] => Some (ELeaf p x)
  | JArr [JArr p] => Some (EClose p)
  | _ => None
  end.
Definition dec_events (l : list jv) : option (list event) :=
  fold_right (fun v acc => match dec_event v, acc with Some e, Some r => Some (e :: r) | _, _ => None end) (Some []) l.

Definition run1 (k : sexp) (args : list jv) : res jv :=
  if atom_is "explode" k then
    match args with [JStr s] => ROk (JArr (map (fun c => JInt (Z.of_N c)) (explode s))) | _ => RUnsup end
  else if atom_is "implode" k then
    match args with
    | [JArr l] => match ints_of l with Some zs => ROk (JStr (implode zs)) | None => RUnsup end
    | _ => RUnsup
    end
  else if atom_is "b64" k then match args with [JStr s] => ROk (JStr (b64enc s)) | _ => RUnsup end
  else if atom_is "b64d" k then match args with [JStr s] => of_opt (b64d s) | _ => RUnsup end
  else if atom_is "uri" k then match args with [JStr s] => ROk (JStr (uri s)) | _ => RUnsup end
  else if atom_is "urid" k then match args with [JStr s] => of_opt (urid s) | _ => RUnsup end
  else if atom_is "split" k then
    match args with [JStr sep; JStr s] => ROk (JArr (map JStr (split sep s))) | _ => RUnsup end
  else if atom_is "join" k then
    match args with
    | [JStr sep; JArr l] => match strs_of l with Some ss => ROk (JStr (join sep ss)) | None => RUnsup end
    | _ => RUnsup
    end
  else if atom_is "ltrimstr" k then
    match args with [JStr p; JStr s] => ROk (JStr (ltrimstr p s)) | _ => RUnsup end
  else if atom_is "rtrimstr" k then
    match args with [JStr p; JStr s] => ROk (JStr (rtrimstr p s)) | _ => RUnsup end
  else if atom_is "getpath" k then match args with [v; JArr p] => getpath p v | _ => RUnsup end
  else if atom_is "setpath" k then match args with [v; JArr p; x] => setpath p x v | _ => RUnsup end
  else if atom_is "paths" k then match args with [v] => ROk (JArr (map JArr (paths_jq v))) | _ => RUnsup end
  else if atom_is "pathdd" k then match args with [v] => ROk (JArr (map JArr (path_dotdot v))) | _ => RUnsup end
  else if atom_is "to_entries" k then match args with [v] => to_entries v | _ => RUnsup end
  else if atom_is "from_entries" k then match args with [v] => from_entries v | _ => RUnsup end
  else if atom_is "with_entries" k then match args with [v] => with_entries_id v | _ => RUnsup end
  else if atom_is "tostream" k then
    match args with [v] => ROk (JArr (map enc_event (tostream v))) | _ => RUnsup end
  else if atom_is "fromstream" k then
    match args with
    | [JArr l] => match dec_events l with
                  | Some evs => bind (fromstream evs) (fun o => ROk (JArr o))
                  | None => RUnsup
                  end
    | _ => RUnsup
    end
  else if atom_is "replay" k then
    match args with
    | [JArr l] => match dec_events l with Some evs => replay JNull (leaves evs) | None => RUnsup end
    | _ => RUnsup
    end
  else if atom_is "todate" k then match args with [JInt t] => todate t | _ => RUnsup end
  else if atom_is "fromdate" k then match args with [JStr s] => fromdate s | _ => RUnsup end
  else if atom_is "strptime" k then match args with [JStr s] => strptime s | _ => RUnsup end
  else if atom_is "gmtime" k then match args with [JInt t] => gmtime t | _ => RUnsup end
  else if atom_is "mktime" k then match args with [v] => mktime v | _ => RUnsup end
  else RUnsup.

Fixpoint dec_all (l : list sexp) : option (list jv) :=
  match l with
  | [] => Some []
  | x :: r => match dec_jv x, dec_all r with Some a, Some b => Some (a :: b) | _, _ => None end
  end.

Definition run_sexp (e : sexp) : sexp :=
  match e with
  | SList (k :: rest) =>
      match rev rest with
      | impl :: rargs =>
          match dec_all (rev rargs) with
          | Some args => agree (run1 k args) impl
          | None => A "undecodable"
          end
      | [] => A "undecodable"
      end
  | _ => A "undecodable"
  end.

Definition run_line (l : list N) : list N :=
  match parse l with
  | Some e => print (run_sexp e)
  | None => codes "unparsable"
  end.
