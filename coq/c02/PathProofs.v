(* C02 — value-level laws of getpath / setpath / delpaths (Path.v). *)
From Coq Require Import List ZArith NArith Bool Lia.
From Verif Require Import c02.Path.
Import ListNotations.
Open Scope Z_scope.

(* ---- keys: key_cmp is a decidable total order ---- *)
Lemma key_cmp_refl : forall a, key_cmp a a = Eq.
Proof. induction a; simpl; auto. rewrite N.compare_refl. auto. Qed.

Lemma key_cmp_eq : forall a b, key_cmp a b = Eq -> a = b.
Proof.
  induction a; destruct b; simpl; intros; try discriminate; auto.
  destruct (N.compare a n) eqn:E; try discriminate.
  apply N.compare_eq in E. subst. f_equal. auto.
Qed.

Lemma key_eqb_refl : forall a, key_eqb a a = true.
Proof. intros. unfold key_eqb. rewrite key_cmp_refl. auto. Qed.

Lemma key_eqb_eq : forall a b, key_eqb a b = true -> a = b.
Proof. unfold key_eqb. intros. destruct (key_cmp a b) eqn:E; try discriminate. apply key_cmp_eq. auto. Qed.

Lemma key_eqb_neq : forall a b, key_eqb a b = false -> a <> b.
Proof. intros a b H E. subst. rewrite key_eqb_refl in H. discriminate. Qed.

Lemma key_cmp_antisym : forall a b, key_cmp b a = CompOpp (key_cmp a b).
Proof.
  induction a; destruct b; simpl; auto.
  rewrite (N.compare_antisym a n). destruct (N.compare a n); simpl; auto.
Qed.

Lemma key_cmp_lt_trans : forall a b c, key_cmp a b = Lt -> key_cmp b c = Lt -> key_cmp a c = Lt.
Proof.
  induction a; destruct b, c; simpl; intros; try discriminate; auto.
  destruct (N.compare a n) eqn:E1; try discriminate.
  - apply N.compare_eq in E1. subst. destruct (N.compare n n0) eqn:E2; try discriminate; eauto.
  - destruct (N.compare n n0) eqn:E2; try discriminate.
    + apply N.compare_eq in E2. subst. rewrite E1. auto.
    + assert (N.compare a n0 = Lt). { apply N.compare_lt_iff. apply N.compare_lt_iff in E1, E2. eapply N.lt_trans; eauto. }
      rewrite H1. auto.
Qed.

Lemma key_eqb_sym : forall a b, key_eqb a b = key_eqb b a.
Proof. intros. unfold key_eqb. rewrite (key_cmp_antisym a b). destruct (key_cmp a b); auto. Qed.

(* ---- lookup / insert ---- *)
Lemma lookup_insert_same : forall V k (v : V) m, lookup k (insert k v m) = Some v.
Proof.
  induction m as [|[k' v'] m]; simpl.
  - rewrite key_eqb_refl. auto.
  - destruct (key_cmp k k') eqn:E; simpl.
    + rewrite key_eqb_refl. auto.
    + rewrite key_eqb_refl. auto.
    + unfold key_eqb at 1. rewrite E. auto.
Qed.

Lemma lookup_insert_other : forall V k k' (v : V) m, key_eqb k' k = false -> lookup k' (insert k v m) = lookup k' m.
Proof.
  induction m as [|[k2 v2] m]; simpl; intros.
  - rewrite H. auto.
  - destruct (key_cmp k k2) eqn:E; simpl.
    + apply key_cmp_eq in E. subst. rewrite H. auto.
    + rewrite H. auto.
    + destruct (key_eqb k' k2); auto.
Qed.

Lemma insert_insert_same : forall V k (v w : V) m, insert k v (insert k w m) = insert k v m.
Proof.
  induction m as [|[k' v'] m]; simpl.
  - rewrite key_cmp_refl. auto.
  - destruct (key_cmp k k') eqn:E; simpl.
    + rewrite key_cmp_refl. auto.
    + rewrite key_cmp_refl. auto.
    + rewrite E. f_equal. auto.
Qed.

Lemma key_lt_irrefl : forall a, key_cmp a a = Lt -> False.
Proof. intros a H. rewrite key_cmp_refl in H. discriminate. Qed.

Lemma key_gt_lt : forall a b, key_cmp a b = Gt -> key_cmp b a = Lt.
Proof. intros. rewrite key_cmp_antisym, H. auto. Qed.

Ltac key_norm :=
  repeat match goal with
         | H : key_cmp ?a ?b = Eq |- _ => apply key_cmp_eq in H; subst
         | H : key_cmp ?a ?b = Gt |- _ => apply key_gt_lt in H
         | H : key_cmp ?a ?a = Lt |- _ => exfalso; exact (key_lt_irrefl _ H)
         end.
Ltac key_contra :=
  try congruence; key_norm;
  try match goal with
      | H1 : key_cmp ?a ?b = Lt, H2 : key_cmp ?b ?a = Lt |- _ =>
          exfalso; exact (key_lt_irrefl a (key_cmp_lt_trans _ _ _ H1 H2))
      | H1 : key_cmp ?a ?b = Lt, H2 : key_cmp ?b ?c = Lt, H3 : key_cmp ?c ?a = Lt |- _ =>
          exfalso; exact (key_lt_irrefl a (key_cmp_lt_trans _ _ _ H1 (key_cmp_lt_trans _ _ _ H2 H3)))
      end.
Ltac key_cases :=
  repeat (match goal with
          | |- context [key_cmp ?x ?x] => rewrite (key_cmp_refl x)
          | |- context [key_cmp ?x ?y] => let E := fresh "E" in destruct (key_cmp x y) eqn:E
          end; simpl).

Lemma insert_comm : forall V a b (x y : V) m, key_eqb a b = false ->
  insert a x (insert b y m) = insert b y (insert a x m).
Proof.
  intros V a b x y m Hab.
  assert (Hne : key_cmp a b <> Eq). { intro E. unfold key_eqb in Hab. rewrite E in Hab. discriminate. }
  induction m as [|[k v] m]; simpl.
  - key_cases; auto; key_contra.
  - destruct (key_cmp b k) eqn:Eb; destruct (key_cmp a k) eqn:Ea; simpl; rewrite ?Ea, ?Eb; simpl;
      key_cases; rewrite ?IHm; auto; key_contra.
Qed.

(* ---- clean ---- *)
Lemma clean_arr : forall l, clean (JArr l) <-> Forall clean l.
Proof.
  induction l; simpl.
  - split; auto.
  - simpl in IHl. split; intros.
    + destruct H. constructor; auto. apply IHl. auto.
    + inversion H; subst. split; auto. apply IHl. auto.
Qed.

Lemma clean_obj : forall m, clean (JObj m) <-> Forall (fun kv => clean (snd kv)) m.
Proof.
  induction m as [|[k v] m]; simpl.
  - split; auto.
  - simpl in IHm. split; intros.
    + destruct H. constructor; auto. apply IHm. auto.
    + inversion H; subst. split; auto. apply IHm. auto.
Qed.

Lemma lookup_clean : forall m k x, clean (JObj m) -> lookup k m = Some x -> clean x.
Proof.
  intros m k x H. apply clean_obj in H. induction H as [|[k' v'] m]; simpl; intros; try discriminate.
  destruct (key_eqb k k'); auto. inversion H1; subst; auto.
Qed.

Lemma nth_clean : forall l i, clean (JArr l) -> clean (nth i l JNull).
Proof.
  intros l i H. apply clean_arr in H. revert i. induction H; destruct i; simpl; auto.
Qed.

Lemma clean_not_empty : forall v, clean v -> is_empty v = false.
Proof. destruct v; simpl; auto. intros []. Qed.

(* ---- set_nth ---- *)
Lemma set_nth_length : forall l i u, length (set_nth l i u) = Nat.max (length l) (S i).
Proof.
  intros. unfold set_nth. rewrite !app_length, firstn_length, repeat_length.
  change (length (u :: skipn (S i) l)) with (S (length (skipn (S i) l))). rewrite skipn_length. lia.
Qed.

Lemma set_nth_nth : forall l i u d, nth i (set_nth l i u) d = u.
Proof.
  intros. unfold set_nth.
  destruct (Nat.le_gt_cases (length l) i).
  - rewrite firstn_all2 by lia. rewrite app_nth2 by lia.
    rewrite app_nth2 by (rewrite repeat_length; lia). rewrite repeat_length.
    replace (i - length l - (i - length l))%nat with 0%nat by lia. auto.
  - rewrite app_nth2 by (rewrite firstn_length; lia). rewrite firstn_length.
    replace (i - length l)%nat with 0%nat by lia. simpl.
    replace (i - Nat.min i (length l))%nat with 0%nat by lia. auto.
Qed.

(* ---- clamp ---- *)
Lemma clamp_in_range : forall i n, 0 <= clamp i (-1) n < n -> clamp i (-1) n = (if i <? 0 then i + n else i).
Proof.
  intros i n. unfold clamp. destruct (i <? 0) eqn:E;
  repeat match goal with |- context [if ?c then _ else _] => destruct c eqn:?; try lia end.
Qed.

Lemma zlen_set_nth : forall l k u, 0 <= k -> zlen (set_nth l (Z.to_nat k) u) = Z.max (zlen l) (k + 1).
Proof. intros. unfold zlen. rewrite set_nth_length. lia. Qed.

Lemma index2_set_nth_in : forall l i u, 0 <= clamp i (-1) (zlen l) < zlen l ->
  index2 (JArr (set_nth l (Z.to_nat (clamp i (-1) (zlen l))) u)) (PI i) = Some u.
Proof.
  intros l i u H. cbn [index2]. rewrite zlen_set_nth by lia.
  replace (Z.max (zlen l) (clamp i (-1) (zlen l) + 1)) with (zlen l) by lia.
  replace (0 <=? clamp i (-1) (zlen l)) with true by lia.
  replace (clamp i (-1) (zlen l) <? zlen l) with true by lia.
  cbn [andb]. rewrite set_nth_nth. auto.
Qed.

Lemma index2_set_nth_grow : forall l i u, 0 <= i -> zlen l <= i ->
  index2 (JArr (set_nth l (Z.to_nat i) u)) (PI i) = Some u.
Proof.
  intros l i u H H0. cbn [index2]. rewrite zlen_set_nth by lia.
  replace (Z.max (zlen l) (i + 1)) with (i + 1) by lia.
  assert (clamp i (-1) (i + 1) = i).
  { unfold clamp. destruct (i <? 0) eqn:E; try lia.
    destruct (i <? -1) eqn:E'; try lia. destruct (i <? i + 1) eqn:E''; try lia. }
  rewrite H1. replace (0 <=? i) with true by lia. replace (i <? i + 1) with true by lia.
  cbn [andb]. rewrite set_nth_nth. auto.
Qed.

(* ==== L1: reading back what was written ==== *)
(* getpath q (setpath q x v) = x whenever the write is defined, for paths of keys and indices (a slice
   write may change the length of the window it wrote through, see docs/C02.md) *)
Lemma get_set : forall p v n u,
  no_slice p -> clean v -> n <> JEmpty -> setpath v p n = Some u -> getpath u p = Some n.
Proof.
  unfold setpath.
  induction p as [|c p IH]; intros v n u Hns Hc Hn H.
  - simpl in *. congruence.
  - inversion Hns; subst. destruct c; simpl in H2; try contradiction.
    + (* key *)
      assert (En : is_empty n = false) by (destruct n; auto; congruence).
      simpl in H.
      assert (forall m, (v = JNull /\ m = [] \/ v = JObj m) ->
              match lookup k m with
              | None => if is_empty n then Some v else match update JNull p n with Some u => Some (JObj (insert k u m)) | None => None end
              | Some x => match update x p n with Some u => Some (JObj (insert k u m)) | None => None end
              end = Some u -> getpath u (PK k :: p) = Some n) as Hobj.
      { intros m Hv Hu.
        assert (exists x u', (lookup k m = Some x \/ (lookup k m = None /\ x = JNull)) /\ update x p n = Some u' /\ u = JObj (insert k u' m)) as (x & u' & Hx & Hu' & ->).
        { destruct (lookup k m) eqn:L.
          - destruct (update j p n) eqn:U; inversion Hu; subst. eauto 8.
          - rewrite En in Hu. destruct (update JNull p n) eqn:U; inversion Hu; subst. eauto 8. }
        simpl. rewrite lookup_insert_same. apply (IH x n u'); auto.
        destruct Hx as [L | [_ ->]]; [|exact I].
        destruct Hv as [[-> ->] | ->]; try discriminate. exact (lookup_clean _ _ _ Hc L). }
      destruct v; try discriminate.
      * apply (Hobj []); auto.
      * contradiction.
      * apply (Hobj m); auto.
    + (* index *)
      assert (En : is_empty n = false) by (destruct n; auto; congruence).
      simpl in H.
      assert (forall l, (v = JNull /\ l = [] \/ v = JArr l) ->
         (let len := zlen l in let j := clamp i (-1) len in
          if j <? 0 then (if is_empty n then Some v else None)
          else if j <? len then match update (nth (Z.to_nat j) l JNull) p n with Some u => Some (JArr (set_nth l (Z.to_nat j) u)) | None => None end
          else if is_empty n then Some v else if max_index <=? i then None
          else match update JNull p n with Some u => Some (JArr (set_nth l (Z.to_nat i) u)) | None => None end) = Some u ->
         getpath u (PI i :: p) = Some n) as Harr.
      { intros l Hv Hu. cbv zeta in Hu. rewrite En in Hu.
        destruct (clamp i (-1) (zlen l) <? 0) eqn:E1; try discriminate.
        destruct (clamp i (-1) (zlen l) <? zlen l) eqn:E2.
        - destruct (update (nth (Z.to_nat (clamp i (-1) (zlen l))) l JNull) p n) eqn:U; inversion Hu; subst.
          assert (0 <= clamp i (-1) (zlen l) < zlen l) by lia.
          cbn [getpath]. rewrite index2_set_nth_in by auto.
          apply (IH (nth (Z.to_nat (clamp i (-1) (zlen l))) l JNull) n j); auto.
          destruct Hv as [[-> ->] | ->]; [destruct (Z.to_nat _); simpl; auto | apply nth_clean; auto].
        - destruct (max_index <=? i) eqn:E3; try discriminate.
          destruct (update JNull p n) eqn:U; inversion Hu; subst.
          assert (0 <= i /\ zlen l <= i).
          { unfold clamp in E1, E2. unfold zlen in *. destruct (i <? 0) eqn:E;
            repeat match type of E1 with context [if ?c then _ else _] => destruct c eqn:? end; lia. }
          cbn [getpath]. rewrite index2_set_nth_grow by lia.
          apply (IH JNull n j); simpl; auto. }
      destruct v; try discriminate.
      * apply (Harr []); auto.
      * contradiction.
      * apply (Harr l); auto.
Qed.
