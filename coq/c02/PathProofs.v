(* C02 — value-level laws of getpath / setpath / delpaths (Path.v). *)
From Coq Require Import List ZArith NArith Bool Lia Sorted.
From Verif Require Import c02.Path.
Import ListNotations.
Open Scope Z_scope.

(* ---- keys: key_cmp is a decidable total order ---- *)
Lemma key_cmp_refl : forall a, key_cmp a a = Eq.
Proof. induction a; simpl; auto. rewrite N.compare_refl. auto. Qed.

Lemma key_cmp_eq : forall a b, key_cmp a b = Eq -> a = b.
Proof.
  induction a; destruct b; simpl; intros; try discriminate; auto.
  destruct (N.compare a n) eqn:E; try discriminate.
  apply N.compare_eq in E. subst. f_equal. auto.
Qed.

Lemma key_eqb_refl : forall a, key_eqb a a = true.
Proof. intros. unfold key_eqb. rewrite key_cmp_refl. auto. Qed.

Lemma key_eqb_eq : forall a b, key_eqb a b = true -> a = b.
Proof. unfold key_eqb. intros. destruct (key_cmp a b) eqn:E; try discriminate. apply key_cmp_eq. auto. Qed.

Lemma key_eqb_neq : forall a b, key_eqb a b = false -> a <> b.
Proof. intros a b H E. subst. rewrite key_eqb_refl in H. discriminate. Qed.

Lemma key_cmp_antisym : forall a b, key_cmp b a = CompOpp (key_cmp a b).
Proof.
  induction a; destruct b; simpl; auto.
  rewrite (N.compare_antisym a n). destruct (N.compare a n); simpl; auto.
Qed.

Lemma key_cmp_lt_trans : forall a b c, key_cmp a b = Lt -> key_cmp b c = Lt -> key_cmp a c = Lt.
Proof.
  induction a; destruct b, c; simpl; intros; try discriminate; auto.
  destruct (N.compare a n) eqn:E1; try discriminate.
  - apply N.compare_eq in E1. subst. destruct (N.compare n n0) eqn:E2; try discriminate; eauto.
  - destruct (N.compare n n0) eqn:E2; try discriminate.
    + apply N.compare_eq in E2. subst. rewrite E1. auto.
    + assert (N.compare a n0 = Lt). { apply N.compare_lt_iff. apply N.compare_lt_iff in E1, E2. eapply N.lt_trans; eauto. }
      rewrite H1. auto.
Qed.

Lemma key_eqb_sym : forall a b, key_eqb a b = key_eqb b a.
Proof. intros. unfold key_eqb. rewrite (key_cmp_antisym a b). destruct (key_cmp a b); auto. Qed.

(* ---- lookup / insert ---- *)
Lemma lookup_insert_same : forall V k (v : V) m, lookup k (insert k v m) = Some v.
Proof.
  induction m as [|[k' v'] m]; simpl.
  - rewrite key_eqb_refl. auto.
  - destruct (key_cmp k k') eqn:E; simpl.
    + rewrite key_eqb_refl. auto.
    + rewrite key_eqb_refl. auto.
    + unfold key_eqb at 1. rewrite E. auto.
Qed.

Lemma lookup_insert_other : forall V k k' (v : V) m, key_eqb k' k = false -> lookup k' (insert k v m) = lookup k' m.
Proof.
  induction m as [|[k2 v2] m]; simpl; intros.
  - rewrite H. auto.
  - destruct (key_cmp k k2) eqn:E; simpl.
    + apply key_cmp_eq in E. subst. rewrite H. auto.
    + rewrite H. auto.
    + destruct (key_eqb k' k2); auto.
Qed.

Lemma insert_insert_same : forall V k (v w : V) m, insert k v (insert k w m) = insert k v m.
Proof.
  induction m as [|[k' v'] m]; simpl.
  - rewrite key_cmp_refl. auto.
  - destruct (key_cmp k k') eqn:E; simpl.
    + rewrite key_cmp_refl. auto.
    + rewrite key_cmp_refl. auto.
    + rewrite E. f_equal. auto.
Qed.

Lemma key_lt_irrefl : forall a, key_cmp a a = Lt -> False.
Proof. intros a H. rewrite key_cmp_refl in H. discriminate. Qed.

Lemma key_gt_lt : forall a b, key_cmp a b = Gt -> key_cmp b a = Lt.
Proof. intros. rewrite key_cmp_antisym, H. auto. Qed.

Ltac key_norm :=
  repeat match goal with
         | H : key_cmp ?a ?b = Eq |- _ => apply key_cmp_eq in H; subst
         | H : key_cmp ?a ?b = Gt |- _ => apply key_gt_lt in H
         | H : key_cmp ?a ?a = Lt |- _ => exfalso; exact (key_lt_irrefl _ H)
         end.
Ltac key_contra :=
  try congruence; key_norm;
  try match goal with
      | H1 : key_cmp ?a ?b = Lt, H2 : key_cmp ?b ?a = Lt |- _ =>
          exfalso; exact (key_lt_irrefl a (key_cmp_lt_trans _ _ _ H1 H2))
      | H1 : key_cmp ?a ?b = Lt, H2 : key_cmp ?b ?c = Lt, H3 : key_cmp ?c ?a = Lt |- _ =>
          exfalso; exact (key_lt_irrefl a (key_cmp_lt_trans _ _ _ H1 (key_cmp_lt_trans _ _ _ H2 H3)))
      end.
Ltac key_cases :=
  repeat (match goal with
          | |- context [key_cmp ?x ?x] => rewrite (key_cmp_refl x)
          | |- context [key_cmp ?x ?y] => let E := fresh "E" in destruct (key_cmp x y) eqn:E
          end; simpl).

Lemma insert_comm : forall V a b (x y : V) m, key_eqb a b = false ->
  insert a x (insert b y m) = insert b y (insert a x m).
Proof.
  intros V a b x y m Hab.
  assert (Hne : key_cmp a b <> Eq). { intro E. unfold key_eqb in Hab. rewrite E in Hab. discriminate. }
  induction m as [|[k v] m]; simpl.
  - key_cases; auto; key_contra.
  - destruct (key_cmp b k) eqn:Eb; destruct (key_cmp a k) eqn:Ea; simpl; rewrite ?Ea, ?Eb; simpl;
      key_cases; rewrite ?IHm; auto; key_contra.
Qed.

(* ---- clean ---- *)
Lemma clean_arr : forall l, clean (JArr l) <-> Forall clean l.
Proof.
  induction l; simpl.
  - split; auto.
  - simpl in IHl. split; intros.
    + destruct H. constructor; auto. apply IHl. auto.
    + inversion H; subst. split; auto. apply IHl. auto.
Qed.

Lemma clean_obj : forall m, clean (JObj m) <-> Forall (fun kv => clean (snd kv)) m.
Proof.
  induction m as [|[k v] m]; simpl.
  - split; auto.
  - simpl in IHm. split; intros.
    + destruct H. constructor; auto. apply IHm. auto.
    + inversion H; subst. split; auto. apply IHm. auto.
Qed.

Lemma lookup_clean : forall m k x, clean (JObj m) -> lookup k m = Some x -> clean x.
Proof.
  intros m k x H. apply clean_obj in H. induction H as [|[k' v'] m]; simpl; intros; try discriminate.
  destruct (key_eqb k k'); auto. inversion H1; subst; auto.
Qed.

Lemma nth_clean : forall l i, clean (JArr l) -> clean (nth i l JNull).
Proof.
  intros l i H. apply clean_arr in H. revert i. induction H; destruct i; simpl; auto.
Qed.

Lemma clean_not_empty : forall v, clean v -> is_empty v = false.
Proof. destruct v; simpl; auto. intros []. Qed.

(* ---- set_nth ---- *)
Lemma set_nth_length : forall l i u, length (set_nth l i u) = Nat.max (length l) (S i).
Proof.
  intros. unfold set_nth. rewrite !app_length, firstn_length, repeat_length.
  change (length (u :: skipn (S i) l)) with (S (length (skipn (S i) l))). rewrite skipn_length. lia.
Qed.

Lemma set_nth_nth : forall l i u d, nth i (set_nth l i u) d = u.
Proof.
  intros. unfold set_nth.
  destruct (Nat.le_gt_cases (length l) i).
  - rewrite firstn_all2 by lia. rewrite app_nth2 by lia.
    rewrite app_nth2 by (rewrite repeat_length; lia). rewrite repeat_length.
    replace (i - length l - (i - length l))%nat with 0%nat by lia. auto.
  - rewrite app_nth2 by (rewrite firstn_length; lia). rewrite firstn_length.
    replace (i - length l)%nat with 0%nat by lia. simpl.
    replace (i - Nat.min i (length l))%nat with 0%nat by lia. auto.
Qed.

(* ---- clamp ---- *)
Lemma clamp_in_range : forall i n, 0 <= clamp i (-1) n < n -> clamp i (-1) n = (if i <? 0 then i + n else i).
Proof.
  intros i n. unfold clamp. destruct (i <? 0) eqn:E;
  repeat match goal with |- context [if ?c then _ else _] => destruct c eqn:?; try lia end.
Qed.

Lemma zlen_set_nth : forall l k u, 0 <= k -> zlen (set_nth l (Z.to_nat k) u) = Z.max (zlen l) (k + 1).
Proof. intros. unfold zlen. rewrite set_nth_length. lia. Qed.

Lemma index2_set_nth_in : forall l i u, 0 <= clamp i (-1) (zlen l) < zlen l ->
  index2 (JArr (set_nth l (Z.to_nat (clamp i (-1) (zlen l))) u)) (PI i) = Some u.
Proof.
  intros l i u H. cbn [index2]. rewrite zlen_set_nth by lia.
  replace (Z.max (zlen l) (clamp i (-1) (zlen l) + 1)) with (zlen l) by lia.
  replace (0 <=? clamp i (-1) (zlen l)) with true by lia.
  replace (clamp i (-1) (zlen l) <? zlen l) with true by lia.
  cbn [andb]. rewrite set_nth_nth. auto.
Qed.

Lemma index2_set_nth_grow : forall l i u, 0 <= i -> zlen l <= i ->
  index2 (JArr (set_nth l (Z.to_nat i) u)) (PI i) = Some u.
Proof.
  intros l i u H H0. cbn [index2]. rewrite zlen_set_nth by lia.
  replace (Z.max (zlen l) (i + 1)) with (i + 1) by lia.
  assert (clamp i (-1) (i + 1) = i).
  { unfold clamp. destruct (i <? 0) eqn:E; try lia.
    destruct (i <? -1) eqn:E'; try lia. destruct (i <? i + 1) eqn:E''; try lia. }
  rewrite H1. replace (0 <=? i) with true by lia. replace (i <? i + 1) with true by lia.
  cbn [andb]. rewrite set_nth_nth. auto.
Qed.

(* ==== L1: reading back what was written ==== *)
(* getpath q (setpath q x v) = x whenever the write is defined, for paths of keys and indices (a slice
   write may change the length of the window it wrote through, see docs/C02.md) *)
Lemma get_set : forall p v n u,
  no_slice p -> clean v -> n <> JEmpty -> setpath v p n = Some u -> getpath u p = Some n.
Proof.
  unfold setpath.
  induction p as [|c p IH]; intros v n u Hns Hc Hn H.
  - simpl in *. congruence.
  - inversion Hns; subst. destruct c; simpl in H2; try contradiction.
    + (* key *)
      assert (En : is_empty n = false) by (destruct n; auto; congruence).
      simpl in H.
      assert (forall m, (v = JNull /\ m = [] \/ v = JObj m) ->
              match lookup k m with
              | None => if is_empty n then Some v else match update JNull p n with Some u => Some (JObj (insert k u m)) | None => None end
              | Some x => match update x p n with Some u => Some (JObj (insert k u m)) | None => None end
              end = Some u -> getpath u (PK k :: p) = Some n) as Hobj.
      { intros m Hv Hu.
        assert (exists x u', (lookup k m = Some x \/ (lookup k m = None /\ x = JNull)) /\ update x p n = Some u' /\ u = JObj (insert k u' m)) as (x & u' & Hx & Hu' & ->).
        { destruct (lookup k m) eqn:L.
          - destruct (update j p n) eqn:U; inversion Hu; subst. eauto 8.
          - rewrite En in Hu. destruct (update JNull p n) eqn:U; inversion Hu; subst. eauto 8. }
        simpl. rewrite lookup_insert_same. apply (IH x n u'); auto.
        destruct Hx as [L | [_ ->]]; [|exact I].
        destruct Hv as [[-> ->] | ->]; try discriminate. exact (lookup_clean _ _ _ Hc L). }
      destruct v; try discriminate.
      * apply (Hobj []); auto.
      * contradiction.
      * apply (Hobj m); auto.
    + (* index *)
      assert (En : is_empty n = false) by (destruct n; auto; congruence).
      simpl in H.
      assert (forall l, (v = JNull /\ l = [] \/ v = JArr l) ->
         (let len := zlen l in let j := clamp i (-1) len in
          if j <? 0 then (if is_empty n then Some v else None)
          else if j <? len then match update (nth (Z.to_nat j) l JNull) p n with Some u => Some (JArr (set_nth l (Z.to_nat j) u)) | None => None end
          else if is_empty n then Some v else if max_index <=? i then None
          else match update JNull p n with Some u => Some (JArr (set_nth l (Z.to_nat i) u)) | None => None end) = Some u ->
         getpath u (PI i :: p) = Some n) as Harr.
      { intros l Hv Hu. cbv zeta in Hu. rewrite En in Hu.
        destruct (clamp i (-1) (zlen l) <? 0) eqn:E1; try discriminate.
        destruct (clamp i (-1) (zlen l) <? zlen l) eqn:E2.
        - destruct (update (nth (Z.to_nat (clamp i (-1) (zlen l))) l JNull) p n) eqn:U; inversion Hu; subst.
          assert (0 <= clamp i (-1) (zlen l) < zlen l) by lia.
          cbn [getpath]. rewrite index2_set_nth_in by auto.
          apply (IH (nth (Z.to_nat (clamp i (-1) (zlen l))) l JNull) n j); auto.
          destruct Hv as [[-> ->] | ->]; [destruct (Z.to_nat _); simpl; auto | apply nth_clean; auto].
        - destruct (max_index <=? i) eqn:E3; try discriminate.
          destruct (update JNull p n) eqn:U; inversion Hu; subst.
          assert (0 <= i /\ zlen l <= i).
          { unfold clamp in E1, E2. unfold zlen in *. destruct (i <? 0) eqn:E;
            repeat match type of E1 with context [if ?c then _ else _] => destruct c eqn:? end; lia. }
          cbn [getpath]. rewrite index2_set_nth_grow by lia.
          apply (IH JNull n j); simpl; auto. }
      destruct v; try discriminate.
      * apply (Harr []); auto.
      * contradiction.
      * apply (Harr l); auto.
Qed.

(* ==== L2: writes through diverging paths commute ==== *)
Definition bind {A B} (o : option A) (f : A -> option B) : option B :=
  match o with Some x => f x | None => None end.

Open Scope nat_scope.
Lemma nth_set_nth : forall l i u k, nth k (set_nth l i u) JNull = if Nat.eqb k i then u else nth k l JNull.
Proof.
  intros. unfold set_nth. destruct (Nat.eqb k i) eqn:E.
  - apply Nat.eqb_eq in E. subst. apply set_nth_nth.
  - apply Nat.eqb_neq in E.
    destruct (Nat.lt_ge_cases k i) as [Hk|Hk].
    + destruct (Nat.lt_ge_cases k (length l)) as [Hl|Hl].
      * rewrite app_nth1 by (rewrite firstn_length; lia).
        rewrite <- (firstn_skipn i l) at 2. rewrite app_nth1 by (rewrite firstn_length; lia). auto.
      * rewrite firstn_all2 by lia. rewrite app_nth2 by lia. rewrite app_nth1 by (rewrite repeat_length; lia).
        rewrite (nth_overflow l) by lia. apply nth_repeat.
    + assert (i < k) by lia.
      rewrite app_nth2 by (rewrite firstn_length; lia). rewrite firstn_length.
      rewrite app_nth2 by (rewrite repeat_length; lia). rewrite repeat_length.
      destruct (Nat.lt_ge_cases i (length l)) as [Hl|Hl].
      * replace (Nat.min i (length l)) with i by lia. replace (i - length l)%nat with 0%nat by lia.
        replace (k - i - 0)%nat with (S (k - S i)) by lia. cbn [nth].
        rewrite <- (firstn_skipn (S i) l) at 2. rewrite app_nth2 by (rewrite firstn_length; lia).
        rewrite firstn_length. replace (Nat.min (S i) (length l)) with (S i) by lia. auto.
      * replace (Nat.min i (length l)) with (length l) by lia.
        replace (k - length l - (i - length l))%nat with (S (k - S i)) by lia. cbn [nth].
        rewrite skipn_all2 by lia. rewrite (nth_overflow l) by lia. destruct (k - S i)%nat; auto.
Qed.

Lemma set_nth_comm : forall l i j u w, i <> j -> set_nth (set_nth l i u) j w = set_nth (set_nth l j w) i u.
Proof.
  intros. apply nth_ext with (d := JNull) (d' := JNull).
  - rewrite !set_nth_length. lia.
  - intros k _. rewrite !nth_set_nth.
    destruct (Nat.eqb k j) eqn:E1, (Nat.eqb k i) eqn:E2; auto.
    apply Nat.eqb_eq in E1, E2. lia.
Qed.

Lemma set_nth_twice : forall l i u w, set_nth (set_nth l i u) i w = set_nth l i w.
Proof.
  intros. apply nth_ext with (d := JNull) (d' := JNull).
  - rewrite !set_nth_length. lia.
  - intros k _. rewrite !nth_set_nth. destruct (Nat.eqb k i); auto.
Qed.

Definition getk (k : key) (m : list (key * jv)) : jv := match lookup k m with Some t => t | None => JNull end.

Lemma update_key_obj : forall m k p x, is_empty x = false ->
  update (JObj m) (PK k :: p) x = match update (getk k m) p x with Some u => Some (JObj (insert k u m)) | None => None end.
Proof. intros. simpl. unfold getk. destruct (lookup k m); auto. rewrite H. auto. Qed.

Lemma update_key_null : forall k p x, is_empty x = false ->
  update JNull (PK k :: p) x = match update (getk k []) p x with Some u => Some (JObj (insert k u [])) | None => None end.
Proof. intros. simpl. rewrite H. auto. Qed.

Lemma getk_insert_same : forall k u m, getk k (insert k u m) = u.
Proof. intros. unfold getk. rewrite lookup_insert_same. auto. Qed.
Lemma getk_insert_other : forall k k' u m, key_eqb k' k = false -> getk k' (insert k u m) = getk k' m.
Proof. intros. unfold getk. rewrite lookup_insert_other; auto. Qed.

Lemma getk_clean : forall m k, clean (JObj m) -> clean (getk k m).
Proof. intros. unfold getk. destruct (lookup k m) eqn:L; simpl; auto. eapply lookup_clean; eauto. Qed.

(* index writes with a non-negative index *)
Definition guard_idx (l : list jv) (i : Z) : bool := (zlen l <=? i)%Z && (max_index <=? i)%Z.

Lemma update_idx_arr : forall l i p x, (0 <= i)%Z -> is_empty x = false ->
  update (JArr l) (PI i :: p) x =
  if guard_idx l i then None
  else match update (nth (Z.to_nat i) l JNull) p x with Some u => Some (JArr (set_nth l (Z.to_nat i) u)) | None => None end.
Proof.
  intros l i p x Hi He. simpl. rewrite He. unfold guard_idx.
  assert (clamp i (-1) (zlen l) = if (i <? zlen l)%Z then i else zlen l)%Z.
  { unfold clamp. destruct (i <? 0)%Z eqn:E; try lia. destruct (i <? -1)%Z eqn:E1; try lia; auto. }
  rewrite H. unfold zlen in *. destruct (i <? Z.of_nat (length l))%Z eqn:E.
  - replace (i <? 0)%Z with false by lia. rewrite E. replace (Z.of_nat (length l) <=? i)%Z with false by lia. auto.
  - replace (Z.of_nat (length l) <? 0)%Z with false by lia.
    replace (Z.of_nat (length l) <? Z.of_nat (length l))%Z with false by lia.
    replace (Z.of_nat (length l) <=? i)%Z with true by lia. simpl.
    destruct (max_index <=? i)%Z; auto. rewrite (nth_overflow l) by lia. auto.
Qed.

Lemma update_idx_null : forall i p x, (0 <= i)%Z -> is_empty x = false ->
  update JNull (PI i :: p) x =
  if guard_idx [] i then None
  else match update (nth (Z.to_nat i) [] JNull) p x with Some u => Some (JArr (set_nth [] (Z.to_nat i) u)) | None => None end.
Proof.
  intros i p x Hi He. rewrite <- (update_idx_arr [] i p x Hi He). simpl. rewrite He.
  destruct (clamp i (-1) (zlen []) <? 0)%Z; auto.
Qed.

Theorem set_commute : forall p q v x y,
  simple_path p -> simple_path q -> diverge p q -> x <> JEmpty -> y <> JEmpty -> clean v ->
  bind (update v p x) (fun v1 => update v1 q y) = bind (update v q y) (fun v2 => update v2 p x).
Proof.
  induction p as [|c p IH]; intros q v x y Hp Hq Hd Hx Hy Hc. { destruct q; contradiction. }
  assert (Ex : is_empty x = false) by (destruct x; auto; congruence).
  assert (Ey : is_empty y = false) by (destruct y; auto; congruence).
  destruct q as [|d q]. { destruct c; contradiction. }
  inversion Hp; subst. inversion Hq; subst.
  destruct c as [a| i | |], d as [b| j | |]; simpl in Hd; try contradiction.
  - (* keys *)
    assert (Hobj : forall m, clean (JObj m) ->
      bind (match update (getk a m) p x with Some u => Some (JObj (insert a u m)) | None => None end)
           (fun v1 => update v1 (PK b :: q) y) =
      bind (match update (getk b m) q y with Some u => Some (JObj (insert b u m)) | None => None end)
           (fun v2 => update v2 (PK a :: p) x)).
    { intros m Hm. destruct (key_eqb a b) eqn:E.
      - apply key_eqb_eq in E. subst b.
        specialize (IH q (getk a m) x y H2 H4 Hd Hx Hy (getk_clean _ _ Hm)).
        destruct (update (getk a m) p x) as [u1|] eqn:U1; destruct (update (getk a m) q y) as [u2|] eqn:U2; cbn [bind] in *.
        + rewrite !update_key_obj by auto. rewrite !getk_insert_same. rewrite IH.
          destruct (update u2 p x); auto. rewrite !insert_insert_same. auto.
        + rewrite update_key_obj by auto. rewrite getk_insert_same. rewrite IH. auto.
        + rewrite update_key_obj by auto. rewrite getk_insert_same. rewrite <- IH. auto.
        + auto.
      - destruct (update (getk a m) p x) as [u1|] eqn:U1; destruct (update (getk b m) q y) as [u2|] eqn:U2; cbn [bind].
        + rewrite !update_key_obj by auto. rewrite getk_insert_other by (rewrite key_eqb_sym; auto).
          rewrite getk_insert_other by auto. rewrite U1, U2. rewrite (insert_comm _ a b) by auto. auto.
        + rewrite update_key_obj by auto. rewrite getk_insert_other by (rewrite key_eqb_sym; auto). rewrite U2. auto.
        + rewrite update_key_obj by auto. rewrite getk_insert_other by auto. rewrite U1. auto.
        + auto. }
    destruct v; try reflexivity.
    + rewrite !update_key_null by auto. apply (Hobj []). simpl. auto.
    + rewrite !update_key_obj by auto. apply Hobj. auto.
  - (* indices *)
    simpl in H1, H3.
    assert (Harr : forall l, clean (JArr l) ->
      bind (if guard_idx l i then None
            else match update (nth (Z.to_nat i) l JNull) p x with Some u => Some (JArr (set_nth l (Z.to_nat i) u)) | None => None end)
           (fun v1 => update v1 (PI j :: q) y) =
      bind (if guard_idx l j then None
            else match update (nth (Z.to_nat j) l JNull) q y with Some u => Some (JArr (set_nth l (Z.to_nat j) u)) | None => None end)
           (fun v2 => update v2 (PI i :: p) x)).
    { intros l Hl. destruct (i =? j)%Z eqn:E.
      - apply Z.eqb_eq in E. subst j.
        specialize (IH q (nth (Z.to_nat i) l JNull) x y H2 H4 Hd Hx Hy (nth_clean _ _ Hl)).
        destruct (guard_idx l i) eqn:G; auto.
        destruct (update (nth (Z.to_nat i) l JNull) p x) as [u1|] eqn:U1;
          destruct (update (nth (Z.to_nat i) l JNull) q y) as [u2|] eqn:U2; cbn [bind] in *; auto;
          rewrite ?update_idx_arr by auto;
          assert (Gf : forall u, guard_idx (set_nth l (Z.to_nat i) u) i = false)
            by (intros; unfold guard_idx, zlen; rewrite set_nth_length;
                replace (Z.of_nat (Nat.max (length l) (S (Z.to_nat i))) <=? i)%Z with false; [reflexivity|];
                symmetry; apply Z.leb_gt; lia);
          rewrite ?Gf, ?nth_set_nth, ?Nat.eqb_refl.
        + rewrite IH. destruct (update u2 p x); auto. rewrite !set_nth_twice. auto.
        + rewrite IH. auto.
        + rewrite <- IH. auto.
      - apply Z.eqb_neq in E.
        assert (Hne : Z.to_nat i <> Z.to_nat j) by lia.
        assert (Hnth : forall u, nth (Z.to_nat j) (set_nth l (Z.to_nat i) u) JNull = nth (Z.to_nat j) l JNull).
        { intros. rewrite nth_set_nth. replace (Nat.eqb (Z.to_nat j) (Z.to_nat i)) with false; auto.
          symmetry. apply Nat.eqb_neq. lia. }
        assert (Hnth' : forall u, nth (Z.to_nat i) (set_nth l (Z.to_nat j) u) JNull = nth (Z.to_nat i) l JNull).
        { intros. rewrite nth_set_nth. replace (Nat.eqb (Z.to_nat i) (Z.to_nat j)) with false; auto.
          symmetry. apply Nat.eqb_neq. lia. }
        assert (Hg : forall u w, guard_idx l i || guard_idx (set_nth l (Z.to_nat i) u) j =
                                 guard_idx l j || guard_idx (set_nth l (Z.to_nat j) w) i).
        { intros. unfold guard_idx, zlen. rewrite !set_nth_length.
          destruct (Z.of_nat (length l) <=? i)%Z eqn:A1, (max_index <=? i)%Z eqn:A2,
                   (Z.of_nat (length l) <=? j)%Z eqn:B1, (max_index <=? j)%Z eqn:B2; simpl;
            repeat match goal with |- context [(?a <=? ?b)%Z] => destruct (a <=? b)%Z eqn:? end; simpl; auto;
            exfalso;
            repeat match goal with
                   | H : (_ <=? _)%Z = true |- _ => apply Z.leb_le in H
                   | H : (_ <=? _)%Z = false |- _ => apply Z.leb_gt in H
                   end; lia. }
        destruct (update (nth (Z.to_nat i) l JNull) p x) as [u1|] eqn:U1;
          destruct (update (nth (Z.to_nat j) l JNull) q y) as [u2|] eqn:U2.
        + specialize (Hg u1 u2).
          destruct (guard_idx l i) eqn:G1, (guard_idx l j) eqn:G2; cbn [bind orb] in *;
            rewrite ?update_idx_arr by auto; rewrite ?Hnth, ?Hnth', ?U1, ?U2;
            try (rewrite <- Hg); try (rewrite Hg); auto.
          destruct (guard_idx (set_nth l (Z.to_nat i) u1) j) eqn:G3; rewrite <- Hg; auto.
          rewrite set_nth_comm by auto. auto.
        + destruct (guard_idx l i) eqn:G1, (guard_idx l j) eqn:G2; cbn [bind]; auto;
            rewrite ?update_idx_arr by auto; rewrite ?Hnth, ?U2;
            destruct (guard_idx (set_nth l (Z.to_nat i) u1) j); auto.
        + destruct (guard_idx l i) eqn:G1, (guard_idx l j) eqn:G2; cbn [bind]; auto;
            rewrite ?update_idx_arr by auto; rewrite ?Hnth', ?U1;
            destruct (guard_idx (set_nth l (Z.to_nat j) u2) i); auto.
        + destruct (guard_idx l i), (guard_idx l j); auto. }
    destruct v; try reflexivity.
    + rewrite !update_idx_null by auto. apply (Harr []). simpl. auto.
    + rewrite !update_idx_arr by auto. apply Harr. auto.
Qed.

(* ==== L3: delpaths marks against the ORIGINAL indices = single deletions in descending order ==== *)
(* proved for the indices of one array (the level at which positions shift); nested paths: oracle _dref *)
Section JvInd.
  Variable P : jv -> Prop.
  Hypothesis Hnull : P JNull.
  Hypothesis Hbool : forall b, P (JBool b).
  Hypothesis Hnum : forall z, P (JNum z).
  Hypothesis Hstr : forall s, P (JStr s).
  Hypothesis Hempty : P JEmpty.
  Hypothesis Harr : forall l, Forall P l -> P (JArr l).
  Hypothesis Hobj : forall m, Forall (fun kv => P (snd kv)) m -> P (JObj m).
  Fixpoint jv_rect' (v : jv) : P v :=
    match v with
    | JNull => Hnull | JBool b => Hbool b | JNum z => Hnum z | JStr s => Hstr s | JEmpty => Hempty
    | JArr l => Harr l ((fix go (l : list jv) : Forall P l :=
                           match l with [] => Forall_nil _ | x :: r => Forall_cons _ (jv_rect' x) (go r) end) l)
    | JObj m => Hobj m ((fix go (m : list (key * jv)) : Forall (fun kv => P (snd kv)) m :=
                           match m with [] => Forall_nil _ | (k, x) :: r => Forall_cons (k, x) (jv_rect' x) (go r) end) m)
    end.
End JvInd.

Definition sweepl : list jv -> list jv :=
  fix go (l : list jv) : list jv :=
    match l with
    | [] => []
    | x :: r => if is_empty x then go r else delete_empty x :: go r
    end.

Lemma delete_empty_arr : forall l, delete_empty (JArr l) = JArr (sweepl l).
Proof. reflexivity. Qed.

Lemma delete_empty_clean : forall v, clean v -> delete_empty v = v.
Proof.
  induction v using jv_rect'; intros Hc; auto.
  - destruct Hc.
  - rewrite delete_empty_arr. f_equal. apply clean_arr in Hc.
    induction l; auto. inversion H; inversion Hc; subst. simpl.
    rewrite (clean_not_empty a) by auto. rewrite H2 by auto. f_equal. auto.
  - simpl. f_equal. apply clean_obj in Hc.
    induction m as [|[k x] m]; auto. inversion H; inversion Hc; subst. simpl in *.
    rewrite (clean_not_empty x) by auto. rewrite H2 by auto. f_equal. auto.
Qed.

Lemma sweepl_clean : forall l, Forall clean l -> sweepl l = l.
Proof.
  induction 1; auto. simpl. rewrite (clean_not_empty x) by auto. rewrite delete_empty_clean by auto. f_equal. auto.
Qed.

Lemma sweepl_app : forall l l', sweepl (l ++ l') = sweepl l ++ sweepl l'.
Proof. induction l; simpl; intros; auto. destruct (is_empty a); rewrite IHl; auto. Qed.

Fixpoint remove_nth {X} (i : nat) (l : list X) : list X :=
  match l, i with
  | [], _ => []
  | _ :: r, O => r
  | x :: r, S i' => x :: remove_nth i' r
  end.

Lemma remove_nth_split {X} : forall (l : list X) i, i < length l -> remove_nth i l = firstn i l ++ skipn (S i) l.
Proof. induction l; destruct i; simpl; intros; try lia; auto. f_equal. apply IHl. lia. Qed.

Lemma remove_nth_beyond {X} : forall (l : list X) i, length l <= i -> remove_nth i l = l.
Proof. induction l; destruct i; simpl; intros; try lia; auto. f_equal. apply IHl. lia. Qed.

Definition mark1 (i : nat) (l : list jv) : list jv :=
  if Nat.ltb i (length l) then firstn i l ++ JEmpty :: skipn (S i) l else l.

Definition idx (i : nat) : path := [PI (Z.of_nat i)].

Lemma update_mark_idx : forall l i, update (JArr l) (idx i) JEmpty = Some (JArr (mark1 i l)).
Proof.
  intros. unfold idx, mark1. cbn [update is_empty].
  assert (clamp (Z.of_nat i) (-1) (zlen l) = if (Z.of_nat i <? zlen l)%Z then Z.of_nat i else zlen l)%Z.
  { unfold clamp. replace (Z.of_nat i <? 0)%Z with false by (symmetry; apply Z.ltb_ge; lia).
    replace (Z.of_nat i <? -1)%Z with false by (symmetry; apply Z.ltb_ge; lia). reflexivity. }
  rewrite H. unfold zlen in *. destruct (Nat.ltb i (length l)) eqn:L.
  - apply Nat.ltb_lt in L. replace (Z.of_nat i <? Z.of_nat (length l))%Z with true by lia.
    replace (Z.of_nat i <? 0)%Z with false by lia. rewrite Nat2Z.id. unfold set_nth.
    replace (i - length l) with 0 by lia.
    replace (Z.of_nat i <? Z.of_nat (length l))%Z with true by lia. auto.
  - apply Nat.ltb_ge in L. replace (Z.of_nat i <? Z.of_nat (length l))%Z with false by lia.
    replace (Z.of_nat (length l) <? 0)%Z with false by lia.
    replace (Z.of_nat (length l) <? Z.of_nat (length l))%Z with false by lia. auto.
Qed.

Definition marks (is : list nat) (l : list jv) : list jv := fold_left (fun acc i => mark1 i acc) is l.

Lemma mark_all_idx : forall is l, mark_all (JArr l) (map idx is) = Some (JArr (marks is l)).
Proof. induction is; intros; [reflexivity|]. cbn [map mark_all]. rewrite update_mark_idx. apply IHis. Qed.

Lemma mark1_length : forall i l, length (mark1 i l) = length l.
Proof.
  intros. unfold mark1. destruct (Nat.ltb i (length l)) eqn:L; auto. apply Nat.ltb_lt in L.
  rewrite app_length, firstn_length. change (length (JEmpty :: skipn (S i) l)) with (S (length (skipn (S i) l))).
  rewrite skipn_length. lia.
Qed.

Lemma mark1_app : forall i A C, i < length A -> mark1 i (A ++ C) = mark1 i A ++ C.
Proof.
  intros. unfold mark1. rewrite app_length.
  replace (Nat.ltb i (length A + length C)) with true by (symmetry; apply Nat.ltb_lt; lia).
  replace (Nat.ltb i (length A)) with true by (symmetry; apply Nat.ltb_lt; lia).
  rewrite firstn_app, skipn_app. replace (i - length A) with 0 by lia. replace (S i - length A) with 0 by lia.
  simpl. rewrite app_nil_r. rewrite <- app_assoc. auto.
Qed.

Lemma marks_app : forall is A C, (forall r, In r is -> r < length A) -> marks is (A ++ C) = marks is A ++ C.
Proof.
  induction is; intros; simpl; auto. rewrite mark1_app by (apply H; left; auto).
  apply IHis. intros. rewrite mark1_length. apply H. right. auto.
Qed.

Lemma sweep_mark1 : forall i l, Forall clean l -> sweepl (mark1 i l) = remove_nth i l.
Proof.
  intros. unfold mark1. destruct (Nat.ltb i (length l)) eqn:L.
  - apply Nat.ltb_lt in L. rewrite sweepl_app. simpl.
    rewrite !sweepl_clean.
    + symmetry. apply remove_nth_split. auto.
    + rewrite <- (firstn_skipn (S i) l) in H. apply Forall_app in H. tauto.
    + rewrite <- (firstn_skipn i l) in H. apply Forall_app in H. tauto.
  - apply Nat.ltb_ge in L. rewrite sweepl_clean by auto. symmetry. apply remove_nth_beyond. auto.
Qed.

Lemma remove_nth_clean : forall i l, Forall clean l -> Forall clean (remove_nth i l).
Proof. intros i l H. revert i. induction H; destruct i; simpl; auto. Qed.

Lemma delpath_idx : forall l i, Forall clean l -> delpath (JArr l) (idx i) = Some (JArr (remove_nth i l)).
Proof.
  intros. unfold delpath, delpaths. cbn [mark_all]. rewrite update_mark_idx. cbn [option_map].
  rewrite delete_empty_arr, sweep_mark1; auto.
Qed.

Definition descending (is : list nat) : Prop := StronglySorted (fun a b => b < a) is.

Lemma sweep_marks_desc : forall is l, descending is -> Forall clean l ->
  sweepl (marks is l) = fold_left (fun acc i => remove_nth i acc) is l.
Proof.
  induction is as [|i rest IH]; intros l Hd Hc; simpl.
  - apply sweepl_clean. auto.
  - inversion Hd; subst. rewrite <- (IH (remove_nth i l)); auto using remove_nth_clean.
    unfold mark1 at 1. destruct (Nat.ltb i (length l)) eqn:L.
    + apply Nat.ltb_lt in L.
      assert (Hr : forall r, In r rest -> r < length (firstn i l)).
      { intros r Hr. rewrite firstn_length. rewrite Forall_forall in H2. specialize (H2 r Hr). lia. }
      rewrite remove_nth_split by auto.
      rewrite (marks_app rest (firstn i l) (JEmpty :: skipn (S i) l)) by auto.
      rewrite (marks_app rest (firstn i l) (skipn (S i) l)) by auto.
      rewrite !sweepl_app. auto.
    + apply Nat.ltb_ge in L. rewrite remove_nth_beyond by auto. auto.
Qed.

Theorem delpaths_descending : forall l is, Forall clean l -> descending is ->
  delpaths (JArr l) (map idx is) =
  fold_left (fun acc i => bind acc (fun v => delpath v (idx i))) is (Some (JArr l)).
Proof.
  intros l is Hc Hd.
  assert (Hseq : forall is l, Forall clean l ->
    fold_left (fun acc i => bind acc (fun v => delpath v (idx i))) is (Some (JArr l)) =
    Some (JArr (fold_left (fun acc i => remove_nth i acc) is l))).
  { induction is0; intros; simpl; auto. rewrite delpath_idx by auto. apply IHis0. apply remove_nth_clean. auto. }
  rewrite Hseq by auto. rewrite <- sweep_marks_desc by auto.
  destruct is as [|i rest]. { simpl. rewrite sweepl_clean; auto. }
  unfold delpaths. change (map idx (i :: rest)) with (idx i :: map idx rest).
  rewrite <- (map_cons idx). rewrite mark_all_idx. simpl. auto.
Qed.
