(* C02 — delpaths at heap level: mark every path with update (one allocator), then sweep what the
   allocator owns; on a heap with the ownership invariant this denotes Path.delpaths. *)
From Coq Require Import List ZArith NArith Bool Lia.
From Verif Require Import c02.Path c02.PathProofs c02.HeapPath c02.HeapInv c02.HeapProofs c02.HeapSlice c02.HeapInner c02.HeapAbs c02.HeapSweep.
Import ListNotations.
Open Scope nat_scope.

(* what a step of a reduction hands to the next one *)
Definition inv (h : heap) (ps : list ptr) (j : jv) (v : hval) (fp : list nat) : Prop :=
  alloc_wf ps /\ hclean h ps /\ orep h ps j v fp /\ NoDup fp.

(* everything the allocator does not reach is as before *)
Definition framed (h : heap) (ps : list ptr) (h' : heap) (ps' : list ptr) : Prop :=
  forall jx x, frep h ps jx x -> frep h' ps' jx x.

Lemma framed_refl : forall h ps, framed h ps h ps.
Proof. intros h ps jx x H. auto. Qed.
Lemma framed_trans : forall h ps h1 ps1 h2 ps2, framed h ps h1 ps1 -> framed h1 ps1 h2 ps2 -> framed h ps h2 ps2.
Proof. intros. intros jx x Hx. auto. Qed.

(* one update step, with the invariant and the frame *)
Lemma update_step : forall p h ps v j fp n jn,
  inv h ps j v fp -> frep h ps jn n -> ok_path p ->
  match Path.update j p jn with
  | None => update current h (Some ps) v p n = None
  | Some j' => exists h' ps' u fp',
      update current h (Some ps) v p n = Some (h', Some ps', u) /\ inv h' ps' j' u fp' /\ framed h ps h' ps'
  end.
Proof.
  intros p h ps v j fp n jn (Hwf & Hcl & Hr & ND) Hn Hp.
  pose proof (update_sound_ok current p eq_refl eq_refl Hp h ps v j fp n jn Hwf Hr ND Hn) as H.
  destruct (Path.update j p jn) as [j'|]; auto.
  destruct H as (h' & ps' & u & fp' & Hu & Hr' & ND' & Hpost).
  exists h', ps', u, fp'. split; auto.
  assert (Hfp : forall a, In a fp -> aaddr ps a) by (intros a Ha; apply (orep_fp _ _ _ _ _ Hr a Ha)).
  split; [|].
  - split; [|split; [|split]]; auto.
    + destruct Hpost as (_ & _ & _ & _ & _ & P6 & _). auto.
    + eapply hclean_post; eauto.
  - intros jx x Hx. eapply frame_frozen; eauto.
Qed.

Lemma frep_marker : forall h ps, frep h ps JEmpty HEmpty.
Proof. intros. split; auto. Qed.

Lemma mark_sound : forall paths h ps v j fp,
  inv h ps j v fp -> Forall ok_path paths ->
  match Path.mark_all j paths with
  | None => HeapPath.mark_all current h (Some ps) v paths = None
  | Some j' => exists h' ps' u fp',
      HeapPath.mark_all current h (Some ps) v paths = Some (h', Some ps', u) /\ inv h' ps' j' u fp' /\ framed h ps h' ps'
  end.
Proof.
  induction paths as [|p paths IH]; intros h ps v j fp Hinv Hok; simpl.
  - exists h, ps, v, fp. split; auto. split; auto. apply framed_refl.
  - inversion Hok; subst.
    pose proof (update_step p h ps v j fp HEmpty JEmpty Hinv (frep_marker h ps) H1) as Hs.
    destruct (Path.update j p JEmpty) as [j1|]; [|rewrite Hs; auto].
    destruct Hs as (h1 & ps1 & u1 & fp1 & -> & Hinv1 & Hf1).
    specialize (IH h1 ps1 u1 j1 fp1 Hinv1 H2).
    destruct (Path.mark_all j1 paths) as [j'|]; auto.
    destruct IH as (h' & ps' & u & fp' & -> & Hinv' & Hf').
    exists h', ps', u, fp'. split; auto. split; auto. eapply framed_trans; eauto.
Qed.

(* abs_delpaths: mark-then-sweep denotes Path.delpaths (all paths interpreted against the state they are
   given: markers keep every index in place until the single sweep), frames what the allocator does not
   reach, builds no cycle and keeps the invariant *)
Theorem abs_delpaths : forall paths h ps v j fp,
  inv h ps j v fp -> Forall ok_path paths ->
  match Path.delpaths j paths with
  | None => forall fuel, HeapPath.delpaths current fuel h (Some ps) v paths = None
  | Some j' => exists fuel0, forall fuel, fuel0 <= fuel ->
      exists h' ps' u fp',
        HeapPath.delpaths current fuel h (Some ps) v paths = Some (h', Some ps', u) /\
        inv h' ps' j' u fp' /\ framed h ps h' ps' /\
        (forall fuel', depth j' < fuel' -> abs fuel' h' u = Some j')
  end.
Proof.
  intros paths h ps v j fp Hinv Hok.
  destruct paths as [|p paths].
  - simpl. exists 0. intros fuel _. exists h, ps, v, fp. split; auto. split; auto. split. apply framed_refl.
    destruct Hinv as (_ & _ & Hr & _). intros. eapply orep_abs; eauto.
  - unfold Path.delpaths, HeapPath.delpaths.
    pose proof (mark_sound (p :: paths) h ps v j fp Hinv Hok) as Hm.
    destruct (Path.mark_all j (p :: paths)) as [jm|].
    + destruct Hm as (h1 & ps1 & u1 & fp1 & Hm & (Hwf1 & Hcl1 & Hr1 & ND1) & Hf1).
      cbn [option_map]. exists (S (depth jm)). intros fuel Hfuel. rewrite Hm.
      destruct (sweep_sound jm ps1 fuel u1 fp1 h1 Hwf1 ltac:(lia) Hcl1 Hr1 ND1) as (h2 & w & fp2 & Hs & Hr2 & ND2 & Hpost).
      rewrite Hs. exists h2, ps1, w, fp2. split; auto.
      assert (Hfp : forall a, In a fp1 -> aaddr ps1 a) by (intros a Ha; apply (orep_fp _ _ _ _ _ Hr1 a Ha)).
      split; [|split].
      * split; [|split; [|split]]; auto. eapply hclean_post; eauto.
      * eapply framed_trans; eauto. intros jx x Hx. eapply frame_frozen; eauto.
      * intros. eapply orep_abs; eauto.
    + intros fuel. rewrite Hm. auto.
Qed.
