(* C02 — the slice branch of update (updateArraySlice) when the slice is the LAST path component:
   `.[a:b] = x`, `.[a:b] |= f`, `del(.[a:b])` after any prefix of keys and indices. *)
From Coq Require Import List ZArith NArith Bool Lia Permutation.
From Verif Require Import c02.Path c02.PathProofs c02.HeapPath c02.HeapInv c02.HeapProofs.
Import ListNotations.
Open Scope nat_scope.

(* ---- lists ---- *)
Lemma skipn_add {X} : forall a b (l : list X), skipn a (skipn b l) = skipn (b + a) l.
Proof. induction b; simpl; intros; auto. destruct l; auto. destruct a; auto. Qed.

Lemma split3 {X} : forall (l : list X) st en, st <= en ->
  l = firstn st l ++ firstn (en - st) (skipn st l) ++ skipn en l.
Proof.
  intros. rewrite <- (firstn_skipn st l) at 1. f_equal.
  rewrite <- (firstn_skipn (en - st) (skipn st l)) at 1. f_equal.
  rewrite skipn_add. f_equal. lia.
Qed.

Lemma set_list_twice {X} : forall (l : list X) i x y, set_list (set_list l i x) i y = set_list l i y.
Proof. induction l; destruct i; simpl; intros; auto. f_equal. auto. Qed.

Lemma set_list_mid {X} : forall (P : list X) q Q x, set_list (P ++ q :: Q) (length P) x = P ++ x :: Q.
Proof. induction P; simpl; intros; auto. f_equal. auto. Qed.

(* copy(dst[|P|:], xs) over a window Q of the same length *)
Lemma write_cells_mid : forall xs h a P Q R, a < length h -> length xs = length Q ->
  nth_error h a = Some (OArr (P ++ Q ++ R)) ->
  write_cells h a (length P) xs = set_list h a (OArr (P ++ xs ++ R)).
Proof.
  induction xs as [|x xs IH]; intros h a P Q R Ha Hl Hn.
  - destruct Q; try discriminate. simpl in *. 
    assert (set_list h a (OArr (P ++ R)) = h).
    { clear -Hn. revert a Hn. induction h as [|o h IHh]; intros [|a] Hn; simpl in *; try discriminate.
      - inversion Hn; auto.
      - f_equal. auto. }
    congruence.
  - destruct Q as [|q Q]; try discriminate. simpl in Hl. cbn [write_cells].
    rewrite (write_cell_eq _ _ (P ++ (q :: Q) ++ R)) by auto.
    change (P ++ (q :: Q) ++ R) with (P ++ q :: (Q ++ R)). rewrite set_list_mid.
    replace (S (length P)) with (length (P ++ [x])) by (rewrite app_length; simpl; lia).
    rewrite (IH _ a (P ++ [x]) Q R).
    + rewrite set_list_twice. rewrite <- !app_assoc. auto.
    + rewrite set_list_length. auto.
    + lia.
    + rewrite nth_error_set_list_same by auto. rewrite <- !app_assoc. auto.
Qed.

Lemma repeat_app_len {X} (d : X) : forall a b, repeat d (a + b) = repeat d a ++ repeat d b.
Proof. intros. apply repeat_app. Qed.

(* ---- slice bounds ---- *)
Lemma clamp_range : forall i lo hi, (lo <= hi)%Z -> (lo <= clamp i lo hi <= hi)%Z.
Proof.
  intros. unfold clamp. destruct (i <? 0)%Z;
  repeat match goal with |- context [if ?c then _ else _] => destruct c eqn:? end; lia.
Qed.

Lemma slice_bounds_gen_range : forall fs fe s e n st en, (0 <= n)%Z -> slice_bounds_gen fs fe s e n = (st, en) ->
  (0 <= st <= en)%Z /\ (en <= n)%Z.
Proof.
  intros fs fe s e n st en Hn H. unfold slice_bounds_gen in H. inversion H; subst; clear H.
  assert (0 <= match s with Some b => clamp (fs b) 0 n | None => 0 end <= n)%Z.
  { destruct s; [apply clamp_range|]; lia. }
  destruct e as [b|]; [pose proof (clamp_range (fe b) _ n (proj2 H))|]; lia.
Qed.

Lemma slice_bounds_range : forall s e n st en, (0 <= n)%Z -> slice_bounds_write s e n = (st, en) ->
  (0 <= st <= en)%Z /\ (en <= n)%Z.
Proof. intros. eapply slice_bounds_gen_range; eauto. Qed.

Lemma slice_bounds_read_range : forall s e n st en, (0 <= n)%Z -> slice_bounds_read s e n = (st, en) ->
  (0 <= st <= en)%Z /\ (en <= n)%Z.
Proof. intros. eapply slice_bounds_gen_range; eauto. Qed.

(* ---- updateArraySlice with nothing after the slice: the resliced window is not used ---- *)
Definition slice_write (h : heap) (A : alloc) (v : hval) (st en : nat) (n : hval) : option (heap * alloc * hval) :=
  match n with
  | HArr _ _ _ _ | HNilArr =>
      let ulen := hlen n in
      if Nat.eqb ulen (en - st) && allocated A v then
        match v with
        | HArr a off _ _ => Some (write_cells h a (off + st) (elems h n), A, v)
        | _ => None
        end
      else
        let src := elems h v in
        let us := elems h n in
        let '(h2, A2, w) := make_array h A (hlen v - (en - st) + ulen) 0 in
        match w with
        | HArr b _ _ _ =>
            Some (write_cells (write_cells (write_cells h2 b 0 (firstn st src)) b (st + ulen) (skipn en src)) b st us, A2, w)
        | _ => None
        end
  | HEmpty =>
      if allocated A v then
        match v with
        | HArr a off _ _ => Some (write_cells h a (off + st) (repeat HEmpty (en - st)), A, v)
        | _ => None
        end
      else
        let src := elems h v in
        let '(h2, A2, w) := make_array h A (hlen v) 0 in
        match w with
        | HArr b _ _ _ => Some (write_cells (write_cells h2 b 0 src) b st (repeat HEmpty (en - st)), A2, w)
        | _ => None
        end
  | _ => None
  end.

Lemma update_slice_last_eq : forall cfg h A v s e n,
  update cfg h A v [PS s e] n =
  match v with
  | HNull | HNilArr | HArr _ _ _ _ =>
      let '(st, en) := slice_bounds_write s e (Z.of_nat (hlen v)) in
      let st := Z.to_nat st in let en := Z.to_nat en in
      if Nat.eqb st en && h_is_empty n then Some (h, A, norm_nil v)
      else slice_write h A v st en n
  | HEmpty => Some (h, A, v)
  | _ => None
  end.
Proof.
  intros. destruct v; try reflexivity; cbn [update];
    destruct (slice_bounds_write s e (Z.of_nat (hlen _))) as [st en];
    destruct (Nat.eqb (Z.to_nat st) (Z.to_nat en) && h_is_empty n); try reflexivity;
    destruct n; reflexivity.
Qed.

(* ---- facts about the node ---- *)
Lemma node_facts : forall h ps js v E fps fp,
  arr_node h ps js v E fps fp -> NoDup fp ->
  reps3 (orep h ps) js E fps /\ NoDup (concat fps) /\ (forall a, In a (concat fps) -> In a fp /\ a < length h).
Proof.
  intros h ps js v E fps fp Hnode ND. split; [|split].
  - destruct Hnode as [(_ & -> & -> & -> & _) | (a & off & len & cap & cells & _ & _ & _ & _ & S & _)]; simpl; auto.
  - destruct Hnode as [(_ & _ & _ & -> & _) | (a & off & len & cap & cells & _ & _ & _ & _ & _ & [(_ & -> & _) | (_ & _ & _ & ->)])];
      try constructor. inversion ND; auto.
  - destruct Hnode as [(_ & _ & _ & -> & _) | (a & off & len & cap & cells & -> & Hn & Hl & -> & Hc & [(_ & -> & _) | (Hp & -> & -> & ->)])];
      try (intros ? []).
    intros a0 Ha0. split; [right; auto|].
    assert (orep h ps (JArr js) (HArr a 0 len (length cells)) (a :: concat fps)).
    { apply orep_arr. exists a, 0, len, (length cells), cells, fps. repeat split; auto; try (right; auto 6). }
    eapply orep_fp; eauto. right; auto.
Qed.

Lemma concat_firstn_in : forall (fps : list (list nat)) n a, In a (concat (firstn n fps)) -> In a (concat fps).
Proof. intros. rewrite <- (firstn_skipn n fps), concat_app, in_app_iff. auto. Qed.
Lemma concat_skipn_in : forall (fps : list (list nat)) n a, In a (concat (skipn n fps)) -> In a (concat fps).
Proof. intros. rewrite <- (firstn_skipn n fps), concat_app, in_app_iff. auto. Qed.

Lemma in_concat_splice : forall (fps fu : list (list nat)) st en a, concat fu = [] ->
  In a (concat (firstn st fps ++ fu ++ skipn en fps)) -> In a (concat fps).
Proof.
  intros fps fu st en a Hfu. rewrite !concat_app, Hfu, !in_app_iff. simpl.
  intros [H|[[]|H]]; [eapply concat_firstn_in | eapply concat_skipn_in]; eauto.
Qed.

Lemma NoDup_concat_splice : forall (fps fu : list (list nat)) st en, st <= en -> concat fu = [] ->
  NoDup (concat fps) -> NoDup (concat (firstn st fps ++ fu ++ skipn en fps)).
Proof.
  intros fps fu st en Hse Hfu ND. rewrite !concat_app, Hfu. simpl.
  rewrite (split3 fps st en Hse) in ND. rewrite !concat_app in ND.
  apply nodup_app in ND as (N1 & N2 & D). apply nodup_app in N2 as (_ & N3 & _).
  apply nodup_app. repeat split; auto. intros a Ha Hb. apply (D a Ha). rewrite in_app_iff. auto.
Qed.

(* the children after the splice, transported along a frame *)
Lemma reps3_splice : forall (R R' : jv -> hval -> list nat -> Prop) js E fps ju us fu st en,
  reps3 R js E fps -> reps3 R ju us fu ->
  (forall j x f, R j x f -> In f fps \/ In f fu -> R' j x f) ->
  reps3 R' (firstn st js ++ ju ++ skipn en js) (firstn st E ++ us ++ skipn en E) (firstn st fps ++ fu ++ skipn en fps).
Proof.
  intros R R' js E fps ju us fu st en H1 H2 HR.
  apply reps3_app.
  { eapply reps3_mono_in; [|apply reps3_firstn; exact H1]. rewrite Forall_forall. intros x _ y z Hz Hr.
    apply HR; auto. left. eapply In_firstn; eauto. }
  apply reps3_app.
  { eapply reps3_mono_in; [|exact H2]. rewrite Forall_forall. intros x _ y z Hz Hr. apply HR; auto. }
  eapply reps3_mono_in; [|apply reps3_skipn; exact H1]. rewrite Forall_forall. intros x _ y z Hz Hr.
  apply HR; auto. left. eapply In_skipn; eauto.
Qed.

Lemma fu_nil : forall (fu : list (list nat)) f, concat fu = [] -> In f fu -> f = [].
Proof.
  induction fu; simpl; intros; try tauto. apply app_eq_nil in H as [H1 H2]. destruct H0; subst; auto.
Qed.

(* the spliced array is built in a fresh allocated array *)
Lemma splice_fresh : forall h ps js v E fps fp ju us fu st en,
  alloc_wf ps -> arr_node h ps js v E fps fp -> NoDup fp -> st <= en ->
  reps3 (orep h ps) ju us fu -> concat fu = [] ->
  let EN := firstn st E ++ us ++ skipn en E in
  let b := length h in
  let h' := h ++ [OArr EN] in
  let ps' := PArr b 0 :: ps in
  let fp' := b :: concat (firstn st fps ++ fu ++ skipn en fps) in
  orep h' ps' (JArr (firstn st js ++ ju ++ skipn en js)) (HArr b 0 (length EN) (length EN)) fp' /\
  NoDup fp' /\ post h ps fp h' ps' fp'.
Proof.
  intros h ps js v E fps fp ju us fu st en Hwf Hnode ND Hse Hu Hfu EN b h' ps' fp'.
  destruct (node_facts _ _ _ _ _ _ _ Hnode ND) as (Hrep & NDc & Hcl).
  assert (Hold : forall a0, a0 < length h -> nth_error h' a0 = nth_error h a0).
  { intros. unfold h'. apply nth_error_app1. auto. }
  assert (Haddr : forall a0, aaddr ps' a0 -> aaddr ps a0 \/ length h <= a0).
  { intros a0 [(off & [H|H]) | [H|H]]; try discriminate.
    - inversion H; subst. right. unfold b. lia.
    - left. left. eauto.
    - left. right. auto. }
  assert (Hframe : forall j x f, orep h ps j x f -> orep h' ps' j x f).
  { intros. apply orep_frame with (h := h) (ps := ps); auto. intros p Hp. right. auto. }
  split; [|split].
  - apply orep_arr. exists b, 0, (length EN), (length EN), EN, (firstn st fps ++ fu ++ skipn en fps).
    split; [reflexivity|]. split. { unfold h', b. apply nth_error_app_last. }
    split. { lia. }
    split. { rewrite skipn_O, firstn_all. apply (reps3_splice (orep h ps)); auto. }
    right. split. { left. auto. } split; auto.
  - constructor.
    + intro Hc. apply in_concat_splice in Hc; auto. apply Hcl in Hc. unfold b in Hc. lia.
    + apply NoDup_concat_splice; auto.
  - apply post_intro.
    + unfold h'. rewrite app_length. simpl. lia.
    + intros. apply Hold. auto.
    + intros p Hp. right. auto.
    + exact Haddr.
    + intros a0 [<-|Hc]. { right. unfold b. lia. } apply in_concat_splice in Hc; auto. left. apply Hcl. auto.
    + intros a0 off [H|H]; [inversion H; auto | eapply Hwf; eauto].
    + intros a0 Hge Hlt. unfold h' in Hlt. rewrite app_length in Hlt. simpl in Hlt.
      assert (a0 = b) by (unfold b; lia). subst a0. left. exists 0. left. auto.
Qed.

(* the splice is written in place into the allocated array *)
Lemma splice_inplace : forall h ps js a len cells fps ju us fu st en,
  alloc_wf ps ->
  nth_error h a = Some (OArr cells) -> len <= length cells -> In (PArr a 0) ps ->
  reps3 (orep h ps) js (firstn len cells) fps -> NoDup (a :: concat fps) ->
  st <= en -> en <= len -> length us = en - st ->
  reps3 (orep h ps) ju us fu -> concat fu = [] ->
  let cells' := firstn st cells ++ us ++ skipn en cells in
  let h' := set_list h a (OArr cells') in
  let fp' := a :: concat (firstn st fps ++ fu ++ skipn en fps) in
  orep h' ps (JArr (firstn st js ++ ju ++ skipn en js)) (HArr a 0 len (length cells)) fp' /\
  NoDup fp' /\ post h ps (a :: concat fps) h' ps fp'.
Proof.
  intros h ps js a len cells fps ju us fu st en Hwf Hn Hl Hp Hrep ND Hse Hel Hus Hu Hfu cells' h' fp'.
  pose proof (nth_error_lt _ _ _ Hn) as Ha.
  assert (Hafps : ~ In a (concat fps)) by (inversion ND; auto).
  assert (NDc : NoDup (concat fps)) by (inversion ND; auto).
  set (E := firstn len cells) in *.
  assert (HE : length E = len) by (unfold E; rewrite firstn_length; lia).
  assert (Hcells : cells = E ++ skipn len cells) by (unfold E; symmetry; apply firstn_skipn).
  assert (Hc' : cells' = (firstn st E ++ us ++ skipn en E) ++ skipn len cells).
  { unfold cells'. rewrite Hcells at 1 2.
    rewrite firstn_app. replace (st - length E) with 0 by lia. rewrite firstn_O, app_nil_r.
    rewrite skipn_app. replace (en - length E) with 0 by lia. rewrite skipn_O.
    rewrite <- !app_assoc. auto. }
  assert (HlenEN : length (firstn st E ++ us ++ skipn en E) = len).
  { rewrite !app_length, firstn_length, skipn_length. lia. }
  assert (Hlc : length cells' = length cells).
  { rewrite Hc', app_length, HlenEN, skipn_length. lia. }
  assert (Hother : forall a0, a0 <> a -> nth_error h' a0 = nth_error h a0).
  { intros. unfold h'. apply nth_error_set_list_other. auto. }
  assert (Hframe : forall j x f, orep h ps j x f -> (forall a0, In a0 f -> a0 <> a) -> orep h' ps j x f).
  { intros j x f Hr Hne. apply orep_frame with (h := h) (ps := ps); auto.
    intros a0 Ha0 [Hna|Hin]; apply Hother.
    - intro Heq; subst a0. apply Hna. left. eauto.
    - apply Hne. auto. }
  split; [|split].
  - apply orep_arr. exists a, 0, len, (length cells), cells', (firstn st fps ++ fu ++ skipn en fps).
    split; [reflexivity|]. split. { unfold h'. apply nth_error_set_list_same. auto. }
    split. { lia. }
    split.
    + rewrite skipn_O, Hc'. rewrite firstn_app_exact by auto.
      apply (reps3_splice (orep h ps)); auto.
      intros j x f Hr [Hin|Hin]; apply Hframe; auto.
      * intros a0 Ha0 Heq. subst a0. apply Hafps. eapply in_concat_of; eauto.
      * rewrite (fu_nil _ _ Hfu Hin). intros ? [].
    + right. split; auto.
  - constructor.
    + intro Hc. apply in_concat_splice in Hc; auto.
    + apply NoDup_concat_splice; auto.
  - apply post_intro; auto.
    + unfold h'. rewrite set_list_length. auto.
    + intros a0 Ha0 Hnin. apply Hother. intro Heq; subst a0. apply Hnin. left. auto.
    + intros a0 [<-|Hc]. { left; left; auto. } apply in_concat_splice in Hc; auto. left. right. auto.
    + intros a0 Hge Hlt. unfold h' in Hlt. rewrite set_list_length in Hlt. lia.
Qed.

(* ---- the three copies into the fresh array ---- *)
Lemma write_mid_fresh : forall h (P Q R xs : list hval), length xs = length Q ->
  write_cells (h ++ [OArr (P ++ Q ++ R)]) (length h) (length P) xs = h ++ [OArr (P ++ xs ++ R)].
Proof.
  intros. rewrite (write_cells_mid xs _ (length h) P Q R); auto.
  - apply set_list_app_last.
  - rewrite app_length. simpl. lia.
  - apply nth_error_app_last.
Qed.

Lemma fresh3 : forall h (A U T : list hval),
  write_cells (write_cells (write_cells (h ++ [OArr (repeat HNull (length A + length U + length T))])
                                        (length h) 0 A) (length h) (length A + length U) T) (length h) (length A) U =
  h ++ [OArr (A ++ U ++ T)].
Proof.
  intros. rewrite !repeat_app.
  pose proof (write_mid_fresh h [] (repeat HNull (length A)) (repeat HNull (length U) ++ repeat HNull (length T)) A) as W1.
  simpl in W1. rewrite <- app_assoc. rewrite W1 by (rewrite repeat_length; auto).
  pose proof (write_mid_fresh h (A ++ repeat HNull (length U)) (repeat HNull (length T)) [] T) as W2.
  rewrite app_length, !repeat_length, <- app_assoc in W2. rewrite app_nil_r in W2.
  rewrite W2 by auto.
  pose proof (write_mid_fresh h A (repeat HNull (length U)) (T ++ []) U) as W3.
  rewrite app_nil_r in W3. rewrite app_nil_r, <- app_assoc. rewrite W3 by (rewrite repeat_length; auto). auto.
Qed.

Lemma fresh2 : forall h (A Q M T : list hval), length M = length Q ->
  write_cells (write_cells (h ++ [OArr (repeat HNull (length (A ++ Q ++ T)))]) (length h) 0 (A ++ Q ++ T))
              (length h) (length A) M =
  h ++ [OArr (A ++ M ++ T)].
Proof.
  intros.
  pose proof (write_mid_fresh h [] (repeat HNull (length (A ++ Q ++ T))) [] (A ++ Q ++ T)) as W1.
  simpl in W1. rewrite app_nil_r in W1. rewrite W1 by (rewrite repeat_length; auto).
  rewrite app_nil_r. apply write_mid_fresh. auto.
Qed.

Lemma write_cells_window : forall h a cells st en xs,
  nth_error h a = Some (OArr cells) -> st <= en -> en <= length cells -> length xs = en - st ->
  write_cells h a st xs = set_list h a (OArr (firstn st cells ++ xs ++ skipn en cells)).
Proof.
  intros h a cells st en xs Hn Hse Hel Hx.
  pose proof (split3 cells st en Hse) as Sp.
  pose proof (write_cells_mid xs h a (firstn st cells) (firstn (en - st) (skipn st cells)) (skipn en cells)) as W.
  replace (length (firstn st cells)) with st in W by (rewrite firstn_length; lia).
  apply W.
  - eapply nth_error_lt; eauto.
  - rewrite firstn_length, skipn_length. lia.
  - rewrite <- Sp. auto.
Qed.

Lemma reps3_markers : forall h ps k, reps3 (orep h ps) (repeat JEmpty k) (repeat HEmpty k) (repeat [] k).
Proof. intros. apply reps3_repeat. split; auto. Qed.

Lemma node_alloc_cases : forall h ps js v E fps fp, arr_node h ps js v E fps fp ->
  (allocated (Some ps) v = true /\ exists a len cells, v = HArr a 0 len (length cells) /\
     nth_error h a = Some (OArr cells) /\ len <= length cells /\ E = firstn len cells /\ In (PArr a 0) ps /\
     fp = a :: concat fps) \/
  (allocated (Some ps) v = false).
Proof.
  intros h ps js v E fps fp [(-> & _) | (a & off & len & cap & cells & -> & Hn & Hl & -> & Hc & [(Hna & _) | (Hp & -> & -> & ->)])].
  - right. reflexivity.
  - right. destruct (allocated (Some ps) (HArr a off len cap)) eqn:Eq; auto.
    apply allocated_arr in Eq. exfalso. apply Hna. left. eauto.
  - left. split. { apply allocated_arr. auto. }
    exists a, len, cells. simpl in Hl. rewrite skipn_O. repeat split; auto.
Qed.

Lemma sound_slice_last : forall cfg s e, sound_at cfg [PS s e].
Proof.
  intros cfg s e h ps v j fp n jn Hwf Hr ND Hn.
  rewrite update_slice_last_eq.
  pose proof (orep_is_empty _ _ _ _ _ Hn) as Hemp.
  assert (Hmain : forall js E fps, arr_node h ps js v E fps fp -> elems h v = E -> hlen v = length js ->
    norm_nil v = v -> (j = JNull \/ j = JArr js) ->
    match
      (let '(st, en) := slice_bounds_write s e (zlen js) in
       if (st =? en)%Z && is_empty jn then Some j
       else match jn with
            | JArr u => Some (JArr (firstn (Z.to_nat st) js ++ u ++ skipn (Z.to_nat en) js))
            | JEmpty => Some (JArr (firstn (Z.to_nat st) js ++ repeat JEmpty (Z.to_nat (en - st)) ++ skipn (Z.to_nat en) js))
            | _ => None
            end)
    with
    | None =>
        (let '(st, en) := slice_bounds_write s e (Z.of_nat (hlen v)) in
         let st := Z.to_nat st in let en := Z.to_nat en in
         if Nat.eqb st en && h_is_empty n then Some (h, Some ps, norm_nil v)
         else slice_write h (Some ps) v st en n) = None
    | Some j' => exists h' ps' u fp',
        (let '(st, en) := slice_bounds_write s e (Z.of_nat (hlen v)) in
         let st := Z.to_nat st in let en := Z.to_nat en in
         if Nat.eqb st en && h_is_empty n then Some (h, Some ps, norm_nil v)
         else slice_write h (Some ps) v st en n) = Some (h', Some ps', u) /\
        orep h' ps' j' u fp' /\ NoDup fp' /\ post h ps fp h' ps' fp'
    end).
  { intros js E fps Hnode Hel Hhl Hnn Hj.
    destruct (node_facts _ _ _ _ _ _ _ Hnode ND) as (Hrep & NDc & Hcl).
    destruct (reps3_length _ _ _ _ Hrep) as [L1 L2].
    unfold zlen. rewrite Hhl, Hnn.
    destruct (slice_bounds_write s e (Z.of_nat (length js))) as [zs ze] eqn:SB.
    destruct (slice_bounds_range _ _ _ _ _ (Nat2Z.is_nonneg _) SB) as [[B1 B2] B3].
    set (st := Z.to_nat zs). set (en := Z.to_nat ze).
    assert (Hse : st <= en) by (unfold st, en; lia).
    assert (Hel' : en <= length E) by (unfold en; lia).
    replace (zs =? ze)%Z with (Nat.eqb st en).
    2:{ unfold st, en. destruct (Nat.eqb (Z.to_nat zs) (Z.to_nat ze)) eqn:Q.
        - apply Nat.eqb_eq in Q. symmetry. apply Z.eqb_eq. lia.
        - apply Nat.eqb_neq in Q. symmetry. apply Z.eqb_neq. lia. }
    rewrite <- Hemp.
    destruct (Nat.eqb st en && is_empty jn) eqn:Early.
    { exists h, ps, v, fp. split; auto. split. { destruct Hj as [-> | ->]; auto. } split; auto. apply post_refl; auto. }
    destruct jn; try (destruct Hn as [-> _]; reflexivity).
    - (* deletion marker *)
      destruct Hn as [-> _]. simpl in Early. rewrite andb_true_r in Early. apply Nat.eqb_neq in Early.
      replace (Z.to_nat (ze - zs)) with (en - st) by (unfold st, en; lia).
      pose proof (reps3_markers h ps (en - st)) as Hm.
      assert (Hmc : concat (repeat (@nil nat) (en - st)) = []) by apply concat_repeat_nil.
      unfold slice_write.
      destruct (node_alloc_cases _ _ _ _ _ _ _ Hnode) as [(Ha & a & len & cells & -> & Hna & Hl & -> & Hp & ->) | Ha]; rewrite Ha.
      + (* in place *)
        rewrite firstn_length in Hel'.
        destruct (splice_inplace h ps js a len cells fps _ _ _ st en Hwf Hna Hl Hp Hrep ND Hse ltac:(lia)
                    ltac:(apply repeat_length) Hm Hmc) as (R1 & R2 & R3).
        do 4 eexists. split; [|split; [exact R1|split; [exact R2|exact R3]]].
        f_equal. f_equal. f_equal. cbn [Nat.add].
        apply write_cells_window; auto. lia. apply repeat_length.
      + (* fresh copy *)
        unfold make_array, register. rewrite Hel. rewrite Nat.max_0_r.
        pose proof (split3 E st en Hse) as Sp.
        assert (Hlq : length (repeat HEmpty (en - st)) = length (firstn (en - st) (skipn st E))).
        { rewrite repeat_length, firstn_length, skipn_length. lia. }
        pose proof (fresh2 h (firstn st E) _ (repeat HEmpty (en - st)) (skipn en E) Hlq) as F.
        rewrite <- Sp in F. rewrite firstn_length in F. replace (Nat.min st (length E)) with st in F by lia.
        replace (hlen v) with (length E) by lia. rewrite F.
        destruct (splice_fresh h ps js v E fps fp _ _ _ st en Hwf Hnode ND Hse Hm Hmc) as (R1 & R2 & R3).
        assert (HlE : length (firstn st E ++ repeat HEmpty (en - st) ++ skipn en E) = length E).
        { rewrite !app_length, firstn_length, repeat_length, skipn_length. lia. }
        rewrite HlE in R1.
        do 4 eexists. split; [reflexivity|]. split; [exact R1|split; [exact R2|exact R3]].
    - (* an array is spliced in *)
      apply orep_arr in Hn as (a' & off' & len' & cap' & cells' & fu & -> & Hn' & Hl' & Hcu & Hcase).
      assert (Hfu : concat fu = []).
      { destruct Hcase as [(_ & Hc & _) | (_ & _ & _ & Hc)]; [auto | discriminate]. }
      set (us := firstn len' (skipn off' cells')) in *.
      assert (Hus : length us = len') by (unfold us; rewrite firstn_length, skipn_length; lia).
      unfold slice_write. cbn [hlen elems]. rewrite (cells_of_nth _ _ _ Hn'). fold us.
      destruct (node_alloc_cases _ _ _ _ _ _ _ Hnode) as [(Ha & a & len & cells & -> & Hna & Hl & -> & Hp & ->) | Ha]; rewrite Ha.
      + destruct (Nat.eqb len' (en - st)) eqn:Q; cbn [andb].
        * (* in place *)
          apply Nat.eqb_eq in Q. rewrite firstn_length in Hel'.
          assert (Hus' : length us = en - st) by lia.
          destruct (splice_inplace h ps js a len cells fps _ us fu st en Hwf Hna Hl Hp Hrep ND Hse ltac:(lia)
                      Hus' Hcu Hfu) as (R1 & R2 & R3).
          do 4 eexists. split; [|split; [exact R1|split; [exact R2|exact R3]]].
          f_equal. f_equal. f_equal. cbn [Nat.add].
          apply write_cells_window; auto; lia.
        * (* allocated, but the length changes: fresh array *)
          unfold make_array, register. rewrite Nat.max_0_r. rewrite Hel.
          set (E := firstn len cells) in *.
          pose proof (fresh3 h (firstn st E) us (skipn en E)) as F.
          rewrite firstn_length, skipn_length in F. replace (Nat.min st (length E)) with st in F by lia.
          replace (hlen (HArr a 0 len (length cells)) - (en - st) + len') with (st + length us + (length E - en)) by (simpl in *; lia).
          replace (st + len') with (st + length us) by lia. rewrite F.
          destruct (splice_fresh h ps js _ E fps _ _ _ _ st en Hwf Hnode ND Hse Hcu Hfu) as (R1 & R2 & R3).
          assert (HlE : length (firstn st E ++ us ++ skipn en E) = st + length us + (length E - en)).
          { rewrite !app_length, firstn_length, skipn_length. lia. }
          rewrite HlE in R1.
          do 4 eexists. split; [reflexivity|]. split; [exact R1|split; [exact R2|exact R3]].
      + rewrite andb_false_r.
        unfold make_array, register. rewrite Nat.max_0_r. rewrite Hel.
        pose proof (fresh3 h (firstn st E) us (skipn en E)) as F.
        rewrite firstn_length, skipn_length in F. replace (Nat.min st (length E)) with st in F by lia.
        replace (hlen v - (en - st) + len') with (st + length us + (length E - en)) by lia.
        replace (st + len') with (st + length us) by lia. rewrite F.
        destruct (splice_fresh h ps js v E fps fp _ _ _ st en Hwf Hnode ND Hse Hcu Hfu) as (R1 & R2 & R3).
        assert (HlE : length (firstn st E ++ us ++ skipn en E) = st + length us + (length E - en)).
        { rewrite !app_length, firstn_length, skipn_length. lia. }
        rewrite HlE in R1.
        do 4 eexists. split; [reflexivity|]. split; [exact R1|split; [exact R2|exact R3]].
    - (* an object cannot be spliced *)
      apply orep_obj in Hn as (a' & kvs & fu & -> & _). reflexivity. }
  destruct j; cbn [Path.update].
  - destruct Hr as [-> ->]. apply (Hmain [] [] []); auto. left. auto 6.
  - destruct Hr as [-> _]. auto.
  - destruct Hr as [-> _]. auto.
  - destruct Hr as [-> _]. auto.
  - destruct Hr as [-> ->]. exists h, ps, HEmpty, []. repeat split; auto; try constructor; try (intros; simpl in *; tauto); try (intros; lia).
  - pose proof Hr as Hr0.
    apply orep_arr in Hr as (a & off & len & cap & cells & fps & -> & Hna & Hl & Hc & Hcase).
    destruct (reps3_length _ _ _ _ Hc) as [L1 L2].
    apply (Hmain l (firstn len (skipn off cells)) fps); auto.
    + right. exists a, off, len, cap, cells. auto 8.
    + simpl. rewrite (cells_of_nth _ _ _ Hna). auto.
    + simpl. rewrite L1, firstn_length, skipn_length. lia.
  - apply orep_obj in Hr as (a & kvs & fps & -> & _). auto.
Qed.

(* ---- paths of keys, indices and slices in which a slice is the last component or is followed by an
   index: `.a[1:]`, `.[2:4][0].b[1:]`, ... (a slice directly followed by another slice is excluded) ---- *)
Inductive ok_path : path -> Prop :=
| ok_nil : ok_path []
| ok_last : forall s e, ok_path [PS s e]
| ok_key : forall k r, ok_path r -> ok_path (PK k :: r)
| ok_idx : forall i r, ok_path r -> ok_path (PI i :: r)
| ok_slice_idx : forall s e i r, ok_path r -> ok_path (PS s e :: PI i :: r).

Lemma no_slice_ok : forall p, no_slice p -> ok_path p.
Proof.
  induction p as [|c p IH]; intros H; [constructor|]. inversion H; subst.
  destruct c; simpl in H2; try contradiction; constructor; auto.
Qed.
