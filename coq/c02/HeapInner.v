(* C02 — a slice component followed by an index: `.[a:b][i]...`.  update works through the window
   v[start:end:end] of the array (a sub-slice header over the same backing array) and splices the result back.
   Paths in which a slice is directly followed by ANOTHER slice stay open (HeapWitness/props). *)
From Coq Require Import List ZArith NArith Bool Lia Permutation.
From Verif Require Import c02.Path c02.PathProofs c02.HeapPath c02.HeapInv c02.HeapProofs c02.HeapSlice.
Import ListNotations.
Open Scope nat_scope.

(* ---- updateArraySlice in general: the recursive call on the window, then the splice ---- *)
Lemma update_slice_eq : forall cfg h A v s e rest n,
  update cfg h A v (PS s e :: rest) n =
  match v with
  | HNull | HNilArr | HArr _ _ _ _ =>
      let '(st, en) := slice_bounds s e (Z.of_nat (hlen v)) in
      let st := Z.to_nat st in let en := Z.to_nat en in
      if Nat.eqb st en && h_is_empty n then Some (h, A, norm_nil v)
      else match update cfg h A (reslice cfg.(three_index) v st en) rest n with
           | None => None
           | Some (h1, A1, u) => slice_write h1 A1 v st en u
           end
  | HEmpty => Some (h, A, v)
  | _ => None
  end.
Proof.
  intros. destruct v; try reflexivity; cbn [update];
    destruct (slice_bounds s e (Z.of_nat (hlen _))) as [st en];
    destruct (Nat.eqb (Z.to_nat st) (Z.to_nat en) && h_is_empty n); try reflexivity;
    destruct (update cfg h A _ rest n) as [[[h1 A1] u]|]; try reflexivity; destruct u; reflexivity.
Qed.

(* ---- two steps in a row ---- *)
Lemma post_trans : forall h ps F h1 ps1 F1 G h2 ps2 F2,
  post h ps F h1 ps1 F1 -> post h1 ps1 G h2 ps2 F2 ->
  (forall a, In a G -> In a F \/ length h <= a) ->
  post h ps F h2 ps2 F2.
Proof.
  intros h ps F h1 ps1 F1 G h2 ps2 F2 (P1 & P2 & P3 & P4 & P5 & P6 & P7) (Q1 & Q2 & Q3 & Q4 & Q5 & Q6 & Q7) HG.
  apply post_intro; auto.
  - lia.
  - intros a Ha Hn. rewrite Q2; auto. lia. intro Hg. destruct (HG _ Hg); auto. lia.
  - intros a Ha. destruct (Q4 _ Ha) as [H|H]. { destruct (P4 _ H); auto. } right. lia.
  - intros a Ha. destruct (Q5 _ Ha) as [H|H]. { apply HG. auto. } right. lia.
  - intros a Hge Hlt. destruct (Nat.lt_ge_cases a (length h1)).
    + destruct (P7 a Hge H) as [(off & Ho)|Ho]; [left; exists off|right]; auto.
    + apply Q7; auto.
Qed.

(* ---- splicing OWNED elements (the children of the array the recursive call returned) ---- *)
Lemma reps3_concat_fp : forall h ps js xs fps a, reps3 (orep h ps) js xs fps -> In a (concat fps) -> aaddr ps a /\ a < length h.
Proof.
  intros h ps js xs fps a Hr Hin. apply in_concat in Hin as (f & Hf & Ha).
  destruct (reps3_In_fp _ _ _ _ _ Hr Hf) as (j & x & _ & Ho). eapply orep_fp; eauto.
Qed.

Lemma splice_fp_cases : forall (fps fu : list (list nat)) st en a,
  In a (concat (firstn st fps ++ fu ++ skipn en fps)) -> In a (concat fps) \/ In a (concat fu).
Proof.
  intros fps fu st en a. rewrite !concat_app, !in_app_iff. intros [H|[H|H]]; auto.
  - left. eapply concat_firstn_in; eauto.
  - left. eapply concat_skipn_in; eauto.
Qed.

Lemma splice_fresh_g : forall h ps js (E : list hval) fps ju us fu st en FP,
  alloc_wf ps -> reps3 (orep h ps) js E fps -> reps3 (orep h ps) ju us fu ->
  NoDup (concat (firstn st fps ++ fu ++ skipn en fps)) ->
  (forall a0, In a0 (concat (firstn st fps ++ fu ++ skipn en fps)) -> In a0 FP) ->
  let EN := firstn st E ++ us ++ skipn en E in
  let b := length h in
  let h' := h ++ [OArr EN] in
  let ps' := PArr b 0 :: ps in
  let fp' := b :: concat (firstn st fps ++ fu ++ skipn en fps) in
  orep h' ps' (JArr (firstn st js ++ ju ++ skipn en js)) (HArr b 0 (length EN) (length EN)) fp' /\
  NoDup fp' /\ post h ps FP h' ps' fp'.
Proof.
  intros h ps js E fps ju us fu st en FP Hwf Hrep Hu ND HFP EN b h' ps' fp'.
  assert (Hlt : forall a0, In a0 (concat (firstn st fps ++ fu ++ skipn en fps)) -> a0 < length h).
  { intros a0 Hin. destruct (splice_fp_cases _ _ _ _ _ Hin) as [H|H].
    - apply (reps3_concat_fp _ _ _ _ _ _ Hrep) in H. tauto.
    - apply (reps3_concat_fp _ _ _ _ _ _ Hu) in H. tauto. }
  assert (Hold : forall a0, a0 < length h -> nth_error h' a0 = nth_error h a0).
  { intros. unfold h'. apply nth_error_app1. auto. }
  assert (Haddr : forall a0, aaddr ps' a0 -> aaddr ps a0 \/ length h <= a0).
  { intros a0 [(off & [H|H]) | [H|H]]; try discriminate.
    - inversion H; subst. right. unfold b. lia.
    - left. left. eauto.
    - left. right. auto. }
  assert (Hframe : forall j x f, orep h ps j x f -> orep h' ps' j x f).
  { intros. apply orep_frame with (h := h) (ps := ps); auto. intros p Hp. right. auto. }
  split; [|split].
  - apply orep_arr. exists b, 0, (length EN), (length EN), EN, (firstn st fps ++ fu ++ skipn en fps).
    split; [reflexivity|]. split. { unfold h', b. apply nth_error_app_last. }
    split. { lia. }
    split. { rewrite skipn_O, firstn_all. apply (reps3_splice (orep h ps)); auto. }
    right. split. { left. auto. } split; auto. split; auto. split; auto.
    rewrite skipn_all. constructor.
  - constructor; auto. intro Hc. apply Hlt in Hc. unfold b in Hc. lia.
  - apply post_intro.
    + unfold h'. rewrite app_length. simpl. lia.
    + intros. apply Hold. auto.
    + intros p Hp. right. auto.
    + exact Haddr.
    + intros a0 [<-|Hc]. { right. unfold b. lia. } left. auto.
    + intros a0 off [H|H]; [inversion H; auto | eapply Hwf; eauto].
    + intros a0 Hge Hlt'. unfold h' in Hlt'. rewrite app_length in Hlt'. simpl in Hlt'.
      assert (a0 = b) by (unfold b; lia). subst a0. left. exists 0. left. auto.
Qed.

Lemma splice_inplace_g : forall h ps js a len cells fps ju us fu st en FP,
  alloc_wf ps ->
  nth_error h a = Some (OArr cells) -> len <= length cells -> In (PArr a 0) ps ->
  Forall (eq HNull) (skipn len cells) ->
  reps3 (orep h ps) js (firstn len cells) fps -> reps3 (orep h ps) ju us fu ->
  st <= en -> en <= len -> length us = en - st ->
  NoDup (a :: concat (firstn st fps ++ fu ++ skipn en fps)) ->
  (forall a0, In a0 (concat (firstn st fps ++ fu ++ skipn en fps)) -> In a0 FP) -> In a FP ->
  let cells' := firstn st cells ++ us ++ skipn en cells in
  let h' := set_list h a (OArr cells') in
  let fp' := a :: concat (firstn st fps ++ fu ++ skipn en fps) in
  orep h' ps (JArr (firstn st js ++ ju ++ skipn en js)) (HArr a 0 len (length cells)) fp' /\
  NoDup fp' /\ post h ps FP h' ps fp'.
Proof.
  intros h ps js a len cells fps ju us fu st en FP Hwf Hn Hl Hp Hj Hrep Hu Hse Hel Hus ND HFP HaFP cells' h' fp'.
  pose proof (nth_error_lt _ _ _ Hn) as Ha.
  assert (Hanew : ~ In a (concat (firstn st fps ++ fu ++ skipn en fps))) by (inversion ND; auto).
  set (E := firstn len cells) in *.
  assert (HE : length E = len) by (unfold E; rewrite firstn_length; lia).
  assert (Hcells : cells = E ++ skipn len cells) by (unfold E; symmetry; apply firstn_skipn).
  assert (Hc' : cells' = (firstn st E ++ us ++ skipn en E) ++ skipn len cells).
  { unfold cells'. rewrite Hcells at 1 2.
    rewrite firstn_app. replace (st - length E) with 0 by lia. rewrite firstn_O, app_nil_r.
    rewrite skipn_app. replace (en - length E) with 0 by lia. rewrite skipn_O.
    rewrite <- !app_assoc. auto. }
  assert (HlenEN : length (firstn st E ++ us ++ skipn en E) = len).
  { rewrite !app_length, firstn_length, skipn_length. lia. }
  assert (Hlc : length cells' = length cells).
  { rewrite Hc', app_length, HlenEN, skipn_length. lia. }
  assert (Hother : forall a0, a0 <> a -> nth_error h' a0 = nth_error h a0).
  { intros. unfold h'. apply nth_error_set_list_other. auto. }
  assert (Hframe : forall j x f, orep h ps j x f -> (forall a0, In a0 f -> a0 <> a) -> orep h' ps j x f).
  { intros j x f Hr Hne. apply orep_frame with (h := h) (ps := ps); auto.
    intros a0 Ha0 [Hna|Hin]; apply Hother.
    - intro Heq; subst a0. apply Hna. left. eauto.
    - apply Hne. auto. }
  split; [|split].
  - apply orep_arr. exists a, 0, len, (length cells), cells', (firstn st fps ++ fu ++ skipn en fps).
    split; [reflexivity|]. split. { unfold h'. apply nth_error_set_list_same. auto. }
    split. { lia. }
    split.
    + rewrite skipn_O, Hc'. rewrite firstn_app_exact by auto.
      assert (Hkeep : forall f, In f (firstn st fps ++ fu ++ skipn en fps) -> forall a0, In a0 f -> a0 <> a).
      { intros f Hf a0 Ha0 Heq. subst a0. apply Hanew. eapply in_concat_of; eauto. }
      apply reps3_app.
      { eapply reps3_mono_in; [|apply reps3_firstn; exact Hrep]. rewrite Forall_forall. intros x _ y z Hz Hr.
        apply Hframe; auto. apply Hkeep. rewrite in_app_iff. auto. }
      apply reps3_app.
      { eapply reps3_mono_in; [|exact Hu]. rewrite Forall_forall. intros x _ y z Hz Hr.
        apply Hframe; auto. apply Hkeep. rewrite !in_app_iff. auto. }
      eapply reps3_mono_in; [|apply reps3_skipn; exact Hrep]. rewrite Forall_forall. intros x _ y z Hz Hr.
      apply Hframe; auto. apply Hkeep. rewrite !in_app_iff. auto.
    + right. split; auto. split; auto. split; auto. split; auto.
      rewrite Hc'. rewrite skipn_app_exact by auto. auto.
  - auto.
  - apply post_intro.
    + unfold h'. rewrite set_list_length. auto.
    + intros a0 Ha0 Hnin. apply Hother. intro Heq; subst a0. auto.
    + auto.
    + intros a0 Ha0. left. auto.
    + intros a0 [<-|Hc]; auto.
    + exact Hwf.
    + intros a0 Hge Hlt. unfold h' in Hlt. rewrite set_list_length in Hlt. lia.
Qed.

Lemma post_weaken : forall h ps F h' ps' F' G G',
  post h ps F h' ps' F' -> (forall a, In a F -> In a G) -> (forall a, In a G' -> In a F') -> post h ps G h' ps' G'.
Proof.
  intros h ps F h' ps' F' G G' (P1 & P2 & P3 & P4 & P5 & P6 & P7) HG HG'. apply post_intro; auto.
  intros a Ha. destruct (P5 a (HG' _ Ha)); auto.
Qed.

(* is v an array header (what updateArraySlice accepts back from the recursive call) *)
Definition is_arr (u : hval) : Prop := match u with HArr _ _ _ _ | HNilArr => True | _ => False end.

(* ---- the recursive call on the window, first component an index ----
   The window [sub] shows the elements E (children jsW with footprints fpsW, owned by the caller); its own
   pointer is either unknown to the allocator (then every write copies it) or known (the window starts at
   cell 0 of an allocated array: cap = len, so only an index inside the window could be written in place —
   that case is handled by the caller). *)
Lemma window_idx : forall cfg i r, sound_at cfg r ->
  forall h ps sub (E : list hval) jsW fpsW n jn,
  alloc_wf ps -> is_arr sub ->
  (forall h1, length h <= length h1 ->
              (forall a0, a0 < length h -> ~ In a0 (concat fpsW) -> nth_error h1 a0 = nth_error h a0) -> elems h1 sub = E) ->
  hlen sub = length E -> hcap sub = length E ->
  reps3 (orep h ps) jsW E fpsW -> NoDup (concat fpsW) ->
  orep h ps jn n [] ->
  (h_is_empty n = false \/ sub <> HNilArr) ->
  ((forall ps1, (forall a0, aaddr ps1 a0 -> aaddr ps a0 \/ length h <= a0) -> allocated (Some ps1) sub = false) \/
   ((forall ps1, (forall p, In p ps -> In p ps1) -> allocated (Some ps1) sub = true) /\
    ~ (0 <= clamp i (-1) (Z.of_nat (length E)) < Z.of_nat (length E))%Z)) ->
  match Path.update (JArr jsW) (PI i :: r) jn with
  | None => update cfg h (Some ps) sub (PI i :: r) n = None
  | Some j' => exists jsW' h1 ps1 u fu,
      j' = JArr jsW' /\ update cfg h (Some ps) sub (PI i :: r) n = Some (h1, Some ps1, u) /\
      is_arr u /\ hlen u = length (elems h1 u) /\
      reps3 (orep h1 ps1) jsW' (elems h1 u) fu /\ NoDup (concat fu) /\
      post h ps (concat fpsW) h1 ps1 (concat fu)
  end.
Proof.
  intros cfg i r IH h ps sub E jsW fpsW n jn Hwf Hisarr Helems Hhl Hcap Hrep NDc Hn Hnm Hcls.
  destruct (reps3_length _ _ _ _ Hrep) as [L1 L2].
  pose proof (orep_is_empty _ _ _ _ _ Hn) as Hemp.
  assert (HelemsH : elems h sub = E) by (apply Helems; auto).
  assert (Hcl : forall a0, In a0 (concat fpsW) -> In a0 (concat fpsW) /\ a0 < length h).
  { intros a0 Hin. split; auto. eapply reps3_concat_fp; eauto. }
  (* the unchanged outcome *)
  assert (Hsame : h_is_empty n = true -> exists jsW' h1 ps1 u fu,
            JArr jsW = JArr jsW' /\ Some (h, Some ps, norm_nil sub) = Some (h1, Some ps1, u) /\
            is_arr u /\ hlen u = length (elems h1 u) /\ reps3 (orep h1 ps1) jsW' (elems h1 u) fu /\ NoDup (concat fu) /\
            post h ps (concat fpsW) h1 ps1 (concat fu)).
  { intros Hmark. destruct Hnm as [Hnm|Hnm]; [congruence|].
    assert (norm_nil sub = sub) by (destruct sub; auto; congruence).
    exists jsW, h, ps, sub, fpsW. rewrite H, HelemsH. repeat split; auto; try apply post_refl; auto. lia. }
  (* the copy into a fresh array *)
  assert (Hfresh : forall c k jx x h1 ps1 ju u fu,
    orep h ps jx x (nth k fpsW []) ->
    orep h1 ps1 ju u fu -> NoDup fu -> post h ps (nth k fpsW []) h1 ps1 fu ->
    let l' := if Nat.leb (hlen sub) k then S k else hlen sub in
    exists jsW' h2 ps2 w fw,
      JArr (set_nth jsW k ju) = JArr jsW' /\
      (let old := elems h1 sub in
       let '(h2, A2, w) := make_array h1 (Some ps1) l' c in
       match w with
       | HArr b _ _ _ => Some (write_cell (write_cells h2 b 0 old) b k u, A2, w)
       | _ => None
       end) = Some (h2, Some ps2, w) /\
      is_arr w /\ hlen w = length (elems h2 w) /\ reps3 (orep h2 ps2) jsW' (elems h2 w) fw /\ NoDup (concat fw) /\
      post h ps (concat fpsW) h2 ps2 (concat fw)).
  { intros c k jx x h1 ps1 ju u fu Hx Hu NDu Hpost l'.
    pose proof Hpost as (P1 & P2 & P3 & P4 & P5 & P6 & P7).
    assert (Hel1 : elems h1 sub = E).
    { apply Helems; auto. intros a0 Ha0 Hnin. apply P2; auto. intro Hc. apply Hnin. eapply nth_in_concat; eauto. }
    cbv zeta. unfold make_array, register. rewrite Hel1. unfold l'. rewrite Hhl.
    rewrite fresh_write.
    2:{ destruct (Nat.leb (length E) k) eqn:L; [apply Nat.leb_le in L|]; lia. }
    edestruct (fresh_step h ps jsW E fpsW (concat fpsW) k h1 ps1 ju u fu c) as (R1 & R2 & R3); eauto.
    { intros a0 Ha0. eapply (orep_fp _ _ _ _ _ Hx); eauto. }
    apply orep_arr in R1 as (b & off & len & cap & cells & fw & Hw & Hnb & Hlb & Hcb & Hcaseb).
    inversion Hw; subst b off len cap. clear Hw.
    destruct Hcaseb as [(Hna & _) | (_ & _ & _ & _ & Hfpb)].
    { exfalso. apply Hna. left. exists 0. left. auto. }
    inversion Hfpb as [Hfw]. rewrite Hfw in *.
    do 5 eexists. split; [reflexivity|]. split; [reflexivity|].
    cbn [elems hlen is_arr]. rewrite (cells_of_nth _ _ _ Hnb). rewrite skipn_O in *.
    split; auto. split. { rewrite firstn_length. simpl in Hlb. lia. }
    split; [exact Hcb|]. split. { inversion R2; auto. }
    eapply post_weaken; eauto. intros a0 Ha0. right. auto. }
  rewrite update_idx_eq. rewrite Hhl.
  assert (Hv : match sub with HNull | HNilArr | HArr _ _ _ _ => True | _ => False end) by (destruct sub; auto).
  rewrite update_idx_arr_gen.
Abort.
