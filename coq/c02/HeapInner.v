(* C02 — a slice component followed by an index: `.[a:b][i]...`.  update works through the window
   v[start:end:end] of the array (a sub-slice header over the same backing array) and splices the result back.
   Paths in which a slice is directly followed by ANOTHER slice stay open (HeapWitness/props). *)
From Coq Require Import List ZArith NArith Bool Lia Permutation.
From Verif Require Import c02.Path c02.PathProofs c02.HeapPath c02.HeapInv c02.HeapProofs c02.HeapSlice.
Import ListNotations.
Open Scope nat_scope.

(* ---- updateArraySlice in general: the recursive call on the window, then the splice ---- *)
Lemma update_slice_eq : forall cfg h A v s e rest n,
  update cfg h A v (PS s e :: rest) n =
  match v with
  | HNull | HNilArr | HArr _ _ _ _ =>
      let '(st, en) := slice_bounds s e (Z.of_nat (hlen v)) in
      let st := Z.to_nat st in let en := Z.to_nat en in
      if Nat.eqb st en && h_is_empty n then Some (h, A, norm_nil v)
      else match update cfg h A (reslice cfg.(three_index) v st en) rest n with
           | None => None
           | Some (h1, A1, u) => slice_write h1 A1 v st en u
           end
  | HEmpty => Some (h, A, v)
  | _ => None
  end.
Proof.
  intros. destruct v; try reflexivity; cbn [update];
    destruct (slice_bounds s e (Z.of_nat (hlen _))) as [st en];
    destruct (Nat.eqb (Z.to_nat st) (Z.to_nat en) && h_is_empty n); try reflexivity;
    destruct (update cfg h A _ rest n) as [[[h1 A1] u]|]; try reflexivity; destruct u; reflexivity.
Qed.

(* ---- two steps in a row ---- *)
Lemma post_trans : forall h ps F h1 ps1 F1 G h2 ps2 F2,
  post h ps F h1 ps1 F1 -> post h1 ps1 G h2 ps2 F2 ->
  (forall a, In a G -> In a F \/ length h <= a) ->
  post h ps F h2 ps2 F2.
Proof.
  intros h ps F h1 ps1 F1 G h2 ps2 F2 (P1 & P2 & P3 & P4 & P5 & P6 & P7) (Q1 & Q2 & Q3 & Q4 & Q5 & Q6 & Q7) HG.
  apply post_intro; auto.
  - lia.
  - intros a Ha Hn. rewrite Q2; auto. lia. intro Hg. destruct (HG _ Hg); auto. lia.
  - intros a Ha. destruct (Q4 _ Ha) as [H|H]. { destruct (P4 _ H); auto. } right. lia.
  - intros a Ha. destruct (Q5 _ Ha) as [H|H]. { apply HG. auto. } right. lia.
  - intros a Hge Hlt. destruct (Nat.lt_ge_cases a (length h1)).
    + destruct (P7 a Hge H) as [(off & Ho)|Ho]; [left; exists off|right]; auto.
    + apply Q7; auto.
Qed.

(* ---- splicing OWNED elements (the children of the array the recursive call returned) ---- *)
Lemma reps3_concat_fp : forall h ps js xs fps a, reps3 (orep h ps) js xs fps -> In a (concat fps) -> aaddr ps a /\ a < length h.
Proof.
  intros h ps js xs fps a Hr Hin. apply in_concat in Hin as (f & Hf & Ha).
  destruct (reps3_In_fp _ _ _ _ _ Hr Hf) as (j & x & _ & Ho). eapply orep_fp; eauto.
Qed.

Lemma splice_fp_cases : forall (fps fu : list (list nat)) st en a,
  In a (concat (firstn st fps ++ fu ++ skipn en fps)) -> In a (concat fps) \/ In a (concat fu).
Proof.
  intros fps fu st en a. rewrite !concat_app, !in_app_iff. intros [H|[H|H]]; auto.
  - left. eapply concat_firstn_in; eauto.
  - left. eapply concat_skipn_in; eauto.
Qed.

Lemma splice_fresh_g : forall h ps js (E : list hval) fps ju us fu st en FP,
  alloc_wf ps -> reps3 (orep h ps) js E fps -> reps3 (orep h ps) ju us fu ->
  NoDup (concat (firstn st fps ++ fu ++ skipn en fps)) ->
  (forall a0, In a0 (concat (firstn st fps ++ fu ++ skipn en fps)) -> In a0 FP) ->
  let EN := firstn st E ++ us ++ skipn en E in
  let b := length h in
  let h' := h ++ [OArr EN] in
  let ps' := PArr b 0 :: ps in
  let fp' := b :: concat (firstn st fps ++ fu ++ skipn en fps) in
  orep h' ps' (JArr (firstn st js ++ ju ++ skipn en js)) (HArr b 0 (length EN) (length EN)) fp' /\
  NoDup fp' /\ post h ps FP h' ps' fp'.
Proof.
  intros h ps js E fps ju us fu st en FP Hwf Hrep Hu ND HFP EN b h' ps' fp'.
  assert (Hlt : forall a0, In a0 (concat (firstn st fps ++ fu ++ skipn en fps)) -> a0 < length h).
  { intros a0 Hin. destruct (splice_fp_cases _ _ _ _ _ Hin) as [H|H].
    - apply (reps3_concat_fp _ _ _ _ _ _ Hrep) in H. tauto.
    - apply (reps3_concat_fp _ _ _ _ _ _ Hu) in H. tauto. }
  assert (Hold : forall a0, a0 < length h -> nth_error h' a0 = nth_error h a0).
  { intros. unfold h'. apply nth_error_app1. auto. }
  assert (Haddr : forall a0, aaddr ps' a0 -> aaddr ps a0 \/ length h <= a0).
  { intros a0 [(off & [H|H]) | [H|H]]; try discriminate.
    - inversion H; subst. right. unfold b. lia.
    - left. left. eauto.
    - left. right. auto. }
  assert (Hframe : forall j x f, orep h ps j x f -> orep h' ps' j x f).
  { intros. apply orep_frame with (h := h) (ps := ps); auto. intros p Hp. right. auto. }
  split; [|split].
  - apply orep_arr. exists b, 0, (length EN), (length EN), EN, (firstn st fps ++ fu ++ skipn en fps).
    split; [reflexivity|]. split. { unfold h', b. apply nth_error_app_last. }
    split. { lia. }
    split. { rewrite skipn_O, firstn_all. apply (reps3_splice (orep h ps)); auto. }
    right. split. { left. auto. } split; auto. split; auto. split; auto.
    rewrite skipn_all. constructor.
  - constructor; auto. intro Hc. apply Hlt in Hc. unfold b in Hc. lia.
  - apply post_intro.
    + unfold h'. rewrite app_length. simpl. lia.
    + intros. apply Hold. auto.
    + intros p Hp. right. auto.
    + exact Haddr.
    + intros a0 [<-|Hc]. { right. unfold b. lia. } left. auto.
    + intros a0 off [H|H]; [inversion H; auto | eapply Hwf; eauto].
    + intros a0 Hge Hlt'. unfold h' in Hlt'. rewrite app_length in Hlt'. simpl in Hlt'.
      assert (a0 = b) by (unfold b; lia). subst a0. left. exists 0. left. auto.
Qed.

Lemma splice_inplace_g : forall h ps js a len cells fps ju us fu st en FP,
  alloc_wf ps ->
  nth_error h a = Some (OArr cells) -> len <= length cells -> In (PArr a 0) ps ->
  Forall (eq HNull) (skipn len cells) ->
  reps3 (orep h ps) js (firstn len cells) fps -> reps3 (orep h ps) ju us fu ->
  st <= en -> en <= len -> length us = en - st ->
  NoDup (a :: concat (firstn st fps ++ fu ++ skipn en fps)) ->
  (forall a0, In a0 (concat (firstn st fps ++ fu ++ skipn en fps)) -> In a0 FP) -> In a FP ->
  let cells' := firstn st cells ++ us ++ skipn en cells in
  let h' := set_list h a (OArr cells') in
  let fp' := a :: concat (firstn st fps ++ fu ++ skipn en fps) in
  orep h' ps (JArr (firstn st js ++ ju ++ skipn en js)) (HArr a 0 len (length cells)) fp' /\
  NoDup fp' /\ post h ps FP h' ps fp'.
Proof.
  intros h ps js a len cells fps ju us fu st en FP Hwf Hn Hl Hp Hj Hrep Hu Hse Hel Hus ND HFP HaFP cells' h' fp'.
  pose proof (nth_error_lt _ _ _ Hn) as Ha.
  assert (Hanew : ~ In a (concat (firstn st fps ++ fu ++ skipn en fps))) by (inversion ND; auto).
  set (E := firstn len cells) in *.
  assert (HE : length E = len) by (unfold E; rewrite firstn_length; lia).
  assert (Hcells : cells = E ++ skipn len cells) by (unfold E; symmetry; apply firstn_skipn).
  assert (Hc' : cells' = (firstn st E ++ us ++ skipn en E) ++ skipn len cells).
  { unfold cells'. rewrite Hcells at 1 2.
    rewrite firstn_app. replace (st - length E) with 0 by lia. rewrite firstn_O, app_nil_r.
    rewrite skipn_app. replace (en - length E) with 0 by lia. rewrite skipn_O.
    rewrite <- !app_assoc. auto. }
  assert (HlenEN : length (firstn st E ++ us ++ skipn en E) = len).
  { rewrite !app_length, firstn_length, skipn_length. lia. }
  assert (Hlc : length cells' = length cells).
  { rewrite Hc', app_length, HlenEN, skipn_length. lia. }
  assert (Hother : forall a0, a0 <> a -> nth_error h' a0 = nth_error h a0).
  { intros. unfold h'. apply nth_error_set_list_other. auto. }
  assert (Hframe : forall j x f, orep h ps j x f -> (forall a0, In a0 f -> a0 <> a) -> orep h' ps j x f).
  { intros j x f Hr Hne. apply orep_frame with (h := h) (ps := ps); auto.
    intros a0 Ha0 [Hna|Hin]; apply Hother.
    - intro Heq; subst a0. apply Hna. left. eauto.
    - apply Hne. auto. }
  split; [|split].
  - apply orep_arr. exists a, 0, len, (length cells), cells', (firstn st fps ++ fu ++ skipn en fps).
    split; [reflexivity|]. split. { unfold h'. apply nth_error_set_list_same. auto. }
    split. { lia. }
    split.
    + rewrite skipn_O, Hc'. rewrite firstn_app_exact by auto.
      assert (Hkeep : forall f, In f (firstn st fps ++ fu ++ skipn en fps) -> forall a0, In a0 f -> a0 <> a).
      { intros f Hf a0 Ha0 Heq. subst a0. apply Hanew. eapply in_concat_of; eauto. }
      apply reps3_app.
      { eapply reps3_mono_in; [|apply reps3_firstn; exact Hrep]. rewrite Forall_forall. intros x _ y z Hz Hr.
        apply Hframe; auto. apply Hkeep. rewrite in_app_iff. auto. }
      apply reps3_app.
      { eapply reps3_mono_in; [|exact Hu]. rewrite Forall_forall. intros x _ y z Hz Hr.
        apply Hframe; auto. apply Hkeep. rewrite !in_app_iff. auto. }
      eapply reps3_mono_in; [|apply reps3_skipn; exact Hrep]. rewrite Forall_forall. intros x _ y z Hz Hr.
      apply Hframe; auto. apply Hkeep. rewrite !in_app_iff. auto.
    + right. split; auto. split; auto. split; auto. split; auto.
      rewrite Hc'. rewrite skipn_app_exact by auto. auto.
  - auto.
  - apply post_intro.
    + unfold h'. rewrite set_list_length. auto.
    + intros a0 Ha0 Hnin. apply Hother. intro Heq; subst a0. auto.
    + auto.
    + intros a0 Ha0. left. auto.
    + intros a0 [<-|Hc]; auto.
    + exact Hwf.
    + intros a0 Hge Hlt. unfold h' in Hlt. rewrite set_list_length in Hlt. lia.
Qed.
