(* C02 — a slice component followed by an index: `.[a:b][i]...`.  update works through the window
   v[start:end:end] of the array (a sub-slice header over the same backing array) and splices the result back.
   Paths in which a slice is directly followed by ANOTHER slice stay open (HeapWitness/props). *)
From Coq Require Import List ZArith NArith Bool Lia Permutation.
From Verif Require Import c02.Path c02.PathProofs c02.HeapPath c02.HeapInv c02.HeapProofs c02.HeapSlice.
Import ListNotations.
Open Scope nat_scope.

(* ---- updateArraySlice in general: the recursive call on the window, then the splice ---- *)
Lemma update_slice_eq : forall cfg h A v s e rest n,
  update cfg h A v (PS s e :: rest) n =
  match v with
  | HNull | HNilArr | HArr _ _ _ _ =>
      let '(st, en) := slice_bounds_write s e (Z.of_nat (hlen v)) in
      let st := Z.to_nat st in let en := Z.to_nat en in
      if Nat.eqb st en && h_is_empty n then Some (h, A, norm_nil v)
      else match update cfg h A (reslice cfg.(three_index) v st en) rest n with
           | None => None
           | Some (h1, A1, u) => slice_write h1 A1 v st en u
           end
  | HEmpty => Some (h, A, v)
  | _ => None
  end.
Proof.
  intros. destruct v; try reflexivity; cbn [update];
    destruct (slice_bounds_write s e (Z.of_nat (hlen _))) as [st en];
    destruct (Nat.eqb (Z.to_nat st) (Z.to_nat en) && h_is_empty n); try reflexivity;
    destruct (update cfg h A _ rest n) as [[[h1 A1] u]|]; try reflexivity; destruct u; reflexivity.
Qed.

(* ---- two steps in a row ---- *)
Lemma post_trans : forall h ps F h1 ps1 F1 G h2 ps2 F2,
  post h ps F h1 ps1 F1 -> post h1 ps1 G h2 ps2 F2 ->
  (forall a, In a G -> In a F \/ length h <= a) ->
  post h ps F h2 ps2 F2.
Proof.
  intros h ps F h1 ps1 F1 G h2 ps2 F2 (P1 & P2 & P3 & P4 & P5 & P6 & P7) (Q1 & Q2 & Q3 & Q4 & Q5 & Q6 & Q7) HG.
  apply post_intro; auto.
  - lia.
  - intros a Ha Hn. rewrite Q2; auto. lia. intro Hg. destruct (HG _ Hg); auto. lia.
  - intros a Ha. destruct (Q4 _ Ha) as [H|H]. { destruct (P4 _ H); auto. } right. lia.
  - intros a Ha. destruct (Q5 _ Ha) as [H|H]. { apply HG. auto. } right. lia.
  - intros a Hge Hlt. destruct (Nat.lt_ge_cases a (length h1)).
    + destruct (P7 a Hge H) as [(off & Ho)|Ho]; [left; exists off|right]; auto.
    + apply Q7; auto.
Qed.

(* ---- splicing OWNED elements (the children of the array the recursive call returned) ---- *)
Lemma reps3_concat_fp : forall h ps js xs fps a, reps3 (orep h ps) js xs fps -> In a (concat fps) -> aaddr ps a /\ a < length h.
Proof.
  intros h ps js xs fps a Hr Hin. apply in_concat in Hin as (f & Hf & Ha).
  destruct (reps3_In_fp _ _ _ _ _ Hr Hf) as (j & x & _ & Ho). eapply orep_fp; eauto.
Qed.

Lemma reps3_concat_lt3 : forall h ps jsA EA fpsA ju us fu jsC EC fpsC a,
  reps3 (orep h ps) jsA EA fpsA -> reps3 (orep h ps) ju us fu -> reps3 (orep h ps) jsC EC fpsC ->
  In a (concat (fpsA ++ fu ++ fpsC)) -> a < length h.
Proof.
  intros. rewrite !concat_app, !in_app_iff in H2. destruct H2 as [H2|[H2|H2]];
    [apply (reps3_concat_fp _ _ _ _ _ _ H) in H2 | apply (reps3_concat_fp _ _ _ _ _ _ H0) in H2 | apply (reps3_concat_fp _ _ _ _ _ _ H1) in H2]; tauto.
Qed.

(* prefix A ++ spliced elements ++ suffix C, built in a fresh allocated array *)
Lemma splice_fresh_g : forall h ps jsA (EA : list hval) fpsA ju us fu jsC EC fpsC FP,
  alloc_wf ps -> reps3 (orep h ps) jsA EA fpsA -> reps3 (orep h ps) ju us fu -> reps3 (orep h ps) jsC EC fpsC ->
  NoDup (concat (fpsA ++ fu ++ fpsC)) ->
  (forall a0, In a0 (concat (fpsA ++ fu ++ fpsC)) -> In a0 FP) ->
  let EN := EA ++ us ++ EC in
  let b := length h in
  let h' := h ++ [OArr EN] in
  let ps' := PArr b 0 :: ps in
  let fp' := b :: concat (fpsA ++ fu ++ fpsC) in
  orep h' ps' (JArr (jsA ++ ju ++ jsC)) (HArr b 0 (length EN) (length EN)) fp' /\
  NoDup fp' /\ post h ps FP h' ps' fp'.
Proof.
  intros h ps jsA EA fpsA ju us fu jsC EC fpsC FP Hwf HA Hu HC ND HFP EN b h' ps' fp'.
  assert (Hlt : forall a0, In a0 (concat (fpsA ++ fu ++ fpsC)) -> a0 < length h).
  { intros a0 Hin. exact (reps3_concat_lt3 _ _ _ _ _ _ _ _ _ _ _ _ HA Hu HC Hin). }
  assert (Hold : forall a0, a0 < length h -> nth_error h' a0 = nth_error h a0).
  { intros. unfold h'. apply nth_error_app1. auto. }
  assert (Haddr : forall a0, aaddr ps' a0 -> aaddr ps a0 \/ length h <= a0).
  { intros a0 [(off & [H|H]) | [H|H]]; try discriminate.
    - inversion H; subst. right. unfold b. lia.
    - left. left. eauto.
    - left. right. auto. }
  assert (Hframe : forall j x f, orep h ps j x f -> orep h' ps' j x f).
  { intros. apply orep_frame with (h := h) (ps := ps); auto. intros p Hp. right. auto. }
  assert (Hmono : forall js xs fps, reps3 (orep h ps) js xs fps -> reps3 (orep h' ps') js xs fps).
  { intros. eapply reps3_mono; [|eauto]. rewrite Forall_forall. intros. apply Hframe. auto. }
  split; [|split].
  - apply orep_arr. exists b, 0, (length EN), (length EN), EN, (fpsA ++ fu ++ fpsC).
    split; [reflexivity|]. split. { unfold h', b. apply nth_error_app_last. }
    split. { lia. }
    split. { rewrite skipn_O, firstn_all. apply reps3_app; auto. apply reps3_app; auto. }
    right. split. { left. auto. } split; auto.
  - constructor; auto. intro Hc. apply Hlt in Hc. unfold b in Hc. lia.
  - apply post_intro.
    + unfold h'. rewrite app_length. simpl. lia.
    + intros. apply Hold. auto.
    + intros p Hp. right. auto.
    + exact Haddr.
    + intros a0 [<-|Hc]. { right. unfold b. lia. } left. auto.
    + intros a0 off [H|H]; [inversion H; auto | eapply Hwf; eauto].
    + intros a0 Hge Hlt'. unfold h' in Hlt'. rewrite app_length in Hlt'. simpl in Hlt'.
      assert (a0 = b) by (unfold b; lia). subst a0. left. exists 0. left. auto.
Qed.

(* the same, written in place over the window M of an allocated array *)
Lemma splice_inplace_g : forall h ps a jsA (EA : list hval) fpsA (M : list hval) ju us fu jsC EC fpsC N FP,
  alloc_wf ps ->
  nth_error h a = Some (OArr (EA ++ M ++ EC ++ N)) -> In (PArr a 0) ps ->
  reps3 (orep h ps) jsA EA fpsA -> reps3 (orep h ps) ju us fu -> reps3 (orep h ps) jsC EC fpsC ->
  length us = length M ->
  NoDup (a :: concat (fpsA ++ fu ++ fpsC)) ->
  (forall a0, In a0 (concat (fpsA ++ fu ++ fpsC)) -> In a0 FP) -> In a FP ->
  let cells' := EA ++ us ++ EC ++ N in
  let h' := set_list h a (OArr cells') in
  let fp' := a :: concat (fpsA ++ fu ++ fpsC) in
  orep h' ps (JArr (jsA ++ ju ++ jsC)) (HArr a 0 (length (EA ++ us ++ EC)) (length cells')) fp' /\
  NoDup fp' /\ post h ps FP h' ps fp'.
Proof.
  intros h ps a jsA EA fpsA M ju us fu jsC EC fpsC N FP Hwf Hn Hp HA Hu HC Hus ND HFP HaFP cells' h' fp'.
  pose proof (nth_error_lt _ _ _ Hn) as Ha.
  assert (Hanew : ~ In a (concat (fpsA ++ fu ++ fpsC))) by (inversion ND; auto).
  assert (Hother : forall a0, a0 <> a -> nth_error h' a0 = nth_error h a0).
  { intros. unfold h'. apply nth_error_set_list_other. auto. }
  assert (Hframe : forall j x f, orep h ps j x f -> (forall a0, In a0 f -> a0 <> a) -> orep h' ps j x f).
  { intros j x f Hr Hne. apply orep_frame with (h := h) (ps := ps); auto.
    intros a0 Ha0 [Hna|Hin]; apply Hother.
    - intro Heq; subst a0. apply Hna. left. eauto.
    - apply Hne. auto. }
  assert (Hmono : forall js xs fps, reps3 (orep h ps) js xs fps -> (forall f, In f fps -> In f (fpsA ++ fu ++ fpsC)) ->
                  reps3 (orep h' ps) js xs fps).
  { intros js xs fps Hr Hsub. eapply reps3_mono_in; [|exact Hr]. rewrite Forall_forall. intros x _ y z Hz Hxr.
    apply Hframe; auto. intros a0 Ha0 Heq. subst a0. apply Hanew. eapply in_concat_of; eauto. }
  split; [|split].
  - apply orep_arr. exists a, 0, (length (EA ++ us ++ EC)), (length cells'), cells', (fpsA ++ fu ++ fpsC).
    split; [reflexivity|]. split. { unfold h'. apply nth_error_set_list_same. auto. }
    split. { unfold cells'. rewrite !app_length. lia. }
    split.
    + rewrite skipn_O. replace cells' with ((EA ++ us ++ EC) ++ N) by (unfold cells'; rewrite <- !app_assoc; auto).
      rewrite firstn_app_exact by auto.
      apply reps3_app. { apply Hmono; [exact HA | intros f Hf; rewrite in_app_iff; auto]. }
      apply reps3_app. { apply Hmono; [exact Hu | intros f Hf; rewrite !in_app_iff; auto]. }
      apply Hmono; [exact HC | intros f Hf; rewrite !in_app_iff; auto].
    + right. split; auto.
  - auto.
  - apply post_intro.
    + unfold h'. rewrite set_list_length. auto.
    + intros a0 Ha0 Hnin. apply Hother. intro Heq; subst a0. auto.
    + auto.
    + intros a0 Ha0. left. auto.
    + intros a0 [<-|Hc]; auto.
    + exact Hwf.
    + intros a0 Hge Hlt. unfold h' in Hlt. rewrite set_list_length in Hlt. lia.
Qed.

Lemma post_weaken : forall h ps F h' ps' F' G G',
  post h ps F h' ps' F' -> (forall a, In a F -> In a G) -> (forall a, In a G' -> In a F') -> post h ps G h' ps' G'.
Proof.
  intros h ps F h' ps' F' G G' (P1 & P2 & P3 & P4 & P5 & P6 & P7) HG HG'. apply post_intro; auto.
  intros a Ha. destruct (P5 a (HG' _ Ha)); auto.
Qed.

(* is v an array header (what updateArraySlice accepts back from the recursive call) *)
Definition is_arr (u : hval) : Prop := match u with HArr _ _ _ _ | HNilArr => True | _ => False end.

Lemma update_idx_arr_gen : forall cfg h A sub i r n, is_arr sub ->
  update cfg h A sub (PI i :: r) n =
  (let len := Z.of_nat (hlen sub) in
   let j := clamp i (-1) len in
   if (j <? 0)%Z then (if h_is_empty n then Some (h, A, norm_nil sub) else None)
   else if (j <? len)%Z then
     match update cfg h A (nth (Z.to_nat j) (elems h sub) HNull) r n with
     | None => None | Some (h1, A1, u) => arr_write cfg h1 A1 sub (Z.to_nat j) u end
   else if h_is_empty n then Some (h, A, norm_nil sub)
   else if (max_index <=? i)%Z then None
   else match update cfg h A HNull r n with
        | None => None | Some (h1, A1, u) => arr_write cfg h1 A1 sub (Z.to_nat i) u end).
Proof. intros. rewrite update_idx_eq. destruct sub; try contradiction; reflexivity. Qed.

(* ---- the recursive call on the window, first component an index ----
   The window [sub] shows the elements E (children jsW with footprints fpsW, owned by the caller); its own
   pointer is either unknown to the allocator (then every write copies it) or known (the window starts at
   cell 0 of an allocated array: cap = len, so only an index inside the window could be written in place —
   that case is handled by the caller). *)
Lemma window_idx : forall cfg i r, sound_at cfg r ->
  forall h ps sub (E : list hval) jsW fpsW n jn,
  alloc_wf ps -> is_arr sub ->
  (forall h1, length h <= length h1 ->
              (forall a0, a0 < length h -> ~ In a0 (concat fpsW) -> nth_error h1 a0 = nth_error h a0) -> elems h1 sub = E) ->
  hlen sub = length E -> hcap sub = length E ->
  reps3 (orep h ps) jsW E fpsW -> NoDup (concat fpsW) ->
  orep h ps jn n [] ->
  (h_is_empty n = false \/ sub <> HNilArr) ->
  ((forall ps1, alloc_wf ps1 -> (forall a0, aaddr ps1 a0 -> aaddr ps a0 \/ length h <= a0) -> allocated (Some ps1) sub = false) \/
   ((forall ps1, (forall p, In p ps -> In p ps1) -> allocated (Some ps1) sub = true) /\
    ~ (0 <= clamp i (-1) (Z.of_nat (length E)) < Z.of_nat (length E))%Z)) ->
  match Path.update (JArr jsW) (PI i :: r) jn with
  | None => update cfg h (Some ps) sub (PI i :: r) n = None
  | Some j' => exists jsW' h1 ps1 u fu,
      j' = JArr jsW' /\ update cfg h (Some ps) sub (PI i :: r) n = Some (h1, Some ps1, u) /\
      is_arr u /\ hlen u = length (elems h1 u) /\
      reps3 (orep h1 ps1) jsW' (elems h1 u) fu /\ NoDup (concat fu) /\
      post h ps (concat fpsW) h1 ps1 (concat fu)
  end.
Proof.
  intros cfg i r IH h ps sub E jsW fpsW n jn Hwf Hisarr Helems Hhl Hcap Hrep NDc Hn Hnm Hcls.
  destruct (reps3_length _ _ _ _ Hrep) as [L1 L2].
  pose proof (orep_is_empty _ _ _ _ _ Hn) as Hemp.
  assert (HelemsH : elems h sub = E) by (apply Helems; auto).
  assert (Hcl : forall a0, In a0 (concat fpsW) -> In a0 (concat fpsW) /\ a0 < length h).
  { intros a0 Hin. split; auto. eapply reps3_concat_fp; eauto. }
  (* the unchanged outcome *)
  assert (Hsame : h_is_empty n = true -> exists jsW' h1 ps1 u fu,
            JArr jsW = JArr jsW' /\ Some (h, Some ps, norm_nil sub) = Some (h1, Some ps1, u) /\
            is_arr u /\ hlen u = length (elems h1 u) /\ reps3 (orep h1 ps1) jsW' (elems h1 u) fu /\ NoDup (concat fu) /\
            post h ps (concat fpsW) h1 ps1 (concat fu)).
  { intros Hmark. destruct Hnm as [Hnm|Hnm]; [congruence|].
    assert (norm_nil sub = sub) by (destruct sub; auto; congruence).
    exists jsW, h, ps, sub, fpsW. rewrite H, HelemsH.
    split; auto. split; auto. split; auto. split; auto. split; auto. split; auto. apply post_refl; auto. }
  (* the copy into a fresh array *)
  assert (Hfresh : forall c k jx x h1 ps1 ju u fu,
    orep h ps jx x (nth k fpsW []) ->
    orep h1 ps1 ju u fu -> NoDup fu -> post h ps (nth k fpsW []) h1 ps1 fu ->
    let l' := if Nat.leb (hlen sub) k then S k else hlen sub in
    exists jsW' h2 ps2 w fw,
      JArr (set_nth jsW k ju) = JArr jsW' /\
      (let old := elems h1 sub in
       let '(h2, A2, w) := make_array h1 (Some ps1) l' c in
       match w with
       | HArr b _ _ _ => Some (write_cell (write_cells h2 b 0 old) b k u, A2, w)
       | _ => None
       end) = Some (h2, Some ps2, w) /\
      is_arr w /\ hlen w = length (elems h2 w) /\ reps3 (orep h2 ps2) jsW' (elems h2 w) fw /\ NoDup (concat fw) /\
      post h ps (concat fpsW) h2 ps2 (concat fw)).
  { intros c k jx x h1 ps1 ju u fu Hx Hu NDu Hpost l'.
    pose proof Hpost as (P1 & P2 & P3 & P4 & P5 & P6 & P7).
    assert (Hel1 : elems h1 sub = E).
    { apply Helems; auto. intros a0 Ha0 Hnin. apply P2; auto. intro Hc. apply Hnin. eapply nth_in_concat; eauto. }
    cbv zeta. unfold make_array, register. rewrite Hel1. unfold l'. rewrite Hhl.
    rewrite fresh_write.
    2:{ destruct (Nat.leb (length E) k) eqn:L; [apply Nat.leb_le in L|]; lia. }
    edestruct (fresh_step h ps jsW E fpsW (concat fpsW) k h1 ps1 ju u fu c) as (R1 & R2 & R3); eauto.
    { intros a0 Ha0. eapply (orep_fp _ _ _ _ _ Hx); eauto. }
    apply orep_arr in R1 as (b & off & len & cap & cells & fw & Hw & Hnb & Hlb & Hcb & Hcaseb).
    inversion Hw; subst b off len cap. clear Hw.
    destruct Hcaseb as [(Hna & _) | (_ & _ & _ & Hfpb)].
    { exfalso. apply Hna. left. exists 0. left. auto. }
    inversion Hfpb as [Hfw]. rewrite Hfw in *.
    do 5 eexists. split; [reflexivity|]. split; [reflexivity|].
    cbn [elems hlen is_arr]. rewrite (cells_of_nth _ _ _ Hnb). rewrite skipn_O in *.
    split; auto. split. { rewrite firstn_length. simpl in Hlb. lia. }
    split; [exact Hcb|]. split. { inversion R2; auto. }
    eapply post_weaken; eauto. intros a0 Ha0. right. auto. }
  rewrite (update_idx_arr_gen _ _ _ _ _ _ _ Hisarr). cbn [Path.update]. cbv zeta.
  unfold zlen. rewrite Hhl, HelemsH, <- L1, <- Hemp.
  set (j0 := clamp i (-1) (Z.of_nat (length jsW))).
  (* what arr_write does on the window: never in place *)
  assert (Hwrite : forall k jx x h1 ps1 ju u fu,
    (length E <= k \/ (forall ps1, alloc_wf ps1 -> (forall a0, aaddr ps1 a0 -> aaddr ps a0 \/ length h <= a0) -> allocated (Some ps1) sub = false)) ->
    orep h ps jx x (nth k fpsW []) ->
    orep h1 ps1 ju u fu -> NoDup fu -> post h ps (nth k fpsW []) h1 ps1 fu ->
    exists jsW' h2 ps2 w fw,
      JArr (set_nth jsW k ju) = JArr jsW' /\ arr_write cfg h1 (Some ps1) sub k u = Some (h2, Some ps2, w) /\
      is_arr w /\ hlen w = length (elems h2 w) /\ reps3 (orep h2 ps2) jsW' (elems h2 w) fw /\ NoDup (concat fw) /\
      post h ps (concat fpsW) h2 ps2 (concat fw)).
  { intros k jx x h1 ps1 ju u fu Hk Hx Hu NDu Hpost.
    pose proof Hpost as (P1 & P2 & P3 & P4 & P5 & P6 & P7).
    unfold arr_write. rewrite Hcap.
    destruct (allocated (Some ps1) sub) eqn:Eal.
    - destruct Hk as [Hk | Hk]. 2:{ rewrite Hk in Eal; [discriminate|auto|auto]. }
      replace (Nat.ltb k (length E)) with false by (symmetry; apply Nat.ltb_ge; lia).
      eapply Hfresh; eauto.
    - eapply Hfresh; eauto. }
  destruct (j0 <? 0)%Z eqn:E1.
  { destruct (is_empty jn) eqn:Em; [|reflexivity]. apply Hsame. congruence. }
  destruct (j0 <? Z.of_nat (length jsW))%Z eqn:E2.
  { (* inside the window: only when the window's pointer is unknown to the allocator *)
    assert (Hk : Z.to_nat j0 < length jsW) by lia.
    pose proof (reps3_nth _ JNull HNull [] _ _ _ _ Hrep Hk) as Hx.
    assert (NDx : NoDup (nth (Z.to_nat j0) fpsW [])) by (apply NoDup_nth; auto).
    specialize (IH h ps _ _ _ n jn Hwf Hx NDx Hn).
    destruct (Path.update (nth (Z.to_nat j0) jsW JNull) r jn) as [ju|]; [|rewrite IH; auto].
    destruct IH as (h1 & ps1 & u & fu & -> & Hu & NDu & Hpost).
    eapply Hwrite; eauto. right.
    destruct Hcls as [Hc|[_ Hc]]; auto. exfalso. apply Hc. unfold j0 in *. rewrite <- L1. lia. }
  destruct (is_empty jn) eqn:Em. { apply Hsame. congruence. }
  destruct (max_index <=? i)%Z; auto.
  assert (Hi : length jsW <= Z.to_nat i).
  { unfold j0, clamp in E1, E2. destruct (i <? 0)%Z eqn:Ei;
    repeat match type of E2 with context [if ?c then _ else _] => destruct c eqn:? end; lia. }
  assert (Hx0 : orep h ps JNull HNull (nth (Z.to_nat i) fpsW [])).
  { rewrite nth_overflow by lia. split; auto. }
  assert (NDx : NoDup (nth (Z.to_nat i) fpsW [])) by (apply NoDup_nth; auto).
  specialize (IH h ps _ _ _ n jn Hwf Hx0 NDx Hn).
  destruct (Path.update JNull r jn) as [ju|]; [|rewrite IH; auto].
  destruct IH as (h1 & ps1 & u & fu & -> & Hu & NDu & Hpost).
  eapply Hwrite; eauto. left. lia.
Qed.


(* ---- the splice after the recursive call ---- *)
Lemma NoDup_splice3 : forall (fpsA fpsM fpsC fu : list (list nat)) K,
  NoDup (concat (fpsA ++ fpsM ++ fpsC)) -> NoDup (concat fu) ->
  (forall a, In a (concat fu) -> In a (concat fpsM) \/ K <= a) ->
  (forall a, In a (concat fpsA) \/ In a (concat fpsC) -> a < K) ->
  NoDup (concat (fpsA ++ fu ++ fpsC)).
Proof.
  intros fpsA fpsM fpsC fu K ND NDu Hfu HK. rewrite !concat_app in *.
  apply nodup_app in ND as (NA & NMC & DA). apply nodup_app in NMC as (NM & NC & DM).
  apply nodup_app. split; auto. split.
  - apply nodup_app. split; auto. split; auto. intros a Hu Hc. destruct (Hfu a Hu) as [H|H].
    + apply (DM a H Hc).
    + assert (a < K) by (apply HK; auto). lia.
  - intros a Ha Hin. rewrite in_app_iff in Hin. destruct Hin as [Hu|Hc].
    + destruct (Hfu a Hu) as [H|H]. { apply (DA a Ha). rewrite in_app_iff. auto. }
      assert (a < K) by (apply HK; auto). lia.
    + apply (DA a Ha). rewrite in_app_iff. auto.
Qed.

Lemma slice_finish : forall h ps js v E fps fp st en h1 ps1 u fu jsW',
  alloc_wf ps -> arr_node h ps js v E fps fp -> NoDup fp -> st <= en -> en <= length E ->
  is_arr u -> hlen u = length (elems h1 u) ->
  reps3 (orep h1 ps1) jsW' (elems h1 u) fu -> NoDup (concat fu) ->
  post h ps (concat (firstn (en - st) (skipn st fps))) h1 ps1 (concat fu) ->
  exists h' ps' w fp',
    slice_write h1 (Some ps1) v st en u = Some (h', Some ps', w) /\
    orep h' ps' (JArr (firstn st js ++ jsW' ++ skipn en js)) w fp' /\ NoDup fp' /\ post h ps fp h' ps' fp'.
Proof.
  intros h ps js v E fps fp st en h1 ps1 u fu jsW' Hwf Hnode ND Hse Hel Hisarr Hul Hu NDu Hpost.
  destruct (node_facts _ _ _ _ _ _ _ Hnode ND) as (Hrep & NDc & Hcl).
  destruct (reps3_length _ _ _ _ Hrep) as [L1 L2].
  pose proof Hpost as (P1 & P2 & P3 & P4 & P5 & P6 & P7).
  set (us := elems h1 u) in *.
  set (fpsA := firstn st fps). set (fpsM := firstn (en - st) (skipn st fps)) in *. set (fpsC := skipn en fps).
  set (jsA := firstn st js). set (jsC := skipn en js). set (EA := firstn st E). set (EC := skipn en E).
  assert (Hfps : fps = fpsA ++ fpsM ++ fpsC) by (apply split3; auto).
  assert (HA : reps3 (orep h ps) jsA EA fpsA) by (apply reps3_firstn; auto).
  assert (HC : reps3 (orep h ps) jsC EC fpsC) by (apply reps3_skipn; auto).
  assert (NDc3 : NoDup (concat (fpsA ++ fpsM ++ fpsC))) by (rewrite <- Hfps; auto).
  assert (HinA : forall a0, In a0 (concat fpsA) -> In a0 (concat fps)) by (intros; eapply concat_firstn_in; eauto).
  assert (HinC : forall a0, In a0 (concat fpsC) -> In a0 (concat fps)) by (intros; eapply concat_skipn_in; eauto).
  assert (HinM : forall a0, In a0 (concat fpsM) -> In a0 (concat fps)).
  { intros a0 H. rewrite Hfps, !concat_app, !in_app_iff. auto. }
  assert (HdisA : forall a0, In a0 (concat fpsA) \/ In a0 (concat fpsC) -> ~ In a0 (concat fpsM)).
  { intros a0 Hac Hm. rewrite !concat_app in NDc3. apply nodup_app in NDc3 as (_ & NMC & DA).
    apply nodup_app in NMC as (_ & _ & DM). destruct Hac as [H|H].
    - apply (DA a0 H). rewrite in_app_iff. auto.
    - apply (DM a0 Hm H). }
  (* the children that stay are as they were *)
  assert (Hkeep : forall j x f, orep h ps j x f -> (forall a0, In a0 f -> In a0 (concat fpsA) \/ In a0 (concat fpsC)) ->
                  orep h1 ps1 j x f).
  { intros j x f Hr Hf. apply orep_frame with (h := h) (ps := ps); auto.
    intros a0 Ha0 Hor. apply P2; auto. intro Hm. destruct Hor as [Hna|Hin].
    - apply Hna. apply HinM in Hm. apply (reps3_concat_fp _ _ _ _ _ _ Hrep) in Hm. tauto.
    - apply (HdisA a0); auto. }
  assert (HA1 : reps3 (orep h1 ps1) jsA EA fpsA).
  { eapply reps3_mono_in; [|exact HA]. rewrite Forall_forall. intros x _ y z Hz Hr. apply Hkeep; auto.
    intros a0 Ha0. left. eapply in_concat_of; eauto. }
  assert (HC1 : reps3 (orep h1 ps1) jsC EC fpsC).
  { eapply reps3_mono_in; [|exact HC]. rewrite Forall_forall. intros x _ y z Hz Hr. apply Hkeep; auto.
    intros a0 Ha0. right. eapply in_concat_of; eauto. }
  assert (Hlt : forall a0, In a0 (concat fpsA) \/ In a0 (concat fpsC) -> a0 < length h).
  { intros a0 [H|H]; [apply HinA in H | apply HinC in H]; apply Hcl in H; tauto. }
  assert (ND3 : NoDup (concat (fpsA ++ fu ++ fpsC))).
  { apply (NoDup_splice3 fpsA fpsM fpsC fu (length h)); auto. }
  assert (HFPsub : forall a0, In a0 (concat (fpsA ++ fu ++ fpsC)) -> In a0 fp \/ length h <= a0).
  { intros a0 H. rewrite !concat_app, !in_app_iff in H. destruct H as [H|[H|H]].
    - left. apply Hcl. auto.
    - destruct (P5 _ H) as [H0|H0]; auto. left. apply Hcl. auto.
    - left. apply Hcl. auto. }
  assert (Hpost' : post h ps fp h1 ps1 (concat fu)).
  { eapply post_weaken; eauto. intros a0 H. apply Hcl. auto. }
  assert (HlEA : length EA = st) by (unfold EA; rewrite firstn_length; lia).
  assert (HlEC : length EC = length E - en) by (unfold EC; rewrite skipn_length; lia).
  assert (Hus : hlen u = length us) by auto.
  (* the fresh-array branch *)
  assert (Hfresh : elems h1 v = E -> hlen v = length E ->
    exists h' ps' w fp',
      (let src := elems h1 v in
       let '(h2, A2, w) := make_array h1 (Some ps1) (hlen v - (en - st) + hlen u) 0 in
       match w with
       | HArr b _ _ _ =>
           Some (write_cells (write_cells (write_cells h2 b 0 (firstn st src)) b (st + hlen u) (skipn en src)) b st us, A2, w)
       | _ => None
       end) = Some (h', Some ps', w) /\
      orep h' ps' (JArr (jsA ++ jsW' ++ jsC)) w fp' /\ NoDup fp' /\ post h ps fp h' ps' fp').
  { intros Hev Hhv. cbv zeta. unfold make_array, register. rewrite Hev, Nat.max_0_r. fold EA EC.
    pose proof (fresh3 h1 EA us EC) as F. rewrite HlEA, HlEC in F.
    replace (hlen v - (en - st) + hlen u) with (st + length us + (length E - en)) by lia.
    rewrite Hus. rewrite F.
    destruct (splice_fresh_g h1 ps1 jsA EA fpsA jsW' us fu jsC EC fpsC (concat (fpsA ++ fu ++ fpsC)) P6 HA1 Hu HC1 ND3 ltac:(auto))
      as (R1 & R2 & R3).
    assert (HlEN : length (EA ++ us ++ EC) = st + length us + (length E - en)) by (rewrite !app_length; lia).
    rewrite HlEN in R1.
    do 4 eexists. split; [reflexivity|]. split; [exact R1|]. split; [exact R2|].
    eapply post_trans; eauto. }
  unfold slice_write.
  assert (Huarr : match u with HArr _ _ _ _ | HNilArr => True | _ => False end) by (destruct u; auto).
  destruct (node_alloc_cases _ _ _ _ _ _ _ Hnode) as [(Ha & a & len & cells & -> & Hna & Hl & HE & Hp & Hfp) | Ha].
  - (* v allocated *)
    pose proof (nth_error_lt _ _ _ Hna) as Halt.
    assert (Hafps : ~ In a (concat fps)) by (subst fp; inversion ND; auto).
    assert (Hna1 : nth_error h1 a = Some (OArr cells)).
    { rewrite P2; auto. }
    assert (Hal1 : allocated (Some ps1) (HArr a 0 len (length cells)) = true) by (apply allocated_arr; auto).
    assert (Hev : elems h1 (HArr a 0 len (length cells)) = E).
    { simpl. rewrite (cells_of_nth _ _ _ Hna1). try rewrite skipn_O. auto. }
    assert (HlE : length E = len) by (rewrite HE, firstn_length; lia).
    destruct (Nat.eqb (hlen u) (en - st)) eqn:Q.
    + (* same length: written in place *)
      apply Nat.eqb_eq in Q.
      set (M := firstn (en - st) (skipn st E)). set (N := skipn len cells).
      assert (Hcells : cells = EA ++ M ++ EC ++ N).
      { rewrite <- (firstn_skipn len cells) at 1. fold N. rewrite <- HE. rewrite (split3 E st en Hse) at 1.
        fold EA M EC. rewrite <- !app_assoc. auto. }
      assert (HlM : length M = en - st) by (unfold M; rewrite firstn_length, skipn_length; lia).
      assert (Hw : write_cells h1 a (0 + st) us = set_list h1 a (OArr (EA ++ us ++ EC ++ N))).
      { cbn [Nat.add]. rewrite <- HlEA. apply (write_cells_mid us h1 a EA M (EC ++ N)); auto. lia. lia. rewrite <- Hcells. auto. }
      assert (NDa : NoDup (a :: concat (fpsA ++ fu ++ fpsC))).
      { constructor; auto. intro Hc. destruct (HFPsub _ Hc) as [H|H]; [|lia].
        rewrite !concat_app, !in_app_iff in Hc. destruct Hc as [Hc|[Hc|Hc]].
        - apply Hafps. auto.
        - destruct (P5 _ Hc) as [H0|H0]; [apply Hafps; auto | lia].
        - apply Hafps. auto. }
      rewrite Hcells in Hna1.
      destruct (splice_inplace_g h1 ps1 a jsA EA fpsA M jsW' us fu jsC EC fpsC N (a :: concat (fpsA ++ fu ++ fpsC))
                  P6 Hna1 (P3 _ Hp) HA1 Hu HC1 ltac:(lia) NDa ltac:(intros; right; auto) ltac:(left; auto))
        as (R1 & R2 & R3).
      destruct u as [| | | | | |bu ou lu cu|]; try contradiction.
      * rewrite Q, Hal1. cbn [andb]. fold us. rewrite Hw.
        assert (Hl1 : length (EA ++ us ++ EC) = len) by (rewrite !app_length; lia).
        assert (Hl2 : length (EA ++ us ++ EC ++ N) = length cells) by (rewrite Hcells; rewrite !app_length; lia).
        rewrite Hl1, Hl2 in R1.
        do 4 eexists. split; [reflexivity|]. split; [exact R1|]. split; [exact R2|].
        eapply post_trans; eauto. intros a0 [<-|H]; [left; subst fp; left; auto | apply HFPsub; auto].
      * rewrite Q, Hal1. cbn [andb]. fold us. rewrite Hw.
        assert (Hl1 : length (EA ++ us ++ EC) = len) by (rewrite !app_length; lia).
        assert (Hl2 : length (EA ++ us ++ EC ++ N) = length cells) by (rewrite Hcells; rewrite !app_length; lia).
        rewrite Hl1, Hl2 in R1.
        do 4 eexists. split; [reflexivity|]. split; [exact R1|]. split; [exact R2|].
        eapply post_trans; eauto. intros a0 [<-|H]; [left; subst fp; left; auto | apply HFPsub; auto].
    + destruct u as [| | | | | |bu ou lu cu|]; try contradiction.
      * try rewrite Q; cbn [andb]; fold us; apply Hfresh; auto; simpl; lia.
      * try rewrite Q; cbn [andb]; fold us; apply Hfresh; auto; simpl; lia.
  - (* v nil or unknown to the allocator: always a fresh array *)
    assert (Hal1 : allocated (Some ps1) v = false).
    { destruct Hnode as [(-> & _) | (a & off & len & cap & cells & -> & Hna & _ & _ & _ & Hcase)]; auto.
      destruct Hcase as [(Hnaa & _) | (Hp & -> & _)].
      - destruct (allocated (Some ps1) (HArr a off len cap)) eqn:Eq; auto. apply allocated_arr in Eq.
        destruct (P4 a) as [H|H]. { left; eauto. } { contradiction. } apply nth_error_lt in Hna. lia.
      - rewrite (proj2 (allocated_arr ps a 0 len cap) Hp) in Ha. discriminate. }
    assert (Hev : elems h1 v = E /\ hlen v = length E).
    { destruct Hnode as [(-> & _ & -> & _) | (a & off & len & cap & cells & -> & Hna & Hl & -> & _ & Hcase)]; auto.
      assert (Hna1 : nth_error h1 a = Some (OArr cells)).
      { rewrite P2; auto. eapply nth_error_lt; eauto. intro Hm. apply HinM in Hm. apply Hcl in Hm.
        destruct Hcase as [(Hnaa & _ & ->) | (Hp & -> & _)]. { destruct Hm as [[] _]. }
        rewrite (proj2 (allocated_arr ps a 0 len cap) Hp) in Ha. discriminate. }
      simpl. rewrite (cells_of_nth _ _ _ Hna1). split; auto. rewrite firstn_length, skipn_length. lia. }
    destruct Hev as [Hev Hhv].
    destruct u as [| | | | | |bu ou lu cu|]; try contradiction;
      rewrite Hal1, andb_false_r; fold us; apply Hfresh; auto.
Qed.

(* ---- assembling `.[a:b][i]...` ---- *)
Lemma set_list_same {X} : forall (l : list X) a o, nth_error l a = Some o -> set_list l a o = l.
Proof. induction l as [|y l IH]; intros [|a] o H; simpl in *; try discriminate. { inversion H; auto. } f_equal. auto. Qed.

Lemma write_cells_id : forall h a c en, nth_error h a = Some (OArr c) -> en <= length c ->
  write_cells h a 0 (firstn en c) = h.
Proof.
  intros h a c en Hn Hen.
  pose proof (write_cells_mid (firstn en c) h a [] (firstn en c) (skipn en c)) as W. simpl in W.
  rewrite firstn_skipn in W. rewrite W; auto. { apply set_list_same. auto. } eapply nth_error_lt; eauto.
Qed.

Lemma sub_nat : forall {X} (l : list X) zs ze, (0 <= zs <= ze)%Z ->
  sub l zs ze = firstn (Z.to_nat ze - Z.to_nat zs) (skipn (Z.to_nat zs) l).
Proof. intros. unfold sub. f_equal. lia. Qed.

Lemma skipn_firstn_c {X} : forall m n (l : list X), skipn m (firstn n l) = firstn (n - m) (skipn m l).
Proof.
  induction m; intros; simpl. { rewrite Nat.sub_0_r. auto. }
  destruct n; simpl. { auto. } destruct l; simpl. { rewrite firstn_nil. auto. } apply IHm.
Qed.

Lemma window_elems {X} : forall (cells : list X) off len st en, en <= len -> st <= en ->
  firstn (en - st) (skipn (off + st) cells) = firstn (en - st) (skipn st (firstn len (skipn off cells))).
Proof.
  intros. rewrite skipn_firstn_c. rewrite firstn_firstn. rewrite skipn_add. f_equal. lia.
Qed.

Lemma skipn_firstn_app {X} : forall (l : list X) j en u, j < en -> en <= length l ->
  firstn j (firstn en l) ++ u :: skipn (S j) (firstn en l) ++ skipn en l = firstn j l ++ u :: skipn (S j) l.
Proof.
  intros. rewrite firstn_firstn. replace (Nat.min j en) with j by lia. f_equal. f_equal.
  rewrite skipn_firstn_c. rewrite <- (firstn_skipn (en - S j) (skipn (S j) l)) at 2. f_equal.
  rewrite skipn_add. f_equal. lia.
Qed.

Lemma sound_slice_idx : forall cfg s e i r, three_index cfg = true -> clear_exposed cfg = true ->
  sound_at cfg r -> sound_at cfg (PS s e :: PI i :: r).
Proof.
  intros cfg s e i r H3 Hce IH h ps v j fp n jn Hwf Hr ND Hn.
  rewrite update_slice_eq. rewrite H3.
  pose proof (orep_is_empty _ _ _ _ _ Hn) as Hemp.
  assert (Hmain : forall js E fps, arr_node h ps js v E fps fp -> elems h v = E -> hlen v = length js ->
    norm_nil v = v -> (j = JNull \/ j = JArr js) ->
    match
      (let '(st, en) := slice_bounds_write s e (zlen js) in
       if (st =? en)%Z && is_empty jn then Some j
       else match Path.update (JArr (sub js st en)) (PI i :: r) jn with
            | Some (JArr u) => Some (JArr (firstn (Z.to_nat st) js ++ u ++ skipn (Z.to_nat en) js))
            | Some JEmpty => Some (JArr (firstn (Z.to_nat st) js ++ repeat JEmpty (Z.to_nat (en - st)) ++ skipn (Z.to_nat en) js))
            | _ => None
            end)
    with
    | None =>
        (let '(st, en) := slice_bounds_write s e (Z.of_nat (hlen v)) in
         let st := Z.to_nat st in let en := Z.to_nat en in
         if Nat.eqb st en && h_is_empty n then Some (h, Some ps, norm_nil v)
         else match update cfg h (Some ps) (reslice true v st en) (PI i :: r) n with
              | None => None | Some (h1, A1, u) => slice_write h1 A1 v st en u end) = None
    | Some j' => exists h' ps' u fp',
        (let '(st, en) := slice_bounds_write s e (Z.of_nat (hlen v)) in
         let st := Z.to_nat st in let en := Z.to_nat en in
         if Nat.eqb st en && h_is_empty n then Some (h, Some ps, norm_nil v)
         else match update cfg h (Some ps) (reslice true v st en) (PI i :: r) n with
              | None => None | Some (h1, A1, u) => slice_write h1 A1 v st en u end) = Some (h', Some ps', u) /\
        orep h' ps' j' u fp' /\ NoDup fp' /\ post h ps fp h' ps' fp'
    end).
  { intros js E fps Hnode Hel Hhl Hnn Hj.
    destruct (node_facts _ _ _ _ _ _ _ Hnode ND) as (Hrep & NDc & Hcl).
    destruct (reps3_length _ _ _ _ Hrep) as [L1 L2].
    unfold zlen. rewrite Hhl, Hnn.
    destruct (slice_bounds_write s e (Z.of_nat (length js))) as [zs ze] eqn:SB.
    destruct (slice_bounds_range _ _ _ _ _ (Nat2Z.is_nonneg _) SB) as [[B1 B2] B3].
    rewrite (sub_nat js zs ze) by lia.
    set (st := Z.to_nat zs). set (en := Z.to_nat ze).
    assert (Hse : st <= en) by (unfold st, en; lia).
    assert (HelE : en <= length E) by (unfold en; lia).
    replace (zs =? ze)%Z with (Nat.eqb st en).
    2:{ unfold st, en. destruct (Nat.eqb (Z.to_nat zs) (Z.to_nat ze)) eqn:Q.
        - apply Nat.eqb_eq in Q. symmetry. apply Z.eqb_eq. lia.
        - apply Nat.eqb_neq in Q. symmetry. apply Z.eqb_neq. lia. }
    rewrite <- Hemp.
    destruct (Nat.eqb st en && is_empty jn) eqn:Early.
    { exists h, ps, v, fp. split; auto. split. { destruct Hj as [-> | ->]; auto. } split; auto. apply post_refl; auto. }
    set (jsW := firstn (en - st) (skipn st js)). set (EW := firstn (en - st) (skipn st E)).
    set (fpsW := firstn (en - st) (skipn st fps)).
    set (sub0 := reslice true v st en).
    assert (HrepW : reps3 (orep h ps) jsW EW fpsW) by (apply reps3_firstn; apply reps3_skipn; auto).
    assert (NDW : NoDup (concat fpsW)).
    { rewrite (split3 fps st en Hse) in NDc. rewrite !concat_app in NDc.
      apply nodup_app in NDc as (_ & N2 & _). apply nodup_app in N2. tauto. }
    assert (HinW : forall a0, In a0 (concat fpsW) -> In a0 (concat fps)).
    { intros a0 H. rewrite (split3 fps st en Hse), !concat_app, !in_app_iff. auto. }
    assert (HlEW : length EW = en - st) by (unfold EW; rewrite firstn_length, skipn_length; lia).
    (* the general case: the recursive call on the window never writes it in place *)
    assert (Hwin :
      ((forall ps1, alloc_wf ps1 -> (forall a0, aaddr ps1 a0 -> aaddr ps a0 \/ length h <= a0) -> allocated (Some ps1) sub0 = false) \/
       ((forall ps1, (forall p, In p ps -> In p ps1) -> allocated (Some ps1) sub0 = true) /\
        ~ (0 <= clamp i (-1) (Z.of_nat (length EW)) < Z.of_nat (length EW))%Z)) ->
      match
        match Path.update (JArr jsW) (PI i :: r) jn with
        | Some (JArr u) => Some (JArr (firstn st js ++ u ++ skipn en js))
        | Some JEmpty => Some (JArr (firstn st js ++ repeat JEmpty (Z.to_nat (ze - zs)) ++ skipn en js))
        | _ => None
        end
      with
      | None => match update cfg h (Some ps) sub0 (PI i :: r) n with
                | None => None | Some (h1, A1, u) => slice_write h1 A1 v st en u end = None
      | Some j' => exists h' ps' u fp',
          match update cfg h (Some ps) sub0 (PI i :: r) n with
          | None => None | Some (h1, A1, u) => slice_write h1 A1 v st en u end = Some (h', Some ps', u) /\
          orep h' ps' j' u fp' /\ NoDup fp' /\ post h ps fp h' ps' fp'
      end).
    { intros Hcls.
      assert (Hisarr : is_arr sub0).
      { unfold sub0. destruct Hnode as [(-> & _) | (a & off & len & cap & cells & -> & _)]; exact I. }
      assert (Helems0 : forall h1, length h <= length h1 ->
                (forall a0, a0 < length h -> ~ In a0 (concat fpsW) -> nth_error h1 a0 = nth_error h a0) -> elems h1 sub0 = EW).
      { intros h1 Hlen Hag. unfold sub0.
        destruct Hnode as [(-> & _ & -> & _) | (a & off & len & cap & cells & -> & Hna & Hl & -> & _ & Hcase)].
        - unfold EW. simpl. destruct (en - st); destruct st; auto.
        - assert (Hna1 : nth_error h1 a = Some (OArr cells)).
          { rewrite Hag; auto. eapply nth_error_lt; eauto. intro Hc. apply HinW in Hc.
            destruct Hcase as [(Hnaa & _) | (_ & _ & _ & Hfp)].
            - apply (reps3_concat_fp _ _ _ _ _ _ Hrep) in Hc. tauto.
            - subst fp. inversion ND; auto. }
          cbn [reslice elems]. rewrite (cells_of_nth _ _ _ Hna1).
          assert (HlE : length (firstn len (skipn off cells)) = len) by (rewrite firstn_length, skipn_length; lia).
          destruct (Nat.eqb (en - st) 0) eqn:Z0.
          + apply Nat.eqb_eq in Z0. unfold EW. rewrite Z0. simpl. destruct (Nat.eqb (en - st) 0); auto.
          + rewrite andb_false_r. unfold EW. apply window_elems; lia. }
      assert (Hhl0 : hlen sub0 = length EW).
      { unfold sub0. destruct Hnode as [(-> & _ & -> & _) | (a & off & len & cap & cells & -> & _)].
        - unfold EW. simpl. destruct (en - st); destruct st; auto.
        - cbn [reslice hlen]. lia. }
      assert (Hcap0 : hcap sub0 = length EW).
      { unfold sub0. destruct Hnode as [(-> & _ & -> & _) | (a & off & len & cap & cells & -> & _)].
        - unfold EW. simpl. destruct (en - st); destruct st; auto.
        - cbn [reslice hcap]. lia. }
      assert (Hnm : h_is_empty n = false \/ sub0 <> HNilArr).
      { unfold sub0. destruct Hnode as [(-> & _ & -> & _) | (a & off & len & cap & cells & -> & _)].
        - left. simpl in HelE. assert (st = en) by lia. rewrite H in Early. rewrite Nat.eqb_refl in Early. simpl in Early. congruence.
        - right. discriminate. }
      pose proof (window_idx cfg i r IH h ps sub0 EW jsW fpsW n jn Hwf Hisarr Helems0 Hhl0 Hcap0 HrepW NDW Hn Hnm Hcls) as Hw.
      destruct (Path.update (JArr jsW) (PI i :: r) jn) as [j'|]; [|rewrite Hw; auto].
      destruct Hw as (jsW' & h1 & ps1 & u & fu & -> & -> & Hisu & Hlu & Hru & NDu & Hpost).
      eapply slice_finish; eauto. }
    (* case A: the window starts at cell 0 of an allocated array and the index lies inside it *)
    destruct (node_alloc_cases _ _ _ _ _ _ _ Hnode) as [(Ha & a & len & cells & Hv & Hna & Hl & HE & Hp & Hfp) | Ha].
    - subst v. pose proof (nth_error_lt _ _ _ Hna) as Halt.
      assert (HlE : length E = len) by (rewrite HE, firstn_length; lia).
      assert (Hafps : ~ In a (concat fps)) by (subst fp; inversion ND; auto).
      destruct (Nat.eqb st 0 && ((0 <=? clamp i (-1) (Z.of_nat (en - st))) && (clamp i (-1) (Z.of_nat (en - st)) <? Z.of_nat (en - st)))%Z) eqn:CaseA.
      + apply andb_true_iff in CaseA as [Hst0 Hin]. apply Nat.eqb_eq in Hst0. apply andb_true_iff in Hin as [Hin1 Hin2].
        assert (Hst : st = 0) by auto. clearbody st. subst st. rewrite Nat.sub_0_r in *.
        set (j0 := clamp i (-1) (Z.of_nat en)) in *.
        unfold jsW, sub0. cbn [reslice skipn]. rewrite Nat.sub_0_r. cbn [Nat.add].
        replace (Nat.eqb en 0 && Nat.eqb en 0) with false by (symmetry; apply andb_false_iff; left; apply Nat.eqb_neq; lia).
        (* both levels unfold the index step on the window *)
        set (k := Z.to_nat j0).
        assert (Hk : k < en) by (unfold k; lia).
        assert (Hzl : zlen (firstn en js) = Z.of_nat en) by (unfold zlen; rewrite firstn_length; lia).
        cbn [Path.update]. cbv zeta. rewrite Hzl. fold j0.
        replace (j0 <? 0)%Z with false by lia. rewrite Hin2.
        assert (Hsub : is_arr (HArr a 0 en en)) by exact I.
        rewrite (update_idx_arr_gen _ _ _ _ _ _ _ Hsub). cbv zeta. cbn [hlen]. fold j0.
        replace (j0 <? 0)%Z with false by lia. rewrite Hin2. fold k.
        assert (Hchild_j : nth k (firstn en js) JNull = nth k js JNull).
        { rewrite <- (firstn_skipn en js) at 2. rewrite app_nth1; auto. rewrite firstn_length. lia. }
        assert (Hchild_x : nth k (elems h (HArr a 0 en en)) HNull = nth k E HNull).
        { cbn [elems]. rewrite (cells_of_nth _ _ _ Hna), skipn_O. rewrite HE.
          replace (firstn en cells) with (firstn en (firstn len cells)) by (rewrite firstn_firstn; f_equal; lia).
          rewrite <- (firstn_skipn en (firstn len cells)) at 2. rewrite app_nth1; auto.
          rewrite !firstn_length. lia. }
        rewrite Hchild_j, Hchild_x.
        assert (Hkl : k < length js) by lia.
        pose proof (reps3_nth _ JNull HNull [] _ _ _ _ Hrep Hkl) as Hx.
        assert (NDx : NoDup (nth k fps [])) by (apply NoDup_nth; auto).
        pose proof (IH h ps _ _ _ n jn Hwf Hx NDx Hn) as IHc.
        destruct (Path.update (nth k js JNull) r jn) as [ju|]; [|rewrite IHc; auto].
        destruct IHc as (h1 & ps1 & u & fu & -> & Hu & NDu & Hpost).
        assert (Hnode' : arr_node h ps js (HArr a 0 len (length cells)) E fps fp).
        { right. exists a, 0, len, (length cells), cells. subst fp. rewrite skipn_O. repeat split; auto; try (right; auto 6). }
        destruct (arr_step cfg Hce h ps js _ E fps fp k _ _ h1 ps1 ju u fu Hwf Hnode' ND Hx Hu NDu Hpost)
          as (h' & ps' & w & fp' & Hw & Hr' & ND' & Hpost').
        exists h', ps', w, fp'. split; [|split; [|split]]; auto.
        * (* the window is written in place, the splice copies the window onto itself *)
          pose proof Hpost as (P1 & P2 & P3 & P4 & P5 & P6 & P7).
          assert (Hna1 : nth_error h1 a = Some (OArr cells)).
          { rewrite P2; auto. intro Hc. apply Hafps. eapply nth_in_concat; eauto. }
          unfold arr_write, clear_cells in Hw |- *. cbn [hlen hcap] in *.
          assert (Hal : allocated (Some ps1) (HArr a 0 en en) = true) by (apply allocated_arr; auto).
          assert (Hal' : allocated (Some ps1) (HArr a 0 len (length cells)) = true) by (apply allocated_arr; auto).
          rewrite Hal. rewrite Hal' in Hw.
          replace (Nat.ltb k en) with true by (symmetry; apply Nat.ltb_lt; lia).
          replace (Nat.ltb k (length cells)) with true in Hw by (symmetry; apply Nat.ltb_lt; lia).
          replace (Nat.leb en k) with false by (symmetry; apply Nat.leb_gt; lia).
          replace (Nat.leb len k) with false in Hw by (symmetry; apply Nat.leb_gt; lia).
          rewrite andb_false_r in Hw |- *.
          unfold slice_write. cbn [hlen]. rewrite Nat.sub_0_r, Nat.eqb_refl.
          set (h2 := write_cell h1 a (0 + k) u) in *.
          assert (Hal2 : allocated (Some ps1) (HArr a 0 len (length cells)) = true) by auto.
          rewrite Hal2. cbn [andb elems Nat.add].
          assert (Hn2 : nth_error h2 a = Some (OArr (set_list cells k u))).
          { unfold h2. rewrite (write_cell_eq _ _ _ _ _ Hna1). apply nth_error_set_list_same.
            destruct Hpost as (Q1 & _). lia. }
          rewrite (cells_of_nth _ _ _ Hn2), skipn_O.
          rewrite (write_cells_id h2 a (set_list cells k u) en Hn2) by (rewrite set_list_length; lia).
          rewrite <- Hw. reflexivity.
        * (* the value level: splicing the updated window = updating the element *)
          cbn [firstn app]. unfold set_nth in *. rewrite firstn_length.
          replace (k - Nat.min en (length js)) with 0 by lia.
          replace (k - length js) with 0 in Hr' by lia. cbn [repeat app] in *.
          rewrite <- app_assoc. cbn [app]. rewrite skipn_firstn_app by lia. exact Hr'.
      + (* case B: the window is never written in place *)
        assert (Hnotin : st = 0 -> ~ (0 <= clamp i (-1) (Z.of_nat (en - st)) < Z.of_nat (en - st))%Z).
        { intros Hs0 Hc. rewrite Hs0 in CaseA, Hc. simpl in CaseA. destruct Hc as [Hc1 Hc2].
          apply Z.leb_le in Hc1. apply Z.ltb_lt in Hc2. rewrite Hc1, Hc2 in CaseA. discriminate. }
        apply Hwin. unfold sub0. cbn [reslice]. rewrite HlEW.
        destruct (Nat.eqb (en - st) 0 && Nat.eqb (en - st) 0) eqn:Z0.
        * (* an empty window keeps the pointer of the array *)
          right. split. { intros ps1 Hinc. apply allocated_arr. auto. }
          apply andb_true_iff in Z0 as [Z0 _]. apply Nat.eqb_eq in Z0. rewrite Z0. simpl. lia.
        * destruct st as [|st'] eqn:Est.
          -- right. split. { intros ps1 Hinc. apply allocated_arr. auto. } apply Hnotin. auto.
          -- left. intros ps1 Hwf1 Hadd. destruct (allocated (Some ps1) (HArr a (0 + S st') (en - S st') (en - S st'))) eqn:Eq; auto.
             apply allocated_arr in Eq. apply Hwf1 in Eq. discriminate.
    - (* v is nil or unknown to the allocator *)
      apply Hwin. left. intros ps1 Hwf1 Hadd. unfold sub0.
      destruct Hnode as [(-> & _) | (a & off & len & cap & cells & -> & Hna & _ & _ & _ & Hcase)]; auto.
      destruct Hcase as [(Hnaa & _) | (Hp & -> & _)].
      + cbn [reslice]. match goal with |- allocated _ ?x = false => destruct (allocated (Some ps1) x) eqn:Eq; auto end.
        apply allocated_arr in Eq. destruct (Hadd a) as [H|H]. { left; eauto. } { contradiction. }
        apply nth_error_lt in Hna. lia.
      + rewrite (proj2 (allocated_arr ps a 0 len cap) Hp) in Ha. discriminate. }
  destruct j; cbn [Path.update].
  - destruct Hr as [-> ->]. apply (Hmain [] [] []); auto. left. auto 6.
  - destruct Hr as [-> _]. auto.
  - destruct Hr as [-> _]. auto.
  - destruct Hr as [-> _]. auto.
  - destruct Hr as [-> ->]. exists h, ps, HEmpty, []. split; auto. split. { split; auto. } split. constructor. apply post_refl; auto.
  - pose proof Hr as Hr0.
    apply orep_arr in Hr as (a & off & len & cap & cells & fps & -> & Hna & Hl & Hc & Hcase).
    destruct (reps3_length _ _ _ _ Hc) as [L1 L2].
    apply (Hmain l (firstn len (skipn off cells)) fps); auto.
    + right. exists a, off, len, cap, cells. auto 8.
    + simpl. rewrite (cells_of_nth _ _ _ Hna). auto.
    + simpl. rewrite L1, firstn_length, skipn_length. lia.
  - apply orep_obj in Hr as (a & kvs & fps & -> & _). auto.
Qed.

(* ---- update is sound for every path in which no slice is directly followed by another slice ---- *)
Theorem update_sound_ok : forall cfg p, three_index cfg = true -> clear_exposed cfg = true -> ok_path p -> sound_at cfg p.
Proof.
  intros cfg p H3 Hce. induction 1.
  - apply sound_nil.
  - apply sound_slice_last.
  - apply sound_key. auto.
  - apply sound_idx; auto.
  - apply sound_slice_idx; auto.
Qed.
