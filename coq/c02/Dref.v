(* C02 — the harness reference for deletions (`_norm` / `_dref` of harness/c02/gen.go) transcribed: every path
   is resolved against the ORIGINAL value, paths below a deleted path are dropped, the remaining key/index
   paths are deleted one by one in descending order.  Definitions only; Run.v judges the implementation's
   delpaths against it ((spec (delpaths ...)) lines), next to Path.delpaths (mark-then-sweep). *)
From Coq Require Import List ZArith NArith Bool.
From Verif Require Import c02.Path.
Import ListNotations.
Open Scope Z_scope.

Fixpoint zrange (st : Z) (n : nat) : list Z :=
  match n with O => [] | S n' => st :: zrange (st + 1) n' end.

Definition shift (st : Z) (q : path) : path :=
  match q with PI i :: t => PI (i + st) :: t | _ => q end.

(* None = "_norm: type" (navigating into a scalar); Some l = the key / non-negative-index paths denoted *)
Fixpoint norm (v : jv) (p : path) : option (list path) :=
  match p with
  | [] => Some [[]]
  | PS s e :: r =>
      match v with
      | JArr l =>
          let '(st, en) := slice_bounds_read s e (zlen l) in
          match r with
          | [] => Some (map (fun i => [PI i]) (zrange st (Z.to_nat (en - st))))
          | _ => option_map (map (shift st)) (norm (JArr (sub l st en)) r)
          end
      | JNull => Some []
      | _ => None
      end
  | PI i :: r =>
      match v with
      | JArr l =>
          let n := zlen l in
          let i' := if i <? 0 then i + n else i in
          if (i' <? 0) || (n <=? i') then Some []
          else option_map (map (cons (PI i'))) (norm (nth (Z.to_nat i') l JNull) r)
      | JNull => Some []
      | _ => None
      end
  | PK k :: r =>
      match v with
      | JObj m => match lookup k m with
                  | Some x => option_map (map (cons (PK k))) (norm x r)
                  | None => Some [] end
      | JNull => Some []
      | _ => None
      end
  | PBad :: _ => None
  end.

Fixpoint norm_all (v : jv) (ps : list path) : option (list path) :=
  match ps with
  | [] => Some []
  | p :: r => match norm v p, norm_all v r with
              | Some a, Some b => Some (a ++ b) | _, _ => None end
  end.

(* jq's order on normalised paths: numbers before strings, componentwise, a prefix before its extensions *)
Definition comp_cmp (a b : pcomp) : comparison :=
  match a, b with
  | PI x, PI y => Z.compare x y
  | PI _, _ => Lt
  | PK _, PI _ => Gt
  | PK x, PK y => key_cmp x y
  | PK _, _ => Lt
  | _, _ => Eq
  end.
Fixpoint path_cmp (p q : path) : comparison :=
  match p, q with
  | [], [] => Eq
  | [], _ => Lt
  | _, [] => Gt
  | a :: p', b :: q' => match comp_cmp a b with Eq => path_cmp p' q' | c => c end
  end.

(* insertion into a DESCENDING duplicate-free list *)
Fixpoint insert_desc (p : path) (l : list path) : list path :=
  match l with
  | [] => [p]
  | q :: r => match path_cmp p q with
              | Gt => p :: l
              | Eq => l
              | Lt => q :: insert_desc p r
              end
  end.
Definition sort_desc (l : list path) : list path := fold_right insert_desc [] l.

Fixpoint is_prefix (p q : path) : bool :=
  match p, q with
  | [], _ => true
  | a :: p', b :: q' => match comp_cmp a b with Eq => is_prefix p' q' | _ => false end
  | _, [] => false
  end.
Definition proper_prefix (p q : path) : bool := is_prefix p q && (length p <? length q)%nat.

Definition dref (v : jv) (ps : list path) : option jv :=
  match norm_all v ps with
  | None => None
  | Some qs =>
      let qs := sort_desc qs in
      let qs := filter (fun q => negb (existsb (fun r => proper_prefix r q) qs)) qs in
      fold_left (fun acc q => match acc with Some w => delpath w q | None => None end) qs (Some v)
  end.

(* The statement that the two value-level specifications of deletion agree (proved in PathProofs.v for the
   indices of one array: delpaths_descending; checked on every delpaths line of the nat stream otherwise). *)
Definition delpaths_is_dref : Prop := forall v ps w, clean v -> dref v ps = Some w -> delpaths v ps = Some w.
