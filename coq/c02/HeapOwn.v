(* C02 — the update theorem for a new value that is a PART OF THE VALUE IT REPLACES (an update body that
   returns its input, a child of it, or a prefix slice .[:k] of an array the reduction owns): end-user form of
   HeapProofs.update_sound_own, and the lemmas that establish its hypotheses.
   This is where the weaker invariant matters: a prefix header over an owned array hides cells that are not
   nil; [orep] does not constrain them, and the in-place growth clears them before it exposes them. *)
From Coq Require Import List ZArith NArith Bool Lia.
From Verif Require Import c02.Path c02.PathProofs c02.HeapPath c02.HeapInv c02.HeapProofs c02.HeapSlice c02.HeapInner c02.HeapAbs.
Import ListNotations.
Open Scope nat_scope.

(* ---- a Go value has one representation: the denoted value and the footprint are functions of (h, ps, v) ---- *)
Lemma orep_shape_arr : forall j h ps a off len cap fp, orep h ps j (HArr a off len cap) fp -> exists js, j = JArr js.
Proof.
  destruct j; intros h ps a off len cap fp H; try (destruct H as [E _]; discriminate). { eauto. }
  apply orep_obj in H as (b & kvs & fps & E & _). discriminate.
Qed.

Lemma orep_shape_map : forall j h ps a fp, orep h ps j (HMap a) fp -> exists jm, j = JObj jm.
Proof.
  destruct j; intros h ps a fp H; try (destruct H as [E _]; discriminate).
  - apply orep_arr in H as (b & off & len & cap & cells & fps & E & _). discriminate.
  - eauto.
Qed.

Lemma orep_nc_fp : forall j h ps v fp, orep h ps j v fp ->
  match v with HArr _ _ _ _ | HMap _ => False | _ => True end -> fp = [].
Proof.
  destruct j; intros h ps v fp H Hv; try (destruct H as [_ ->]; reflexivity).
  - apply orep_arr in H as (b & off & len & cap & cells & fps & -> & _). contradiction.
  - apply orep_obj in H as (b & kvs & fps & -> & _). contradiction.
Qed.

Lemma orep_fp_fun : forall j h ps v f1, orep h ps j v f1 -> forall j2 f2, orep h ps j2 v f2 -> f1 = f2.
Proof.
  induction j using jv_ind'; intros h ps v f1 H1 j2 f2 H2;
    try (destruct H1 as [-> ->]; symmetry; eapply orep_nc_fp; [exact H2 | exact I]).
  - (* arrays *)
    apply orep_arr in H1 as (a & off & len & cap & cells & fps1 & -> & Hn1 & Hl1 & Hc1 & Hcase1).
    destruct (orep_shape_arr _ _ _ _ _ _ _ _ H2) as (js2 & ->).
    apply orep_arr in H2 as (a' & off' & len' & cap' & cells' & fps2 & E & Hn2 & Hl2 & Hc2 & Hcase2).
    inversion E; subst a' off' len' cap'. rewrite Hn1 in Hn2. inversion Hn2; subst cells'.
    assert (Hfps : fps1 = fps2).
    { clear Hcase1 Hcase2 Hl1 Hl2. revert H js2 fps1 fps2 Hc1 Hc2. generalize (firstn len (skipn off cells)) as xs.
      induction l as [|j0 l IHl]; intros xs HF js2 fps1 fps2 Hc1 Hc2.
      - destruct xs, fps1; simpl in Hc1; try tauto. destruct js2, fps2; simpl in Hc2; try tauto.
      - destruct xs as [|x xs], fps1 as [|g1 fps1]; simpl in Hc1; try tauto.
        destruct js2 as [|j2 js2], fps2 as [|g2 fps2]; simpl in Hc2; try tauto.
        inversion HF; subst. destruct Hc1 as [A1 B1]. destruct Hc2 as [A2 B2]. f_equal.
        + eapply H1; eauto.
        + eapply IHl; eauto. }
    subst fps2.
    destruct Hcase1 as [(Hna1 & _ & ->) | (Hp1 & _ & _ & ->)]; destruct Hcase2 as [(Hna2 & _ & ->) | (Hp2 & _ & _ & ->)]; auto.
    + exfalso. apply Hna1. left. eauto.
    + exfalso. apply Hna2. left. eauto.
  - (* objects *)
    apply orep_obj in H1 as (a & kvs & fps1 & -> & Hn1 & Hs1 & Hc1 & Hcase1).
    destruct (orep_shape_map _ _ _ _ _ H2) as (jm2 & ->).
    apply orep_obj in H2 as (a' & kvs' & fps2 & E & Hn2 & Hs2 & Hc2 & Hcase2).
    inversion E; subst a'. rewrite Hn1 in Hn2. inversion Hn2; subst kvs'.
    assert (Hfps : fps1 = fps2).
    { clear Hcase1 Hcase2 Hs1 Hs2 Hn1 Hn2. revert H jm2 fps1 fps2 Hc1 Hc2. generalize kvs as xs.
      induction m as [|[k0 j0] m IHm]; intros xs HF jm2 fps1 fps2 Hc1 Hc2.
      - destruct xs, fps1; simpl in Hc1; try tauto. destruct jm2 as [|[? ?] ?], fps2; simpl in Hc2; try tauto.
      - destruct xs as [|[k1 x] xs], fps1 as [|g1 fps1]; simpl in Hc1; try tauto.
        destruct jm2 as [|[k2 j2] jm2], fps2 as [|g2 fps2]; simpl in Hc2; try tauto.
        inversion HF; subst. destruct Hc1 as (_ & A1 & B1). destruct Hc2 as (_ & A2 & B2). f_equal.
        + eapply H1; eauto.
        + eapply IHm; eauto. }
    subst fps2.
    destruct Hcase1 as [(Hna1 & _ & ->) | (Hp1 & ->)]; destruct Hcase2 as [(Hna2 & _ & ->) | (Hp2 & ->)]; auto.
    + exfalso. apply Hna1. right. auto.
    + exfalso. apply Hna2. right. auto.
Qed.

(* ---- establishing [own_at] from what getpath hands to the update body ---- *)
Lemma own_at_getpath : forall p h ps v x fn,
  h_getpath h v p = Some x -> (forall j fp, orep h ps j x fp -> incl fn fp) -> own_at h ps v p fn.
Proof.
  induction p as [|c r IH]; intros h ps v x fn Hg Hx.
  - simpl in Hg. inversion Hg; subst. exact Hx.
  - cbn [own_at]. cbn [h_getpath] in Hg.
    destruct v; try discriminate; destruct (h_index2 h _ c) as [y|]; try discriminate; eapply IH; eauto.
Qed.

Lemma own_at_of_rep : forall p h ps v x jx fx fn,
  h_getpath h v p = Some x -> orep h ps jx x fx -> incl fn fx -> own_at h ps v p fn.
Proof.
  intros p h ps v x jx fx fn Hg Hx Hi. eapply own_at_getpath; eauto.
  intros j fp Hr. rewrite (orep_fp_fun _ _ _ _ _ Hr _ _ Hx). exact Hi.
Qed.

(* ---- the parts of a value that an update body can hand back: the value itself, and a PREFIX SLICE of an
   array (Go: v[:k], same pointer, same capacity, the cells k.. stay what they were) ---- *)
Lemma NoDup_concat_firstn : forall (fps : list (list nat)) k, NoDup (concat fps) -> NoDup (concat (firstn k fps)).
Proof.
  induction fps as [|f fps IH]; intros [|k] ND; simpl; try constructor; auto.
  simpl in ND. apply nodup_app in ND as (N1 & N2 & N3). apply nodup_app. split; auto. split; auto.
  intros a Ha Hb. apply (N3 a Ha). clear - Hb. revert k Hb. induction fps as [|g fps IH]; intros [|k] Hb; simpl in *; try tauto.
  rewrite in_app_iff in *. destruct Hb; eauto.
Qed.

Lemma incl_concat_firstn : forall (fps : list (list nat)) k, incl (concat (firstn k fps)) (concat fps).
Proof.
  induction fps as [|f fps IH]; intros [|k] a Ha; simpl in *; try tauto.
  rewrite in_app_iff in *. destruct Ha; auto. right. eapply IH; eauto.
Qed.

Lemma orep_prefix : forall h ps js a off len cap fp k,
  orep h ps (JArr js) (HArr a off len cap) fp -> NoDup fp -> k <= len ->
  exists fn, orep h ps (JArr (firstn k js)) (reslice false (HArr a off len cap) 0 k) fn /\ incl fn fp /\ NoDup fn.
Proof.
  intros h ps js a off len cap fp k Hr ND Hk.
  assert (Hre : reslice false (HArr a off len cap) 0 k = HArr a off k cap).
  { cbn [reslice]. rewrite !Nat.sub_0_r, Nat.add_0_r. destruct (Nat.eqb cap 0 && Nat.eqb k 0); auto. }
  rewrite Hre.
  apply orep_arr in Hr as (a' & off' & len' & cap' & cells & fps & E & Hn & Hl & Hc & Hcase).
  inversion E; subst a' off' len' cap'.
  assert (Hck : reps3 (orep h ps) (firstn k js) (firstn k (skipn off cells)) (firstn k fps)).
  { pose proof (reps3_firstn (orep h ps) k _ _ _ Hc) as F. rewrite firstn_firstn in F.
    replace (Nat.min k len) with k in F by lia. exact F. }
  destruct Hcase as [(Hna & Hcc & ->) | (Hp & -> & -> & ->)].
  - exists []. split; [|split; [intros ? [] | constructor]].
    apply orep_arr. exists a, off, k, cap, cells, (firstn k fps).
    split; [reflexivity|]. split; [exact Hn|]. split; [lia|]. split; [exact Hck|].
    left. split; auto. split; auto.
    assert (I := incl_concat_firstn fps k). rewrite Hcc in I. destruct (concat (firstn k fps)) as [|z zs]; auto.
    exfalso. apply (I z). left. auto.
  - exists (a :: concat (firstn k fps)). split; [|split].
    + apply orep_arr. exists a, 0, k, (length cells), cells, (firstn k fps).
      split; [reflexivity|]. split; [exact Hn|]. split; [simpl in *; lia|]. split; [exact Hck|]. right. auto.
    + intros z [<-|Hz]; [left; auto | right; eapply incl_concat_firstn; eauto].
    + inversion ND; subst. constructor.
      * intro Hc0. apply H1. eapply incl_concat_firstn; eauto.
      * apply NoDup_concat_firstn. auto.
Qed.

(* ---- end-user form: update with a new value owned by the value it replaces ---- *)
Theorem abs_update_own : forall p h ps v j fp n jn fn,
  alloc_wf ps -> orep h ps j v fp -> NoDup fp ->
  orep h ps jn n fn -> NoDup fn -> own_at h ps v p fn -> no_slice p ->
  match setpath j p jn with
  | None => update current h (Some ps) v p n = None
  | Some j' =>
      exists h' ps' u fp',
        update current h (Some ps) v p n = Some (h', Some ps', u) /\
        (forall fuel, depth j' < fuel -> abs fuel h' u = Some j') /\
        (forall jx x, frep h ps jx x -> frep h' ps' jx x /\ forall fuel, depth jx < fuel -> abs fuel h' x = Some jx) /\
        orep h' ps' j' u fp' /\ NoDup fp' /\ alloc_wf ps'
  end.
Proof.
  intros p h ps v j fp n jn fn Hwf Hr ND Hn NDn Hown Hns. unfold setpath.
  pose proof (update_sound_own current eq_refl p Hns h ps v j fp n jn fn Hwf Hr ND Hn NDn Hown) as H.
  destruct (Path.update j p jn) as [j'|]; auto.
  destruct H as (h' & ps' & u & fp' & Hu & Hr' & ND' & Hpost).
  exists h', ps', u, fp'. split; auto. split. { intros. eapply orep_abs; eauto. }
  split.
  - intros jx x Hx. assert (frep h' ps' jx x).
    { apply (frame_frozen h ps fp h' ps' fp' jx x); auto. intros a Ha. apply (orep_fp _ _ _ _ _ Hr a Ha). }
    split; auto. intros. eapply orep_abs; eauto.
  - destruct Hpost as (_ & _ & _ & _ & _ & P6 & _). auto.
Qed.

(* `p |= .[:k]` in one step: getpath hands the array x at p to the body, the body returns its prefix slice, update
   stores it at p.  Whatever the allocator owns below x stays owned once; the result denotes setpath. *)
Theorem abs_update_prefix : forall p h ps v j fp x js fx k,
  alloc_wf ps -> orep h ps j v fp -> NoDup fp -> no_slice p ->
  h_getpath h v p = Some x -> orep h ps (JArr js) x fx -> NoDup fx -> k <= hlen x ->
  match setpath j p (JArr (firstn k js)) with
  | None => update current h (Some ps) v p (reslice false x 0 k) = None
  | Some j' =>
      exists h' ps' u fp',
        update current h (Some ps) v p (reslice false x 0 k) = Some (h', Some ps', u) /\
        (forall fuel, depth j' < fuel -> abs fuel h' u = Some j') /\
        (forall jx x, frep h ps jx x -> frep h' ps' jx x /\ forall fuel, depth jx < fuel -> abs fuel h' x = Some jx) /\
        orep h' ps' j' u fp' /\ NoDup fp' /\ alloc_wf ps'
  end.
Proof.
  intros p h ps v j fp x js fx k Hwf Hr ND Hns Hg Hx NDx Hk.
  pose proof Hx as Hx0.
  apply orep_arr in Hx0 as (a & off & len & cap & cells & fps & -> & _). cbn [hlen] in Hk.
  destruct (orep_prefix _ _ _ _ _ _ _ _ k Hx NDx Hk) as (fn & Hn & Hi & NDn).
  eapply abs_update_own; eauto. eapply own_at_of_rep; eauto.
Qed.

(* ---- non-vacuity: the state of D11 (docs/C02.md) after its first path.  The reduction owns the object
   (address 1) and the array (address 0, cells [10,2,3]); the body is handed the array and returns .[:1].
   All hypotheses of abs_update_prefix hold; the update leaves a PREFIX HEADER over stale cells, which the
   invariant accepts; the next write grows it in place and clears the cell it exposes. ---- *)
Definition ka : key := [97%N].

Lemma own_rep_arr : forall (cells : list hval) (js : list jv) len,
  let h := [OArr cells; OMap [(ka, HArr 0 0 len 3)]] in
  length cells = 3 -> len <= 3 ->
  reps3 (orep h [PArr 0 0; PMap 1]) js (firstn len cells) (repeat [] len) ->
  orep h [PArr 0 0; PMap 1] (JArr js) (HArr 0 0 len 3) [0].
Proof.
  intros cells js len h Hc Hl Hr. apply orep_arr. exists 0, 0, len, 3, cells, (repeat [] len).
  split; [reflexivity|]. split; [reflexivity|]. split; [simpl; lia|]. split; [rewrite skipn_O; exact Hr|].
  right. split; [left; auto|]. split; auto. split; auto.
  f_equal. clear. induction len; simpl; auto.
Qed.

Lemma own_rep_obj : forall (cells : list hval) (js : list jv) len,
  let h := [OArr cells; OMap [(ka, HArr 0 0 len 3)]] in
  orep h [PArr 0 0; PMap 1] (JArr js) (HArr 0 0 len 3) [0] ->
  orep h [PArr 0 0; PMap 1] (JObj [(ka, JArr js)]) (HMap 1) [1; 0].
Proof.
  intros cells js len h Hr. apply orep_obj. exists 1, [(ka, HArr 0 0 len 3)], [[0]].
  split; [reflexivity|]. split; [reflexivity|]. split. { simpl. split; auto. intros ? []. }
  split. { simpl. split; auto. }
  right. split; [right; left; auto | reflexivity].
Qed.

Example own_nonvacuous :
  let h := [OArr [HNum 10; HNum 2; HNum 3]; OMap [(ka, HArr 0 0 3 3)]] in
  let h' := [OArr [HNum 10; HNum 2; HNum 3]; OMap [(ka, HArr 0 0 1 3)]] in
  let ps := [PArr 0 0; PMap 1] in
  (* the hypotheses of abs_update_prefix *)
  alloc_wf ps /\ orep h ps (JObj [(ka, JArr [JNum 10; JNum 2; JNum 3])]) (HMap 1) [1; 0] /\ NoDup [1; 0] /\
  no_slice [PK ka] /\ h_getpath h (HMap 1) [PK ka] = Some (HArr 0 0 3 3) /\
  orep h ps (JArr [JNum 10; JNum 2; JNum 3]) (HArr 0 0 3 3) [0] /\ NoDup [0] /\ 1 <= hlen (HArr 0 0 3 3) /\
  (* what update does: the map is written in place, the array is not touched *)
  update current h (Some ps) (HMap 1) [PK ka] (reslice false (HArr 0 0 3 3) 0 1) = Some (h', Some ps, HMap 1) /\
  (* the state it leaves is inside the invariant although the cells behind the prefix are not nil *)
  orep h' ps (JObj [(ka, JArr [JNum 10])]) (HMap 1) [1; 0] /\
  (* the next path writes index 2: in-place growth, the exposed cell is cleared *)
  update current h' (Some ps) (HMap 1) [PK ka; PI 2%Z] (HNum 10) =
    Some ([OArr [HNum 10; HNull; HNum 10]; OMap [(ka, HArr 0 0 3 3)]], Some ps, HMap 1) /\
  setpath (JObj [(ka, JArr [JNum 10])]) [PK ka; PI 2%Z] (JNum 10) = Some (JObj [(ka, JArr [JNum 10; JNull; JNum 10])]).
Proof.
  cbv zeta.
  assert (R3 : orep [OArr [HNum 10; HNum 2; HNum 3]; OMap [(ka, HArr 0 0 3 3)]] [PArr 0 0; PMap 1]
                    (JArr [JNum 10; JNum 2; JNum 3]) (HArr 0 0 3 3) [0]).
  { apply (own_rep_arr [HNum 10; HNum 2; HNum 3] [JNum 10; JNum 2; JNum 3] 3); auto. simpl. repeat split; auto. }
  assert (R1 : orep [OArr [HNum 10; HNum 2; HNum 3]; OMap [(ka, HArr 0 0 1 3)]] [PArr 0 0; PMap 1]
                    (JArr [JNum 10]) (HArr 0 0 1 3) [0]).
  { apply (own_rep_arr [HNum 10; HNum 2; HNum 3] [JNum 10] 1); auto. simpl. repeat split; auto. }
  split. { intros a off [E|[E|[]]]; inversion E; auto. }
  split. { apply (own_rep_obj [HNum 10; HNum 2; HNum 3] [JNum 10; JNum 2; JNum 3] 3). exact R3. }
  split. { repeat constructor; simpl; intuition discriminate. }
  split. { repeat constructor. }
  split. { reflexivity. }
  split. { exact R3. }
  split. { repeat constructor. simpl. tauto. }
  split. { simpl. lia. }
  split. { vm_compute. reflexivity. }
  split. { apply (own_rep_obj [HNum 10; HNum 2; HNum 3] [JNum 10] 1). exact R1. }
  split; vm_compute; reflexivity.
Qed.
