(* C02 — HEAP-LEVEL model of the update natives of func.go (allocator, update, updateObject,
   updateArrayIndex, updateArraySlice, deleteEmpty, funcGetpath/funcIndex2/slice) as the code is written:
   containers live in a heap, a Go slice is a header (address, offset, len, cap) over a backing array,
   `allocator.allocated` compares the POINTER (address+offset for slices, address for maps) exactly as
   reflect.ValueOf(v).Pointer() does, allocated containers are written IN PLACE, arrays grow in place
   within their capacity.  Definitions only (proofs: HeapProofs.v).

   Deliberate abstractions (docs/C02.md): numbers are integers; errors are one class; a zero-capacity
   make() gets a fresh address (Go returns the shared zerobase pointer; in-place branches on a
   zero-capacity slice write nothing, so the difference is unobservable); the allocator's uintptr keys do
   not keep objects alive in Go (a stale address could be reused after a GC cycle) — not modelled. *)
From Coq Require Import List ZArith NArith Bool Lia.
From Verif Require Import c02.Path.
Import ListNotations.
Open Scope Z_scope.

Inductive hval :=
| HNull | HBool (b : bool) | HNum (z : Z) | HStr (s : key) | HEmpty
| HNilArr                                   (* a typed nil slice []any(nil): only as an intermediate *)
| HArr (a off len cap : nat)                (* slice header: cells off .. off+len-1 of heap array a *)
| HMap (a : nat).

Inductive hobj := OArr (cells : list hval) | OMap (kvs : list (key * hval)).
Definition heap := list hobj.

Inductive ptr := PArr (a off : nat) | PMap (a : nat).
Definition ptr_eqb (p q : ptr) : bool :=
  match p, q with
  | PArr a o, PArr b o' => Nat.eqb a b && Nat.eqb o o'
  | PMap a, PMap b => Nat.eqb a b
  | _, _ => false
  end.

(* None = the nil allocator of funcSetpath (never registers, nothing is allocated) *)
Definition alloc := option (list ptr).

Definition allocated (A : alloc) (v : hval) : bool :=
  match A with
  | None => false
  | Some ps =>
      match v with
      | HArr a off _ _ => existsb (ptr_eqb (PArr a off)) ps
      | HMap a => existsb (ptr_eqb (PMap a)) ps
      | _ => false
      end
  end.

Definition register (A : alloc) (p : ptr) : alloc :=
  match A with None => None | Some ps => Some (p :: ps) end.

(* ---- heap access ---- *)
Definition cells_of (h : heap) (a : nat) : list hval :=
  match nth_error h a with Some (OArr c) => c | _ => [] end.
Definition kvs_of (h : heap) (a : nat) : list (key * hval) :=
  match nth_error h a with Some (OMap m) => m | _ => [] end.

Fixpoint set_list {X} (l : list X) (i : nat) (x : X) : list X :=
  match l, i with
  | [], _ => []
  | _ :: r, O => x :: r
  | y :: r, S i' => y :: set_list r i' x
  end.

Definition set_obj (h : heap) (a : nat) (o : hobj) : heap := set_list h a o.
Definition write_cell (h : heap) (a i : nat) (x : hval) : heap :=
  set_obj h a (OArr (set_list (cells_of h a) i x)).
(* copy(dst[at:], src): elementwise, left to right *)
Fixpoint write_cells (h : heap) (a at_ : nat) (xs : list hval) : heap :=
  match xs with
  | [] => h
  | x :: r => write_cells (write_cell h a at_ x) a (S at_) r
  end.

(* the elements a header denotes *)
Definition elems (h : heap) (v : hval) : list hval :=
  match v with
  | HArr a off len _ => firstn len (skipn off (cells_of h a))
  | _ => []
  end.
Definition hlen (v : hval) : nat := match v with HArr _ _ l _ => l | _ => 0%nat end.
Definition hcap (v : hval) : nat := match v with HArr _ _ _ c => c | _ => 0%nat end.

(* make([]any, l, max(l,c)) and make(map[string]any) *)
Definition make_array (h : heap) (A : alloc) (l c : nat) : heap * alloc * hval :=
  let n := Nat.max l c in
  let a := length h in
  (h ++ [OArr (repeat HNull n)], register A (PArr a 0), HArr a 0 l n).
Definition make_object (h : heap) (A : alloc) : heap * alloc * hval :=
  let a := length h in
  (h ++ [OMap []], register A (PMap a), HMap a).

(* v[i:j] (two-index: the capacity extends to the end of the parent's) and v[i:j:j] (three-index, used
   by the proposed patch).  Go keeps the old pointer when the new capacity is 0 (the new length is then 0 as
   well: len <= cap for every Go slice; the model says so explicitly, so that a header with len > cap, which
   no Go program can build, still denotes its elements). *)
Definition reslice (three : bool) (v : hval) (i j : nat) : hval :=
  match v with
  | HArr a off _ cap =>
      let ncap := if three then (j - i)%nat else (cap - i)%nat in
      HArr a (if Nat.eqb ncap 0 && Nat.eqb (j - i) 0 then off else (off + i)%nat) (j - i) ncap
  | _ => HNilArr
  end.

Definition h_is_empty (v : hval) : bool := match v with HEmpty => true | _ => false end.

(* model parameters.  [three_index]: how updateArraySlice reslices; [current] = the code as it is
   (v[start:end:end], since the fix commit 8b3b8e6); [two_index] = the code before that fix (v[start:end]), kept
   for the regression example D4 in HeapWitness.v.
   [clear_exposed]: whether the in-place growth of updateArrayIndex (`v = v[:i+1]`) also does `clear(v[l:i])`,
   i.e. writes nil into the cells l..i-1 it exposes (the code as it is since the fix commit 73ac0b6);
   [old_growth] = the code before that fix (the exposed cells keep whatever the backing array held), kept for
   the regression example D11 in HeapWitness.v *)
Record config := { three_index : bool; clear_exposed : bool }.
Definition current : config := {| three_index := true; clear_exposed := true |}.
Definition two_index : config := {| three_index := false; clear_exposed := true |}.
Definition old_growth : config := {| three_index := true; clear_exposed := false |}.

(* `if i >= l { v = v[:i+1]; clear(v[l:i]) }` of updateArrayIndex on the array at address a seen from offset
   off with length l: the cells l..i-1 of the slice become nil (nothing happens when i <= l) *)
Definition clear_cells (ce : bool) (h : heap) (a off l i : nat) : heap :=
  if ce && Nat.leb l i then write_cells h a (off + l) (repeat HNull (i - l)) else h.

(* the value returned for a nil input that is returned unchanged is the untyped nil *)
Definition norm_nil (v : hval) : hval := match v with HNilArr => HNull | _ => v end.

Section Update.
Variable cfg : config.

(* update(v, path, n, a): None = error *)
Fixpoint update (h : heap) (A : alloc) (v : hval) (p : path) (n : hval) : option (heap * alloc * hval) :=
  match p with
  | [] => Some (h, A, n)
  | PK k :: r =>
      (* updateObject(v, k, path[1:], n, a) *)
      let upd_obj (m : list (key * hval)) :=
        let cont (x : hval) :=
          match update h A x r n with
          | None => None
          | Some (h1, A1, u) =>
              if allocated A1 v then
                match v with
                | HMap a => Some (set_obj h1 a (OMap (insert k u (kvs_of h1 a))), A1, v)
                | _ => None
                end
              else
                let '(h2, A2, w) := make_object h1 A1 in
                let cur := match v with HMap a => kvs_of h1 a | _ => [] end in
                match w with
                | HMap b => Some (set_obj h2 b (OMap (insert k u cur)), A2, w)
                | _ => None
                end
          end in
        match lookup k m with
        | None => if h_is_empty n then Some (h, A, v) else cont HNull
        | Some x => cont x
        end in
      match v with
      | HNull => upd_obj []
      | HMap a => upd_obj (kvs_of h a)
      | HEmpty => Some (h, A, v)
      | _ => None
      end
  | PI i :: r =>
      (* updateArrayIndex(v, i, path[1:], n, a) *)
      let upd_arr :=
        let len := Z.of_nat (hlen v) in
        let j := clamp i (-1) len in
        let cont (i : nat) (x : hval) :=
          match update h A x r n with
          | None => None
          | Some (h1, A1, u) =>
              let l := hlen v in let c := hcap v in
              let fresh (c : nat) :=
                let l' := if Nat.leb l i then S i else l in
                let old := elems h1 v in
                let '(h2, A2, w) := make_array h1 A1 l' c in
                match w with
                | HArr b _ _ _ => Some (write_cell (write_cells h2 b 0 old) b i u, A2, w)
                | _ => None
                end in
              if allocated A1 v then
                if Nat.ltb i c then
                  match v with
                  | HArr a off _ cap =>
                      Some (write_cell (clear_cells cfg.(clear_exposed) h1 a off l i) a (off + i) u, A1,
                            HArr a off (if Nat.leb l i then S i else l) cap)
                  | _ => None
                  end
                else fresh (2 * c)%nat
              else fresh c
          end in
        if j <? 0 then (if h_is_empty n then Some (h, A, norm_nil v) else None)
        else if j <? len then cont (Z.to_nat j) (nth (Z.to_nat j) (elems h v) HNull)
        else if h_is_empty n then Some (h, A, norm_nil v)
        else if max_index <=? i then None
        else cont (Z.to_nat i) HNull in
      match v with
      | HNull | HNilArr | HArr _ _ _ _ => upd_arr
      | HEmpty => Some (h, A, v)
      | _ => None
      end
  | PS s e :: r =>
      (* updateArraySlice(v, m, path[1:], n, a) *)
      let upd_sl :=
        let len := Z.of_nat (hlen v) in
        let '(st, en) := slice_bounds_write s e len in
        let st := Z.to_nat st in let en := Z.to_nat en in
        if Nat.eqb st en && h_is_empty n then Some (h, A, norm_nil v)
        else
          match update h A (reslice cfg.(three_index) v st en) r n with
          | None => None
          | Some (h1, A1, u) =>
              match u with
              | HArr _ _ _ _ | HNilArr =>
                  let ulen := hlen u in
                  if Nat.eqb ulen (en - st) && allocated A1 v then
                    match v with
                    | HArr a off _ _ => Some (write_cells h1 a (off + st) (elems h1 u), A1, v)
                    | _ => None
                    end
                  else
                    let src := elems h1 v in
                    let us := elems h1 u in
                    let '(h2, A2, w) := make_array h1 A1 (hlen v - (en - st) + ulen) 0 in
                    match w with
                    | HArr b _ _ _ =>
                        let h3 := write_cells h2 b 0 (firstn st src) in
                        let h4 := write_cells h3 b (st + ulen) (skipn en src) in
                        (* copy(w[start:], u): u is re-read after the two copies (it cannot alias w) *)
                        Some (write_cells h4 b st us, A2, w)
                    | _ => None
                    end
              | HEmpty =>
                  if allocated A1 v then
                    match v with
                    | HArr a off _ _ => Some (write_cells h1 a (off + st) (repeat HEmpty (en - st)), A1, v)
                    | _ => None
                    end
                  else
                    let src := elems h1 v in
                    let '(h2, A2, w) := make_array h1 A1 (hlen v) 0 in
                    match w with
                    | HArr b _ _ _ => Some (write_cells (write_cells h2 b 0 src) b st (repeat HEmpty (en - st)), A2, w)
                    | _ => None
                    end
              | _ => None
              end
          end in
      match v with
      | HNull | HNilArr | HArr _ _ _ _ => upd_sl
      | HEmpty => Some (h, A, v)
      | _ => None
      end
  | PBad :: _ => None
  end.

End Update.

(* ---- deleteEmpty(v, a): sweeps, in place, the containers the allocator owns; any other container is
   returned as it is (markers are only ever written into allocated containers) ---- *)
(* the two loops of deleteEmpty, over the recursive call D *)
Section SweepLoops.
Variable D : heap -> hval -> option (heap * hval).
(* for k, w := range v: delete(v, k) or v[k] = deleteEmpty(w); the map is re-read at every step *)
Fixpoint sweep_map (a : nat) (ks : list key) (h : heap) : option heap :=
  match ks with
  | [] => Some h
  | k :: r =>
      match lookup k (kvs_of h a) with
      | None => sweep_map a r h
      | Some w =>
          if h_is_empty w then sweep_map a r (set_obj h a (OMap (filter (fun kv => negb (key_eqb (fst kv) k)) (kvs_of h a))))
          else match D h w with
               | None => None
               | Some (h1, w') => sweep_map a r (set_obj h1 a (OMap (insert k w' (kvs_of h1 a))))
               end
      end
  end.
(* for _, w := range v (len fixed, cells re-read at every step): compact in place; i = read index,
   cnt = elements left, j = write index *)
Fixpoint sweep_arr (a off : nat) (i cnt j : nat) (h : heap) : option (heap * nat) :=
  match cnt with
  | O => Some (h, j)
  | S cnt' =>
      let w := nth (off + i) (cells_of h a) HNull in
      if h_is_empty w then sweep_arr a off (S i) cnt' j h
      else match D h w with
           | None => None
           | Some (h1, w') => sweep_arr a off (S i) cnt' (S j) (write_cell h1 a (off + j) w')
           end
  end.
End SweepLoops.

Fixpoint delete_empty (fuel : nat) (h : heap) (A : alloc) (v : hval) : option (heap * hval) :=
  match fuel with
  | O => None
  | S f =>
      if match v with HMap _ | HArr _ _ _ _ => negb (allocated A v) | _ => false end then Some (h, v) else
      match v with
      | HEmpty => Some (h, HNull)
      | HMap a =>
          match sweep_map (fun h w => delete_empty f h A w) a (map fst (kvs_of h a)) h with
          | Some h' => Some (h', v) | None => None end
      | HArr a off len cap =>
          match sweep_arr (fun h w => delete_empty f h A w) a off 0%nat len 0%nat h with
          | Some (h1, j) => Some (write_cells h1 a (off + j) (repeat HNull (len - j)), HArr a off j cap)
          | None => None
          end
      | _ => Some (h, v)
      end
  end.

(* ---- funcGetpath over funcIndex2 / index / slice: returns ALIASES into the heap ---- *)
Definition h_index2 (h : heap) (v : hval) (c : pcomp) : option hval :=
  match c with
  | PK k => match v with
            | HNull => Some HNull
            | HMap a => Some (match lookup k (kvs_of h a) with Some x => x | None => HNull end)
            | _ => None end
  | PI i => match v with
            | HNull => Some HNull
            | HArr _ _ len _ =>
                let j := clamp i (-1) (Z.of_nat len) in
                Some (if (0 <=? j) && (j <? Z.of_nat len) then nth (Z.to_nat j) (elems h v) HNull else HNull)
            | _ => None end
  | PS s e => match v with
              | HNull => Some HNull
              | HArr _ _ len _ =>
                  let '(st, en) := slice_bounds_read s e (Z.of_nat len) in
                  Some (reslice false v (Z.to_nat st) (Z.to_nat en))
              | _ => None end
  | PBad => None
  end.

Fixpoint h_getpath (h : heap) (v : hval) (p : path) : option hval :=
  match p with
  | [] => Some v
  | c :: r =>
      match v with
      | HNull | HArr _ _ _ _ | HMap _ => match h_index2 h v c with Some x => h_getpath h x r | None => None end
      | _ => None
      end
  end.

(* ---- abstraction: read a value out of the heap; None = deeper than the fuel (cyclic) or ill-formed ---- *)
Fixpoint abs (fuel : nat) (h : heap) (v : hval) : option jv :=
  match fuel with
  | O => None
  | S f =>
      match v with
      | HNull => Some JNull
      | HBool b => Some (JBool b)
      | HNum z => Some (JNum z)
      | HStr s => Some (JStr s)
      | HEmpty => Some JEmpty
      | HNilArr => Some (JArr [])
      | HArr a off len cap =>
          (fix go (l : list hval) : option jv :=
             match l with
             | [] => Some (JArr [])
             | x :: r => match abs f h x, go r with
                         | Some jx, Some (JArr jr) => Some (JArr (jx :: jr))
                         | _, _ => None end
             end) (elems h v)
      | HMap a =>
          (fix go (m : list (key * hval)) : option jv :=
             match m with
             | [] => Some (JObj [])
             | (k, x) :: r => match abs f h x, go r with
                              | Some jx, Some (JObj jr) => Some (JObj ((k, jx) :: jr))
                              | _, _ => None end
             end) (kvs_of h a)
      end
  end.

(* delpaths(v, paths, a): mark every path with the marker, then sweep *)
Section Delpaths.
Variable cfg : config.
Fixpoint mark_all (h : heap) (A : alloc) (v : hval) (ps : list path) : option (heap * alloc * hval) :=
  match ps with
  | [] => Some (h, A, v)
  | p :: r => match update cfg h A v p HEmpty with
              | Some (h1, A1, u) => mark_all h1 A1 u r
              | None => None end
  end.
Definition delpaths (fuel : nat) (h : heap) (A : alloc) (v : hval) (ps : list path) : option (heap * alloc * hval) :=
  match ps with
  | [] => Some (h, A, v)
  | _ => match mark_all h A v ps with
         | Some (h1, A1, u) => match delete_empty fuel h1 A1 u with
                               | Some (h2, w) => Some (h2, A1, w)
                               | None => None end
         | None => None end
  end.
End Delpaths.
