(* C02 — the unconditional refinement statements are FALSE for the code as it is: witnesses found by
   running the heap model (the model-level images of the known findings D5 and D9 of docs/C02.md), the
   regression example for the repaired D4, and a concrete instance showing that the hypotheses of the
   positive theorem are satisfiable. *)
From Coq Require Import List ZArith NArith Bool Lia.
From Verif Require Import c02.Path c02.PathProofs c02.HeapPath c02.HeapInv c02.HeapProofs c02.HeapAbs.
Import ListNotations.
Open Scope nat_scope.

(* what abs_update concludes, for any configuration of the model *)
Definition refines (cfg : config) (h : heap) (ps : list ptr) (v : hval) (p : path) (n : hval) (j jn : jv) : Prop :=
  match setpath j p jn with
  | None => update cfg h (Some ps) v p n = None
  | Some j' => exists h' A' u, update cfg h (Some ps) v p n = Some (h', A', u) /\ exists fuel, abs fuel h' u = Some j'
  end.

(* 1. without "the new value is frozen": any acyclic new value, paths without slices *)
Definition full_any_value (cfg : config) : Prop := forall p h ps v j fp n jn,
  alloc_wf ps -> orep h ps j v fp -> NoDup fp -> (exists fuel, abs fuel h n = Some jn) -> no_slice p ->
  refines cfg h ps v p n j jn.

(* 2. without the ownership invariant: any acyclic state, paths without slices, a frozen new value *)
Definition full_any_state (cfg : config) : Prop := forall p h ps v j n jn,
  alloc_wf ps -> (exists fuel, abs fuel h v = Some j) -> frep h ps jn n -> no_slice p ->
  refines cfg h ps v p n j jn.

(* ---- D4 (repaired by 8b3b8e6): [1,2,3] | (.[2],.[0:1][1]) |= 7, the state after the first path.
   With the two-index reslice of the old code the sub-slice of the allocated array grew in place over the
   parent's next cell; with the current three-index reslice the model gives the reference value. ---- *)
Definition h4 : heap := [OArr [HNum 1; HNum 2; HNum 7]].
Definition p4 : path := [PS (Some (bz 0)) (Some (bz 1)); PI 1].

Example D4_regression :
  let run cfg := match update cfg h4 (Some [PArr 0 0]) (HArr 0 0 3 3) p4 (HNum 7%Z) with
                 | Some (h', _, u) => abs 8 h' u | None => None end in
  run two_index = Some (JArr [JNum 1; JNum 7; JNum 7; JNum 7]) /\
  run current = Some (JArr [JNum 1; JNum 7; JNum 2; JNum 7]) /\
  setpath (JArr [JNum 1; JNum 2; JNum 7]) p4 (JNum 7%Z) = Some (JArr [JNum 1; JNum 7; JNum 2; JNum 7]).
Proof. vm_compute. repeat split. Qed.

(* ---- D5 on the current code: [0,1] | (.[1:],.[1:]) |= [.], the state after the first path; the new
   value is the array the update body built around the slice it received: the result is CYCLIC ---- *)
Definition h5s : heap := [OArr [HNum 0; HNum 1]; OArr [HNum 0; HArr 0 1 1 1]; OArr [HArr 1 1 1 1]].

Lemma cyc5s : forall fuel, abs fuel [OArr [HNum 0; HNum 1]; OArr [HNum 0; HArr 1 1 1 1]; OArr [HArr 1 1 1 1]] (HArr 1 1 1 1) = None.
Proof. induction fuel; auto. simpl. simpl in IHfuel. rewrite IHfuel. auto. Qed.

Example D5_cyclic :
  exists h' A',
    update current h5s (Some [PArr 1 0]) (HArr 1 0 2 2) [PS (Some (bz 1)) None] (HArr 2 0 1 1) = Some (h', A', HArr 1 0 2 2) /\
    (forall fuel, abs fuel h' (HArr 1 0 2 2) = None) /\
    abs 5 h5s (HArr 1 0 2 2) = Some (JArr [JNum 0; JArr [JNum 1]]) /\
    abs 5 h5s (HArr 2 0 1 1) = Some (JArr [JArr [JArr [JNum 1]]]).
Proof.
  eexists. eexists. split. { vm_compute. reflexivity. }
  split. { intros fuel. destruct fuel; auto. simpl. pose proof (cyc5s fuel) as C. simpl in C. rewrite C.
           destruct fuel; auto. }
  split; reflexivity.
Qed.

(* ---- D5-style: a new value that contains an allocated container of the state ---- *)
Definition h5 : heap := [OArr [HNull]].

Lemma cyc5 : forall fuel, abs fuel [OArr [HArr 0 0 1 1]] (HArr 0 0 1 1) = None.
Proof. induction fuel; auto. simpl. simpl in IHfuel. rewrite IHfuel. auto. Qed.

Theorem abs_update_refuted_alias : ~ full_any_value current.
Proof.
  intro H.
  specialize (H [PI 0%Z] h5 [PArr 0 0] (HArr 0 0 1 1) (JArr [JNull]) [0] (HArr 0 0 1 1) (JArr [JNull])).
  unfold refines in H. simpl setpath in H.
  destruct H as (h' & A' & u & Hu & fuel & Ha).
  - intros a off [E|[]]. inversion E. auto.
  - apply orep_arr. exists 0, 0, 1, 1, [HNull], [[]]. repeat split; simpl; auto; try (right; repeat split; simpl; auto).
  - repeat constructor. simpl. tauto.
  - exists 3. reflexivity.
  - repeat constructor.
  - vm_compute in Hu. inversion Hu; subst. rewrite cyc5 in Ha. discriminate.
Qed.

(* ---- D9: [null] | (.[0],.,.[0][0]) |= [.,.], the state after the second path: the container made by
   the update body holds the allocated array twice ---- *)
Definition h9 : heap :=
  [OArr [HNull]; OArr [HNull; HNull]; OArr [HArr 1 0 2 2]; OArr [HArr 2 0 1 1; HArr 2 0 1 1]].

Theorem abs_update_refuted_shared : ~ full_any_state current.
Proof.
  intro H.
  specialize (H [PI 0%Z; PI 0%Z] h9 [PArr 2 0] (HArr 3 0 2 2)
                (JArr [JArr [JArr [JNull; JNull]]; JArr [JArr [JNull; JNull]]]) (HNum 5%Z) (JNum 5%Z)).
  unfold refines in H. simpl setpath in H.
  destruct H as (h' & A' & u & Hu & fuel & Ha).
  - intros a off [E|[]]. inversion E. auto.
  - exists 5. reflexivity.
  - split; auto.
  - repeat constructor.
  - vm_compute in Hu. inversion Hu; subst. clear Hu.
    do 6 (destruct fuel as [|fuel]; [discriminate|]). vm_compute in Ha. discriminate.
Qed.

(* ---- the positive theorem is not vacuous: an allocated array with spare capacity, written in place
   beyond its length (hypotheses hold, the write happens in the old backing array) ---- *)
Example abs_update_nonvacuous :
  let h := [OArr [HNum 1; HMap 1; HNull]; OMap [([97%N], HNum 2)]] in
  let ps := [PArr 0 0] in
  alloc_wf ps /\ orep h ps (JArr [JNum 1; JObj [([97%N], JNum 2)]]) (HArr 0 0 2 3) [0] /\ NoDup [0] /\
  frep h ps (JNum 7) (HNum 7) /\ no_slice [PI 2%Z] /\
  update current h (Some ps) (HArr 0 0 2 3) [PI 2%Z] (HNum 7) =
    Some ([OArr [HNum 1; HMap 1; HNum 7]; OMap [([97%N], HNum 2)]], Some ps, HArr 0 0 3 3) /\
  setpath (JArr [JNum 1; JObj [([97%N], JNum 2)]]) [PI 2%Z] (JNum 7) = Some (JArr [JNum 1; JObj [([97%N], JNum 2)]; JNum 7]).
Proof.
  cbv zeta. split. { intros a off [E|[]]. inversion E. auto. }
  split.
  { apply orep_arr. exists 0, 0, 2, 3, [HNum 1; HMap 1; HNull], [[]; []].
    split; [reflexivity|]. split; [reflexivity|]. split; [simpl; lia|]. split.
    - cbn [firstn skipn reps3]. split. { split; auto. } split; auto.
      apply orep_obj. exists 1, [([97%N], HNum 2)], [[]].
      split; [reflexivity|]. split; [reflexivity|]. split. { simpl. split; auto. intros ? []. }
      split. { simpl. repeat split; auto. }
      left. repeat split; auto. intros [(off & [E|[]]) | [E|[]]]; discriminate.
    - right. repeat split; simpl; auto. }
  split. { repeat constructor. simpl. tauto. }
  split. { split; auto. }
  split. { repeat constructor. }
  split; reflexivity.
Qed.

(* hence the statement without any side condition is false *)
Theorem heap_full_refuted :
  ~ (forall p h ps v j n jn,
       alloc_wf ps -> (exists fuel, abs fuel h v = Some j) -> (exists fuel, abs fuel h n = Some jn) ->
       refines current h ps v p n j jn).
Proof.
  intro H. apply abs_update_refuted_shared. intros p h ps v j n jn Hwf Hv Hn Hns. apply H; auto.
  exists (S (depth jn)). eapply orep_abs; eauto.
Qed.

(* ---- D11 (repaired by 73ac0b6): {"a":[1,2,3]} | (.a[0],.a,.a[2]) |= (if type=="array" then .[0:1] else 10 end).
   After the first path the reduction owns a copy of the object (address 2) and of the array (address 1, cells
   [10,2,3]); the second path hands that array to the body, which returns the PREFIX SLICE .[0:1] of it: same
   pointer, len 1, cap 3, so the allocator still owns it and the cells 1,2 of the backing array keep 2 and 3.
   The third path writes index 2: in-place growth.  The code before the fix exposed the stale 2; the current
   code clears the exposed cell and gives what the defining reduction gives.  The whole reduction is run from
   the input (three updates, the body applied by hand between them). ---- *)
Definition key_a : key := [97%N].
Definition h11 : heap := [OArr [HNum 1; HNum 2; HNum 3]; OMap [(key_a, HArr 0 0 3 3)]].
Definition body11 (h : heap) (x : hval) : hval :=
  match x with HArr _ _ _ _ => reslice false x 0 1 | _ => HNum 10 end.
Definition bodyv11 (x : jv) : jv := match x with JArr l => JArr (firstn 1 l) | _ => JNum 10 end.

Definition run11 (cfg : config) : option (heap * hval) :=
  let step (st : option (heap * alloc * hval)) (p : path) :=
    match st with
    | Some (h, A, v) =>
        match h_getpath h v p with
        | Some x => update cfg h A v p (body11 h x)
        | None => None
        end
    | None => None
    end in
  match fold_left step [[PK key_a; PI 0%Z]; [PK key_a]; [PK key_a; PI 2%Z]] (Some (h11, Some [], HMap 1)) with
  | Some (h, _, v) => Some (h, v)
  | None => None
  end.

Definition ref11 : option jv :=
  fold_left (fun acc p => match acc with
                          | Some j => match getpath j p with Some x => setpath j p (bodyv11 x) | None => None end
                          | None => None end)
            [[PK key_a; PI 0%Z]; [PK key_a]; [PK key_a; PI 2%Z]]
            (Some (JObj [(key_a, JArr [JNum 1; JNum 2; JNum 3])])).

Example D11_regression :
  let out cfg := match run11 cfg with Some (h, v) => abs 8 h v | None => None end in
  out old_growth = Some (JObj [(key_a, JArr [JNum 10; JNum 2; JNum 10])]) /\
  out current = Some (JObj [(key_a, JArr [JNum 10; JNull; JNum 10])]) /\
  ref11 = Some (JObj [(key_a, JArr [JNum 10; JNull; JNum 10])]) /\
  (* the input is left alone by both *)
  (forall cfg, match run11 cfg with Some (h, _) => abs 8 h (HMap 1) | None => None end =
               Some (JObj [(key_a, JArr [JNum 1; JNum 2; JNum 3])])).
Proof.
  cbv zeta. split; [vm_compute; reflexivity|]. split; [vm_compute; reflexivity|]. split; [vm_compute; reflexivity|].
  intros [[] []]; vm_compute; reflexivity.
Qed.

(* the single native step: the state after the second path (the allocated array seen through a prefix header
   with stale hidden cells) violates the hidden-cells-are-nil clause of [orep]; the old growth exposes the
   stale cell, the current one clears it *)
Example D11_step :
  let h := [OArr [HNum 10; HNum 2; HNum 3]] in
  let run cfg := match update cfg h (Some [PArr 0 0]) (HArr 0 0 1 3) [PI 2%Z] (HNum 10) with
                 | Some (h', _, u) => Some (h', u) | None => None end in
  run old_growth = Some ([OArr [HNum 10; HNum 2; HNum 10]], HArr 0 0 3 3) /\
  run current = Some ([OArr [HNum 10; HNull; HNum 10]], HArr 0 0 3 3) /\
  setpath (JArr [JNum 10]) [PI 2%Z] (JNum 10) = Some (JArr [JNum 10; JNull; JNum 10]).
Proof. vm_compute. repeat split. Qed.
