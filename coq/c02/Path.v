(* C02 — value-level getpath / setpath / delpaths (func.go: funcGetpath, funcIndex2, index, slice,
   clampIndex, update, updateObject, updateArrayIndex, updateArraySlice, delpaths, deleteEmpty) as pure
   functions on JSON values.  Definitions only (proofs: PathProofs.v).

   Values: numbers are integers (the cases exercised by this property use small ints; float path
   components are C03/C10 business).  Objects are association lists kept SORTED by key (the harness
   prints Go maps with sorted keys).  [JEmpty] is the deletion marker struct{}{} that `delpaths` writes
   before sweeping; it never occurs in user values ([clean]).
   Errors are collapsed to one class ([None]): the property does not constrain message wording. *)
From Coq Require Import List ZArith NArith Bool Lia.
Import ListNotations.
Open Scope Z_scope.

Definition key := list N.

Inductive jv :=
| JNull | JBool (b : bool) | JNum (z : Z) | JStr (s : key) | JEmpty
| JArr (l : list jv) | JObj (m : list (key * jv)).

(* A slice bound as the Go code sees it: any JSON number (int, float64, *big.Int, json.Number).  What the
   rounding functions of func.go need of its value x: floor(x) and whether x is an integer; NaN apart.
   (+-Inf, 1e300, big integers: a huge [bfloor]; -0.0 = BNum 0 true.) *)
Inductive bound := BNum (bfloor : Z) (isint : bool) | BNaN.
Definition bz (z : Z) : bound := BNum z true.

Definition min_int : Z := -9223372036854775808.
Definition max_int : Z := 9223372036854775807.
(* toInt saturates what does not fit an int; floatToInt(NaN) = math.MinInt (both comparisons are false) *)
Definition sat (z : Z) : Z := Z.max min_int (Z.min max_int z).
(* toInt on a float: int(x) truncates toward zero *)
Definition b_trunc (b : bound) : Z :=
  match b with
  | BNum fl true => sat fl
  | BNum fl false => sat (if fl <? 0 then fl + 1 else fl)
  | BNaN => min_int
  end.
(* toIntCeil: math.Ceil first *)
Definition b_ceil (b : bound) : Z :=
  match b with
  | BNum fl true => sat fl
  | BNum fl false => sat (fl + 1)
  | BNaN => min_int
  end.

(* The READ side (func.go `slice`, used by .[s:e], funcIndex2 and getpath) and the WRITE side
   (`updateArraySlice`, used by setpath / delpaths / = / |= / del) compute their bounds in two separate
   functions of func.go; they are transcribed separately so that a divergence between them is visible
   in the model (docs/C02.md).  In the current code both use toInt for start and toIntCeil for end. *)
Definition read_start (b : bound) : Z := b_trunc b.
Definition read_end (b : bound) : Z := b_ceil b.
Definition write_start (b : bound) : Z := b_trunc b.
Definition write_end (b : bound) : Z := b_ceil b.

(* path components as update/getpath distinguish them *)
Inductive pcomp :=
| PK (k : key)                       (* string *)
| PI (i : Z)                         (* number (toInt) *)
| PS (s e : option bound)            (* {"start":s,"end":e} with null or numeric bounds *)
| PBad.                              (* null, bool, array, or an object without start/end: always an error *)

Definition path := list pcomp.

(* ---- keys ---- *)
Fixpoint key_cmp (a b : key) : comparison :=
  match a, b with
  | [], [] => Eq
  | [], _ => Lt
  | _, [] => Gt
  | x :: a', y :: b' => match N.compare x y with Eq => key_cmp a' b' | c => c end
  end.
Definition key_eqb (a b : key) : bool := match key_cmp a b with Eq => true | _ => false end.

Fixpoint lookup {V} (k : key) (m : list (key * V)) : option V :=
  match m with
  | [] => None
  | (k', v) :: r => if key_eqb k k' then Some v else lookup k r
  end.

(* insert or replace, keeping the list sorted *)
Fixpoint insert {V} (k : key) (v : V) (m : list (key * V)) : list (key * V) :=
  match m with
  | [] => [(k, v)]
  | (k', v') :: r =>
      match key_cmp k k' with
      | Lt => (k, v) :: m
      | Eq => (k, v) :: r
      | Gt => (k', v') :: insert k v r
      end
  end.

(* ---- clampIndex ---- *)
Definition clamp (i lo hi : Z) : Z :=
  let i := if i <? 0 then i + hi else i in
  if i <? lo then lo else if i <? hi then i else hi.

Definition zlen {X} (l : list X) : Z := Z.of_nat (length l).

Definition slice_bounds_gen (fs fe : bound -> Z) (s e : option bound) (n : Z) : Z * Z :=
  let st := match s with Some b => clamp (fs b) 0 n | None => 0 end in
  let en := match e with Some b => clamp (fe b) st n | None => n end in
  (st, en).
Definition slice_bounds_read := slice_bounds_gen read_start read_end.
Definition slice_bounds_write := slice_bounds_gen write_start write_end.

Definition sub {X} (l : list X) (st en : Z) : list X :=
  firstn (Z.to_nat (en - st)) (skipn (Z.to_nat st) l).

(* ---- getpath (funcGetpath over funcIndex2; strings are rejected by funcGetpath) ---- *)
Definition index2 (v : jv) (c : pcomp) : option jv :=
  match c with
  | PK k => match v with
            | JNull => Some JNull
            | JObj m => Some (match lookup k m with Some x => x | None => JNull end)
            | _ => None end
  | PI i => match v with
            | JNull => Some JNull
            | JArr l => let j := clamp i (-1) (zlen l) in
                        Some (if (0 <=? j) && (j <? zlen l) then nth (Z.to_nat j) l JNull else JNull)
            | _ => None end
  | PS s e => match v with
              | JNull => Some JNull
              | JArr l => let '(st, en) := slice_bounds_read s e (zlen l) in Some (JArr (sub l st en))
              | _ => None end
  | PBad => None
  end.

Fixpoint getpath (v : jv) (p : path) : option jv :=
  match p with
  | [] => Some v
  | c :: r =>
      match v with
      | JNull | JArr _ | JObj _ => match index2 v c with Some x => getpath x r | None => None end
      | _ => None
      end
  end.

(* ---- update (n = JEmpty is the deletion marker) ---- *)
Definition is_empty (v : jv) : bool := match v with JEmpty => true | _ => false end.

Definition max_index : Z := 536870912. (* 0x20000000 *)

(* w := copy of l extended with nulls to length >= i+1, w[i] := u *)
Definition set_nth (l : list jv) (i : nat) (u : jv) : list jv :=
  firstn i l ++ repeat JNull (i - length l) ++ u :: skipn (S i) l.

Fixpoint update (v : jv) (p : path) (n : jv) : option jv :=
  match p with
  | [] => Some n
  | PK k :: r =>
      let upd_obj (m : list (key * jv)) (isnil : bool) :=
        match lookup k m with
        | None => if is_empty n then Some v
                  else match update JNull r n with Some u => Some (JObj (insert k u m)) | None => None end
        | Some x => match update x r n with Some u => Some (JObj (insert k u m)) | None => None end
        end in
      match v with
      | JNull => upd_obj [] true
      | JObj m => upd_obj m false
      | JEmpty => Some v
      | _ => None
      end
  | PI i :: r =>
      let upd_arr (l : list jv) :=
        let len := zlen l in
        let j := clamp i (-1) len in
        if j <? 0 then (if is_empty n then Some v else None)
        else if j <? len then
          match update (nth (Z.to_nat j) l JNull) r n with
          | Some u => Some (JArr (set_nth l (Z.to_nat j) u)) | None => None end
        else if is_empty n then Some v
        else if max_index <=? i then None
        else match update JNull r n with
             | Some u => Some (JArr (set_nth l (Z.to_nat i) u)) | None => None end in
      match v with
      | JNull => upd_arr []
      | JArr l => upd_arr l
      | JEmpty => Some v
      | _ => None
      end
  | PS s e :: r =>
      let upd_sl (l : list jv) :=
        let '(st, en) := slice_bounds_write s e (zlen l) in
        if (st =? en) && is_empty n then Some v
        else match update (JArr (sub l st en)) r n with
             | Some (JArr u) => Some (JArr (firstn (Z.to_nat st) l ++ u ++ skipn (Z.to_nat en) l))
             | Some JEmpty => Some (JArr (firstn (Z.to_nat st) l ++ repeat JEmpty (Z.to_nat (en - st)) ++ skipn (Z.to_nat en) l))
             | _ => None
             end in
      match v with
      | JNull => upd_sl []
      | JArr l => upd_sl l
      | JEmpty => Some v
      | _ => None
      end
  | PBad :: _ => None
  end.

Definition setpath (v : jv) (p : path) (n : jv) : option jv := update v p n.

(* ---- deleteEmpty / delpaths ---- *)
Fixpoint delete_empty (v : jv) : jv :=
  match v with
  | JEmpty => JNull
  | JArr l =>
      JArr ((fix go (l : list jv) : list jv :=
               match l with
               | [] => []
               | x :: r => if is_empty x then go r else delete_empty x :: go r
               end) l)
  | JObj m =>
      JObj ((fix go (m : list (key * jv)) : list (key * jv) :=
               match m with
               | [] => []
               | (k, x) :: r => if is_empty x then go r else (k, delete_empty x) :: go r
               end) m)
  | _ => v
  end.

Fixpoint mark_all (v : jv) (ps : list path) : option jv :=
  match ps with
  | [] => Some v
  | p :: r => match update v p JEmpty with Some u => mark_all u r | None => None end
  end.

Definition delpaths (v : jv) (ps : list path) : option jv :=
  match ps with
  | [] => Some v
  | _ => option_map delete_empty (mark_all v ps)
  end.

(* a single deletion *)
Definition delpath (v : jv) (p : path) : option jv := delpaths v [p].

(* ---- predicates used by the laws ---- *)
Fixpoint clean (v : jv) : Prop :=
  match v with
  | JEmpty => False
  | JArr l => (fix go (l : list jv) : Prop := match l with [] => True | x :: r => clean x /\ go r end) l
  | JObj m => (fix go (m : list (key * jv)) : Prop := match m with [] => True | (_, x) :: r => clean x /\ go r end) m
  | _ => True
  end.

Definition simple_comp (c : pcomp) : Prop :=
  match c with PK _ => True | PI i => 0 <= i | _ => False end.
Definition no_slice_comp (c : pcomp) : Prop :=
  match c with PK _ | PI _ => True | _ => False end.
Definition simple_path (p : path) : Prop := Forall simple_comp p.
Definition no_slice (p : path) : Prop := Forall no_slice_comp p.

Definition comp_eqb (a b : pcomp) : bool :=
  match a, b with
  | PK x, PK y => key_eqb x y
  | PI x, PI y => x =? y
  | _, _ => false
  end.

(* two simple paths diverge: they first differ at a position where both are keys or both are indices *)
Fixpoint diverge (p q : path) : Prop :=
  match p, q with
  | PK a :: p', PK b :: q' => if key_eqb a b then diverge p' q' else True
  | PI a :: p', PI b :: q' => if a =? b then diverge p' q' else True
  | _, _ => False
  end.
