(* C02 — proofs about the heap-level model (HeapPath.v) against the value level (Path.v). *)
From Coq Require Import List ZArith NArith Bool Lia Permutation.
From Verif Require Import c02.Path c02.PathProofs c02.HeapPath c02.HeapInv.
Import ListNotations.
Open Scope nat_scope.

(* ------------------------------------------------------------------------------------------------ *)
(* unfolding orep *)
Lemma reps_fix_iff h ps : forall js xs fps,
  (fix reps (js : list jv) (xs : list hval) (fps : list (list nat)) : Prop :=
     match js, xs, fps with
     | [], [], [] => True
     | j :: js', x :: xs', f :: fps' => orep h ps j x f /\ reps js' xs' fps'
     | _, _, _ => False
     end) js xs fps <-> reps3 (orep h ps) js xs fps.
Proof.
  induction js; destruct xs, fps; simpl; try tauto. rewrite IHjs. tauto.
Qed.

Lemma repm_fix_iff h ps : forall jm xs fps,
  (fix repm (jm : list (key * jv)) (xs : list (key * hval)) (fps : list (list nat)) : Prop :=
     match jm, xs, fps with
     | [], [], [] => True
     | (k, j) :: jm', (k', x) :: xs', f :: fps' => k = k' /\ orep h ps j x f /\ repm jm' xs' fps'
     | _, _, _ => False
     end) jm xs fps <-> repm3 (orep h ps) jm xs fps.
Proof.
  induction jm as [|[k j] jm]; destruct xs as [|[k' x] xs], fps; simpl; try tauto. rewrite IHjm. tauto.
Qed.

Lemma orep_arr h ps js v fp :
  orep h ps (JArr js) v fp <->
  exists a off len cap cells fps,
    v = HArr a off len cap /\ nth_error h a = Some (OArr cells) /\ off + len <= length cells /\
    reps3 (orep h ps) js (firstn len (skipn off cells)) fps /\
    ((~ aaddr ps a /\ concat fps = [] /\ fp = []) \/
     (In (PArr a 0) ps /\ off = 0 /\ cap = length cells /\ fp = a :: concat fps)).
Proof.
  cbn [orep]. split; intros (a & off & len & cap & cells & fps & H1 & H2 & H3 & H4 & H5);
    exists a, off, len, cap, cells, fps; repeat split; auto; apply reps_fix_iff; auto.
Qed.

Lemma orep_obj h ps jm v fp :
  orep h ps (JObj jm) v fp <->
  exists a kvs fps,
    v = HMap a /\ nth_error h a = Some (OMap kvs) /\ ksorted kvs /\
    repm3 (orep h ps) jm kvs fps /\
    ((~ aaddr ps a /\ concat fps = [] /\ fp = []) \/ (In (PMap a) ps /\ fp = a :: concat fps)).
Proof.
  cbn [orep]. split; intros (a & kvs & fps & H1 & H2 & H3 & H4 & H5);
    exists a, kvs, fps; repeat split; auto; apply repm_fix_iff; auto.
Qed.

(* induction on jv with the nested lists *)
Section JvInd.
  Variable P : jv -> Prop.
  Hypothesis Hnull : P JNull.
  Hypothesis Hbool : forall b, P (JBool b).
  Hypothesis Hnum : forall z, P (JNum z).
  Hypothesis Hstr : forall s, P (JStr s).
  Hypothesis Hempty : P JEmpty.
  Hypothesis Harr : forall l, Forall P l -> P (JArr l).
  Hypothesis Hobj : forall m, Forall (fun kv => P (snd kv)) m -> P (JObj m).
  Fixpoint jv_ind' (v : jv) : P v :=
    match v with
    | JNull => Hnull | JBool b => Hbool b | JNum z => Hnum z | JStr s => Hstr s | JEmpty => Hempty
    | JArr l => Harr l ((fix go (l : list jv) : Forall P l :=
                           match l with [] => Forall_nil _ | x :: r => Forall_cons _ (jv_ind' x) (go r) end) l)
    | JObj m => Hobj m ((fix go (m : list (key * jv)) : Forall (fun kv => P (snd kv)) m :=
                           match m with [] => Forall_nil _ | (k, x) :: r => Forall_cons (k, x) (jv_ind' x) (go r) end) m)
    end.
End JvInd.

(* ------------------------------------------------------------------------------------------------ *)
(* generic facts about the parallel lists *)
Lemma reps3_length {A B C} (R : A -> B -> C -> Prop) : forall xs ys zs,
  reps3 R xs ys zs -> length xs = length ys /\ length xs = length zs.
Proof.
  induction xs; destruct ys, zs; simpl; try tauto. intros [_ H]. apply IHxs in H. lia.
Qed.

Lemma reps3_mono {A B C} (R R' : A -> B -> C -> Prop) : forall xs ys zs,
  Forall (fun x => forall y z, R x y z -> R' x y z) xs -> reps3 R xs ys zs -> reps3 R' xs ys zs.
Proof.
  induction xs; destruct ys, zs; simpl; try tauto. intros HF [H1 H2]. inversion HF; subst. split; auto.
Qed.

Lemma repm3_mono {A B C} (R R' : A -> B -> C -> Prop) : forall xs ys zs,
  Forall (fun kx => forall y z, R (snd kx) y z -> R' (snd kx) y z) xs -> repm3 R xs ys zs -> repm3 R' xs ys zs.
Proof.
  induction xs as [|[k x] xs]; destruct ys as [|[k' y] ys], zs; simpl; try tauto.
  intros HF (H0 & H1 & H2). inversion HF; subst. repeat split; auto.
Qed.

Lemma reps3_In_fp {A B C} (R : A -> B -> C -> Prop) : forall xs ys zs z,
  reps3 R xs ys zs -> In z zs -> exists x y, In x xs /\ R x y z.
Proof.
  induction xs; destruct ys, zs; simpl; try tauto. intros z [H1 H2] [->|Hin]; eauto.
  destruct (IHxs _ _ _ H2 Hin) as (x & y & ? & ?). eauto.
Qed.

Lemma reps3_nth {A B C} (R : A -> B -> C -> Prop) da db dc : forall xs ys zs i,
  reps3 R xs ys zs -> i < length xs -> R (nth i xs da) (nth i ys db) (nth i zs dc).
Proof.
  induction xs; destruct ys, zs; simpl; try tauto; try lia. intros i [H1 H2] Hi. destruct i; auto. apply IHxs; auto. lia.
Qed.

Lemma reps3_app {A B C} (R : A -> B -> C -> Prop) : forall xs ys zs xs' ys' zs',
  reps3 R xs ys zs -> reps3 R xs' ys' zs' -> reps3 R (xs ++ xs') (ys ++ ys') (zs ++ zs').
Proof.
  induction xs; destruct ys, zs; simpl; try tauto. intros ? ? ? [H1 H2] H3. split; auto.
Qed.

Lemma reps3_firstn {A B C} (R : A -> B -> C -> Prop) : forall n xs ys zs,
  reps3 R xs ys zs -> reps3 R (firstn n xs) (firstn n ys) (firstn n zs).
Proof.
  induction n; destruct xs, ys, zs; simpl; try tauto. intros [H1 H2]. split; auto.
Qed.

Lemma reps3_skipn {A B C} (R : A -> B -> C -> Prop) : forall n xs ys zs,
  reps3 R xs ys zs -> reps3 R (skipn n xs) (skipn n ys) (skipn n zs).
Proof.
  induction n; destruct xs, ys, zs; simpl; try tauto. intros [H1 H2]. auto.
Qed.

Lemma reps3_repeat {A B C} (R : A -> B -> C -> Prop) a b c : R a b c -> forall n,
  reps3 R (repeat a n) (repeat b n) (repeat c n).
Proof. induction n; simpl; auto. Qed.

(* the padded write on any list *)
Definition set_nth_g {X} (d : X) (l : list X) (i : nat) (u : X) : list X :=
  firstn i l ++ repeat d (i - length l) ++ u :: skipn (S i) l.

Lemma set_nth_is_g : forall l i u, set_nth l i u = set_nth_g JNull l i u.
Proof. reflexivity. Qed.

Lemma reps3_set_nth {A B C} (R : A -> B -> C -> Prop) da db dc : R da db dc -> forall xs ys zs i x y z,
  reps3 R xs ys zs -> R x y z -> reps3 R (set_nth_g da xs i x) (set_nth_g db ys i y) (set_nth_g dc zs i z).
Proof.
  intros Hd xs ys zs i x y z H Hx. unfold set_nth_g.
  destruct (reps3_length _ _ _ _ H) as [L1 L2]. rewrite <- L1, <- L2.
  apply reps3_app. { apply reps3_firstn; auto. }
  apply reps3_app. { apply reps3_repeat; auto. }
  simpl. split; auto. apply (reps3_skipn R (S i)); auto.
Qed.

Lemma concat_repeat_nil {X} : forall n, concat (repeat (@nil X) n) = [].
Proof. induction n; simpl; auto. Qed.

Lemma in_concat_set_nth : forall (fps : list (list nat)) i f a,
  In a (concat (set_nth_g [] fps i f)) -> In a f \/ In a (concat fps).
Proof.
  intros fps i f a. unfold set_nth_g. rewrite !concat_app, concat_repeat_nil. simpl.
  rewrite !in_app_iff. intros [H | [H | H]]; auto.
  - right. rewrite <- (firstn_skipn i fps), concat_app, in_app_iff. auto.
  - right. rewrite <- (firstn_skipn (S i) fps), concat_app, in_app_iff. auto.
Qed.

Lemma nodup_app : forall (l l' : list nat),
  NoDup (l ++ l') <-> NoDup l /\ NoDup l' /\ (forall a, In a l -> ~ In a l').
Proof.
  induction l; simpl; intros.
  - split. + intros; repeat split; auto; constructor. + tauto.
  - rewrite !NoDup_cons_iff, IHl, in_app_iff. split.
    + intros (H1 & H2 & H3 & H4). repeat split; auto. intros b [->|Hb]; auto.
    + intros ((H1 & H2) & H3 & H4). repeat split; auto. intros [H|H]; auto. apply (H4 a); auto.
Qed.

Lemma concat_split_nth : forall (fps : list (list nat)) i, i < length fps ->
  Permutation (concat fps) (nth i fps [] ++ concat (firstn i fps) ++ concat (skipn (S i) fps)).
Proof.
  induction fps; simpl; intros; try lia. destruct i; simpl.
  - apply Permutation_refl.
  - rewrite (IHfps i) at 1 by lia. rewrite !app_assoc. apply Permutation_app_tail.
    rewrite <- !app_assoc. apply Permutation_app_swap_app.
Qed.

Lemma NoDup_concat_set_nth : forall (fps : list (list nat)) i f,
  NoDup (concat fps) -> NoDup f ->
  (forall a, In a f -> In a (nth i fps []) \/ ~ In a (concat fps)) ->
  NoDup (concat (set_nth_g [] fps i f)).
Proof.
  intros fps i f ND NDf Hf. unfold set_nth_g. rewrite !concat_app, concat_repeat_nil.
  change (concat (f :: skipn (S i) fps)) with (f ++ concat (skipn (S i) fps)). cbn [app].
  destruct (Nat.lt_ge_cases i (length fps)) as [Hi | Hi].
  - pose proof (concat_split_nth fps i Hi) as P.
    assert (ND' : NoDup (nth i fps [] ++ concat (firstn i fps) ++ concat (skipn (S i) fps))).
    { eapply Permutation_NoDup; eauto. }
    apply nodup_app in ND' as (_ & ND2 & D).
    eapply Permutation_NoDup. { apply Permutation_app_swap_app. }
    apply nodup_app. repeat split; auto.
    intros a Ha Hin. destruct (Hf a Ha) as [H | H].
    + apply (D a); auto.
    + apply H. eapply Permutation_in. { apply Permutation_sym. exact P. } rewrite in_app_iff. auto.
  - rewrite firstn_all2 by lia. rewrite skipn_all2 by lia. cbn [concat]. rewrite app_nil_r.
    apply nodup_app. repeat split; auto. intros a Ha Hin. destruct (Hf a Hin) as [H | H]; auto.
    rewrite nth_overflow in H by lia. destruct H.
Qed.

(* ------------------------------------------------------------------------------------------------ *)
(* maps: lookup / insert on the three parallel lists *)
Fixpoint lookupf {V} (k : key) (m : list (key * V)) (fps : list (list nat)) : list nat :=
  match m, fps with
  | (k', _) :: r, f :: fr => if key_eqb k k' then f else lookupf k r fr
  | _, _ => []
  end.

Fixpoint insertf {V} (k : key) (f : list nat) (m : list (key * V)) (fps : list (list nat)) : list (list nat) :=
  match m, fps with
  | (k', _) :: r, f0 :: fr =>
      match key_cmp k k' with
      | Lt => f :: fps
      | Eq => f :: fr
      | Gt => f0 :: insertf k f r fr
      end
  | _, _ => [f]
  end.

Lemma repm3_lookup {A B} (R : A -> B -> list nat -> Prop) : forall jm kvs fps k,
  repm3 R jm kvs fps ->
  match lookup k jm, lookup k kvs with
  | Some j, Some x => R j x (lookupf k kvs fps)
  | None, None => True
  | _, _ => False
  end.
Proof.
  induction jm as [|[k1 j] jm]; destruct kvs as [|[k2 x] kvs], fps; simpl; try tauto.
  intros k (-> & H1 & H2). destruct (key_eqb k k2); auto. apply IHjm. auto.
Qed.

Lemma repm3_insert {A B} (R : A -> B -> list nat -> Prop) : forall jm kvs fps k j x f,
  repm3 R jm kvs fps -> R j x f -> repm3 R (insert k j jm) (insert k x kvs) (insertf k f kvs fps).
Proof.
  induction jm as [|[k1 j1] jm]; destruct kvs as [|[k2 x2] kvs], fps; simpl; try tauto.
  intros k j x f (-> & H1 & H2) H. destruct (key_cmp k k2); simpl; auto.
Qed.

Lemma repm3_length {A B C} (R : A -> B -> C -> Prop) : forall xs ys zs,
  repm3 R xs ys zs -> length ys = length zs.
Proof.
  induction xs as [|[k x] xs]; destruct ys as [|[k' y] ys], zs; simpl; try tauto. intros (_ & _ & H). f_equal. eauto.
Qed.

Lemma repm3_In_fp {A B C} (R : A -> B -> C -> Prop) : forall xs ys zs z,
  repm3 R xs ys zs -> In z zs -> exists kx y, In kx xs /\ R (snd kx) y z.
Proof.
  induction xs as [|[k x] xs]; destruct ys as [|[k' y] ys], zs; simpl; try tauto.
  intros z (_ & H1 & H2) [->|Hin]. { exists (k, x), y. auto. }
  destruct (IHxs _ _ _ H2 Hin) as (kx & y' & ? & ?). eauto.
Qed.

Lemma ksorted_lookup_lt {V} : forall (m : list (key * V)) k,
  (forall kv, In kv m -> key_cmp k (fst kv) = Lt) -> lookup k m = None.
Proof.
  induction m as [|[k' v] m]; simpl; auto. intros k H.
  assert (key_cmp k k' = Lt) by (apply (H (k', v)); auto).
  unfold key_eqb. rewrite H0. apply IHm. intros. apply H. auto.
Qed.

Lemma lookupf_lt {V} : forall (m : list (key * V)) fps k,
  (forall kv, In kv m -> key_cmp k (fst kv) = Lt) -> lookupf k m fps = [].
Proof.
  induction m as [|[k' v] m]; destruct fps; simpl; auto. intros k H.
  assert (key_cmp k k' = Lt) by (apply (H (k', v)); auto).
  unfold key_eqb. rewrite H0. apply IHm. intros. apply H. auto.
Qed.

Lemma ksorted_insert {V} : forall (m : list (key * V)) k v, ksorted m -> ksorted (insert k v m).
Proof.
  induction m as [|[k' v'] m]; simpl; intros k v H. { split; auto. intros ? []. }
  destruct H as [H1 H2]. destruct (key_cmp k k') eqn:E; simpl.
  - apply key_cmp_eq in E. subst. auto.
  - split; auto. intros kv [<- | Hin]; auto. simpl. eapply key_cmp_lt_trans; eauto.
  - split; auto. intros kv Hin.
    assert (forall kv, In kv (insert k v m) -> kv = (k, v) \/ In kv m) as Hins.
    { clear. induction m as [|[k2 v2] m]; simpl. { intros ? [<-|[]]; auto. }
      destruct (key_cmp k k2); simpl; intros kv [<-|H]; auto. destruct (IHm _ H); auto. }
    destruct (Hins _ Hin) as [-> | H]; auto. simpl. rewrite key_cmp_antisym, E. auto.
Qed.

Lemma in_concat_insertf {V} : forall (m : list (key * V)) fps k f a,
  In a (concat (insertf k f m fps)) -> In a f \/ In a (concat fps).
Proof.
  induction m as [|[k' v] m]; destruct fps; simpl; intros k f a H; try (rewrite app_nil_r in H; auto).
  destruct (key_cmp k k'); simpl in H; rewrite ?in_app_iff in *; try tauto.
  destruct H as [H|H]; auto. apply IHm in H. tauto.
Qed.

Lemma NoDup_concat_insertf {V} : forall (m : list (key * V)) fps k f,
  ksorted m -> length m = length fps ->
  NoDup (concat fps) -> NoDup f ->
  (forall a, In a f -> In a (lookupf k m fps) \/ ~ In a (concat fps)) ->
  NoDup (concat (insertf k f m fps)).
Proof.
  induction m as [|[k' v] m]; destruct fps; simpl; intros k f S L ND NDf Hf; try discriminate.
  - rewrite app_nil_r. auto.
  - destruct S as [S1 S2]. unfold key_eqb in Hf. destruct (key_cmp k k') eqn:E; simpl.
    + apply nodup_app in ND as (N1 & N2 & D). apply nodup_app. repeat split; auto.
      intros a Ha Hin. destruct (Hf a Ha) as [H|H]. { apply (D a); auto. } apply H. rewrite in_app_iff. auto.
    + apply nodup_app. repeat split; auto. intros a Ha Hin. destruct (Hf a Ha) as [H|H]; auto.
      rewrite lookupf_lt in H. { destruct H. }
      intros kv Hkv. eapply key_cmp_lt_trans; eauto.
    + apply nodup_app in ND as (N1 & N2 & D). apply nodup_app. repeat split; auto.
      * apply IHm; auto. intros a Ha. destruct (Hf a Ha) as [H|H]; auto. right. rewrite in_app_iff in H. tauto.
      * intros a Ha Hin. apply in_concat_insertf in Hin. destruct Hin as [Hin|Hin]. 2: { apply (D a); auto. }
        destruct (Hf a Hin) as [H|H]. 2: { apply H. rewrite in_app_iff. auto. }
        (* a in the footprint stored under k further right, and in l: contradiction with D *)
        assert (forall (m : list (key * V)) fps k a, In a (lookupf k m fps) -> In a (concat fps)) as Hl.
        { clear. induction m as [|[k2 v2] m]; destruct fps; simpl; intros; try tauto.
          rewrite in_app_iff. destruct (key_eqb k k2); eauto. }
        apply (D a); auto. eapply Hl; eauto.
Qed.

(* ------------------------------------------------------------------------------------------------ *)
(* frame *)
Lemma reps3_mono_in {A B C} (R R' : A -> B -> C -> Prop) : forall xs ys zs,
  Forall (fun x => forall y z, In z zs -> R x y z -> R' x y z) xs -> reps3 R xs ys zs -> reps3 R' xs ys zs.
Proof.
  induction xs; destruct ys, zs; simpl; try tauto. intros HF [H1 H2]. inversion HF; subst. split; auto.
  apply IHxs; auto. eapply Forall_impl; [|exact H4]. simpl. intros ? H ? ? ?. apply H. auto.
Qed.

Lemma repm3_mono_in {A B C} (R R' : A -> B -> C -> Prop) : forall xs ys zs,
  Forall (fun kx => forall y z, In z zs -> R (snd kx) y z -> R' (snd kx) y z) xs -> repm3 R xs ys zs -> repm3 R' xs ys zs.
Proof.
  induction xs as [|[k x] xs]; destruct ys as [|[k' y] ys], zs; simpl; try tauto.
  intros HF (H0 & H1 & H2). inversion HF; subst. split; [auto|split].
  - apply (H4 y c); simpl; auto.
  - apply IHxs; auto. eapply Forall_impl; [|exact H5]. simpl. intros ? H ? ? ?. apply H. auto.
Qed.

Lemma in_concat_of : forall (fps : list (list nat)) f a, In f fps -> In a f -> In a (concat fps).
Proof. intros. apply in_concat. eauto. Qed.

Lemma nth_error_lt {X} : forall (l : list X) a x, nth_error l a = Some x -> a < length l.
Proof. intros. apply nth_error_Some. congruence. Qed.

Lemma orep_fp : forall j h ps v fp, orep h ps j v fp -> forall a, In a fp -> aaddr ps a /\ a < length h.
Proof.
  induction j using jv_ind'; intros h ps v fp Hr a0 Hin;
    try (destruct Hr as [_ ->]; destruct Hin).
  - apply orep_arr in Hr as (a & off & len & cap & cells & fps & -> & Hn & Hl & Hc & [(Hf & Hcc & ->)|(Hp & -> & -> & ->)]).
    { destruct Hin. }
    destruct Hin as [<-|Hin]. { split. left; eauto. eapply nth_error_lt; eauto. }
    apply in_concat in Hin as (f & Hf & Ha).
    destruct (reps3_In_fp _ _ _ _ _ Hc Hf) as (x & y & Hx & Hr).
    rewrite Forall_forall in H. eapply H; eauto.
  - apply orep_obj in Hr as (a & kvs & fps & -> & Hn & Hs & Hc & [(Hf & Hcc & ->)|(Hp & ->)]).
    { destruct Hin. }
    destruct Hin as [<-|Hin]. { split. right; auto. eapply nth_error_lt; eauto. }
    apply in_concat in Hin as (f & Hf & Ha).
    destruct (repm3_In_fp _ _ _ _ _ Hc Hf) as (x & y & Hx & Hr).
    rewrite Forall_forall in H. eapply (H x); eauto.
Qed.

Lemma orep_frame : forall j h ps h' ps' v fp,
  orep h ps j v fp ->
  (forall a, a < length h -> (~ aaddr ps a \/ In a fp) -> nth_error h' a = nth_error h a) ->
  (forall p, In p ps -> In p ps') ->
  (forall a, aaddr ps' a -> aaddr ps a \/ length h <= a) ->
  orep h' ps' j v fp.
Proof.
  induction j using jv_ind'; intros h ps h' ps' v fp Hr Hh Hps Hnew; try exact Hr.
  - apply orep_arr in Hr as (a & off & len & cap & cells & fps & -> & Hn & Hl & Hc & Hcase).
    pose proof (nth_error_lt _ _ _ Hn) as Ha.
    apply orep_arr. exists a, off, len, cap, cells, fps.
    assert (Hsame : nth_error h' a = Some (OArr cells)).
    { rewrite Hh; auto. destruct Hcase as [(Hf & _)|(_ & _ & _ & ->)]; [left|right; left]; auto. }
    repeat split; auto.
    + eapply reps3_mono_in; [|exact Hc]. rewrite Forall_forall in *. intros x Hx y z Hz Hxr.
      eapply H; eauto. intros a0 Ha0 [Hna|Hin]; apply Hh; auto.
      right. destruct Hcase as [(_ & Hcc & _)|(_ & _ & _ & ->)].
      * assert (In a0 (concat fps)) by (eapply in_concat_of; eauto). rewrite Hcc in H0. destruct H0.
      * right. eapply in_concat_of; eauto.
    + destruct Hcase as [(Hf & Hcc & ->)|(Hp & -> & -> & ->)]; [left|right]; repeat split; auto.
      intro Hx. destruct (Hnew _ Hx); auto. lia.
  - apply orep_obj in Hr as (a & kvs & fps & -> & Hn & Hs & Hc & Hcase).
    pose proof (nth_error_lt _ _ _ Hn) as Ha.
    apply orep_obj. exists a, kvs, fps.
    assert (Hsame : nth_error h' a = Some (OMap kvs)).
    { rewrite Hh; auto. destruct Hcase as [(Hf & _)|(_ & ->)]; [left|right; left]; auto. }
    repeat split; auto.
    + eapply repm3_mono_in; [|exact Hc]. rewrite Forall_forall in *. intros x Hx y z Hz Hxr.
      eapply (H x); eauto. intros a0 Ha0 [Hna|Hin]; apply Hh; auto.
      right. destruct Hcase as [(_ & Hcc & _)|(_ & ->)].
      * assert (In a0 (concat fps)) by (eapply in_concat_of; eauto). rewrite Hcc in H0. destruct H0.
      * right. eapply in_concat_of; eauto.
    + destruct Hcase as [(Hf & Hcc & ->)|(Hp & ->)]; [left|right]; repeat split; auto.
      intro Hx. destruct (Hnew _ Hx); auto. lia.
Qed.

(* ------------------------------------------------------------------------------------------------ *)
(* heap writes *)
Lemma set_list_length {X} : forall (l : list X) i x, length (set_list l i x) = length l.
Proof. induction l; destruct i; simpl; auto. Qed.

Lemma nth_error_set_list_same {X} : forall (l : list X) i x, i < length l -> nth_error (set_list l i x) i = Some x.
Proof. induction l; destruct i; simpl; intros; try lia; auto. apply IHl. lia. Qed.

Lemma nth_error_set_list_other {X} : forall (l : list X) i j x, i <> j -> nth_error (set_list l i x) j = nth_error l j.
Proof. induction l; destruct i, j; simpl; intros; auto; try congruence. Qed.

Lemma set_list_app_last {X} : forall (l : list X) o x, set_list (l ++ [o]) (length l) x = l ++ [x].
Proof. induction l; simpl; intros; auto. f_equal. auto. Qed.

Lemma nth_error_app_last {X} : forall (l : list X) x, nth_error (l ++ [x]) (length l) = Some x.
Proof. intros. rewrite nth_error_app2 by lia. rewrite Nat.sub_diag. auto. Qed.

Lemma ptr_eqb_eq : forall p q, ptr_eqb p q = true <-> p = q.
Proof.
  destruct p, q; simpl; split; intros; try discriminate.
  - apply andb_true_iff in H as [H1 H2]. apply Nat.eqb_eq in H1, H2. subst. auto.
  - inversion H; subst. rewrite !Nat.eqb_refl. auto.
  - apply Nat.eqb_eq in H. subst. auto.
  - inversion H. apply Nat.eqb_refl.
Qed.

Lemma allocated_map : forall ps a, allocated (Some ps) (HMap a) = true <-> In (PMap a) ps.
Proof.
  intros. simpl. rewrite existsb_exists. split.
  - intros (x & Hx & E). apply ptr_eqb_eq in E. subst. auto.
  - intros. exists (PMap a). split; auto. apply ptr_eqb_eq. auto.
Qed.

Lemma allocated_arr : forall ps a off l c, allocated (Some ps) (HArr a off l c) = true <-> In (PArr a off) ps.
Proof.
  intros. simpl. rewrite existsb_exists. split.
  - intros (x & Hx & E). apply ptr_eqb_eq in E. subst. auto.
  - intros. exists (PArr a off). split; auto. apply ptr_eqb_eq. auto.
Qed.

Lemma orep_is_empty : forall j h ps v fp, orep h ps j v fp -> is_empty j = h_is_empty v.
Proof.
  destruct j; intros h ps v fp H; try (destruct H as [-> _]; reflexivity).
  - apply orep_arr in H as (a & off & len & cap & cells & fps & -> & _). auto.
  - apply orep_obj in H as (a & kvs & fps & -> & _). auto.
Qed.

Lemma kvs_of_nth : forall h a m, nth_error h a = Some (OMap m) -> kvs_of h a = m.
Proof. intros. unfold kvs_of. rewrite H. auto. Qed.
Lemma cells_of_nth : forall h a c, nth_error h a = Some (OArr c) -> cells_of h a = c.
Proof. intros. unfold cells_of. rewrite H. auto. Qed.

(* ------------------------------------------------------------------------------------------------ *)
(* the statement proved by induction on the path *)
Definition post (h : heap) (ps : list ptr) (fp : list nat) (h' : heap) (ps' : list ptr) (fp' : list nat) : Prop :=
  length h <= length h' /\
  (forall a, a < length h -> ~ In a fp -> nth_error h' a = nth_error h a) /\
  (forall p, In p ps -> In p ps') /\
  (forall a, aaddr ps' a -> aaddr ps a \/ length h <= a) /\
  (forall a, In a fp' -> In a fp \/ length h <= a) /\
  alloc_wf ps' /\
  (forall a, length h <= a -> a < length h' -> aaddr ps' a).

Section Sound.
Variable cfg : config.
(* the in-place growth clears the cells it exposes (the code since 73ac0b6): needed because the invariant lets
   the hidden cells of an owned array hold anything *)
Hypothesis Hclear : clear_exposed cfg = true.

(* The statement proved by induction on the path, for a NEW VALUE n that may own allocated containers (footprint
   fn) under a side condition [cond h ps v p fn] relating fn to the value v and the path p:
   - [cond] = "fn is empty" gives [sound_at], the theorem for a frozen new value;
   - [cond] = [own_at] (below) = "every container of fn is owned by the value stored at p" gives the theorem for an
     update body that returns a PART of its input: the input itself, a child, a prefix slice .[:k] of an owned
     array (same pointer, smaller length, stale cells behind it).
   What the induction needs from [cond]: at the end of the path fn lies inside the footprint of the value that
   is replaced, and the condition follows the navigation step of getpath. *)
Section Gen.
Variable cond : heap -> list ptr -> hval -> path -> list nat -> Prop.
Hypothesis cond_nil : forall h ps v j fp fn, cond h ps v [] fn -> orep h ps j v fp -> incl fn fp.
Hypothesis cond_step : forall h ps v c r fn x, cond h ps v (c :: r) fn -> h_index2 h v c = Some x -> cond h ps x r fn.

Definition sound_g (p : path) : Prop := forall h ps v j fp n jn fn,
  alloc_wf ps -> orep h ps j v fp -> NoDup fp -> orep h ps jn n fn -> NoDup fn -> cond h ps v p fn ->
  match Path.update j p jn with
  | None => update cfg h (Some ps) v p n = None
  | Some j' => exists h' ps' u fp', update cfg h (Some ps) v p n = Some (h', Some ps', u) /\
                 orep h' ps' j' u fp' /\ NoDup fp' /\ post h ps fp h' ps' fp'
  end.

Lemma post_refl : forall h ps fp, alloc_wf ps -> post h ps fp h ps fp.
Proof. intros. repeat split; auto. intros. lia. Qed.

Lemma post_intro : forall h ps fp h' ps' fp',
  length h <= length h' ->
  (forall a, a < length h -> ~ In a fp -> nth_error h' a = nth_error h a) ->
  (forall p, In p ps -> In p ps') ->
  (forall a, aaddr ps' a -> aaddr ps a \/ length h <= a) ->
  (forall a, In a fp' -> In a fp \/ length h <= a) ->
  alloc_wf ps' ->
  (forall a, length h <= a -> a < length h' -> aaddr ps' a) -> post h ps fp h' ps' fp'.
Proof. intros. unfold post. auto 10. Qed.

Lemma sound_nil_g : sound_g [].
Proof.
  intros h ps v j fp n jn fn Hwf Hr ND Hn NDn Hc. simpl. exists h, ps, n, fn. split; auto. split; auto. split; auto.
  apply post_intro; auto; try (intros; simpl in *; tauto); try (intros; lia).
  intros a Ha. left. eapply cond_nil; eauto.
Qed.

(* ------------------------------------------------------------------------------------------------ *)
(* replacing one child while the heap changes only inside that child's footprint *)
Lemma lookupf_in_concat {V} : forall (m : list (key * V)) fps k a, In a (lookupf k m fps) -> In a (concat fps).
Proof.
  induction m as [|[k2 v2] m]; destruct fps; simpl; intros; try tauto.
  rewrite in_app_iff. destruct (key_eqb k k2); eauto.
Qed.

Lemma repm3_insert_frame {A B} (R R' : A -> B -> list nat -> Prop) : forall jm kvs fps k j x f,
  ksorted kvs -> NoDup (concat fps) -> repm3 R jm kvs fps ->
  (forall j0 x0 f0, R j0 x0 f0 -> In f0 fps -> (forall a, In a f0 -> ~ In a (lookupf k kvs fps)) -> R' j0 x0 f0) ->
  R' j x f -> repm3 R' (insert k j jm) (insert k x kvs) (insertf k f kvs fps).
Proof.
  induction jm as [|[k1 j1] jm]; destruct kvs as [|[k2 x2] kvs], fps as [|f0 fps]; simpl; try tauto.
  intros k j x f [S1 S2] ND (-> & H1 & H2) HR Hn.
  apply nodup_app in ND as (N1 & N2 & D).
  unfold key_eqb in HR. destruct (key_cmp k k2) eqn:E; simpl.
  - (* replaced *) repeat split; auto.
    eapply repm3_mono_in; [|exact H2]. rewrite Forall_forall. intros kx Hkx y z Hz Hxr.
    apply HR; auto. intros a Ha Hf0. apply (D a); auto. eapply in_concat_of; eauto.
  - (* inserted in front *)
    assert (L : lookupf k kvs fps = []).
    { apply lookupf_lt. intros kv Hkv. eapply key_cmp_lt_trans; eauto. }
    rewrite L in HR. repeat split; auto.
    eapply repm3_mono_in; [|exact H2]. rewrite Forall_forall. intros kx Hkx y z Hz Hxr. apply HR; auto.
  - (* further right *) split; [auto|split].
    + apply HR; auto. intros a Ha Hl. apply (D a); auto. eapply lookupf_in_concat; eauto.
    + apply IHjm; auto.
Qed.

Lemma nth_disjoint_others : forall (fps : list (list nat)) i f0 a,
  NoDup (concat fps) -> (In f0 (firstn i fps) \/ In f0 (skipn (S i) fps)) -> In a f0 -> ~ In a (nth i fps []).
Proof.
  intros fps i f0 a ND Hin Ha Hn.
  destruct (Nat.lt_ge_cases i (length fps)) as [Hi|Hi].
  - pose proof (concat_split_nth fps i Hi) as P.
    eapply Permutation_NoDup in ND; [|exact P].
    apply nodup_app in ND as (_ & _ & D). apply (D a Hn). rewrite in_app_iff.
    destruct Hin; [left|right]; eapply in_concat_of; eauto.
  - rewrite nth_overflow in Hn by lia. destruct Hn.
Qed.

Lemma In_firstn {X} : forall n (l : list X) x, In x (firstn n l) -> In x l.
Proof. induction n; destruct l; simpl; intros; try tauto. destruct H; auto. Qed.
Lemma In_skipn {X} : forall n (l : list X) x, In x (skipn n l) -> In x l.
Proof. induction n; destruct l; simpl; intros; try tauto. right. eauto. Qed.

Lemma reps3_set_nth_frame {A B} (R R' : A -> B -> list nat -> Prop) da db : forall xs ys fps i x y f,
  NoDup (concat fps) -> reps3 R xs ys fps ->
  (forall x0 y0 f0, R x0 y0 f0 -> In f0 fps -> (forall a, In a f0 -> ~ In a (nth i fps [])) -> R' x0 y0 f0) ->
  R' da db [] -> R' x y f ->
  reps3 R' (set_nth_g da xs i x) (set_nth_g db ys i y) (set_nth_g [] fps i f).
Proof.
  intros xs ys fps i x y f ND H HR Hd Hn. unfold set_nth_g.
  destruct (reps3_length _ _ _ _ H) as [L1 L2]. rewrite <- L1, <- L2.
  apply reps3_app.
  { eapply reps3_mono_in; [|apply reps3_firstn; exact H]. rewrite Forall_forall. intros x0 _ y0 z Hz Hxr.
    apply HR; [auto | eapply In_firstn; eauto | intros a Ha; eapply nth_disjoint_others; eauto]. }
  apply reps3_app. { apply reps3_repeat; auto. }
  cbn [reps3]. split; auto.
  eapply reps3_mono_in; [|apply (reps3_skipn R (S i)); exact H]. rewrite Forall_forall. intros x0 _ y0 z Hz Hxr.
  apply HR; [auto | eapply In_skipn; eauto | intros a Ha; eapply nth_disjoint_others; eauto].
Qed.

(* ------------------------------------------------------------------------------------------------ *)
(* updateObject *)
Definition obj_write (h1 : heap) (A1 : alloc) (v : hval) (k : key) (u : hval) : option (heap * alloc * hval) :=
  if allocated A1 v then
    match v with
    | HMap a => Some (set_obj h1 a (OMap (insert k u (kvs_of h1 a))), A1, v)
    | _ => None
    end
  else
    let '(h2, A2, w) := make_object h1 A1 in
    let cur := match v with HMap a => kvs_of h1 a | _ => [] end in
    match w with
    | HMap b => Some (set_obj h2 b (OMap (insert k u cur)), A2, w)
    | _ => None
    end.

Lemma update_key_eq : forall cfg h A v k r n,
  update cfg h A v (PK k :: r) n =
  match v with
  | HNull | HMap _ =>
      match lookup k (match v with HMap a => kvs_of h a | _ => [] end) with
      | None => if h_is_empty n then Some (h, A, v)
                else match update cfg h A HNull r n with
                     | None => None | Some (h1, A1, u) => obj_write h1 A1 v k u end
      | Some x => match update cfg h A x r n with
                  | None => None | Some (h1, A1, u) => obj_write h1 A1 v k u end
      end
  | HEmpty => Some (h, A, v)
  | _ => None
  end.
Proof. intros. destruct v; reflexivity. Qed.

Lemma lookupf_none {V} : forall (m : list (key * V)) fps k, lookup k m = None -> lookupf k m fps = [].
Proof.
  induction m as [|[k' v] m]; destruct fps; simpl; auto. intros k. destruct (key_eqb k k'); auto. discriminate.
Qed.

Lemma NoDup_lookupf {V} : forall (m : list (key * V)) fps k, NoDup (concat fps) -> NoDup (lookupf k m fps).
Proof.
  induction m as [|[k' v] m]; destruct fps; simpl; intros; try constructor.
  apply nodup_app in H as (N1 & N2 & _). destruct (key_eqb k k'); auto.
Qed.

(* the node at which updateObject works: nil, or a map whose entries are represented *)
Definition obj_node (h : heap) (ps : list ptr) (jm : list (key * jv)) (v : hval) (kvs : list (key * hval))
  (fps : list (list nat)) (fp : list nat) : Prop :=
  (v = HNull /\ jm = [] /\ kvs = [] /\ fps = [] /\ fp = []) \/
  (exists a, v = HMap a /\ nth_error h a = Some (OMap kvs) /\ ksorted kvs /\ repm3 (orep h ps) jm kvs fps /\
             ((~ aaddr ps a /\ concat fps = [] /\ fp = []) \/ (In (PMap a) ps /\ fp = a :: concat fps))).

Lemma key_step : forall h ps jm v kvs fps fp k jx x h1 ps1 ju u fu,
  alloc_wf ps -> obj_node h ps jm v kvs fps fp -> NoDup fp ->
  orep h ps jx x (lookupf k kvs fps) ->
  orep h1 ps1 ju u fu -> NoDup fu -> post h ps (lookupf k kvs fps) h1 ps1 fu ->
  exists h' ps' w fp',
    obj_write h1 (Some ps1) v k u = Some (h', Some ps', w) /\
    orep h' ps' (JObj (insert k ju jm)) w fp' /\ NoDup fp' /\ post h ps fp h' ps' fp'.
Proof.
  intros h ps jm v kvs fps fp k jx x h1 ps1 ju u fu Hwf Hnode ND Hx Hu NDu (P1 & P2 & P3 & P4 & P5 & P6 & P7).
  set (fx := lookupf k kvs fps) in *.
  assert (Hfx : forall a, In a fx -> aaddr ps a /\ a < length h) by (eapply orep_fp; eauto).
  assert (Hfu : forall a, In a fu -> aaddr ps1 a /\ a < length h1) by (eapply orep_fp; eauto).
  assert (Hfxc : forall a, In a fx -> In a (concat fps)) by (intros; eapply lookupf_in_concat; eauto).
  (* the entries, their footprints below |h|, and NoDup of the children's footprints *)
  assert (Hcases :
    (exists a, v = HMap a /\ nth_error h a = Some (OMap kvs) /\ In (PMap a) ps /\ fp = a :: concat fps) \/
    ((v = HNull \/ exists a, v = HMap a /\ nth_error h a = Some (OMap kvs) /\ ~ aaddr ps a) /\ concat fps = [] /\ fp = [] /\
     (v = HNull -> kvs = []))).
  { destruct Hnode as [(-> & -> & -> & -> & ->) | (a & -> & Hn & _ & _ & [(Hf & Hc & ->) | (Hp & ->)])].
    - right. repeat split; auto.
    - right. repeat split; eauto. intros; discriminate.
    - left. eauto. }
  assert (Hsorted : ksorted kvs).
  { destruct Hnode as [(_ & _ & -> & _) | (a & _ & _ & S & _)]; simpl; auto. }
  assert (Hrep : repm3 (orep h ps) jm kvs fps).
  { destruct Hnode as [(_ & -> & -> & -> & _) | (a & _ & _ & _ & S & _)]; simpl; auto. }
  assert (Hlen : length kvs = length fps) by (eapply repm3_length; eauto).
  assert (NDc : NoDup (concat fps)).
  { destruct Hcases as [(a & _ & _ & _ & ->) | (_ & -> & _)]; [inversion ND; auto | constructor]. }
  assert (Hcl : forall a, In a (concat fps) -> In a fp /\ a < length h).
  { destruct Hcases as [(a & -> & Hn & Hp & ->) | (_ & -> & _)]; [|intros ? []].
    intros a0 Ha0. split; [right; auto|].
    assert (orep h ps (JObj jm) (HMap a) (a :: concat fps)).
    { apply orep_obj. exists a, kvs, fps. repeat split; auto. }
    eapply orep_fp; eauto. right; auto. }
  assert (NDins : NoDup (concat (insertf k fu kvs fps))).
  { apply NoDup_concat_insertf; auto. intros a Ha. destruct (P5 a Ha) as [H|H]; auto.
    right. intro Hc. apply Hcl in Hc. lia. }
  destruct Hcases as [(a & -> & Hn & Hp & ->) | (Hv & Hcc & -> & Hnil)].
  - (* allocated map: written in place *)
    pose proof (nth_error_lt _ _ _ Hn) as Ha.
    assert (Hafps : ~ In a (concat fps)) by (inversion ND; auto).
    assert (Hafu : ~ In a fu).
    { intro Hc. destruct (P5 a Hc) as [H|H]; [apply Hafps; auto | lia]. }
    assert (Hn1 : nth_error h1 a = Some (OMap kvs)).
    { rewrite P2; auto. }
    unfold obj_write. replace (allocated (Some ps1) (HMap a)) with true by (symmetry; apply allocated_map; auto).
    rewrite (kvs_of_nth _ _ _ Hn1).
    exists (set_obj h1 a (OMap (insert k u kvs))), ps1, (HMap a), (a :: concat (insertf k fu kvs fps)).
    assert (Hother : forall a0, a0 <> a -> nth_error (set_obj h1 a (OMap (insert k u kvs))) a0 = nth_error h1 a0).
    { intros. unfold set_obj. apply nth_error_set_list_other. auto. }
    split; [reflexivity|]. split; [|split].
    + apply orep_obj. exists a, (insert k u kvs), (insertf k fu kvs fps). repeat split.
      * unfold set_obj. apply nth_error_set_list_same. lia.
      * apply ksorted_insert; auto.
      * apply (repm3_insert_frame (orep h ps)); auto.
        -- intros j0 x0 f0 Hr0 Hin0 Hdis. apply orep_frame with (h := h) (ps := ps); [exact Hr0 | | exact P3 | exact P4].
           intros a0 Ha0 Hor. assert (Hne : a0 <> a).
           { intro; subst a0. destruct Hor as [H|H]. apply H. right; auto. apply Hafps. eapply in_concat_of; eauto. }
           rewrite Hother by auto. apply P2; auto. intro Hc. destruct Hor as [H|H].
           ++ apply H. apply Hfx. auto.
           ++ apply (Hdis a0); auto.
        -- apply orep_frame with (h := h1) (ps := ps1); [exact Hu | | auto | auto].
           intros a0 Ha0 Hor. apply Hother. intro; subst a0. destruct Hor as [H|H]; auto. apply H. right. auto.
      * right. auto.
    + constructor; auto. intro Hc0. apply in_concat_insertf in Hc0. tauto.
    + apply post_intro; auto.
      * unfold set_obj. rewrite set_list_length. auto.
      * intros a0 Ha0 Hnin. rewrite Hother. { apply P2; auto. intro Hc. apply Hnin. right. auto. }
        intro; subst. apply Hnin. left; auto.
      * intros a0 [<-|Hc]. { left; left; auto. } apply in_concat_insertf in Hc as [Hc|Hc].
        -- destruct (P5 _ Hc); auto. left. right. auto.
        -- left. right. auto.
      * intros a0 Hge Hlt. apply P7; auto. unfold set_obj in Hlt. rewrite set_list_length in Hlt. auto.
  - (* nil or a map the allocator does not know: copied into a fresh map *)
    assert (Hfx0 : forall a, ~ In a fx). { intros a Hc. apply Hfxc in Hc. rewrite Hcc in Hc. destruct Hc. }
    assert (Hnalloc : allocated (Some ps1) v = false).
    { destruct Hv as [-> | (a & -> & Hn & Hna)]; auto.
      destruct (allocated (Some ps1) (HMap a)) eqn:E; auto. apply allocated_map in E.
      destruct (P4 a) as [H|H]. { right; auto. } { contradiction. } apply nth_error_lt in Hn. lia. }
    assert (Hcur : match v with HMap a => kvs_of h1 a | _ => [] end = kvs).
    { destruct Hv as [-> | (a & -> & Hn & Hna)]. { symmetry; auto. }
      apply kvs_of_nth. rewrite P2; auto. eapply nth_error_lt; eauto. }
    unfold obj_write. rewrite Hnalloc. unfold make_object, register. rewrite Hcur.
    unfold set_obj. rewrite set_list_app_last.
    set (b := length h1). set (h' := h1 ++ [OMap (insert k u kvs)]).
    exists h', (PMap b :: ps1), (HMap b), (b :: concat (insertf k fu kvs fps)).
    assert (Hold : forall a0, a0 < length h1 -> nth_error h' a0 = nth_error h1 a0).
    { intros. unfold h'. apply nth_error_app1. auto. }
    assert (Haddr : forall a0, aaddr (PMap b :: ps1) a0 -> aaddr ps1 a0 \/ length h1 <= a0).
    { intros a0 [(off & [H|H]) | [H|H]]; try discriminate.
      - left. left. eauto.
      - inversion H; subst. right. unfold b. lia.
      - left. right. auto. }
    split; [reflexivity|]. split; [|split].
    + apply orep_obj. exists b, (insert k u kvs), (insertf k fu kvs fps). repeat split.
      * unfold h', b. apply nth_error_app_last.
      * apply ksorted_insert; auto.
      * apply (repm3_insert_frame (orep h ps)); auto.
        -- intros j0 x0 f0 Hr0 Hin0 Hdis. apply orep_frame with (h := h) (ps := ps); [exact Hr0 | | | ].
           ++ intros a0 Ha0 Hor. rewrite Hold by lia. apply P2; auto.
           ++ intros p Hp. right. auto.
           ++ intros a0 Ha0. destruct (Haddr _ Ha0) as [H|H]; [apply P4; auto | right; lia].
        -- apply orep_frame with (h := h1) (ps := ps1); [exact Hu | | | exact Haddr].
           ++ intros a0 Ha0 _. apply Hold. auto.
           ++ intros p Hp. right. auto.
      * right. split; [left|]; auto.
    + constructor; auto. intro Hc. apply in_concat_insertf in Hc as [Hc|Hc].
      * apply Hfu in Hc. unfold b in Hc. lia.
      * rewrite Hcc in Hc. destruct Hc.
    + apply post_intro.
      * unfold h'. rewrite app_length. simpl. lia.
      * intros a0 Ha0 _. rewrite Hold by lia. apply P2; auto.
      * intros p Hp. right. auto.
      * intros a0 Ha0. destruct (Haddr _ Ha0) as [H|H]; [apply P4; auto | right; lia].
      * intros a0 [<-|Hc]. { right. unfold b. lia. }
        apply in_concat_insertf in Hc as [Hc|Hc].
        -- destruct (P5 _ Hc) as [H|H]; auto. destruct (Hfx0 _ H).
        -- rewrite Hcc in Hc. destruct Hc.
      * intros a0 off [H|H]; [discriminate | eapply P6; eauto].
      * intros a0 Hge Hlt. unfold h' in Hlt. rewrite app_length in Hlt. simpl in Hlt.
        destruct (Nat.eq_dec a0 b) as [->|Hne]. { right. left. auto. }
        assert (aaddr ps1 a0) as [(off & Ho)|Ho] by (apply P7; auto; unfold b in Hne; lia).
        -- left. exists off. right. auto.
        -- right. right. auto.
Qed.

Lemma post_trans_child : forall h ps fx h1 ps1 fu, post h ps fx h1 ps1 fu -> alloc_wf ps1.
Proof. intros. destruct H as (_ & _ & _ & _ & _ & H & _). auto. Qed.

Lemma sound_key_g : forall k r, sound_g r -> sound_g (PK k :: r).
Proof.
  intros k r IH h ps v j fp n jn fn Hwf Hr ND Hn NDn Hcond.
  rewrite update_key_eq.
  pose proof (orep_is_empty _ _ _ _ _ Hn) as Hemp.
  (* the common continuation: child (jx, x) with footprint lookupf k kvs fps *)
  assert (Hcont : forall jm kvs fps jx x,
    obj_node h ps jm v kvs fps fp -> orep h ps jx x (lookupf k kvs fps) -> h_index2 h v (PK k) = Some x ->
    match Path.update jx r jn with
    | None => match update cfg h (Some ps) x r n with
              | None => None | Some (h1, A1, u) => obj_write h1 A1 v k u end = None
    | Some ju => exists h' ps' w fp',
        match update cfg h (Some ps) x r n with
        | None => None | Some (h1, A1, u) => obj_write h1 A1 v k u end = Some (h', Some ps', w) /\
        orep h' ps' (JObj (insert k ju jm)) w fp' /\ NoDup fp' /\ post h ps fp h' ps' fp'
    end).
  { intros jm kvs fps jx x Hnode Hx Hix.
    assert (NDx : NoDup (lookupf k kvs fps)).
    { destruct Hnode as [(_ & _ & _ & -> & _) | (a & _ & _ & _ & _ & [(_ & Hc & _) | (_ & ->)])].
      - destruct kvs as [|[? ?] ?]; constructor.
      - apply NoDup_lookupf. rewrite Hc. constructor.
      - apply NoDup_lookupf. inversion ND; auto. }
    specialize (IH h ps x jx _ n jn fn Hwf Hx NDx Hn NDn (cond_step _ _ _ _ _ _ _ Hcond Hix)).
    destruct (Path.update jx r jn) as [ju|].
    - destruct IH as (h1 & ps1 & u & fu & -> & Hu & NDu & Hpost).
      eapply key_step; eauto.
    - rewrite IH. auto. }
  destruct j; cbn [Path.update].
  - (* null *)
    destruct Hr as [-> ->]. cbn [lookup]. rewrite <- Hemp.
    destruct (is_empty jn).
    + exists h, ps, HNull, []. repeat split; auto; try constructor; try (intros; simpl in *; tauto); try (intros; lia).
    + assert (Hc0 : obj_node h ps [] HNull [] [] []) by (left; auto 6).
      pose proof (Hcont [] [] [] JNull HNull Hc0 (conj eq_refl eq_refl) eq_refl) as Hc1.
      destruct (Path.update JNull r jn); exact Hc1.
  - destruct Hr as [-> _]. auto.
  - destruct Hr as [-> _]. auto.
  - destruct Hr as [-> _]. auto.
  - destruct Hr as [-> ->]. exists h, ps, HEmpty, []. repeat split; auto; try constructor; try (intros; simpl in *; tauto); try (intros; lia).
  - apply orep_arr in Hr as (a & off & len & cap & cells & fps & -> & _). auto.
  - (* object *)
    pose proof Hr as Hr0.
    apply orep_obj in Hr as (a & kvs & fps & -> & Hna & Hs & Hc & Hcase).
    rewrite (kvs_of_nth _ _ _ Hna).
    assert (Hnode : obj_node h ps m (HMap a) kvs fps fp). { right. exists a. auto 6. }
    pose proof (repm3_lookup _ _ _ _ k Hc) as Hl.
    destruct (lookup k m) as [jx|] eqn:L1; destruct (lookup k kvs) as [x|] eqn:L2; try contradiction.
    + assert (Hix : h_index2 h (HMap a) (PK k) = Some x) by (cbn [h_index2]; rewrite (kvs_of_nth _ _ _ Hna), L2; auto).
      pose proof (Hcont m kvs fps jx x Hnode Hl Hix) as Hc1.
      destruct (Path.update jx r jn); exact Hc1.
    + rewrite <- Hemp. destruct (is_empty jn).
      * exists h, ps, (HMap a), fp. repeat split; auto; try (intros; simpl in *; tauto); try (intros; lia).
      * assert (Hx0 : orep h ps JNull HNull (lookupf k kvs fps)) by (rewrite lookupf_none by auto; split; auto).
        assert (Hix : h_index2 h (HMap a) (PK k) = Some HNull) by (cbn [h_index2]; rewrite (kvs_of_nth _ _ _ Hna), L2; auto).
        pose proof (Hcont m kvs fps JNull HNull Hnode Hx0 Hix) as Hc1.
        destruct (Path.update JNull r jn); exact Hc1.
Qed.

(* ------------------------------------------------------------------------------------------------ *)
(* updateArrayIndex: list facts *)
Lemma Forall_eq_repeat {X} (d : X) : forall l, Forall (eq d) l -> l = repeat d (length l).
Proof. induction 1; simpl; auto. subst. f_equal. auto. Qed.

Lemma Forall_repeat {X} (d : X) : forall n, Forall (eq d) (repeat d n).
Proof. induction n; simpl; constructor; auto. Qed.

Lemma set_list_app1 {X} : forall (l l' : list X) i x, i < length l -> set_list (l ++ l') i x = set_list l i x ++ l'.
Proof. induction l; destruct i; simpl; intros; try lia; auto. f_equal. apply IHl. lia. Qed.

Lemma set_list_app2 {X} : forall (l l' : list X) i x, length l <= i -> set_list (l ++ l') i x = l ++ set_list l' (i - length l) x.
Proof. induction l; simpl; intros. { rewrite Nat.sub_0_r. auto. } destruct i; try lia. simpl. f_equal. apply IHl. lia. Qed.

Lemma set_list_split {X} : forall (l : list X) i x, i < length l -> set_list l i x = firstn i l ++ x :: skipn (S i) l.
Proof. induction l; destruct i; simpl; intros; try lia; auto. f_equal. apply IHl. lia. Qed.

Lemma set_list_repeat {X} (d : X) : forall m k x, k < m ->
  set_list (repeat d m) k x = repeat d k ++ x :: repeat d (m - S k).
Proof.
  induction m; intros; try lia. destruct k; simpl.
  - rewrite Nat.sub_0_r. auto.
  - f_equal. apply IHm. lia.
Qed.

Lemma firstn_app_exact {X} : forall (l l' : list X) n, n = length l -> firstn n (l ++ l') = l.
Proof. intros. subst. rewrite firstn_app, Nat.sub_diag, firstn_all. simpl. apply app_nil_r. Qed.

Lemma skipn_app_exact {X} : forall (l l' : list X) n, n = length l -> skipn n (l ++ l') = l'.
Proof. intros. subst. rewrite skipn_app, Nat.sub_diag, skipn_all. auto. Qed.

(* writing cell i of an array whose first len cells are E and whose other cells are nil *)
Lemma inplace_cells : forall (E : list hval) m i u,
  i < length E + m ->
  let cells' := set_list (E ++ repeat HNull m) i u in
  let len' := if Nat.leb (length E) i then S i else length E in
  firstn len' cells' = set_nth_g HNull E i u /\ Forall (eq HNull) (skipn len' cells') /\ length cells' = length E + m.
Proof.
  intros E m i u Hi. cbv zeta. rewrite set_list_length, app_length, repeat_length.
  destruct (Nat.leb (length E) i) eqn:L.
  - apply Nat.leb_le in L. rewrite set_list_app2 by auto. rewrite set_list_repeat by lia.
    set (k := i - length E). set (rest := repeat HNull (m - S k)).
    assert (Eq : E ++ repeat HNull k ++ u :: rest = (E ++ repeat HNull k ++ [u]) ++ rest).
    { rewrite <- !app_assoc. simpl. auto. }
    assert (Len : S i = length (E ++ repeat HNull k ++ [u])).
    { rewrite !app_length, repeat_length. simpl. unfold k. lia. }
    rewrite Eq. split; [|split]; auto.
    + rewrite firstn_app_exact by auto. unfold set_nth_g.
      replace (firstn i E) with E by (symmetry; apply firstn_all2; lia).
      replace (skipn (S i) E) with (@nil hval) by (symmetry; apply skipn_all2; lia). auto.
    + rewrite skipn_app_exact by auto. apply Forall_repeat.
  - apply Nat.leb_gt in L. rewrite set_list_app1 by auto. split; [|split]; auto.
    + rewrite firstn_app_exact by (rewrite set_list_length; auto).
      unfold set_nth_g. replace (i - length E) with 0 by lia. simpl. apply set_list_split. auto.
    + rewrite skipn_app_exact by (rewrite set_list_length; auto). apply Forall_repeat.
Qed.

(* ------------------------------------------------------------------------------------------------ *)
(* updateArrayIndex *)
Lemma write_cell_eq0 : forall h a c i x, nth_error h a = Some (OArr c) ->
  write_cell h a i x = set_list h a (OArr (set_list c i x)).
Proof. intros. unfold write_cell, set_obj. rewrite (cells_of_nth _ _ _ H). auto. Qed.

Definition arr_write (h1 : heap) (A1 : alloc) (v : hval) (i : nat) (u : hval) : option (heap * alloc * hval) :=
  let l := hlen v in let c := hcap v in
  let fresh (c : nat) :=
    let l' := if Nat.leb l i then S i else l in
    let old := elems h1 v in
    let '(h2, A2, w) := make_array h1 A1 l' c in
    match w with
    | HArr b _ _ _ => Some (write_cell (write_cells h2 b 0 old) b i u, A2, w)
    | _ => None
    end in
  if allocated A1 v then
    if Nat.ltb i c then
      match v with
      | HArr a off _ cap =>
          Some (write_cell (clear_cells cfg.(clear_exposed) h1 a off l i) a (off + i) u, A1,
                HArr a off (if Nat.leb l i then S i else l) cap)
      | _ => None
      end
    else fresh (2 * c)
  else fresh c.

(* what clear(v[l:i]) and the write of cell i do to the backing array E ++ N (E = the visible cells, N = the
   hidden ones, ARBITRARY) *)
Lemma set_list_same0 {X} : forall (l : list X) a o, nth_error l a = Some o -> set_list l a o = l.
Proof. induction l as [|y l IH]; intros [|a] o H; simpl in *; try discriminate. { inversion H; auto. } f_equal. auto. Qed.

Lemma set_list_twice {X} : forall (l : list X) a o1 o2, set_list (set_list l a o1) a o2 = set_list l a o2.
Proof. induction l as [|y l IH]; intros [|a] o1 o2; simpl; auto. f_equal. auto. Qed.

Lemma write_cells_at : forall xs h a P R, nth_error h a = Some (OArr (P ++ R)) -> length xs <= length R ->
  write_cells h a (length P) xs = set_list h a (OArr (P ++ xs ++ skipn (length xs) R)).
Proof.
  induction xs as [|x xs IH]; intros h a P R Hn Hl; simpl.
  - symmetry. apply set_list_same0. auto.
  - destruct R as [|r0 R]; simpl in Hl; try lia.
    assert (Ha : a < length h) by (apply nth_error_Some; congruence).
    rewrite (write_cell_eq0 _ _ (P ++ r0 :: R)) by auto.
    rewrite set_list_app2 by lia. rewrite Nat.sub_diag. cbn [set_list].
    replace (P ++ x :: R) with ((P ++ [x]) ++ R) by (rewrite <- app_assoc; auto).
    replace (S (length P)) with (length (P ++ [x])) by (rewrite app_length; simpl; lia).
    rewrite (IH _ a (P ++ [x]) R).
    + rewrite set_list_twice. rewrite <- app_assoc. reflexivity.
    + apply nth_error_set_list_same. auto.
    + lia.
Qed.

Definition cleared (E N : list hval) (i : nat) : list hval :=
  if Nat.leb (length E) i then E ++ repeat HNull (i - length E) ++ skipn (i - length E) N else E ++ N.

Lemma clear_cells_eq : forall h a (E N : list hval) i, nth_error h a = Some (OArr (E ++ N)) ->
  i < length E + length N ->
  clear_cells true h a 0 (length E) i = set_list h a (OArr (cleared E N i)).
Proof.
  intros h a E N i Hn Hi. unfold clear_cells, cleared. cbn [andb Nat.add].
  destruct (Nat.leb (length E) i) eqn:L.
  - apply Nat.leb_le in L. rewrite (write_cells_at _ h a E N Hn) by (rewrite repeat_length; lia).
    rewrite repeat_length. reflexivity.
  - symmetry. apply set_list_same0. auto.
Qed.

Lemma inplace_cells_w : forall (E N : list hval) i u, i < length E + length N ->
  let cells' := set_list (cleared E N i) i u in
  let len' := if Nat.leb (length E) i then S i else length E in
  firstn len' cells' = set_nth_g HNull E i u /\ length cells' = length E + length N.
Proof.
  intros E N i u Hi. cbv zeta. unfold cleared. rewrite set_list_length.
  destruct (Nat.leb (length E) i) eqn:L.
  - apply Nat.leb_le in L. set (k := i - length E).
    assert (Hsk : exists y R, skipn k N = y :: R).
    { destruct (skipn k N) eqn:Es; eauto. exfalso.
      assert (length (skipn k N) = 0) by (rewrite Es; auto). rewrite skipn_length in H. unfold k in H. lia. }
    destruct Hsk as (y & R & Hsk). rewrite Hsk.
    assert (HlenR : S (length R) = length N - k).
    { rewrite <- skipn_length, Hsk. auto. }
    split.
    + replace (E ++ repeat HNull k ++ y :: R) with ((E ++ repeat HNull k) ++ y :: R) by (rewrite <- app_assoc; auto).
      rewrite set_list_app2 by (rewrite app_length, repeat_length; unfold k; lia).
      replace (i - length (E ++ repeat HNull k)) with 0 by (rewrite app_length, repeat_length; unfold k; lia).
      cbn [set_list].
      replace ((E ++ repeat HNull k) ++ u :: R) with ((E ++ repeat HNull k ++ [u]) ++ R) by (rewrite <- !app_assoc; auto).
      rewrite firstn_app_exact by (rewrite !app_length, repeat_length; simpl; unfold k; lia).
      unfold set_nth_g. fold k.
      replace (firstn i E) with E by (symmetry; apply firstn_all2; lia).
      replace (skipn (S i) E) with (@nil hval) by (symmetry; apply skipn_all2; lia). auto.
    + rewrite !app_length, repeat_length. simpl. unfold k in *. lia.
  - apply Nat.leb_gt in L. split.
    + rewrite set_list_app1 by auto. rewrite firstn_app_exact by (rewrite set_list_length; auto).
      unfold set_nth_g. replace (i - length E) with 0 by lia. simpl. apply set_list_split. auto.
    + rewrite app_length. auto.
Qed.

Lemma update_idx_eq : forall h A v i r n,
  update cfg h A v (PI i :: r) n =
  match v with
  | HNull | HNilArr | HArr _ _ _ _ =>
      let len := Z.of_nat (hlen v) in
      let j := clamp i (-1) len in
      if (j <? 0)%Z then (if h_is_empty n then Some (h, A, norm_nil v) else None)
      else if (j <? len)%Z then
        match update cfg h A (nth (Z.to_nat j) (elems h v) HNull) r n with
        | None => None | Some (h1, A1, u) => arr_write h1 A1 v (Z.to_nat j) u end
      else if h_is_empty n then Some (h, A, norm_nil v)
      else if (max_index <=? i)%Z then None
      else match update cfg h A HNull r n with
           | None => None | Some (h1, A1, u) => arr_write h1 A1 v (Z.to_nat i) u end
  | HEmpty => Some (h, A, v)
  | _ => None
  end.
Proof. intros. destruct v; reflexivity. Qed.

Lemma write_cell_eq : forall h a c i x, nth_error h a = Some (OArr c) ->
  write_cell h a i x = set_list h a (OArr (set_list c i x)).
Proof. intros. unfold write_cell, set_obj. rewrite (cells_of_nth _ _ _ H). auto. Qed.

Lemma write_cells_fresh : forall xs h1 pre m, length xs <= m ->
  write_cells (h1 ++ [OArr (pre ++ repeat HNull m)]) (length h1) (length pre) xs =
  h1 ++ [OArr (pre ++ xs ++ repeat HNull (m - length xs))].
Proof.
  induction xs as [|x xs]; intros h1 pre m Hm; simpl.
  - rewrite Nat.sub_0_r. auto.
  - simpl in Hm. rewrite (write_cell_eq _ _ (pre ++ repeat HNull m)) by apply nth_error_app_last.
    rewrite set_list_app_last. rewrite set_list_app2 by lia. rewrite Nat.sub_diag.
    destruct m; try lia. simpl.
    replace (pre ++ x :: repeat HNull m) with ((pre ++ [x]) ++ repeat HNull m) by (rewrite <- app_assoc; auto).
    replace (S (length pre)) with (length (pre ++ [x])) by (rewrite app_length; simpl; lia).
    rewrite IHxs by lia. rewrite <- app_assoc. auto.
Qed.

Lemma fresh_write : forall h1 (E : list hval) n' i u, length E <= n' ->
  write_cell (write_cells (h1 ++ [OArr (repeat HNull n')]) (length h1) 0 E) (length h1) i u =
  h1 ++ [OArr (set_list (E ++ repeat HNull (n' - length E)) i u)].
Proof.
  intros. pose proof (write_cells_fresh E h1 [] n' H) as W. simpl in W. rewrite W.
  rewrite (write_cell_eq _ _ (E ++ repeat HNull (n' - length E))) by apply nth_error_app_last.
  apply set_list_app_last.
Qed.

Definition arr_node (h : heap) (ps : list ptr) (js : list jv) (v : hval) (E : list hval)
  (fps : list (list nat)) (fp : list nat) : Prop :=
  (v = HNull /\ js = [] /\ E = [] /\ fps = [] /\ fp = []) \/
  (exists a off len cap cells,
     v = HArr a off len cap /\ nth_error h a = Some (OArr cells) /\ off + len <= length cells /\
     E = firstn len (skipn off cells) /\ reps3 (orep h ps) js E fps /\
     ((~ aaddr ps a /\ concat fps = [] /\ fp = []) \/
      (In (PArr a 0) ps /\ off = 0 /\ cap = length cells /\ fp = a :: concat fps))).

Lemma nth_in_concat : forall (fps : list (list nat)) i a, In a (nth i fps []) -> In a (concat fps).
Proof.
  intros. destruct (Nat.lt_ge_cases i (length fps)).
  - eapply in_concat_of; eauto. apply nth_In. auto.
  - rewrite nth_overflow in H by lia. destruct H.
Qed.

Lemma NoDup_nth : forall (fps : list (list nat)) i, NoDup (concat fps) -> NoDup (nth i fps []).
Proof.
  induction fps; destruct i; simpl; intros; try constructor.
  - apply nodup_app in H. tauto.
  - apply nodup_app in H. apply IHfps. tauto.
Qed.

(* the copy into a fresh array (v is nil, not allocated, or allocated but too small) *)
Lemma fresh_step : forall h ps js (E : list hval) fps fp i h1 ps1 ju u fu c,
  reps3 (orep h ps) js E fps -> NoDup (concat fps) ->
  (forall a, In a (concat fps) -> In a fp /\ a < length h) ->
  (forall a, In a (nth i fps []) -> aaddr ps a) ->
  orep h1 ps1 ju u fu -> NoDup fu -> post h ps (nth i fps []) h1 ps1 fu ->
  let l' := if Nat.leb (length E) i then S i else length E in
  let n' := Nat.max l' c in
  let b := length h1 in
  let h' := h1 ++ [OArr (set_list (E ++ repeat HNull (n' - length E)) i u)] in
  let fp' := b :: concat (set_nth_g [] fps i fu) in
  orep h' (PArr b 0 :: ps1) (JArr (set_nth js i ju)) (HArr b 0 l' n') fp' /\ NoDup fp' /\
  post h ps fp h' (PArr b 0 :: ps1) fp'.
Proof.
  intros h ps js E fps fp i h1 ps1 ju u fu c Hrep NDc Hcl Hfx Hu NDu (P1 & P2 & P3 & P4 & P5 & P6 & P7).
  intros l' n' b h' fp'.
  assert (Hfu : forall a, In a fu -> aaddr ps1 a /\ a < length h1) by (eapply orep_fp; eauto).
  assert (Hl' : length E <= l' /\ i < l').
  { unfold l'. destruct (Nat.leb (length E) i) eqn:L; [apply Nat.leb_le in L | apply Nat.leb_gt in L]; lia. }
  assert (Hn' : l' <= n') by (unfold n'; lia).
  destruct (inplace_cells E (n' - length E) i u ltac:(lia)) as (I1 & I2 & I3). fold l' in I1, I2.
  assert (Hold : forall a0, a0 < length h1 -> nth_error h' a0 = nth_error h1 a0).
  { intros. unfold h'. apply nth_error_app1. auto. }
  assert (Haddr : forall a0, aaddr (PArr b 0 :: ps1) a0 -> aaddr ps1 a0 \/ length h1 <= a0).
  { intros a0 [(off & [H|H]) | [H|H]]; try discriminate.
    - inversion H; subst. right. unfold b. lia.
    - left. left. eauto.
    - left. right. auto. }
  assert (NDset : NoDup (concat (set_nth_g [] fps i fu))).
  { apply NoDup_concat_set_nth; auto. intros a Ha. destruct (P5 a Ha) as [H|H]; auto.
    right. intro Hc. apply Hcl in Hc. lia. }
  split; [|split].
  - apply orep_arr. exists b, 0, l', n', (set_list (E ++ repeat HNull (n' - length E)) i u), (set_nth_g [] fps i fu).
    split; [reflexivity|]. split. { unfold h', b. apply nth_error_app_last. }
    split. { rewrite I3. lia. }
    split.
    + rewrite skipn_O, I1, set_nth_is_g.
      apply (reps3_set_nth_frame (orep h ps)); auto.
      * intros j0 x0 f0 Hr0 Hin0 Hdis. apply orep_frame with (h := h) (ps := ps); [exact Hr0 | | | ].
        -- intros a0 Ha0 Hor. rewrite Hold by lia. apply P2; auto. intro Hc. destruct Hor as [H|H].
           ++ apply H. apply Hfx. auto.
           ++ apply (Hdis a0); auto.
        -- intros p Hp. right. auto.
        -- intros a0 Ha0. destruct (Haddr _ Ha0) as [H|H]; [apply P4; auto | right; lia].
      * split; auto.
      * apply orep_frame with (h := h1) (ps := ps1); [exact Hu | | | exact Haddr].
        -- intros a0 Ha0 _. apply Hold. auto.
        -- intros p Hp. right. auto.
    + right. split. { left. auto. } split; auto. split. { rewrite I3. lia. } split; auto.
  - constructor; auto. intro Hc. apply in_concat_set_nth in Hc as [Hc|Hc].
    + apply Hfu in Hc. unfold b in Hc. lia.
    + apply Hcl in Hc. unfold b in Hc. lia.
  - apply post_intro.
    + unfold h'. rewrite app_length. simpl. lia.
    + intros a0 Ha0 Hnin. rewrite Hold by lia. apply P2; auto. intro Hc. apply Hnin.
      apply nth_in_concat in Hc. apply Hcl in Hc. tauto.
    + intros p Hp. right. auto.
    + intros a0 Ha0. destruct (Haddr _ Ha0) as [H|H]; [apply P4; auto | right; lia].
    + intros a0 [<-|Hc]. { right. unfold b. lia. }
      apply in_concat_set_nth in Hc as [Hc|Hc].
      * destruct (P5 _ Hc) as [H|H]; auto. left. apply nth_in_concat in H. apply Hcl in H. tauto.
      * left. apply Hcl in Hc. tauto.
    + intros a0 off [H|H]; [inversion H; auto | eapply P6; eauto].
    + intros a0 Hge Hlt. unfold h' in Hlt. rewrite app_length in Hlt. simpl in Hlt.
      destruct (Nat.eq_dec a0 b) as [->|Hne]. { left. exists 0. left. auto. }
      assert (aaddr ps1 a0) as [(off & Ho)|Ho] by (apply P7; auto; unfold b in Hne; lia).
      * left. exists off. right. auto.
      * right. right. auto.
Qed.

Lemma arr_step : forall h ps js v E fps fp i jx x h1 ps1 ju u fu,
  alloc_wf ps -> arr_node h ps js v E fps fp -> NoDup fp ->
  orep h ps jx x (nth i fps []) ->
  orep h1 ps1 ju u fu -> NoDup fu -> post h ps (nth i fps []) h1 ps1 fu ->
  exists h' ps' w fp',
    arr_write h1 (Some ps1) v i u = Some (h', Some ps', w) /\
    orep h' ps' (JArr (set_nth js i ju)) w fp' /\ NoDup fp' /\ post h ps fp h' ps' fp'.
Proof.
  intros h ps js v E fps fp i jx x h1 ps1 ju u fu Hwf Hnode ND Hx Hu NDu Hpost.
  pose proof Hpost as (P1 & P2 & P3 & P4 & P5 & P6 & P7).
  set (fx := nth i fps []) in *.
  assert (Hfx : forall a, In a fx -> aaddr ps a /\ a < length h) by (eapply orep_fp; eauto).
  assert (Hfu : forall a, In a fu -> aaddr ps1 a /\ a < length h1) by (eapply orep_fp; eauto).
  assert (Hrep : reps3 (orep h ps) js E fps).
  { destruct Hnode as [(_ & -> & -> & -> & _) | (a & off & len & cap & cells & _ & _ & _ & _ & S & _)]; simpl; auto. }
  assert (NDc : NoDup (concat fps)).
  { destruct Hnode as [(_ & _ & _ & -> & _) | (a & off & len & cap & cells & _ & _ & _ & _ & _ & [(_ & -> & _) | (_ & _ & _ & ->)])];
      try constructor. inversion ND; auto. }
  assert (Hcl : forall a, In a (concat fps) -> In a fp /\ a < length h).
  { destruct Hnode as [(_ & _ & _ & -> & _) | (a & off & len & cap & cells & -> & Hn & Hl & -> & _ & [(_ & -> & _) | (Hp & -> & -> & ->)])];
      try (intros ? []).
    intros a0 Ha0. split; [right; auto|].
    assert (orep h ps (JArr js) (HArr a 0 len (length cells)) (a :: concat fps)).
    { apply orep_arr. exists a, 0, len, (length cells), cells, fps. repeat split; auto; try (right; auto 6). }
    eapply orep_fp; eauto. right; auto. }
  assert (Hfresh : forall c, (v = HNull \/ exists a off len cap cells, v = HArr a off len cap /\ nth_error h1 a = Some (OArr cells) /\
                             E = firstn len (skipn off cells)) ->
    let l' := if Nat.leb (hlen v) i then S i else hlen v in
    exists h' ps' w fp',
      (let old := elems h1 v in
       let '(h2, A2, w) := make_array h1 (Some ps1) l' c in
       match w with
       | HArr b _ _ _ => Some (write_cell (write_cells h2 b 0 old) b i u, A2, w)
       | _ => None
       end) = Some (h', Some ps', w) /\
      orep h' ps' (JArr (set_nth js i ju)) w fp' /\ NoDup fp' /\ post h ps fp h' ps' fp').
  { intros c Hv l'.
    assert (Hel : elems h1 v = E /\ hlen v = length E).
    { destruct Hv as [-> | (a & off & len & cap & cells & -> & Hn1 & ->)].
      - destruct Hnode as [(_ & _ & -> & _) | (a & off & len & cap & cells & Hc & _)]; [auto | discriminate].
      - simpl. rewrite (cells_of_nth _ _ _ Hn1). split; auto.
        destruct Hnode as [(Hc & _) | (a' & off' & len' & cap' & cells' & Hc & Hn & Hl & HE & _ & Hcase)]; [discriminate|].
        inversion Hc; subst a' off' len' cap'.
        assert (Hsame : nth_error h1 a = nth_error h a).
        { apply P2. eapply nth_error_lt; eauto. intro Hc0.
          destruct Hcase as [(Hna & _) | (_ & _ & _ & Hfp)]. { apply Hfx in Hc0 as [Hc1 _]. contradiction. }
          subst fp. apply NoDup_cons_iff in ND as [ND1 _]. apply ND1. apply nth_in_concat with (i := i). exact Hc0. }
        rewrite Hn1, Hn in Hsame. inversion Hsame; subst. rewrite firstn_length, skipn_length. lia. }
    destruct Hel as [Hel Hhl]. cbv zeta. unfold make_array, register. rewrite Hel.
    unfold l'. rewrite Hhl.
    rewrite fresh_write.
    2:{ destruct (Nat.leb (length E) i) eqn:L; [apply Nat.leb_le in L|]; lia. }
    edestruct (fresh_step h ps js E fps fp i h1 ps1 ju u fu c) as (R1 & R2 & R3); eauto.
    { intros a Ha. apply Hfx. auto. }
    do 4 eexists. split; [reflexivity|]. eauto. }
  destruct Hnode as [(-> & -> & -> & -> & ->) | (a & off & len & cap & cells & -> & Hn & Hl & -> & _ & [(Hna & Hcc & ->) | (Hp & -> & -> & ->)])].
  - (* nil *)
    unfold arr_write. cbn [allocated hlen hcap]. apply (Hfresh 0). left. auto.
  - (* an array the allocator does not know *)
    pose proof (nth_error_lt _ _ _ Hn) as Ha.
    assert (Hn1 : nth_error h1 a = Some (OArr cells)).
    { rewrite P2; auto. intro Hc. apply Hfx in Hc. tauto. }
    unfold arr_write.
    replace (allocated (Some ps1) (HArr a off len cap)) with false.
    2:{ symmetry. destruct (allocated (Some ps1) (HArr a off len cap)) eqn:Eq; auto. apply allocated_arr in Eq.
        destruct (P4 a) as [H|H]. { left; eauto. } { contradiction. } lia. }
    apply (Hfresh (hcap (HArr a off len cap))). right. exists a, off, len, cap, cells. auto.
  - (* allocated *)
    pose proof (nth_error_lt _ _ _ Hn) as Ha.
    assert (Hafps : ~ In a (concat fps)) by (inversion ND; auto).
    assert (Hafu : ~ In a fu).
    { intro Hc. destruct (P5 a Hc) as [H|H]; [|lia]. apply Hafps. apply nth_in_concat with (i := i). auto. }
    assert (Hn1 : nth_error h1 a = Some (OArr cells)).
    { rewrite P2; auto. intro Hc. apply Hafps. apply nth_in_concat with (i := i). auto. }
    unfold arr_write.
    replace (allocated (Some ps1) (HArr a 0 len (length cells))) with true by (symmetry; apply allocated_arr; auto).
    cbn [hlen hcap]. destruct (Nat.ltb i (length cells)) eqn:Lt.
    2:{ apply (Hfresh (2 * length cells)). right. exists a, 0, len, (length cells), cells. auto. }
    apply Nat.ltb_lt in Lt. simpl in Hl.
    (* in place: clear(v[len:i]) then v[i] = u, on a backing array whose hidden cells are arbitrary *)
    set (E := firstn len cells). set (N := skipn len cells).
    assert (HE : length E = len) by (unfold E; rewrite firstn_length; lia).
    assert (Hcells : cells = E ++ N) by (unfold E, N; symmetry; apply firstn_skipn).
    assert (HlenEN : length cells = length E + length N) by (rewrite Hcells at 1; apply app_length).
    destruct (inplace_cells_w E N i u ltac:(lia)) as (I1 & I3).
    rewrite HE in I1. rewrite <- HlenEN in I3.
    set (len' := if Nat.leb len i then S i else len) in *.
    set (cells' := set_list (cleared E N i) i u) in *.
    assert (Hcl1 : clear_cells (clear_exposed cfg) h1 a 0 len i = set_list h1 a (OArr (cleared E N i))).
    { rewrite Hclear, <- HE. apply clear_cells_eq; [rewrite <- Hcells; auto | lia]. }
    assert (Ha1 : a < length h1) by lia.
    rewrite Hcl1.
    rewrite (write_cell_eq _ _ (cleared E N i)) by (apply nth_error_set_list_same; auto).
    rewrite set_list_twice. cbn [Nat.add]. fold cells'.
    set (h' := set_list h1 a (OArr cells')).
    assert (Hother : forall a0, a0 <> a -> nth_error h' a0 = nth_error h1 a0).
    { intros. unfold h'. apply nth_error_set_list_other. auto. }
    assert (NDset : NoDup (concat (set_nth_g [] fps i fu))).
    { apply NoDup_concat_set_nth; auto. intros a0 Ha0. destruct (P5 a0 Ha0) as [H|H]; auto.
      right. intro Hc. apply Hcl in Hc. lia. }
    exists h', ps1, (HArr a 0 len' (length cells)), (a :: concat (set_nth_g [] fps i fu)).
    split; [reflexivity|]. split; [|split].
    + apply orep_arr. exists a, 0, len', (length cells), cells', (set_nth_g [] fps i fu).
      split; [reflexivity|]. split. { unfold h'. apply nth_error_set_list_same. lia. }
      split. { rewrite I3. unfold len'. destruct (Nat.leb len i); lia. }
      split.
      * rewrite skipn_O, I1, set_nth_is_g. simpl in Hrep. try rewrite skipn_O in Hrep. fold E in Hrep.
        apply (reps3_set_nth_frame (orep h ps)); auto.
        -- intros j0 x0 f0 Hr0 Hin0 Hdis. apply orep_frame with (h := h) (ps := ps); [exact Hr0 | | exact P3 | exact P4].
           intros a0 Ha0 Hor. assert (Hne : a0 <> a).
           { intro; subst a0. destruct Hor as [H|H]. apply H. left; eauto. apply Hafps. eapply in_concat_of; eauto. }
           rewrite Hother by auto. apply P2; auto. intro Hc. destruct Hor as [H|H].
           ++ apply H. apply Hfx. auto.
           ++ apply (Hdis a0); auto.
        -- split; auto.
        -- apply orep_frame with (h := h1) (ps := ps1); [exact Hu | | auto | auto].
           intros a0 Ha0 Hor. apply Hother. intro; subst a0. destruct Hor as [H|H]; auto. apply H. left. eauto.
      * right. split; auto.
    + constructor; auto. intro Hc0. apply in_concat_set_nth in Hc0. tauto.
    + apply post_intro; auto.
      * unfold h'. rewrite set_list_length. auto.
      * intros a0 Ha0 Hnin. rewrite Hother. { apply P2; auto. intro Hc. apply Hnin. right. apply nth_in_concat with (i := i). auto. }
        intro Heq. subst a0. apply Hnin. left; auto.
      * intros a0 [<-|Hc]. { left; left; auto. } apply in_concat_set_nth in Hc as [Hc|Hc].
        -- destruct (P5 _ Hc); auto. left. right. apply nth_in_concat with (i := i). auto.
        -- left. right. auto.
      * intros a0 Hge Hlt. apply P7; auto. unfold h' in Hlt. rewrite set_list_length in Hlt. auto.
Qed.

Lemma h_index2_idx : forall h v i, (v = HNull \/ exists a off len cap, v = HArr a off len cap) ->
  h_index2 h v (PI i) =
  Some (let len := Z.of_nat (hlen v) in let j := clamp i (-1) len in
        if ((0 <=? j) && (j <? len))%Z then nth (Z.to_nat j) (elems h v) HNull else HNull).
Proof.
  intros h v i [-> | (a & off & len & cap & ->)]; cbn [h_index2 hlen elems]; auto.
  cbv zeta. destruct ((0 <=? clamp i (-1) (Z.of_nat 0)) && (clamp i (-1) (Z.of_nat 0) <? Z.of_nat 0))%Z eqn:E; auto.
  apply andb_true_iff in E as [E1 E2]. apply Z.leb_le in E1. apply Z.ltb_lt in E2. lia.
Qed.

Lemma sound_idx_g : forall i r, sound_g r -> sound_g (PI i :: r).
Proof.
  intros i r IH h ps v j fp n jn fn Hwf Hr ND Hn NDn Hcond.
  rewrite update_idx_eq.
  pose proof (orep_is_empty _ _ _ _ _ Hn) as Hemp.
  assert (Hcont : forall js E fps k jx x,
    arr_node h ps js v E fps fp -> orep h ps jx x (nth k fps []) -> h_index2 h v (PI i) = Some x ->
    match Path.update jx r jn with
    | None => match update cfg h (Some ps) x r n with
              | None => None | Some (h1, A1, u) => arr_write h1 A1 v k u end = None
    | Some ju => exists h' ps' w fp',
        match update cfg h (Some ps) x r n with
        | None => None | Some (h1, A1, u) => arr_write h1 A1 v k u end = Some (h', Some ps', w) /\
        orep h' ps' (JArr (set_nth js k ju)) w fp' /\ NoDup fp' /\ post h ps fp h' ps' fp'
    end).
  { intros js E fps k jx x Hnode Hx Hix.
    assert (NDx : NoDup (nth k fps [])).
    { destruct Hnode as [(_ & _ & _ & -> & _) | (a & off & len & cap & cells & _ & _ & _ & _ & _ & [(_ & Hc & _) | (_ & _ & _ & ->)])].
      - destruct k; constructor.
      - apply NoDup_nth. rewrite Hc. constructor.
      - apply NoDup_nth. inversion ND; auto. }
    specialize (IH h ps x jx _ n jn fn Hwf Hx NDx Hn NDn (cond_step _ _ _ _ _ _ _ Hcond Hix)).
    destruct (Path.update jx r jn) as [ju|].
    - destruct IH as (h1 & ps1 & u & fu & -> & Hu & NDu & Hpost).
      eapply arr_step; eauto.
    - rewrite IH. auto. }
  (* the shared analysis of the index *)
  assert (Hmain : forall js E fps, arr_node h ps js v E fps fp -> elems h v = E -> hlen v = length js ->
    norm_nil v = v ->
    match
      (let len := zlen js in
       let j0 := clamp i (-1) len in
       if (j0 <? 0)%Z then if is_empty jn then Some j else None
       else if (j0 <? len)%Z then
         match Path.update (nth (Z.to_nat j0) js JNull) r jn with
         | Some u => Some (JArr (set_nth js (Z.to_nat j0) u)) | None => None end
       else if is_empty jn then Some j
       else if (max_index <=? i)%Z then None
       else match Path.update JNull r jn with
            | Some u => Some (JArr (set_nth js (Z.to_nat i) u)) | None => None end)
    with
    | None =>
        (let len := Z.of_nat (hlen v) in
         let j0 := clamp i (-1) len in
         if (j0 <? 0)%Z then if h_is_empty n then Some (h, Some ps, norm_nil v) else None
         else if (j0 <? len)%Z then
           match update cfg h (Some ps) (nth (Z.to_nat j0) (elems h v) HNull) r n with
           | None => None | Some (h1, A1, u) => arr_write h1 A1 v (Z.to_nat j0) u end
         else if h_is_empty n then Some (h, Some ps, norm_nil v)
         else if (max_index <=? i)%Z then None
         else match update cfg h (Some ps) HNull r n with
              | None => None | Some (h1, A1, u) => arr_write h1 A1 v (Z.to_nat i) u end) = None
    | Some j' => exists h' ps' u fp',
        (let len := Z.of_nat (hlen v) in
         let j0 := clamp i (-1) len in
         if (j0 <? 0)%Z then if h_is_empty n then Some (h, Some ps, norm_nil v) else None
         else if (j0 <? len)%Z then
           match update cfg h (Some ps) (nth (Z.to_nat j0) (elems h v) HNull) r n with
           | None => None | Some (h1, A1, u) => arr_write h1 A1 v (Z.to_nat j0) u end
         else if h_is_empty n then Some (h, Some ps, norm_nil v)
         else if (max_index <=? i)%Z then None
         else match update cfg h (Some ps) HNull r n with
              | None => None | Some (h1, A1, u) => arr_write h1 A1 v (Z.to_nat i) u end) = Some (h', Some ps', u) /\
        orep h' ps' j' u fp' /\ NoDup fp' /\ post h ps fp h' ps' fp'
    end).
  { intros js E fps Hnode Hel Hhl Hnn.
    assert (Hix : h_index2 h v (PI i) =
                  Some (if ((0 <=? clamp i (-1) (Z.of_nat (length js))) && (clamp i (-1) (Z.of_nat (length js)) <? Z.of_nat (length js)))%Z
                        then nth (Z.to_nat (clamp i (-1) (Z.of_nat (length js)))) E HNull else HNull)).
    { rewrite h_index2_idx. 2:{ destruct Hnode as [(-> & _) | (a & off & len & cap & cells & -> & _)]; eauto 6. }
      cbv zeta. rewrite Hhl, Hel. auto. }
    cbv zeta. unfold zlen. rewrite Hhl, Hel, Hnn, <- Hemp.
    assert (Hrep : reps3 (orep h ps) js E fps).
    { destruct Hnode as [(_ & -> & -> & -> & _) | (a & off & len & cap & cells & _ & _ & _ & _ & S & _)]; simpl; auto. }
    destruct (reps3_length _ _ _ _ Hrep) as [L1 L2].
    set (j0 := clamp i (-1) (Z.of_nat (length js))).
    destruct (j0 <? 0)%Z eqn:E1.
    { destruct (is_empty jn); auto. exists h, ps, v, fp. repeat split; auto; try (intros; simpl in *; tauto); try (intros; lia). }
    destruct (j0 <? Z.of_nat (length js))%Z eqn:E2.
    { assert (Hk : Z.to_nat j0 < length js) by lia.
      fold j0 in Hix. rewrite E2 in Hix. replace (0 <=? j0)%Z with true in Hix by lia. cbn [andb] in Hix.
      pose proof (Hcont js E fps (Z.to_nat j0) _ _ Hnode (reps3_nth _ JNull HNull [] _ _ _ _ Hrep Hk) Hix) as Hc1.
      destruct (Path.update (nth (Z.to_nat j0) js JNull) r jn); exact Hc1. }
    destruct (is_empty jn).
    { exists h, ps, v, fp. repeat split; auto; try (intros; simpl in *; tauto); try (intros; lia). }
    destruct (max_index <=? i)%Z; auto.
    assert (Hi : length js <= Z.to_nat i).
    { unfold j0, clamp in E1, E2. destruct (i <? 0)%Z eqn:Ei;
      repeat match type of E2 with context [if ?c then _ else _] => destruct c eqn:? end; lia. }
    assert (Hx0 : orep h ps JNull HNull (nth (Z.to_nat i) fps [])).
    { rewrite nth_overflow by lia. split; auto. }
    fold j0 in Hix. rewrite E2, andb_false_r in Hix.
    pose proof (Hcont js E fps (Z.to_nat i) _ _ Hnode Hx0 Hix) as Hc1.
    destruct (Path.update JNull r jn); exact Hc1. }
  destruct j; cbn [Path.update].
  - destruct Hr as [-> ->]. apply (Hmain [] [] []); auto. left. auto 6.
  - destruct Hr as [-> _]. auto.
  - destruct Hr as [-> _]. auto.
  - destruct Hr as [-> _]. auto.
  - destruct Hr as [-> ->]. exists h, ps, HEmpty, []. repeat split; auto; try constructor; try (intros; simpl in *; tauto); try (intros; lia).
  - pose proof Hr as Hr0.
    apply orep_arr in Hr as (a & off & len & cap & cells & fps & -> & Hna & Hl & Hc & Hcase).
    destruct (reps3_length _ _ _ _ Hc) as [L1 L2].
    apply (Hmain l (firstn len (skipn off cells)) fps); auto.
    + right. exists a, off, len, cap, cells. auto 8.
    + simpl. rewrite (cells_of_nth _ _ _ Hna). auto.
    + simpl. rewrite L1, firstn_length, skipn_length. lia.
  - apply orep_obj in Hr as (a & kvs & fps & -> & _). auto.
Qed.

Theorem update_sound_g : forall p, no_slice p -> sound_g p.
Proof.
  induction p as [|c p IH]; intros Hns. { apply sound_nil_g. }
  inversion Hns; subst. destruct c; simpl in H1; try contradiction.
  - apply sound_key_g. auto.
  - apply sound_idx_g. auto.
Qed.
End Gen.

(* ---- instance 1: a frozen new value (no allocated container inside it) ---- *)
Definition cond_frozen (h : heap) (ps : list ptr) (v : hval) (p : path) (fn : list nat) : Prop := fn = [].

Definition sound_at (p : path) : Prop := forall h ps v j fp n jn,
  alloc_wf ps -> orep h ps j v fp -> NoDup fp -> orep h ps jn n [] ->
  match Path.update j p jn with
  | None => update cfg h (Some ps) v p n = None
  | Some j' => exists h' ps' u fp', update cfg h (Some ps) v p n = Some (h', Some ps', u) /\
                 orep h' ps' j' u fp' /\ NoDup fp' /\ post h ps fp h' ps' fp'
  end.

Lemma frozen_nil : forall h ps v j fp fn, cond_frozen h ps v [] fn -> orep h ps j v fp -> incl fn fp.
Proof. intros h ps v j fp fn -> _ a []. Qed.
Lemma frozen_step : forall h ps v c r fn x, cond_frozen h ps v (c :: r) fn -> h_index2 h v c = Some x -> cond_frozen h ps x r fn.
Proof. intros. exact H. Qed.

Lemma sound_at_g : forall p, sound_at p <-> sound_g cond_frozen p.
Proof.
  intros p. split.
  - intros H h ps v j fp n jn fn Hwf Hr ND Hn _ Hc. unfold cond_frozen in Hc. subst fn. apply H; auto.
  - intros H h ps v j fp n jn Hwf Hr ND Hn. apply (H h ps v j fp n jn []); auto. constructor. reflexivity.
Qed.

Lemma sound_nil : sound_at [].
Proof. apply sound_at_g. apply sound_nil_g. exact frozen_nil. Qed.
Lemma sound_key : forall k r, sound_at r -> sound_at (PK k :: r).
Proof. intros k r H. apply sound_at_g. apply (sound_key_g cond_frozen frozen_step). apply sound_at_g. auto. Qed.
Lemma sound_idx : forall i r, sound_at r -> sound_at (PI i :: r).
Proof. intros i r H. apply sound_at_g. apply (sound_idx_g cond_frozen frozen_step). apply sound_at_g. auto. Qed.

Theorem update_sound : forall p, no_slice p -> sound_at p.
Proof.
  induction p as [|c p IH]; intros Hns. { apply sound_nil. }
  inversion Hns; subst. destruct c; simpl in H1; try contradiction.
  - apply sound_key. auto.
  - apply sound_idx. auto.
Qed.

(* ---- instance 2: the new value is made of containers OWNED BY THE VALUE IT REPLACES ----
   [own_at h ps v p fn]: following p from v the way getpath does (h_index2: aliases), the value found there
   has a footprint that contains fn.  Off the end of the data (missing key, index beyond the length, null) the
   value found is null, its footprint is empty, so fn must be empty: the frozen case. *)
Fixpoint own_at (h : heap) (ps : list ptr) (v : hval) (p : path) (fn : list nat) : Prop :=
  match p with
  | [] => forall j fp, orep h ps j v fp -> incl fn fp
  | c :: r => match h_index2 h v c with Some x => own_at h ps x r fn | None => fn = [] end
  end.

Lemma own_nil : forall h ps v j fp fn, own_at h ps v [] fn -> orep h ps j v fp -> incl fn fp.
Proof. intros h ps v j fp fn H Hr. exact (H j fp Hr). Qed.
Lemma own_step : forall h ps v c r fn x, own_at h ps v (c :: r) fn -> h_index2 h v c = Some x -> own_at h ps x r fn.
Proof. intros h ps v c r fn x H Hx. cbn [own_at] in H. rewrite Hx in H. exact H. Qed.

Definition sound_own (p : path) : Prop := sound_g own_at p.

Theorem update_sound_own : forall p, no_slice p -> sound_own p.
Proof. intros p Hp. apply (update_sound_g own_at own_nil own_step p Hp). Qed.
End Sound.
