(* C02 — the invariant [orep] implies that the executable abstraction [abs] reads the denoted value
   (in particular the value is acyclic), and the end-user form of the update theorem. *)
From Coq Require Import List ZArith NArith Bool Lia.
From Verif Require Import c02.Path c02.PathProofs c02.HeapPath c02.HeapInv c02.HeapProofs c02.HeapSlice c02.HeapInner.
Import ListNotations.
Open Scope nat_scope.

Fixpoint depth (j : jv) : nat :=
  match j with
  | JArr l => S (fold_right (fun x m => Nat.max (depth x) m) 0 l)
  | JObj m => S (fold_right (fun kx m => Nat.max (depth (snd kx)) m) 0 m)
  | _ => 0
  end.

Lemma abs_arr_go : forall h f (xs : list hval) (js : list jv),
  Forall2 (fun x j => abs f h x = Some j) xs js ->
  (fix go (l : list hval) : option jv :=
     match l with
     | [] => Some (JArr [])
     | x :: r => match abs f h x, go r with
                 | Some jx, Some (JArr jr) => Some (JArr (jx :: jr))
                 | _, _ => None end
     end) xs = Some (JArr js).
Proof. induction 1; auto. rewrite H, IHForall2. auto. Qed.

Lemma abs_map_go : forall h f (xs : list (key * hval)) (jm : list (key * jv)),
  Forall2 (fun kx kj => fst kx = fst kj /\ abs f h (snd kx) = Some (snd kj)) xs jm ->
  (fix go (m : list (key * hval)) : option jv :=
     match m with
     | [] => Some (JObj [])
     | (k, x) :: r => match abs f h x, go r with
                      | Some jx, Some (JObj jr) => Some (JObj ((k, jx) :: jr))
                      | _, _ => None end
     end) xs = Some (JObj jm).
Proof.
  induction 1; auto. destruct x as [k x], y as [k' j]. simpl in *. destruct H as [-> H]. rewrite H, IHForall2. auto.
Qed.

Theorem orep_abs : forall j h ps v fp, orep h ps j v fp -> forall fuel, depth j < fuel -> abs fuel h v = Some j.
Proof.
  induction j using jv_ind'; intros h ps v fp Hr fuel Hf; destruct fuel; try lia;
    try (destruct Hr as [-> _]; reflexivity).
  - apply orep_arr in Hr as (a & off & len & cap & cells & fps & -> & Hn & Hl & Hc & _).
    cbn [abs]. unfold elems. rewrite (cells_of_nth _ _ _ Hn). apply abs_arr_go.
    simpl in Hf. apply Nat.succ_lt_mono in Hf.
    revert Hc Hf H. generalize (firstn len (skipn off cells)) as xs. revert fps.
    induction l as [|j0 l IHl]; intros fps xs Hc Hf HF; destruct xs, fps; simpl in Hc; try tauto; constructor.
    + inversion HF; subst. destruct Hc as [Hc _]. eapply H1; eauto. simpl in Hf. lia.
    + inversion HF; subst. destruct Hc as [_ Hc]. eapply IHl; eauto. simpl in Hf. lia.
  - apply orep_obj in Hr as (a & kvs & fps & -> & Hn & _ & Hc & _).
    cbn [abs]. rewrite (kvs_of_nth _ _ _ Hn). apply abs_map_go.
    simpl in Hf. apply Nat.succ_lt_mono in Hf. clear Hn.
    revert Hc Hf H. revert fps kvs.
    induction m as [|[k0 j0] m IHm]; intros fps xs Hc Hf HF; destruct xs as [|[k1 x1] xs], fps; simpl in Hc; try tauto; constructor.
    + inversion HF; subst. destruct Hc as (-> & Hc & _). simpl. split; auto. eapply H1; eauto. simpl in *. lia.
    + inversion HF; subst. destruct Hc as (_ & _ & Hc). eapply IHm; eauto. simpl in Hf. lia.
Qed.

(* the frozen part of the heap is untouched *)
Lemma frame_frozen : forall h ps fp h' ps' fp' jx x,
  (forall a, In a fp -> aaddr ps a) -> post h ps fp h' ps' fp' -> frep h ps jx x -> frep h' ps' jx x.
Proof.
  intros h ps fp h' ps' fp' jx x Hfp (P1 & P2 & P3 & P4 & P5 & P6 & P7) Hx. unfold frep in *.
  apply orep_frame with (h := h) (ps := ps); auto.
  intros a Ha [Hna | []]. apply P2; auto.
Qed.

(* abs_update: update refines Path.setpath, frames every frozen value, builds no cycle, keeps the invariant *)
Theorem abs_update : forall p h ps v j fp n jn,
  alloc_wf ps -> orep h ps j v fp -> NoDup fp -> frep h ps jn n -> ok_path p ->
  match setpath j p jn with
  | None => update current h (Some ps) v p n = None
  | Some j' =>
      exists h' ps' u fp',
        update current h (Some ps) v p n = Some (h', Some ps', u) /\
        (forall fuel, depth j' < fuel -> abs fuel h' u = Some j') /\
        (forall jx x, frep h ps jx x -> frep h' ps' jx x /\ forall fuel, depth jx < fuel -> abs fuel h' x = Some jx) /\
        orep h' ps' j' u fp' /\ NoDup fp' /\ alloc_wf ps'
  end.
Proof.
  intros p h ps v j fp n jn Hwf Hr ND Hn Hns. unfold setpath.
  pose proof (update_sound_ok current p eq_refl eq_refl Hns h ps v j fp n jn Hwf Hr ND Hn) as H.
  destruct (Path.update j p jn) as [j'|]; auto.
  destruct H as (h' & ps' & u & fp' & Hu & Hr' & ND' & Hpost).
  exists h', ps', u, fp'. split; auto. split. { intros. eapply orep_abs; eauto. }
  split.
  - intros jx x Hx. assert (frep h' ps' jx x).
    { apply (frame_frozen h ps fp h' ps' fp' jx x); auto. intros a Ha. apply (orep_fp _ _ _ _ _ Hr a Ha). }
    split; auto. intros. eapply orep_abs; eauto.
  - destruct Hpost as (_ & _ & _ & _ & _ & P6 & _). auto.
Qed.
