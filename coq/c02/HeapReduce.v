(* C02 — the defining reductions at heap level: the loops that compileAssign / compileModify emit (one
   allocator shared by all setpath calls, getpath handing aliases to the update body, first output of the
   body, empty => the path is collected, one final delpaths) equal the pure folds over Path.update /
   Path.delpaths, PROVIDED every new value contains no allocated container.  The known findings D5 and D9 are
   exactly runs in which the update body returns a value that embeds the (allocated) container it was given. *)
From Coq Require Import List ZArith NArith Bool Lia.
From Verif Require Import c02.Path c02.PathProofs c02.HeapPath c02.HeapInv c02.HeapProofs c02.HeapSlice c02.HeapInner c02.HeapAbs
  c02.HeapSweep c02.HeapDelpaths.
Import ListNotations.
Open Scope nat_scope.

Definition denotes (h : heap) (x : hval) (jx : jv) : Prop := forall fuel, depth jx < fuel -> abs fuel h x = Some jx.

(* ---- getpath returns an alias that denotes Path.getpath ---- *)
Lemma abs_of_elems : forall h a off len cap cells js,
  nth_error h a = Some (OArr cells) ->
  Forall2 (fun x j => denotes h x j) (firstn len (skipn off cells)) js ->
  denotes h (HArr a off len cap) (JArr js).
Proof.
  intros h a off len cap cells js Hn HF fuel Hf. destruct fuel; try lia.
  cbn [abs]. unfold elems. rewrite (cells_of_nth _ _ _ Hn). apply abs_arr_go.
  simpl in Hf. apply Nat.succ_lt_mono in Hf.
  induction HF; constructor.
  - apply H. simpl in Hf. lia.
  - apply IHHF. simpl in Hf. lia.
Qed.

Lemma reps3_denotes : forall h ps js xs fps, reps3 (orep h ps) js xs fps -> Forall2 (fun x j => denotes h x j) xs js.
Proof.
  induction js; destruct xs, fps; simpl; try tauto; intros; constructor.
  - destruct H as [H _]. intros fuel Hf. eapply orep_abs; eauto.
  - destruct H as [_ H]. eauto.
Qed.

Lemma Forall2_firstn {A B} (R : A -> B -> Prop) : forall n l l', Forall2 R l l' -> Forall2 R (firstn n l) (firstn n l').
Proof. induction n; intros; simpl; [constructor|]. destruct H; constructor; auto. Qed.
Lemma Forall2_skipn {A B} (R : A -> B -> Prop) : forall n l l', Forall2 R l l' -> Forall2 R (skipn n l) (skipn n l').
Proof. induction n; intros; simpl; auto. destruct H; auto. Qed.

Lemma skipn_firstn {X} : forall m n (l : list X), skipn m (firstn n l) = firstn (n - m) (skipn m l).
Proof.
  induction m; intros; simpl. { rewrite Nat.sub_0_r. auto. }
  destruct n; simpl. { auto. } destruct l; simpl. { rewrite firstn_nil. auto. } apply IHm.
Qed.

Lemma firstn_firstn_le {X} : forall a b (l : list X), a <= b -> firstn a (firstn b l) = firstn a l.
Proof. intros. rewrite firstn_firstn. f_equal. lia. Qed.

Lemma getpath_sound : forall q, ok_path q -> forall h ps j v fp,
  orep h ps j v fp ->
  match getpath j q with
  | None => h_getpath h v q = None
  | Some jx => exists x, h_getpath h v q = Some x /\ denotes h x jx
  end.
Proof.
  induction 1; intros h ps j v fp Hr.
  - simpl. exists v. split; auto. intros fuel Hf. eapply orep_abs; eauto.
  - (* trailing slice *)
    destruct j; try (destruct Hr as [-> _]; simpl; eauto; fail).
    + destruct Hr as [-> _]. simpl. exists HNull. split; auto. intros [|fuel] Hf; [lia|auto].
    + apply orep_arr in Hr as (a & off & len & cap & cells & fps & -> & Hn & Hl & Hc & _).
      destruct (reps3_length _ _ _ _ Hc) as [L1 _].
      assert (Hlen : length l = len) by (rewrite L1, firstn_length, skipn_length; lia).
      cbn [getpath index2 h_getpath h_index2]. unfold zlen. rewrite Hlen.
      destruct (slice_bounds_read s e (Z.of_nat len)) as [zs ze] eqn:SB.
      destruct (slice_bounds_read_range _ _ _ _ _ (Nat2Z.is_nonneg _) SB) as [[B1 B2] B3].
      eexists. split; [reflexivity|].
      unfold reslice, sub.
      set (st := Z.to_nat zs). set (en := Z.to_nat ze).
      replace (Z.to_nat (ze - zs)) with (en - st) by (unfold st, en; lia).
      apply abs_of_elems with (cells := cells); auto.
      destruct (Nat.eqb (en - st) 0) eqn:E0.
      * apply Nat.eqb_eq in E0. rewrite E0. simpl. constructor.
      * rewrite andb_false_r.
        pose proof (reps3_denotes _ _ _ _ _ Hc) as HF.
        apply (Forall2_skipn _ st) in HF. apply (Forall2_firstn _ (en - st)) in HF.
        rewrite skipn_firstn, firstn_firstn_le, skipn_add in HF by (unfold st, en; lia). exact HF.
    + apply orep_obj in Hr as (a & kvs & fps & -> & _). reflexivity.
  - (* key *)
    destruct j; try (destruct Hr as [-> _]; simpl; eauto; fail).
    + destruct Hr as [-> ->]. cbn [getpath index2 h_getpath h_index2].
      apply (IHok_path h ps JNull HNull []). split; auto.
    + apply orep_arr in Hr as (a & off & len & cap & cells & fps & -> & _). reflexivity.
    + apply orep_obj in Hr as (a & kvs & fps & -> & Hn & Hs & Hc & _).
      cbn [getpath index2 h_getpath h_index2]. rewrite (kvs_of_nth _ _ _ Hn).
      pose proof (repm3_lookup _ _ _ _ k Hc) as Hl.
      destruct (lookup k m) as [jx|]; destruct (lookup k kvs) as [x|]; try contradiction.
      * eapply IHok_path; eauto.
      * apply (IHok_path h ps JNull HNull []). split; auto.
  - (* index *)
    destruct j; try (destruct Hr as [-> _]; simpl; eauto; fail).
    + destruct Hr as [-> ->]. cbn [getpath index2 h_getpath h_index2].
      apply (IHok_path h ps JNull HNull []). split; auto.
    + apply orep_arr in Hr as (a & off & len & cap & cells & fps & -> & Hn & Hl & Hc & _).
      destruct (reps3_length _ _ _ _ Hc) as [L1 L2].
      assert (Hlen : length l = len) by (rewrite L1, firstn_length, skipn_length; lia).
      cbn [getpath index2 h_getpath h_index2]. unfold zlen. rewrite Hlen.
      cbn [elems]. rewrite (cells_of_nth _ _ _ Hn).
      destruct ((0 <=? clamp i (-1) (Z.of_nat len))%Z && (clamp i (-1) (Z.of_nat len) <? Z.of_nat len)%Z) eqn:E.
      * apply andb_true_iff in E as [E1 E2].
        assert (Hk : Z.to_nat (clamp i (-1) (Z.of_nat len)) < length l) by lia.
        eapply IHok_path. apply (reps3_nth _ JNull HNull [] _ _ _ _ Hc Hk).
      * apply (IHok_path h ps JNull HNull []). split; auto.
    + apply orep_obj in Hr as (a & kvs & fps & -> & _). reflexivity.
  - (* slice, then index: through the window *)
    destruct j; try (destruct Hr as [-> _]; simpl; eauto; fail).
    + destruct Hr as [-> ->]. cbn [getpath index2 h_getpath h_index2].
      apply (IHok_path h ps JNull HNull []). split; auto.
    + apply orep_arr in Hr as (a & off & len & cap & cells & fps & -> & Hn & Hl & Hc & _).
      destruct (reps3_length _ _ _ _ Hc) as [L1 L2].
      assert (Hlen : length l = len) by (rewrite L1, firstn_length, skipn_length; lia).
      cbn [getpath index2 h_getpath h_index2]. unfold zlen at 1. rewrite Hlen.
      destruct (slice_bounds_read s e (Z.of_nat len)) as [zs ze] eqn:SB.
      destruct (slice_bounds_read_range _ _ _ _ _ (Nat2Z.is_nonneg _) SB) as [[B1 B2] B3].
      rewrite (sub_nat l zs ze) by lia.
      set (st := Z.to_nat zs). set (en := Z.to_nat ze).
      assert (Hse : st <= en) by (unfold st, en; lia).
      assert (Hen : en <= len) by (unfold en; lia).
      set (jsW := firstn (en - st) (skipn st l)).
      set (EW := firstn (en - st) (skipn st (firstn len (skipn off cells)))).
      set (fpsW := firstn (en - st) (skipn st fps)).
      assert (HrepW : reps3 (orep h ps) jsW EW fpsW) by (apply reps3_firstn; apply reps3_skipn; auto).
      assert (HlW : length jsW = en - st) by (unfold jsW; rewrite firstn_length, skipn_length; lia).
      unfold reslice. cbn [h_getpath h_index2]. unfold zlen. rewrite HlW.
      assert (Hel : elems h (HArr a (if Nat.eqb (cap - st) 0 && Nat.eqb (en - st) 0 then off else off + st) (en - st) (cap - st)) = EW \/ en - st = 0).
      { destruct (Nat.eqb (en - st) 0) eqn:E0. { right. apply Nat.eqb_eq. auto. }
        left. rewrite andb_false_r. cbn [elems]. rewrite (cells_of_nth _ _ _ Hn). unfold EW. apply window_elems; lia. }
      destruct ((0 <=? clamp i (-1) (Z.of_nat (en - st)))%Z && (clamp i (-1) (Z.of_nat (en - st)) <? Z.of_nat (en - st))%Z) eqn:E.
      * apply andb_true_iff in E as [E1 E2]. apply Z.leb_le in E1. apply Z.ltb_lt in E2.
        destruct Hel as [Hel|Hel]; [|lia]. rewrite Hel.
        assert (Hk : Z.to_nat (clamp i (-1) (Z.of_nat (en - st))) < length jsW) by lia.
        eapply IHok_path. apply (reps3_nth _ JNull HNull [] _ _ _ _ HrepW Hk).
      * apply (IHok_path h ps JNull HNull []). split; auto.
    + apply orep_obj in Hr as (a & kvs & fps & -> & _). reflexivity.
Qed.

(* ==== _assign: reduce path(p) as $q (.; setpath($q; $x)) with one allocator ==== *)
Fixpoint assign_loop (h : heap) (A : alloc) (v : hval) (qs : list path) (n : hval) : option (heap * alloc * hval) :=
  match qs with
  | [] => Some (h, A, v)
  | q :: r => match update current h A v q n with
              | Some (h1, A1, u) => assign_loop h1 A1 u r n
              | None => None end
  end.

Fixpoint assign_v (j : jv) (qs : list path) (jn : jv) : option jv :=
  match qs with
  | [] => Some j
  | q :: r => match Path.update j q jn with Some j1 => assign_v j1 r jn | None => None end
  end.

Theorem assign_sound : forall qs h ps v j fp n jn,
  inv h ps j v fp -> frep h ps jn n -> Forall ok_path qs ->
  match assign_v j qs jn with
  | None => assign_loop h (Some ps) v qs n = None
  | Some j' => exists h' ps' u fp',
      assign_loop h (Some ps) v qs n = Some (h', Some ps', u) /\ inv h' ps' j' u fp' /\ framed h ps h' ps' /\
      denotes h' u j'
  end.
Proof.
  induction qs as [|q qs IH]; intros h ps v j fp n jn Hinv Hn Hok; simpl.
  - exists h, ps, v, fp. split; auto. split; auto. split. apply framed_refl.
    destruct Hinv as (_ & _ & Hr & _). intros fuel Hf. eapply orep_abs; eauto.
  - inversion Hok; subst.
    pose proof (update_step q h ps v j fp n jn Hinv Hn H1) as Hs.
    destruct (Path.update j q jn) as [j1|]; [|rewrite Hs; auto].
    destruct Hs as (h1 & ps1 & u1 & fp1 & -> & Hinv1 & Hf1).
    specialize (IH h1 ps1 u1 j1 fp1 n jn Hinv1 (Hf1 _ _ Hn) H2).
    destruct (assign_v j1 qs jn) as [j'|]; auto.
    destruct IH as (h' & ps' & u & fp' & -> & Hinv' & Hf' & Hd).
    exists h', ps', u, fp'. split; auto. split; auto. split; auto. eapply framed_trans; eauto.
Qed.

(* the input of a query is a value the fresh allocator knows nothing about *)
Lemma inv_initial : forall h j v, frep h [] j v -> hclean h [] -> inv h [] j v [].
Proof. intros h j v Hr Hc. split; [|split; [|split]]; auto. { intros a off []. } constructor. Qed.

(* ==== _modify ==== *)
Section Modify.
(* the update body: [fv] is its first output as a function of the value (None = empty), [fh] what it does
   on the heap: it may build new objects and returns a Go value *)
Variable fv : jv -> option jv.
Variable fh : heap -> hval -> heap * option hval.

(* THE SIDE CONDITION: whatever the body is given, it leaves the existing heap alone, builds no marker, and
   its output contains no container the allocator may still write in place.  (D5, D9: `[.]`, `[.,.]` given
   an allocated container, or a slice of one, return a value that embeds it.) *)
Definition body_ok : Prop := forall h ps x jx,
  denotes h x jx ->
  exists ext ou, fh h x = (h ++ ext, ou) /\
    (forall a o, nth_error ext a = Some o -> obj_clean o) /\
    match ou, fv jx with
    | Some u, Some ju => frep (h ++ ext) ps ju u
    | None, None => True
    | _, _ => False
    end.

Fixpoint modify_loop (h : heap) (A : alloc) (v : hval) (qs : list path) (dels : list path)
  : option (heap * alloc * hval * list path) :=
  match qs with
  | [] => Some (h, A, v, dels)
  | q :: r =>
      match h_getpath h v q with
      | None => None
      | Some x =>
          let '(h1, ou) := fh h x in
          match ou with
          | Some u => match update current h1 A v q u with
                      | Some (h2, A2, v2) => modify_loop h2 A2 v2 r dels
                      | None => None end
          | None => modify_loop h1 A v r (dels ++ [q])
          end
      end
  end.

Definition modify (fuel : nat) (h : heap) (A : alloc) (v : hval) (qs : list path) : option (heap * alloc * hval) :=
  match modify_loop h A v qs [] with
  | Some (h1, A1, v1, dels) => HeapPath.delpaths current fuel h1 A1 v1 dels
  | None => None
  end.

(* the defining reduction (_mref of harness/c02/gen.go) *)
Fixpoint modify_loop_v (j : jv) (qs : list path) (dels : list path) : option (jv * list path) :=
  match qs with
  | [] => Some (j, dels)
  | q :: r =>
      match getpath j q with
      | None => None
      | Some jx =>
          match fv jx with
          | Some ju => match Path.update j q ju with Some j2 => modify_loop_v j2 r dels | None => None end
          | None => modify_loop_v j r (dels ++ [q])
          end
      end
  end.

Definition modify_v (j : jv) (qs : list path) : option jv :=
  match modify_loop_v j qs [] with
  | Some (j1, dels) => Path.delpaths j1 dels
  | None => None
  end.

Lemma inv_extend : forall h ps j v fp ext,
  inv h ps j v fp -> (forall a o, nth_error ext a = Some o -> obj_clean o) ->
  inv (h ++ ext) ps j v fp /\ framed h ps (h ++ ext) ps.
Proof.
  intros h ps j v fp ext (Hwf & Hcl & Hr & ND) Hext.
  assert (Hfr : forall jx x f, orep h ps jx x f -> orep (h ++ ext) ps jx x f).
  { intros. apply orep_frame with (h := h) (ps := ps); auto. intros. apply nth_error_app1. auto. }
  split; [|intros jx x Hx; apply Hfr; auto].
  split; [|split; [|split]]; auto.
  intros a o Hn Hna. destruct (Nat.lt_ge_cases a (length h)).
  - rewrite nth_error_app1 in Hn by auto. eapply Hcl; eauto.
  - rewrite nth_error_app2 in Hn by auto. eapply Hext; eauto.
Qed.

Lemma modify_loop_sound : body_ok -> forall qs h ps v j fp dels,
  inv h ps j v fp -> Forall ok_path qs ->
  match modify_loop_v j qs dels with
  | None => modify_loop h (Some ps) v qs dels = None
  | Some (j1, dels1) => exists h1 ps1 v1 fp1,
      modify_loop h (Some ps) v qs dels = Some (h1, Some ps1, v1, dels1) /\ inv h1 ps1 j1 v1 fp1 /\ framed h ps h1 ps1 /\
      (Forall ok_path dels -> Forall ok_path dels1)
  end.
Proof.
  intros Hbody. induction qs as [|q qs IH]; intros h ps v j fp dels Hinv Hok; simpl.
  - exists h, ps, v, fp. split; auto. split; auto. split; auto. apply framed_refl.
  - inversion Hok; subst.
    pose proof Hinv as (Hwf & Hcl & Hr & ND).
    pose proof (getpath_sound q H1 h ps j v fp Hr) as Hg.
    destruct (getpath j q) as [jx|]; [|rewrite Hg; auto].
    destruct Hg as (x & -> & Hx).
    destruct (Hbody h ps x jx Hx) as (ext & ou & -> & Hext & Hou).
    destruct (inv_extend h ps j v fp ext Hinv Hext) as [Hinv1 Hf1].
    destruct ou as [u|], (fv jx) as [ju|]; try contradiction.
    + pose proof (update_step q (h ++ ext) ps v j fp u ju Hinv1 Hou H1) as Hs.
      destruct (Path.update j q ju) as [j2|]; [|rewrite Hs; auto].
      destruct Hs as (h2 & ps2 & v2 & fp2 & -> & Hinv2 & Hf2).
      specialize (IH h2 ps2 v2 j2 fp2 dels Hinv2 H2).
      destruct (modify_loop_v j2 qs dels) as [[j1 dels1]|]; auto.
      destruct IH as (h1 & ps1 & v1 & fp1 & -> & Hinv' & Hf' & Hd).
      exists h1, ps1, v1, fp1. split; auto. split; auto. split; auto.
      eapply framed_trans; eauto. eapply framed_trans; eauto.
    + specialize (IH (h ++ ext) ps v j fp (dels ++ [q]) Hinv1 H2).
      destruct (modify_loop_v j qs (dels ++ [q])) as [[j1 dels1]|]; auto.
      destruct IH as (h1 & ps1 & v1 & fp1 & -> & Hinv' & Hf' & Hd).
      exists h1, ps1, v1, fp1. split; auto. split; auto. split. { eapply framed_trans; eauto. }
      intros Hdels. apply Hd. apply Forall_app. split; auto.
Qed.

(* modify_sound: the compiled reduction equals its defining reduction under the side condition *)
Theorem modify_sound : body_ok -> forall qs h ps v j fp,
  inv h ps j v fp -> Forall ok_path qs ->
  match modify_v j qs with
  | None => forall fuel, modify fuel h (Some ps) v qs = None
  | Some j' => exists fuel0, forall fuel, fuel0 <= fuel ->
      exists h' ps' u fp',
        modify fuel h (Some ps) v qs = Some (h', Some ps', u) /\
        inv h' ps' j' u fp' /\ framed h ps h' ps' /\ denotes h' u j'
  end.
Proof.
  intros Hbody qs h ps v j fp Hinv Hok. unfold modify_v, modify.
  pose proof (modify_loop_sound Hbody qs h ps v j fp [] Hinv Hok) as Hl.
  destruct (modify_loop_v j qs []) as [[j1 dels1]|].
  - destruct Hl as (h1 & ps1 & v1 & fp1 & -> & Hinv1 & Hf1 & Hd).
    pose proof (abs_delpaths dels1 h1 ps1 v1 j1 fp1 Hinv1 (Hd (Forall_nil _))) as Hdp.
    destruct (Path.delpaths j1 dels1) as [j'|]; auto.
    destruct Hdp as (fuel0 & Hdp). exists fuel0. intros fuel Hf.
    destruct (Hdp fuel Hf) as (h' & ps' & u & fp' & -> & Hinv' & Hf' & Hden).
    exists h', ps', u, fp'. split; auto. split; auto. split; auto. eapply framed_trans; eauto.
  - intros fuel. rewrite Hl. auto.
Qed.
End Modify.

(* the side condition is satisfiable: constant bodies, `empty`, and a body that wraps scalars *)
Example body_ok_const : forall z, body_ok (fun _ => Some (JNum z)) (fun h _ => (h, Some (HNum z))).
Proof.
  intros z h ps x jx _. exists [], (Some (HNum z)). rewrite app_nil_r. split; auto. split.
  - intros a o H. destruct a; discriminate.
  - split; auto.
Qed.

Example body_ok_empty : body_ok (fun _ => None) (fun h _ => (h, None)).
Proof.
  intros h ps x jx _. exists [], None. rewrite app_nil_r. split; auto. split; auto.
  intros a o H. destruct a; discriminate.
Qed.

(* `.[0] = 9 | ...`: the whole compiled `(.a, .b[1:]) |= 7` on a concrete heap *)
Example modify_run :
  let h := [OMap [([97%N], HNum 1); ([98%N], HArr 1 0 3 3)]; OArr [HNum 1; HNum 2; HNum 3]] in
  modify (fun h _ => (h, Some (HNum 7))) 8 h (Some []) (HMap 0) [[PK [97%N]]; [PK [98%N]; PI 1%Z]] =
  Some (h ++ [OMap [([97%N], HNum 7); ([98%N], HArr 3 0 3 3)]; OArr [HNum 1; HNum 7; HNum 3]],
        Some [PArr 3 0; PMap 2], HMap 2) /\
  modify_v (fun _ => Some (JNum 7)) (JObj [([97%N], JNum 1); ([98%N], JArr [JNum 1; JNum 2; JNum 3])])
           [[PK [97%N]]; [PK [98%N]; PI 1%Z]] =
  Some (JObj [([97%N], JNum 7); ([98%N], JArr [JNum 1; JNum 7; JNum 3])]).
Proof. vm_compute. split; reflexivity. Qed.

(* the relaxed side condition (statement only, see props/C02.v C02_modify_part_open): the output of the body may
   own allocated containers, all taken from the footprint of the value the body was given (it returns its input,
   a child, or a prefix slice of it) *)
Definition body_part_ok (fv : jv -> option jv) (fh : heap -> hval -> heap * option hval) : Prop :=
  forall h ps x jx fx, orep h ps jx x fx -> NoDup fx ->
  exists ext ou, fh h x = (h ++ ext, ou) /\
    (forall a o, nth_error ext a = Some o -> obj_clean o) /\
    match ou, fv jx with
    | Some u, Some ju => exists fu, orep (h ++ ext) ps ju u fu /\ NoDup fu /\ incl fu fx
    | None, None => True
    | _, _ => False
    end.

