(* C02 correspondence: one harness line -> verdict ("ok" or (bad <what the model expected>)).
   Line forms (harness/c02):
     (getpath V P R)  (setpath V P N R)  (delpaths V (P...) R)          value level, judged by Path.v
     (heap (objs O...) (root C) (alloc on|off) (ops OP...) (res F (pre J...)))   heap level, judged by HeapPath.v
   V, N, J, R: transport values  null true false (i z) (s hex) empty cyc (a v...) (o (hexkey v)...) ; R may be err
   P: (p comp...) with comp = (k hexkey) | (i z) | (sl S E) | bad
      S, E = n (null) | an integer | (fr z) (a non-integer number whose floor is z) | nan
   O: (arr C...) | (map (hexkey C)...)      C: null true false (i z) (s hex) empty (sl a off len) (mp a)
   OP: (set P E) | (del P) | (sweep) | (delpaths (P...))
   E: C | (cur P) | (wrap1 E) | (wrap2 E) | (obj hexkey E)
   F: err | J
   (spec <heap line>) judges the implementation against VALUE semantics (Path.v applied to the abstraction)
   instead of against the heap model. *)
From Coq Require Import List ZArith NArith Bool String.
From Verif Require Import common.Sexp c02.Path c02.Dref c02.HeapPath.
Import ListNotations.
Open Scope Z_scope.

(* ---- decoding ---- *)
Fixpoint dec_jv (e : sexp) : option jv :=
  match e with
  | Atom _ =>
      if atom_is "null" e then Some JNull else if atom_is "true" e then Some (JBool true)
      else if atom_is "false" e then Some (JBool false) else if atom_is "empty" e then Some JEmpty else None
  | SList (t :: rest) =>
      if atom_is "i" t then match rest with [Atom z] => option_map JNum (parse_Z z) | _ => None end
      else if atom_is "s" t then match rest with [Atom s] => option_map JStr (parse_hexs s) | _ => None end
      else if atom_is "a" t then
        option_map JArr ((fix go (l : list sexp) : option (list jv) :=
                            match l with
                            | [] => Some []
                            | x :: r => match dec_jv x, go r with Some v, Some vs => Some (v :: vs) | _, _ => None end
                            end) rest)
      else if atom_is "o" t then
        option_map JObj ((fix go (l : list sexp) : option (list (key * jv)) :=
                            match l with
                            | [] => Some []
                            | SList [Atom k; x] :: r =>
                                match parse_hexs k, dec_jv x, go r with
                                | Some k, Some v, Some vs => Some ((k, v) :: vs) | _, _, _ => None end
                            | _ => None
                            end) rest)
      else None
  | _ => None
  end.

Definition dec_bound (e : sexp) : option (option bound) :=
  match e with
  | Atom a => if atom_is "n" e then Some None
              else if atom_is "nan" e then Some (Some BNaN)
              else option_map (fun z => Some (bz z)) (parse_Z a)
  | SList [t; Atom a] => if atom_is "fr" t then option_map (fun z => Some (BNum z false)) (parse_Z a) else None
  | _ => None
  end.

Definition dec_comp (e : sexp) : option pcomp :=
  match e with
  | SList [t; Atom x] =>
      if atom_is "k" t then option_map PK (parse_hexs x)
      else if atom_is "i" t then option_map PI (parse_Z x) else None
  | SList [t; s; en] =>
      if atom_is "sl" t then match dec_bound s, dec_bound en with Some a, Some b => Some (PS a b) | _, _ => None end
      else None
  | Atom _ => if atom_is "bad" e then Some PBad else None
  | _ => None
  end.

Fixpoint dec_list {X} (f : sexp -> option X) (l : list sexp) : option (list X) :=
  match l with
  | [] => Some []
  | x :: r => match f x, dec_list f r with Some v, Some vs => Some (v :: vs) | _, _ => None end
  end.

Definition dec_path (e : sexp) : option path :=
  match e with
  | SList (t :: cs) => if atom_is "p" t then dec_list dec_comp cs else None
  | _ => None
  end.

(* ---- encoding ---- *)
Fixpoint enc_jv (v : jv) : sexp :=
  match v with
  | JNull => A "null" | JBool true => A "true" | JBool false => A "false"
  | JNum z => SList [A "i"; Atom (print_Z z)]
  | JStr s => SList [A "s"; Atom (print_hexs s)]
  | JEmpty => A "empty"
  | JArr l => SList (A "a" :: map enc_jv l)
  | JObj m => SList (A "o" :: map (fun kv => SList [Atom (print_hexs (fst kv)); enc_jv (snd kv)]) m)
  end.

Definition enc_res (r : option jv) : sexp := match r with Some v => enc_jv v | None => A "err" end.

(* structural equality on jv *)
Fixpoint jv_eqb (a b : jv) : bool :=
  match a, b with
  | JNull, JNull => true
  | JBool x, JBool y => Bool.eqb x y
  | JNum x, JNum y => x =? y
  | JStr x, JStr y => key_eqb x y
  | JEmpty, JEmpty => true
  | JArr x, JArr y =>
      (fix go (x y : list jv) : bool :=
         match x, y with
         | [], [] => true
         | u :: x', w :: y' => jv_eqb u w && go x' y'
         | _, _ => false end) x y
  | JObj x, JObj y =>
      (fix go (x y : list (key * jv)) : bool :=
         match x, y with
         | [], [] => true
         | (k, u) :: x', (k', w) :: y' => key_eqb k k' && jv_eqb u w && go x' y'
         | _, _ => false end) x y
  | _, _ => false
  end.

Definition res_eqb (a b : option jv) : bool :=
  match a, b with
  | Some x, Some y => jv_eqb x y
  | None, None => true
  | _, _ => false
  end.

Definition dec_res (e : sexp) : option (option jv) :=
  if atom_is "err" e then Some None else option_map Some (dec_jv e).

Definition judge (model : option jv) (impl : sexp) : sexp :=
  match dec_res impl with
  | Some r => if res_eqb model r then A "ok" else SList [A "bad"; enc_res model]
  | None => A "undecodable"
  end.

(* ---- value-level lines ---- *)
Definition run_nat (spec : bool) (e : sexp) : option sexp :=
  match e with
  | SList [t; v; p; r] =>
      if atom_is "getpath" t then
        match dec_jv v, dec_path p with
        | Some v, Some p => Some (judge (getpath v p) r) | _, _ => Some (A "undecodable") end
      else if atom_is "delpaths" t then
        match dec_jv v, p with
        | Some v, SList ps => match dec_list dec_path ps with
                              | Some ps =>
                                  if spec then
                                    (* the harness reference: every path resolved against the original value *)
                                    match dref v ps with
                                    | Some w => Some (judge (Some w) r)
                                    | None => Some (A "ok") (* navigates into a scalar: inconclusive *)
                                    end
                                  else Some (judge (Path.delpaths v ps) r)
                              | None => Some (A "undecodable") end
        | _, _ => Some (A "undecodable") end
      else None
  | SList [t; v; p; n; r] =>
      if atom_is "setpath" t then
        match dec_jv v, dec_path p, dec_jv n with
        | Some v, Some p, Some n => Some (judge (setpath v p n) r) | _, _, _ => Some (A "undecodable") end
      else None
  | _ => None
  end.

(* ---- heap-level lines ---- *)
Definition dec_nat (a : list N) : option nat := option_map N.to_nat (parse_N a).

Definition dec_cell (h : heap) (e : sexp) : option hval :=
  match e with
  | Atom _ =>
      if atom_is "null" e then Some HNull else if atom_is "true" e then Some (HBool true)
      else if atom_is "false" e then Some (HBool false) else if atom_is "empty" e then Some HEmpty else None
  | SList [t; Atom x] =>
      if atom_is "i" t then option_map HNum (parse_Z x)
      else if atom_is "s" t then option_map HStr (parse_hexs x)
      else if atom_is "mp" t then option_map HMap (dec_nat x)
      else None
  | SList [t; Atom a; Atom off; Atom len; Atom cap] =>
      if atom_is "sl" t then
        match dec_nat a, dec_nat off, dec_nat len, dec_nat cap with
        | Some a, Some off, Some len, Some cap => Some (HArr a off len cap)
        | _, _, _, _ => None end
      else None
  | _ => None
  end.

Definition dec_obj (e : sexp) : option hobj :=
  match e with
  | SList (t :: cs) =>
      if atom_is "arr" t then option_map OArr (dec_list (dec_cell []) cs)
      else if atom_is "map" t then
        option_map OMap (dec_list (fun kv => match kv with
                                             | SList [Atom k; c] => match parse_hexs k, dec_cell [] c with
                                                                    | Some k, Some c => Some (k, c) | _, _ => None end
                                             | _ => None end) cs)
      else None
  | _ => None
  end.

(* new-value expressions: literals, aliases of the current state, fresh (non-allocated) wrappers *)
Inductive nexpr := NLit (c : hval) | NCur (p : path) | NWrap1 (e : nexpr) | NWrap2 (e : nexpr) | NObj (k : key) (e : nexpr).

Fixpoint dec_nexpr (e : sexp) : option nexpr :=
  match e with
  | SList [t; x] =>
      if atom_is "cur" t then option_map NCur (dec_path x)
      else if atom_is "wrap1" t then option_map NWrap1 (dec_nexpr x)
      else if atom_is "wrap2" t then option_map NWrap2 (dec_nexpr x)
      else option_map NLit (dec_cell [] e)
  | SList [t; Atom k; x] =>
      if atom_is "obj" t then match parse_hexs k, dec_nexpr x with Some k, Some x => Some (NObj k x) | _, _ => None end
      else option_map NLit (dec_cell [] e)
  | _ => option_map NLit (dec_cell [] e)
  end.

Inductive hop := OpSet (p : path) (e : nexpr) | OpDel (p : path) | OpSweep | OpDelpaths (ps : list path).

Definition dec_op (e : sexp) : option hop :=
  match e with
  | SList [t; p; x] =>
      if atom_is "set" t then match dec_path p, dec_nexpr x with Some p, Some x => Some (OpSet p x) | _, _ => None end
      else None
  | SList [t; p] =>
      if atom_is "del" t then option_map OpDel (dec_path p)
      else if atom_is "delpaths" t then
        match p with SList ps => option_map OpDelpaths (dec_list dec_path ps) | _ => None end
      else None
  | SList [t] => if atom_is "sweep" t then Some OpSweep else None
  | _ => None
  end.

Definition fuel : nat := 64.

(* evaluate a new-value expression on the heap: (cur p) aliases the current state; wrappers allocate
   fresh containers that the allocator does not know.  None = getpath error *)
Fixpoint eval_nexpr (h : heap) (s : hval) (e : nexpr) : option (heap * hval) :=
  match e with
  | NLit c => Some (h, c)
  | NCur p => match h_getpath h s p with Some x => Some (h, x) | None => None end
  | NWrap1 e => match eval_nexpr h s e with
                | Some (h1, x) => Some ((h1 ++ [OArr [x]])%list, HArr (List.length h1) 0 1 1) | None => None end
  | NWrap2 e => match eval_nexpr h s e with
                | Some (h1, x) => Some ((h1 ++ [OArr [x; x]])%list, HArr (List.length h1) 0 2 2) | None => None end
  | NObj k e => match eval_nexpr h s e with
                | Some (h1, x) => Some ((h1 ++ [OMap [(k, x)]])%list, HMap (List.length h1)) | None => None end
  end.

Section RunHeap.
Variable cfg : config.

Fixpoint run_ops (h : heap) (A : alloc) (shared : bool) (s : hval) (ops : list hop) : option (heap * hval) :=
  match ops with
  | [] => Some (h, s)
  | op :: r =>
      (* a nil allocator per call when the allocator is off (funcSetpath); funcDelpaths uses a fresh one *)
      let A0 := if shared then A else None in
      match op with
      | OpSet p e =>
          match eval_nexpr h s e with
          | None => None
          | Some (h1, n) => match update cfg h1 A0 s p n with
                            | Some (h2, A2, u) => run_ops h2 (if shared then A2 else A) shared u r
                            | None => None end
          end
      | OpDel p =>
          match update cfg h A0 s p HEmpty with
          | Some (h2, A2, u) => run_ops h2 (if shared then A2 else A) shared u r
          | None => None end
      | OpSweep =>
          match delete_empty fuel h A s with
          | Some (h2, u) => run_ops h2 A shared u r
          | None => None end
      | OpDelpaths ps =>
          match delpaths cfg fuel h (if shared then A else Some []) s ps with
          | Some (h2, A2, u) => run_ops h2 (if shared then A2 else A) shared u r
          | None => None end
      end
  end.
End RunHeap.

(* the same operations under VALUE semantics *)
Fixpoint eval_nexpr_v (s : jv) (e : nexpr) (lit : hval -> option jv) : option jv :=
  match e with
  | NLit c => lit c
  | NCur p => getpath s p
  | NWrap1 e => option_map (fun x => JArr [x]) (eval_nexpr_v s e lit)
  | NWrap2 e => option_map (fun x => JArr [x; x]) (eval_nexpr_v s e lit)
  | NObj k e => option_map (fun x => JObj [(k, x)]) (eval_nexpr_v s e lit)
  end.

Fixpoint run_ops_v (s : jv) (ops : list hop) (lit : hval -> option jv) : option jv :=
  match ops with
  | [] => Some s
  | OpSet p e :: r =>
      match eval_nexpr_v s e lit with
      | Some n => match Path.update s p n with Some u => run_ops_v u r lit | None => None end
      | None => None end
  | OpDel p :: r => match Path.update s p JEmpty with Some u => run_ops_v u r lit | None => None end
  | OpSweep :: r => run_ops_v (Path.delete_empty s) r lit
  | OpDelpaths ps :: r => match Path.delpaths s ps with Some u => run_ops_v u r lit | None => None end
  end.

(* dump of a whole heap object (arrays: every cell of the backing array) *)
Definition abs_obj (h : heap) (a : nat) : option jv :=
  match nth_error h a with
  | Some (OArr c) => abs fuel h (HArr a 0 (List.length c) (List.length c))
  | Some (OMap _) => abs fuel h (HMap a)
  | None => None
  end.

(* the value with every slice header extended to its CAPACITY (Go: v[:cap(v)], recursively): the hidden cells
   of the backing arrays reachable from the result, which a later in-place growth would expose *)
Fixpoint abs_full (fuel : nat) (h : heap) (v : hval) : option jv :=
  match fuel with
  | O => None
  | S f =>
      match v with
      | HNull => Some JNull
      | HBool b => Some (JBool b)
      | HNum z => Some (JNum z)
      | HStr s => Some (JStr s)
      | HEmpty => Some JEmpty
      | HNilArr => Some (JArr [])
      | HArr a off len cap =>
          (fix go (l : list hval) : option jv :=
             match l with
             | [] => Some (JArr [])
             | x :: r => match abs_full f h x, go r with
                         | Some jx, Some (JArr jr) => Some (JArr (jx :: jr))
                         | _, _ => None end
             end) (firstn cap (skipn off (cells_of h a)))
      | HMap a =>
          (fix go (m : list (key * hval)) : option jv :=
             match m with
             | [] => Some (JObj [])
             | (k, x) :: r => match abs_full f h x, go r with
                              | Some jx, Some (JObj jr) => Some (JObj ((k, jx) :: jr))
                              | _, _ => None end
             end) (kvs_of h a)
      end
  end.

Definition enc_abs (r : option jv) : sexp := match r with Some v => enc_jv v | None => A "cyc" end.

Definition dec_abs (e : sexp) : option (option jv) :=
  if atom_is "cyc" e then Some None else option_map Some (dec_jv e).

Definition run_heap_core (spec : bool) (objs : list sexp) (root al : sexp) (ops : list sexp) (fin : sexp)
  (pre : list sexp) (full : option sexp) : sexp :=
      match dec_list dec_obj objs, dec_cell [] root, dec_list dec_op ops with
      | Some h, Some s, Some ops =>
          let shared := atom_is "on" al in
          let n0 := List.length h in
          let pre0 := map (abs_obj h) (seq 0 n0) in
          (* the model run (not needed under value semantics) *)
          let ro := if spec then None else run_ops current h (Some []) shared s ops in
          (* expected: final value and the abstraction of every pre-existing object *)
          let expected : option (option jv) * list (option jv) :=
            if spec then
              (match abs fuel h s with
               | Some j => match run_ops_v j ops (abs fuel h) with Some r => Some (Some r) | None => None end
               | None => None end, pre0)
            else
              match ro with
              | Some (h', u) => (Some (abs fuel h' u), map (abs_obj h') (seq 0 n0))
              | None => (None, [])
              end in
          (* the hidden cells: the result with every header extended to its capacity (model mode only) *)
          let full_ok : bool :=
            if spec then true else
            match full with
            | None => true
            | Some fx =>
                match ro with
                | Some (h', u) =>
                    match dec_abs fx, abs_full fuel h' u with
                    | Some (Some x), Some y => jv_eqb x y
                    | Some None, None => true
                    | _, _ => false end
                | None => atom_is "err" fx
                end
            end in
          let full_exp (_ : unit) : sexp :=
            match ro with
            | Some (h', u) => enc_abs (abs_full fuel h' u) | None => A "err" end in
          (* observed *)
          let obs_fin : option (option (option jv)) :=
            if atom_is "err" fin then Some None else option_map Some (dec_abs fin) in
          match obs_fin, fst expected with
          | Some None, None => if full_ok then A "ok" else SList [A "bad"; A "full"; full_exp tt]
          | Some None, Some m => SList [A "bad"; A "final"; enc_abs m]
          | Some (Some o), Some m =>
              let okf := match o, m with
                         | Some x, Some y => jv_eqb x y
                         | None, None => true
                         | _, _ => false end in
              if negb okf then SList [A "bad"; A "final"; enc_abs m]
              else
                match dec_list dec_abs pre with
                | Some ps =>
                    (fix cmp (i : nat) (os ms : list (option jv)) : sexp :=
                       match os, ms with
                       | [], [] => if full_ok then A "ok" else SList [A "bad"; A "full"; full_exp tt]
                       | o :: os', m :: ms' =>
                           let same := match o, m with
                                       | Some x, Some y => jv_eqb x y | None, None => true | _, _ => false end in
                           if same then cmp (S i) os' ms'
                           else SList [A "bad"; A "pre"; Atom (print_N (N.of_nat i)); enc_abs m]
                       | _, _ => SList [A "bad"; A "pre-count"]
                       end) 0%nat ps (snd expected)
                | None => A "undecodable"
                end
          | Some (Some o), None => SList [A "bad"; A "final"; A "err"]
          | _, _ => A "undecodable"
          end
      | _, _, _ => A "undecodable"
      end.

Definition run_heap (spec : bool) (e : sexp) : sexp :=
  match e with
  | SList [_; SList (_ :: objs); SList [_; root]; SList [_; al]; SList (_ :: ops); SList [_; fin; SList (_ :: pre)]] =>
      run_heap_core spec objs root al ops fin pre None
  | SList [_; SList (_ :: objs); SList [_; root]; SList [_; al]; SList (_ :: ops);
           SList [_; fin; SList (_ :: pre); SList [_; full]]] =>
      run_heap_core spec objs root al ops fin pre (Some full)
  | _ => A "undecodable"
  end.

Definition run_sexp (spec : bool) (e : sexp) : sexp :=
  match e with
  | SList (t :: _) =>
      if atom_is "heap" t then run_heap spec e
      else match run_nat spec e with Some r => r | None => A "undecodable" end
  | _ => A "undecodable"
  end.

Definition run_line (l : list N) : list N :=
  match parse l with
  | Some (SList [t; e]) => if atom_is "spec" t then print (run_sexp true e) else print (run_sexp false (SList [t; e]))
  | Some e => print (run_sexp false e)
  | None => codes "unparsable"
  end.
