(* C02 — the representation invariant relating a Go heap (HeapPath.v) to the value it denotes (Path.v):
   ownership tree of allocated containers over a frozen (never written) remainder.  Definitions. *)
From Coq Require Import List ZArith NArith Bool Lia.
From Verif Require Import c02.Path c02.HeapPath.
Import ListNotations.
Open Scope nat_scope.

(* an address the allocator knows *)
Definition aaddr (ps : list ptr) (a : nat) : Prop := (exists off, In (PArr a off) ps) \/ In (PMap a) ps.

(* every array the allocator registered was registered through the pointer of its first cell (makeArray) *)
Definition alloc_wf (ps : list ptr) : Prop := forall a off, In (PArr a off) ps -> off = 0.

Fixpoint ksorted {V} (m : list (key * V)) : Prop :=
  match m with
  | [] => True
  | (k, _) :: r => (forall kv, In kv r -> key_cmp k (fst kv) = Lt) /\ ksorted r
  end.

(* three parallel lists related pointwise *)
Fixpoint reps3 {A B C} (R : A -> B -> C -> Prop) (xs : list A) (ys : list B) (zs : list C) {struct xs} : Prop :=
  match xs, ys, zs with
  | [], [], [] => True
  | x :: xs', y :: ys', z :: zs' => R x y z /\ reps3 R xs' ys' zs'
  | _, _, _ => False
  end.

Fixpoint repm3 {A B C} (R : A -> B -> C -> Prop) (xs : list (key * A)) (ys : list (key * B)) (zs : list C) {struct xs} : Prop :=
  match xs, ys, zs with
  | [], [], [] => True
  | (k, x) :: xs', (k', y) :: ys', z :: zs' => k = k' /\ R x y z /\ repm3 R xs' ys' zs'
  | _, _, _ => False
  end.

(* [orep h ps j v fp]: in heap h the Go value v denotes the JSON value j; fp lists the ALLOCATED containers
   of v, each owned by exactly one parent (NoDup fp is required at the root); a container the allocator
   does not know has no allocated descendant (it may be shared freely: nothing ever writes it).
   An allocated array is seen through a header with offset 0 and cap = size of the backing array; its length
   may be smaller than the number of initialised cells and the cells beyond its length are ARBITRARY (an update
   body may return a prefix slice .[:k] of an array the reduction owns: the hidden cells keep their stale
   content).  The invariant used to say "the hidden cells are nil" (what make() and deleteEmpty leave); since
   the in-place growth of updateArrayIndex clears the cells it exposes (fix 73ac0b6, [clear_exposed]) that
   clause is not needed any more, and the theorems below hold for the weaker invariant.
   Defined by recursion on j, so a represented value is acyclic by construction. *)
Fixpoint orep (h : heap) (ps : list ptr) (j : jv) (v : hval) (fp : list nat) {struct j} : Prop :=
  match j with
  | JNull => v = HNull /\ fp = []
  | JBool b => v = HBool b /\ fp = []
  | JNum z => v = HNum z /\ fp = []
  | JStr s => v = HStr s /\ fp = []
  | JEmpty => v = HEmpty /\ fp = []
  | JArr js =>
      exists a off len cap cells fps,
        v = HArr a off len cap /\ nth_error h a = Some (OArr cells) /\ off + len <= length cells /\
        (fix reps (js : list jv) (xs : list hval) (fps : list (list nat)) : Prop :=
           match js, xs, fps with
           | [], [], [] => True
           | j :: js', x :: xs', f :: fps' => orep h ps j x f /\ reps js' xs' fps'
           | _, _, _ => False
           end) js (firstn len (skipn off cells)) fps /\
        ((~ aaddr ps a /\ concat fps = [] /\ fp = []) \/
         (In (PArr a 0) ps /\ off = 0 /\ cap = length cells /\ fp = a :: concat fps))
  | JObj jm =>
      exists a kvs fps,
        v = HMap a /\ nth_error h a = Some (OMap kvs) /\ ksorted kvs /\
        (fix repm (jm : list (key * jv)) (xs : list (key * hval)) (fps : list (list nat)) : Prop :=
           match jm, xs, fps with
           | [], [], [] => True
           | (k, j) :: jm', (k', x) :: xs', f :: fps' => k = k' /\ orep h ps j x f /\ repm jm' xs' fps'
           | _, _, _ => False
           end) jm kvs fps /\
        ((~ aaddr ps a /\ concat fps = [] /\ fp = []) \/
         (In (PMap a) ps /\ fp = a :: concat fps))
  end.

(* a frozen value: no allocated container below it *)
Definition frep (h : heap) (ps : list ptr) (j : jv) (v : hval) : Prop := orep h ps j v [].
