(* C02 — deleteEmpty at heap level (the sweep of delpaths): on a heap with the ownership invariant, where
   the containers the allocator does not own hold no deletion marker, the owned-only in-place sweep denotes
   Path.delete_empty. *)
From Coq Require Import List ZArith NArith Bool Lia Permutation.
From Verif Require Import c02.Path c02.PathProofs c02.HeapPath c02.HeapInv c02.HeapProofs c02.HeapSlice c02.HeapInner c02.HeapAbs.
Import ListNotations.
Open Scope nat_scope.

(* no object outside the allocator's reach holds a marker: update writes markers only into containers it
   owns or has just made *)
Definition obj_clean (o : hobj) : Prop :=
  match o with
  | OArr c => ~ In HEmpty c
  | OMap m => forall kv, In kv m -> snd kv <> HEmpty
  end.
Definition hclean (h : heap) (ps : list ptr) : Prop :=
  forall a o, nth_error h a = Some o -> ~ aaddr ps a -> obj_clean o.

Lemma hclean_post : forall h ps fp h' ps' fp',
  hclean h ps -> (forall a, In a fp -> aaddr ps a) -> post h ps fp h' ps' fp' -> hclean h' ps'.
Proof.
  intros h ps fp h' ps' fp' Hc Hfp (P1 & P2 & P3 & P4 & P5 & P6 & P7) a o Hn Hna.
  destruct (Nat.lt_ge_cases a (length h)) as [Hlt|Hge].
  - assert (~ aaddr ps a).
    { intros [(off & H)|H]; apply Hna; [left; exists off|right]; auto. }
    rewrite P2 in Hn; auto. eapply Hc; eauto.
  - exfalso. apply Hna. apply P7; auto. eapply nth_error_lt; eauto.
Qed.

Lemma hclean_set : forall h ps a o, hclean h ps -> aaddr ps a -> hclean (set_list h a o) ps.
Proof.
  intros h ps a o Hc Ha a0 o0 Hn Hna. assert (a0 <> a) by (intro; subst; auto).
  rewrite nth_error_set_list_other in Hn by auto. eapply Hc; eauto.
Qed.

Lemma reps3_nil_fps : forall (R : jv -> hval -> list nat -> Prop) js xs fps,
  reps3 R js xs fps -> concat fps = [] -> reps3 (fun j x f => R j x []) js xs fps.
Proof.
  induction js; destruct xs, fps; simpl; try tauto. intros [H1 H2] Hc.
  apply app_eq_nil in Hc as [-> Hc]. split; auto.
Qed.

(* a value without allocated container, not itself a marker, contains no marker *)
Lemma frozen_clean : forall j h ps v, hclean h ps -> orep h ps j v [] -> v <> HEmpty -> clean j.
Proof.
  induction j using jv_ind'; intros h ps v Hc Hr Hv; simpl; auto.
  - destruct Hr as [-> _]. congruence.
  - apply orep_arr in Hr as (a & off & len & cap & cells & fps & -> & Hn & Hl & Hreps & [(Hna & Hcc & _)|(_ & _ & _ & Hd)]); [|discriminate].
    apply clean_arr. pose proof (Hc _ _ Hn Hna) as Hoc. simpl in Hoc.
    assert (Hsub : forall x, In x (firstn len (skipn off cells)) -> x <> HEmpty).
    { intros x Hx ->. apply Hoc. eapply In_skipn. eapply In_firstn. eauto. }
    apply reps3_nil_fps in Hreps; auto.
    revert Hreps Hsub H. generalize (firstn len (skipn off cells)) as xs. clear - Hc. revert fps.
    induction l as [|j0 l IHl]; intros fps xs Hreps Hsub HF; [constructor|].
    destruct xs, fps; simpl in Hreps; try tauto. destruct Hreps as [H1 H2]. inversion HF; subst.
    constructor.
    + eapply H3; eauto. apply Hsub. left. auto.
    + eapply IHl; eauto. intros. apply Hsub. right. auto.
  - apply orep_obj in Hr as (a & kvs & fps & -> & Hn & Hs & Hreps & [(Hna & Hcc & _)|(_ & Hd)]); [|discriminate].
    apply clean_obj. pose proof (Hc _ _ Hn Hna) as Hoc. simpl in Hoc.
    clear Hn Hs. revert kvs fps Hreps Hcc Hoc H.
    induction m as [|[k0 j0] m IHm]; intros kvs fps Hreps Hcc Hoc HF; [constructor|].
    destruct kvs as [|[k1 x1] kvs], fps; simpl in Hreps; try tauto. destruct Hreps as (-> & H1 & H2). inversion HF; subst.
    simpl in Hcc. apply app_eq_nil in Hcc as [-> Hcc].
    constructor.
    + simpl. eapply H3; eauto. apply (Hoc (k1, x1)). left. auto.
    + eapply IHm; eauto. intros. apply Hoc. right. auto.
Qed.

(* ---- the recursive call as the loops see it ---- *)
Definition Dspec (D : heap -> hval -> option (heap * hval)) (ps : list ptr) (P : jv -> Prop) : Prop :=
  forall j x f hc, P j -> hclean hc ps -> orep hc ps j x f -> NoDup f ->
    exists h1 x' f', D hc x = Some (h1, x') /\ orep h1 ps (Path.delete_empty j) x' f' /\ NoDup f' /\
                     post hc ps f h1 ps f'.

Lemma orep_empty_fp : forall h ps x f, orep h ps JEmpty x f -> x = HEmpty /\ f = [].
Proof. intros h ps x f [-> ->]. auto. Qed.

Lemma sweepl_cons_keep : forall j l, is_empty j = false -> sweepl (j :: l) = Path.delete_empty j :: sweepl l.
Proof. intros. simpl. rewrite H. auto. Qed.
Lemma sweepl_cons_drop : forall l, sweepl (JEmpty :: l) = sweepl l.
Proof. reflexivity. Qed.

(* the array loop: cells of a = W (written) ++ G (garbage) ++ U (unprocessed) ++ N *)
Lemma sweep_arr_sound : forall D ps a, alloc_wf ps -> In (PArr a 0) ps ->
  forall U jsU fpsU W G jsW fpsW hc N,
  Dspec D ps (fun j => In j jsU) ->
  nth_error hc a = Some (OArr (W ++ G ++ U ++ N)) ->
  reps3 (orep hc ps) jsW W fpsW -> reps3 (orep hc ps) jsU U fpsU ->
  NoDup (a :: concat fpsW ++ concat fpsU) -> hclean hc ps ->
  exists hF WF GF fpsF,
    sweep_arr D a 0 (length W + length G) (length U) (length W) hc = Some (hF, length WF) /\
    nth_error hF a = Some (OArr (WF ++ GF ++ N)) /\ length WF + length GF = length W + length G + length U /\
    reps3 (orep hF ps) (jsW ++ sweepl jsU) WF fpsF /\
    NoDup (a :: concat fpsF) /\
    (forall a0, In a0 (concat fpsF) -> In a0 (concat fpsW ++ concat fpsU) \/ length hc <= a0) /\
    hclean hF ps /\ length hc <= length hF /\
    (forall a0, a0 < length hc -> a0 <> a -> ~ In a0 (concat fpsU) -> nth_error hF a0 = nth_error hc a0) /\
    (forall a0, length hc <= a0 -> a0 < length hF -> aaddr ps a0).
Proof.
  intros D ps a Hwf Hp.
  induction U as [|x U IH]; intros jsU fpsU W G jsW fpsW hc N HD Hn HW HU ND Hcl.
  - destruct jsU, fpsU; simpl in HU; try tauto.
    exists hc, W, G, fpsW. simpl. rewrite !app_nil_r. simpl in ND. rewrite app_nil_r in ND.
    simpl in Hn. split; auto. split; auto. split. { lia. } split; auto. split; auto.
    split. { intros; auto. } split; auto. split; auto. split; auto. intros. lia.
  - destruct jsU as [|j jsU], fpsU as [|f fpsU]; simpl in HU; try tauto. destruct HU as [Hx HU].
    pose proof (nth_error_lt _ _ _ Hn) as Ha.
    assert (Hcell : nth (0 + (length W + length G)) (cells_of hc a) HNull = x).
    { rewrite (cells_of_nth _ _ _ Hn). rewrite app_assoc. rewrite app_nth2 by (rewrite app_length; lia).
      rewrite app_length. replace (0 + (length W + length G) - (length W + length G)) with 0 by lia. auto. }
    cbn [sweep_arr length]. rewrite Hcell.
    pose proof (orep_is_empty _ _ _ _ _ Hx) as He. rewrite <- He.
    destruct (is_empty j) eqn:Ej.
    + (* a marker: skipped *)
      destruct j; try discriminate. apply orep_empty_fp in Hx as [-> ->].
      destruct (IH jsU fpsU W (G ++ [HEmpty]) jsW fpsW hc N) as (hF & WF & GF & fpsF & R1 & R2 & R3 & R4 & R5 & R6 & R7 & R8 & R9 & R10); auto.
      * intros j0 x0 f0 hc0 Hin. apply HD. right. auto.
      * rewrite <- !app_assoc. auto.
      * exists hF, WF, GF, fpsF. rewrite app_length in R1, R3. simpl in R1, R3.
        replace (S (length W + length G)) with (length W + (length G + 1)) by lia.
        rewrite sweepl_cons_drop. repeat split; auto. lia.
    + (* kept: swept recursively and moved to position |W| *)
      simpl in ND.
      assert (NDf : NoDup f).
      { apply NoDup_cons_iff in ND as [_ ND]. apply nodup_app in ND as (_ & ND & _). apply nodup_app in ND. tauto. }
      destruct (HD j x f hc (or_introl eq_refl) Hcl Hx NDf) as (h1 & x' & f' & Hd & Hx' & NDf' & Hpost).
      pose proof Hpost as (P1 & P2 & P3 & P4 & P5 & P6 & P7).
      rewrite Hd.
      assert (Hfa : forall a0, In a0 f -> aaddr ps a0 /\ a0 < length hc) by (eapply orep_fp; eauto).
      assert (Haf : ~ In a f).
      { apply NoDup_cons_iff in ND as [ND _]. intro. apply ND. rewrite !in_app_iff. auto. }
      assert (Hn1 : nth_error h1 a = Some (OArr (W ++ G ++ (x :: U) ++ N))) by (rewrite P2; auto).
      rewrite (write_cell_eq _ _ _ _ _ Hn1). cbn [Nat.add].
      (* the written cell *)
      destruct (G ++ [x]) as [|g0 G'] eqn:EG. { destruct G; discriminate. }
      assert (Hlist : W ++ G ++ (x :: U) ++ N = W ++ g0 :: (G' ++ U ++ N)).
      { change (x :: U) with ([x] ++ U). rewrite <- !app_assoc. rewrite (app_assoc G [x]), EG. reflexivity. }
      rewrite Hlist, set_list_mid.
      assert (HlG : length G' = length G).
      { assert (length (G ++ [x]) = S (length G')) by (rewrite EG; auto). rewrite app_length in H. simpl in H. lia. }
      set (hc2 := set_list h1 a (OArr (W ++ x' :: G' ++ U ++ N))).
      assert (Hother : forall a0, a0 <> a -> nth_error hc2 a0 = nth_error h1 a0).
      { intros. unfold hc2. apply nth_error_set_list_other. auto. }
      assert (Hframe : forall j0 x0 f0, orep hc ps j0 x0 f0 -> (forall a0, In a0 f0 -> a0 <> a /\ ~ In a0 f) -> orep hc2 ps j0 x0 f0).
      { intros j0 x0 f0 Hr Hdis. apply orep_frame with (h := hc) (ps := ps); [exact Hr | | auto | intros; left; auto].
        intros a0 Ha0 [Hna|Hin].
        - rewrite Hother. { apply P2; auto. intro Hc. apply Hna. apply Hfa. auto. }
          intro; subst. apply Hna. left. eauto.
        - destruct (Hdis _ Hin). rewrite Hother by auto. apply P2; auto. }
      assert (Hdisj : forall a0, In a0 (concat fpsW ++ concat fpsU) -> a0 <> a /\ ~ In a0 f).
      { intros a0 Hin. apply NoDup_cons_iff in ND as [NDa ND]. split.
        - intro; subst. apply NDa. rewrite !in_app_iff in *. tauto.
        - intro Hf. apply nodup_app in ND as (_ & ND & D1). rewrite in_app_iff in Hin. destruct Hin as [Hin|Hin].
          + apply (D1 a0 Hin). rewrite in_app_iff. auto.
          + apply nodup_app in ND as (_ & _ & D2). apply (D2 a0 Hf Hin). }
      assert (Hf'a : forall a0, In a0 f' -> a0 <> a).
      { intros a0 Hin ->. destruct (P5 _ Hin); [contradiction|lia]. }
      destruct (IH jsU fpsU (W ++ [x']) G' (jsW ++ [Path.delete_empty j]) (fpsW ++ [f']) hc2 N)
        as (hF & WF & GF & fpsF & R1 & R2 & R3 & R4 & R5 & R6 & R7 & R8 & R9 & R10).
      * intros j0 x0 f0 hc0 Hin. apply HD. right. auto.
      * unfold hc2. rewrite nth_error_set_list_same by lia. rewrite <- !app_assoc. auto.
      * apply reps3_app.
        -- eapply reps3_mono_in; [|exact HW]. rewrite Forall_forall. intros j0 _ x0 f0 Hf0 Hr. apply Hframe; auto.
           intros a0 Hin. apply Hdisj. rewrite in_app_iff. left. eapply in_concat_of; eauto.
        -- simpl. split; auto. apply orep_frame with (h := h1) (ps := ps); [exact Hx' | | auto | intros; left; auto].
           intros a0 Ha0 [Hna|Hin]; apply Hother.
           ++ intro; subst. apply Hna. left. eauto.
           ++ auto.
      * eapply reps3_mono_in; [|exact HU]. rewrite Forall_forall. intros j0 _ x0 f0 Hf0 Hr. apply Hframe; auto.
        intros a0 Hin. apply Hdisj. rewrite in_app_iff. right. eapply in_concat_of; eauto.
      * (* NoDup *)
        rewrite concat_app. simpl. rewrite app_nil_r.
        apply NoDup_cons_iff in ND as [NDa ND]. constructor.
        -- rewrite !in_app_iff. intros [[H|H]|H].
           ++ apply NDa. rewrite !in_app_iff. auto.
           ++ apply (Hf'a a); auto.
           ++ apply NDa. rewrite !in_app_iff. auto.
        -- apply nodup_app in ND as (N1 & N2 & D1). apply nodup_app in N2 as (N2 & N3 & D2).
           apply nodup_app. split; [|split]; auto.
           ++ apply nodup_app. repeat split; auto. intros a0 Hw Hf0. destruct (P5 _ Hf0) as [H|H].
              ** apply (D1 a0 Hw). rewrite in_app_iff. auto.
              ** assert (a0 < length hc); [|lia].
                 apply in_concat in Hw as (fw & Hfw & Ha0).
                 destruct (reps3_In_fp _ _ _ _ _ HW Hfw) as (jw & xw & _ & Hrw). eapply orep_fp; eauto.
           ++ intros a0 Hwf0 Hu. rewrite in_app_iff in Hwf0. destruct Hwf0 as [Hw|Hf0].
              ** apply (D1 a0 Hw). rewrite in_app_iff. auto.
              ** destruct (P5 _ Hf0) as [H|H]. { apply (D2 a0 H Hu). }
                 assert (a0 < length hc); [|lia].
                 apply in_concat in Hu as (fu & Hfu & Ha0).
                 destruct (reps3_In_fp _ _ _ _ _ HU Hfu) as (ju & xu & _ & Hru). eapply orep_fp; eauto.
      * unfold hc2. apply hclean_set. { eapply hclean_post; eauto. intros. apply Hfa. auto. } left. eauto.
      * exists hF, WF, GF, fpsF.
        rewrite app_length in R1, R3. simpl in R1, R3. rewrite HlG in R1, R3.
        replace (S (length W + length G)) with (length W + 1 + length G) by lia.
        replace (S (length W)) with (length W + 1) by lia.
        rewrite sweepl_cons_keep by auto. rewrite <- app_assoc in R4. simpl in R4.
        assert (Hlen2 : length hc2 = length h1) by (unfold hc2; apply set_list_length).
        split; auto. split; auto. split. { lia. } split; auto. split; auto.
        split.
        { intros a0 Hin. destruct (R6 _ Hin) as [H|H]; [|right; lia].
          rewrite concat_app in H. simpl in H. rewrite app_nil_r in H. rewrite !in_app_iff in H.
          destruct H as [[H|H]|H].
          - left. simpl. rewrite !in_app_iff. auto.
          - destruct (P5 _ H) as [H0|H0]; [left|right; auto]. simpl. rewrite !in_app_iff. auto.
          - left. simpl. rewrite !in_app_iff. auto. }
        split; auto. split. { lia. }
        split.
        { intros a0 Ha0 Hne Hnin. simpl in Hnin. rewrite in_app_iff in Hnin.
          rewrite R9; try lia; auto. rewrite Hother by auto. apply P2; auto. }
        { intros a0 Hge Hlt. destruct (Nat.lt_ge_cases a0 (length h1)).
          - apply P7; auto.
          - apply R10; auto. lia. }
Qed.

(* ---- sorted association lists ---- *)
Lemma ksorted_app {V} : forall (P U : list (key * V)),
  ksorted (P ++ U) <-> ksorted P /\ ksorted U /\ (forall p u, In p P -> In u U -> key_cmp (fst p) (fst u) = Lt).
Proof.
  induction P as [|[k v] P IH]; simpl; intros.
  - split. + intros; repeat split; auto. intros ? ? []. + tauto.
  - rewrite IH. split.
    + intros (H1 & H2 & H3 & H4). repeat split; auto.
      * intros kv Hin. apply H1. rewrite in_app_iff. auto.
      * intros p u [<-|Hp] Hu; auto. simpl. apply (H1 u). rewrite in_app_iff. auto.
    + intros ((H1 & H2) & H3 & H4). repeat split; auto.
      intros kv Hin. rewrite in_app_iff in Hin. destruct Hin as [Hin|Hin]; auto. apply (H4 (k, v) kv); auto.
Qed.

Lemma key_lt_neq : forall a b, key_cmp a b = Lt -> key_eqb a b = false /\ key_eqb b a = false.
Proof.
  intros. unfold key_eqb. rewrite H. rewrite (key_cmp_antisym a b), H. auto.
Qed.

Section Mid.
Context {V : Type}.
Variables (P U : list (key * V)) (k : key) (x : V).
Hypothesis S : ksorted (P ++ (k, x) :: U).

Lemma mid_P_lt : forall p, In p P -> key_cmp (fst p) k = Lt.
Proof. intros. apply ksorted_app in S as (_ & _ & H3). apply (H3 p (k, x)); simpl; auto. Qed.
Lemma mid_U_gt : forall u, In u U -> key_cmp k (fst u) = Lt.
Proof. intros. apply ksorted_app in S as (_ & (H2 & _) & _). apply H2. auto. Qed.

Lemma lookup_mid : lookup k (P ++ (k, x) :: U) = Some x.
Proof.
  pose proof mid_P_lt as HP. clear S. induction P as [|[k' v] P' IH]; simpl.
  - rewrite key_eqb_refl. auto.
  - destruct (key_lt_neq k' k (HP (k', v) (or_introl eq_refl))) as [_ E]. rewrite E. apply IH. intros. apply HP. right. auto.
Qed.

Lemma filter_mid : filter (fun kv => negb (key_eqb (fst kv) k)) (P ++ (k, x) :: U) = P ++ U.
Proof.
  pose proof mid_P_lt as HP. pose proof mid_U_gt as HU. clear S.
  rewrite filter_app. simpl. rewrite key_eqb_refl. simpl. f_equal.
  - clear HU. induction P as [|[k' v] P' IH]; simpl; auto.
    destruct (key_lt_neq k' k (HP (k', v) (or_introl eq_refl))) as [E _]. rewrite E. simpl. f_equal. apply IH. intros. apply HP. right. auto.
  - clear HP. induction U as [|[k' v] U' IH]; simpl; auto.
    destruct (key_lt_neq k k' (HU (k', v) (or_introl eq_refl))) as [_ E]. rewrite E. simpl. f_equal. apply IH. intros. apply HU. right. auto.
Qed.

Lemma insert_mid : forall w, insert k w (P ++ (k, x) :: U) = P ++ (k, w) :: U.
Proof.
  intros w. pose proof mid_P_lt as HP. clear S. induction P as [|[k' v] P' IH]; simpl.
  - rewrite key_cmp_refl. auto.
  - assert (key_cmp k k' = Gt).
    { pose proof (HP (k', v) (or_introl eq_refl)) as L. simpl in L. rewrite key_cmp_antisym, L. auto. }
    rewrite H. f_equal. apply IH. intros. apply HP. right. auto.
Qed.

Lemma ksorted_mid_replace : forall w, ksorted (P ++ (k, w) :: U).
Proof.
  intros w. apply ksorted_app in S as (H1 & (H2 & H3) & H4). apply ksorted_app. repeat split; auto.
  intros p u Hp [<-|Hu]. { apply (H4 p (k, x)); simpl; auto. } apply H4; auto. right. auto.
Qed.

Lemma ksorted_mid_remove : ksorted (P ++ U).
Proof.
  apply ksorted_app in S as (H1 & (H2 & H3) & H4). apply ksorted_app. repeat split; auto.
  intros p u Hp Hu. apply H4; auto. right. auto.
Qed.
End Mid.

Lemma repm3_app {A B C} (R : A -> B -> C -> Prop) : forall xs ys zs xs' ys' zs',
  repm3 R xs ys zs -> repm3 R xs' ys' zs' -> repm3 R (xs ++ xs') (ys ++ ys') (zs ++ zs').
Proof.
  induction xs as [|[k x] xs]; destruct ys as [|[k' y] ys], zs; simpl; try tauto.
  intros ? ? ? (H0 & H1 & H2) H3. repeat split; auto.
Qed.

Definition sweepm : list (key * jv) -> list (key * jv) :=
  fix go (m : list (key * jv)) : list (key * jv) :=
    match m with
    | [] => []
    | (k, x) :: r => if is_empty x then go r else (k, Path.delete_empty x) :: go r
    end.

Lemma delete_empty_obj : forall m, Path.delete_empty (JObj m) = JObj (sweepm m).
Proof. reflexivity. Qed.

Lemma sweepm_cons_keep : forall k j m, is_empty j = false -> sweepm ((k, j) :: m) = (k, Path.delete_empty j) :: sweepm m.
Proof. intros. simpl. rewrite H. auto. Qed.

(* the map loop: entries of a = P (processed, kept) ++ U (unprocessed) *)
Lemma sweep_map_sound : forall D ps a, alloc_wf ps -> In (PMap a) ps ->
  forall U jmU fpsU P jmP fpsP hc,
  Dspec D ps (fun j => In j (map snd jmU)) ->
  nth_error hc a = Some (OMap (P ++ U)) -> ksorted (P ++ U) ->
  repm3 (orep hc ps) jmP P fpsP -> repm3 (orep hc ps) jmU U fpsU ->
  NoDup (a :: concat fpsP ++ concat fpsU) -> hclean hc ps ->
  exists hF PF fpsF,
    sweep_map D a (map fst U) hc = Some hF /\
    nth_error hF a = Some (OMap PF) /\ ksorted PF /\
    repm3 (orep hF ps) (jmP ++ sweepm jmU) PF fpsF /\
    NoDup (a :: concat fpsF) /\
    (forall a0, In a0 (concat fpsF) -> In a0 (concat fpsP ++ concat fpsU) \/ length hc <= a0) /\
    hclean hF ps /\ length hc <= length hF /\
    (forall a0, a0 < length hc -> a0 <> a -> ~ In a0 (concat fpsU) -> nth_error hF a0 = nth_error hc a0) /\
    (forall a0, length hc <= a0 -> a0 < length hF -> aaddr ps a0).
Proof.
  intros D ps a Hwf Hp.
  induction U as [|[k x] U IH]; intros jmU fpsU P jmP fpsP hc HD Hn HS HP HU ND Hcl.
  - destruct jmU as [|[? ?] ?], fpsU; simpl in HU; try tauto.
    exists hc, P, fpsP. simpl. rewrite !app_nil_r in *.
    split; auto. split; auto. split; auto. split; auto. split; auto.
    split. { intros; auto. } split; auto. split; auto. split; auto. intros. lia.
  - destruct jmU as [|[k0 j] jmU], fpsU as [|f fpsU]; simpl in HU; try tauto. destruct HU as (-> & Hx & HU).
    pose proof (nth_error_lt _ _ _ Hn) as Ha.
    cbn [sweep_map map fst]. rewrite (kvs_of_nth _ _ _ Hn). rewrite (lookup_mid P U k x HS).
    pose proof (orep_is_empty _ _ _ _ _ Hx) as He. rewrite <- He.
    destruct (is_empty j) eqn:Ej.
    + (* a marker: the entry is deleted *)
      destruct j; try discriminate. apply orep_empty_fp in Hx as [-> ->].
      rewrite (filter_mid P U k HEmpty HS).
      set (hc2 := set_obj hc a (OMap (P ++ U))).
      assert (Hother : forall a0, a0 <> a -> nth_error hc2 a0 = nth_error hc a0).
      { intros. unfold hc2, set_obj. apply nth_error_set_list_other. auto. }
      assert (Hframe : forall j0 x0 f0, orep hc ps j0 x0 f0 -> (forall a0, In a0 f0 -> a0 <> a) -> orep hc2 ps j0 x0 f0).
      { intros j0 x0 f0 Hr Hdis. apply orep_frame with (h := hc) (ps := ps); [exact Hr | | auto | intros; left; auto].
        intros a0 Ha0 [Hna|Hin]; apply Hother; auto. intro; subst. apply Hna. right. auto. }
      assert (Hna : forall a0, In a0 (concat fpsP ++ concat fpsU) -> a0 <> a).
      { intros a0 Hin ->. simpl in ND. apply NoDup_cons_iff in ND as [NDa _]. auto. }
      destruct (IH jmU fpsU P jmP fpsP hc2) as (hF & PF & fpsF & R1 & R2 & R3 & R4 & R5 & R6 & R7 & R8 & R9 & R10).
      * intros j0 x0 f0 hc0 Hin. apply HD. right. auto.
      * unfold hc2, set_obj. apply nth_error_set_list_same. auto.
      * eapply ksorted_mid_remove; eauto.
      * eapply repm3_mono_in; [|exact HP]. rewrite Forall_forall. intros kx _ x0 f0 Hf0 Hr. apply Hframe; auto.
        intros a0 Hin. apply Hna. rewrite in_app_iff. left. eapply in_concat_of; eauto.
      * eapply repm3_mono_in; [|exact HU]. rewrite Forall_forall. intros kx _ x0 f0 Hf0 Hr. apply Hframe; auto.
        intros a0 Hin. apply Hna. rewrite in_app_iff. right. eapply in_concat_of; eauto.
      * simpl in ND. auto.
      * unfold hc2, set_obj. apply hclean_set; auto. right. auto.
      * assert (Hlen2 : length hc2 = length hc) by (unfold hc2, set_obj; apply set_list_length).
        exists hF, PF, fpsF. simpl. split; auto. split; auto. split; auto. split; auto. split; auto.
        split. { intros a0 Hin. destruct (R6 _ Hin); [left|right; lia]; auto. }
        split; auto. split. { lia. } split.
        { intros a0 Ha0 Hne Hnin. rewrite R9; auto; lia. }
        { intros a0 Hge Hlt. apply R10; auto. lia. }
    + (* kept: swept recursively and stored back *)
      simpl in ND.
      assert (NDf : NoDup f).
      { apply NoDup_cons_iff in ND as [_ ND]. apply nodup_app in ND as (_ & ND & _). apply nodup_app in ND. tauto. }
      destruct (HD j x f hc (or_introl eq_refl) Hcl Hx NDf) as (h1 & x' & f' & Hd & Hx' & NDf' & Hpost).
      pose proof Hpost as (P1 & P2 & P3 & P4 & P5 & P6 & P7).
      rewrite Hd.
      assert (Hfa : forall a0, In a0 f -> aaddr ps a0 /\ a0 < length hc) by (eapply orep_fp; eauto).
      assert (Haf : ~ In a f).
      { apply NoDup_cons_iff in ND as [ND _]. intro. apply ND. rewrite !in_app_iff. auto. }
      assert (Hn1 : nth_error h1 a = Some (OMap (P ++ (k, x) :: U))) by (rewrite P2; auto).
      rewrite (kvs_of_nth _ _ _ Hn1). rewrite (insert_mid P U k x HS).
      set (hc2 := set_obj h1 a (OMap (P ++ (k, x') :: U))).
      assert (Hother : forall a0, a0 <> a -> nth_error hc2 a0 = nth_error h1 a0).
      { intros. unfold hc2, set_obj. apply nth_error_set_list_other. auto. }
      assert (Hframe : forall j0 x0 f0, orep hc ps j0 x0 f0 -> (forall a0, In a0 f0 -> a0 <> a /\ ~ In a0 f) -> orep hc2 ps j0 x0 f0).
      { intros j0 x0 f0 Hr Hdis. apply orep_frame with (h := hc) (ps := ps); [exact Hr | | auto | intros; left; auto].
        intros a0 Ha0 [Hna|Hin].
        - rewrite Hother. { apply P2; auto. intro Hc. apply Hna. apply Hfa. auto. }
          intro; subst. apply Hna. right. auto.
        - destruct (Hdis _ Hin). rewrite Hother by auto. apply P2; auto. }
      assert (Hdisj : forall a0, In a0 (concat fpsP ++ concat fpsU) -> a0 <> a /\ ~ In a0 f).
      { intros a0 Hin. apply NoDup_cons_iff in ND as [NDa ND]. split.
        - intro; subst. apply NDa. rewrite !in_app_iff in *. tauto.
        - intro Hf. apply nodup_app in ND as (_ & ND & D1). rewrite in_app_iff in Hin. destruct Hin as [Hin|Hin].
          + apply (D1 a0 Hin). rewrite in_app_iff. auto.
          + apply nodup_app in ND as (_ & _ & D2). apply (D2 a0 Hf Hin). }
      assert (Hf'a : forall a0, In a0 f' -> a0 <> a).
      { intros a0 Hin ->. destruct (P5 _ Hin); [contradiction|lia]. }
      destruct (IH jmU fpsU (P ++ [(k, x')]) (jmP ++ [(k, Path.delete_empty j)]) (fpsP ++ [f']) hc2)
        as (hF & PF & fpsF & R1 & R2 & R3 & R4 & R5 & R6 & R7 & R8 & R9 & R10).
      * intros j0 x0 f0 hc0 Hin. apply HD. right. auto.
      * unfold hc2, set_obj. rewrite nth_error_set_list_same by lia. rewrite <- app_assoc. auto.
      * rewrite <- app_assoc. simpl. eapply ksorted_mid_replace; eauto.
      * apply repm3_app.
        -- eapply repm3_mono_in; [|exact HP]. rewrite Forall_forall. intros kx _ x0 f0 Hf0 Hr. apply Hframe; auto.
           intros a0 Hin. apply Hdisj. rewrite in_app_iff. left. eapply in_concat_of; eauto.
        -- simpl. repeat split; auto. apply orep_frame with (h := h1) (ps := ps); [exact Hx' | | auto | intros; left; auto].
           intros a0 Ha0 [Hna|Hin]; apply Hother.
           ++ intro; subst. apply Hna. right. auto.
           ++ auto.
      * eapply repm3_mono_in; [|exact HU]. rewrite Forall_forall. intros kx _ x0 f0 Hf0 Hr. apply Hframe; auto.
        intros a0 Hin. apply Hdisj. rewrite in_app_iff. right. eapply in_concat_of; eauto.
      * rewrite concat_app. simpl. rewrite app_nil_r.
        apply NoDup_cons_iff in ND as [NDa ND]. constructor.
        -- rewrite !in_app_iff. intros [[H|H]|H].
           ++ apply NDa. rewrite !in_app_iff. auto.
           ++ apply (Hf'a a); auto.
           ++ apply NDa. rewrite !in_app_iff. auto.
        -- apply nodup_app in ND as (N1 & N2 & D1). apply nodup_app in N2 as (N2 & N3 & D2).
           apply nodup_app. split; [|split]; auto.
           ++ apply nodup_app. repeat split; auto. intros a0 Hw Hf0. destruct (P5 _ Hf0) as [H|H].
              ** apply (D1 a0 Hw). rewrite in_app_iff. auto.
              ** assert (a0 < length hc); [|lia].
                 apply in_concat in Hw as (fw & Hfw & Ha0).
                 destruct (repm3_In_fp _ _ _ _ _ HP Hfw) as (jw & xw & _ & Hrw). eapply orep_fp; eauto.
           ++ intros a0 Hwf0 Hu. rewrite in_app_iff in Hwf0. destruct Hwf0 as [Hw|Hf0].
              ** apply (D1 a0 Hw). rewrite in_app_iff. auto.
              ** destruct (P5 _ Hf0) as [H|H]. { apply (D2 a0 H Hu). }
                 assert (a0 < length hc); [|lia].
                 apply in_concat in Hu as (fu & Hfu & Ha0).
                 destruct (repm3_In_fp _ _ _ _ _ HU Hfu) as (ju & xu & _ & Hru). eapply orep_fp; eauto.
      * unfold hc2, set_obj. apply hclean_set. { eapply hclean_post; eauto. intros. apply Hfa. auto. } right. auto.
      * exists hF, PF, fpsF.
        rewrite sweepm_cons_keep by auto. rewrite <- app_assoc in R4. simpl in R4.
        assert (Hlen2 : length hc2 = length h1) by (unfold hc2, set_obj; apply set_list_length).
        split; auto. split; auto. split; auto. split; auto. split; auto.
        split.
        { intros a0 Hin. destruct (R6 _ Hin) as [H|H]; [|right; lia].
          rewrite concat_app in H. simpl in H. rewrite app_nil_r in H. rewrite !in_app_iff in H.
          destruct H as [[H|H]|H].
          - left. simpl. rewrite !in_app_iff. auto.
          - destruct (P5 _ H) as [H0|H0]; [left|right; auto]. simpl. rewrite !in_app_iff. auto.
          - left. simpl. rewrite !in_app_iff. auto. }
        split; auto. split. { lia. }
        split.
        { intros a0 Ha0 Hne Hnin. simpl in Hnin. rewrite in_app_iff in Hnin.
          rewrite R9; try lia; auto. rewrite Hother by auto. apply P2; auto. }
        { intros a0 Hge Hlt. destruct (Nat.lt_ge_cases a0 (length h1)).
          - apply P7; auto.
          - apply R10; auto. lia. }
Qed.

Lemma depth_in_arr : forall l j0, In j0 l -> depth j0 <= fold_right (fun x m => Nat.max (depth x) m) 0 l.
Proof. induction l; simpl; intros; try tauto. destruct H as [->|H]; [lia|]. apply IHl in H. lia. Qed.

Lemma depth_in_obj : forall (m : list (key * jv)) j0, In j0 (map snd m) ->
  depth j0 <= fold_right (fun kx m => Nat.max (depth (snd kx)) m) 0 m.
Proof. induction m as [|[k x] m]; simpl; intros; try tauto. destruct H as [->|H]; [lia|]. apply IHm in H. lia. Qed.

Theorem sweep_sound : forall j ps fuel x f hc,
  alloc_wf ps -> depth j < fuel -> hclean hc ps -> orep hc ps j x f -> NoDup f ->
  exists h1 x' f', delete_empty fuel hc (Some ps) x = Some (h1, x') /\
    orep h1 ps (Path.delete_empty j) x' f' /\ NoDup f' /\ post hc ps f h1 ps f'.
Proof.
  induction j using jv_ind'; intros ps fuel x f hc Hwf Hd Hcl Hr ND; destruct fuel as [|fu]; try lia;
    try (destruct Hr as [-> ->]; exists hc; eexists; exists []; simpl; repeat split; auto; try constructor;
         try (intros; simpl in *; tauto); try (intros; lia); fail).
  - (* arrays *)
    pose proof Hr as Hr0.
    apply orep_arr in Hr as (a & off & len & cap & cells & fps & -> & Hn & Hl & Hreps & Hcase).
    destruct Hcase as [(Hna & Hcc & ->) | (Hp & -> & -> & ->)].
    + (* not owned: returned as it is; it holds no marker *)
      assert (allocated (Some ps) (HArr a off len cap) = false).
      { destruct (allocated (Some ps) (HArr a off len cap)) eqn:E; auto. apply allocated_arr in E. exfalso. apply Hna. left. eauto. }
      cbn [delete_empty]. rewrite H0. cbn [negb].
      exists hc, (HArr a off len cap), []. split; auto.
      rewrite delete_empty_clean. 2:{ eapply frozen_clean; eauto. discriminate. }
      split; auto. split; auto. apply post_refl. auto.
    + (* owned: compacted in place *)
      pose proof (nth_error_lt _ _ _ Hn) as Ha. simpl in Hl. rewrite skipn_O in Hreps.
      cbn [delete_empty]. replace (allocated (Some ps) (HArr a 0 len (length cells))) with true by (symmetry; apply allocated_arr; auto).
      cbn [negb].
      set (E := firstn len cells) in *. set (N := skipn len cells) in *.
      assert (Hcells : cells = [] ++ [] ++ E ++ N) by (simpl; symmetry; apply firstn_skipn).
      assert (HlE : length E = len) by (unfold E; rewrite firstn_length; lia).
      destruct (sweep_arr_sound (fun h w => delete_empty fu h (Some ps) w) ps a Hwf Hp E l fps [] [] [] [] hc N)
        as (hF & WF & GF & fpsF & R1 & R2 & R3 & R4 & R5 & R6 & R7 & R8 & R9 & R10); auto.
      * intros j0 x0 f0 hc0 Hin Hc0 Hr1 ND1. rewrite Forall_forall in H. eapply H; eauto.
        simpl in Hd. pose proof (depth_in_arr _ _ Hin). lia.
      * rewrite <- Hcells. auto.
      * simpl. auto.
      * cbn [length app Nat.add concat] in *. rewrite HlE in R1. rewrite R1.
        assert (Hw : write_cells hF a (length WF) (repeat HNull (len - length WF)) =
                     set_list hF a (OArr (WF ++ repeat HNull (len - length WF) ++ N))).
        { apply (write_cells_mid _ hF a WF GF N); auto. lia. rewrite repeat_length. lia. }
        rewrite Hw.
        set (hF' := set_list hF a (OArr (WF ++ repeat HNull (len - length WF) ++ N))).
        assert (Hother : forall a0, a0 <> a -> nth_error hF' a0 = nth_error hF a0).
        { intros. unfold hF'. apply nth_error_set_list_other. auto. }
        assert (Hafp : ~ In a (concat fpsF)) by (inversion R5; auto).
        exists hF', (HArr a 0 (length WF) (length cells)), (a :: concat fpsF).
        split; auto. split; [|split; auto].
        -- rewrite delete_empty_arr. apply orep_arr.
           exists a, 0, (length WF), (length cells), (WF ++ repeat HNull (len - length WF) ++ N), fpsF.
           split; auto. split. { unfold hF'. apply nth_error_set_list_same. lia. }
           split. { rewrite app_length. lia. }
           split.
           ++ rewrite skipn_O, firstn_app_exact by auto.
              eapply reps3_mono_in; [|exact R4]. rewrite Forall_forall. intros j0 _ x0 f0 Hf0 Hr1.
              apply orep_frame with (h := hF) (ps := ps); [exact Hr1 | | auto | intros; left; auto].
              intros a0 Ha0 [Hna|Hin]; apply Hother.
              ** intro Heq; subst a0. apply Hna. left. eauto.
              ** intro Heq; subst a0. apply Hafp. eapply in_concat_of; eauto.
           ++ right. split; auto. split; auto. split.
              { rewrite !app_length, repeat_length. unfold N. rewrite skipn_length.
                rewrite <- (firstn_skipn len cells) at 1. fold E N. rewrite app_length. unfold N. rewrite skipn_length. lia. }
              auto.
        -- apply post_intro; auto.
           ++ unfold hF'. rewrite set_list_length. auto.
           ++ intros a0 Ha0 Hnin. rewrite Hother. 2:{ intro Heq; subst a0. apply Hnin. left. auto. }
              apply R9; auto. { intro Heq; subst a0. apply Hnin. left. auto. } intro. apply Hnin. right. auto.
           ++ intros a0 [<-|Hin]. { left. left. auto. } destruct (R6 _ Hin); auto. left. right. auto.
           ++ intros a0 Hge Hlt. unfold hF' in Hlt. rewrite set_list_length in Hlt. auto.
  - (* objects *)
    pose proof Hr as Hr0.
    apply orep_obj in Hr as (a & kvs & fps & -> & Hn & Hs & Hreps & Hcase).
    destruct Hcase as [(Hna & Hcc & ->) | (Hp & ->)].
    + assert (allocated (Some ps) (HMap a) = false).
      { destruct (allocated (Some ps) (HMap a)) eqn:E; auto. apply allocated_map in E. exfalso. apply Hna. right. auto. }
      cbn [delete_empty]. rewrite H0. cbn [negb].
      exists hc, (HMap a), []. split; auto.
      rewrite delete_empty_clean. 2:{ eapply frozen_clean; eauto. discriminate. }
      split; auto. split; auto. apply post_refl. auto.
    + pose proof (nth_error_lt _ _ _ Hn) as Ha.
      cbn [delete_empty]. replace (allocated (Some ps) (HMap a)) with true by (symmetry; apply allocated_map; auto).
      cbn [negb]. rewrite (kvs_of_nth _ _ _ Hn).
      destruct (sweep_map_sound (fun h w => delete_empty fu h (Some ps) w) ps a Hwf Hp kvs m fps [] [] [] hc)
        as (hF & PF & fpsF & R1 & R2 & R3 & R4 & R5 & R6 & R7 & R8 & R9 & R10); auto.
      * intros j0 x0 f0 hc0 Hin Hc0 Hr1 ND1. rewrite Forall_forall in H.
        apply in_map_iff in Hin as (kx & <- & Hkx). eapply (H kx); eauto.
        simpl in Hd. pose proof (depth_in_obj m (snd kx) (in_map snd _ _ Hkx)). lia.
      * simpl. auto.
      * cbn [length app Nat.add concat] in *. rewrite R1.
        exists hF, (HMap a), (a :: concat fpsF). split; auto. split; [|split; auto].
        -- rewrite delete_empty_obj. apply orep_obj. exists a, PF, fpsF. repeat split; auto.
        -- apply post_intro; auto.
           ++ intros a0 Ha0 Hnin. apply R9; auto. { intro Heq; subst a0. apply Hnin. left. auto. } intro. apply Hnin. right. auto.
           ++ intros a0 [<-|Hin]. { left. left. auto. } destruct (R6 _ Hin); auto. left. right. auto.
Qed.
