(* integ (C08 / C15) — the [cli_status_total] parameter of props/C08.v [C08_full], instantiated with the command model FROM
   ARGV WITH ITS OUTPUT (c15/Main.v [cli_main]: parse_flags of c08/Flags.v -> runInternal before the loop -> the run loop of
   c15/Cli.v) and proved for every argument vector and every world, without any hypothesis on the world.
   (integ/CliTotal.v [command] is the earlier status-only composition; it has no stdout and no colour / YAML modes.) *)
From Coq Require Import List ZArith NArith Bool String Lia.
From Verif Require Import common.Sexp gen.GenFlagTable gen.GenCliTables c08.Flags c08.FlagsProofs c15.Cli c15.Spec c15.Proofs c15.Main c15.MainProofs.
From Verif Require props.C08 props.C08b.
Import ListNotations.
Open Scope Z_scope.

(* what "the command maps everything to a documented status" means for the model from argv *)
Definition cli_status_statement : Prop :=
  forall (args : list bytes) (w : world),
    (* the flag parser model never indexes out of range and never runs out of fuel *)
    phase_of args w <> PhPanic /\
    (* the status has a documented origin (2 usage, 0 help/version, 5 rejected option value, 3 query error, else the table) *)
    status_origin args w (r_status (cli_main args w)) /\
    (* hence: 0..5, or a halt's requested status, or the ExitCode carried by a library error value *)
    (let st := r_status (cli_main args w) in
     0 <= st <= 5 \/ exists lins, lib_runs args w lins /\ (halts_of lins st \/ errs_of lins (Some st))) /\
    (* and errors before the loop leave stdout empty *)
    match phase_of args w with
    | PhUsage | PhPre _ _ => r_out (cli_main args w) = [] /\ r_err (cli_main args w) = [CDiag]
    | _ => True
    end.

Theorem cli_status_holds : cli_status_statement.
Proof.
  intros args w. split; [apply main_never_panics|]. split; [apply main_status_origin|].
  split; [apply main_status_documented|apply main_silent_before_loop].
Qed.

(* C08_full with the command parameter discharged: what remains assumed is compile_total and vm_total (and the seams of
   integ/NoCrash.v) *)
Definition full_modulo_compiler_vm (compile_total vm_total : Prop) (Hc : compile_total) (Hv : vm_total) :=
  C08b.C08_full_modulo_compiler_vm_cli compile_total vm_total cli_status_statement Hc Hv cli_status_holds.

(* ---- the earlier status-only composition integ/CliTotal.v [command] (props/C08c.v) is the status of [cli_main] ----
   CliTotal's world is a record of booleans ("every --argjson value decodes", "Parse succeeds", ...) and the inputs; the one
   that corresponds to an argument vector and a world of c15/Main.v is [total_world].  CliTotal has no colour / YAML output
   modes (under --yaml-output the NUL rejection of --raw-output0 does not apply, which changes the status), so the
   agreement is stated for plain output. *)
From Verif Require integ.CliTotal.

Definition total_world (args : list bytes) (w : world) : CliTotal.world :=
  match parse_flags flag_table args with
  | FOk rest fo =>
      let l := match query_of fo rest w with Some (q, files) => Some (w_lib w (job_of fo q files)) | None => None end in
      {| CliTotal.w_colors_ok := negb (color_on fo w && negb (w_colors_env_ok w));
         CliTotal.w_argjson_ok := bindings_ok fo w;
         CliTotal.w_slurpfile_ok := true; CliTotal.w_rawfile_ok := true; CliTotal.w_jsonargs_ok := true;
         CliTotal.w_queryfile_ok := match rest with f :: _ => match w_file w f with Some _ => true | None => false end | [] => true end;
         CliTotal.w_parse_ok := match l with Some LParseErr => false | _ => true end;
         CliTotal.w_compile_ok := match l with Some LCompileErr => false | _ => true end;
         CliTotal.w_inputs := match l with Some (LOk a) => shape_ins fo a | _ => [] end |}
  | _ =>
      {| CliTotal.w_colors_ok := true; CliTotal.w_argjson_ok := true; CliTotal.w_slurpfile_ok := true; CliTotal.w_rawfile_ok := true;
         CliTotal.w_jsonargs_ok := true; CliTotal.w_queryfile_ok := true; CliTotal.w_parse_ok := true; CliTotal.w_compile_ok := true;
         CliTotal.w_inputs := [] |}
  end.

Theorem command_is_main_status args w :
  (forall rest fo, parse_flags flag_table args = FOk rest fo -> outmode_of fo w = MPlain) ->
  CliTotal.command args (total_world args w) = r_status (cli_main args w).
Proof.
  intros Hplain. unfold CliTotal.command, cli_main, phase_of, total_world.
  destruct (parse_flags flag_table args) as [rest fo|m|s|] eqn:Hf; try reflexivity.
  specialize (Hplain rest fo eq_refl).
  assert (Hy : fbool fo "yaml-output" = false).
  { unfold outmode_of in Hplain. destruct (fbool fo "yaml-output"); [discriminate|reflexivity]. }
  assert (Ho : CliTotal.opts_of fo = opts_of fo).
  { unfold CliTotal.opts_of, opts_of. change (CliTotal.fbool fo) with (fbool fo). change (CliTotal.findent fo) with (findent fo).
    rewrite Hy. cbn [negb]. rewrite !andb_true_r. reflexivity. }
  unfold CliTotal.classify, after_flags, eff_opts, eff_ins. rewrite Hplain.
  change (CliTotal.fbool fo) with (fbool fo). change (CliTotal.indent_bad fo) with (indent_bad fo).
  rewrite Ho.
  cbn [CliTotal.w_colors_ok CliTotal.w_argjson_ok CliTotal.w_slurpfile_ok CliTotal.w_rawfile_ok CliTotal.w_jsonargs_ok
       CliTotal.w_queryfile_ok CliTotal.w_parse_ok CliTotal.w_compile_ok CliTotal.w_inputs].
  destruct (fbool fo "help") eqn:Hh; [reflexivity|]. destruct (fbool fo "version") eqn:Hv; [reflexivity|].
  cbn [orb]. rewrite negb_involutive.
  destruct (color_on fo w && negb (w_colors_env_ok w)); [rewrite !exit_status_table; reflexivity|].
  destruct (indent_bad fo); [rewrite !exit_status_table; reflexivity|].
  destruct (fbool fo "yaml-output" && fbool fo "tab"); [rewrite !exit_status_table; reflexivity|].
  cbn [negb orb]. rewrite !orb_false_r.
  destruct (bindings_ok fo w); cbn [negb]; [|rewrite !exit_status_table; reflexivity].
  unfold query_of. destruct (fbool fo "from-file") eqn:Hff; cbn [andb].
  - destruct rest as [|f files]; [rewrite !exit_status_table; reflexivity|].
    destruct (w_file w f) as [src|]; cbn [negb]; [|rewrite !exit_status_table; reflexivity].
    destruct (w_lib w (job_of fo (QFile f src) files)); cbn [negb]; cbn [finish]; rewrite ?exit_status_table; reflexivity.
  - destruct rest as [|a files].
    + destruct (w_lib w (job_of fo QDot [])); cbn [negb]; cbn [finish]; rewrite ?exit_status_table; reflexivity.
    + destruct (w_lib w (job_of fo (QArg a) files)); cbn [negb]; cbn [finish]; rewrite ?exit_status_table; reflexivity.
Qed.
