(* integ — the command's top level as a total function: cli.go run/runInternal BEFORE the loop (flag errors,
   --help / --version, option-value errors, query from file) on top of C08's model of parseFlags (c08/Flags.v,
   proved total) and C15's model of the command after flag parsing (c15/Cli.v, proved equal to the documented
   table).  The two models compose: [command] maps every argument vector and every outcome of the outside world
   to an exit status in {0,1,2,3,4,5} or to the code of a halt/halt_error that one of the runs produced.

   cli.go runInternal, in order:
     parseFlags fails                                   -> flagParseError                  (PFlagErr, 2)
     opts.Help / opts.Version                           -> print, return nil               (0)
     GOJQ_COLORS invalid (when colours are on)          -> return err                      (POptErr, 5)
     --indent > 9 or < 0; --yaml-output with --tab      -> fmt.Errorf / errors.New         (POptErr, 5)
     --argjson / --slurpfile / --rawfile / --jsonargs   -> return err                      (POptErr, 5)
     -f without a file name; file unreadable            -> return err                      (POptErr, 5)
     gojq.Parse / gojq.Compile fail                     -> queryParseError / compileError  (3)
     otherwise                                          -> process                         (PReady)
   The outside world (environment, files, the library) is a record of outcomes; nothing about it is assumed
   except that library errors carry no exit code or error/1's code 5 (C15's hypothesis). *)
From Coq Require Import List ZArith NArith Bool Lia String.
From Verif Require Import common.Sexp gen.GenFlagTable gen.GenCliTables c08.Flags c08.FlagsProofs c15.Cli c15.Spec c15.Proofs.
Import ListNotations.
Open Scope Z_scope.

(* ---- reading the option struct filled by parseFlags (fields are found by their long name) ---- *)
Definition field (fo : list fval) (long : string) : fval :=
  match lookup_long flag_table (codes long) with Some i => get_opt i fo | None => VOther end.
Definition fbool (fo : list fval) (long : string) : bool :=
  match field fo long with VBool b => b | _ => false end.
Definition findent (fo : list fval) : option Z :=
  match field fo "indent" with VInt z => z | _ => None end.

(* every long name used below is an option of the current cli.go (otherwise [field] would silently be VOther) *)
Definition names_used : list string :=
  ["help"; "version"; "indent"; "tab"; "yaml-output"; "raw-output"; "raw-output0"; "join-output"; "compact-output";
   "exit-status"; "null-input"; "slurp"; "from-file"]%string.
Lemma names_exist : forallb (fun n => match lookup_long flag_table (codes n) with Some _ => true | None => false end) names_used = true.
Proof. vm_compute. reflexivity. Qed.

(* createMarshaler selects the YAML marshaler BEFORE the raw wrapper: under --yaml-output the raw flags (and with them the
   NUL rejection of --raw-output0, the only way they reach the status) are inactive *)
Definition opts_of (fo : list fval) : opts :=
  let y := fbool fo "yaml-output" in
  mkO (fbool fo "raw-output" && negb y) (fbool fo "raw-output0" && negb y) (fbool fo "join-output" && negb y) (fbool fo "compact-output")
      (fbool fo "tab") (option_map Z.to_nat (findent fo)) (fbool fo "exit-status") (fbool fo "null-input") (fbool fo "slurp").

(* ---- the outside world ---- *)
Record world := {
  w_colors_ok : bool;      (* colours off, or GOJQ_COLORS unset / accepted by setColors *)
  w_argjson_ok : bool;     (* every --argjson value decodes *)
  w_slurpfile_ok : bool;   (* every --slurpfile file reads and decodes *)
  w_rawfile_ok : bool;     (* every --rawfile file reads *)
  w_jsonargs_ok : bool;    (* every --jsonargs value decodes *)
  w_queryfile_ok : bool;   (* -f: os.ReadFile(args[0]) succeeds *)
  w_parse_ok : bool;       (* gojq.Parse *)
  w_compile_ok : bool;     (* gojq.Compile *)
  w_inputs : list input    (* what the input iterator and the runs yield (c15) *)
}.

Definition indent_bad (fo : list fval) : bool :=
  match findent fo with Some i => (i >? 9) || (i <? 0) | None => false end.

(* the pre-loop classification of runInternal; None = --help / --version (return nil before anything else) *)
Definition classify (fo : list fval) (rest : list bytes) (w : world) : option pre :=
  if fbool fo "help" || fbool fo "version" then None
  else if negb (w_colors_ok w) then Some POptErr
  else if indent_bad fo then Some POptErr
  else if fbool fo "yaml-output" && fbool fo "tab" then Some POptErr
  else if negb (w_argjson_ok w) || negb (w_slurpfile_ok w) || negb (w_rawfile_ok w) || negb (w_jsonargs_ok w) then Some POptErr
  else if fbool fo "from-file" && (match rest with [] => true | _ => negb (w_queryfile_ok w) end) then Some POptErr
  else if negb (w_parse_ok w) then Some PParseErr
  else if negb (w_compile_ok w) then Some PCompileErr
  else Some PReady.

(* cli.run: the exit status of the command (-1 stands for "parseFlags panicked or ran on": never, see below) *)
Definition command (args : list bytes) (w : world) : Z :=
  match parse_flags flag_table args with
  | FErr _ => r_status (run (opts_of []) PFlagErr [])
  | FOk rest fo =>
      match classify fo rest w with
      | None => exitCodeOK
      | Some p => r_status (run (opts_of fo) p (w_inputs w))
      end
  | FPanic _ | FFuel => -1
  end.

(* ---- the documented codomain ---- *)
Definition halt_code_of (ins : list input) (st : Z) : Prop :=
  exists outs v, In (InRun outs) ins /\ In (OHalt v st) outs.
Definition documented (ins : list input) (st : Z) : Prop := 0 <= st <= 5 \/ halt_code_of ins st.

Definition lib_errors_ok (ins : list input) : Prop :=
  forall i outs c m, In i ins -> i = InRun outs -> In (OErr c m) outs -> err_code_ok c = true.

Lemma spec_halt_from_input : forall o ins v c, spec_halt o ins = Some (v, c) -> halt_code_of ins c.
Proof.
  intros o ins v c H. unfold spec_halt in H. destruct (find (halts o) ins) as [i|] eqn:F; [|discriminate].
  apply find_some in F as [Hin _]. destruct i as [|outs]; [discriminate|]. cbn in H.
  unfold first_stop in H. destruct (find (stopper o) outs) as [x|] eqn:G; [|discriminate].
  apply find_some in G as [Hx _]. destruct x; try discriminate. injection H as -> ->.
  exists outs, v. split; assumption.
Qed.

Lemma run_status_documented : forall o p ins, lib_errors_ok ins -> documented ins (r_status (run o p ins)).
Proof.
  intros o p ins Herr. rewrite exit_status_table. unfold spec_status, documented.
  destruct p; [left; cbn; lia|left; cbn; lia|left; cbn; lia|left; cbn; lia|].
  destruct (spec_halt o ins) as [[v c]|] eqn:Hh.
  - right. eapply spec_halt_from_input; eauto.
  - left. pose proof (spec_errors_codes o ins Herr) as Hc.
    destruct (last_opt (spec_errors o ins)) as [[c|]|] eqn:L.
    + apply last_opt_In in L. specialize (Hc _ L). cbn in Hc. apply Z.eqb_eq in Hc. lia.
    + lia.
    + destruct (o_exit o); [|lia]. destruct (last_opt (spec_values o ins)) as [v|]; [destruct (falsy v)|]; lia.
Qed.

(* THE COMPOSITION: parse_flags (Flags.v) followed by run (Cli.v) maps every argument vector and every world
   to a documented status *)
Theorem cli_status_total : forall (args : list bytes) (w : world), lib_errors_ok (w_inputs w) ->
  documented (w_inputs w) (command args w).
Proof.
  intros args w Herr. unfold command.
  pose proof (flags_total args) as Hf.
  destruct (parse_flags flag_table args) as [rest fo|m|s|]; try contradiction.
  - destruct (classify fo rest w) as [p|].
    + apply run_status_documented. exact Herr.
    + left. unfold exitCodeOK. lia.
  - left. rewrite exit_status_table. cbn. lia.
Qed.

(* and the refinements of the table that do not depend on the runs *)
Theorem cli_usage_error_is_2 : forall args w m, parse_flags flag_table args = FErr m -> command args w = 2.
Proof. intros args w m H. unfold command. rewrite H. rewrite exit_status_table. reflexivity. Qed.

Theorem cli_help_is_0 : forall args w rest fo, parse_flags flag_table args = FOk rest fo ->
  fbool fo "help" || fbool fo "version" = true -> command args w = 0.
Proof. intros args w rest fo H Hh. unfold command, classify. rewrite H, Hh. reflexivity. Qed.

Theorem cli_option_value_error_is_5 : forall args w rest fo, parse_flags flag_table args = FOk rest fo ->
  classify fo rest w = Some POptErr -> command args w = 5.
Proof. intros args w rest fo H Hc. unfold command. rewrite H, Hc. rewrite exit_status_table. reflexivity. Qed.

Theorem cli_query_error_is_3 : forall args w rest fo p, parse_flags flag_table args = FOk rest fo ->
  classify fo rest w = Some p -> p = PParseErr \/ p = PCompileErr -> command args w = 3.
Proof.
  intros args w rest fo p H Hc Hp. unfold command. rewrite H, Hc. rewrite exit_status_table.
  destruct Hp as [-> | ->]; reflexivity.
Qed.

(* non-vacuity: `--indent 10 .` is rejected with 5, `--indent` alone is a usage error, `-h` wins over everything *)
Example cli_examples :
  let w := {| w_colors_ok := true; w_argjson_ok := true; w_slurpfile_ok := true; w_rawfile_ok := true; w_jsonargs_ok := true;
              w_queryfile_ok := true; w_parse_ok := true; w_compile_ok := true; w_inputs := [] |} in
  command [codes "--indent"; codes "10"; codes "."] w = 5 /\
  command [codes "--indent"] w = 2 /\
  command [codes "-h"; codes "--indent"; codes "10"] w = 0 /\
  command [codes "-e"; codes "."] w = 4.
Proof. vm_compute. repeat split; reflexivity. Qed.
