(* INTEGRATION (C10 from C12): the float / output clause of C10
     "computed floats print in shortest round-trip form, and every emitted number is valid JSON (NaN as null,
      infinities saturated to the largest finite double)"
   assembled from the number theorems of c12/NumProofs.v (model c12/Encode.v of encoder.go [encodeFloat64] and of
   the integer printers) and the decimal round trip of c10/Decimal.v.

   strconv.AppendFloat is not gojq's code: it is the variable [fmt_float] (structured digits [fnum]) under
     fmt_shape : for finite f its text is [-]d+[.d+] ('f') or [-]d[.d+]e(+|-)dd+ ('e'), no superfluous leading zero
     fmt_round : (only where stated) its digits parse back, by [parse_float], to the float they were printed from.
   "Shortest" is a property of strconv's digit generation and is NOT proved: what is proved is that gojq emits
   strconv's digits unchanged ([float_digits_are_strconv]: same sign, integer and fraction digits, same value; only a
   leading zero of a two-digit negative exponent is dropped), so the text is as short and as round-tripping as
   strconv's.  Floats are bit patterns (N); comparisons on them are modelled on the bits (c12/Encode.v). *)
From Coq Require Import List NArith ZArith Bool Lia ZifyN ZifyNat ZifyBool.
From Verif Require Import common.Sexp c12.JsonRef c12.Encode c12.NumProofs c12.ValueProofs c10.Decimal.
Import ListNotations.
Open Scope N_scope.

(* the values that are numbers *)
Definition is_num (v : value) : Prop :=
  match v with VInt _ | VBig _ | VFloat _ | VLit _ => True | _ => False end.

Lemma nan_not_finite_text : json_number txt_null = false.
Proof. vm_compute. reflexivity. Qed.

(* NaN is printed as null, whatever strconv does *)
Theorem nan_null : forall (fmt_float : N -> bool -> fnum) b, is_nan b = true -> encode_float fmt_float b = txt_null.
Proof. intros fmt_float b H. unfold encode_float. rewrite H. reflexivity. Qed.

Section Fmt.
Variable fmt_float : N -> bool -> fnum.
Hypothesis fmt_shape : forall f e, finite f -> fnum_shape e (fmt_float f e) = true.

(* every emitted number is valid JSON: an RFC 8259 number literal (generative grammar [number_literal], accepted as
   a whole by the reference scanner [json_number]), or the literal null — and null exactly for NaN *)
Theorem number_json_valid : forall v, wfv v -> is_num v ->
  (number_literal (encode fmt_float v) /\ json_number (encode fmt_float v) = true) \/
  (encode fmt_float v = txt_null /\ exists f, v = VFloat f /\ is_nan f = true).
Proof.
  intros v Hwf Hn. destruct v; try contradiction; cbn [encode].
  - left. split; [apply int_literal|apply number_literal_json, int_literal].
  - left. split; [apply int_literal|apply number_literal_json, int_literal].
  - destruct (is_nan bits) eqn:E.
    + right. split; [unfold encode_float; rewrite E; reflexivity|eauto].
    + left. pose proof (encode_float_literal fmt_float fmt_shape bits E) as H. split; [exact H|apply number_literal_json, H].
  - inversion Hwf; subst. left. split; [assumption|apply number_literal_json; assumption].
Qed.

(* gojq prints strconv's digits: sign, integer digits and fraction digits of the text are those strconv produced
   for the (clamped) float in the format gojq chose, and the denoted value is strconv's *)
Theorem float_digits_are_strconv : forall b, is_nan b = false ->
  let s := fmt_float (clamp b) (fmt_is_e (clamp b)) in
  exists x, encode_float fmt_float b = fnum_text x /\
            fneg x = fneg s /\ fint x = fint s /\ ffrac x = ffrac s /\ fnum_den x = fnum_den s.
Proof.
  intros b Hb s. exists (float_fnum fmt_float b). split; [apply encode_float_text; assumption|].
  unfold float_fnum, s. cbn zeta. destruct (fmt_is_e (clamp b)); [|repeat split].
  pose proof (cleanup_fnum_den (fmt_float (clamp b) true)) as Hd.
  unfold cleanup_fnum in *. destruct (fexp (fmt_float (clamp b) true)) as [[[] [|z [|d [|]]]]|]; try (repeat split; assumption).
  destruct (z =? 48); repeat split; assumption.
Qed.

(* infinities are saturated: +Inf prints as +MaxFloat64 does, -Inf as -MaxFloat64 does *)
Theorem inf_saturated :
  clamp inf_bits = max_bits /\ clamp (two63 + inf_bits) = two63 + max_bits /\
  encode_float fmt_float inf_bits = encode_float fmt_float max_bits /\
  encode_float fmt_float (two63 + inf_bits) = encode_float fmt_float (two63 + max_bits) /\
  number_literal (encode_float fmt_float inf_bits) /\ number_literal (encode_float fmt_float (two63 + inf_bits)).
Proof.
  repeat split; try (vm_compute; reflexivity).
  - apply encode_float_literal; [assumption|vm_compute; reflexivity].
  - apply encode_float_literal; [assumption|vm_compute; reflexivity].
Qed.

(* the only bit patterns with |f| = Inf among 64-bit patterns are these two *)
Lemma inf_patterns : forall b, b < 2 ^ 64 -> fabs b = inf_bits -> b = inf_bits \/ b = two63 + inf_bits.
Proof. unfold fabs, inf_bits, two63. intros b Hb H. lia. Qed.
End Fmt.

(* integers: the emitted decimal reads back to exactly z with the integer reader of C10 (all digits kept) *)
Theorem int_text_reads_back : forall fmt_float z,
  parse_Z (encode fmt_float (VInt z)) = Some z /\ parse_Z (encode fmt_float (VBig z)) = Some z /\
  parse_Z (tostring fmt_float (VInt z)) = Some z /\ parse_Z (tostring fmt_float (VBig z)) = Some z.
Proof. intros fmt_float z. cbn [tostring encode]. repeat split; apply parse_print_Z. Qed.
