(* INTEGRATION: the UTF-8 decoder of c08/Utf8Dec.v (range tests; what Preview.enc_string runs with) against Unicode
   Table 3-7 as written in c12/JsonRef.v [utf8_step]: same validity verdict and same size for every input whose
   first byte is >= 0x80.  With c12/Utf8Proofs.v [decode_agree] / [go_bad_spec] (Go's table-driven decoder against
   the same Table 3-7) this relates the two decoder models.  SLOW FILE (about a minute: case analysis by lia);
   kept separate from integ/EncodeStringAgree.v. *)
From Coq Require Import List NArith ZArith Bool Lia.
From Verif Require c08.Utf8Dec c12.JsonRef.
Import ListNotations.
Open Scope N_scope.

Ltac split_cmp :=
  match goal with
  | |- context [N.leb ?a ?b] => destruct (N.leb_spec a b)
  | |- context [N.ltb ?a ?b] => destruct (N.ltb_spec a b)
  | |- context [N.eqb ?a ?b] => destruct (N.eqb_spec a b)
  end; try (exfalso; lia).

Lemma c08_dec_step : forall b0 r, 128 <= b0 ->
  Utf8Dec.decode_rune (b0 :: r) =
  match JsonRef.utf8_step (b0 :: r) with None => (false, 1%nat) | Some (_, n) => (true, n) end.
Proof.
  intros b0 r H. unfold Utf8Dec.decode_rune, JsonRef.utf8_step.
  destruct (N.eqb_spec b0 224), (N.eqb_spec b0 237), (N.eqb_spec b0 240), (N.eqb_spec b0 244); try (exfalso; lia);
  destruct r as [|b1 [|b2 [|b3 r]]];
  cbv beta iota zeta delta [JsonRef.inr JsonRef.cont Utf8Dec.in_rng Utf8Dec.is_cont];
  repeat split_cmp; cbn [andb orb negb]; try reflexivity.
Qed.

