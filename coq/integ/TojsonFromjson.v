(* INTEGRATION (C13 from C12): the clauses of C13 that coq/c13 leaves at correspondence level,
     tojson | fromjson  is the identity (up to NaN -> null, infinity saturation, U+FFFD replacement)
     tostring | tonumber on finite numbers
   derived from the C12 development (coq/c12): [decode_encode : json_decode (encode v) = Some (norm v)] and the
   number theorems of c12/NumProofs.v, plus the decimal round trip of common/Sexp.v used by C10.

   WHAT THE FUNCTIONS ARE IN THIS MODEL
   * tojson     = c12/Encode.v [tojson] = [encode] (the model of /repo/encoder.go, tied byte for byte to
                  gojq.Marshal / tojson / @json by the C12 streams).
   * fromjson   = [fromjson] below = the REFERENCE reader of c12/JsonRef.v ([json_decode], RFC 8259) followed by the
                  embedding [embed] of its result type [jv] into gojq's value type: numbers stay literals, as in
                  funcFromJSON (func.go: json.NewDecoder + UseNumber, so every number is a json.Number = [VLit]).
                  The REAL fromjson is encoding/json, outside /repo: it is not modelled.  The C12 check compares the
                  reference reader with encoding/json on every tojson text of its strings/floats/containers streams
                  (`dec` lines), and the C13 laws stream evaluates tojson|fromjson on the implementation.
   * tostring   = c12/Encode.v [tostring].
   * tonumber   = funcToNumber = lexer.validNumber + parseNumber(json.Number(s)): Int64() / big.Int.SetString on
                  integer texts, strconv.ParseFloat on texts with '.', 'e', 'E'.  Modelled here by what these
                  library calls are specified to compute: [parse_Z] (common/Sexp.v, the decimal reader C10 uses) on
                  integer texts, and for floats the exact decimal denotation [num_denote] (m * 10^e) followed by an
                  abstract correctly-rounding [parse_float : Z * Z -> N] (strconv.ParseFloat; Section variable).
   * strconv.AppendFloat = the Section variable [fmt_float] with the hypotheses [fmt_shape] (its text has the shape
                  [-]d+[.d+] / [-]d[.d+]e(+|-)dd+) and [fmt_round] (its digits parse back to the float they were
                  printed from); both are checked by the C12 harness on every sampled float.

   Value equality.  [rel lossy v w] is "w is v as a jq value": numbers are compared by VALUE (an int z and a literal
   denoting z * 10^0 are the same number; a float and a literal that ParseFloat maps to that float are the same
   number — the Go representation differs: fromjson returns json.Number, see C03/C10 for representation
   independence), object members are compared as sets of (key, value) pairs (the model's association list has no
   order; the result is given in key order).  With [lossy = true] the three documented degradations are allowed:
   NaN -> null, +-Inf -> +-MaxFloat64 ([clamp]), ill-formed UTF-8 -> U+FFFD ([sanitize]); with [lossy = false] none. *)
From Coq Require Import List NArith ZArith Bool Lia Sorted Permutation.
From Verif Require Import common.Sexp c12.Utf8 c12.JsonRef c12.Encode c12.CliEncode c12.CliPure c12.Utf8Proofs
  c12.StrProofs c12.NumProofs c12.SortProofs c12.ValueProofs c12.DecodeProofs.
Import ListNotations.
Open Scope N_scope.

(* ---------- fromjson on the reference reader ---------- *)
Fixpoint embed (j : jv) : value :=
  match j with
  | JNull => VNull
  | JBool b => VBool b
  | JNum t => VLit t                      (* UseNumber: json.Number *)
  | JStr s => VStr s
  | JArr l => VArr (map embed l)
  | JObj m => VObj (map (fun kv => (fst kv, embed (snd kv))) m)
  end.
Definition fromjson (t : list N) : option value := option_map embed (json_decode t).

(* ---------- jq-value equality, with or without the documented degradations ---------- *)
Section Rel.
Variable parse_float : Z * Z -> N.        (* strconv.ParseFloat on the exact decimal m * 10^e -> float64 bits *)
Variable lossy : bool.

Definition fl (f : N) : N := if lossy then clamp f else f.
Definition st (s : list N) : list N := if lossy then sanitize s else s.

Inductive rel : value -> value -> Prop :=
| r_null : rel VNull VNull
| r_bool b : rel (VBool b) (VBool b)
| r_int z t : number_literal t -> num_denote t = Some (z, 0%Z) -> rel (VInt z) (VLit t)
| r_big z t : number_literal t -> num_denote t = Some (z, 0%Z) -> rel (VBig z) (VLit t)
| r_nan f : lossy = true -> is_nan f = true -> rel (VFloat f) VNull
| r_float f t : is_nan f = false -> number_literal t ->
    option_map parse_float (num_denote t) = Some (fl f) -> rel (VFloat f) (VLit t)
| r_lit t : rel (VLit t) (VLit t)
| r_str s : rel (VStr s) (VStr (st s))
| r_arr l l' : Forall2 rel l l' -> rel (VArr l) (VArr l')
| r_obj m ms m' : Permutation ms m -> Sorted key_le ms ->
    Forall2 (fun kv kv' => fst kv' = st (fst kv) /\ rel (snd kv) (snd kv')) ms m' -> rel (VObj m) (VObj m').
End Rel.

(* values on which nothing is degraded: no NaN, no infinity, every string and key well-formed UTF-8 *)
Inductive clean : value -> Prop :=
| c_null : clean VNull
| c_bool b : clean (VBool b)
| c_int z : clean (VInt z)
| c_big z : clean (VBig z)
| c_float f : finite f -> clean (VFloat f)
| c_lit t : clean (VLit t)
| c_str s : utf8_valid s -> clean (VStr s)
| c_arr l : Forall clean l -> clean (VArr l)
| c_obj m : Forall (fun kv => utf8_valid (fst kv) /\ clean (snd kv)) m -> clean (VObj m).

Lemma finite_not_nan f : finite f -> is_nan f = false.
Proof. unfold finite, is_nan. intros H. apply N.ltb_ge. lia. Qed.

Lemma finite_clamp f : finite f -> clamp f = f.
Proof.
  unfold finite, clamp. intros H. destruct (N.eqb_spec (fabs f) inf_bits) as [E|E]; [lia|reflexivity].
Qed.

Lemma Forall2_map_r {A B C} (R : A -> C -> Prop) (g : B -> C) (f : A -> B) l :
  Forall (fun x => R x (g (f x))) l -> Forall2 R l (map g (map f l)).
Proof. induction 1; cbn [map]; constructor; assumption. Qed.

Lemma Forall2_upgrade {A B} (R R' : A -> B -> Prop) l l' :
  Forall (fun x => forall y, R x y -> R' x y) l -> Forall2 R l l' -> Forall2 R' l l'.
Proof. intros H F. induction F; inversion H; subst; constructor; auto. Qed.

Lemma Forall_perm {A} (P : A -> Prop) l l' : Permutation l l' -> Forall P l' -> Forall P l.
Proof. intros Hp H. apply Forall_forall. intros x Hx. eapply Forall_forall in H; [exact H|]. eapply Permutation_in; eassumption. Qed.

Section Main.
Variable fmt_float : N -> bool -> fnum.
Hypothesis fmt_shape : forall f e, finite f -> fnum_shape e (fmt_float f e) = true.
Variable parse_float : Z * Z -> N.
Hypothesis fmt_round : forall f e, finite f -> parse_float (fnum_den (fmt_float f e)) = f.

(* what the reader returns for the encoder's text is the value itself, up to the three degradations *)
Lemma rel_embed_norm : forall v, wfv v -> rel parse_float true v (embed (norm fmt_float v)).
Proof.
  induction v using value_ind'; intros Hwf; cbn [norm embed].
  - constructor.
  - constructor.
  - apply r_int; [apply int_literal|apply num_denote_int].
  - apply r_big; [apply int_literal|apply num_denote_int].
  - destruct (is_nan f) eqn:E; cbn [embed].
    + apply r_nan; [reflexivity|assumption].
    + apply r_float; [assumption|apply encode_float_literal; assumption|].
      unfold fl. apply encode_float_round; assumption.
  - constructor.
  - apply (r_str parse_float true).
  - inversion Hwf as [| | | | | | |l' Hl|]; subst. constructor.
    apply Forall2_map_r. rewrite Forall_forall in *. intros x Hx. apply H; auto.
  - inversion Hwf as [| | | | | | | |m' Hm]; subst.
    apply (r_obj parse_float true m (sort_kvs m)); [apply sort_perm|apply sort_sorted|].
    rewrite sort_map_snd, !map_map. cbn [fst snd].
    assert (Hall : Forall (fun kv : list N * value => rel parse_float true (snd kv) (embed (norm fmt_float (snd kv)))) (sort_kvs m)).
    { apply (Forall_perm _ _ m (sort_perm m)). rewrite Forall_forall in *. intros kv Hkv. apply H; [assumption|].
      apply (Hm kv Hkv). }
    induction Hall as [|kv r Hkv Hr IH]; cbn [map]; constructor; [|exact IH].
    cbn [fst snd]. split; [reflexivity|exact Hkv].
Qed.

(* C13: tojson | fromjson, every well-formed value: identity up to NaN -> null, infinity saturation, U+FFFD *)
Theorem tojson_fromjson_upto : forall v, wfv v ->
  exists w, fromjson (tojson fmt_float v) = Some w /\ rel parse_float true v w.
Proof.
  intros v Hwf. exists (embed (norm fmt_float v)). split; [|apply rel_embed_norm; assumption].
  unfold fromjson, tojson. rewrite (decode_encode fmt_float fmt_shape v Hwf). reflexivity.
Qed.

(* on clean values none of the degradations applies *)
Lemma rel_clean : forall v w, clean v -> rel parse_float true v w -> rel parse_float false v w.
Proof.
  induction v using value_ind'; intros w Hc Hr; inversion Hr; subst; try (constructor; assumption).
  - inversion Hc; subst. rewrite finite_not_nan in * by assumption. discriminate.
  - inversion Hc; subst. apply r_float; try assumption. unfold fl in *. rewrite finite_clamp in * by assumption. assumption.
  - inversion Hc; subst. unfold st. rewrite sanitize_valid by assumption. apply (r_str parse_float false).
  - inversion Hc as [| | | | | | |l0 Hl|]; subst. constructor.
    eapply Forall2_upgrade; [|eassumption].
    rewrite Forall_forall in *. intros x Hx y Hxy. apply H; auto.
  - inversion Hc as [| | | | | | | |m0 Hm]; subst.
    match goal with HP : Permutation ms m |- _ =>
      pose proof (Forall_perm _ _ _ HP H) as Hih; pose proof (Forall_perm _ _ _ HP Hm) as Hcl end.
    apply (r_obj parse_float false m ms); try assumption.
    eapply Forall2_upgrade; [|eassumption].
    rewrite Forall_forall in *. intros kv Hkv kv' [Hk Hv]. destruct (Hcl kv Hkv) as [Hu Hcv].
    split; [|apply Hih; assumption].
    unfold st in *. rewrite sanitize_valid in Hk by assumption. exact Hk.
Qed.

(* C13: tojson | fromjson is the identity on values without NaN, infinities and ill-formed strings *)
Theorem tojson_fromjson_id : forall v, wfv v -> clean v ->
  exists w, fromjson (tojson fmt_float v) = Some w /\ rel parse_float false v w.
Proof.
  intros v Hwf Hc. destruct (tojson_fromjson_upto v Hwf) as (w & E & R). exists w. split; [exact E|].
  apply rel_clean; assumption.
Qed.

(* C13: tostring | tonumber on finite numbers.
   integers (int, *big.Int), any magnitude: the text is the canonical decimal, a JSON number literal that denotes
   exactly z * 10^0.  (That the integer reader [parse_Z] of C10 — Int64() / big.Int.SetString — returns z on it is
   stated in props/C10b.v: it needs c10/Decimal.v, which depends on the regenerated gen/GenArith.v.) *)
Theorem tostring_tonumber_int : forall z,
  tostring fmt_float (VInt z) = print_Z z /\ tostring fmt_float (VBig z) = print_Z z /\
  number_literal (print_Z z) /\ num_denote (print_Z z) = Some (z, 0%Z).
Proof. intros z. repeat split; [apply int_literal|apply num_denote_int]. Qed.

(* finite floats: the text is a JSON number literal and ParseFloat of its exact decimal value is the float itself *)
Theorem tostring_tonumber_float : forall f, finite f ->
  number_literal (tostring fmt_float (VFloat f)) /\
  option_map parse_float (num_denote (tostring fmt_float (VFloat f))) = Some f.
Proof.
  intros f Hf. pose proof (finite_not_nan f Hf) as Hn. cbn [tostring encode]. split.
  - apply encode_float_literal; assumption.
  - rewrite (encode_float_round fmt_float fmt_shape parse_float fmt_round f Hn). rewrite finite_clamp by assumption. reflexivity.
Qed.

(* json.Number: printed verbatim, so tonumber sees the very literal *)
Theorem tostring_literal : forall t, tostring fmt_float (VLit t) = t.
Proof. reflexivity. Qed.
End Main.

(* outside "finite": what tostring | tonumber does to the other floats (not an identity, as documented) *)
Theorem tostring_nan : forall fmt_float f, is_nan f = true -> tostring fmt_float (VFloat f) = txt_null.
Proof. intros fmt_float f H. cbn [tostring encode]. unfold encode_float. rewrite H. reflexivity. Qed.

(* ---------- non-vacuity of the hypotheses ----------
   [fmt_shape] and [fmt_round] are jointly satisfiable: a (deliberately silly) printer that writes the BIT PATTERN in
   decimal — 'f': all digits, 'e': first digit, the others as fraction, exponent 0<number of fraction digits> —
   has the assumed shape for every input, and the reader "mantissa digits as a number" inverts it. *)
Definition toy_fmt (f : N) (e : bool) : fnum :=
  let ds := print_N f in
  if e then match ds with
            | d :: r => {| fneg := false; fint := [d]; ffrac := r; fexp := Some (false, 48 :: print_N (N.of_nat (length r))) |}
            | [] => {| fneg := false; fint := [48]; ffrac := []; fexp := Some (false, [48; 48]) |}
            end
  else {| fneg := false; fint := ds; ffrac := []; fexp := None |}.
Definition toy_parse (d : Z * Z) : N := Z.to_N (fst d).

Lemma toy_shape : forall f e, fnum_shape e (toy_fmt f e) = true.
Proof.
  intros f e. unfold toy_fmt. destruct (print_N_spec f) as (ds & E & Hd & Hne & _). rewrite E.
  destruct e.
  - destruct ds as [|d r]; [congruence|]. unfold fnum_shape. cbn [fint ffrac fexp].
    cbn [all_digits forallb] in Hd. apply andb_true_iff in Hd. destruct Hd as [Hd Hr].
    destruct (print_N_spec (N.of_nat (length r))) as (es & Ee & He & Hene & _). rewrite Ee.
    unfold canon_int. cbn [all_digits forallb length]. fold (all_digits r) (all_digits es) in *.
    rewrite Hd, Hr, He. destruct es; [congruence|reflexivity].
  - unfold fnum_shape. cbn [fint ffrac fexp all_digits forallb]. rewrite <- E, print_N_canon. reflexivity.
Qed.

Lemma toy_round : forall f e, toy_parse (fnum_den (toy_fmt f e)) = f.
Proof.
  intros f e. unfold toy_fmt. destruct (print_N_spec f) as (ds & E & Hd & Hne & Hv & _). rewrite E.
  unfold toy_parse, fnum_den, np_den, of_fnum. destruct e.
  - destruct ds as [|d r]; [congruence|]. cbn [fneg fint ffrac fexp np_neg np_int np_frac np_exp fst app].
    rewrite Hv. lia.
  - cbn [fneg fint ffrac fexp np_neg np_int np_frac np_exp fst]. rewrite app_nil_r, Hv. lia.
Qed.
