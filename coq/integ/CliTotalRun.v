(* correspondence judge for integ/CliTotal.v: one line
     (cmd (<arghex>…) <status> <parse_ok> <compile_ok> <queryfile_ok> <runs>)
   runs: list of runs, each a list of outcomes  n (null) | f (false) | o (other value) | (h <code>) halt with nil value
   The world has colours off and no --argjson/--slurpfile/--rawfile/--jsonargs failures (the stream uses none). *)
From Coq Require Import List ZArith NArith Bool String.
From Verif Require Import common.Sexp c08.FastSexp c08.Flags c15.Cli integ.CliTotal.
Import ListNotations.
Open Scope Z_scope.

Fixpoint hexs (l : list sexp) : option (list bytes) :=
  match l with
  | [] => Some []
  | Atom a :: r => match parse_hexs a, hexs r with Some b, Some t => Some (b :: t) | _, _ => None end
  | _ => None
  end.
Definition dec_outcome (e : sexp) : option outcome :=
  match e with
  | Atom _ =>
      if atom_is "n" e then Some (OVal (mkV KNull (codes "null")))
      else if atom_is "f" e then Some (OVal (mkV KFalse (codes "false")))
      else if atom_is "o" e then Some (OVal (mkV KOther (codes "1")))
      else None
  | SList [t; Atom c] => if atom_is "h" t then option_map (fun z => OHalt (mkV KNull (codes "null")) z) (parse_Z c) else None
  | _ => None
  end.
Fixpoint dec_outs (l : list sexp) : option (list outcome) :=
  match l with [] => Some [] | e :: r => match dec_outcome e, dec_outs r with Some o, Some t => Some (o :: t) | _, _ => None end end.
Fixpoint dec_runs (l : list sexp) : option (list input) :=
  match l with
  | [] => Some []
  | SList outs :: r => match dec_outs outs, dec_runs r with Some o, Some t => Some (InRun o :: t) | _, _ => None end
  | _ => None
  end.
Definition is1 (a : list N) : bool := list_N_eqb a (codes "1").

Definition run_sexp (e : sexp) : sexp :=
  match e with
  | SList [k; SList args; Atom st; Atom p; Atom c; Atom q; SList runs] =>
      if atom_is "cmd" k then
        match hexs args, parse_Z st, dec_runs runs with
        | Some a, Some s, Some ins =>
            let w := {| w_colors_ok := true; w_argjson_ok := true; w_slurpfile_ok := true; w_rawfile_ok := true;
                        w_jsonargs_ok := true; w_queryfile_ok := is1 q; w_parse_ok := is1 p; w_compile_ok := is1 c;
                        w_inputs := ins |} in
            let m := command a w in
            if m =? s then A "ok" else SList [A "bad"; Atom (print_Z m)]
        | _, _, _ => A "undecodable"
        end
      else A "undecodable"
  | _ => A "undecodable"
  end.

Definition run_line (l : list N) : list N :=
  match parse_fast l with Some e => print (run_sexp e) | None => codes "unparsable" end.
