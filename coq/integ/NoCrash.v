(* INTEGRATION (C08): the per-stage "never a Go panic" theorems of the independent developments, put side by side
   as one record of stage interfaces, with what is ASSUMED at every seam between two stages said explicitly.

     query bytes --Lex (C09 model c09/Lexer.v)--> token kinds --[seam 1]--> goyacc driver (C08 model c08/LR.v)
       --[seam 2: semantic actions, Compile, VM: NOT MODELLED HERE]--> natives (C03 model c03/Dispatch.v)
       --[seam 3]--> encoder (C12 model c12/Encode.v, slicing model c08/Preview.v)          command line: c08/Flags.v

   The stage theorems are used as they are (C08_lex_total = LexProofs.lex_total, parse_driver_total, flags_total,
   dispatch_total, decode_encode, enc_string_total, ...).  No glue code is modelled in this file except the
   function [tk_code] below (the Go expression `int(ch)` / the token constant / eof = -1 that Lex returns).

   SEAMS
   1  lexer -> driver.
      * Token alphabets.  The lexer model returns [tk] = KEOF | KChar c | KTok "name"; the driver model reads Go ints.
        The numbers of the named tokens are the constants `const tokAltOp = 57346 ...` of parser.go, which no
        translator brings into Coq: they are the PARAMETER [tok_num] of the statements below, universally
        quantified — the conclusions hold for every numbering, in particular the real one.  This is sound and not
        vacuous because parse_driver_total quantifies over ALL integer sequences: [code_in_token_range] shows
        that for every token kind and every numbering yylex1 succeeds and lands in [all_tokens the_tables], the
        token set the finite check [closed] was run over.  (With the real numbering the named tokens fall in the
        yyTok2 window; a wrong numbering would make the driver reject, never crash.)
      * Interleaving.  The real parser calls Lex on demand and between two calls may set l.inString (the one
        feedback of the grammar).  The lexer theorem is for EVERY feedback function F that leaves the position
        alone and every feedback state; the driver theorem is for the whole list of results handed over at once.
        Since the driver model consumes its input strictly left to right through [lexcall] (one element per Lex call,
        -1 when exhausted, which is what the real lexer keeps returning at end of input), running it on the list the
        lexer produces under the real F is the real interleaved run, as long as F is a function of the tokens
        returned so far (it is: the parser is deterministic).  This argument is NOT formalised: there is no model of
        the semantic action that sets inString, so F stays universally quantified.
      * ParseError.Offset.  The lexer side (every token carries Offset <= len src and Token = bytes of src ending at
        Offset) is in the statement; that the driver reports the offset of the Lex call numbered [errat] is the
        `lr` correspondence stream of checks/c08.py, not a theorem.
   2  driver -> natives.  The semantic actions (type assertions `yyDollar[i].value.(T)`), the compiler and the VM are
      not modelled in c08/c03/c12 (coq/c01vm has a VM model with its own value type and a fragment of the language).
      ASSUMED: the VM calls a native only with an argument count its table entry accepts ([arity_ok]; the compiler
      checks the count against the same table) and with an input free of the delpaths-internal placeholder
      ([hole_free]).  The crash-search stream of checks/c08.py covers this seam on the implementation.
   3  natives/VM -> encoder.  ASSUMED: emitted values are [wfv] (strings are byte strings, json.Number texts are RFC 8259
      literals, which the JSON reader guarantees).  The value types of c03 ([JV.jv], Flocq floats) and c12
      ([Encode.value], bit patterns) are different inductive types; no translation between them is proved.
      Two models of encodeString exist (c08/Preview.v index/slice-level with explicit Panic, c12/Encode.v list-level);
      they ARE proved equal on every byte string in integ/EncodeStringAgree.v ([enc_string_agree], restated in
      props/C08b.v), so the slicing-safety statement and the C12 output statements are about the same function. *)
From Coq Require Import List ZArith NArith Bool String Lia.
From Verif Require common.Sexp gen.GenTables gen.GenFlagTable.
From Verif Require c09.Lexer c09.LexProofs.
From Verif Require c08.LR c08.LRCheck c08.LRProofs c08.LRInstance c08.Flags c08.FlagsProofs c08.Utf8Dec c08.Preview c08.PreviewProofs.
From Verif Require c03.JV c03.Core c03.Natives c03.Dispatch c03.Wf c03.NoPanic3 c03.DispatchTotal.
From Verif Require c12.JsonRef c12.Encode c12.NumProofs c12.ValueProofs c12.DecodeProofs.
Import ListNotations.

(* ---------- seam 1: what Lex returns, as the Go int the driver reads ---------- *)
Definition tk_code (tok_num : string -> Z) (k : Lexer.tk) : Z :=
  match k with
  | Lexer.KEOF => (-1)%Z                 (* const eof = -1 *)
  | Lexer.KChar c => Z.of_N c            (* int(ch) *)
  | Lexer.KTok name => tok_num name      (* the goyacc token constant *)
  end.

(* every code the lexer model can hand over — under any numbering of the named tokens — is mapped by yylex1, without
   an out-of-range table access, to a token number of the set the driver's finite check ranges over *)
Lemma code_in_token_range : forall tok_num k,
  exists t, LR.yylex1 LR.the_tables (tk_code tok_num k) = LR.Ok t /\ In t (LRCheck.all_tokens LR.the_tables).
Proof.
  intros tok_num k.
  exact (LRProofs.yylex1_ok LR.the_tables LRInstance.E_real LRInstance.MD_real LRInstance.closed_real (tk_code tok_num k)).
Qed.

(* the end-of-input kinds of the lexer model are exactly the codes yylex1 treats as end of input (char <= 0) *)
Lemma is_end_code : forall tok_num k, Lexer.is_end k = true -> (tk_code tok_num k <= 0)%Z.
Proof.
  intros tok_num [|c|n] H; cbn [tk_code Lexer.is_end] in *.
  - lia.
  - apply N.eqb_eq in H. subst c. cbn. lia.
  - discriminate H.
Qed.

(* ---------- stages 1+2: any byte string, any parser feedback: lexing returns, the driver never panics ---------- *)
Definition lex_parse_no_panic (tok_num : string -> Z) : Prop :=
  forall (S0 : Type) (F : Lexer.tk -> S0 -> Lexer.lexer -> S0 * Lexer.lexer) (st : S0),
  (forall k s l, Lexer.lp (snd (F k s l)) = Lexer.lp l) ->
  forall src : list N, exists ts : list Lexer.ltok,
    (* the lexer returns within len(src)+1 calls, no out-of-range access *)
    Lexer.lex_with S0 F (S (List.length src)) (Lexer.newLexer src) st = Some ts /\
    (* offsets / error tokens usable for a ParseError *)
    Forall (fun t => (Lexer.tend t <= List.length src)%nat /\ (fst (Lexer.terr t) <= List.length src)%nat /\
                     exists pre, firstn (fst (Lexer.terr t)) src = pre ++ snd (Lexer.terr t)) ts /\
    (* the stream ends with exactly one end-of-input token, whose code yylex1 reads as end of input *)
    (exists ts' t, ts = ts' ++ [t] /\ Lexer.is_end (Lexer.tkind t) = true /\ (tk_code tok_num (Lexer.tkind t) <= 0)%Z /\
                   Forall (fun x => Lexer.is_end (Lexer.tkind x) = false) ts') /\
    (* every token is in the driver's token range *)
    Forall (fun t => exists y, LR.yylex1 LR.the_tables (tk_code tok_num (Lexer.tkind t)) = LR.Ok y /\
                               In y (LRCheck.all_tokens LR.the_tables)) ts /\
    (* and the driver over the tables of the current parser.go, fed these codes, never reaches a Panic site,
       for any number of rounds *)
    forall (fuel site : nat),
      LR.run LR.the_tables fuel (LR.init (map (fun t => tk_code tok_num (Lexer.tkind t)) ts)) <> LR.OPanic site.

Theorem lex_then_parse : forall tok_num, lex_parse_no_panic tok_num.
Proof.
  intros tok_num S0 F st HF src.
  destruct (LexProofs.lex_total S0 F st HF src) as (ts & Hlex & Hok & ts' & t & Hsplit & Hend & Hnot).
  exists ts. split; [exact Hlex|]. split.
  { eapply Forall_impl; [|exact Hok]. intros a (H1 & H2 & H3). split; [exact H1|]. split; [exact H2|exact H3]. }
  split.
  { exists ts', t. split; [exact Hsplit|]. split; [exact Hend|]. split; [apply is_end_code; exact Hend|exact Hnot]. }
  split.
  { apply Forall_forall. intros x _. apply code_in_token_range. }
  intros fuel site. apply LRInstance.parse_driver_total.
Qed.

(* ---------- the record of stage interfaces ---------- *)
Record pipeline_no_panic (tok_num : string -> Z) : Prop := {
  (* query text -> tokens -> LR driver (seam 1 inside) *)
  pn_lex_parse : lex_parse_no_panic tok_num;
  (* command line -> options: parseFlags returns the remaining arguments or a usage error *)
  pn_flags : forall args : list Flags.bytes,
    match Flags.parse_flags GenFlagTable.flag_table args with
    | Flags.FOk _ _ | Flags.FErr _ => True | Flags.FPanic _ | Flags.FFuel => False end;
  (* natives: for all oracles (strconv, libm, encoding/json), every modelled native called as seam 2 assumes
     returns a value or an error value, never a panic *)
  pn_natives : forall pf ff l1 l2 l3 jd lp fuel name v args o,
    Wf.hole_free v = true -> NoPanic3.arity_ok name (List.length args) = true ->
    Dispatch.call_native pf ff l1 l2 l3 jd lp fuel name v args = Some o -> Wf.np o;
  (* error messages: typeErrorPreview / Preview never slice out of range (UTF-8 decoders: the executable ones) *)
  pn_preview : forall isnil tyname t ops, exists out,
    Preview.type_error_preview Utf8Dec.decode_last_rune isnil tyname t ops = LR.Ok out;
  (* encoder, slicing level: the start/i loop of encodeString and the exponent clean-up stay in range and end *)
  pn_encode_string : forall s : Flags.bytes, exists out, Preview.enc_string Utf8Dec.decode_rune s = LR.Ok out;
  pn_encode_cleanup : forall buf : Flags.bytes, exists out, Preview.clean_exp buf = LR.Ok out;
  (* encoder, value level (seam 3): every well-formed value is encoded (the model is a total function) to a text
     the reference RFC 8259 reader accepts as a whole — under the shape hypothesis on strconv.AppendFloat *)
  pn_encode_value : forall fmt_float : N -> bool -> Encode.fnum,
    (forall f e, NumProofs.finite f -> Encode.fnum_shape e (fmt_float f e) = true) ->
    forall v, ValueProofs.wfv v -> exists j, JsonRef.json_decode (Encode.encode fmt_float v) = Some j
}.

Theorem pipeline_never_panics : forall tok_num, pipeline_no_panic tok_num.
Proof.
  intros tok_num. constructor.
  - apply lex_then_parse.
  - exact FlagsProofs.flags_total.
  - exact DispatchTotal.dispatch_total.
  - intros isnil tyname t ops.
    exact (PreviewProofs.type_error_preview_total Utf8Dec.decode_last_rune Utf8Dec.decode_rune
             PreviewProofs.decode_last_rune_bound PreviewProofs.decode_rune_bound isnil tyname t ops).
  - intros s.
    exact (PreviewProofs.enc_string_total Utf8Dec.decode_last_rune Utf8Dec.decode_rune
             PreviewProofs.decode_last_rune_bound PreviewProofs.decode_rune_bound s).
  - exact PreviewProofs.clean_exp_total.
  - intros fmt_float Hs v Hv. eexists. apply (DecodeProofs.decode_encode fmt_float Hs v Hv).
Qed.
