(* INTEGRATION (C15 with C12): the two models of what the command prints for one value agree.

     c15/Cli.v        [render] = [reindent] applied to the COMPACT text gojq.Marshal v (a layout pass over bytes),
                      [marshal] (rawMarshaler), and [terminator] written by the run loop [print_values]
     c12/CliEncode.v  [cli_marshal] (the stateful encoder; pure form [pp], CliPure.c_encode_pp), and
                      [cli_print] = createMarshaler + rawMarshaler + the terminator of printValues

   Both models put the terminator in the run loop (after marshal), not in the encoder.
   Theorems: [reindent_pp]  reindent (encode v) = pp  for every well-formed value and every indenting layout;
             [render_agree] C15 render = C12 cli_marshal for the options of any flags without colour;
             [print_agree]  C15 marshal ++ terminator = C12 cli_print (raw modes, NUL refusal, terminators).
   C15 does not model colour: the agreement is for -M (monochrome); with colour C12's modes_agree applies. *)
From Coq Require Import List NArith ZArith Bool Lia ZifyN ZifyNat ZifyBool.
From Verif Require c15.Cli.
From Verif Require Import common.Sexp c12.Utf8 c12.JsonRef c12.Encode c12.CliEncode c12.CliPure
  c12.Utf8Proofs c12.StrProofs c12.NumProofs c12.ValueProofs c12.IndentProofs c12.DecodeProofs c12.RawProofs.
Import ListNotations.
Open Scope N_scope.

Notation reindent := Cli.reindent.

(* bytes the layout pass copies: not a quote, bracket, comma or colon *)
Definition layc (b : N) : bool :=
  negb (b =? 34) && negb (Cli.is_open b) && negb (Cli.is_close b) && negb (b =? 44) && negb (b =? 58).

Section Layout.
Variable U : list N.

Lemma re_eq c r lvl : reindent U (c :: r) false false lvl =
  if (c =? 34)%N then c :: reindent U r true false lvl
  else if Cli.is_open c then
    match r with
    | d :: r' =>
        if Cli.is_close d then c :: d :: reindent U r' false false lvl
        else c :: Cli.newline_indent U (S lvl) ++ reindent U r false false (S lvl)
    | [] => [c]
    end
  else if Cli.is_close c then Cli.newline_indent U (pred lvl) ++ c :: reindent U r false false (pred lvl)
  else if (c =? 44)%N then c :: Cli.newline_indent U lvl ++ reindent U r false false lvl
  else if (c =? 58)%N then c :: 32%N :: reindent U r false false lvl
  else c :: reindent U r false false lvl.
Proof. reflexivity. Qed.

Lemma re_open lvl op d r : Cli.is_open op = true -> Cli.is_close d = false ->
  reindent U (op :: d :: r) false false lvl = op :: Cli.newline_indent U (S lvl) ++ reindent U (d :: r) false false (S lvl).
Proof.
  intros Hop Hd. rewrite re_eq. replace (op =? 34) with false by (unfold Cli.is_open in Hop; lia). rewrite Hop, Hd. reflexivity.
Qed.
Lemma re_empty lvl op cl r : Cli.is_open op = true -> Cli.is_close cl = true ->
  reindent U (op :: cl :: r) false false lvl = op :: cl :: reindent U r false false lvl.
Proof.
  intros Hop Hd. rewrite re_eq. replace (op =? 34) with false by (unfold Cli.is_open in Hop; lia). rewrite Hop, Hd. reflexivity.
Qed.
Lemma re_close lvl cl r : Cli.is_close cl = true ->
  reindent U (cl :: r) false false lvl = Cli.newline_indent U (pred lvl) ++ cl :: reindent U r false false (pred lvl).
Proof.
  intros Hcl. rewrite re_eq. replace (cl =? 34) with false by (unfold Cli.is_close in Hcl; lia).
  replace (Cli.is_open cl) with false by (unfold Cli.is_close, Cli.is_open in *; lia). rewrite Hcl. reflexivity.
Qed.
Lemma re_comma lvl r : reindent U (44 :: r) false false lvl = 44 :: Cli.newline_indent U lvl ++ reindent U r false false lvl.
Proof. rewrite re_eq. reflexivity. Qed.
Lemma re_colon lvl r : reindent U (58 :: r) false false lvl = 58 :: 32 :: reindent U r false false lvl.
Proof. rewrite re_eq. reflexivity. Qed.

Lemma re_ord1 lvl b rest : layc b = true -> reindent U (b :: rest) false false lvl = b :: reindent U rest false false lvl.
Proof.
  unfold layc. rewrite !andb_true_iff, !negb_true_iff. intros [[[[H1 H2] H3] H4] H5].
  cbn [Cli.reindent]. rewrite H1, H2, H3, H4, H5. reflexivity.
Qed.
Lemma re_ord lvl bs rest : forallb layc bs = true ->
  reindent U (bs ++ rest) false false lvl = bs ++ reindent U rest false false lvl.
Proof.
  induction bs as [|b bs IH]; [reflexivity|]. cbn [forallb app]. intros H. apply andb_true_iff in H. destruct H as [Hb Hbs].
  rewrite re_ord1 by assumption. rewrite IH by assumption. reflexivity.
Qed.

Lemma re_str lvl body rest : str_chars body ->
  reindent U (body ++ 34 :: rest) true false lvl = body ++ 34 :: reindent U rest false false lvl.
Proof.
  induction 1 as [|b l H1 H2 H3 Hl IH|c l Hc Hl IH|a b c d l Ha Hb Hc Hd Hl IH]; cbn [app].
  - reflexivity.
  - cbn [Cli.reindent]. replace (b =? 92) with false by (symmetry; apply N.eqb_neq; lia).
    replace (b =? 34) with false by (symmetry; apply N.eqb_neq; lia). rewrite IH. reflexivity.
  - cbn [Cli.reindent N.eqb Pos.eqb]. rewrite IH. reflexivity.
  - assert (Hx : forall x, is_hex x = true -> (x =? 34) = false /\ (x =? 92) = false).
    { intros x Hx. unfold is_hex, hexv in Hx.
      destruct ((48 <=? x) && (x <=? 57)) eqn:E1; [lia|].
      destruct ((97 <=? x) && (x <=? 102)) eqn:E2; [lia|].
      destruct ((65 <=? x) && (x <=? 70)) eqn:E3; [lia|discriminate]. }
    destruct (Hx a Ha) as [A1 A2], (Hx b Hb) as [B1 B2], (Hx c Hc) as [C1 C2], (Hx d Hd) as [D1 D2].
    cbn [Cli.reindent N.eqb Pos.eqb]. rewrite A1, A2, B1, B2, C1, C2, D1, D2, IH. reflexivity.
Qed.

Lemma re_string lvl s rest : bytes s ->
  reindent U (encode_string s ++ rest) false false lvl = encode_string s ++ reindent U rest false false lvl.
Proof.
  intros Hb. destruct (encode_string_literal s Hb) as (body & E & Hc). rewrite E.
  cbn [app Cli.reindent N.eqb Pos.eqb]. rewrite <- app_assoc. cbn [app]. rewrite re_str by assumption.
  rewrite <- app_assoc. reflexivity.
Qed.
End Layout.

Lemma numc_layc bs : forallb numc bs = true -> forallb layc bs = true.
Proof.
  induction bs as [|b bs IH]; [reflexivity|]. cbn [forallb]. intros H. apply andb_true_iff in H. destruct H as [Hb Hbs].
  rewrite IH by assumption. rewrite andb_true_r. unfold numc, layc, Cli.is_open, Cli.is_close, is_digit in *. lia.
Qed.

Lemma rep_unit_repeat ub k lvl : Cli.rep_unit (repeat ub k) lvl = repeat ub (lvl * k).
Proof. induction lvl as [|n IH]; [reflexivity|]. cbn [Cli.rep_unit Nat.mul]. rewrite IH, repeat_app_n. reflexivity. Qed.

(* without indentation the command's plain text is the library encoder's *)
Lemma pp_noindent fmt o : indenting o = false -> forall v d, pp fmt (plain_opts o) d v = encode fmt v.
Proof.
  intros Hi.
  assert (Hnl : forall d, nl (plain_opts o) d = []) by (intros d; unfold nl; change (indenting (plain_opts o)) with (indenting o); rewrite Hi; reflexivity).
  assert (Hsp : sp (plain_opts o) = []) by (unfold sp; change (indenting (plain_opts o)) with (indenting o); rewrite Hi; reflexivity).
  induction v using value_ind'; intros d; cbn [pp encode]; rewrite ?col_plain.
  - reflexivity.
  - destruct b; rewrite ?col_plain; reflexivity.
  - reflexivity.
  - reflexivity.
  - destruct (is_nan f) eqn:E; rewrite ?col_plain; [unfold encode_float; rewrite E|]; reflexivity.
  - reflexivity.
  - reflexivity.
  - cbn [app]. f_equal. rewrite join_comma_items, !Hnl.
    replace (match l with [] => [] | _ :: _ => [] end) with (@nil N) by (destruct l; reflexivity). cbn [app].
    f_equal. f_equal. apply map_ext_in. intros x Hx. rewrite Forall_forall in H. apply H, Hx.
  - cbn [app]. f_equal. rewrite join_comma_items, !Hnl.
    replace (match m with [] => [] | _ :: _ => [] end) with (@nil N) by (destruct m; reflexivity). cbn [app].
    f_equal. f_equal. rewrite !sort_map_snd, !map_map. apply map_ext_in. intros kv Hkv. apply sort_in in Hkv.
    unfold member. cbn [fst snd]. rewrite !col_plain, Hsp. cbn [app]. rewrite Forall_forall in H. rewrite (H kv Hkv). reflexivity.
Qed.

Section Values.
Variable fmt_float : N -> bool -> fnum.
Hypothesis fmt_shape : forall f e, finite f -> fnum_shape e (fmt_float f e) = true.
Variable o : copts.
Hypothesis Hind : indenting o = true.

Notation ind := (Z.to_nat (o_indent o)).
Notation U := (repeat (unit_byte o) (Z.to_nat (o_indent o))).
Notation ppp := (pp fmt_float (plain_opts o)).
Notation enc := (encode fmt_float).
Notation nlp := (nl (plain_opts o)).

Lemma newline_nl lvl dz : Z.to_nat dz = (lvl * ind)%nat -> Cli.newline_indent U lvl = nlp dz.
Proof.
  intros Hd. unfold Cli.newline_indent. rewrite rep_unit_repeat, <- Hd.
  unfold nl. change (indenting (plain_opts o)) with (indenting o). rewrite Hind. reflexivity.
Qed.

(* the head of a value's compact text is not a closing bracket *)
Lemma enc_head v : wfv v -> exists c r, enc v = c :: r /\ Cli.is_close c = false.
Proof.
  intros Hwf. rewrite <- (pp_compact fmt_float v 0%Z).
  destruct (pp_head fmt_float fmt_shape compact_opts v 0%Z Hwf) as (c & r & E & _ & Hc).
  exists c, r. split; [exact E|exact Hc].
Qed.

Definition re_ok (v : value) : Prop :=
  forall lvl dz rest, (0 <= dz)%Z -> Z.to_nat dz = (lvl * ind)%nat ->
  reindent U (enc v ++ rest) false false lvl = ppp dz v ++ reindent U rest false false lvl.

(* compact items in tail form: , x , x ... close rest *)
Fixpoint ctail (cl : N) (xs : list (list N)) (rest : list N) : list N :=
  match xs with
  | [] => cl :: rest
  | x :: r => 44 :: x ++ ctail cl r rest
  end.
Lemma join_ctail cl x xs rest : join_comma (x :: xs) ++ cl :: rest = x ++ ctail cl xs rest.
Proof.
  revert x. induction xs as [|y ys IH]; intros x; [reflexivity|].
  change (join_comma (x :: y :: ys)) with (x ++ 44 :: join_comma (y :: ys)). cbn [ctail].
  rewrite <- app_assoc. cbn [app]. rewrite IH. reflexivity.
Qed.

(* items: each compact item c_i is laid out as p_i (at level S lvl), then the closing bracket *)
Lemma re_items lvl dz cl rest : (0 <= dz)%Z -> Z.to_nat dz = (lvl * ind)%nat -> Cli.is_close cl = true ->
  forall cps : list (list N * list N),
  Forall (fun cp => forall rest', reindent U (fst cp ++ rest') false false (S lvl) = snd cp ++ reindent U rest' false false (S lvl)) cps ->
  reindent U (ctail cl (map fst cps) rest) false false (S lvl)
  = items_tail [44] (nlp (dz + o_indent o)) (nlp dz ++ cl :: reindent U rest false false lvl) (map snd cps).
Proof.
  intros H0 Hd Hcl cps H. unfold indenting in Hind.
  assert (Hd' : Z.to_nat (dz + o_indent o) = (S lvl * ind)%nat) by (rewrite Z2Nat.inj_add by lia; lia).
  induction H as [|[c p] cps Hc Hcs IH]; cbn [map ctail items_tail fst snd].
  - rewrite re_close by assumption. cbn [pred]. rewrite (newline_nl lvl dz Hd). reflexivity.
  - rewrite re_comma. rewrite (newline_nl (S lvl) (dz + o_indent o)%Z Hd'). cbn [fst snd] in Hc. rewrite Hc, IH.
    cbn [app]. rewrite <- ?app_assoc. reflexivity.
Qed.

Lemma re_container lvl dz op cl rest : (0 <= dz)%Z -> Z.to_nat dz = (lvl * ind)%nat ->
  Cli.is_open op = true -> Cli.is_close cl = true ->
  forall cps : list (list N * list N),
  Forall (fun cp => (exists c r, fst cp = c :: r /\ Cli.is_close c = false) /\
                    forall rest', reindent U (fst cp ++ rest') false false (S lvl) = snd cp ++ reindent U rest' false false (S lvl)) cps ->
  reindent U ((op :: join_comma (map fst cps) ++ [cl]) ++ rest) false false lvl
  = ([op] ++ pp_items [44] (nlp (dz + o_indent o)) true (map snd cps)
       ++ (match cps with [] => [] | _ => nlp dz end) ++ [cl]) ++ reindent U rest false false lvl.
Proof.
  intros H0 Hd Hop Hcl cps H. unfold indenting in Hind.
  assert (Hd' : Z.to_nat (dz + o_indent o) = (S lvl * ind)%nat) by (rewrite Z2Nat.inj_add by lia; lia).
  assert (E1 : (op =? 34) = false) by (unfold Cli.is_open in Hop; lia).
  destruct cps as [|[c p] cps].
  - cbn [map join_comma app pp_items]. rewrite re_empty by assumption. reflexivity.
  - inversion H as [|? ? Hhd Hcs]. clear H. cbn [fst snd] in Hhd. destruct Hhd as [(c0 & r0 & Ec & Hc0) Hc].
    cbn [map fst snd].
    assert (Et : (op :: join_comma (c :: map fst cps) ++ [cl]) ++ rest = op :: c ++ ctail cl (map fst cps) rest).
    { cbn [app]. f_equal. rewrite <- app_assoc. cbn [app]. apply join_ctail. }
    rewrite Et, Ec. cbn [app]. rewrite re_open by assumption.
    change (c0 :: r0 ++ ?T) with ((c0 :: r0) ++ T). rewrite <- Ec.
    rewrite (newline_nl (S lvl) (dz + o_indent o)%Z Hd'), Hc.
    rewrite (re_items lvl dz cl rest H0 Hd Hcl cps).
    + rewrite <- (pp_items_true [44] (nlp (dz + o_indent o)) p (map snd cps)). cbn [app]. rewrite <- ?app_assoc. reflexivity.
    + eapply Forall_impl; [|exact Hcs]. cbn beta. intros a Ha. apply Ha.
Qed.

Theorem reindent_pp : forall v, wfv v -> re_ok v.
Proof.
  induction v using value_ind'; intros Hwf lvl dz rest H0 Hd; cbn [pp encode]; rewrite ?col_plain.
  - apply re_ord. reflexivity.
  - destruct b; rewrite ?col_plain; apply re_ord; reflexivity.
  - apply re_ord, numc_layc, print_Z_numc.
  - apply re_ord, numc_layc, print_Z_numc.
  - destruct (is_nan f) eqn:E; rewrite ?col_plain.
    + replace (encode_float fmt_float f) with txt_null by (unfold encode_float; rewrite E; reflexivity).
      apply re_ord. reflexivity.
    + apply re_ord, numc_layc, literal_numc, encode_float_literal; assumption.
  - inversion Hwf; subst. apply re_ord, numc_layc, literal_numc. assumption.
  - inversion Hwf; subst. apply re_string. assumption.
  - inversion Hwf as [| | | | | | |l' Hl|]; subst. unfold indenting in Hind.
    pose proof (re_container lvl dz 91 93 rest H0 Hd eq_refl eq_refl
                  (map (fun x => (enc x, ppp (dz + o_indent o) x)) l)) as P.
    rewrite !map_map in P. cbn [fst snd] in P.
    replace (match map (fun x => (enc x, ppp (dz + o_indent o) x)) l with [] => [] | _ :: _ => nlp dz end)
      with (match l with [] => [] | _ :: _ => nlp dz end) in P by (destruct l; reflexivity).
    cbn [app] in P. cbn [app]. rewrite <- !app_assoc in *. cbn [app] in *. apply P. clear P.
    rewrite Forall_forall in *. intros cp Hcp. apply in_map_iff in Hcp. destruct Hcp as (x & <- & Hx). cbn [fst snd].
    split; [apply enc_head, Hl, Hx|]. intros rest'. apply H; [exact Hx|apply Hl, Hx|lia|].
    rewrite Z2Nat.inj_add by lia. lia.
  - inversion Hwf as [| | | | | | | |m' Hm]; subst. unfold indenting in Hind.
    rewrite !sort_map_snd, !map_map.
    pose proof (re_container lvl dz 123 125 rest H0 Hd eq_refl eq_refl
                  (map (fun kv => (encode_string (fst kv) ++ 58 :: enc (snd kv),
                                   member (plain_opts o) (fst kv, ppp (dz + o_indent o) (snd kv)))) (sort_kvs m))) as P.
    rewrite !map_map in P. cbn [fst snd] in P.
    replace (match map (fun kv => (encode_string (fst kv) ++ 58 :: enc (snd kv),
                                   member (plain_opts o) (fst kv, ppp (dz + o_indent o) (snd kv)))) (sort_kvs m)
             with [] => [] | _ :: _ => nlp dz end)
      with (match m with [] => [] | _ :: _ => nlp dz end) in P.
    2:{ destruct m as [|kv m]; [reflexivity|]. destruct (sort_kvs (kv :: m)) eqn:E; [exfalso; exact (sort_nonempty _ _ E)|reflexivity]. }
    cbn [app] in P. cbn [app]. rewrite <- !app_assoc in *. cbn [app] in *. apply P. clear P.
    rewrite Forall_forall. intros cp Hcp. apply in_map_iff in Hcp. destruct Hcp as (kv & <- & Hkv). cbn [fst snd].
    apply sort_in in Hkv. rewrite Forall_forall in H, Hm. destruct (Hm kv Hkv) as [Hk Hv].
    split; [unfold encode_string; cbn [app]; eexists _, _; split; reflexivity|].
    intros rest'. unfold member. cbn [fst snd]. rewrite !col_plain, <- !app_assoc. rewrite re_string by assumption.
    cbn [app]. rewrite re_colon.
    unfold sp. change (indenting (plain_opts o)) with (0 <=? o_indent o)%Z. rewrite Hind. cbn [app].
    f_equal. f_equal. f_equal. apply H; [exact Hkv|exact Hv|lia|]. rewrite Z2Nat.inj_add by lia. lia.
Qed.
End Values.

(* ---------- the two whole-value models ---------- *)
Definition kind15 (v : value) : Cli.vkind :=
  match v with VNull => Cli.KNull | VBool false => Cli.KFalse | VStr s => Cli.KStr s | _ => Cli.KOther end.
(* the C15 view of a value: its kind and gojq.Marshal's text *)
Definition to15 (fmt : N -> bool -> fnum) (v : value) : Cli.value := Cli.mkV (kind15 v) (encode fmt v).
(* the C15 options of C12 flags (the last three C15 options do not concern rendering) *)
Definition opts15 (f : flags) (ex nu sl : bool) : Cli.opts :=
  Cli.mkO (f_raw f) (f_raw0 f) (f_join f) (f_compact f) (f_tab f) (option_map Z.to_nat (f_indent f)) ex nu sl.

Lemma plain_id o : o_nocolor o = true -> plain_opts o = o.
Proof. destruct o; cbn. intros ->. reflexivity. Qed.

Lemma has_nul_eq s : Cli.has_nul s = contains_nul s.
Proof. unfold Cli.has_nul, contains_nul. induction s as [|c s IH]; [reflexivity|]. cbn [existsb]. rewrite IH, N.eqb_sym. reflexivity. Qed.

Section Agree.
Variable fmt_float : N -> bool -> fnum.
Hypothesis fmt_shape : forall f e, finite f -> fnum_shape e (fmt_float f e) = true.

(* C15's layout pass over gojq.Marshal's text = C12's encoder, for every flag combination without colour *)
Theorem render_agree f ex nu sl v tbl : f_color f = false ->
  (forall z, f_indent f = Some z -> (0 <= z)%Z) -> wfv v ->
  Cli.render (opts15 f ex nu sl) (to15 fmt_float v) = cli_marshal fmt_float (opts_of f tbl) v.
Proof.
  intros Hc Hi Hwf. rewrite cli_marshal_pp.
  assert (Hn : o_nocolor (opts_of f tbl) = true) by (cbn; rewrite Hc; reflexivity).
  rewrite <- (plain_id _ Hn).
  unfold Cli.render, Cli.indent_unit, opts15. cbn [Cli.o_compact Cli.o_tab Cli.o_indent to15 Cli.v_json].
  destruct (f_compact f) eqn:Ec.
  - symmetry. apply pp_noindent. unfold indenting, opts_of, resolve_indent. cbn. rewrite Ec. reflexivity.
  - assert (Hind : indenting (opts_of f tbl) = true).
    { unfold indenting, opts_of, resolve_indent. cbn. rewrite Ec. destruct (f_tab f); [reflexivity|].
      destruct (f_indent f) as [z|] eqn:Ez; [apply Z.leb_le, Hi; reflexivity|reflexivity]. }
    pose proof (reindent_pp fmt_float fmt_shape (opts_of f tbl) Hind v Hwf 0%nat 0%Z [] (Z.le_refl 0) eq_refl) as R.
    rewrite !app_nil_r in R. cbn [Cli.reindent] in R. rewrite ?app_nil_r in R. rewrite <- R. f_equal.
    unfold unit_byte, opts_of, resolve_indent. cbn. rewrite Ec. destruct (f_tab f); [reflexivity|].
    destruct (f_indent f); reflexivity.
Qed.

(* ... and rawMarshaler + the terminator of the run loop: what C15 appends to stdout for one value is what C12 prints *)
Theorem print_agree f ex nu sl v : f_color f = false ->
  (forall z, f_indent f = Some z -> (0 <= z)%Z) -> wfv v ->
  cli_print fmt_float f v =
  match Cli.marshal (opts15 f ex nu sl) (to15 fmt_float v) with
  | Some b => Out (b ++ Cli.terminator (opts15 f ex nu sl))
  | None => Err
  end.
Proof.
  intros Hc Hi Hwf. rewrite cli_print_eq.
  assert (Ht : table_of f = Some default_colors) by (unfold table_of; rewrite Hc; reflexivity). rewrite Ht.
  unfold Cli.marshal.
  change (Cli.terminator (opts15 f ex nu sl)) with (terminator f).
  change (Cli.rawmode (opts15 f ex nu sl)) with (rawmode f).
  pose proof (render_agree f ex nu sl v default_colors Hc Hi Hwf) as R.
  unfold to15 in *.
  destruct v as [| [|] | | | | |s| |]; cbn [kind15 Cli.v_kind] in *; try (do 2 f_equal; symmetry; exact R).
  destruct (rawmode f); [|do 2 f_equal; symmetry; exact R].
  cbn [opts15 Cli.o_raw0]. pose proof (has_nul_eq s) as Hn. destruct (f_raw0 f); cbn [andb]; [|reflexivity].
  rewrite Hn. destruct (contains_nul s); reflexivity.
Qed.
End Agree.
