(* INTEGRATION (C08 part D with C12): the two independent models of encoder.go encodeString compute the same bytes.

     c08/Preview.v  [enc_string]     index level: s, i, start as Go ints, every s[i] / s[a:b] / hex[k] a partial
                                     operation whose failure is [Panic site], fuel exhaustion a Panic; UTF-8 decoder
                                     c08/Utf8Dec.v (range tests)
     c12/Encode.v   [encode_string]  list level: pending segment and rest; UTF-8 decoder c12/Utf8.v (Go's table
                                     [first] / [acceptRanges] copied entry by entry)

   Theorem [enc_string_agree]: for every byte string s, enc_string Utf8Dec.decode_rune s = Ok (encode_string s).
   Consequences: the C08 statement "encodeString never slices out of range and terminates" and the C12 statements
   "the output is a JSON string literal, printable, valid UTF-8, reads back as sanitize s" are about the SAME
   function; a divergence of either model from encoder.go that the other model's stream would not see is excluded.
   Both decoders are related through Unicode Table 3-7 ([JsonRef.utf8_step]): [c08_dec_step] below and
   [Utf8Proofs.go_bad_spec] of C12 ([c08_dec_step] is in integ/DecoderAgree.v, a slow file). *)
From Coq Require Import List NArith ZArith Bool Lia.
From Verif Require common.Sexp c08.LR c08.Flags c08.FlagsProofs c08.Utf8Dec c08.Preview c08.PreviewProofs.
From Verif Require c12.Utf8 c12.JsonRef c12.Encode c12.Utf8Proofs.
From Verif Require Import integ.DecoderAgree.
Import ListNotations.
Open Scope N_scope.

(* the decision of encodeString after decoding, and the size, are the same in both models *)
Lemma decoders_agree : forall b r, 128 <= b -> b < 256 ->
  let '(valid, size) := Utf8Dec.decode_rune (b :: r) in
  (negb valid && Nat.eqb size 1) = Utf8Proofs.go_bad (b :: r) /\ size = snd (Utf8.decode_rune (b :: r)) /\
  (1 <= size <= length (b :: r))%nat.
Proof.
  intros b r Hlo Hhi. rewrite (c08_dec_step b r Hlo).
  pose proof (Utf8Proofs.go_bad_spec b r Hlo Hhi) as G.
  destruct (JsonRef.utf8_step (b :: r)) as [[cp n]|].
  - destruct G as (G1 & G2 & G3 & G4). rewrite G1, G2. cbn [negb andb]. repeat split; lia.
  - destruct G as (G1 & G2). rewrite G1, G2. cbn [length]. repeat split; lia.
Qed.

(* ---------- the escape switch ---------- *)
Lemma escape_agree : forall b, b < 128 -> Preview.escape b = LR.Ok (Encode.escape b).
Proof.
  intros b Hb. assert (E : b = N.of_nat (N.to_nat b)) by lia. rewrite E.
  assert (Hn : (N.to_nat b < 128)%nat) by lia. generalize dependent (N.to_nat b). clear.
  intros n _ Hn.
  do 128 (destruct n as [|n]; [vm_compute; reflexivity|]). lia.
Qed.

(* ---------- slices of a three-part string ---------- *)
Lemma slice_mid : forall (a b c : list N),
  Flags.slice (a ++ b ++ c) (Z.of_nat (length a)) (Z.of_nat (length a + length b)) = Some b.
Proof.
  intros a b c. rewrite PreviewProofs.slice_spec; [|lia|lia|unfold Flags.blen; rewrite !app_length; lia].
  f_equal. rewrite Nat2Z.id. replace (Z.to_nat (Z.of_nat (length a + length b) - Z.of_nat (length a))) with (length b) by lia.
  rewrite skipn_app, skipn_all, Nat.sub_diag. cbn [app skipn].
  rewrite firstn_app, firstn_all, Nat.sub_diag. cbn [firstn]. apply app_nil_r.
Qed.

Lemma slice_tail : forall (a c : list N),
  Flags.slice (a ++ c) (Z.of_nat (length a)) (Flags.blen (a ++ c)) = Some c.
Proof.
  intros a c. pose proof (slice_mid a c []) as H. rewrite app_nil_r in H.
  unfold Flags.blen. rewrite app_length. exact H.
Qed.

Lemma byte_at_mid : forall (a : list N) b c, Flags.byte_at (a ++ b :: c) (Z.of_nat (length a)) = Some b.
Proof.
  intros a b c. unfold Flags.byte_at. replace (Z.of_nat (length a) <? 0)%Z with false by lia.
  rewrite Nat2Z.id, nth_error_app2 by lia. rewrite Nat.sub_diag. reflexivity.
Qed.

Lemma flush_mid : forall (pre pend rest out : list N),
  Preview.flush (pre ++ pend ++ rest) (Z.of_nat (length pre)) (Z.of_nat (length pre + length pend)) out
  = LR.Ok (out ++ pend).
Proof.
  intros pre pend rest out. unfold Preview.flush.
  destruct (Z.ltb_spec (Z.of_nat (length pre)) (Z.of_nat (length pre + length pend))).
  - rewrite slice_mid. reflexivity.
  - destruct pend; [rewrite app_nil_r; reflexivity|cbn [length] in *; lia].
Qed.

(* ---------- the loops ---------- *)
Lemma loop_agree : forall fuel s pre pend rest i start out,
  s = pre ++ pend ++ rest -> i = Z.of_nat (length pre + length pend) -> start = Z.of_nat (length pre) ->
  Forall (fun b => b < 256) rest -> (length rest < fuel)%nat ->
  Preview.enc_loop Utf8Dec.decode_rune fuel s i start out = LR.Ok (out ++ Encode.es_loop fuel pend rest).
Proof.
  induction fuel as [|f IH]; intros s pre pend rest i start out Hs Hi Hst Hb Hf; [lia|].
  cbn [Preview.enc_loop Encode.es_loop].
  assert (Hlen : Flags.blen s = Z.of_nat (length pre + length pend + length rest)).
  { subst s. unfold Flags.blen. rewrite !app_length. lia. }
  destruct rest as [|b r].
  - (* end of the string: flush the pending segment, closing quote *)
    replace (i <? Flags.blen s)%Z with false by (cbn [length] in Hlen; lia).
    rewrite app_nil_r in Hs.
    destruct (Z.ltb_spec start (Flags.blen s)).
    + subst s start. rewrite slice_tail. cbn [LR.bind]. rewrite <- app_assoc. reflexivity.
    + assert (pend = []) by (destruct pend; [reflexivity|cbn [length] in *; lia]). subst pend.
      cbn [LR.bind app]. reflexivity.
  - replace (i <? Flags.blen s)%Z with true by (cbn [length] in Hlen; lia).
    assert (Hbyte : Flags.byte_at s i = Some b).
    { subst s i. rewrite app_assoc, <- app_length. apply byte_at_mid. }
    rewrite Hbyte. inversion Hb as [|? ? Hb256 Hbr]; subst.
    change (b <? Utf8.rune_self) with (b <? 128).
    change (Encode.verbatim b) with (Preview.printable b).
    destruct (N.ltb_spec b 128) as [Hlt|Hge].
    + destruct (Preview.printable b).
      * (* copied later with the pending segment *)
        apply (IH _ pre (pend ++ [b]) r); try assumption.
        -- rewrite <- !app_assoc. reflexivity.
        -- rewrite app_length. cbn [length]. lia.
        -- reflexivity.
        -- cbn [length] in Hf. lia.
      * (* escape *)
        rewrite flush_mid. cbn [LR.bind]. rewrite (escape_agree b Hlt). cbn [LR.bind].
        rewrite (IH _ (pre ++ pend ++ [b]) [] r); try assumption.
        -- rewrite <- !app_assoc. reflexivity.
        -- rewrite <- !app_assoc. reflexivity.
        -- rewrite !app_length. cbn [length]. lia.
        -- rewrite !app_length. cbn [length]. lia.
        -- cbn [length] in Hf. lia.
    + (* multi-byte or ill-formed *)
      assert (Hsl : Flags.slice (pre ++ pend ++ b :: r) (Z.of_nat (length pre + length pend))
                      (Flags.blen (pre ++ pend ++ b :: r)) = Some (b :: r)).
      { rewrite app_assoc, <- app_length. apply slice_tail. }
      rewrite Hsl.
      pose proof (decoders_agree b r Hge Hb256) as Hd.
      destruct (Utf8Dec.decode_rune (b :: r)) as [valid size]. destruct Hd as (Hd1 & Hd2 & Hd3).
      unfold Utf8Proofs.go_bad in Hd1. destruct (Utf8.decode_rune (b :: r)) as [c size'] eqn:Edec.
      cbn [snd] in Hd2. subst size'. rewrite Hd1.
      assert (Hsplit : b :: r = firstn size (b :: r) ++ skipn size (b :: r)) by (symmetry; apply firstn_skipn).
      assert (Hfl : length (firstn size (b :: r)) = size) by (apply firstn_length_le; lia).
      assert (Hbs : Forall (fun x => x < 256) (skipn size (b :: r))).
      { apply Forall_forall. intros x Hx. rewrite Forall_forall in Hb. apply Hb.
        rewrite Hsplit. apply in_or_app. right. exact Hx. }
      assert (Hsk : (length (skipn size (b :: r)) < f)%nat) by (rewrite skipn_length; cbn [length] in *; lia).
      destruct ((c =? Utf8.rune_error) && (size =? 1)%nat).
      * (* (RuneError, 1): backslash ufffd *)
        rewrite flush_mid. cbn [LR.bind].
        rewrite (IH _ (pre ++ pend ++ firstn size (b :: r)) [] (skipn size (b :: r))); try assumption.
        -- rewrite <- !app_assoc. reflexivity.
        -- rewrite <- !app_assoc. cbn [app]. rewrite <- Hsplit. reflexivity.
        -- rewrite !app_length, Hfl. cbn [length]. lia.
        -- rewrite !app_length, Hfl. lia.
      * apply (IH _ pre (pend ++ firstn size (b :: r)) (skipn size (b :: r))); try assumption.
        -- rewrite <- !app_assoc. rewrite <- Hsplit. reflexivity.
        -- rewrite app_length, Hfl. lia.
        -- reflexivity.
Qed.

Theorem enc_string_agree : forall s, Forall (fun b => b < 256) s ->
  Preview.enc_string Utf8Dec.decode_rune s = LR.Ok (Encode.encode_string s).
Proof.
  intros s Hb. unfold Preview.enc_string, Encode.encode_string.
  rewrite (loop_agree (S (length s)) s [] [] s 0%Z 0%Z [34]); try reflexivity; [assumption|lia].
Qed.
