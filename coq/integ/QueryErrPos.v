(* C17 x C09: where the command points for a rejected query.
   cli.queryParseError.Error() calls getLineByOffset(contents, e.Offset - len(e.Token) + 1) with the ParseError
   built by lexer.Error after the Lex call that delivered the rejected token.  The lexer model (C09: Lexer.v,
   theorem lex_offset, read-only here) says: Offset = the lexer offset <= len(source) and Token = the bytes of
   the source that end at Offset.  Composed with getLineByOffset's theorem (C17: ErrPosProofs.v): the reported
   line / excerpt / caret column are those of the FIRST BYTE of the rejected token — or of the end of the
   source when the token is empty there (unexpected EOF, unterminated string). *)
From Coq Require Import List ZArith NArith Bool Lia String.
From Verif Require Import common.Sexp c09.GrammarTypes c09.Lexer c09.LexProofs
  c17.ErrPos c17.Spec c17.ScanProofs c17.TrimProofs c17.ErrPosProofs.
Import ListNotations.
Open Scope Z_scope.

Section QueryErrPos.
Variable swidth : list N -> Z.

(* the report for a ParseError (Offset, Token) on contents src *)
Definition query_report (src : list N) (offset : nat) (token : list N) : list N * Z * Z :=
  getLineByOffset swidth src (Z.of_nat offset - zlen token + 1).

(* pure list fact: Token = the bytes ending at Offset *)
Lemma token_position : forall (src pre tok : list N) off, (off <= List.length src)%nat ->
  firstn off src = pre ++ tok ->
  List.length pre = (off - List.length tok)%nat /\ (List.length tok <= off)%nat /\
  firstn (List.length tok) (skipn (off - List.length tok) src) = tok.
Proof.
  intros src pre tok off Ho H.
  assert (L : List.length (firstn off src) = off) by (rewrite firstn_length; lia).
  rewrite H, app_length in L. split; [lia|]. split; [lia|].
  replace (off - List.length tok)%nat with (List.length pre) by lia.
  assert (S : skipn (List.length pre) (firstn off src) = tok) by (rewrite H; apply skipn_app_len).
  rewrite skipn_firstn_comm in S. replace (off - List.length pre)%nat with (List.length tok) in S by lia. exact S.
Qed.

Theorem query_error_position : forall (src : list N) (l : lexer), vp src (lp l) ->
  exists k l', Lex l = Some (k, l') /\
    let offset := fst (lex_error l') in
    let token := snd (lex_error l') in
    let start := (offset - List.length token)%nat in
    (* Offset/Token identify bytes of the source: the token occupies src[start : offset] *)
    (offset <= List.length src)%nat /\ (List.length token <= offset)%nat /\
    firstn (List.length token) (skipn start src) = token /\
    (* a non-empty token: the command points at its first byte *)
    (token <> [] -> pos_ok swidth src start (query_report src offset token)) /\
    (* an empty token before the end: at the byte at Offset; at the end: end-of-input report *)
    (token = [] -> (offset < List.length src)%nat -> pos_ok swidth src offset (query_report src offset token)) /\
    (token = [] -> offset = List.length src -> pos_ok_eof swidth src (query_report src offset token)).
Proof.
  intros src l V. destruct (lex_offset src l V) as (k & l' & A & B & C & D & E & F & pre & G).
  exists k, l'. split; [exact A|]. cbv zeta.
  set (offset := fst (lex_error l')) in *. set (token := snd (lex_error l')) in *.
  destruct (token_position src pre token offset F G) as (P1 & P2 & P3).
  split; [exact F|]. split; [exact P2|]. split; [exact P3|]. unfold query_report.
  split.
  { intros Hne. assert (0 < List.length token)%nat by (destruct token; [congruence|cbn; lia]).
    replace (Z.of_nat offset - zlen token + 1) with (Z.of_nat (offset - List.length token) + 1) by (unfold zlen; lia).
    apply glbo_in_range. lia. }
  split.
  { intros -> Hlt.
    replace (Z.of_nat offset - zlen [] + 1) with (Z.of_nat offset + 1) by (unfold zlen; cbn; lia).
    now apply glbo_in_range. }
  intros -> Heq. apply glbo_past_end. unfold zlen. cbn [List.length]. lia.
Qed.

(* what the renderer prints around that report: the caret stands [column] display cells to the right of the
   place where the quoted line starts *)
Lemma spaces_app : forall a b, 0 <= a -> 0 <= b -> spaces a ++ spaces b = spaces (a + b).
Proof.
  intros a b Ha Hb. unfold spaces. rewrite <- repeat_app. f_equal. lia.
Qed.

Theorem caret_under_column : forall (linestr : list N) (line column : Z), 0 <= column ->
  let prefix := codes "    " ++ print_Z line ++ codes " | " in
  formatLineInfo linestr line column =
  prefix ++ linestr ++ [10%N] ++ spaces (zlen prefix + column) ++ [94%N].
Proof.
  intros linestr line column Hc. cbv zeta. unfold formatLineInfo, pad_caret.
  rewrite <- !app_assoc. f_equal. f_equal. f_equal. f_equal. f_equal.
  change (codes "    ") with (spaces 4). rewrite !app_assoc. f_equal.
  pose proof (zlen_nonneg (print_Z line)).
  rewrite spaces_app by lia. f_equal.
  rewrite !zlen_app. change (zlen (spaces 4)) with 4. change (zlen (codes " | ")) with 3. lia.
Qed.

(* queryParseError.Error() is that report put through the renderer *)
Theorem query_header_is_report : forall fname src offset token,
  query_error_header swidth fname src (Some (Z.of_nat offset, zlen token)) =
  let '(linestr, line, column) := query_report src offset token in
  render (codes "invalid query: ") fname src
         (negb (list_N_eqb fname (codes "<arg>")) || containsNewline src) src linestr line column.
Proof. reflexivity. Qed.
End QueryErrPos.
