(* PathsObsProofs.v — `path(..)` and `paths` observed: the list of paths of the value, with and without the root. *)
From Coq Require Import String.
From Coq Require Import List ZArith NArith Bool Lia.
From Verif Require Import common.Sexp sem.JV sem.Syntax sem.Natives sem.Sem sem.SemProofs sem.PathSound sem.PathSoundProofs sem.StreamWfProofs.
From Verif Require Import sem.BuiltinLaws sem.BuiltinLawsProofs sem.BuiltinCalls sem.StreamLaws sem.StreamLawsProofs sem.StreamGen sem.StreamGenProofs
  sem.StreamObs sem.StreamObsProofs sem.PathsRoot sem.PathsRootProofs.
Import ListNotations.

Ltac st_red := unfold st_walk; cbn [outs nout cap nextid inputs cells repsens steps]; rewrite ?app_length, ?map_length; cbn [List.length].

Section Walk.
Variable kp : list jv -> M unit.
Variable c : nat.      (* budget the consumer spends per path *)
Hypothesis Hkp : forall p s, (N.of_nat c <= steps s)%N -> (S (nout s) < cap s)%nat ->
  kp p s = (inl tt, st_walk s [VArr p] 0 c).
Let w := (2 + c)%nat.   (* budget per node *)

Lemma flat_len_p d rp elems :
  (forall key e, In (key, e) elems -> List.length (paths_at d e (key :: rp)) = vsize e) ->
  List.length (flat_map (fun ke => paths_at d (snd ke) (fst ke :: rp)) elems) = size_sum elems.
Proof.
  induction elems as [|[key e] r IH]; intros H; [reflexivity|].
  cbn [flat_map size_sum fold_right snd fst]. fold (size_sum r). rewrite app_length, (H key e (or_introl eq_refl)), IH; [reflexivity|].
  intros k' e' Hin. apply H. right. exact Hin.
Qed.

Lemma paths_length d : forall v rp, (vsize v <= d)%nat -> List.length (paths_at d v rp) = vsize v.
Proof.
  induction d as [|d IH]; intros v rp Hv; [pose proof (vsize_pos v); lia|].
  cbn [paths_at List.length]. rewrite flat_len_p.
  - rewrite size_sum_elems. pose proof (vsize_pos v). lia.
  - intros key e Hin. apply IH. pose proof (elems_size v key e Hin). lia.
Qed.

Lemma go2_pre d rp elems :
  (forall key e, In (key, e) elems -> List.length (paths_at d e (key :: rp)) = vsize e) ->
  (forall key e, In (key, e) elems -> forall s, (N.of_nat (w * vsize e) <= steps s)%N -> (nout s + vsize e < cap s)%nat ->
     pre_run kp e (key :: rp) s = (inl tt, st_walk s (map VArr (paths_at d e (key :: rp))) (vsize e - 1) (w * vsize e))) ->
  forall s, (N.of_nat (w * size_sum elems) <= steps s)%N -> (nout s + size_sum elems < cap s)%nat ->
  go2 (fun key e => pre_run kp e (key :: rp)) elems s =
  (inl tt, st_walk s (map VArr (flat_map (fun ke => paths_at d (snd ke) (fst ke :: rp)) elems)) (size_sum elems) (w * size_sum elems)).
Proof.
  induction elems as [|[key e] r IH]; intros HL H s Hs Hc.
  - cbn [go2 flat_map size_sum fold_right map]. unfold ret. rewrite Nat.mul_0_r, st_walk_0. reflexivity.
  - cbn [size_sum fold_right snd] in Hs, Hc. fold (size_sum r) in Hs, Hc. rewrite Nat.mul_add_distr_l in Hs.
    cbn [go2]. unfold bind at 1. unfold bind at 1. rewrite fresh_ok.
    pose proof (vsize_pos e) as Hpos. pose proof (HL key e (or_introl eq_refl)) as HLe.
    rewrite (H key e (or_introl eq_refl)); [|st_red; lia|st_red; lia].
    rewrite st_walk_walk by (cbn [Nat.add]; lia).
    rewrite IH; [| intros k' e' Hin; apply HL; right; exact Hin
                 | intros k' e' Hin; apply H; right; exact Hin
                 | st_red; lia | st_red; lia].
    rewrite st_walk_walk by lia.
    cbn [flat_map size_sum fold_right snd fst app]. fold (size_sum r). rewrite map_app, Nat.mul_add_distr_l.
    f_equal. f_equal; lia.
Qed.

Lemma pre_walk d : forall v, (vsize v <= d)%nat -> forall rp s,
  (N.of_nat (w * vsize v) <= steps s)%N -> (nout s + vsize v < cap s)%nat ->
  pre_run kp v rp s = (inl tt, st_walk s (map VArr (paths_at d v rp)) (vsize v - 1) (w * vsize v)).
Proof.
  induction d as [|d IH]; intros v Hv rp s Hs Hc; [pose proof (vsize_pos v); lia|].
  pose proof (vsize_pos v) as Hpos. pose proof (size_sum_elems v) as Hsum.
  assert (Hw : (w * vsize v = w + w * size_sum (elems_of v))%nat) by (rewrite Hsum; nia).
  rewrite Hw in Hs. unfold w in Hs. 
  assert (HL : forall key e, In (key, e) (elems_of v) -> List.length (paths_at d e (key :: rp)) = vsize e).
  { intros key e Hin. apply paths_length. pose proof (elems_size v key e Hin). lia. }
  rewrite pre_run_eq. unfold bind at 1. rewrite tick_ok by lia. unfold bind at 1.
  rewrite Hkp by (st_red; lia). rewrite st_walk_walk by lia.
  unfold bind at 1. rewrite tick_ok by (st_red; lia). rewrite st_walk_walk by lia.
  unfold pre_kids. rewrite (go2_pre d rp (elems_of v) HL).
  - rewrite st_walk_walk by (fold w; lia). cbn [paths_at map app]. rewrite Hw. unfold w. f_equal. f_equal; lia.
  - intros key e Hin s0 Hs0 Hc0. apply IH; [pose proof (elems_size v key e Hin); lia|exact Hs0|exact Hc0].
  - st_red. fold w. lia.
  - st_red. lia.
Qed.
End Walk.

Lemma emit_path_ok p s : (S (nout s) < cap s)%nat -> emit (plain (VArr p)) None s = (inl tt, st_walk s [VArr p] 0 0).
Proof. intros H. apply emit_ok. exact H. Qed.

Lemma tte_ok p s : (N.of_nat 2 <= steps s)%N -> (S (nout s) < cap s)%nat ->
  (tick ;; (tick ;; emit (plain (VArr p)) None)) s = (inl tt, st_walk s [VArr p] 0 2).
Proof.
  intros Hs Hc. unfold bind at 1. rewrite tick_ok by lia. unfold bind at 1.
  rewrite tick_ok by (st_red; lia). rewrite st_walk_walk by lia.
  rewrite emit_ok by (st_red; lia). rewrite st_walk_walk by lia. reflexivity.
Qed.

(* `paths` and `path(..)` observed, on ANY value (fuel from the size; budget and cap large enough): the paths of the
   proper descendants, node first — and for path(..) the root path [] in front of them *)
Theorem paths_observe bs : stream_pins bs -> recurse_pins bs -> forall n v capn rs ins, (7 * vsize v <= n)%nat ->
  (N.of_nat (4 * vsize v + 3) <= step_budget)%N -> (vsize v < capn)%nat ->
  observe bs (27 + n) capn rs ins (q_call (codes "paths") []) v = (map VArr (kids_paths v), EndNormal) /\
  observe bs (24 + n) capn rs ins (StreamLaws.q_path q_dotdot) v = (VArr [] :: map VArr (kids_paths v), EndNormal).
Proof.
  intros Hp Hr n v capn rs ins Hn Hb Hc.
  destruct (paths_root_sem bs Hp Hr n v emit (init_state capn ins rs) Hn) as [E1 E2].
  pose proof (vsize_pos v) as Hpos. pose proof (size_sum_elems v) as Hsum.
  set (s0 := init_state capn ins rs) in *.
  assert (Hs0 : steps s0 = step_budget) by reflexivity.
  assert (Hn0 : nout s0 = O) by reflexivity. assert (Hc0 : cap s0 = capn) by reflexivity.
  assert (Ho0 : outs s0 = []) by reflexivity.
  assert (HL : forall key e, In (key, e) (elems_of v) -> List.length (paths_at (vsize v) e [key]) = vsize e).
  { intros key e Hin. apply (paths_length _ 0%nat (fun p s _ => emit_path_ok p s)). pose proof (elems_size v key e Hin). lia. }
  assert (HK : forall (kp : list jv -> M unit) c,
            (forall p s, (N.of_nat c <= steps s)%N -> (S (nout s) < cap s)%nat -> kp p s = (inl tt, st_walk s [VArr p] 0 c)) ->
            forall key e, In (key, e) (elems_of v) -> forall s, (N.of_nat ((2 + c) * vsize e) <= steps s)%N -> (nout s + vsize e < cap s)%nat ->
            pre_run kp e [key] s = (inl tt, st_walk s (map VArr (paths_at (vsize v) e [key])) (vsize e - 1) ((2 + c) * vsize e))).
  { intros kp c Hkp key e Hin s Hs Hcs. apply (pre_walk kp c Hkp (vsize v)); [pose proof (elems_size v key e Hin); lia|exact Hs|exact Hcs]. }
  split.
  - unfold observe. fold s0. rewrite E1. clear E1 E2.
    unfold bind at 1. rewrite tick_ok by (rewrite Hs0; lia).
    unfold bind at 1. rewrite fresh_ok. rewrite st_walk_walk by (rewrite Hs0; lia).
    do 3 (unfold bind at 1; rewrite tick_ok by (st_red; rewrite Hs0; lia); rewrite st_walk_walk by (rewrite Hs0; lia)).
    unfold bind at 1. unfold bind at 1. rewrite tick_ok by (st_red; rewrite Hs0; lia). rewrite st_walk_walk by (rewrite Hs0; lia).
    unfold bind at 1. rewrite tick_ok by (st_red; rewrite Hs0; lia). rewrite st_walk_walk by (rewrite Hs0; lia). unfold ret.
    unfold bind at 1. rewrite tick_ok by (st_red; rewrite Hs0; lia). rewrite st_walk_walk by (rewrite Hs0; lia).
    unfold pre_kids.
    rewrite (go2_pre _ 2%nat tte_ok (vsize v) [] (elems_of v) HL (HK _ 2%nat tte_ok)); [|st_red; rewrite Hs0; lia|st_red; rewrite Hn0, Hc0; lia].
    rewrite st_walk_walk by (rewrite Hs0; lia). unfold st_walk. cbn [outs app]. rewrite Ho0, app_nil_r.
    unfold rev'. rewrite <- rev_alt, rev_involutive. reflexivity.
  - unfold observe. fold s0. rewrite E2. clear E1 E2.
    unfold bind at 1. rewrite fresh_ok.
    unfold bind at 1. rewrite tick_ok by (st_red; rewrite Hs0; lia). rewrite st_walk_walk by (rewrite Hs0; lia).
    do 2 (unfold bind at 1; rewrite tick_ok by (st_red; rewrite Hs0; lia); rewrite st_walk_walk by (rewrite Hs0; lia)).
    unfold bind at 1. rewrite emit_ok by (st_red; rewrite Hn0, Hc0; lia). rewrite st_walk_walk by (rewrite Hs0; lia).
    unfold bind at 1. rewrite tick_ok by (st_red; rewrite Hs0; lia). rewrite st_walk_walk by (rewrite Hs0; lia).
    unfold pre_kids.
    rewrite (go2_pre _ 0%nat (fun p s _ => emit_path_ok p s) (vsize v) [] (elems_of v) HL (HK _ 0%nat (fun p s _ => emit_path_ok p s)));
      [|st_red; rewrite Hs0; lia|st_red; rewrite Hn0, Hc0; lia].
    rewrite st_walk_walk by (rewrite Hs0; lia). unfold st_walk. cbn [outs app]. rewrite Ho0, app_nil_r.
    unfold rev'. rewrite <- rev_alt, rev_involutive. reflexivity.
Qed.
