(* StreamGen.v — the generator of tostream, path(def r: (.[]?|r), .; r), as a structural program over the value:
   definitions.  (Proofs: StreamGenProofs.v.) *)
From Coq Require Import String.
From Coq Require Import List ZArith NArith Bool.
From Verif Require Import common.Sexp sem.JV sem.Syntax sem.Natives sem.Sem sem.BuiltinLaws sem.BuiltinCalls sem.StreamLaws.
Import ListNotations.

(* the environment in which the local definition r of tostream runs *)
Definition env_ts : env := [BFun ts_r_def].
Definition q_r : query := q_call (codes "r") [].

(* the walk of a value, children first, then the node: one unit of the step budget per node (the call of r), one
   fresh navigation id per child, and the consumer kp on the path of the node (rp = the path, reversed) AFTER its
   children.  Arrays by index, objects in the order of the association list (gojq: sorted keys). *)
Fixpoint gen_run (kp : list jv -> M unit) (v : jv) (rp : list jv) {struct v} : M unit :=
  tick ;;
  ((match v with
    | VArr l =>
        (fix go (l : list jv) (i : Z) {struct l} : M unit :=
           match l with
           | [] => ret tt
           | e :: r => (_ <- fresh ;; gen_run kp e (VInt i :: rp)) ;; go r (i + 1)%Z
           end) l 0%Z
    | VObj kvs =>
        (fix go (l : list (bytes * jv)) {struct l} : M unit :=
           match l with
           | [] => ret tt
           | (key, e) :: r => (_ <- fresh ;; gen_run kp e (VStr key :: rp)) ;; go r
           end) kvs
    | _ => ret tt
    end) ;; kp (rev rp)).

(* the paths in the order gen_run hands them to its consumer *)
Fixpoint post_paths (v : jv) (rp : list jv) {struct v} : list (list jv) :=
  (match v with
   | VArr l =>
       (fix go (l : list jv) (i : Z) {struct l} : list (list jv) :=
          match l with
          | [] => []
          | e :: r => post_paths e (VInt i :: rp) ++ go r (i + 1)%Z
          end) l 0%Z
   | VObj kvs =>
       (fix go (l : list (bytes * jv)) {struct l} : list (list jv) :=
          match l with
          | [] => []
          | (key, e) :: r => post_paths e (VStr key :: rp) ++ go r
          end) kvs
   | _ => []
   end) ++ [rev rp].

(* a size bound (nodes of the value), used for the induction and for the fuel *)
Fixpoint vsize (v : jv) : nat :=
  match v with
  | VArr l => S ((fix go (l : list jv) : nat := match l with [] => O | e :: r => (vsize e + go r)%nat end) l)
  | VObj kvs => S ((fix go (l : list (bytes * jv)) : nat := match l with [] => O | (_, e) :: r => (vsize e + go r)%nat end) kvs)
  | _ => 1%nat
  end.

(* the (path element, child) pairs of a value, as .[] enumerates them *)
Definition elems_of (v : jv) : list (jv * jv) :=
  match v with
  | VArr l => combine (map VInt (iota (List.length l) 0)) l
  | VObj kvs => map (fun kv => (VStr (fst kv), snd kv)) kvs
  | _ => []
  end.

(* the consumer path(q) installs around a consumer kp of paths *)
Definition kpath (kp : list jv -> M unit) : K := fun x ps' =>
  match ps' with
  | Some pp => check_intact x pp EInvalidPath ;; kp (rev (rpath pp))
  | None => skipM "path-state"
  end.

(* the same walk with the consumer applied to the path AND the value of the node *)
Fixpoint vrun (F : list jv -> jv -> M unit) (v : jv) (rp : list jv) {struct v} : M unit :=
  tick ;;
  ((match v with
    | VArr l =>
        (fix go (l : list jv) (i : Z) {struct l} : M unit :=
           match l with
           | [] => ret tt
           | e :: r => (_ <- fresh ;; vrun F e (VInt i :: rp)) ;; go r (i + 1)%Z
           end) l 0%Z
    | VObj kvs =>
        (fix go (l : list (bytes * jv)) {struct l} : M unit :=
           match l with
           | [] => ret tt
           | (key, e) :: r => (_ <- fresh ;; vrun F e (VStr key :: rp)) ;; go r
           end) kvs
    | _ => ret tt
    end) ;; F (rev rp) v).
