(* PathSound.v — C02, first clause, stated about the reference semantics Sem: definitions.

   The path fragment P (type [pq], embedded into the AST of query.go by [emb] with the shapes gojq.Parse
   gives), the value-level navigation [nav_path] (the left fold of Natives.fn_index2 = what `getpath`
   computes, see [str_nav] for the one place where func.go's getpath differs: D10), and the relations
   used by the soundness proof (PathSoundProofs.v).  Definitions only. *)
From Coq Require Import String.
From Coq Require Import List ZArith NArith Bool.
From Verif Require Import common.Sexp sem.JV sem.Syntax sem.Natives sem.Sem.
Import ListNotations.

(* ------------------------------------------------------------------------------------------ *)
(* value-level navigation *)

(* v | getpath(path) read as "navigate component by component with the index function of the language"
   (_index / _slice of func.go = fn_index2) *)
Fixpoint nav_path (v : jv) (path : list jv) : nres :=
  match path with
  | [] => NOk v
  | x :: r => match fn_index2 v x with
              | NOk w => nav_path w r
              | e => e
              end
  end.

(* the path navigates FROM a string (by a number or a slice): gojq's `path` follows it, gojq's `getpath`
   refuses it (known finding D10 of docs/C02.md: `"abc" | path(.[1:])` vs `"abc" | getpath(...)`) *)
Fixpoint str_nav (v : jv) (path : list jv) : bool :=
  match path with
  | [] => false
  | x :: r => match v with
              | VStr _ => true
              | _ => match fn_index2 v x with
                     | NOk w => str_nav w r
                     | _ => false
                     end
              end
  end.

(* ------------------------------------------------------------------------------------------ *)
(* the fragment *)

(* One syntax, two readings.  In mode MPath a term is a PATH EXPRESSION (run inside path(..)): only the
   navigation and control constructs are allowed, and the sub-terms gojq evaluates between opexpbegin and
   opexpend (conditions, computed keys, getpath arguments, sources of `as`) are EXPRESSIONS (mode MPlain),
   where every constructor is allowed. *)
Inductive mode := MPath | MPlain.

(* suffixes of a term: .a.b  .a[3]  .a[1:2]  .a[]  (constant keys) *)
Inductive psuf := SIdx (i : index) | SIter.
Definition emb_suf (s : psuf) : suffix :=
  match s with
  | SIdx i => Suffix (Some i) false false
  | SIter => Suffix None true false
  end.
Definition suf_ok (s : psuf) : Prop := match s with SIdx i => index_key i <> None | SIter => True end.

Inductive pq :=
| PId                                  (* .                                                          *)
| PIdx (i : index)                     (* .a  .["a"]  .[3]  .[-1]  .[1:2]  .[:-1] : a CONSTANT key   *)
| PIter                                (* .[]                                                        *)
| PPipe (a b : pq)
| PComma (a b : pq)
| PEmpty
| PError                               (* error                                                      *)
| PIf (c a b : pq)                     (* if c then a else b end                                     *)
| PIfNoElse (c a : pq)                 (* if c then a end                                            *)
| PSelect (c : pq)                     (* select(c), as builtin.jq defines it                        *)
| PIdxDyn (e : pq)                     (* .[e] with a computed key                                   *)
| PGetpath (e : pq)                    (* getpath(e)                                                 *)
| PBind (e : pq) (x : bytes) (p : pq)  (* e as $x | p                                                *)
| PTry (p : pq)                        (* try p   (no catch)                                         *)
(* expressions only *)
| PLit (t : termkind)                  (* null true false number "string"                            *)
| PVar (x : bytes)                     (* $x                                                         *)
| PBinop (o : operator) (a b : pq)     (* + - * / % == != < <= > >= and or                           *)
| PNative0 (name : bytes)              (* a Go-implemented function without arguments: length, type, keys, ... *)
(* the suffix form of `?` *)
| POptIdx (i : index)                  (* .a?  .[3]?  .[1:2]?                                        *)
| POptIter                             (* .[]?                                                       *)
(* a term with a suffix list, as the parser builds it: .a.b[0][]  .[][1:2].c  (head . or .key) *)
| PChain (h : option index) (ss : list psuf).

Fixpoint emb (p : pq) : query :=
  match p with
  | PId => q_identity
  | PIdx i => q_term (TIndex i)
  | PIter => Query [] [] (Some (Term TIdentity [Suffix None true false])) None None None []
  | PPipe a b => q_bin (emb a) OpPipe (emb b)
  | PComma a b => q_bin (emb a) OpComma (emb b)
  | PEmpty => q_call (codes "empty") []
  | PError => q_call (codes "error") []
  | PIf c a b => q_term (TIf (emb c) (emb a) [] (Some (emb b)))
  | PIfNoElse c a => q_term (TIf (emb c) (emb a) [] None)
  | PSelect c => q_call (codes "select") [emb c]
  | PIdxDyn e => q_term (TIndex (Index [] None (Some (emb e)) None false))
  | PGetpath e => q_call (codes "getpath") [emb e]
  | PBind e x p => Query [] [] None (Some (emb e)) (Some OpPipe) (Some (emb p)) [Pattern x [] []]
  | PTry p => q_term (TTry (emb p) None)
  | PLit t => q_term t
  | PVar x => q_call x []
  | PBinop o a b => q_bin (emb a) o (emb b)
  | PNative0 name => q_call name []
  | POptIdx i => Query [] [] (Some (Term (TIndex i) [Suffix None false true])) None None None []
  | POptIter => Query [] [] (Some (Term TIdentity [Suffix None true false; Suffix None false true])) None None None []
  | PChain h ss => Query [] [] (Some (Term (match h with None => TIdentity | Some i => TIndex i end) (map emb_suf ss)))
                         None None None []
  end.

Definition is_lit (t : termkind) : bool :=
  match t with
  | TNull | TTrue | TFalse | TNumber _ _ => true
  | TString (JString _ None) => true
  | _ => false
  end.

Definition binop_ok (o : operator) : bool :=
  match o with
  | OpAdd | OpSub | OpMul | OpDiv | OpMod | OpEq | OpNe | OpGt | OpLt | OpGe | OpLe | OpAnd | OpOr => true
  | _ => false
  end.

(* names step_call treats as plain natives of arity 0: not a variable, none of the names handled
   specially (empty, input, halt, halt_error, $ENV, env), not a number formatter *)
Definition native0_ok (name : bytes) : bool :=
  negb (is_var_name name) && negb (list_N_eqb name nm_21) && negb (list_N_eqb name nm_27) &&
  negb (list_N_eqb name nm_25) && negb (list_N_eqb name nm_26) && negb (list_N_eqb name nm_0) &&
  negb (list_N_eqb name nm_22) && negb (is_formatter name).

(* side conditions.  [bs] is the table of jq-defined builtins: a native must not be shadowed by it *)
Fixpoint ok (bs : list funcdef) (m : mode) (p : pq) {struct p} : Prop :=
  match p with
  | PId | PIter | PEmpty | PError | POptIter => True
  | PIdx i | POptIdx i => index_key i <> None
  | PPipe a b | PComma a b => ok bs m a /\ ok bs m b
  | PIf c a b => ok bs MPlain c /\ ok bs m a /\ ok bs m b
  | PIfNoElse c a => ok bs MPlain c /\ ok bs m a
  | PSelect c => ok bs MPlain c
  | PIdxDyn e => ok bs MPlain e /\ query_index_key (emb e) = None
  | PGetpath e => ok bs MPlain e
  | PBind e x p => ok bs MPlain e /\ is_var_name x = true /\ ok bs m p
  | PTry p => ok bs m p
  | PLit t => m = MPlain /\ is_lit t = true
  | PVar x => m = MPlain /\ is_var_name x = true
  | PBinop o a b => m = MPlain /\ binop_ok o = true /\ ok bs MPlain a /\ ok bs MPlain b
  | PNative0 name => m = MPlain /\ native0_ok name = true /\ lookup_builtin bs name 0 = None
  | PChain h ss => match h with Some i => index_key i <> None | None => True end /\ Forall suf_ok ss
  end.

(* the path fragment *)
Definition pf (bs : list funcdef) (p : pq) : Prop := ok bs MPath p.

(* select as builtin.jq defines it: def select(f): if f then . else empty end; *)
Definition select_def : funcdef :=
  FuncDef (codes "select") [codes "f"]
    (q_term (TIf (q_call (codes "f") []) q_identity [] (Some (q_call (codes "empty") [])))).

Definition q_path (q : query) : query := q_call (codes "path") [q].

(* ------------------------------------------------------------------------------------------ *)
(* relating two runs *)

Definition res := ((unit + exn) * sst)%type.

(* the model gives no verdict: out of fuel / outside the model (XSkip: path identity undecidable at value
   level, step budget, ...) *)
Definition declined (r : res) : Prop :=
  match fst r with
  | inr XFuel | inr (XSkip _) => True
  | _ => False
  end.

Definition bump (s : sst) : sst :=
  mkst (outs s) (nout s) (cap s) (nextid s + 1)%N (inputs s) (cells s) (repsens s) (steps s).
Definition dec_steps (s : sst) : sst :=
  mkst (outs s) (nout s) (cap s) (nextid s) (inputs s) (cells s) (repsens s) (N.pred (steps s)).

(* environments of the fragment: variables and labels only; the two runs see the same values (the ids
   beside them may differ) *)
Inductive env_rel : env -> env -> Prop :=
| ER_nil : env_rel [] []
| ER_var n v1 v2 r1 r2 : fst v1 = fst v2 -> env_rel r1 r2 -> env_rel (BVar n v1 :: r1) (BVar n v2 :: r2)
| ER_label n l r1 r2 : env_rel r1 r2 -> env_rel (BLabel n l :: r1) (BLabel n l :: r2).

(* the relation between the observable states of `path(p)` and `p` run on the same input [root]:
   same count, cap, remaining inputs, flags, budget; the k-th path emitted navigates [root] to the k-th value *)
Definition out_rel (root : jv) (q w : jv) : Prop :=
  exists path, q = VArr path /\ nav_path root path = NOk w.

Definition top_rel (root : jv) (s1 s2 : sst) : Prop :=
  nout s1 = nout s2 /\ cap s1 = cap s2 /\ inputs s1 = inputs s2 /\ repsens s1 = repsens s2 /\
  steps s1 = steps s2 /\ Forall2 (out_rel root) (outs s1) (outs s2).

(* what an ending says about a run: a verdict, or none *)
Definition verdict (e : ending) : Prop := match e with EndSkip _ => False | _ => True end.

(* ------------------------------------------------------------------------------------------ *)
(* well-formed values: what the decoder of JSON / the constructors of the language produce.  Objects are
   strictly sorted association lists (so a key occurs once), array lengths fit Go's int. *)
Fixpoint jv_wf (v : jv) : Prop :=
  match v with
  | VArr l => (zlen l <= max_int)%Z /\
              (fix all (l : list jv) : Prop := match l with [] => True | x :: r => jv_wf x /\ all r end) l
  | VObj kvs => obj_sorted kvs = true /\
                (fix all (l : list (bytes * jv)) : Prop :=
                   match l with [] => True | kv :: r => jv_wf (snd kv) /\ all r end) kvs
  | _ => True
  end.

(* ------------------------------------------------------------------------------------------ *)
(* the law on one program and one input, evaluated on the model (used by the examples of props/C02b.v):
   both runs give a verdict, end the same way, emit [nouts] outputs, and gojq's getpath (as modelled:
   Natives.fn_getpath) of every emitted path is the corresponding output *)
Definition law_on (bs : list funcdef) (fuel capn : nat) (q : query) (v : jv) (nouts : nat) : Prop :=
  let o1 := observe bs fuel capn false [] (q_path q) v in
  let o2 := observe bs fuel capn false [] q v in
  verdict (snd o1) /\ snd o1 = snd o2 /\ List.length (fst o1) = nouts /\
  map (fn_getpath v) (fst o1) = map NOk (fst o2).

(* builders for examples *)
Definition fld (s : string) : index := Index (codes s) None None None false.
Definition num_q (z : Z) : query := q_term (TNumber (codes "0") (NInt z)).
Definition idx (z : Z) : index := Index [] None (Some (num_q z)) None false.
Definition slc (a b : Z) : index := Index [] None (Some (num_q a)) (Some (num_q b)) true.
Definition obj1 (k : string) (v : jv) : jv := VObj [(codes k, v)].

(* the law for one program: C02, first clause, for the query q (any input, cap, fuels; runs with a verdict) *)
Definition path_law (bs : list funcdef) (q : query) : Prop :=
  forall n1 n2 capn rs ins v, jv_wf v ->
  verdict (snd (observe bs n1 capn rs ins (q_path q) v)) ->
  verdict (snd (observe bs n2 capn rs ins q v)) ->
  snd (observe bs n1 capn rs ins (q_path q) v) = snd (observe bs n2 capn rs ins q v) /\
  Forall2 (out_rel v) (fst (observe bs n1 capn rs ins (q_path q) v)) (fst (observe bs n2 capn rs ins q v)).

(* what the theorems need of the table of jq-defined builtins (true of builtin.jq: props/C02b.v) *)
Definition builtins_ok (bs : list funcdef) : Prop :=
  lookup_builtin bs (codes "empty") 0 = None /\ lookup_builtin bs (codes "path") 1 = None /\
  lookup_builtin bs (codes "error") 0 = None /\ lookup_builtin bs (codes "getpath") 1 = None /\
  lookup_builtin bs (codes "select") 1 = Some select_def.

(* builders for examples *)
Definition pfld (s : string) : pq := PIdx (fld s).
Definition pidx (z : Z) : pq := PIdx (idx z).
Definition lnum (z : Z) : pq := PLit (TNumber (codes "0") (NInt z)).
Definition lstr (s : string) : pq := PLit (TString (JString (codes s) None)).
Definition vs (s : string) : jv := VStr (codes s).
Definition obj2 (k1 : string) (v1 : jv) (k2 : string) (v2 : jv) : jv := VObj [(codes k1, v1); (codes k2, v2)].
