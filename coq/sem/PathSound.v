(* PathSound.v — C02, first clause, stated about the reference semantics Sem: definitions.

   The path fragment P (type [pq], embedded into the AST of query.go by [emb] with the shapes gojq.Parse
   gives), the value-level navigation [nav_path] (the left fold of Natives.fn_index2 = what `getpath`
   computes, see [str_nav] for the one place where func.go's getpath differs: D10), and the relations
   used by the soundness proof (PathSoundProofs.v).  Definitions only. *)
From Coq Require Import String.
From Coq Require Import List ZArith NArith Bool.
From Verif Require Import common.Sexp sem.JV sem.Syntax sem.Natives sem.Sem sem.SemProofs.
Import ListNotations.

(* ------------------------------------------------------------------------------------------ *)
(* value-level navigation *)

(* v | getpath(path) read as "navigate component by component with the index function of the language"
   (_index / _slice of func.go = fn_index2) *)
Fixpoint nav_path (v : jv) (path : list jv) : nres :=
  match path with
  | [] => NOk v
  | x :: r => match fn_index2 v x with
              | NOk w => nav_path w r
              | e => e
              end
  end.

(* the path navigates FROM a string (by a number or a slice): gojq's `path` follows it, gojq's `getpath`
   refuses it (known finding D10 of docs/C02.md: `"abc" | path(.[1:])` vs `"abc" | getpath(...)`) *)
Fixpoint str_nav (v : jv) (path : list jv) : bool :=
  match path with
  | [] => false
  | x :: r => match v with
              | VStr _ => true
              | _ => match fn_index2 v x with
                     | NOk w => str_nav w r
                     | _ => false
                     end
              end
  end.

(* ------------------------------------------------------------------------------------------ *)
(* the fragment *)

(* One syntax, two readings.  In mode MPath a term is a PATH EXPRESSION (run inside path(..)): only the
   navigation and control constructs are allowed, and the sub-terms gojq evaluates between opexpbegin and
   opexpend (conditions, computed keys, getpath arguments, sources of `as`) are EXPRESSIONS (mode MPlain),
   where every constructor is allowed. *)
Inductive mode := MPath | MPlain.

(* suffixes of a term: .a.b  .a[3]  .a[1:2]  .a[]  (constant keys) and `?` (protects the suffix before it) *)
Inductive psuf := SIdx (i : index) | SIter | SOpt.
Definition emb_suf (s : psuf) : suffix :=
  match s with
  | SIdx i => Suffix (Some i) false false
  | SIter => Suffix None true false
  | SOpt => Suffix None false true
  end.
Definition suf_ok (s : psuf) : Prop := match s with SIdx i => index_key i <> None | _ => True end.

(* entries of an object pattern:  {$x}  and  {k: $x} *)
Inductive pobj := OVar (x : bytes) | OKey (k x : bytes).
Definition emb_po (e : pobj) : patternobject :=
  match e with
  | OVar x => PatternObject x None None None
  | OKey k x => PatternObject k None None (Some (Pattern x [] []))
  end.
Definition po_var (e : pobj) : bytes := match e with OVar x => x | OKey _ x => x end.
Definition po_ok (e : pobj) : Prop :=
  match e with
  | OVar x => is_var_name x = true
  | OKey k x => k <> [] /\ is_var_name k = false /\ is_var_name x = true
  end.

Inductive pq :=
| PId                                  (* .                                                          *)
| PIdx (i : index)                     (* .a  .["a"]  .[3]  .[-1]  .[1:2]  .[:-1] : a CONSTANT key   *)
| PIter                                (* .[]                                                        *)
| PPipe (a b : pq)
| PComma (a b : pq)
| PEmpty
| PError                               (* error                                                      *)
| PIf (c a b : pq)                     (* if c then a else b end                                     *)
| PIfNoElse (c a : pq)                 (* if c then a end                                            *)
| PSelect (c : pq)                     (* select(c), as builtin.jq defines it                        *)
| PIdxDyn (e : pq)                     (* .[e] with a computed key                                   *)
| PGetpath (e : pq)                    (* getpath(e)                                                 *)
| PBind (e : pq) (x : bytes) (p : pq)  (* e as $x | p                                                *)
| PTry (p : pq)                        (* try p   (no catch)                                         *)
(* expressions only *)
| PLit (t : termkind)                  (* null true false number "string"                            *)
| PVar (x : bytes)                     (* $x                                                         *)
| PBinop (o : operator) (a b : pq)     (* + - * / % == != < <= > >= and or                           *)
| PNative0 (name : bytes)              (* a Go-implemented function without arguments: length, type, keys, ... *)
(* the suffix form of `?` *)
| POptIdx (i : index)                  (* .a?  .[3]?  .[1:2]?                                        *)
| POptIter                             (* .[]?                                                       *)
(* a term with a suffix list, as the parser builds it: .a.b[0][]  .[][1:2].c  (head . or .key) *)
| PChain (h : option index) (ss : list psuf)
(* constructs that keep a frame (cell / label) alive while their consumer runs *)
| PAlt (a b : pq)                      (* a // b                                                     *)
| PFirst (p : pq)                      (* first(p), as builtin.jq defines it                         *)
(* recursion, through builtin.jq: def recurse: recurse(.[]?);  def recurse(f): def r: ., (f | r); r; *)
| PRecurse1 (f : pq)                   (* recurse(f)                                                 *)
| PRecurse0                            (* recurse                                                    *)
| PDotDot                              (* ..                                                         *)
| PLimit (e p : pq)                    (* limit(e; p), as builtin.jq defines it (label + foreach)    *)
| PElif (c a rest : pq)                (* if c then a elif ... end: rest is the if-form of the remaining branches *)
| PSliceDyn (ha hb : bool) (a b : pq)  (* .[a:b] .[a:] .[:b] with computed bounds (ha/hb: bound present) *)
| PBindArr (e : pq) (xs : list bytes) (p : pq)    (* e as [$a, $b, ...] | p   (array destructuring into variables) *)
| PBindObj (e : pq) (es : list pobj) (p : pq)     (* e as {$a, k: $b, ...} | p (object destructuring into variables) *)
(* more expressions *)
| PArray (e : pq)                      (* [e]   (expression only: a constructed value)               *)
| PArray0                              (* []                                                         *)
| PReduce (src : pq) (x : bytes) (init upd : pq)              (* reduce src as $x (init; upd)        *)
| PForeach (src : pq) (x : bytes) (init upd ext : pq)         (* foreach src as $x (init; upd; ext)  *)
(* a jq-defined builtin without parameters whose builtin.jq body is itself in the fragment:
   values, nulls, numbers, strings, arrays, objects, booleans, scalars, iterables, not, first, ... *)
| PBuiltin0 (name : bytes) (body : pq)
(* a Go-implemented function with one argument (expression only): has(e), startswith(e), contains(e), ... *)
| PNative1 (name : bytes) (a : pq).

Fixpoint emb (p : pq) : query :=
  match p with
  | PId => q_identity
  | PIdx i => q_term (TIndex i)
  | PIter => Query [] [] (Some (Term TIdentity [Suffix None true false])) None None None []
  | PPipe a b => q_bin (emb a) OpPipe (emb b)
  | PComma a b => q_bin (emb a) OpComma (emb b)
  | PEmpty => q_call (codes "empty") []
  | PError => q_call (codes "error") []
  | PIf c a b => q_term (TIf (emb c) (emb a) [] (Some (emb b)))
  | PIfNoElse c a => q_term (TIf (emb c) (emb a) [] None)
  | PSelect c => q_call (codes "select") [emb c]
  | PIdxDyn e => q_term (TIndex (Index [] None (Some (emb e)) None false))
  | PGetpath e => q_call (codes "getpath") [emb e]
  | PBind e x p => Query [] [] None (Some (emb e)) (Some OpPipe) (Some (emb p)) [Pattern x [] []]
  | PTry p => q_term (TTry (emb p) None)
  | PLit t => q_term t
  | PVar x => q_call x []
  | PBinop o a b => q_bin (emb a) o (emb b)
  | PNative0 name => q_call name []
  | POptIdx i => Query [] [] (Some (Term (TIndex i) [Suffix None false true])) None None None []
  | POptIter => Query [] [] (Some (Term TIdentity [Suffix None true false; Suffix None false true])) None None None []
  | PChain h ss => Query [] [] (Some (Term (match h with None => TIdentity | Some i => TIndex i end) (map emb_suf ss)))
                         None None None []
  | PAlt a b => q_bin (emb a) OpAlt (emb b)
  | PFirst p => q_call (codes "first") [emb p]
  | PRecurse1 f => q_call (codes "recurse") [emb f]
  | PRecurse0 => q_call (codes "recurse") []
  | PDotDot => q_term TRecurse
  | PLimit e p => q_call (codes "limit") [emb e; emb p]
  | PElif c a rest =>
      match emb rest with
      | Query [] [] (Some (Term (TIf c2 a2 elifs els) [])) None None None [] =>
          q_term (TIf (emb c) (emb a) ((c2, a2) :: elifs) els)
      | q => q
      end
  | PBindArr e xs p =>
      Query [] [] None (Some (emb e)) (Some OpPipe) (Some (emb p)) [Pattern [] (map (fun x => Pattern x [] []) xs) []]
  | PBindObj e es p =>
      Query [] [] None (Some (emb e)) (Some OpPipe) (Some (emb p)) [Pattern [] [] (map emb_po es)]
  | PArray e => q_term (TArray (Some (emb e)))
  | PArray0 => q_term (TArray None)
  | PReduce src x init upd => q_term (TReduce (emb src) (Pattern x [] []) (emb init) (emb upd))
  | PForeach src x init upd ext => q_term (TForeach (emb src) (Pattern x [] []) (emb init) (emb upd) (Some (emb ext)))
  | PBuiltin0 name _ => q_call name []
  | PNative1 name a => q_call name [emb a]
  | PSliceDyn ha hb a b =>
      q_term (TIndex (Index [] None (if ha then Some (emb a) else None) (if hb then Some (emb b) else None) true))
  end.

Definition if_form (p : pq) : bool :=
  match p with PIf _ _ _ | PIfNoElse _ _ | PElif _ _ _ => true | _ => false end.

Definition is_lit (t : termkind) : bool :=
  match t with
  | TNull | TTrue | TFalse | TNumber _ _ => true
  | TString (JString _ None) => true
  | _ => false
  end.

Definition binop_ok (o : operator) : bool :=
  match o with
  | OpAdd | OpSub | OpMul | OpDiv | OpMod | OpEq | OpNe | OpGt | OpLt | OpGe | OpLe | OpAnd | OpOr => true
  | _ => false
  end.

(* names step_call treats as plain natives of arity 0: not a variable, none of the names handled
   specially (empty, input, halt, halt_error, $ENV, env), not a number formatter *)
Definition native0_ok (name : bytes) : bool :=
  negb (is_var_name name) && negb (list_N_eqb name nm_21) && negb (list_N_eqb name nm_27) &&
  negb (list_N_eqb name nm_25) && negb (list_N_eqb name nm_26) && negb (list_N_eqb name nm_0) &&
  negb (list_N_eqb name nm_22) && negb (is_formatter name).

(* names step_call treats as plain natives of arity 1 *)
Definition native1_ok (name : bytes) : bool :=
  negb (is_var_name name) && negb (list_N_eqb name nm_29) && negb (list_N_eqb name nm_24) &&
  negb (list_N_eqb name nm_12) && negb (is_formatter name).

(* side conditions.  [bs] is the table of jq-defined builtins: a native must not be shadowed by it *)
Fixpoint ok (bs : list funcdef) (m : mode) (p : pq) {struct p} : Prop :=
  match p with
  | PId | PIter | PEmpty | PError | POptIter | PRecurse0 | PDotDot => True
  | PIdx i | POptIdx i => index_key i <> None
  | PPipe a b | PComma a b | PAlt a b => ok bs m a /\ ok bs m b
  | PIf c a b => ok bs MPlain c /\ ok bs m a /\ ok bs m b
  | PIfNoElse c a | PLimit c a => ok bs MPlain c /\ ok bs m a
  | PSelect c => ok bs MPlain c
  | PIdxDyn e => ok bs MPlain e /\ query_index_key (emb e) = None
  | PGetpath e => ok bs MPlain e
  | PBind e x p => ok bs MPlain e /\ is_var_name x = true /\ ok bs m p
  | PTry p | PFirst p | PRecurse1 p => ok bs m p
  | PLit t => m = MPlain /\ is_lit t = true
  | PVar x => m = MPlain /\ is_var_name x = true
  | PBinop o a b => m = MPlain /\ binop_ok o = true /\ ok bs MPlain a /\ ok bs MPlain b
  | PNative0 name => m = MPlain /\ native0_ok name = true /\ lookup_builtin bs name 0 = None
  | PElif c a rest => ok bs MPlain c /\ ok bs m a /\ ok bs m rest /\ if_form rest = true
  | PSliceDyn ha hb a b =>
      (if ha then ok bs MPlain a else True) /\ (if hb then ok bs MPlain b else True) /\
      index_key (Index [] None (if ha then Some (emb a) else None) (if hb then Some (emb b) else None) true) = None
  | PBindArr e xs p => ok bs MPlain e /\ xs <> [] /\ Forall (fun x => is_var_name x = true) xs /\ ok bs m p
  | PBindObj e es p => ok bs MPlain e /\ es <> [] /\ Forall po_ok es /\ ok bs m p
  | PArray e => m = MPlain /\ ok bs MPlain e
  | PArray0 => m = MPlain
  | PReduce src x init upd => m = MPlain /\ is_var_name x = true /\ ok bs MPlain src /\ ok bs MPlain init /\ ok bs MPlain upd
  | PForeach src x init upd ext =>
      m = MPlain /\ is_var_name x = true /\ ok bs MPlain src /\ ok bs MPlain init /\ ok bs MPlain upd /\ ok bs MPlain ext
  | PBuiltin0 name b =>
      is_var_name name = false /\ lookup_builtin bs name 0 = Some (FuncDef name [] (emb b)) /\ ok bs m b
  | PNative1 name a => m = MPlain /\ native1_ok name = true /\ lookup_builtin bs name 1 = None /\ ok bs MPlain a
  | PChain h ss => match h with Some i => index_key i <> None | None => True end /\ Forall suf_ok ss
  end.

(* the path fragment *)
Definition pf (bs : list funcdef) (p : pq) : Prop := ok bs MPath p.

(* select as builtin.jq defines it: def select(f): if f then . else empty end; *)
Definition select_def : funcdef :=
  FuncDef (codes "select") [codes "f"]
    (q_term (TIf (q_call (codes "f") []) q_identity [] (Some (q_call (codes "empty") [])))).

Definition q_path (q : query) : query := q_call (codes "path") [q].

(* ------------------------------------------------------------------------------------------ *)
(* relating two runs *)

Definition res := ((unit + exn) * sst)%type.

(* the model gives no verdict: out of fuel / outside the model (XSkip: path identity undecidable at value
   level, step budget, ...) *)
Definition declined (r : res) : Prop :=
  match fst r with
  | inr XFuel | inr (XSkip _) => True
  | _ => False
  end.

Definition bump (s : sst) : sst :=
  mkst (outs s) (nout s) (cap s) (nextid s + 1)%N (inputs s) (cells s) (repsens s) (steps s).
Definition dec_steps (s : sst) : sst :=
  mkst (outs s) (nout s) (cap s) (nextid s) (inputs s) (cells s) (repsens s) (N.pred (steps s)).

(* Frames.  `//`, label (first, limit) and foreach (limit) keep a cell alive while their consumer runs; a label's
   id is the id of its (dummy) cell.  The two runs allocate DIFFERENT ids for corresponding frames (the path run
   also allocates navigation ids), so the relation between the runs is indexed by the stack of live frames
   (newest first), each with its id in the path run (f1) and in the plain run (f2). *)
Record frame := mkfr { f_lab : bool; f1 : N; f2 : N }.
Definition world := list frame.

Definition lab_in (w : world) (a b : N) : Prop :=
  exists fr, In fr w /\ f_lab fr = true /\ f1 fr = a /\ f2 fr = b.

(* environments of the fragment: variables and labels only; the two runs see the same values (the ids
   beside them may differ) and corresponding labels *)
Inductive env_rel (w : world) : env -> env -> Prop :=
| ER_nil : env_rel w [] []
| ER_var n v1 v2 r1 r2 : fst v1 = fst v2 -> env_rel w r1 r2 -> env_rel w (BVar n v1 :: r1) (BVar n v2 :: r2)
| ER_label n l1 l2 r1 r2 : lab_in w l1 l2 -> env_rel w r1 r2 -> env_rel w (BLabel n l1 :: r1) (BLabel n l2 :: r2).

(* the relation between the observable states of `path(p)` and `p` run on the same input [root]:
   same count, cap, remaining inputs, flags, budget; the k-th path emitted navigates [root] to the k-th value *)
Definition out_rel (root : jv) (q w : jv) : Prop :=
  exists path, q = VArr path /\ nav_path root path = NOk w.

Definition top_rel (root : jv) (s1 s2 : sst) : Prop :=
  nout s1 = nout s2 /\ cap s1 = cap s2 /\ inputs s1 = inputs s2 /\ repsens s1 = repsens s2 /\
  steps s1 = steps s2 /\ Forall2 (out_rel root) (outs s1) (outs s2).

(* ids of live frames: strictly decreasing from the newest, all below the id counter *)
Fixpoint desc (ids : list N) (bound : N) : Prop :=
  match ids with
  | [] => True
  | i :: r => (i < bound)%N /\ desc r i
  end.

Definition cell_val_rel (a b : N * tv) : Prop := fst (snd a) = fst (snd b).

(* the cells of the two runs are exactly the live frames, in order, and hold the same values *)
Definition cells_rel (w : world) (s1 s2 : sst) : Prop :=
  map fst (cells s1) = map f1 w /\ map fst (cells s2) = map f2 w /\
  Forall2 cell_val_rel (cells s1) (cells s2) /\
  desc (map f1 w) (nextid s1) /\ desc (map f2 w) (nextid s2).

Definition SR (root : jv) (w : world) (s1 s2 : sst) : Prop := top_rel root s1 s2 /\ cells_rel w s1 s2.

(* exceptions: the same, except that a break targets corresponding live labels *)
Definition xrel (w : world) (x1 x2 : exn) : Prop :=
  match x1, x2 with
  | XBreak a, XBreak b => lab_in w a b
  | XBreak _, _ | _, XBreak _ => False
  | _, _ => x1 = x2
  end.
Definition rrel (w : world) (r1 r2 : unit + exn) : Prop :=
  match r1, r2 with
  | inl _, inl _ => True
  | inr x1, inr x2 => xrel w x1 x2
  | _, _ => False
  end.

Definition push_cell (s : sst) (i : tv) : sst :=
  mkst (outs s) (nout s) (cap s) (nextid s + 1)%N (inputs s) ((nextid s, i) :: cells s) (repsens s) (steps s).
Definition restore_cell (sc : bool) (n0 c : N) (t : sst) : sst :=
  mkst (outs t) (nout t) (cap t) (if sc then n0 else nextid t) (inputs t) (cell_remove (cells t) c) (repsens t) (steps t).

(* what an ending says about a run: a verdict, or none *)
Definition verdict (e : ending) : Prop := match e with EndSkip _ => False | _ => True end.

(* ------------------------------------------------------------------------------------------ *)
(* well-formed values: what the decoder of JSON / the constructors of the language produce.  Objects are
   strictly sorted association lists (so a key occurs once), array lengths fit Go's int. *)
Fixpoint jv_wf (v : jv) : Prop :=
  match v with
  | VArr l => (zlen l <= max_int)%Z /\
              (fix all (l : list jv) : Prop := match l with [] => True | x :: r => jv_wf x /\ all r end) l
  | VObj kvs => obj_sorted kvs = true /\
                (fix all (l : list (bytes * jv)) : Prop :=
                   match l with [] => True | kv :: r => jv_wf (snd kv) /\ all r end) kvs
  | _ => True
  end.

(* ------------------------------------------------------------------------------------------ *)
(* the law on one program and one input, evaluated on the model (used by the examples of props/C02b.v):
   both runs give a verdict, end the same way, emit [nouts] outputs, and gojq's getpath (as modelled:
   Natives.fn_getpath) of every emitted path is the corresponding output *)
Definition law_on (bs : list funcdef) (fuel capn : nat) (q : query) (v : jv) (nouts : nat) : Prop :=
  let o1 := observe bs fuel capn false [] (q_path q) v in
  let o2 := observe bs fuel capn false [] q v in
  verdict (snd o1) /\ snd o1 = snd o2 /\ List.length (fst o1) = nouts /\
  map (fn_getpath v) (fst o1) = map NOk (fst o2).

(* builders for examples *)
Definition fld (s : string) : index := Index (codes s) None None None false.
Definition num_q (z : Z) : query := q_term (TNumber (codes "0") (NInt z)).
Definition idx (z : Z) : index := Index [] None (Some (num_q z)) None false.
Definition slc (a b : Z) : index := Index [] None (Some (num_q a)) (Some (num_q b)) true.
Definition obj1 (k : string) (v : jv) : jv := VObj [(codes k, v)].

(* recurse as builtin.jq defines it *)
Definition rec_r_def : funcdef :=
  FuncDef (codes "r") []
    (q_bin q_identity OpComma
       (q_term (TQuery (q_bin (q_call (codes "f") []) OpPipe (q_call (codes "r") []))))).
Definition recurse1_def : funcdef :=
  FuncDef (codes "recurse") [codes "f"]
    (Query [] [rec_r_def] (Some (Term (TFunc (Func (codes "r") [])) [])) None None None []).
Definition recurse0_def : funcdef :=
  FuncDef (codes "recurse") []
    (q_call (codes "recurse")
       [Query [] [] (Some (Term TIdentity [Suffix None true false; Suffix None false true])) None None None []]).

(* limit as builtin.jq defines it:
   def limit($n; g): if $n > 0 then label $out | foreach g as $item ($n; . - 1; $item, if . <= 0 then break $out else empty end)
                     elif $n == 0 then empty else error("limit doesn't support negative count") end; *)
Definition lim_msg : bytes := codes "limit doesn't support negative count".
Definition lim_zero : query := q_term (TNumber (codes "0") (NInt 0)).
Definition lim_ext : query :=
  q_bin (q_call (codes "$item") []) OpComma
        (q_term (TIf (q_bin q_identity OpLe lim_zero) (q_term (TBreak (codes "$out"))) [] (Some (q_call (codes "empty") [])))).
Definition lim_upd : query := q_bin q_identity OpSub (q_term (TNumber (codes "1") (NInt 1))).
Definition lim_foreach : query :=
  q_term (TForeach (q_call (codes "g") []) (Pattern (codes "$item") [] []) (q_call (codes "$n") []) lim_upd (Some lim_ext)).
Definition lim_body : query :=
  q_term (TIf (q_bin (q_call (codes "$n") []) OpGt lim_zero)
              (q_term (TLabel (codes "$out") lim_foreach))
              [(q_bin (q_call (codes "$n") []) OpEq lim_zero, q_call (codes "empty") [])]
              (Some (q_call (codes "error") [q_term (TString (JString lim_msg None))]))).
Definition limit_def : funcdef := FuncDef (codes "limit") [codes "$n"; codes "g"] lim_body.

(* the law for one program: C02, first clause, for the query q (any input, cap, fuels; runs with a verdict) *)
Definition path_law (bs : list funcdef) (q : query) : Prop :=
  forall n1 n2 capn rs ins v, jv_wf v ->
  verdict (snd (observe bs n1 capn rs ins (q_path q) v)) ->
  verdict (snd (observe bs n2 capn rs ins q v)) ->
  snd (observe bs n1 capn rs ins (q_path q) v) = snd (observe bs n2 capn rs ins q v) /\
  Forall2 (out_rel v) (fst (observe bs n1 capn rs ins (q_path q) v)) (fst (observe bs n2 capn rs ins q v)).

(* the same with gojq's getpath (as modelled): getpath of the k-th path is the k-th value, unless the path navigates
   from a string (D10) *)
Definition out_getpath (root : jv) (q w : jv) : Prop :=
  exists path, q = VArr path /\ (fn_getpath root (VArr path) = NOk w \/ str_nav root path = true).
Definition path_law_getpath (bs : list funcdef) (q : query) : Prop :=
  forall n1 n2 capn rs ins v, jv_wf v ->
  verdict (snd (observe bs n1 capn rs ins (q_path q) v)) ->
  verdict (snd (observe bs n2 capn rs ins q v)) ->
  snd (observe bs n1 capn rs ins (q_path q) v) = snd (observe bs n2 capn rs ins q v) /\
  Forall2 (out_getpath v) (fst (observe bs n1 capn rs ins (q_path q) v)) (fst (observe bs n2 capn rs ins q v)).

(* what the theorems need of the table of jq-defined builtins (true of builtin.jq: props/C02b.v) *)
Definition builtins_ok (bs : list funcdef) : Prop :=
  lookup_builtin bs (codes "empty") 0 = None /\ lookup_builtin bs (codes "path") 1 = None /\
  lookup_builtin bs (codes "error") 0 = None /\ lookup_builtin bs (codes "getpath") 1 = None /\
  lookup_builtin bs (codes "select") 1 = Some select_def /\
  lookup_builtin bs (codes "first") 1 = Some first_def /\
  lookup_builtin bs (codes "recurse") 1 = Some recurse1_def /\
  lookup_builtin bs (codes "recurse") 0 = Some recurse0_def /\
  lookup_builtin bs (codes "limit") 2 = Some limit_def /\
  lookup_builtin bs (codes "error") 1 = None.

(* builders for examples *)
Definition pfld (s : string) : pq := PIdx (fld s).
Definition pidx (z : Z) : pq := PIdx (idx z).
Definition lnum (z : Z) : pq := PLit (TNumber (codes "0") (NInt z)).
Definition lstr (s : string) : pq := PLit (TString (JString (codes s) None)).
Definition vs (s : string) : jv := VStr (codes s).
Definition obj2 (k1 : string) (v1 : jv) (k2 : string) (v2 : jv) : jv := VObj [(codes k1, v1); (codes k2, v2)].

(* some parameterless builtins of builtin.jq, with their bodies as terms of the fragment *)
Definition b_typesel (name ty : string) : pq :=
  PBuiltin0 (codes name) (PSelect (PBinop OpEq (PNative0 (codes "type")) (lstr ty))).
Definition b_numbers : pq := b_typesel "numbers" "number".
Definition b_strings : pq := b_typesel "strings" "string".
Definition b_arrays : pq := b_typesel "arrays" "array".
Definition b_objects : pq := b_typesel "objects" "object".
Definition b_booleans : pq := b_typesel "booleans" "boolean".
Definition b_values : pq := PBuiltin0 (codes "values") (PSelect (PBinop OpNe PId (PLit TNull))).
Definition b_nulls : pq := PBuiltin0 (codes "nulls") (PSelect (PBinop OpEq PId (PLit TNull))).
Definition b_scalars : pq :=
  PBuiltin0 (codes "scalars")
    (PSelect (PPipe (PNative0 (codes "type")) (PBinop OpAnd (PBinop OpNe PId (lstr "array")) (PBinop OpNe PId (lstr "object"))))).
Definition b_iterables : pq :=
  PBuiltin0 (codes "iterables")
    (PSelect (PPipe (PNative0 (codes "type")) (PBinop OpOr (PBinop OpEq PId (lstr "array")) (PBinop OpEq PId (lstr "object"))))).
Definition b_not : pq := PBuiltin0 (codes "not") (PIf PId (PLit TFalse) (PLit TTrue)).
Definition b_first0 : pq := PBuiltin0 (codes "first") (pidx 0).
