(* DenLink2.v — the Sem side of the link Sem <-> c01vm2.Den <-> VM (coq/c01vm2), definitions and structural lemmas.
   qz extends DenLink.q0 (same constructors, same order) with the constructs of c01vm2's fragment F3 that q0 lacks:
   the literals [] and {}, t[k] with any constant key, t[q], t[a:b], tostring / tojson (what string interpolation
   applies), object construction and destructuring `as`.  den2 is the eager list semantics over Sem's values,
   clause by clause like coq/c01vm2/Den.v.  The per-construct agreement lemmas Sem = den2 are in DenLink2Old.v
   (the constructs of q0, proofs transcribed from DenLink.v) and DenLink2New.v (the new constructs);
   DenLink2All.v assembles them.  DenLink.v is imported read-only for everything that does not mention q0. *)
From Coq Require Import String.
From Coq Require Import List ZArith NArith Bool Lia.
From Verif Require Import common.Sexp sem.JV sem.Syntax sem.Natives sem.Sem sem.SemProofs sem.DenLink.
Import ListNotations.

(* destructuring patterns without computed keys (c01vm2.Syntax.pattern): $x, [p, ...], {k: p, $x: p} *)
Inductive pat2 :=
| P2Var (x : bytes)                       (* x carries the $ *)
| P2Arr (l : parr2)
| P2Obj (l : pobj2)
with parr2 := A2Nil | A2Cons (p : pat2) (r : parr2)
with pobj2 := O2Nil
  | O2Key (k : bytes) (p : pat2) (r : pobj2)        (* "k": p *)
  | O2KeyVar (x : bytes) (p : pat2) (r : pobj2).    (* $x: p   (x carries the $; the key is x without it) *)

Inductive qz :=
| Z2Id
| Z2Null | Z2Bool (b : bool) | Z2Num (t : bytes) (n : num) | Z2Str (s : bytes)
| Z2Pipe (a b : qz)
| Z2Comma (a b : qz)
| Z2Empty
| Z2Iter (t : qz)
| Z2Field (t : qz) (c : N) (k : bytes)
| Z2If (c a b : qz)
| Z2Try (a : qz) (h : option qz)
| Z2Error | Z2Length
| Z2Bind (src : qz) (x : bytes) (body : qz)
| Z2Var (x : bytes)
| Z2Array (q : qz)
| Z2Reduce (src : qz) (x : bytes) (init upd : qz)
| Z2Alt (a b : qz)
| Z2Foreach (src : qz) (x : bytes) (init upd : qz) (ext : option qz)
| Z2Label (nm : bytes) (body : qz)
| Z2Break (nm : bytes)
| Z2Binop (o : operator) (a b : qz)
(* ---- new with respect to DenLink.q0 ---- *)
| Z2EmptyArr                               (* [] *)
| Z2EmptyObj                               (* {} *)
| Z2IndexK (t : qz) (i : index)            (* t[k], t.k, t."k", t[a:b] with a constant key: index_key i = Some key *)
| Z2IndexQ (t iq : qz)                     (* t[q], q not a literal *)
| Z2Slice (t : qz) (a b : option qz)       (* t[a:b], not both bounds literal / absent *)
| Z2ToString | Z2ToJson
| Z2Object (es : ents2)                    (* {e1, ..., en}, n >= 1 *)
| Z2BindP (src : qz) (pt : pat2) (body : qz)   (* src as PATTERN | body *)
with ents2 := E2Nil
  | E2K (k : bytes) (v : qz) (r : ents2)   (* "k": v *)
  | E2Q (kq v : qz) (r : ents2).           (* (kq): v *)

Fixpoint embp (p : pat2) : pattern :=
  match p with
  | P2Var x => Pattern x [] []
  | P2Arr l => Pattern [] (embpa l) []
  | P2Obj l => Pattern [] [] (embpo l)
  end
with embpa (l : parr2) : list pattern :=
  match l with A2Nil => [] | A2Cons p r => embp p :: embpa r end
with embpo (l : pobj2) : list patternobject :=
  match l with
  | O2Nil => []
  | O2Key k p r => PatternObject [] (Some (JString k None)) None (Some (embp p)) :: embpo r
  | O2KeyVar x p r => PatternObject x None None (Some (embp p)) :: embpo r
  end.

(* the AST shapes (every compound operand in parentheses) *)
Fixpoint emb2 (q : qz) : query :=
  match q with
  | Z2Id => q_identity
  | Z2Null => q_term TNull
  | Z2Bool true => q_term TTrue
  | Z2Bool false => q_term TFalse
  | Z2Num t n => q_term (TNumber t n)
  | Z2Str s => q_term (TString (JString s None))
  | Z2Pipe a b => q_bin (emb2 a) OpPipe (emb2 b)
  | Z2Comma a b => q_bin (emb2 a) OpComma (emb2 b)
  | Z2Empty => q_call (codes "empty") []
  | Z2Iter t => Query [] [] (Some (Term (TQuery (emb2 t)) [Suffix None true false])) None None None []
  | Z2Field t c k => Query [] [] (Some (Term (TQuery (emb2 t)) [Suffix (Some (Index (c :: k) None None None false)) false false])) None None None []
  | Z2If c a b => q_term (TIf (emb2 c) (emb2 a) [] (Some (emb2 b)))
  | Z2Try a h => q_term (TTry (emb2 a) (option_map emb2 h))
  | Z2Error => q_call (codes "error") []
  | Z2Length => q_call (codes "length") []
  | Z2Bind src x body => Query [] [] None (Some (emb2 src)) (Some OpPipe) (Some (emb2 body)) [Pattern x [] []]
  | Z2Var x => q_call x []
  | Z2Array q => q_term (TArray (Some (emb2 q)))
  | Z2Reduce src x init upd => q_term (TReduce (emb2 src) (Pattern x [] []) (emb2 init) (emb2 upd))
  | Z2Alt a b => q_bin (emb2 a) OpAlt (emb2 b)
  | Z2Foreach src x init upd ext => q_term (TForeach (emb2 src) (Pattern x [] []) (emb2 init) (emb2 upd) (option_map emb2 ext))
  | Z2Label nm body => q_term (TLabel nm (emb2 body))
  | Z2Break nm => q_term (TBreak nm)
  | Z2Binop o a b => q_bin (emb2 a) o (emb2 b)
  | Z2EmptyArr => q_term (TArray None)
  | Z2EmptyObj => q_term (TObject [])
  | Z2IndexK t i => Query [] [] (Some (Term (TQuery (emb2 t)) [Suffix (Some i) false false])) None None None []
  | Z2IndexQ t q => Query [] [] (Some (Term (TQuery (emb2 t)) [Suffix (Some (Index [] None (Some (emb2 q)) None false)) false false])) None None None []
  | Z2Slice t a b => Query [] [] (Some (Term (TQuery (emb2 t)) [Suffix (Some (Index [] None (option_map emb2 a) (option_map emb2 b) true)) false false])) None None None []
  | Z2ToString => q_call (codes "tostring") []
  | Z2ToJson => q_call (codes "tojson") []
  | Z2Object es => q_term (TObject (embe es))
  | Z2BindP src p body => Query [] [] None (Some (emb2 src)) (Some OpPipe) (Some (emb2 body)) [embp p]
  end
with embe (es : ents2) : list objectkeyval :=
  match es with
  | E2Nil => []
  | E2K k v r => ObjectKeyVal [] (Some (JString k None)) None (Some (emb2 v)) :: embe r
  | E2Q kq v r => ObjectKeyVal [] None (Some (emb2 kq)) (Some (emb2 v)) :: embe r
  end.

Section Den2.
Variable rs : bool.

(* tostring / tojson show the Go representation of numbers: Sem declines when the run is representation-sensitive *)
Definition fmt_res (f : jv -> nres) (v : jv) : result :=
  if rs && has_number (S (jv_depth v)) v then ([], Some (XSkip (codes "number-representation")))
  else of_nres rs (f v).

(* destructuring: the bindings a pattern makes on a value, the last one first (as c01vm2.Den.pmatch), or how the
   failing access ends; Sem threads the environment through the pattern, which only ever pushes variables *)
Definition nres_exn (r : nres) : jv + exn :=
  match r with
  | NOk w => inl w
  | NErr c val => inr (XErr O c (mask rs c val))
  | NSkip why => inr (XSkip why)
  end.
Fixpoint pmb (p : pat2) (w : jv) : list binding + exn :=
  match p with
  | P2Var x => inl [BVar x (plain w)]
  | P2Arr l => pmba l 0%Z w
  | P2Obj l => pmbo l w
  end
with pmba (l : parr2) (i : Z) (w : jv) : list binding + exn :=
  match l with
  | A2Nil => inl []
  | A2Cons p r =>
      match nres_exn (fn_indexarray w i) with
      | inl wi => match pmb p wi with
                  | inl b1 => match pmba r (i + 1)%Z w with inl b2 => inl (b2 ++ b1) | inr e => inr e end
                  | inr e => inr e end
      | inr e => inr e
      end
  end
with pmbo (l : pobj2) (w : jv) : list binding + exn :=
  match l with
  | O2Nil => inl []
  | O2Key k p r =>
      match nres_exn (fn_index2 w (VStr k)) with
      | inl wk => match pmb p wk with
                  | inl b1 => match pmbo r w with inl b2 => inl (b2 ++ b1) | inr e => inr e end
                  | inr e => inr e end
      | inr e => inr e
      end
  | O2KeyVar x p r =>
      match nres_exn (fn_index2 w (VStr (strip_dollar x))) with
      | inl wk => match pmb p wk with
                  | inl b1 => match pmbo r w with inl b2 => inl (b2 ++ b1 ++ [BVar x (plain wk)]) | inr e => inr e end
                  | inr e => inr e end
      | inr e => inr e
      end
  end.
(* compileBind binds every variable of the pattern to null first (what an alternative of ?// that does not bind it sees) *)
Definition nulls2 (p : pat2) (rho : env) : env :=
  fold_left (fun acc nm => BVar nm (plain VNull) :: acc) (flat_map (pattern_vars syn_depth) [embp p]) rho.


Fixpoint den2 (q : qz) (rho : env) (v : jv) {struct q} : result :=
  match q with
  | Z2Id => ([v], None)
  | Z2Null => ([VNull], None)
  | Z2Bool b => ([VBool b], None)
  | Z2Num _ n => ([VNum n], None)
  | Z2Str s => ([VStr s], None)
  | Z2Pipe a b => rbind (den2 a rho v) (den2 b rho)
  | Z2Comma a b => rseq (den2 a rho v) (den2 b rho v)
  | Z2Empty => ([], None)
  | Z2Iter t => rbind (den2 t rho v) (iter_res rs)
  | Z2Field t c k => rbind (den2 t rho v) (fun w => of_nres rs (fn_index2 w (VStr (c :: k))))
  | Z2If c a b => rbind (den2 c rho v) (fun w => if truthy w then den2 a rho v else den2 b rho v)
  | Z2Try a h =>
      match den2 a rho v with
      | (ws, Some (XErr O c val)) =>
          match h with
          | None => (ws, None)
          | Some h => match val with
                      | Some e => rseq (ws, None) (den2 h rho e)
                      | None => (ws, Some (XSkip (codes "error-message")))
                      end
          end
      | r => r
      end
  | Z2Error => ([], Some (XErr O EUser (Some v)))
  | Z2Length => of_nres rs (fn_length v)
  | Z2Bind src x body => rbind (den2 src rho v) (fun w => den2 body (bind_env rho x w) v)
  | Z2Var x => match lookup_var rho x with Some w => ([fst w], None) | None => ([], Some (XSkip (codes "undefined-variable"))) end
  | Z2Array q =>
      match den2 q rho v with
      | (ws, None) => ([VArr ws], None)
      | (_, Some x) => ([], Some x)
      end
  | Z2Reduce src x init upd =>
      rbind (den2 init rho v) (fun s0 =>
        let '(ws, sx) := den2 src rho v in
        match reduce_fold0 (fun w acc => den2 upd (BVar x (plain w) :: rho) acc) ws s0 with
        | inr e => ([], Some e)
        | inl acc => match sx with Some e => ([], Some e) | None => ([acc], None) end
        end)
  | Z2Alt a b =>
      let '(ws, x) := den2 a rho v in
      let ts := filter truthy ws in
      match x with
      | Some e => (ts, Some e)
      | None => match ts with [] => den2 b rho v | _ => (ts, None) end
      end
  | Z2Foreach src x init upd ext =>
      rbind (den2 init rho v) (fun s0 =>
        let '(ws, sx) := den2 src rho v in
        rseq (foreach_fold0 (fun w acc => den2 upd (BVar x (plain w) :: rho) acc)
                (fun w u => match ext with Some e => den2 e (BVar x (plain w) :: rho) u | None => ([u], None) end)
                ws s0)
             ([], sx))
  | Z2Label nm body => label_res (lab_bound rho) (den2 body (BLabel nm (lab_bound rho) :: rho) v)
  | Z2Break nm => match lookup_label rho nm with
                  | Some l => ([], Some (XBreak l))
                  | None => ([], Some (XSkip (codes "undefined-label")))
                  end
  | Z2Binop o a b => rbind (den2 b rho v) (fun r => rbind (den2 a rho v) (fun l => binop_res rs o l r))
  | Z2EmptyArr => ([VArr []], None)
  | Z2EmptyObj => ([VObj []], None)
  | Z2IndexK t i =>
      match index_key i with
      | Some key => rbind (den2 t rho v) (fun w => of_nres rs (fn_index2 w key))
      | None => ([], Some (XSkip (codes "not-a-constant-key")))
      end
  (* t[q], t[a:b]: the index / the bounds before the term (start, then end, then t) *)
  | Z2IndexQ t q => rbind (den2 q rho v) (fun ix => rbind (den2 t rho v) (fun w => of_nres rs (fn_index2 w ix)))
  | Z2Slice t a b =>
      rbind (match a with Some a => den2 a rho v | None => ([VNull], None) end) (fun sv =>
        rbind (match b with Some b => den2 b rho v | None => ([VNull], None) end) (fun ev =>
          rbind (den2 t rho v) (fun w => of_nres rs (fn_slice w ev sv))))
  | Z2ToString => fmt_res fn_tostring v
  | Z2ToJson => fmt_res fn_tojson v
  | Z2Object es => den_ents2 es rho v []
  | Z2BindP src p body => rbind (den2 src rho v) (fun w => match pmb p w with inl bl => den2 body (bl ++ nulls2 p rho) v | inr x => ([], Some x) end)
  end
with den_ents2 (es : ents2) (rho : env) (v : jv) (acc : list (jv * jv)) {struct es} : result :=
  match es with
  | E2Nil => match build_object (rev acc) [] with
             | Some o => ([VObj o], None)
             | None => ([], Some (XErr O EObjectKeyNotString None))
             end
  | E2K k qv r => rbind (den2 qv rho v) (fun x => den_ents2 r rho v ((VStr k, x) :: acc))
  | E2Q kq qv r => rbind (den2 kq rho v) (fun kx => rbind (den2 qv rho v) (fun x => den_ents2 r rho v ((kx, x) :: acc)))
  end.

End Den2.

(* well-formed patterns: variables carry the $, no empty array / object pattern (compiler.go: "invalid pattern") *)
Fixpoint okp (p : pat2) : Prop :=
  match p with
  | P2Var x => is_var_name x = true
  | P2Arr l => l <> A2Nil /\ okpa l
  | P2Obj l => l <> O2Nil /\ okpo l
  end
with okpa (l : parr2) : Prop := match l with A2Nil => True | A2Cons p r => okp p /\ okpa r end
with okpo (l : pobj2) : Prop :=
  match l with
  | O2Nil => True
  | O2Key k p r => okp p /\ okpo r
  | O2KeyVar x p r => is_var_name x = true /\ okp p /\ okpo r
  end.
Fixpoint pdepth (p : pat2) : nat :=
  match p with
  | P2Var _ => 1
  | P2Arr l => S (pdeptha l)
  | P2Obj l => S (pdeptho l)
  end
with pdeptha (l : parr2) : nat := match l with A2Nil => 0 | A2Cons p r => Nat.max (pdepth p) (pdeptha r) end
with pdeptho (l : pobj2) : nat :=
  match l with O2Nil => 0 | O2Key _ p r | O2KeyVar _ p r => Nat.max (pdepth p) (pdeptho r) end.

Fixpoint ok2 (q : qz) : Prop :=
  match q with
  | Z2Pipe a b | Z2Comma a b => ok2 a /\ ok2 b
  | Z2Iter t | Z2Field t _ _ => ok2 t
  | Z2If c a b => ok2 c /\ ok2 a /\ ok2 b
  | Z2Try a h => ok2 a /\ match h with Some h => ok2 h | None => True end
  | Z2Bind src x body => is_var_name x = true /\ ok2 src /\ ok2 body
  | Z2Var x => is_var_name x = true /\ list_N_eqb x (codes "$ENV") = false
  | Z2Array q => ok2 q
  | Z2Reduce src x init upd => is_var_name x = true /\ ok2 src /\ ok2 init /\ ok2 upd
  | Z2Alt a b => ok2 a /\ ok2 b
  | Z2Foreach src x init upd ext => is_var_name x = true /\ ok2 src /\ ok2 init /\ ok2 upd /\ match ext with Some e => ok2 e | None => True end
  | Z2Label _ body => ok2 body
  | Z2Binop o a b => is_arith o = true /\ ok2 a /\ ok2 b
  | Z2IndexK t i => index_key i <> None /\ ok2 t
  | Z2IndexQ t q => query_index_key (emb2 q) = None /\ ok2 t /\ ok2 q
  | Z2Slice t a b => index_key (Index [] None (option_map emb2 a) (option_map emb2 b) true) = None /\ ok2 t /\
                     match a with Some a => ok2 a | None => True end /\ match b with Some b => ok2 b | None => True end
  | Z2Object es => ok_ents es
  | Z2BindP src p body => okp p /\ ok2 src /\ ok2 body
  | _ => True
  end
with ok_ents (es : ents2) : Prop :=
  match es with
  | E2Nil => True
  | E2K k v r => ok2 v /\ ok_ents r
  | E2Q kq v r => ok2 kq /\ ok2 v /\ ok_ents r
  end.

Fixpoint need2 (q : qz) : nat :=
  match q with
  | Z2Pipe a b | Z2Comma a b => S (Nat.max (need2 a) (need2 b))
  | Z2Iter t | Z2Field t _ _ => 4 + need2 t
  | Z2If c a b => 3 + Nat.max (need2 c) (Nat.max (need2 a) (need2 b))
  | Z2Try a h => 3 + Nat.max (need2 a) (match h with Some h => need2 h | None => 0 end)
  | Z2Bind src x body => 3 + Nat.max (need2 src) (need2 body)
  | Z2Array q => 3 + need2 q
  | Z2Reduce src x init upd => 4 + Nat.max (need2 src) (Nat.max (need2 init) (need2 upd))
  | Z2Alt a b => 2 + Nat.max (need2 a) (need2 b)
  | Z2Foreach src x init upd ext => 4 + Nat.max (need2 src) (Nat.max (need2 init) (Nat.max (need2 upd) (match ext with Some e => need2 e | None => 0 end)))
  | Z2Label _ body => 3 + need2 body
  | Z2Binop _ a b => S (Nat.max (need2 a) (need2 b))
  | Z2IndexK t i => 4 + need2 t
  | Z2IndexQ t q => 5 + Nat.max (need2 t) (need2 q)
  | Z2Slice t a b => 5 + Nat.max (need2 t) (Nat.max (match a with Some a => need2 a | None => 0 end) (match b with Some b => need2 b | None => 0 end))
  | Z2Object es => 3 + need_ents es
  | Z2BindP src p body => 3 + Nat.max (need2 src) (Nat.max (need2 body) (pdepth p))
  | _ => 4
  end
with need_ents (es : ents2) : nat :=
  match es with
  | E2Nil => 0
  | E2K k v r => Nat.max (need2 v) (need_ents r)
  | E2Q kq v r => Nat.max (need2 kq) (Nat.max (need2 v) (need_ents r))
  end.

Section Link2.
Variable bs : list funcdef.
Variable rs : bool.

Definition sim2 (q : qz) : Prop :=
  forall (n : nat) rho v k s (Inv : sst -> Prop), (need2 q <= n)%nat -> vars_only rho ->
    inv_ok rs Inv -> K_ok Inv k -> (forall s', Inv s' -> (lab_bound rho <= nextid s')%N) -> Inv s ->
    eval_q bs n rho (emb2 q) (plain v) None k s = run_res k (den2 rs q rho v) s.

Ltac trivb := let E := fresh "E" in intros ? E; cbn in E; congruence.
Ltac triv0 := let E := fresh "E" in intros ? ? ? E; cbn in E; congruence.


(* ---- binding lists made of plain variables (what patterns push) ---- *)
Definition bvp (b : binding) : Prop := match b with BVar _ (_, None) => True | _ => False end.

Scheme pat2_mut := Induction for pat2 Sort Prop
  with parr2_mut := Induction for parr2 Sort Prop
  with pobj2_mut := Induction for pobj2 Sort Prop.
Combined Scheme pat2_mutind from pat2_mut, parr2_mut, pobj2_mut.

Lemma nres_exn_err r x : nres_exn rs r = inr x -> (exists c val, x = XErr O c val) \/ (exists why, x = XSkip why).
Proof. destruct r; cbn; intros E; try discriminate; injection E as <-; [left|right]; eauto. Qed.

Definition err_or_skip (x : exn) : Prop := (exists c val, x = XErr O c val) \/ (exists why, x = XSkip why).

Lemma pmba_cons p r i w : pmba rs (A2Cons p r) i w =
  match nres_exn rs (fn_indexarray w i) with
  | inl wi => match pmb rs p wi with
              | inl b1 => match pmba rs r (i + 1)%Z w with inl b2 => inl (b2 ++ b1) | inr e => inr e end
              | inr e => inr e end
  | inr e => inr e
  end.
Proof. reflexivity. Qed.
Lemma pmbo_key k p r w : pmbo rs (O2Key k p r) w =
  match nres_exn rs (fn_index2 w (VStr k)) with
  | inl wk => match pmb rs p wk with
              | inl b1 => match pmbo rs r w with inl b2 => inl (b2 ++ b1) | inr e => inr e end
              | inr e => inr e end
  | inr e => inr e
  end.
Proof. reflexivity. Qed.
Lemma pmbo_keyvar x p r w : pmbo rs (O2KeyVar x p r) w =
  match nres_exn rs (fn_index2 w (VStr (strip_dollar x))) with
  | inl wk => match pmb rs p wk with
              | inl b1 => match pmbo rs r w with inl b2 => inl (b2 ++ b1 ++ [BVar x (plain wk)]) | inr e => inr e end
              | inr e => inr e end
  | inr e => inr e
  end.
Proof. reflexivity. Qed.
Lemma pmb_arr l w : pmb rs (P2Arr l) w = pmba rs l 0%Z w. Proof. reflexivity. Qed.
Lemma pmb_obj l w : pmb rs (P2Obj l) w = pmbo rs l w. Proof. reflexivity. Qed.

Lemma pmb_props :
  (forall p w, match pmb rs p w with inl bl => Forall bvp bl | inr x => err_or_skip x end) /\
  (forall l i w, match pmba rs l i w with inl bl => Forall bvp bl | inr x => err_or_skip x end) /\
  (forall l w, match pmbo rs l w with inl bl => Forall bvp bl | inr x => err_or_skip x end).
Proof.
  apply pat2_mutind.
  - intros x w. cbn. repeat constructor.
  - intros l IH w. rewrite pmb_arr. apply IH.
  - intros l IH w. rewrite pmb_obj. apply IH.
  - intros i w. cbn. constructor.
  - intros p IHp r IHr i w. rewrite pmba_cons.
    destruct (nres_exn rs (fn_indexarray w i)) as [wi|x] eqn:E; [|eapply nres_exn_err; exact E].
    specialize (IHp wi). destruct (pmb rs p wi) as [b1|x]; [|exact IHp].
    specialize (IHr (i + 1)%Z w). destruct (pmba rs r (i + 1)%Z w) as [b2|x]; [|exact IHr].
    apply Forall_app. split; assumption.
  - intros w. cbn. constructor.
  - intros k p IHp r IHr w. rewrite pmbo_key.
    destruct (nres_exn rs (fn_index2 w (VStr k))) as [wk|x] eqn:E; [|eapply nres_exn_err; exact E].
    specialize (IHp wk). destruct (pmb rs p wk) as [b1|x]; [|exact IHp].
    specialize (IHr w). destruct (pmbo rs r w) as [b2|x]; [|exact IHr].
    apply Forall_app. split; assumption.
  - intros x p IHp r IHr w. rewrite pmbo_keyvar.
    destruct (nres_exn rs (fn_index2 w (VStr (strip_dollar x)))) as [wk|y] eqn:E; [|eapply nres_exn_err; exact E].
    specialize (IHp wk). destruct (pmb rs p wk) as [b1|y]; [|exact IHp].
    specialize (IHr w). destruct (pmbo rs r w) as [b2|y]; [|exact IHr].
    apply Forall_app. split; [assumption|]. apply Forall_app. split; [assumption|]. repeat constructor.
Qed.

Definition nulls_l (p : pat2) : list binding :=
  rev (map (fun nm => BVar nm (plain VNull)) (flat_map (pattern_vars syn_depth) [embp p])).
Lemma nulls2_eq p rho : nulls2 p rho = nulls_l p ++ rho.
Proof.
  unfold nulls2, nulls_l. generalize (flat_map (pattern_vars syn_depth) [embp p]). intros l. revert rho.
  induction l as [|x l IH]; intros rho; [reflexivity|]. cbn [fold_left map rev]. rewrite IH, <- app_assoc. reflexivity.
Qed.
Lemma nulls_l_bvp p : Forall bvp (nulls_l p).
Proof.
  unfold nulls_l. generalize (flat_map (pattern_vars syn_depth) [embp p]). intros l.
  apply Forall_rev. induction l as [|x l IH]; constructor; [exact I|exact IH].
Qed.

Lemma bvp_lab_ids bl rho : Forall bvp bl -> lab_ids (bl ++ rho) = lab_ids rho.
Proof. induction 1 as [|b bl Hb _ IH]; [reflexivity|]. destruct b as [nm [x [i|]]| | |]; try contradiction. exact IH. Qed.
Lemma bvp_lab_bound bl rho : Forall bvp bl -> lab_bound (bl ++ rho) = lab_bound rho.
Proof. induction 1 as [|b bl Hb _ IH]; [reflexivity|]. destruct b as [nm [x [i|]]| | |]; try contradiction. exact IH. Qed.
Lemma bvp_vars_only bl rho : Forall bvp bl -> vars_only rho -> vars_only (bl ++ rho).
Proof. induction 1 as [|b bl Hb _ IH]; [auto|]. destruct b as [nm [x [i|]]| | |]; try contradiction. exact IH. Qed.
Lemma bvp_ren f bl rho : Forall bvp bl -> ren_env f (bl ++ rho) = bl ++ ren_env f rho.
Proof.
  induction 1 as [|b bl Hb _ IH]; [reflexivity|]. destruct b as [nm [x [i|]]| | |]; try contradiction.
  cbn [app ren_env map ren_b]. f_equal. exact IH.
Qed.
Lemma bvp_lookup_label bl rho nm : Forall bvp bl -> lookup_label (bl ++ rho) nm = lookup_label rho nm.
Proof. induction 1 as [|b bl Hb _ IH]; [reflexivity|]. destruct b as [n0 [x [i|]]| | |]; try contradiction. exact IH. Qed.

(* the environment of the body of `src as PATTERN | body` *)
Lemma penv_eq p bl rho : bl ++ nulls2 p rho = (bl ++ nulls_l p) ++ rho.
Proof. rewrite nulls2_eq, app_assoc. reflexivity. Qed.
Lemma penv_bvp p w bl : pmb rs p w = inl bl -> Forall bvp (bl ++ nulls_l p).
Proof.
  intros E. apply Forall_app. split; [|apply nulls_l_bvp]. pose proof (proj1 pmb_props p w) as H. rewrite E in H. exact H.
Qed.
Lemma pmb_err p w x : pmb rs p w = inr x -> err_or_skip x.
Proof. intros E. pose proof (proj1 pmb_props p w) as H. rewrite E in H. exact H. Qed.

Lemma fmt_res_brk ids f v : brk_in ids (fmt_res rs f v).
Proof. unfold fmt_res. destruct (rs && _); [trivb|destruct (f v); trivb]. Qed.
Lemma fmt_res_depth0 f v : depth0 (fmt_res rs f v).
Proof. unfold fmt_res. destruct (rs && _); [triv0|destruct (f v); triv0]. Qed.

Fixpoint den2_brk (q : qz) : forall rho v, brk_in (lab_ids rho) (den2 rs q rho v)
with den_ents2_brk (es : ents2) : forall rho v acc, brk_in (lab_ids rho) (den_ents2 rs es rho v acc).
Proof.
  {
  destruct q; intros rho v; cbn [den2]; try trivb.
  - apply brk_in_rbind; [apply den2_brk|intros w; apply den2_brk].
  - apply brk_in_rseq; apply den2_brk.
  - apply brk_in_rbind; [apply den2_brk|intros w]. destruct w; trivb.
  - apply brk_in_rbind; [apply den2_brk|intros w]. destruct (fn_index2 w (VStr (c :: k))); trivb.
  - apply brk_in_rbind; [apply den2_brk|intros w]. destruct (truthy w); apply den2_brk.
  - pose proof (den2_brk q rho v) as IH. destruct (den2 rs q rho v) as [ws [[[|d] c val| | | | |]|]]; try exact IH.
    destruct h as [h|]; [|trivb].
    destruct val as [e|]; [|trivb].
    apply brk_in_rseq; [trivb|]. apply den2_brk.
  - destruct (fn_length v); trivb.
  - apply brk_in_rbind; [apply den2_brk|intros w]. apply (den2_brk q2 (bind_env rho x w) v).
  - destruct (lookup_var rho x); trivb.
  - pose proof (den2_brk q rho v) as IH. destruct (den2 rs q rho v) as [ws [x|]]; [|trivb].
    intros l E. cbn in E. apply IH. exact E.
  - apply brk_in_rbind; [apply den2_brk|intros s0].
    pose proof (den2_brk q1 rho v) as IHs. destruct (den2 rs q1 rho v) as [ws sx].
    destruct (reduce_fold0 _ ws s0) as [acc|e] eqn:ER.
    + destruct sx as [e|]; [|trivb]. intros l E. cbn in E. apply IHs. exact E.
    + intros l E. cbn in E. injection E as ->.
      eapply reduce_fold0_brk; [|exact ER]. intros w acc. apply (den2_brk q3 (BVar x (plain w) :: rho) acc).
  - pose proof (den2_brk q1 rho v) as IHa. destruct (den2 rs q1 rho v) as [ws [x|]].
    + intros l E. cbn in E. apply IHa. exact E.
    + destruct (filter truthy ws); [apply den2_brk|trivb].
  - apply brk_in_rbind; [apply den2_brk|intros s0].
    pose proof (den2_brk q1 rho v) as IHs. destruct (den2 rs q1 rho v) as [ws sx].
    apply brk_in_rseq; [|exact IHs].
    apply foreach_fold0_brk; [intros w acc; apply (den2_brk q3 (BVar x (plain w) :: rho) acc)|].
    intros w u. destruct ext as [e|]; [apply (den2_brk e (BVar x (plain w) :: rho) u)|trivb].
  - pose proof (den2_brk q (BLabel nm (lab_bound rho) :: rho) v) as IH. cbn [lab_ids] in IH.
    destruct (den2 rs q (BLabel nm (lab_bound rho) :: rho) v) as [ws [[d c val|l| | | |]|]]; cbn [label_res]; try trivb.
    destruct (N.eqb_spec l (lab_bound rho)) as [E|Hne]; [trivb|].
    intros l' E. cbn in E. injection E as <-. destruct (IH l eq_refl) as [H|H]; [congruence|exact H].
  - destruct (lookup_label rho nm) as [l|] eqn:E; [|trivb]. intros l' E'. cbn in E'. injection E' as <-.
    eapply lookup_label_in. exact E.
  - apply brk_in_rbind; [apply den2_brk|intros r]. apply brk_in_rbind; [apply den2_brk|intros l].
    unfold binop_res. destruct (op_binop o) as [f|]; [destruct (f l r)|]; trivb.
  - destruct (index_key i) as [key|]; [|trivb]. apply brk_in_rbind; [apply den2_brk|intros w]. destruct (fn_index2 w key); trivb.
  - apply brk_in_rbind; [apply den2_brk|intros ix]. apply brk_in_rbind; [apply den2_brk|intros w]. destruct (fn_index2 w ix); trivb.
  - apply brk_in_rbind; [destruct a as [a|]; [apply den2_brk|trivb]|intros sv].
    apply brk_in_rbind; [destruct b as [b|]; [apply den2_brk|trivb]|intros ev].
    apply brk_in_rbind; [apply den2_brk|intros w]. destruct (fn_slice w ev sv); trivb.
  - apply fmt_res_brk.
  - apply fmt_res_brk.
  - apply den_ents2_brk.
  - apply brk_in_rbind; [apply den2_brk|intros w]. destruct (pmb rs pt w) as [bl|x] eqn:E.
    + rewrite penv_eq. pose proof (den2_brk q2 ((bl ++ nulls_l pt) ++ rho) v) as H.
      rewrite (bvp_lab_ids _ _ (penv_bvp _ _ _ E)) in H. exact H.
    + destruct (pmb_err _ _ _ E) as [(c & val & ->)|(why & ->)]; trivb.
  }
  { destruct es; intros rho vv acc; cbn [den_ents2].
    - destruct (build_object (rev acc) []); trivb.
    - apply brk_in_rbind; [apply den2_brk|intros x]. apply den_ents2_brk.
    - apply brk_in_rbind; [apply den2_brk|intros kx]. apply brk_in_rbind; [apply den2_brk|intros x]. apply den_ents2_brk. }
Qed.

Lemma den2_brk_lt (Inv : sst -> Prop) q rho v : (forall s, Inv s -> (lab_bound rho <= nextid s)%N) -> brk_lt Inv (den2 rs q rho v).
Proof.
  intros H. apply (brk_lt_of_in Inv (lab_ids rho)); [|apply den2_brk].
  intros s l Hs Hl. specialize (H s Hs). apply lab_ids_lt in Hl. lia.
Qed.

Fixpoint den2_depth0 (q : qz) : forall rho v, depth0 (den2 rs q rho v)
with den_ents2_depth0 (es : ents2) : forall rho v acc, depth0 (den_ents2 rs es rho v acc).
Proof.
  {
  destruct q; intros rho v; cbn [den2]; try triv0.
  - apply depth0_rbind; [apply den2_depth0|intros w; apply den2_depth0].
  - apply depth0_rseq; apply den2_depth0.
  - apply depth0_rbind; [apply den2_depth0|intros w]. destruct w; triv0.
  - apply depth0_rbind; [apply den2_depth0|intros w]. destruct (fn_index2 w (VStr (c :: k))); triv0.
  - apply depth0_rbind; [apply den2_depth0|intros w]. destruct (truthy w); apply den2_depth0.
  - pose proof (den2_depth0 q rho v) as IH. destruct (den2 rs q rho v) as [ws [[d c val| | | | |]|]]; try exact IH.
    assert (d = O) by (eapply IH; reflexivity). subst d.
    destruct h as [h|]; [|triv0].
    destruct val as [e|]; [|triv0].
    apply depth0_rseq; [triv0|]. apply den2_depth0.
  - destruct (fn_length v); triv0.
  - apply depth0_rbind; [apply den2_depth0|intros w; apply den2_depth0].
  - destruct (lookup_var rho x); triv0.
  - pose proof (den2_depth0 q rho v) as IH. destruct (den2 rs q rho v) as [ws [x|]]; [|triv0].
    intros d c val E. cbn in E. eapply IH. exact E.
  - apply depth0_rbind; [apply den2_depth0|intros s0].
    pose proof (den2_depth0 q1 rho v) as IHs. destruct (den2 rs q1 rho v) as [ws sx].
    destruct (reduce_fold0 _ ws s0) as [acc|e] eqn:ER.
    + destruct sx as [e|]; [|triv0]. intros d c val E. cbn in E. eapply IHs. exact E.
    + intros d c val E. cbn in E. injection E as ->.
      eapply reduce_fold0_depth0; [|exact ER]. intros w acc. apply den2_depth0.
  - pose proof (den2_depth0 q1 rho v) as IHa. destruct (den2 rs q1 rho v) as [ws [x|]].
    + intros d c val E. cbn in E. eapply IHa. exact E.
    + destruct (filter truthy ws); [apply den2_depth0|triv0].
  - apply depth0_rbind; [apply den2_depth0|intros s0].
    pose proof (den2_depth0 q1 rho v) as IHs. destruct (den2 rs q1 rho v) as [ws sx].
    apply depth0_rseq; [|exact IHs].
    apply foreach_fold0_depth0; [intros w acc; apply den2_depth0|].
    intros w u. destruct ext as [e|]; [apply den2_depth0|triv0].
  - pose proof (den2_depth0 q (BLabel nm (lab_bound rho) :: rho) v) as IH.
    destruct (den2 rs q (BLabel nm (lab_bound rho) :: rho) v) as [ws [[d c val|l| | | |]|]]; cbn [label_res]; try exact IH.
    destruct (l =? lab_bound rho)%N; [triv0|exact IH].
  - destruct (lookup_label rho nm); triv0.
  - apply depth0_rbind; [apply den2_depth0|intros r]. apply depth0_rbind; [apply den2_depth0|intros l].
    unfold binop_res. destruct (op_binop o) as [f|]; [destruct (f l r)|]; triv0.
  - destruct (index_key i) as [key|]; [|triv0]. apply depth0_rbind; [apply den2_depth0|intros w]. destruct (fn_index2 w key); triv0.
  - apply depth0_rbind; [apply den2_depth0|intros ix]. apply depth0_rbind; [apply den2_depth0|intros w]. destruct (fn_index2 w ix); triv0.
  - apply depth0_rbind; [destruct a as [a|]; [apply den2_depth0|triv0]|intros sv].
    apply depth0_rbind; [destruct b as [b|]; [apply den2_depth0|triv0]|intros ev].
    apply depth0_rbind; [apply den2_depth0|intros w]. destruct (fn_slice w ev sv); triv0.
  - apply fmt_res_depth0.
  - apply fmt_res_depth0.
  - apply den_ents2_depth0.
  - apply depth0_rbind; [apply den2_depth0|intros w]. destruct (pmb rs pt w) as [bl|x] eqn:E.
    + apply den2_depth0.
    + destruct (pmb_err _ _ _ E) as [(c & val & ->)|(why & ->)]; triv0.
  }
  { destruct es; intros rho vv acc; cbn [den_ents2].
    - destruct (build_object (rev acc) []); triv0.
    - apply depth0_rbind; [apply den2_depth0|intros x]. apply den_ents2_depth0.
    - apply depth0_rbind; [apply den2_depth0|intros kx]. apply depth0_rbind; [apply den2_depth0|intros x]. apply den_ents2_depth0. }
Qed.

Fixpoint den2_ren (q : qz) : forall p rho v, den2 rs q (ren_env p rho) v = ren_res p (den2 rs q rho v)
with den_ents2_ren (es : ents2) : forall p rho v acc, den_ents2 rs es (ren_env p rho) v acc = ren_res p (den_ents2 rs es rho v acc).
Proof.
  {
  destruct q; intros p rho v; cbn [den2]; try reflexivity.
  - rewrite ren_rbind, den2_ren. apply rbind_ext. intros w. apply den2_ren.
  - rewrite ren_rseq, !den2_ren. reflexivity.
  - rewrite ren_rbind, den2_ren. apply rbind_ext. intros w. destruct w; reflexivity.
  - rewrite ren_rbind, den2_ren. apply rbind_ext. intros w. destruct (fn_index2 w (VStr (c :: k))); reflexivity.
  - rewrite ren_rbind, den2_ren. apply rbind_ext. intros w. destruct (truthy w); apply den2_ren.
  - rewrite den2_ren. destruct (den2 rs q rho v) as [ws [[[|d] c val|l| | | |]|]]; cbn [ren_res fst snd option_map ren_exn]; try reflexivity.
    destruct h as [h|]; [|reflexivity]. destruct val as [e|]; [|reflexivity].
    rewrite ren_rseq, den2_ren. reflexivity.
  - destruct (fn_length v); reflexivity.
  - rewrite ren_rbind, den2_ren. apply rbind_ext. intros w. exact (den2_ren q2 p (bind_env rho x w) v).
  - rewrite lookup_var_ren. destruct (lookup_var rho x); reflexivity.
  - rewrite den2_ren. destruct (den2 rs q rho v) as [ws [x|]]; reflexivity.
  - rewrite ren_rbind, den2_ren. apply rbind_ext. intros s0. rewrite (den2_ren q1).
    destruct (den2 rs q1 rho v) as [ws sx]. cbn [ren_res fst snd].
    rewrite (reduce_fold0_ren p _ (fun w acc => den2 rs q3 (BVar x (plain w) :: rho) acc))
      by (intros w acc; exact (den2_ren q3 p (BVar x (plain w) :: rho) acc)).
    destruct (reduce_fold0 _ ws s0) as [acc|e]; [|reflexivity]. destruct sx; reflexivity.
  - rewrite (den2_ren q1). destruct (den2 rs q1 rho v) as [ws [x|]]; cbn [ren_res fst snd option_map]; [reflexivity|].
    destruct (filter truthy ws); [apply den2_ren|reflexivity].
  - rewrite ren_rbind, den2_ren. apply rbind_ext. intros s0. rewrite (den2_ren q1).
    destruct (den2 rs q1 rho v) as [ws sx]. cbn [ren_res fst snd]. rewrite ren_rseq. f_equal.
    apply foreach_fold0_ren.
    + intros w acc. exact (den2_ren q3 p (BVar x (plain w) :: rho) acc).
    + intros w u. destruct ext as [e|]; [exact (den2_ren e p (BVar x (plain w) :: rho) u)|reflexivity].
  - (* label: the id chosen under the renamed environment is the image of the id chosen under rho *)
    set (ID := lab_bound rho). set (ID' := lab_bound (ren_env p rho)).
    set (p' := fun i : N => if (i =? ID)%N then ID' else p i).
    assert (E : BLabel nm ID' :: ren_env p rho = ren_env p' (BLabel nm ID :: rho)).
    { cbn [ren_env map ren_b]. unfold p' at 1. rewrite N.eqb_refl. f_equal. apply ren_env_ext.
      intros l Hl. unfold p'. apply lab_ids_lt in Hl. destruct (N.eqb_spec l ID); [subst ID; lia|reflexivity]. }
    rewrite E, den2_ren.
    pose proof (den2_brk q (BLabel nm ID :: rho) v) as Hb. cbn [lab_ids] in Hb.
    destruct (den2 rs q (BLabel nm ID :: rho) v) as [ws [[d c val|l| | | |]|]]; cbn [ren_res fst snd option_map ren_exn label_res]; try reflexivity.
    destruct (N.eqb_spec l ID) as [->|Hne].
    + unfold p'. rewrite N.eqb_refl, N.eqb_refl. reflexivity.
    + destruct (Hb l eq_refl) as [H|H]; [congruence|].
      unfold p'. destruct (N.eqb_spec l ID); [contradiction|].
      assert (Hlt' : (p l < ID')%N).
      { apply lab_ids_lt. rewrite lab_ids_ren. apply in_map. exact H. }
      destruct (N.eqb_spec (p l) ID'); [lia|]. unfold ren_res. cbn [fst snd option_map ren_exn].
      destruct (N.eqb_spec l ID); [contradiction|]. reflexivity.
  - rewrite lookup_label_ren. destruct (lookup_label rho nm); reflexivity.
  - rewrite ren_rbind, den2_ren. apply rbind_ext. intros r. rewrite ren_rbind, den2_ren. apply rbind_ext. intros l.
    unfold binop_res. destruct (op_binop o) as [f|]; [destruct (f l r)|]; reflexivity.
  - destruct (index_key i) as [key|]; [|reflexivity]. rewrite ren_rbind, den2_ren. apply rbind_ext. intros w. destruct (fn_index2 w key); reflexivity.
  - rewrite ren_rbind, den2_ren. apply rbind_ext. intros ix. rewrite ren_rbind, den2_ren. apply rbind_ext. intros w.
    destruct (fn_index2 w ix); reflexivity.
  - rewrite ren_rbind. replace (match a with Some a0 => den2 rs a0 (ren_env p rho) v | None => ([VNull], None) end)
      with (ren_res p (match a with Some a0 => den2 rs a0 rho v | None => ([VNull], None) end))
      by (destruct a as [a|]; [symmetry; apply den2_ren|reflexivity]).
    apply rbind_ext. intros sv. rewrite ren_rbind.
    replace (match b with Some b0 => den2 rs b0 (ren_env p rho) v | None => ([VNull], None) end)
      with (ren_res p (match b with Some b0 => den2 rs b0 rho v | None => ([VNull], None) end))
      by (destruct b as [b|]; [symmetry; apply den2_ren|reflexivity]).
    apply rbind_ext. intros ev. rewrite ren_rbind, den2_ren. apply rbind_ext. intros w. destruct (fn_slice w ev sv); reflexivity.
  - unfold fmt_res. destruct (rs && _); [reflexivity|destruct (fn_tostring v); reflexivity].
  - unfold fmt_res. destruct (rs && _); [reflexivity|destruct (fn_tojson v); reflexivity].
  - apply den_ents2_ren.
  - rewrite ren_rbind, den2_ren. apply rbind_ext. intros w. destruct (pmb rs pt w) as [bl|x] eqn:E.
    + rewrite !penv_eq. rewrite <- (bvp_ren p _ rho (penv_bvp _ _ _ E)). apply den2_ren.
    + destruct (pmb_err _ _ _ E) as [(c & val & ->)|(why & ->)]; reflexivity.
  }
  { destruct es; intros p rho vv acc; cbn [den_ents2].
    - destruct (build_object (rev acc) []); reflexivity.
    - rewrite ren_rbind, den2_ren. apply rbind_ext. intros x. apply den_ents2_ren.
    - rewrite ren_rbind, den2_ren. apply rbind_ext. intros kx. rewrite ren_rbind, den2_ren. apply rbind_ext. intros x. apply den_ents2_ren. }
Qed.

End Link2.
