(* StreamGenProofs.v — the run of tostream's generator in Sem is the structural walk gen_run. *)
From Coq Require Import String.
From Coq Require Import List ZArith NArith Bool Lia FunctionalExtensionality.
From Verif Require Import common.Sexp sem.JV sem.Syntax sem.Natives sem.Sem sem.SemProofs sem.BuiltinLaws sem.BuiltinLawsProofs
  sem.BuiltinCalls sem.BuiltinCallsProofs sem.StreamLaws sem.StreamLawsProofs sem.StreamGen.
Import ListNotations.

Ltac red_eval := cbn [evals_n step ev_q step_eval_q push_defs fold_left ev_t step_eval_t rev app ev_index ev_call ev_bindpat ev_string ev_path].
Ltac cbool t := let v := eval vm_compute in t in
                match v with true => change t with true | false => change t with false end.
Ltac closed_bools :=
  repeat match goal with
         | |- context [is_var_name ?x] => cbool (is_var_name x)
         | |- context [list_N_eqb ?x ?y] => cbool (list_N_eqb x y)
         | |- context [is_formatter ?x] => cbool (is_formatter x)
         end.
Ltac ev1 := unfold q_term, q_call, q_bin, q_identity, q_path, q_dotdot, q_optiter, q_var, q_r; red_eval;
            try unfold step_call at 1;
            cbn [step_eval_index step_call step_bind_pat step_eval_string
                 cps_fold combine fst snd plain List.length Nat.eqb andb orb negb codes lookup_fun lookup_var lookup_label
                 if_chain alts_loop flat_map strip_dollar term_index_key query_index_key index_key term_number op_binop];
            closed_bools.
Ltac ev := repeat (progress ev1).

Section Gen.
Variable bs : list funcdef.

(* calling a parameterless local definition r (abstract body) *)
Lemma r_call n body x ps (K0 : K) :
  eval_q bs (3 + n) [BFun (FuncDef (codes "r") [] body)] q_r x ps K0 =
  (tick ;; eval_q bs n [BFun (FuncDef (codes "r") [] body)] body x ps K0).
Proof. unfold eval_q. cbn [Nat.add]. ev. reflexivity. Qed.

(* (.[]? | qr), .   for an abstract qr *)
Lemma body_unfold n rho qr x ps (K0 : K) :
  eval_q bs (7 + n) rho (q_bin (q_term (TQuery (q_bin q_optiter OpPipe qr))) OpComma q_identity) x ps K0 =
  (try_catch (iterate x ps (fun y ps'' => down (eval_q bs (3 + n) rho qr y ps'' K0))) (fun _ => ret tt) ;; K0 x ps).
Proof. unfold eval_q. cbn [Nat.add]. ev. reflexivity. Qed.

(* .[]? in path mode from the value last navigated to: one fresh id per child; try/down are transparent *)
Fixpoint go_elems (k : K) (rp : list jv) (l : list (jv * jv)) : M unit :=
  match l with
  | [] => ret tt
  | (key, e) :: r => (id <- fresh ;; k (e, Some id) (Some (mkp (key :: rp) e id))) ;; go_elems k rp r
  end.

Lemma go_down (k : K) rp elems : forall s,
  (fix go (l : list (jv * jv)) : M unit :=
     match l with
     | [] => ret tt
     | (key, e) :: r => (id <- fresh ;; down (k (e, Some id) (Some (mkp (key :: rp) e id)))) ;; go r
     end) elems s = down (go_elems k rp elems) s.
Proof.
  induction elems as [|[key e] r IH]; intros s; [reflexivity|].
  set (G := fix go (l : list (jv * jv)) : M unit :=
     match l with
     | [] => ret tt
     | (key, e) :: r => (id <- fresh ;; down (k (e, Some id) (Some (mkp (key :: rp) e id)))) ;; go r
     end) in *.
  change (G ((key, e) :: r) s) with (((id <- fresh ;; down (k (e, Some id) (Some (mkp (key :: rp) e id)))) ;; G r) s).
  cbn [go_elems]. unfold bind, fresh. cbn [fst snd]. unfold down at 1 2.
  destruct (k (e, Some (nextid s)) (Some (mkp (key :: rp) e (nextid s))) _) as [[[]|x] s1].
  - rewrite IH. reflexivity.
  - destruct x; reflexivity.
Qed.

Lemma optiter_path v id rp (k : K) s :
  try_catch (iterate (v, Some id) (Some (mkp rp v id)) (fun y ps'' => down (k y ps''))) (fun _ => ret tt) s =
  go_elems k rp (elems_of v) s.
Proof.
  assert (Hchk : forall st, check_intact (v, Some id) (mkp rp v id) EInvalidPathIter st = (inl tt, st)).
  { intros st. unfold check_intact, intact. cbn [snd lid]. rewrite N.eqb_refl. reflexivity. }
  unfold iterate. cbn [fst rpath].
  destruct v as [| | | |l|kvs]; cbn [elems_of go_elems]; try (unfold try_catch, raise_err, ret; reflexivity).
  - unfold try_catch at 1. unfold bind at 1. rewrite Hchk. rewrite go_down.
    exact (try_down_id (go_elems k rp _) (fun _ => ret tt) s).
  - unfold try_catch at 1. unfold bind at 1. rewrite Hchk. rewrite go_down.
    exact (try_down_id (go_elems k rp _) (fun _ => ret tt) s).
Qed.

Fixpoint go2 (f : jv -> jv -> M unit) (l : list (jv * jv)) : M unit :=
  match l with
  | [] => ret tt
  | (key, e) :: r => (_ <- fresh ;; f key e) ;; go2 f r
  end.

Lemma go_elems_go2 (k : K) rp (f : jv -> jv -> M unit) elems :
  (forall key e, In (key, e) elems -> forall id st, k (e, Some id) (Some (mkp (key :: rp) e id)) st = f key e st) ->
  forall s, go_elems k rp elems s = go2 f elems s.
Proof.
  induction elems as [|[key e] r IH]; intros H s; [reflexivity|].
  cbn [go_elems go2]. unfold bind, fresh. cbn [fst snd].
  rewrite (H key e (or_introl eq_refl)). destruct (f key e _) as [[[]|x] s1]; [|reflexivity].
  apply IH. intros key' e' Hin. apply H. right. exact Hin.
Qed.

Lemma go2_arr (f : jv -> jv -> M unit) (g : jv -> Z -> M unit) : (forall e i, f (VInt i) e = g e i) ->
  forall l i, go2 f (combine (map VInt (iota (List.length l) i)) l) =
              (fix go (l : list jv) (i : Z) {struct l} : M unit :=
                 match l with
                 | [] => ret tt
                 | e :: r => (_ <- fresh ;; g e i) ;; go r (i + 1)%Z
                 end) l i.
Proof.
  intros H. induction l as [|e r IH]; intros i; [reflexivity|].
  cbn [List.length iota map combine go2]. rewrite H, IH. reflexivity.
Qed.

Lemma go2_obj (f : jv -> jv -> M unit) (g : bytes -> jv -> M unit) : (forall key e, f (VStr key) e = g key e) ->
  forall kvs, go2 f (map (fun kv => (VStr (fst kv), snd kv)) kvs) =
              (fix go (l : list (bytes * jv)) {struct l} : M unit :=
                 match l with
                 | [] => ret tt
                 | (key, e) :: r => (_ <- fresh ;; g key e) ;; go r
                 end) kvs.
Proof.
  intros H. induction kvs as [|[key e] r IH]; [reflexivity|].
  cbn [map go2 fst snd]. rewrite H, IH. reflexivity.
Qed.

Lemma vsize_arr_in l e : In e l -> (vsize e < vsize (VArr l))%nat.
Proof.
  cbn [vsize]. induction l as [|x r IH]; intros H; [destruct H|]. destruct H as [->|H]; [lia|]. specialize (IH H). lia.
Qed.
Lemma vsize_obj_in kvs k e : In (k, e) kvs -> (vsize e < vsize (VObj kvs))%nat.
Proof.
  cbn [vsize]. induction kvs as [|[k0 x] r IH]; intros H; [destruct H|]. destruct H as [[= -> ->]|H]; [lia|]. specialize (IH H). lia.
Qed.
Lemma elems_size v key e : In (key, e) (elems_of v) -> (vsize e < vsize v)%nat.
Proof.
  destruct v as [| | | |l|kvs]; cbn [elems_of]; try (intros []).
  - intros H. apply in_combine_r in H. apply vsize_arr_in. exact H.
  - intros H. apply in_map_iff in H as [[k0 x] [[= <- <-] H]]. eapply vsize_obj_in. exact H.
Qed.

Lemma kpath_at kp v id rp s : kpath kp (v, Some id) (Some (mkp rp v id)) s = kp (rev rp) s.
Proof. unfold kpath, bind, check_intact, intact. cbn [snd lid rpath]. rewrite N.eqb_refl. reflexivity. Qed.

(* THE WALK: with fuel 10 + 7 * (size of the value) the recursive definition r of tostream, run in path mode from a
   value that is the one last navigated to, is gen_run *)
Lemma r_run kp d : forall v, (vsize v <= d)%nat -> forall n id rp s, (7 * d <= n)%nat ->
  eval_q bs (10 + n) env_ts q_r (v, Some id) (Some (mkp rp v id)) (kpath kp) s = gen_run kp v rp s.
Proof.
  induction d as [|d IH]; intros v Hv n id rp s Hn; [destruct v; cbn [vsize] in Hv; lia|].
  change (10 + n)%nat with (3 + (7 + n))%nat. unfold env_ts, ts_r_def. rewrite r_call.
  change (q_call (codes "r") []) with q_r. rewrite body_unfold.
  change [BFun (FuncDef (codes "r") [] (q_bin (q_term (TQuery (q_bin q_optiter OpPipe q_r))) OpComma q_identity))] with env_ts.
  assert (G : forall st, gen_run kp v rp st =
                         (tick ;; (go2 (fun key e => gen_run kp e (key :: rp)) (elems_of v) ;; kp (rev rp))) st).
  { intros st. destruct v as [| | | |l|kvs]; try reflexivity.
    - cbn [gen_run elems_of]. rewrite (go2_arr _ (fun e i => gen_run kp e (VInt i :: rp))) by reflexivity. reflexivity.
    - cbn [gen_run elems_of]. rewrite (go2_obj _ (fun key e => gen_run kp e (VStr key :: rp))) by reflexivity. reflexivity. }
  rewrite G. apply bind_ext_r. intros st. unfold bind.
  rewrite optiter_path.
  rewrite (go_elems_go2 _ rp (fun key e => gen_run kp e (key :: rp))).
  - destruct (go2 _ _ st) as [[[]|x] s1]; [apply kpath_at|reflexivity].
  - intros key e Hin id' st'.
    replace (3 + n)%nat with (10 + (n - 7))%nat by lia.
    apply IH; [pose proof (elems_size v key e Hin); lia|lia].
Qed.

Hypothesis Hpath : lookup_builtin bs (codes "path") 1 = None.

(* the generator of tostream on ANY value: a fresh id for the root, then the walk *)
Lemma gen_eval n v (k : K) s : (7 * vsize v <= n)%nat ->
  eval_q bs (14 + n) [] ts_gen (plain v) None k s =
  (_ <- fresh ;; gen_run (fun p => k (plain (VArr p)) None) v []) s.
Proof.
  intros Hn. change (14 + n)%nat with (4 + (10 + n))%nat. unfold ts_gen.
  rewrite (path_call bs Hpath (10 + n) [] _ (plain v) None k eq_refl).
  transitivity ((id <- fresh ;; eval_q bs (10 + n) env_ts q_r (v, Some id) (Some (mkp [] v id))
                                  (kpath (fun p => k (plain (VArr p)) None))) s); [reflexivity|].
  unfold bind, fresh. cbn [fst snd].
  apply (r_run _ (vsize v)); [lia|exact Hn].
Qed.

(* g as $p | t   for abstract g and t (top level: empty environment) *)
Lemma bind_p_gen n (g t0 : query) v ps (k : K) :
  eval_q bs (2 + n) [] (Query [] [] None (Some g) (Some OpPipe) (Some t0) [Pattern (codes "$p") [] []]) v ps k =
  eval_q bs (1 + n) [] g v None
    (fun x _ => eval_q bs (1 + n) [BVar (codes "$p") x; BVar (codes "$p") (plain VNull)] t0 v ps k).
Proof.
  unfold eval_q. cbn [Nat.add]. red_eval.
  destruct BuiltinLawsProofs.syn_depth_S as [d Hd]. rewrite Hd.
  cbn [pattern_vars flat_map app fold_left alts_loop codes ev_bindpat evals_n step step_bind_pat]. reflexivity.
Qed.
End Gen.

(* tostream on ANY value v, fuel 20 + 7 * (size of v), top-level consumer k: one unit of budget for the call, a fresh id
   for the root, then the walk of v, children first; at every node (path p) the event of the value getpath finds there *)
Theorem tostream_sem bs : stream_pins bs -> forall n v (k : K) s, (7 * vsize v <= n)%nat ->
  eval_q bs (20 + n) [] (q_call (codes "tostream") []) (plain v) None k s =
  (tick ;; (_ <- fresh ;;
            gen_run (fun p => lift (fn_getpath v (VArr p)) (fun x => k (plain (ts_event p x)) None)) v [])) s.
Proof.
  intros Hp n v k s Hn. pose proof Hp as (H1 & H2 & H3 & H4 & H5 & H6).
  change (20 + n)%nat with (3 + (17 + n))%nat.
  rewrite (builtin_call_unfold bs (17 + n) [] (codes "tostream") [] _ _ _ (plain v) None k eq_refl eq_refl H2).
  unfold bind_params, closures. cbn [combine fold_left cps_fold].
  apply bind_ext_r. intros st.
  change (17 + n)%nat with (2 + (15 + n))%nat. rewrite bind_p_gen.
  change (1 + (15 + n))%nat with (14 + (2 + n))%nat.
  rewrite (gen_eval bs H5 (2 + n)) by lia.
  replace (fun p : list jv => eval_q bs (14 + (2 + n)) [BVar (codes "$p") (plain (VArr p)); BVar (codes "$p") (plain VNull)] ts_tail (plain v) None k)
    with (fun p : list jv => lift (fn_getpath v (VArr p)) (fun x => k (plain (ts_event p x)) None)); [reflexivity|].
  apply functional_extensionality. intros p. apply functional_extensionality. intros s0.
  symmetry. exact (ts_tail_sem bs Hp (5 + n) p v k s0).
Qed.
