(* BuiltinCallsProofs.v — proofs of the call laws of BuiltinCalls.v. *)
From Coq Require Import String.
From Coq Require Import List ZArith NArith Bool Lia.
From Verif Require Import common.Sexp sem.JV sem.Syntax sem.Natives sem.Sem sem.SemProofs sem.BuiltinLaws sem.BuiltinCalls.
Import ListNotations.

Ltac red_eval := cbn [evals_n step ev_q step_eval_q push_defs fold_left ev_t step_eval_t rev app ev_index ev_call ev_bindpat ev_string].
Ltac cbool t := let v := eval vm_compute in t in
                match v with true => change t with true | false => change t with false end.
Ltac closed_bools :=
  repeat match goal with
         | |- context [is_var_name ?x] => cbool (is_var_name x)
         | |- context [list_N_eqb ?x ?y] => cbool (list_N_eqb x y)
         | |- context [is_formatter ?x] => cbool (is_formatter x)
         end.
Ltac ev1 := unfold q_term, q_call, q_bin, q_identity, q_fld, q_str, q_iter, q_empty, q_break; red_eval;
            try unfold step_call at 1;
            cbn [step_eval_index step_call step_bind_pat step_eval_string
                 cps_fold combine fst snd plain List.length Nat.eqb andb orb negb codes lookup_fun lookup_var lookup_label
                 if_chain alts_loop flat_map strip_dollar term_index_key query_index_key index_key term_number];
            closed_bools.
Ltac ev := repeat (progress ev1).
Ltac rw H := let H' := fresh in pose proof H as H'; unfold undefined_in in H'; cbn [codes] in H'; rewrite H'; clear H'.

Lemma syn_depth_S : exists d, syn_depth = S d.
Proof. eexists. vm_compute. reflexivity. Qed.

Section Calls.
Variable bs : list funcdef.

(* THE GENERAL LAW.  A call name(args) of a name the program does not define and builtin.jq does: one unit of
   the step budget, then the body of the definition in builtin.jq, run by the same evaluator with the
   parameters bound as step_call binds them — for every input, path state, continuation and state. *)
Theorem builtin_call_unfold m rho name args nm params body v ps k :
  is_var_name name && Nat.eqb (List.length args) 0 = false ->
  lookup_fun rho name (List.length args) = None ->
  lookup_builtin bs name (List.length args) = Some (FuncDef nm params body) ->
  eval_q bs (3 + m) rho (q_call name args) v ps k =
  (tick ;; bind_params bs m rho params args v (fun benv => eval_q bs m benv body v ps k)).
Proof.
  intros H1 H2 H3. unfold eval_q, q_call, q_term. cbn [Nat.add]. red_eval. unfold step_call.
  rewrite H1, H2, H3. reflexivity.
Qed.

Hypothesis Hmap : lookup_builtin bs (codes "map") 1 = Some map_def.
Hypothesis Hnot : lookup_builtin bs (codes "not") 0 = Some not_def.
Hypothesis Hselect : lookup_builtin bs (codes "select") 1 = Some select_def.
Hypothesis Hadd1 : lookup_builtin bs (codes "add") 1 = Some add1_def.
Hypothesis Hfirst : lookup_builtin bs (codes "first") 1 = Some first_def.
Hypothesis Hisempty : lookup_builtin bs (codes "isempty") 1 = Some isempty_def.
Hypothesis Hin : lookup_builtin bs (codes "in") 1 = Some in_def.
Hypothesis Hempty : lookup_builtin bs (codes "empty") 0 = None.
Hypothesis Hadd0 : lookup_builtin bs (codes "add") 0 = None.
Hypothesis Hhas : lookup_builtin bs (codes "has") 1 = None.

(* not: the negation of the input's truth value *)
Lemma not_call m rho v ps k : undefined_in rho "not" 0 ->
  eval_q bs (7 + m) rho (q_call (codes "not") []) v ps k = (tick ;; k (plain (VBool (negb (truthy (fst v))))) ps).
Proof.
  intros Hr. change (7 + m)%nat with (3 + (4 + m))%nat. rewrite (builtin_call_unfold (4 + m) rho (codes "not") [] _ _ _ v ps k eq_refl Hr Hnot).
  unfold bind_params, closures. cbn [combine fold_left cps_fold].
  unfold eval_q. cbn [Nat.add]. ev. destruct (truthy (fst v)); reflexivity.
Qed.

(* select(f): the input, once per truthy output of f (f runs on the input, outside path tracking) *)
Lemma select_call m rho f v ps k : undefined_in rho "select" 1 ->
  eval_q bs (9 + m) rho (q_call (codes "select") [f]) v ps k =
  (tick ;; (tick ;; eval_q bs (1 + m) rho f v None (fun x _ => if truthy (fst x) then k v ps else ret tt))).
Proof.
  intros Hr. change (9 + m)%nat with (3 + (6 + m))%nat. rewrite (builtin_call_unfold (6 + m) rho (codes "select") [f] _ _ _ v ps k eq_refl Hr Hselect).
  unfold bind_params, closures. cbn [combine fold_left cps_fold fst snd]. cbool (is_var_name (codes "f")). cbv iota.
  unfold eval_q. cbn [Nat.add]. ev. rw Hempty. unfold guard_repsens. ev. reflexivity.
Qed.

(* map(f): the array of the outputs of f on the elements, in order (f in path-tracking mode when map is) *)
Lemma map_call m rho f v ps k : undefined_in rho "map" 1 ->
  eval_q bs (9 + m) rho (q_call (codes "map") [f]) v ps k =
  (tick ;; with_cell (scoped_ids ps) (plain (VArr []))
             (fun c => iterate v ps (fun x ps' => tick ;; eval_q bs m rho f x ps' (coll c)))
             (fun a => match fst a with VArr l => k (plain (VArr (rev' l))) ps | _ => skipM "cell" end)).
Proof.
  intros Hr. change (9 + m)%nat with (3 + (6 + m))%nat. rewrite (builtin_call_unfold (6 + m) rho (codes "map") [f] _ _ _ v ps k eq_refl Hr Hmap).
  unfold bind_params, closures. cbn [combine fold_left cps_fold fst snd]. cbool (is_var_name (codes "f")). cbv iota.
  unfold eval_q. cbn [Nat.add]. ev. reflexivity.
Qed.

(* add(f): the native add of the array of the outputs of f *)
Lemma add1_call m rho f v ps k : undefined_in rho "add" 1 ->
  eval_q bs (9 + m) rho (q_call (codes "add") [f]) v ps k =
  (tick ;; with_cell (scoped_ids ps) (plain (VArr []))
             (fun c => tick ;; eval_q bs m rho f v ps (coll c))
             (fun a => match fst a with
                       | VArr l => lift (fn_add (VArr (rev' l))) (fun w => k (plain w) ps)
                       | _ => skipM "cell"
                       end)).
Proof.
  intros Hr. change (9 + m)%nat with (3 + (6 + m))%nat. rewrite (builtin_call_unfold (6 + m) rho (codes "add") [f] _ _ _ v ps k eq_refl Hr Hadd1).
  unfold bind_params, closures. cbn [combine fold_left cps_fold fst snd]. cbool (is_var_name (codes "f")). cbv iota.
  unfold eval_q. cbn [Nat.add]. ev. rw Hadd0. unfold guard_repsens. ev. reflexivity.
Qed.

(* first(g): the first output of g; g is abandoned right after its consumer returns (no later error or
   divergence of g can show) *)
Lemma first_call m rho g v ps k : undefined_in rho "first" 1 ->
  eval_q bs (12 + m) rho (q_call (codes "first") [g]) v ps k =
  (tick ;; with_label (scoped_ids ps)
             (fun l => tick ;; eval_q bs (3 + m) rho g v ps (fun x ps' => k x ps' ;; raise (XBreak l)))).
Proof.
  intros Hr. change (12 + m)%nat with (3 + (9 + m))%nat. rewrite (builtin_call_unfold (9 + m) rho (codes "first") [g] _ _ _ v ps k eq_refl Hr Hfirst).
  unfold bind_params, closures. cbn [combine fold_left cps_fold fst snd]. cbool (is_var_name (codes "g")). cbv iota.
  unfold eval_q. cbn [Nat.add]. ev. reflexivity.
Qed.

(* isempty(g): false as soon as g has an output (g is then abandoned), true when g ends without one *)
Lemma isempty_call m rho g v ps k : undefined_in rho "isempty" 1 ->
  eval_q bs (14 + m) rho (q_call (codes "isempty") [g]) v ps k =
  (tick ;; with_label (scoped_ids ps)
             (fun l => (tick ;; eval_q bs (2 + m) rho g v ps (fun x ps' => k (plain VFalse) ps' ;; raise (XBreak l))) ;;
                       k (plain VTrue) ps)).
Proof.
  intros Hr. change (14 + m)%nat with (3 + (11 + m))%nat. rewrite (builtin_call_unfold (11 + m) rho (codes "isempty") [g] _ _ _ v ps k eq_refl Hr Hisempty).
  unfold bind_params, closures. cbn [combine fold_left cps_fold fst snd]. cbool (is_var_name (codes "g")). cbv iota.
  unfold eval_q. cbn [Nat.add]. ev. reflexivity.
Qed.

(* in(xs): has(x; input) for every output x of xs (xs runs on the input, in the caller's path mode) *)
Lemma in_call m rho xs v ps k : undefined_in rho "in" 1 ->
  eval_q bs (12 + m) rho (q_call (codes "in") [xs]) v ps k =
  (tick ;; (tick ;; eval_q bs (4 + m) rho xs v ps (fun x ps' => lift (fn_has (fst x) (fst v)) (fun w => k (plain w) ps')))).
Proof.
  intros Hr. change (12 + m)%nat with (3 + (9 + m))%nat. rewrite (builtin_call_unfold (9 + m) rho (codes "in") [xs] _ _ _ v ps k eq_refl Hr Hin).
  unfold bind_params, closures. cbn [combine fold_left cps_fold fst snd]. cbool (is_var_name (codes "xs")). cbv iota.
  unfold eval_q. cbn [Nat.add]. ev. destruct syn_depth_S as [d Hd]. rewrite Hd. cbn [pattern_vars flat_map app fold_left]. ev.
  rw Hhas. unfold guard_repsens. ev. reflexivity.
Qed.
End Calls.

(* the particular laws, for a table with the pins *)
Theorem calls_sem bs : calls_pins bs -> forall m rho v ps k,
  (undefined_in rho "not" 0 ->
   eval_q bs (7 + m) rho (q_call (codes "not") []) v ps k = (tick ;; k (plain (VBool (negb (truthy (fst v))))) ps)) /\
  (forall f, undefined_in rho "select" 1 ->
   eval_q bs (9 + m) rho (q_call (codes "select") [f]) v ps k =
   (tick ;; (tick ;; eval_q bs (1 + m) rho f v None (fun x _ => if truthy (fst x) then k v ps else ret tt)))) /\
  (forall f, undefined_in rho "map" 1 ->
   eval_q bs (9 + m) rho (q_call (codes "map") [f]) v ps k =
   (tick ;; with_cell (scoped_ids ps) (plain (VArr []))
              (fun c => iterate v ps (fun x ps' => tick ;; eval_q bs m rho f x ps' (coll c)))
              (fun a => match fst a with VArr l => k (plain (VArr (rev' l))) ps | _ => skipM "cell" end))) /\
  (forall f, undefined_in rho "add" 1 ->
   eval_q bs (9 + m) rho (q_call (codes "add") [f]) v ps k =
   (tick ;; with_cell (scoped_ids ps) (plain (VArr []))
              (fun c => tick ;; eval_q bs m rho f v ps (coll c))
              (fun a => match fst a with
                        | VArr l => lift (fn_add (VArr (rev' l))) (fun w => k (plain w) ps)
                        | _ => skipM "cell"
                        end))) /\
  (forall g, undefined_in rho "first" 1 ->
   eval_q bs (12 + m) rho (q_call (codes "first") [g]) v ps k =
   (tick ;; with_label (scoped_ids ps)
              (fun l => tick ;; eval_q bs (3 + m) rho g v ps (fun x ps' => k x ps' ;; raise (XBreak l))))) /\
  (forall g, undefined_in rho "isempty" 1 ->
   eval_q bs (14 + m) rho (q_call (codes "isempty") [g]) v ps k =
   (tick ;; with_label (scoped_ids ps)
              (fun l => (tick ;; eval_q bs (2 + m) rho g v ps (fun x ps' => k (plain VFalse) ps' ;; raise (XBreak l))) ;;
                        k (plain VTrue) ps))) /\
  (forall xs, undefined_in rho "in" 1 ->
   eval_q bs (12 + m) rho (q_call (codes "in") [xs]) v ps k =
   (tick ;; (tick ;; eval_q bs (4 + m) rho xs v ps (fun x ps' => lift (fn_has (fst x) (fst v)) (fun w => k (plain w) ps'))))).
Proof.
  intros (H1 & H2 & H3 & H4 & H5 & H6 & H7 & H8 & H9 & H10) m rho v ps k.
  split; [intros; apply not_call; assumption|].
  split; [intros; apply select_call; assumption|].
  split; [intros; apply map_call; assumption|].
  split; [intros; apply add1_call; assumption|].
  split; [intros; apply first_call; assumption|].
  split; [intros; apply isempty_call; assumption|].
  intros; apply in_call; assumption.
Qed.
