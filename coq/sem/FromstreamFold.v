(* FromstreamFold.v — the steps of fromstream folded over a list of events, as a pure function: definitions. *)
From Coq Require Import String.
From Coq Require Import List ZArith NArith Bool.
From Verif Require Import common.Sexp sem.JV sem.Syntax sem.Natives sem.Sem sem.BuiltinLaws sem.BuiltinCalls sem.StreamLaws sem.FromstreamLaws.
Import ListNotations.

(* the update on an event value *)
Definition fs_step_ev (acc ev : jv) : nres :=
  match ev with
  | VArr [VArr p; x] => fs_step2 acc p x
  | VArr [VArr p] => fs_step1 acc p
  | _ => NSkip []
  end.

(* what the extraction hands over for the accumulator u: Some [] nothing, Some [w] the value w, None an error *)
Definition fs_out (u : jv) : option (list jv) :=
  match fn_index2 u (VStr (codes "e")) with
  | NOk e => if truthy e then match fn_index2 u (VStr (codes "v")) with NOk w => Some [w] | _ => None end else Some []
  | _ => None
  end.

(* the fold: final accumulator and emitted values; None when a step or an extraction fails *)
Fixpoint fs_fold (acc : jv) (evs : list jv) : option (jv * list jv) :=
  match evs with
  | [] => Some (acc, [])
  | ev :: r =>
      match fs_step_ev acc ev with
      | NOk u => match fs_out u with
                 | Some o => match fs_fold u r with
                             | Some (a', os) => Some (a', o ++ os)
                             | None => None
                             end
                 | None => None
                 end
      | _ => None
      end
  end.

(* the state inside the foreach of fromstream entered at s: cell (nextid s) holds acc; outs emitted, ids allocated,
   tk units of budget spent *)
Definition zst (s : sst) (outs_ : list jv) (ids tk : nat) (acc : jv) : sst :=
  mkst (rev outs_ ++ outs s) (nout s + List.length outs_) (cap s) (nextid s + 1 + N.of_nat ids)%N (inputs s)
       ((nextid s, plain acc) :: cells s) (repsens s) (steps s - N.of_nat tk)%N.
